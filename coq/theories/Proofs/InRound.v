(* C01 o C02: decoding what the encoder writes for representable messages (graphics included)
   gives messages with the same meaning. *)
From RP Require Import Lib.Base Lib.Sexp Lib.Strings Lib.TrimSpace Model.Gfx Model.Flatten Model.MsgIn Model.EncIn Model.DecIn
  Spec.DenoteIn Spec.GrammarIn Proofs.InEncLines Proofs.InEnc Proofs.InGfxSeq.
Open Scope list_scope.
Open Scope Z_scope.

Section RoundTrip.
  Variable js : list Z -> HWCState.
  Variable jm : list Z -> list (option InboundMessage).
  Variable ncp : list Z -> option (list Z).
  Variable json_enc : HWCState -> list Z.
  Variable nc_print : list Z -> list Z.
  Variable olt : list Z -> bool.
  Variable nok : list Z -> bool.
  Hypothesis olt_ok : forall j, olt j = true -> strip_line_breaks j = j /\ single_line j = true.
  Hypothesis nok_ok : forall n, nok n = true -> ncp (nc_print n) = Some n /\ single_line (nc_print n) = true.

  Theorem dec_enc_in : forall ms p,
    forallb (rep_msg olt nok) ms = true ->
    exists ls ms', enc_in json_enc nc_print ms = Ok ls /\ dec_in js jm ncp ls = Ok ms' /\
                   run_msgs p ms' = run_msgs p ms.
  Proof.
    intros ms p R.
    destruct (enc_in_sound js jm ncp json_enc nc_print olt nok olt_ok nok_ok ms p None R) as (ls & E & W & S).
    assert (P : forallb (good_line js jm ncp) ls = true).
    { apply forallb_forall. intros l Hl. rewrite Forall_forall in W. specialize (W l Hl).
      unfold wf_in_line in W. unfold good_line. destruct (in_read js jm ncp l); try discriminate; reflexivity. }
    destruct (dec_in_sound js jm ncp ls p P) as (ms' & D & Q).
    exists ls, ms'. split; [exact E|]. split; [exact D|]. rewrite Q. exact S.
  Qed.
End RoundTrip.

(* JSON lines: what the decoder does with the oracle's answers (the field-level meaning of the
   JSON text is encoding/json's) *)
From RP Require Import Proofs.StringsProofs Proofs.InDecLines Proofs.InDec Proofs.InDecFam.
Lemma dec_line_json_state js jm ncp st r :
  dec_line js jm ncp st (123 :: r) = Ok (st, [state_msg (js (123 :: r))]).
Proof.
  assert (W : words_clash [123] = true) by (vm_compute; reflexivity).
  unfold words_clash in W. repeat (apply andb_true_iff in W; destruct W as [W ?]).
  unfold dec_line. change (123 :: r) with ([123] ++ r). unfold seq_eqb. rewrite !clash_neq by assumption.
  rewrite (lookup_flag_clash _ _ _ r H). reflexivity.
Qed.
Lemma dec_line_json_msgs js jm ncp st r :
  dec_line js jm ncp st (91 :: r) = Ok (st, filter_some (jm (91 :: r))).
Proof.
  assert (W : words_clash [91] = true) by (vm_compute; reflexivity).
  unfold words_clash in W. repeat (apply andb_true_iff in W; destruct W as [W ?]).
  unfold dec_line. change (91 :: r) with ([91] ++ r). unfold seq_eqb. rewrite !clash_neq by assumption.
  rewrite (lookup_flag_clash _ _ _ r H). reflexivity.
Qed.
