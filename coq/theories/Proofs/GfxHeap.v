(* "never altered after delivery" for the batch decoder: in the heap view (delivered messages
   hold the pointer the decoder keeps appending through) every delivered reference, resolved
   against the FINAL store, still reads the image it had when it was delivered. *)
From RP Require Import Lib.Base Lib.Sexp Lib.Strings Lib.B64 Model.Gfx Proofs.GfxBatch.
Open Scope Z_scope.
Open Scope list_scope.

Lemma upd_nat_length {A} : forall (l : list A) n v, length (upd_nat l n v) = length l.
Proof. induction l; intros [|n] v; cbn; auto. Qed.

Lemma upd_nat_same {A} : forall (l : list A) n v d, (n < length l)%nat -> nth n (upd_nat l n v) d = v.
Proof. induction l; intros [|n] v d H; cbn in *; try lia; auto. apply IHl. lia. Qed.

Lemma upd_nat_other {A} : forall (l : list A) n r v d, r <> n -> nth r (upd_nat l n v) d = nth r l d.
Proof. induction l; intros [|n] [|r] v d H; cbn; auto; try congruence. Qed.

Definition Rel (hs : hstate) (gs : gstate) : Prop :=
  h_count hs = gs_count gs /\ h_max hs = gs_max gs /\ h_list hs = gs_list gs /\ h_type hs = gs_type gs
  /\ h_get hs (h_cur hs) = gs_img gs /\ (h_cur hs < length (h_store hs))%nat.

Definition frame (hs hs' : hstate) : Prop :=
  (forall r, (r < h_cur hs)%nat -> h_get hs' r = h_get hs r) /\ (h_cur hs <= h_cur hs')%nat.

Lemma frame_refl hs : frame hs hs.
Proof. split; auto. Qed.

Lemma frame_trans a b c : frame a b -> frame b c -> frame a c.
Proof. intros [H1 H2] [H3 H4]. split; [|lia]. intros r Hr. rewrite H3 by lia. apply H1. exact Hr. Qed.

Lemma alloc_rel hs g c mx lst ty : (h_cur hs < length (h_store hs))%nat ->
  let a := h_alloc hs g in
  let hs1 := mkH (h_store a) (h_cur a) c mx lst ty in
  Rel hs1 (mkG g c mx lst ty) /\ frame hs hs1.
Proof.
  intros Hc. cbn zeta. unfold h_alloc. cbn [h_store h_cur].
  split.
  - unfold Rel, h_get. cbn [h_count h_max h_list h_type h_cur h_store gs_count gs_max gs_list gs_type gs_img].
    repeat split; auto.
    + rewrite app_nth2 by lia. rewrite Nat.sub_diag. reflexivity.
    + rewrite app_length. cbn. lia.
  - split; cbn [h_cur]; [|lia]. intros r Hr. unfold h_get. cbn [h_store]. apply app_nth1. lia.
Qed.

Lemma hstep_sim hs gs sm : Rel hs gs ->
  let '(hs', dh) := hstep hs sm in
  let '(gs', dg) := gfx_step gs sm in
  Rel hs' gs' /\ frame hs hs' /\
  match dh, dg with
  | None, None => True
  | Some (ids, r), Some (ids', img) => ids = ids' /\ h_get hs' r = img /\ (r < h_cur hs')%nat
  | _, _ => False
  end.
Proof.
  intros HR. unfold hstep, gfx_step. cbv zeta.
  set (idx := sm_index sm). set (ty := type_of_cmd (sm_cmd sm)). set (dec := b64_decode (sm_payload sm)).
  (* after the optional reset *)
  assert (H1 : exists hs1 gs1,
    (if idx =? 0 then mkH (h_store (h_alloc hs (sm_new_image sm))) (h_cur (h_alloc hs (sm_new_image sm))) (-1) (sm_max sm) (sm_list sm) ty else hs) = hs1
    /\ (if idx =? 0 then mkG (sm_new_image sm) (-1) (sm_max sm) (sm_list sm) ty else gs) = gs1
    /\ Rel hs1 gs1 /\ frame hs hs1).
  { destruct (idx =? 0).
    - eexists. eexists. split; [reflexivity|]. split; [reflexivity|].
      destruct HR as [_ [_ [_ [_ [_ Hlt0]]]]].
      exact (alloc_rel hs (sm_new_image sm) (-1) (sm_max sm) (sm_list sm) ty Hlt0).
    - exists hs, gs. split; [reflexivity|]. split; [reflexivity|]. split; [exact HR | apply frame_refl]. }
  destruct H1 as [hs1 [gs1 [-> [-> [HR1 Hf1]]]]].
  destruct HR1 as [Hc [Hm [Hl [Ht [Hg Hlt]]]]].
  rewrite Ht, Hl, Hc, Hm.
  destruct (gs_type gs1 =? ty); [|split; [repeat split; auto | split; [exact Hf1 | exact Logic.I]]].
  destruct (bytes_eqb (sm_list sm) (gs_list gs1)); [|split; [repeat split; auto | split; [exact Hf1 | exact Logic.I]]].
  destruct (idx =? gs_count gs1 + 1).
  2:{ split; [unfold Rel; cbn; repeat split; auto|]. split; [|exact Logic.I].
      eapply frame_trans; [exact Hf1|]. split; auto. }
  assert (Hget : forall st', h_store st' = upd_nat (h_store hs1) (h_cur hs1) (gfx_append (h_get hs1 (h_cur hs1)) dec) ->
                 h_get st' (h_cur hs1) = gfx_append (gs_img gs1) dec).
  { intros st' Hs. unfold h_get at 1. rewrite Hs, upd_nat_same by exact Hlt. rewrite Hg. reflexivity. }
  destruct (idx =? gs_max gs1).
  - (* delivery: detach *)
    cbn [h_alloc h_store h_cur h_count h_max h_list h_type].
    split; [|split].
    + unfold Rel, h_get. cbn [h_count h_max h_list h_type h_cur h_store gs_count gs_max gs_list gs_type gs_img].
      repeat split; auto.
      * rewrite app_nth2 by lia. rewrite Nat.sub_diag. reflexivity.
      * rewrite app_length. cbn. lia.
    + eapply frame_trans; [exact Hf1|]. split; cbn [h_cur]; [|rewrite upd_nat_length; lia].
      intros r Hr. unfold h_get. cbn [h_store]. rewrite app_nth1 by (rewrite upd_nat_length; lia).
      apply upd_nat_other. lia.
    + split; [reflexivity|]. split.
      * unfold h_get at 1. cbn [h_store]. rewrite app_nth1 by (rewrite upd_nat_length; lia).
        rewrite upd_nat_same by exact Hlt. rewrite Hg. reflexivity.
      * cbn [h_cur]. rewrite upd_nat_length. exact Hlt.
  - split; [|split; [|exact Logic.I]].
    + unfold Rel. cbn [h_count h_max h_list h_type h_cur h_store gs_count gs_max gs_list gs_type gs_img].
      repeat split; auto; try (apply Hget; reflexivity); try (rewrite upd_nat_length; exact Hlt).
    + eapply frame_trans; [exact Hf1|]. split; cbn [h_cur]; [|lia].
      intros r Hr. unfold h_get. cbn [h_store]. apply upd_nat_other. lia.
Qed.

Definition resolve (fin : hstate) (ds : list (Z * (list Z * nat))) : list (Z * (list Z * gfx)) :=
  map (fun x => (fst x, (fst (snd x), h_get fin (snd (snd x))))) ds.

Lemma batch_heap_sim : forall ls hs gs pos, Rel hs gs ->
  let '(fin, ds) := batch_heap_from hs pos ls in
  resolve fin ds = batch_gfx_from gs pos ls /\ frame hs fin.
Proof.
  induction ls as [|l r IH]; intros hs gs pos HR; cbn [batch_heap_from batch_gfx_from].
  - split; [reflexivity | apply frame_refl].
  - unfold hline_step, gfx_line_step.
    destruct (gfx_match l) as [sm|].
    + pose proof (hstep_sim hs gs sm HR) as Hs.
      destruct (hstep hs sm) as [hs' dh]. destruct (gfx_step gs sm) as [gs' dg].
      destruct Hs as [HR' [Hf Hd]].
      specialize (IH hs' gs' (pos + 1) HR').
      destruct (batch_heap_from hs' (pos + 1) r) as [fin ds]. destruct IH as [IH1 IH2].
      split; [|eapply frame_trans; eassumption].
      destruct dh as [[ids rf]|]; destruct dg as [[ids' img]|]; try contradiction.
      * destruct Hd as [-> [Hg Hlt]]. cbn [resolve map fst snd]. fold (resolve fin ds). rewrite IH1.
        destruct IH2 as [IH2 _]. rewrite (IH2 rf Hlt), Hg. reflexivity.
      * exact IH1.
    + specialize (IH hs gs (pos + 1) HR). destruct (batch_heap_from hs (pos + 1) r) as [fin ds]. exact IH.
Qed.

(* what the caller sees after the call = what was delivered when it was delivered *)
Theorem batch_heap_stable ls : batch_heap ls = batch_gfx ls.
Proof.
  unfold batch_heap, batch_gfx.
  assert (HR : Rel hstate0 gstate0) by (unfold Rel, hstate0, gstate0, h_get; cbn; repeat split; auto).
  pose proof (batch_heap_sim ls hstate0 gstate0 0 HR) as H.
  destruct (batch_heap_from hstate0 0 ls) as [fin ds]. destruct H as [H _].
  rewrite <- H. unfold resolve. apply map_ext. intros [p [ids rf]]. reflexivity.
Qed.

(* a longer input only adds deliveries: those of a prefix stay what they were *)
Theorem batch_prefix_stable ls more : exists extra, batch_gfx (ls ++ more) = batch_gfx ls ++ extra.
Proof.
  unfold batch_gfx. rewrite !batch_gfx_from_bsteps, bsteps_app.
  destruct (bsteps gstate0 0 ls) as [da sa]. destruct (bsteps sa (0 + zlen ls) more) as [db sb].
  exists db. reflexivity.
Qed.
