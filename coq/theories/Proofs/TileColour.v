(* C18 colours: the pixel / background colours of the rendered tile (and of its RGB
   export) are the ones the state requests: 2-bit quantised RGB or the table entry, expanded
   to 5-6-5 full scale. *)
From RP Require Import Lib.Base Lib.Utf8 Gen.Tables Model.Mono Model.Tile Spec.Clip Spec.Tile
  Proofs.ListZ Proofs.PixelProofs Proofs.DrawProofs Proofs.OpsProofs Proofs.TileBasic Proofs.TileInv Proofs.TileClip.
From Coq Require Import ZifyBool.
Ltac Zify.zify_post_hook ::= Z.div_mod_to_equations.

(* ---- drawing never touches the colour registers ---- *)
Lemma run_op_colors i o : ibckg (run_op i o) = ibckg i /\ ipixc (run_op i o) = ipixc i.
Proof.
  destruct o; simpl; auto.
  destruct (render_text (ig i) s (it i, idata i)); simpl; auto.
Qed.

Lemma run_ops_colors ops : forall i, ibckg (run_ops i ops) = ibckg i /\ ipixc (run_ops i ops) = ipixc i.
Proof.
  induction ops as [|o ops IH]; intros i; [simpl; auto|].
  change (run_ops i (o :: ops)) with (run_ops (run_op i o) ops).
  destruct (IH (run_op i o)) as [A B]. destruct (run_op_colors i o) as [C D]. split; congruence.
Qed.

(* ---- finite sweeps on the conversion arithmetic ---- *)
Definition sweep_rgb : bool :=
  forallb (fun a => forallb (fun b => forallb (fun c =>
    oled16 (Z.lor (Z.lor (Z.shiftl (Z.land a 3) 4) (Z.shiftl (Z.land b 3) 2)) (Z.land c 3))
    =? rgb565_of6 (a * 16 + b * 4 + c)) [0; 1; 2; 3]) [0; 1; 2; 3]) [0; 1; 2; 3].
Lemma sweep_rgb_true : sweep_rgb = true.
Proof. vm_compute. reflexivity. Qed.

(* on the regenerated table *)
Definition sweep_table : bool := forallb (fun e => oled16 e =? rgb565_of6 e) button_colors.
Lemma sweep_table_true : sweep_table = true.
Proof. vm_compute. reflexivity. Qed.

Lemma button_colors_nonempty : 0 < zlen button_colors.
Proof. vm_compute. reflexivity. Qed.

Lemma in4 a : 0 <= a <= 3 -> In a [0; 1; 2; 3].
Proof. intros. simpl. lia. Qed.

Lemma rgb6_ok a b c : 0 <= a <= 3 -> 0 <= b <= 3 -> 0 <= c <= 3 ->
  oled16 (Z.lor (Z.lor (Z.shiftl (Z.land a 3) 4) (Z.shiftl (Z.land b 3) 2)) (Z.land c 3)) = rgb565_of6 (a * 16 + b * 4 + c).
Proof.
  intros Ha Hb Hc. pose proof sweep_rgb_true as S. unfold sweep_rgb in S.
  rewrite forallb_forall in S. specialize (S a (in4 a Ha)).
  rewrite forallb_forall in S. specialize (S b (in4 b Hb)).
  rewrite forallb_forall in S. specialize (S c (in4 c Hc)). lia.
Qed.

Lemma map_constrain_quant x : 0 <= x -> map_constrain x 0 255 0 3 = quant2 x /\ 0 <= quant2 x <= 3.
Proof.
  intros Hx. unfold map_constrain, map_value, constrain, quant2, gdiv.
  rewrite Z.quot_div_nonneg by lia.
  replace ((x - 0) * (3 - 0)) with (x * 3) by ring. replace (255 - 0) with 255 by ring. rewrite Z.add_0_r.
  destruct (Z.ltb_spec (x * 3 / 255) 0); destruct (Z.gtb_spec (x * 3 / 255) 3); lia.
Qed.

Lemma color6_requested c v :
  color_in_range (Some c) = true -> color6 c = Ok v ->
  colour_matches (requested (Some c) 0) (oled16 v) = true /\ colour_matches (requested (Some c) 65535) (oled16 v) = true.
Proof.
  unfold color_in_range, color6, requested.
  destruct (c_rgb c) as [[[r g] b]|]; destruct (c_idx c) as [i|]; intros Hr Hv; try (split; reflexivity).
  - (* rgb *)
    apply Ok_inj in Hv. subst v.
    assert (0 <= r /\ 0 <= g /\ 0 <= b) as (Hr0 & Hg0 & Hb0) by (unfold uint32_ok in Hr; lia).
    destruct (map_constrain_quant r Hr0) as [-> Qr]. destruct (map_constrain_quant g Hg0) as [-> Qg].
    destruct (map_constrain_quant b Hb0) as [-> Qb].
    rewrite (rgb6_ok _ _ _ Qr Qg Qb). unfold colour_matches. rewrite Z.eqb_refl. auto.
  - (* index *)
    unfold read_tab in Hv.
    assert (Hland : Z.land i 31 = i mod 32) by (change 31 with (Z.ones 5); rewrite Z.land_ones by lia; reflexivity).
    rewrite Hland in Hv.
    pose proof button_colors_nonempty as Hlen.
    assert (Hk : 0 <= i mod 32 < 32) by (apply Z.mod_pos_bound; lia).
    set (k := if i mod 32 >=? zlen button_colors then 0 else i mod 32) in *.
    assert (Hkr : 0 <= k < zlen button_colors) by (unfold k; destruct (Z.geb_spec (i mod 32) (zlen button_colors)); lia).
    assert (Hk' : (if i mod 32 <? zlen button_colors then i mod 32 else 0) = k).
    { unfold k. destruct (Z.geb_spec (i mod 32) (zlen button_colors)); destruct (Z.ltb_spec (i mod 32) (zlen button_colors)); lia. }
    rewrite Hk'.
    destruct (Z.leb_spec 0 k); [|lia]. destruct (Z.ltb_spec k (zlen button_colors)); [|lia].
    cbn [andb] in Hv. apply Ok_inj in Hv. subst v.
    unfold znth. destruct (Z.ltb_spec k 0); [lia|].
    pose proof sweep_table_true as S. unfold sweep_table in S. rewrite forallb_forall in S.
    assert (Hin : In (nth (Z.to_nat k) button_colors 0) button_colors).
    { apply nth_In. unfold zlen in Hkr. lia. }
    specialize (S _ Hin). unfold colour_matches. split; exact S.
Qed.

Lemma opt_color_requested o dflt v :
  (dflt = 0 \/ dflt = 65535) -> color_in_range o = true -> opt_color o dflt = Ok v ->
  colour_matches (requested o dflt) v = true.
Proof.
  intros Hd Hr Hv. destruct o as [c|].
  - unfold opt_color in Hv. destruct (color6 c) as [c6|] eqn:E6; cbn [bind] in Hv; [|discriminate].
    apply Ok_inj in Hv. subst v.
    destruct (color6_requested c c6 Hr E6) as [A B]. destruct Hd as [-> | ->]; assumption.
  - unfold opt_color in Hv. apply Ok_inj in Hv. subst v. unfold requested, colour_matches. apply Z.eqb_refl.
Qed.

Theorem tile_colours t W H s b i :
  color_in_range (x_pix t) = true -> color_in_range (x_bg t) = true ->
  tile_filled t W H s b = Ok i -> colours_ok t (ipixc i) (ibckg i) = true.
Proof.
  intros Rp Rb Ht. unfold tile_filled in Ht.
  destruct (opt_color (x_bg t) 0) as [bg|] eqn:Ebg; cbn [bind] in Ht; [|discriminate].
  destruct (opt_color (x_pix t) 65535) as [pc|] eqn:Epc; cbn [bind] in Ht; [|discriminate].
  apply Ok_inj in Ht. subst i.
  destruct (run_ops_colors (tile_ops t W H s b) (with_colors (new_image W H) bg pc)) as [-> ->].
  unfold colours_ok, with_colors. cbn [ipixc ibckg].
  rewrite (opt_color_requested _ _ _ (or_intror eq_refl) Rp Epc).
  rewrite (opt_color_requested _ _ _ (or_introl eq_refl) Rb Ebg). reflexivity.
Qed.

(* ---- the RGB export ---- *)
Lemma lit_test byte k : 0 <= k -> (Z.land byte (Z.shiftl 1 k) >? 0) = Z.testbit byte k.
Proof.
  intros Hk. rewrite Z.shiftl_1_l, land_pow2 by lia.
  destruct (Z.testbit byte k); [|reflexivity].
  pose proof (Z.pow_pos_nonneg 2 k ltac:(lia) Hk). destruct (Z.gtb_spec (2 ^ k) 0); auto; lia.
Qed.

Lemma split_color col : [Z.shiftr col 8; Z.land col 255] = [col / 256; col mod 256].
Proof.
  rewrite Z.shiftr_div_pow2 by lia. change 255 with (Z.ones 8). rewrite Z.land_ones by lia. reflexivity.
Qed.

Theorem tile_rgb t W H s b i :
  0 <= W -> 0 <= H -> tile_filled t W H s b = Ok i ->
  rgb_slice i = rgb_expected W H (idata i) (ipixc i) (ibckg i).
Proof.
  intros HW HH Ht. destruct (tile_size t W H s b i HW HH Ht) as (EW & EH & Ewib & _).
  unfold rgb_slice, rgb_expected, wib_of. rewrite EW, EH, Ewib.
  apply flat_map_ext. intros r. apply flat_map_ext. intros c.
  unfold px. rewrite lit_test by (pose proof (Z.mod_pos_bound (Z.of_nat c) 8 ltac:(lia)); lia).
  apply split_color.
Qed.

Corollary tile_rgb_ok t W H s b i :
  0 <= W -> 0 <= H -> tile_filled t W H s b = Ok i ->
  rgb_ok W H (idata i) (ipixc i) (ibckg i) (rgb_slice i) = true.
Proof.
  intros HW HH Ht. unfold rgb_ok. rewrite (tile_rgb t W H s b i HW HH Ht).
  generalize (rgb_expected W H (idata i) (ipixc i) (ibckg i)). intros l.
  unfold bytes_eqb. induction l as [|x l IH]; simpl; auto. rewrite Z.eqb_refl. exact IH.
Qed.
