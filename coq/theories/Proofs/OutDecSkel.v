(* Skeleton facts about the decoder model used by the C04 soundness proofs: what
   dec_out_line does once the line is known not to be blank or a flow word, and the
   failure of the regexes whose fixed prefix is absent. *)
From RP Require Import Lib.Base Lib.Sexp Lib.Strings Lib.Utf8 Model.MsgOut Model.DecOut
  Spec.DenoteOut Spec.GrammarOut Proofs.GfxNum Proofs.OutStrings.
From Coq Require Import String.
Open Scope Z_scope.

Definition den_om (om : option out_msg) : list report := match om with Some m => den_out m | None => [] end.

Lemma null_false {A} (l : list A) : l <> [] -> null l = false.
Proof. destruct l; [congruence|reflexivity]. Qed.

Lemma not_flow l : lookup l flow_words = None ->
  is_str l "ping" = false /\ is_str l "ack" = false /\ is_str l "nack" = false /\
  is_str l "BSY" = false /\ is_str l "RDY" = false /\ is_str l "list" = false.
Proof.
  unfold flow_words, tbl. cbn [map lookup fst snd]. unfold is_str.
  destruct (bytes_eqb l (str "ping")); [discriminate|].
  destruct (bytes_eqb l (str "ack")); [discriminate|].
  destruct (bytes_eqb l (str "nack")); [discriminate|].
  destruct (bytes_eqb l (str "BSY")); [discriminate|].
  destruct (bytes_eqb l (str "RDY")); [discriminate|].
  destruct (bytes_eqb l (str "list")); [discriminate|].
  intros _. repeat split.
Qed.

Section Skel.
Variable np : bytes -> option bytes.

(* the part of dec_out_line after the flow-word switch *)
Definition dec_rest (s : bytes) : res (option out_msg) :=
  let me := re_event s in
  if negb (null me) then dec_event me
  else
    let mm := re_map s in
    if negb (null mm) then
      do a <- sub mm 1 1104;
      do b <- sub mm 2 1105;
      Ok (Some (m_map (wrap32 (intval a)) (wrap32 (intval b))))
    else
      let mg := re_generic s in
      if negb (null mg) then
        do k <- sub mg 1 1115;
        do v <- sub mg 2 1116;
        Ok (dec_generic np k v)
      else
        let mr := re_regs s in
        if negb (null mr) then dec_regs mr
        else Ok (Some empty_msg).

Lemma dec_line_nonflow l : l <> [] -> lookup l flow_words = None -> dec_out_line np l = dec_rest l.
Proof.
  intros Hne Hf. destruct (not_flow l Hf) as [H1 [H2 [H3 [H4 [H5 H6]]]]].
  unfold dec_out_line. rewrite (null_false l Hne), H1, H2, H3, H4, H5, H6. reflexivity.
Qed.
End Skel.

Lemma re_event_noprefix l : drop_prefix (str "HWC#") l = None -> re_event l = [].
Proof. intros H. unfold re_event. rewrite H. reflexivity. Qed.

Lemma re_map_noprefix l : drop_prefix (str "map=") l = None -> re_map l = [].
Proof. intros H. unfold re_map. rewrite H. reflexivity. Qed.

(* a line starting with HWC# is matched by none of the other three regexes *)
Lemma hwc_not_map r : re_map (str "HWC#" ++ r) = [].
Proof. reflexivity. Qed.

Lemma hwc_not_regs r : re_regs (str "HWC#" ++ r) = [].
Proof. reflexivity. Qed.

Lemma cut_on_aux_cur c : forall s cur a b f, cut_on_aux c s cur = (a, b, f) -> exists a', a = rev cur ++ a'.
Proof.
  induction s as [|x s IH]; intros cur a b f H; cbn [cut_on_aux] in H.
  - injection H as <- <- <-. exists []. rewrite app_nil_r. reflexivity.
  - destruct (x =? c).
    + injection H as <- <- <-. exists []. rewrite app_nil_r. reflexivity.
    + destruct (IH _ _ _ _ H) as [a' E]. cbn [rev] in E. rewrite <- app_assoc in E. exists (x :: a'). exact E.
Qed.

Lemma hwc_not_generic r : re_generic (str "HWC#" ++ r) = [].
Proof.
  unfold re_generic. destruct (cut_on 61 (str "HWC#" ++ r)) as [[k v] f] eqn:E. destruct f; [|reflexivity].
  unfold cut_on in E. cbn in E. apply cut_on_aux_cur in E. destruct E as [a' ->]. cbn [rev app].
  reflexivity.
Qed.
