(* Footprint / clip / exactness of every drawing operation, by composition from
   draw_pixel_px.  Two notions:
     Paint g R v f : f sets exactly the pixels of (R ∩ clip) to v and leaves all others;
     Touch g R f   : f changes no pixel outside (R ∩ clip).
   R is in bounding-box-relative coordinates. *)
From RP Require Import Lib.Base Model.Mono Spec.Clip Proofs.ListZ Proofs.PixelProofs.
From Coq Require Import ZifyBool.
Ltac Zify.zify_post_hook ::= Z.div_mod_to_equations.

Definition Paint (g : geom) (R : Z -> Z -> bool) (v : bool) (f : list Z -> list Z) : Prop :=
  forall d, wfg g d ->
    wfg g (f d) /\
    forall c r, 0 <= c < 8 * gwib g -> 0 <= r < gH g ->
      px (gwib g) (f d) c r = if R (c - gbx g) (r - gby g) && in_clip g c r then v else px (gwib g) d c r.

Definition Touch (g : geom) (R : Z -> Z -> bool) (f : list Z -> list Z) : Prop :=
  forall d, wfg g d ->
    wfg g (f d) /\
    forall c r, 0 <= c < 8 * gwib g -> 0 <= r < gH g ->
      px (gwib g) (f d) c r <> px (gwib g) d c r -> R (c - gbx g) (r - gby g) = true /\ in_clip g c r = true.

Lemma Paint_pixel g x y col :
  Paint g (fun a b => (a =? x) && (b =? y)) (xorb col (ginv g)) (draw_pixel g x y col).
Proof.
  intros d Hwf. destruct (draw_pixel_px g x y col d Hwf) as [H1 H2]. split; auto.
  intros c r Hc Hr. rewrite H2 by auto.
  replace (c - gbx g =? x) with (c =? x + gbx g) by lia.
  replace (r - gby g =? y) with (r =? y + gby g) by lia. reflexivity.
Qed.

Lemma Paint_id g v : Paint g (fun _ _ => false) v (fun d => d).
Proof. intros d H; split; auto. Qed.

Lemma Paint_ext g R R' v f :
  (forall a b, R a b = R' a b) -> Paint g R v f -> Paint g R' v f.
Proof.
  intros HR HP d Hwf. destruct (HP d Hwf) as [H1 H2]. split; auto.
  intros c r Hc Hr. rewrite H2, HR; auto.
Qed.

Lemma Paint_comp g R1 R2 v f1 f2 :
  Paint g R1 v f1 -> Paint g R2 v f2 -> Paint g (fun a b => R1 a b || R2 a b) v (fun d => f2 (f1 d)).
Proof.
  intros P1 P2 d Hwf. destruct (P1 d Hwf) as [W1 E1]. destruct (P2 (f1 d) W1) as [W2 E2].
  split; auto. intros c r Hc Hr. rewrite E2, E1 by auto.
  destruct (R1 (c - gbx g) (r - gby g)); destruct (R2 (c - gbx g) (r - gby g)); destruct (in_clip g c r); reflexivity.
Qed.

Fixpoint existsb_range (n : nat) (s : Z) (P : Z -> bool) : bool :=
  match n with O => false | S n' => P s || existsb_range n' (s + 1) P end.

Lemma existsb_range_true n s P : existsb_range n s P = true <-> exists k, s <= k < s + Z.of_nat n /\ P k = true.
Proof.
  revert s; induction n as [|n IH]; intros s; simpl existsb_range.
  - split; [discriminate|intros (k & Hk & _); lia].
  - rewrite orb_true_iff, IH. split.
    + intros [H | (k & Hk & HP)]; [exists s; split; [lia|auto] | exists k; split; [lia|auto]].
    + intros (k & Hk & HP). destruct (Z.eq_dec k s) as [->|Hne]; [left; auto | right; exists k; split; [lia|auto]].
Qed.

Lemma existsb_range_false n s P : existsb_range n s P = false <-> forall k, s <= k < s + Z.of_nat n -> P k = false.
Proof.
  split.
  - intros H k Hk. destruct (P k) eqn:HP; auto.
    assert (existsb_range n s P = true) by (apply existsb_range_true; eauto). congruence.
  - intros H. destruct (existsb_range n s P) eqn:E; auto.
    apply existsb_range_true in E as (k & Hk & HP). rewrite H in HP; auto.
Qed.

Lemma Paint_iter g R v f :
  (forall k, Paint g (R k) v (f k)) ->
  forall n s, Paint g (fun a b => existsb_range n s (fun k => R k a b)) v (iter_up n s f).
Proof.
  intros HP n; induction n as [|n IH]; intros s; simpl.
  - apply Paint_id.
  - eapply Paint_ext; [|apply (Paint_comp g _ _ v (f s) (iter_up n (s + 1) f) (HP s) (IH (s + 1)))].
    reflexivity.
Qed.

Lemma Paint_for_range g R v f s n :
  (forall k, Paint g (R k) v (f k)) ->
  Paint g (fun a b => existsb_range (Z.to_nat n) s (fun k => R k a b)) v (for_range s n f).
Proof. intros. unfold for_range. apply Paint_iter; auto. Qed.

(* ---- lines and rectangles: exact ---- *)
Lemma Paint_vline g x y h col :
  Paint g (in_rect x y 1 h) (xorb col (ginv g)) (vline g x y h col).
Proof.
  unfold vline.
  eapply Paint_ext; [|apply Paint_for_range; intros k; apply (Paint_pixel g x (y + k) col)].
  intros a b. simpl.
  destruct (in_rect x y 1 h a b) eqn:E.
  - apply existsb_range_true. exists (b - y). unfold in_rect in E. split; lia.
  - apply existsb_range_false. intros k Hk. unfold in_rect in E. lia.
Qed.

Lemma Paint_hline g x y w col :
  Paint g (in_rect x y w 1) (xorb col (ginv g)) (hline g x y w col).
Proof.
  unfold hline.
  eapply Paint_ext; [|apply Paint_for_range; intros k; apply (Paint_pixel g (x + k) y col)].
  intros a b. simpl.
  destruct (in_rect x y w 1 a b) eqn:E.
  - apply existsb_range_true. exists (a - x). unfold in_rect in E. split; lia.
  - apply existsb_range_false. intros k Hk. unfold in_rect in E. lia.
Qed.

Lemma Paint_fill_rect g x y w h col :
  Paint g (in_rect x y w h) (xorb col (ginv g)) (fill_rect g x y w h col).
Proof.
  unfold fill_rect.
  eapply Paint_ext; [|apply Paint_for_range; intros k; apply (Paint_vline g k y h col)].
  intros a b. simpl.
  destruct (in_rect x y w h a b) eqn:E.
  - apply existsb_range_true. exists a. unfold in_rect in *. split; lia.
  - apply existsb_range_false. intros k Hk. unfold in_rect in *. lia.
Qed.

(* ---- Touch combinators ---- *)
Lemma Paint_Touch g R v f : Paint g R v f -> Touch g R f.
Proof.
  intros HP d Hwf. destruct (HP d Hwf) as [W E]. split; auto.
  intros c r Hc Hr Hne. rewrite E in Hne by auto.
  destruct (R (c - gbx g) (r - gby g)); destruct (in_clip g c r); simpl in Hne; auto; congruence.
Qed.

Lemma Touch_id g R : Touch g R (fun d => d).
Proof. intros d H; split; auto; intros; congruence. Qed.

Lemma Touch_weaken g R R' f :
  (forall a b, R a b = true -> R' a b = true) -> Touch g R f -> Touch g R' f.
Proof.
  intros HR HT d Hwf. destruct (HT d Hwf) as [W E]. split; auto.
  intros c r Hc Hr Hne. destruct (E c r Hc Hr Hne). auto.
Qed.

Lemma Touch_comp g R f1 f2 :
  Touch g R f1 -> Touch g R f2 -> Touch g R (fun d => f2 (f1 d)).
Proof.
  intros T1 T2 d Hwf. destruct (T1 d Hwf) as [W1 E1]. destruct (T2 (f1 d) W1) as [W2 E2].
  split; auto. intros c r Hc Hr Hne.
  destruct (Bool.bool_dec (px (gwib g) (f1 d) c r) (px (gwib g) d c r)) as [Heq | Hd].
  - apply E2; auto. congruence.
  - apply E1; auto.
Qed.

Lemma Touch_if g R (b : bool) f1 f2 : Touch g R f1 -> Touch g R f2 -> Touch g R (fun d => if b then f1 d else f2 d).
Proof. destruct b; auto. Qed.

Lemma Touch_iter g R f n :
  forall s, (forall k, s <= k < s + Z.of_nat n -> Touch g R (f k)) -> Touch g R (iter_up n s f).
Proof.
  induction n as [|n IH]; intros s H; simpl.
  - apply Touch_id.
  - apply (Touch_comp g R (f s) (iter_up n (s + 1) f)).
    + apply H. lia.
    + apply IH. intros k Hk. apply H. lia.
Qed.

Lemma Touch_for_range g R f s n :
  (forall k, s <= k < s + n -> Touch g R (f k)) -> Touch g R (for_range s n f).
Proof.
  intros H. unfold for_range. apply Touch_iter. intros k Hk. apply H. lia.
Qed.

Lemma Touch_pixel g x y col : Touch g (fun a b => (a =? x) && (b =? y)) (draw_pixel g x y col).
Proof. eapply Paint_Touch, Paint_pixel. Qed.
Lemma Touch_vline g x y h col : Touch g (in_rect x y 1 h) (vline g x y h col).
Proof. eapply Paint_Touch, Paint_vline. Qed.
Lemma Touch_hline g x y w col : Touch g (in_rect x y w 1) (hline g x y w col).
Proof. eapply Paint_Touch, Paint_hline. Qed.
Lemma Touch_fill_rect g x y w h col : Touch g (in_rect x y w h) (fill_rect g x y w h col).
Proof. eapply Paint_Touch, Paint_fill_rect. Qed.

Lemma Touch_pixel_in g R x y col : R x y = true -> Touch g R (draw_pixel g x y col).
Proof.
  intros HR. eapply Touch_weaken; [|apply Touch_pixel].
  intros a b H. simpl in H. assert (a = x /\ b = y) as [-> ->] by lia. auto.
Qed.

(* ---- circle helpers ---- *)
Lemma Touch_circle_loop g R body r :
  (forall x y, 0 <= x <= r -> 0 <= y <= r -> Touch g R (body x y)) ->
  forall fuel f ddx ddy x y, 0 <= x -> y <= r -> Touch g R (circle_loop fuel body f ddx ddy x y).
Proof.
  intros Hbody fuel; induction fuel as [|fuel IH]; intros f ddx ddy x y Hx Hy; simpl.
  - apply Touch_id.
  - destruct (Z.ltb_spec x y); [|apply Touch_id].
    destruct (f >=? 0).
    + apply (Touch_comp g R (body (x + 1) (y - 1))); [apply Hbody; lia | apply IH; lia].
    + apply (Touch_comp g R (body (x + 1) y)); [apply Hbody; lia | apply IH; lia].
Qed.

Lemma Touch_corner_pixels g x0 y0 r x y corner col :
  0 <= x <= r -> 0 <= y <= r ->
  Touch g (in_quadrants x0 y0 r corner) (corner_pixels g x0 y0 x y corner col).
Proof.
  intros Hx Hy. unfold corner_pixels.
  set (R := in_quadrants x0 y0 r corner).
  assert (H4 : Touch g R (fun d => if Z.land corner 4 >? 0 then draw_pixel g (x0 + y) (y0 + x) col (draw_pixel g (x0 + x) (y0 + y) col d) else d)).
  { destruct (Z.land corner 4 >? 0) eqn:E; [|apply Touch_id].
    apply (Touch_comp g R (draw_pixel g (x0 + x) (y0 + y) col) (draw_pixel g (x0 + y) (y0 + x) col));
      apply Touch_pixel_in; unfold R, in_quadrants; rewrite E; lia. }
  assert (H2 : Touch g R (fun d => if Z.land corner 2 >? 0 then draw_pixel g (x0 + y) (y0 - x) col (draw_pixel g (x0 + x) (y0 - y) col d) else d)).
  { destruct (Z.land corner 2 >? 0) eqn:E; [|apply Touch_id].
    apply (Touch_comp g R (draw_pixel g (x0 + x) (y0 - y) col) (draw_pixel g (x0 + y) (y0 - x) col));
      apply Touch_pixel_in; unfold R, in_quadrants; rewrite E; lia. }
  assert (H8 : Touch g R (fun d => if Z.land corner 8 >? 0 then draw_pixel g (x0 - x) (y0 + y) col (draw_pixel g (x0 - y) (y0 + x) col d) else d)).
  { destruct (Z.land corner 8 >? 0) eqn:E; [|apply Touch_id].
    apply (Touch_comp g R (draw_pixel g (x0 - y) (y0 + x) col) (draw_pixel g (x0 - x) (y0 + y) col));
      apply Touch_pixel_in; unfold R, in_quadrants; rewrite E; lia. }
  assert (H1 : Touch g R (fun d => if Z.land corner 1 >? 0 then draw_pixel g (x0 - x) (y0 - y) col (draw_pixel g (x0 - y) (y0 - x) col d) else d)).
  { destruct (Z.land corner 1 >? 0) eqn:E; [|apply Touch_id].
    apply (Touch_comp g R (draw_pixel g (x0 - y) (y0 - x) col) (draw_pixel g (x0 - x) (y0 - y) col));
      apply Touch_pixel_in; unfold R, in_quadrants; rewrite E; lia. }
  exact (Touch_comp g R _ _ (Touch_comp g R _ _ (Touch_comp g R _ _ H4 H2) H8) H1).
Qed.

Lemma Touch_circle_helper g x0 y0 r corner col :
  Touch g (in_quadrants x0 y0 r corner) (circle_helper g x0 y0 r corner col).
Proof.
  unfold circle_helper.
  apply Touch_circle_loop with (r := r); try lia.
  intros x y Hx Hy. apply Touch_corner_pixels; auto.
Qed.

Lemma Touch_vline_in g R x y h col :
  (forall b, y <= b < y + h -> R x b = true) -> Touch g R (vline g x y h col).
Proof.
  intros HR. eapply Touch_weaken; [|apply Touch_vline].
  intros a b H. unfold in_rect in H. assert (a = x) as -> by lia. apply HR. lia.
Qed.

Lemma Touch_fill_corner_lines g x0 y0 r x y corner delta col :
  0 <= x <= r -> 0 <= y <= r ->
  Touch g (in_fill_helper x0 y0 r corner delta) (fill_corner_lines g x0 y0 x y corner delta col).
Proof.
  intros Hx Hy. unfold fill_corner_lines.
  set (R := in_fill_helper x0 y0 r corner delta).
  assert (H1 : Touch g R (fun d => if Z.land corner 1 >? 0
           then vline g (x0 + y) (y0 - x) (2 * x + 1 + delta) col (vline g (x0 + x) (y0 - y) (2 * y + 1 + delta) col d) else d)).
  { destruct (Z.land corner 1 >? 0) eqn:E; [|apply Touch_id].
    apply (Touch_comp g R (vline g (x0 + x) (y0 - y) (2 * y + 1 + delta) col) (vline g (x0 + y) (y0 - x) (2 * x + 1 + delta) col));
      apply Touch_vline_in; intros b Hb; unfold R, in_fill_helper; rewrite E; lia. }
  assert (H2 : Touch g R (fun d => if Z.land corner 2 >? 0
           then vline g (x0 - y) (y0 - x) (2 * x + 1 + delta) col (vline g (x0 - x) (y0 - y) (2 * y + 1 + delta) col d) else d)).
  { destruct (Z.land corner 2 >? 0) eqn:E; [|apply Touch_id].
    apply (Touch_comp g R (vline g (x0 - x) (y0 - y) (2 * y + 1 + delta) col) (vline g (x0 - y) (y0 - x) (2 * x + 1 + delta) col));
      apply Touch_vline_in; intros b Hb; unfold R, in_fill_helper; rewrite E; lia. }
  exact (Touch_comp g R _ _ H1 H2).
Qed.

Lemma Touch_fill_circle_helper g x0 y0 r corner delta col :
  Touch g (in_fill_helper x0 y0 r corner delta) (fill_circle_helper g x0 y0 r corner delta col).
Proof.
  unfold fill_circle_helper.
  apply Touch_circle_loop with (r := r); try lia.
  intros x y Hx Hy. apply Touch_fill_corner_lines; auto.
Qed.

Ltac touch_sub R H := eapply Touch_weaken; [|apply H]; intros a b Hab; unfold R; cbn [footprint]; rewrite Hab; repeat rewrite orb_true_r; auto.

Lemma Touch_round_rect g x y w h r col :
  Touch g (footprint init_t (ORoundRect x y w h r col)) (round_rect g x y w h r col).
Proof.
  unfold round_rect. set (R := footprint init_t (ORoundRect x y w h r col)).
  assert (T1 : Touch g R (hline g (x + r) y (w - 2 * r) col)) by touch_sub R Touch_hline.
  assert (T2 : Touch g R (hline g (x + r) (y + h - 1) (w - 2 * r) col)) by touch_sub R Touch_hline.
  assert (T3 : Touch g R (vline g x (y + r) (h - 2 * r) col)) by touch_sub R Touch_vline.
  assert (T4 : Touch g R (vline g (x + w - 1) (y + r) (h - 2 * r) col)) by touch_sub R Touch_vline.
  assert (T5 : Touch g R (circle_helper g (x + r) (y + r) r 1 col)) by touch_sub R Touch_circle_helper.
  assert (T6 : Touch g R (circle_helper g (x + w - r - 1) (y + r) r 2 col)) by touch_sub R Touch_circle_helper.
  assert (T7 : Touch g R (circle_helper g (x + w - r - 1) (y + h - r - 1) r 4 col)) by touch_sub R Touch_circle_helper.
  assert (T8 : Touch g R (circle_helper g (x + r) (y + h - r - 1) r 8 col)) by touch_sub R Touch_circle_helper.
  exact (Touch_comp g R _ _ (Touch_comp g R _ _ (Touch_comp g R _ _ (Touch_comp g R _ _ (Touch_comp g R _ _ (Touch_comp g R _ _ (Touch_comp g R _ _ T1 T2) T3) T4) T5) T6) T7) T8).
Qed.

Lemma Touch_fill_round_rect g x y w h r col :
  Touch g (footprint init_t (OFillRoundRect x y w h r col)) (fill_round_rect g x y w h r col).
Proof.
  unfold fill_round_rect. set (R := footprint init_t (OFillRoundRect x y w h r col)).
  assert (T1 : Touch g R (fill_rect g (x + r) y (w - 2 * r) h col)) by touch_sub R Touch_fill_rect.
  assert (T2 : Touch g R (fill_circle_helper g (x + w - r - 1) (y + r) r 1 (h - 2 * r - 1) col)) by touch_sub R Touch_fill_circle_helper.
  assert (T3 : Touch g R (fill_circle_helper g (x + r) (y + r) r 2 (h - 2 * r - 1) col)) by touch_sub R Touch_fill_circle_helper.
  exact (Touch_comp g R _ _ (Touch_comp g R _ _ T1 T2) T3).
Qed.

(* ---- bitmap ---- *)
Lemma Touch_draw_bitmap g x y bm w h col inverted all :
  Touch g (in_rect x y w h) (draw_bitmap g x y bm w h col inverted all).
Proof.
  unfold draw_bitmap.
  apply Touch_for_range. intros j Hj.
  apply Touch_for_range. intros i Hi.
  destruct (zlen bm >? j * gdiv (w + 7) 8 + gdiv i 8); [|apply Touch_id].
  match goal with |- Touch g _ (fun d => if ?b then _ else d) => destruct b end; [|apply Touch_id].
  apply Touch_pixel_in. unfold in_rect. lia.
Qed.

(* ---- characters ---- *)
Lemma Touch_block g x y sh sv col : Touch g (in_rect x y sh sv) (block g x y sh sv col).
Proof.
  unfold block. destruct (Z.eqb_spec sh 1) as [->|]; destruct (Z.eqb_spec sv 1) as [->|]; simpl;
    try apply Touch_fill_rect.
  eapply Touch_weaken; [|apply Touch_pixel]. intros a b H. simpl in H. unfold in_rect. lia.
Qed.

Lemma Touch_draw_char g t x y ch col bg sh sv :
  Touch g (in_rect x y (char_width t ch * sh) (font_bbh (tfont t) * sv)) (draw_char g t x y ch col bg sh sv).
Proof.
  unfold draw_char.
  match goal with |- Touch g _ (fun d => if ?b then d else _) => destruct b end; [apply Touch_id|].
  apply Touch_for_range. intros i Hi.
  apply Touch_for_range. intros j Hj.
  set (R := in_rect x y (char_width t ch * sh) (font_bbh (tfont t) * sv)).
  assert (HB : forall c, Touch g R (block g (x + i * sh) (y + j * sv) sh sv c)).
  { intros c. eapply Touch_weaken; [|apply Touch_block].
    intros a b H. unfold R, in_rect in *. nia. }
  destruct (Z.testbit _ j); [apply HB|].
  destruct (negb (Bool.eqb bg col)); [apply HB | apply Touch_id].
Qed.
