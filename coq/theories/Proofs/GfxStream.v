(* Streaming reader: case lemmas for ASCIIreader.Parse, the run lemma from ANY reader state,
   the encoding/json image on ASCII states. *)
From RP Require Import Lib.Base Lib.Sexp Lib.Strings Lib.Utf8 Lib.B64 Lib.TrimSpace Model.Gfx Spec.Transfer
  Proofs.GfxMatch Proofs.GfxBatch.
From Coq Require Import String.
Open Scope Z_scope.
Open Scope list_scope.

Fixpoint rsteps (ser : bool) (st : reader) (ls : list (list Z)) : list (list (list Z * gfx)) * reader :=
  match ls with
  | [] => ([], st)
  | l :: r =>
    let '(st', o) := parse st l in
    let '(os, fin) := rsteps ser (if ser then json_reader st' else st') r in
    (out_gfx o :: os, fin)
  end.

Lemma stream_from_rsteps ser : forall ls st, stream_from ser st ls = fst (rsteps ser st ls).
Proof.
  induction ls as [|l r IH]; intros st; cbn [stream_from rsteps]; auto.
  destruct (parse st l) as [st' o]. rewrite IH.
  destruct (rsteps ser (if ser then json_reader st' else st') r). reflexivity.
Qed.

Lemma rsteps_app ser : forall a b st,
  rsteps ser st (a ++ b) =
  let '(oa, sa) := rsteps ser st a in let '(ob, sb) := rsteps ser sa b in (oa ++ ob, sb).
Proof.
  induction a as [|l r IH]; intros b st; cbn [app rsteps].
  - destruct (rsteps ser st b). reflexivity.
  - destruct (parse st l) as [st' o]. rewrite IH.
    destruct (rsteps ser (if ser then json_reader st' else st') r) as [oa sa].
    destruct (rsteps ser sa b). reflexivity.
Qed.

Lemma is_cmd_not_nil cmd : is_cmd cmd -> is_nil cmd = false.
Proof. intros [-> | [-> | ->]]; reflexivity. Qed.

(* the zero-value rule at the top of Parse *)
Definition init_rule (st0 : reader) : reader :=
  if is_nil (r_list st0) && is_nil (r_type st0)
  then mkR (-1) (r_type st0) (r_buf st0) (r_max st0) (r_list st0) else st0.

(* chunk 0: whatever the state, a new transfer *)
Lemma parse_chunk0 st l sm :
  gfx_match (trim_space l) = Some sm -> sm_index sm = 0 ->
  parse st l =
  if 0 =? sm_max sm
  then (mkR (-1) (sm_cmd sm) [] (sm_max sm) (sm_list sm), PBatch [trim_space l])
  else (mkR 0 (sm_cmd sm) [trim_space l] (sm_max sm) (sm_list sm), PNil).
Proof.
  intros Hm Hi. unfold parse. rewrite Hm, Hi. change (0 =? 0) with true. cbn iota.
  cbn [r_type r_list r_count r_max r_buf]. rewrite !bytes_eqb_refl.
  change (-1 + 1) with 0. change (0 =? 0) with true. cbn iota. cbn [app]. reflexivity.
Qed.

(* a later chunk: state as left by the zero-value rule *)
Lemma parse_nonzero st l sm :
  gfx_match (trim_space l) = Some sm -> sm_index sm <> 0 ->
  parse st l =
  let st1 := init_rule st in
  if bytes_eqb (r_type st1) (sm_cmd sm) then
    if bytes_eqb (r_list st1) (sm_list sm) then
      if sm_index sm =? r_count st1 + 1 then
        if sm_index sm =? r_max st1
        then (mkR (-1) (r_type st1) [] (r_max st1) (r_list st1), PBatch (r_buf st1 ++ [trim_space l]))
        else (mkR (r_count st1 + 1) (r_type st1) (r_buf st1 ++ [trim_space l]) (r_max st1) (r_list st1), PNil)
      else (mkR (-1) (r_type st1) [] (r_max st1) (r_list st1), PNil)
    else (st1, PNil)
  else (st1, PNil).
Proof.
  intros Hm Hi. unfold parse, init_rule. rewrite Hm.
  replace (sm_index sm =? 0) with false by (symmetry; apply Z.eqb_neq; exact Hi). reflexivity.
Qed.

Lemma parse_other st l :
  gfx_match (trim_space l) = None -> parse st l = (init_rule st, PBatch [trim_space l]).
Proof. intros Hm. unfold parse, init_rule. rewrite Hm. reflexivity. Qed.

(* in-transfer state: type is a command prefix, so the zero-value rule does not fire *)
Lemma init_rule_cmd c cmd buf N lst : is_cmd cmd -> init_rule (mkR c cmd buf N lst) = mkR c cmd buf N lst.
Proof.
  intros H. unfold init_rule. cbn [r_list r_type]. rewrite (is_cmd_not_nil cmd H), andb_false_r. reflexivity.
Qed.

Lemma parse_next k cmd buf N lst l sm :
  is_cmd cmd -> 0 <= k -> is_chunk cmd lst (k + 1) (trim_space l) sm ->
  parse (mkR k cmd buf N lst) l =
  if k + 1 =? N then (mkR (-1) cmd [] N lst, PBatch (buf ++ [trim_space l]))
  else (mkR (k + 1) cmd (buf ++ [trim_space l]) N lst, PNil).
Proof.
  intros Hc Hk [Hm [Hcm [Hl Hi]]].
  rewrite (parse_nonzero _ _ _ Hm) by lia. rewrite (init_rule_cmd _ _ _ _ _ Hc).
  cbn zeta. cbn [r_type r_list r_count r_max r_buf].
  rewrite Hcm, Hl, Hi, !bytes_eqb_refl, Z.eqb_refl. reflexivity.
Qed.

(* ---- encoding/json image: identity on ASCII ---- *)

Lemma json_string_fuel_ascii : forall s fuel, ascii s -> (List.length s <= fuel)%nat -> json_string_fuel fuel s = s.
Proof.
  induction s as [|c r IH]; intros fuel Ha Hf.
  - destruct fuel; reflexivity.
  - destruct fuel as [|f]; [cbn in Hf; lia|].
    inversion Ha as [|? ? Hc Hr]; subst.
    cbn [json_string_fuel]. unfold decode_rune.
    replace (c <? 128) with true by (symmetry; apply Z.ltb_lt; lia).
    replace ((c =? rune_error) && Nat.eqb 1 1) with false.
    2:{ symmetry. apply andb_false_iff. left. apply Z.eqb_neq. unfold rune_error. lia. }
    cbn [firstn skipn app]. rewrite IH; auto. cbn in Hf. lia.
Qed.

Lemma json_string_ascii s : ascii s -> json_string s = s.
Proof. intros H. unfold json_string. apply json_string_fuel_ascii; auto. Qed.


Lemma json_reader_ascii st : reader_ascii st -> json_reader st = st.
Proof.
  intros [Ht [Hl Hb]]. destruct st as [c ty buf mx lst]. unfold json_reader. cbn [r_count r_type r_buf r_max r_list] in *.
  rewrite (json_string_ascii _ Ht), (json_string_ascii _ Hl). f_equal.
  induction Hb as [|x r Hx Hr IH]; [reflexivity|]. cbn [map]. rewrite (json_string_ascii _ Hx), IH. reflexivity.
Qed.

Lemma is_cmd_ascii cmd : is_cmd cmd -> ascii cmd.
Proof. intros [-> | [-> | ->]]; unfold ascii; repeat constructor; lia. Qed.

Definition ser_ok (ser : bool) (P : Prop) : Prop := ser = true -> P.

Lemma maybe_json ser st : ser_ok ser (reader_ascii st) -> (if ser then json_reader st else st) = st.
Proof. destruct ser; intros H; [apply json_reader_ascii, H; reflexivity | reflexivity]. Qed.

(* lines the regex does not match (after trimming) never deliver an image *)
Lemma out_gfx_other s : gfx_match s = None -> out_gfx (PBatch [s]) = [].
Proof.
  intros H. unfold out_gfx, batch_gfx. cbn [batch_gfx_from]. unfold gfx_line_step. rewrite H. reflexivity.
Qed.

(* ---- unrelated lines between the chunk lines ---- *)
Definition stable (ser : bool) (st : reader) : Prop := init_rule st = st /\ ser_ok ser (reader_ascii st).


Lemma rsteps_others ser st os rest : stable ser st -> Forall other_line os ->
  rsteps ser st (os ++ rest) = let '(o, f) := rsteps ser st rest in (nones os ++ o, f).
Proof.
  intros [Hi Hs] Ho. induction Ho as [|l r Hl Hr IH]; cbn [app nones map].
  - destruct (rsteps ser st rest). reflexivity.
  - cbn [rsteps]. rewrite (parse_other st l Hl), Hi. rewrite (maybe_json ser st Hs).
    rewrite IH. destruct (rsteps ser st rest). rewrite (out_gfx_other _ Hl). reflexivity.
Qed.

Lemma rsteps_others_any ser os rest : Forall other_line os -> forall st, exists st',
  rsteps ser st (os ++ rest) = let '(o, f) := rsteps ser st' rest in (nones os ++ o, f).
Proof.
  intros Ho. induction Ho as [|l r Hl Hr IH]; intros st; cbn [app nones map].
  - exists st. destruct (rsteps ser st rest). reflexivity.
  - cbn [rsteps]. rewrite (parse_other st l Hl).
    destruct (IH (if ser then json_reader (init_rule st) else init_rule st)) as [st' Hst'].
    exists st'. rewrite Hst'. destruct (rsteps ser st' rest). rewrite (out_gfx_other _ Hl). reflexivity.
Qed.


Definition sp_lines (sp : list (list (list Z) * list Z)) : list (list Z) := map (fun p => trim_space (snd p)) sp.

Lemma in_transfer_stable ser k cmd buf N lst :
  is_cmd cmd -> ser_ok ser (ascii lst) -> ser_ok ser (Forall ascii buf) -> stable ser (mkR k cmd buf N lst).
Proof.
  intros Hc Hl Hb. split; [apply init_rule_cmd, Hc|].
  intros Hs. repeat split; cbn [r_type r_list r_buf]; [apply is_cmd_ascii, Hc | apply Hl, Hs | apply Hb, Hs].
Qed.

(* ---- the run lemma ---- *)
Lemma tail_run_rsteps ser cmd lst (Hcmd : is_cmd cmd) (Hlst : ser_ok ser (ascii lst)) :
  forall sp k N d, tail_run cmd lst k N (sp_lines sp) d -> sp_others_ok sp -> 0 <= k -> k < N ->
  forall buf, ser_ok ser (Forall ascii (buf ++ sp_lines sp)) ->
  rsteps ser (mkR k cmd buf N lst) (unspace sp) =
  (sp_outs sp (out_gfx (PBatch (buf ++ sp_lines sp))), mkR (-1) cmd [] N lst).
Proof.
  induction sp as [|[os l] r IH]; intros k N d Hrun Hoth Hk0 HkN buf Hser.
  - inversion Hrun; subst. lia.
  - cbn [sp_lines map snd] in Hrun. inversion Hrun as [|k' N' l' sm r' d' Hlt Hch Hrest]; subst.
    inversion Hoth as [|? ? Hos Hoth']; subst. cbn [fst] in Hos.
    cbn [unspace flat_map fst snd]. rewrite <- app_assoc.
    assert (Hbuf : ser_ok ser (Forall ascii buf)).
    { intros Hs. specialize (Hser Hs). rewrite Forall_app in Hser. tauto. }
    rewrite (rsteps_others ser _ os _ (in_transfer_stable ser k cmd buf N lst Hcmd Hlst Hbuf) Hos).
    cbn [app rsteps]. rewrite (parse_next k cmd buf N lst l sm Hcmd Hk0 Hch).
    assert (Hbuf' : ser_ok ser (Forall ascii (buf ++ [trim_space l]))).
    { intros Hs. specialize (Hser Hs). cbn [sp_lines map snd] in Hser. rewrite Forall_app in Hser.
      destruct Hser as [H1 H2]. inversion H2; subst. apply Forall_app. split; [assumption | constructor; [assumption | constructor]]. }
    destruct (k + 1 =? N) eqn:E.
    + apply Z.eqb_eq in E. subst N. inversion Hrest; subst; [|lia].
      destruct r; [|discriminate].
      rewrite maybe_json.
      2:{ apply (in_transfer_stable ser (-1) cmd [] (k + 1) lst Hcmd Hlst). intros _. constructor. }
      cbn [rsteps sp_outs sp_lines map snd fst app]. reflexivity.
    + apply Z.eqb_neq in E.
      rewrite maybe_json by (apply (in_transfer_stable ser (k + 1) cmd _ N lst Hcmd Hlst Hbuf')).
      fold (unspace r).
      rewrite (IH (k + 1) N _ Hrest Hoth' ltac:(lia) ltac:(lia) (buf ++ [trim_space l])).
      2:{ intros Hs. specialize (Hser Hs). cbn [sp_lines map snd] in Hser. rewrite <- app_assoc. exact Hser. }
      cbn [sp_lines map snd]. rewrite <- app_assoc. cbn [app].
      destruct r as [|p r']; [inversion Hrest; subst; lia|].
      cbn [sp_outs fst]. reflexivity.
Qed.

Theorem full_run_rsteps ser cmd lst N sp sm0 d (Hcmd : is_cmd cmd) :
  full_run cmd lst N (sp_lines sp) sm0 d -> sp_others_ok sp ->
  ser_ok ser (ascii lst) -> ser_ok ser (Forall ascii (sp_lines sp)) ->
  forall st,
  rsteps ser st (unspace sp) =
  (sp_outs sp [(int_explode lst, gfx_append (sm_new_image sm0) d)], mkR (-1) cmd [] N lst).
Proof.
  intros Hrun Hoth Hlst Hasc st.
  assert (Hout : out_gfx (PBatch (sp_lines sp)) = [(int_explode lst, gfx_append (sm_new_image sm0) d)]).
  { unfold out_gfx, batch_gfx. rewrite batch_gfx_from_bsteps.
    rewrite (full_run_bsteps _ _ _ _ _ _ Hrun). reflexivity. }
  destruct Hrun as [l0 [r [dr [Heq [[Hm [Hc [Hl Hi]]] [Hmax [HN [Ht Hd]]]]]]]].
  destruct sp as [|[os l] sp']; [discriminate|]. cbn [sp_lines map snd] in Heq. injection Heq as Hl0 Hr. subst l0 r.
  apply Forall_cons_iff in Hoth. destruct Hoth as [Hos Hoth']. cbn [fst] in Hos.
  cbn [unspace flat_map fst snd]. rewrite <- app_assoc.
  destruct (rsteps_others_any ser os ([l] ++ unspace sp') Hos st) as [st' Hst']. fold (unspace sp'). rewrite Hst'.
  cbn [app rsteps]. rewrite (parse_chunk0 st' l sm0 Hm Hi). rewrite Hmax, Hc, Hl.
  destruct (0 =? N) eqn:E.
  - apply Z.eqb_eq in E. subst N. inversion Ht; subst; [|lia].
    destruct sp'; [|discriminate].
    rewrite maybe_json.
    2:{ apply in_transfer_stable; [exact Hcmd | exact Hlst | intros _; constructor]. }
    cbn [rsteps sp_outs fst unspace flat_map]. cbn [sp_lines map snd] in Hout. rewrite Hout. reflexivity.
  - apply Z.eqb_neq in E.
    assert (Hb : ser_ok ser (Forall ascii [trim_space l])).
    { intros Hs. specialize (Hasc Hs). cbn [sp_lines map snd] in Hasc. inversion Hasc; subst. constructor; [assumption | constructor]. }
    rewrite maybe_json by (apply (in_transfer_stable ser 0 cmd _ N lst Hcmd Hlst Hb)).
    rewrite (tail_run_rsteps ser cmd lst Hcmd Hlst sp' 0 N dr Ht Hoth' ltac:(lia) ltac:(lia) [trim_space l]).
    2:{ intros Hs. exact (Hasc Hs). }
    unfold sp_lines in *. cbn [app map snd] in *. rewrite Hout.
    destruct sp' as [|p r']; [inversion Ht; lia|].
    cbn [sp_outs fst]. reflexivity.
Qed.
