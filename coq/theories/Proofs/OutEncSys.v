(* C03: the capability-list line (all 2^13 subsets, by a finite sweep), float printing read
   back exactly (all finite float32 values, no bound), and the 20-field SysStat line. *)
From RP Require Import Lib.Base Lib.Sexp Lib.Strings Lib.TrimSpace Lib.FloatFmt Model.MsgOut Model.Flatten Model.EncOut
  Spec.DenoteOut Spec.GrammarOut Proofs.GfxNum Proofs.OutStrings Proofs.OutEncLines.
From Coq Require Import String.
Open Scope Z_scope.

(* ---------------------------------------------------------------- capability lists *)
Fixpoint bool_lists (n : nat) : list (list bool) :=
  match n with
  | O => [[]]
  | Datatypes.S n' => flat_map (fun b => map (cons b) (bool_lists n')) [true; false]
  end.

Definition caps_ok (c : list bool) : bool :=
  match read_out_line (enc_support c) with
  | WF _ [RCaps c'] => list_eqb Bool.eqb c c'
  | _ => false
  end.

Lemma caps_sweep : forallb caps_ok (bool_lists 13) = true.
Proof. vm_compute. reflexivity. Qed.

Lemma bool_lists_in : forall c : list bool, In c (bool_lists (List.length c)).
Proof.
  induction c as [|b c IH]; [left; reflexivity|]. cbn [List.length bool_lists].
  apply in_flat_map. exists b. split; [destruct b; cbn; tauto|]. apply in_map. exact IH.
Qed.

Lemma bools_eqb_eq : forall a b, list_eqb Bool.eqb a b = true -> a = b.
Proof.
  induction a as [|x a IH]; destruct b as [|y b]; cbn [list_eqb]; intros H; try discriminate; [reflexivity|].
  apply andb_true_iff in H. destruct H as [H1 H2]. apply Bool.eqb_prop in H1. rewrite H1, (IH b H2). reflexivity.
Qed.

Lemma sem_support c : List.length c = 13%nat -> exists st, read_out_line (enc_support c) = WF st [RCaps c].
Proof.
  intros Hl. pose proof caps_sweep as Hs. rewrite forallb_forall in Hs.
  pose proof (bool_lists_in c) as Hin. rewrite Hl in Hin. specialize (Hs c Hin).
  unfold caps_ok in Hs. destruct (read_out_line (enc_support c)) as [st rs| |]; try discriminate.
  destruct rs as [|r rs]; [discriminate|]. destruct r; try discriminate. destruct rs; [|discriminate].
  apply bools_eqb_eq in Hs. subst c0. exists st. reflexivity.
Qed.

(* ---------------------------------------------------------------- printed floats *)
Lemma rhe_div_nonneg n d : 0 <= n -> 0 < d -> 0 <= rhe_div n d.
Proof.
  intros Hn Hd. unfold rhe_div. pose proof (Z.div_pos n d Hn Hd).
  destruct (2 * (n mod d) <? d); [lia|]. destruct (d <? 2 * (n mod d)); [lia|]. destruct (Z.even (n / d)); lia.
Qed.

Lemma f32_m_nonneg b : 0 <= f32_m b.
Proof.
  unfold f32_m, f32_manf. pose proof (Z.mod_pos_bound b 8388608 ltac:(lia)). destruct (f32_expf b =? 0); lia.
Qed.

Lemma f32_scaled_abs_nonneg k b : 0 <= k -> 0 <= f32_scaled_abs k b.
Proof.
  intros Hk. unfold f32_scaled_abs. pose proof (f32_m_nonneg b).
  destruct (0 <=? f32_e b) eqn:E.
  - apply Z.leb_le in E. apply Z.mul_nonneg_nonneg; [apply Z.mul_nonneg_nonneg; [lia|apply Z.pow_nonneg; lia]|apply Z.pow_nonneg; lia].
  - apply rhe_div_nonneg; [apply Z.mul_nonneg_nonneg; [lia|apply Z.pow_nonneg; lia]|apply Z.pow_pos_nonneg; [lia|apply Z.leb_gt in E; lia]].
Qed.

(* itoa of a number below 10 / 100 has at most 1 / 2 digits *)
Lemma itoa_len_small : forallb (fun m => (List.length (itoa m) <=? (if (m <? 10)%Z then 1 else 2))%nat) (map Z.of_nat (seq 0 100)) = true.
Proof. vm_compute. reflexivity. Qed.

Lemma itoa_len1 m : 0 <= m < 10 -> (List.length (itoa m) <= 1)%nat.
Proof.
  intros H. pose proof itoa_len_small as Hs. rewrite forallb_forall in Hs.
  assert (Hin : In m (map Z.of_nat (seq 0 100))).
  { apply in_map_iff. exists (Z.to_nat m). split; [lia|]. apply in_seq. lia. }
  specialize (Hs m Hin). destruct (m <? 10) eqn:E; [|apply Z.ltb_ge in E; lia]. apply Nat.leb_le in Hs. exact Hs.
Qed.

Lemma itoa_len2 m : 0 <= m < 100 -> (List.length (itoa m) <= 2)%nat.
Proof.
  intros H. pose proof itoa_len_small as Hs. rewrite forallb_forall in Hs.
  assert (Hin : In m (map Z.of_nat (seq 0 100))).
  { apply in_map_iff. exists (Z.to_nat m). split; [lia|]. apply in_seq. lia. }
  specialize (Hs m Hin). apply Nat.leb_le in Hs. destruct (m <? 10); lia.
Qed.

Lemma zeros_digits n : forallb is_digit (repeat 48 n) = true.
Proof. induction n; [reflexivity|]. cbn [repeat forallb]. rewrite IHn. reflexivity. Qed.

Lemma digits_value_zeros : forall n, digits_value (repeat 48 n) 0 = 0.
Proof. induction n; [reflexivity|]. cbn [repeat digits_value]. exact IHn. Qed.

Lemma forallb_digit_app a b : forallb is_digit (a ++ b) = forallb is_digit a && forallb is_digit b.
Proof. apply forallb_app. Qed.

Definition fmt_strict (k b : Z) : bool :=
  (List.length (itoa (f32_scaled_abs k b / 10 ^ k)) <=? (if (Z.to_nat k =? 1)%nat then 3 else 2))%nat.

Lemma read_dec_fmt k b : k = 1 \/ k = 2 -> f32_finite b = true ->
  read_dec (Z.to_nat k) (fmt_f32 k b) = Some (fmt_strict k b, f32_scaled k b).
Proof.
  intros Hk Hfin. unfold fmt_f32, f32_is_nan, f32_is_inf. unfold f32_finite in Hfin. apply negb_true_iff in Hfin. rewrite Hfin. cbn [andb].
  set (r := f32_scaled_abs k b).
  assert (Hr : 0 <= r) by (apply f32_scaled_abs_nonneg; lia).
  assert (Hp : 0 < 10 ^ k) by (apply Z.pow_pos_nonneg; lia).
  set (q := r / 10 ^ k). set (m := r mod 10 ^ k).
  assert (Hq : 0 <= q) by (apply Z.div_pos; lia).
  assert (Hm : 0 <= m < 10 ^ k) by (apply Z.mod_pos_bound; lia).
  destruct (itoa_digits q Hq) as [Hqd Hqne]. destruct (itoa_digits m ltac:(lia)) as [Hmd Hmne].
  assert (Hmlen : (List.length (itoa m) <= Z.to_nat k)%nat).
  { destruct Hk as [-> | ->]; [apply itoa_len1|apply itoa_len2]; cbn in Hm; lia. }
  set (pad := pad0 k (itoa m)).
  assert (Hpadlen : List.length pad = Z.to_nat k).
  { unfold pad, pad0. rewrite app_length, repeat_length. unfold zlen. lia. }
  assert (Hpadd : forallb is_digit pad = true).
  { unfold pad, pad0. rewrite forallb_digit_app, zeros_digits, Hmd. reflexivity. }
  assert (Hpadv : dec_val pad 0 = m).
  { unfold pad, pad0. rewrite dec_val_digits_value, digits_value_app, digits_value_zeros.
    destruct (itoa_nonneg_repr m ltac:(lia)) as [_ [_ Hv]]. rewrite Hv. lia. }
  assert (Hqv : dec_val (itoa q) 0 = q).
  { rewrite dec_val_digits_value. destruct (itoa_nonneg_repr q Hq) as [_ [_ Hv]]. rewrite Hv. lia. }
  assert (Hpadne : pad <> []).
  { intros E. rewrite E in Hpadlen. cbn in Hpadlen. destruct Hk; subst k; cbn in Hpadlen; lia. }
  assert (Hbody : forall neg : bool,
     match cut_on 46 (itoa q ++ [46] ++ pad) with
     | (ip, fp, true) =>
       if digits_nonempty ip && digits_nonempty fp && (List.length fp =? Z.to_nat k)%nat then
         let v := dec_val ip 0 * 10 ^ Z.of_nat (Z.to_nat k) + dec_val fp 0 in
         Some ((List.length ip <=? (if (Z.to_nat k =? 1)%nat then 3 else 2))%nat, if neg then - v else v)
       else None
     | _ => None
     end = Some (fmt_strict k b, if neg then - r else r)).
  { intros neg. cbn [app]. rewrite (cut_on_app 46 (itoa q) pad (digits_no_byte 46 _ Hqd eq_refl)).
    assert (E1 : digits_nonempty (itoa q) = true) by (apply digits_nonempty_spec; auto).
    assert (E2 : digits_nonempty pad = true) by (apply digits_nonempty_spec; auto).
    rewrite E1, E2, Hpadlen, Nat.eqb_refl. cbn [andb]. rewrite Hqv, Hpadv, Z2Nat.id by lia.
    unfold fmt_strict. fold r. fold q. f_equal. f_equal.
    assert (q * 10 ^ k + m = r) by (unfold q, m; pose proof (Z.div_mod r (10 ^ k)); lia).
    destruct neg; lia. }
  unfold read_dec, f32_scaled. fold r. destruct (f32_neg b).
  - cbn [app tl]. change (match 45 :: itoa q ++ [46] ++ pad with 45 :: _ => true | _ => false end) with true. cbn match.
    cbn [tl]. apply (Hbody true).
  - destruct (itoa_head_digit q Hq) as [c [rest [Eq Hc]]].
    assert (Hneg : forall X, match itoa q ++ X with 45 :: _ => true | _ => false end = false).
    { intros X. rewrite Eq. cbn [app]. unfold is_digit in Hc. apply andb_true_iff in Hc. destruct Hc as [H1 H2]. apply Z.leb_le in H1.
      destruct c as [|p|p]; try reflexivity. do 6 (destruct p as [p|p|]; try reflexivity). lia. }
    cbn [app]. rewrite Hneg. apply (Hbody false).
Qed.

Lemma fmt_no_colon k b : k = 1 \/ k = 2 -> f32_finite b = true -> forallb (fun x => negb (x =? 58)) (fmt_f32 k b) = true.
Proof.
  intros Hk Hfin. unfold fmt_f32, f32_is_nan, f32_is_inf. unfold f32_finite in Hfin. apply negb_true_iff in Hfin. rewrite Hfin. cbn [andb].
  assert (Hr : 0 <= f32_scaled_abs k b) by (apply f32_scaled_abs_nonneg; lia).
  assert (Hp : 0 < 10 ^ k) by (apply Z.pow_pos_nonneg; lia).
  rewrite !forallb_app. rewrite (itoa_no_byte 58 _ eq_refl ltac:(lia)). unfold pad0. rewrite forallb_app.
  rewrite (itoa_no_byte 58 _ eq_refl ltac:(lia)).
  assert (forallb (fun x : Z => negb (x =? 58)) (repeat 48 (Z.to_nat (k - zlen (itoa (f32_scaled_abs k b mod 10 ^ k))))) = true).
  { generalize (Z.to_nat (k - zlen (itoa (f32_scaled_abs k b mod 10 ^ k)))). induction n; [reflexivity|]. cbn [repeat forallb]. rewrite IHn. reflexivity. }
  rewrite H. destruct (f32_neg b); reflexivity.
Qed.

Lemma fmt_no_lf k b : k = 1 \/ k = 2 -> f32_finite b = true -> has_lf (fmt_f32 k b) = false.
Proof.
  intros Hk Hfin. unfold fmt_f32, f32_is_nan, f32_is_inf. unfold f32_finite in Hfin. apply negb_true_iff in Hfin. rewrite Hfin. cbn [andb].
  rewrite !has_lf_app, itoa_no_lf. unfold pad0. rewrite has_lf_app, itoa_no_lf.
  assert (has_lf (repeat 48 (Z.to_nat (k - zlen (itoa (f32_scaled_abs k b mod 10 ^ k))))) = false).
  { generalize (Z.to_nat (k - zlen (itoa (f32_scaled_abs k b mod 10 ^ k)))). induction n; [reflexivity|]. cbn [repeat]. rewrite has_lf_cons, IHn. reflexivity. }
  rewrite H. destruct (f32_neg b); reflexivity.
Qed.

(* ---------------------------------------------------------------- the SysStat line *)
Lemma concat_pairs_pieces : forall (l : list (bytes * bytes)),
  List.concat (map (fun nv => fst nv ++ [58] ++ snd nv ++ [58]) l) =
  List.concat (map (fun p => p ++ [58]) (flat_map (fun nv => [fst nv; snd nv]) l)).
Proof.
  induction l as [|[n v] l IH]; [reflexivity|].
  cbn [map List.concat flat_map]. rewrite IH. cbn [fst snd].
  change ([n; v] ++ flat_map (fun nv : bytes * bytes => [fst nv; snd nv]) l) with (n :: v :: flat_map (fun nv : bytes * bytes => [fst nv; snd nv]) l).
  cbn [map List.concat]. rewrite <- !app_assoc. reflexivity.
Qed.

Lemma split_colon_pieces : forall ps,
  Forall (fun p => forallb (fun x => negb (x =? 58)) p = true) ps ->
  split_on 58 (List.concat (map (fun p => p ++ [58]) ps)) = ps ++ [[]].
Proof.
  induction ps as [|p ps IH]; intros H; [reflexivity|]. inversion H as [|? ? Hp Hps]; subst.
  cbn [map List.concat]. rewrite <- app_assoc. cbn [app].
  rewrite (split_on_app 58 p _ Hp), (IH Hps). reflexivity.
Qed.

Lemma drop_last_empty_snoc (ps : list bytes) : drop_last_empty (ps ++ [[]]) = ps.
Proof. unfold drop_last_empty. rewrite rev_app_distr. cbn [rev app]. apply rev_involutive. Qed.

Lemma sys_pairs_cons2 n v rest a :
  sys_pairs (n :: v :: rest) a = match sys_field n v a with Some a' => sys_pairs rest a' | None => None end.
Proof. reflexivity. Qed.

(* one field, by its index in the name table *)
Lemma sf_cpu n x st cpu t e vo ints fl :
  index_in n ss_names 0 = Some 0%nat -> 0 <= x < 4294967296 ->
  sys_field n (itoa x) (st, cpu, t, e, vo, ints, fl) = Some (st, x, t, e, vo, ints, fl).
Proof. intros Hi Hx. unfold sys_field. rewrite Hi. cbn [Nat.eqb]. rewrite (itoa_read_u32 x Hx). reflexivity. Qed.

Lemma sf_temp n b st cpu t e vo ints fl :
  index_in n ss_names 0 = Some 1%nat -> f32_finite b = true ->
  sys_field n (fmt_f32 1 b) (st, cpu, t, e, vo, ints, fl) = Some (st && fmt_strict 1 b, cpu, f32_scaled 1 b, e, vo, ints, fl).
Proof.
  intros Hi Hb. unfold sys_field. rewrite Hi. cbn [Nat.eqb].
  change 1%nat with (Z.to_nat 1). rewrite (read_dec_fmt 1 b (or_introl eq_refl) Hb). reflexivity.
Qed.

Lemma sf_ext n b st cpu t e vo ints fl :
  index_in n ss_names 0 = Some 2%nat -> f32_finite b = true ->
  sys_field n (fmt_f32 1 b) (st, cpu, t, e, vo, ints, fl) = Some (st && fmt_strict 1 b, cpu, t, f32_scaled 1 b, vo, ints, fl).
Proof.
  intros Hi Hb. unfold sys_field. rewrite Hi. cbn [Nat.eqb].
  change 1%nat with (Z.to_nat 1). rewrite (read_dec_fmt 1 b (or_introl eq_refl) Hb). reflexivity.
Qed.

Lemma sf_volt n b st cpu t e vo ints fl :
  index_in n ss_names 0 = Some 3%nat -> f32_finite b = true ->
  sys_field n (fmt_f32 2 b) (st, cpu, t, e, vo, ints, fl) = Some (st && fmt_strict 2 b, cpu, t, e, f32_scaled 2 b, ints, fl).
Proof.
  intros Hi Hb. unfold sys_field. rewrite Hi. cbn [Nat.eqb].
  change 2%nat with (Z.to_nat 2). rewrite (read_dec_fmt 2 b (or_intror eq_refl) Hb). reflexivity.
Qed.

Lemma sf_int n j x st cpu t e vo ints fl :
  index_in n ss_names 0 = Some (4 + j)%nat -> (j < 8)%nat -> -2147483648 <= x < 2147483648 ->
  sys_field n (itoa x) (st, cpu, t, e, vo, ints, fl) = Some (st, cpu, t, e, vo, set_nth ints j x, fl).
Proof.
  intros Hi Hj Hx. unfold sys_field. rewrite Hi. cbn [Nat.eqb plus].
  destruct (Datatypes.S (Datatypes.S (Datatypes.S (Datatypes.S j))) <? 12)%nat eqn:E; [|apply Nat.ltb_ge in E; lia].
  rewrite (itoa_read_i32 x Hx). replace (Datatypes.S (Datatypes.S (Datatypes.S (Datatypes.S j))) - 4)%nat with j by lia. reflexivity.
Qed.

Lemma b01_read b : read_bool (b01 b) = Some b.
Proof. destruct b; reflexivity. Qed.

Lemma sf_flag n j b st cpu t e vo ints fl :
  index_in n ss_names 0 = Some (12 + j)%nat ->
  sys_field n (b01 b) (st, cpu, t, e, vo, ints, fl) = Some (st, cpu, t, e, vo, ints, set_nth fl j b).
Proof.
  intros Hi. unfold sys_field. rewrite Hi. cbn [Nat.eqb plus].
  destruct (Datatypes.S (Datatypes.S (Datatypes.S (Datatypes.S (Datatypes.S (Datatypes.S (Datatypes.S (Datatypes.S (Datatypes.S (Datatypes.S (Datatypes.S (Datatypes.S j))))))))))) <? 12)%nat eqn:E;
    [apply Nat.ltb_lt in E; lia|].
  rewrite b01_read.
  replace (Datatypes.S (Datatypes.S (Datatypes.S (Datatypes.S (Datatypes.S (Datatypes.S (Datatypes.S (Datatypes.S (Datatypes.S (Datatypes.S (Datatypes.S (Datatypes.S j))))))))))) - 12)%nat with j by lia.
  reflexivity.
Qed.

Lemma b01_no_colon b : forallb (fun x => negb (x =? 58)) (b01 b) = true.
Proof. destruct b; reflexivity. Qed.

Lemma b01_no_lf b : has_lf (b01 b) = false.
Proof. destruct b; reflexivity. Qed.

Lemma has_lf_concat : forall ps, Forall (fun p => has_lf p = false) ps -> has_lf (List.concat (map (fun p => p ++ [58]) ps)) = false.
Proof.
  induction ps as [|p ps IH]; intros H; [reflexivity|]. inversion H as [|? ? Hp Hps]; subst.
  cbn [map List.concat]. rewrite !has_lf_app, Hp, (IH Hps). reflexivity.
Qed.

Theorem sem_sys_line s : rep_sys s = true ->
  exists st, read_out_line (enc_sys s) = WF st [den_sys s].
Proof.
  intros H. unfold rep_sys, sys_shape_ok in H. repeat (apply andb_true_iff in H; destruct H as [H ?]).
  destruct s as [cpu tb eb vb ints fl]. cbn [ss_cpu ss_temp ss_ext ss_volt ss_ints ss_flags] in *.
  assert (Hli : List.length ints = 8%nat) by (apply Nat.eqb_eq; assumption).
  assert (Hlf : List.length fl = 8%nat) by (apply Nat.eqb_eq; assumption).
  destruct ints as [|i0 [|i1 [|i2 [|i3 [|i4 [|i5 [|i6 [|i7 [|]]]]]]]]]; try discriminate.
  destruct fl as [|b0 [|b1 [|b2 [|b3 [|b4 [|b5 [|b6 [|b7 [|]]]]]]]]]; try discriminate.
  match goal with Hi : forallb i32b _ = true |- _ => cbn [forallb] in Hi; repeat (apply andb_true_iff in Hi; destruct Hi as [? Hi]) end.
  repeat match goal with Hx : i32b _ = true |- _ => unfold i32b in Hx; apply andb_true_iff in Hx; destruct Hx as [?Hlo ?Hhi]; apply Z.leb_le in Hlo; apply Z.ltb_lt in Hhi end.
  match goal with Hc : u32b cpu = true |- _ => unfold u32b in Hc; apply andb_true_iff in Hc; destruct Hc as [Hc1 Hc2]; apply Z.leb_le in Hc1; apply Z.ltb_lt in Hc2 end.
  unfold enc_sys. rewrite rd_sys. unfold ss_values. cbn [ss_cpu ss_temp ss_ext ss_volt ss_ints ss_flags map seq nth app].
  let l := eval vm_compute in ss_names in change ss_names with l. cbn [combine].
  rewrite concat_pairs_pieces. cbn [flat_map fst snd app].
  match goal with |- context [List.concat (map _ ?ps)] => set (pieces := ps) end.
  assert (Hnc : Forall (fun p => forallb (fun x => negb (x =? 58)) p = true) pieces).
  { unfold pieces. repeat (constructor; [first [reflexivity | apply itoa_no_byte; [reflexivity|lia] | apply fmt_no_colon; [tauto|assumption] | apply b01_no_colon]|]). constructor. }
  assert (Hnl : Forall (fun p => has_lf p = false) pieces).
  { unfold pieces. repeat (constructor; [first [reflexivity | apply itoa_no_lf | apply fmt_no_lf; [tauto|assumption] | apply b01_no_lf]|]). constructor. }
  unfold read_value. rewrite (has_lf_concat pieces Hnl). unfold read_sys.
  destruct (List.concat (map (fun p => p ++ [58]) pieces)) as [|c0 rest0] eqn:Econc.
  { exfalso. unfold pieces in Econc. cbn in Econc. discriminate. }
  rewrite <- Econc. rewrite (split_colon_pieces pieces Hnc), drop_last_empty_snoc.
  unfold pieces, sys_zero. 
  rewrite sys_pairs_cons2, (sf_cpu _ cpu) by (first [reflexivity | lia]).
  rewrite sys_pairs_cons2, (sf_temp _ tb) by (first [reflexivity | assumption]).
  rewrite sys_pairs_cons2, (sf_ext _ eb) by (first [reflexivity | assumption]).
  rewrite sys_pairs_cons2, (sf_volt _ vb) by (first [reflexivity | assumption]).
  rewrite sys_pairs_cons2, (sf_int _ 0 i0) by (first [reflexivity | lia]).
  rewrite sys_pairs_cons2, (sf_int _ 1 i1) by (first [reflexivity | lia]).
  rewrite sys_pairs_cons2, (sf_int _ 2 i2) by (first [reflexivity | lia]).
  rewrite sys_pairs_cons2, (sf_int _ 3 i3) by (first [reflexivity | lia]).
  rewrite sys_pairs_cons2, (sf_int _ 4 i4) by (first [reflexivity | lia]).
  rewrite sys_pairs_cons2, (sf_int _ 5 i5) by (first [reflexivity | lia]).
  rewrite sys_pairs_cons2, (sf_int _ 6 i6) by (first [reflexivity | lia]).
  rewrite sys_pairs_cons2, (sf_int _ 7 i7) by (first [reflexivity | lia]).
  rewrite sys_pairs_cons2, (sf_flag _ 0 b0) by reflexivity.
  rewrite sys_pairs_cons2, (sf_flag _ 1 b1) by reflexivity.
  rewrite sys_pairs_cons2, (sf_flag _ 2 b2) by reflexivity.
  rewrite sys_pairs_cons2, (sf_flag _ 3 b3) by reflexivity.
  rewrite sys_pairs_cons2, (sf_flag _ 4 b4) by reflexivity.
  rewrite sys_pairs_cons2, (sf_flag _ 5 b5) by reflexivity.
  rewrite sys_pairs_cons2, (sf_flag _ 6 b6) by reflexivity.
  rewrite sys_pairs_cons2, (sf_flag _ 7 b7) by reflexivity.
  cbn [sys_pairs]. eexists. unfold den_sys. cbn [ss_cpu ss_temp ss_ext ss_volt ss_ints ss_flags]. reflexivity.
Qed.
