(* C02, part 1: the decoder's hand-written matchers on a line that starts with a known key
   name, and the agreement of the decoder's field readers (strconv.Atoi, strings.Split,
   Z.land / Z.shiftr) with the reference reader's (decimals, fields, div / mod). *)
From RP Require Import Lib.Base Lib.Sexp Lib.Strings Model.Gfx Model.MsgIn Model.DecIn
  Spec.DenoteIn Spec.GrammarIn Proofs.GfxNum Proofs.StringsProofs Proofs.InBits Proofs.InEncLines.
From Coq Require Import String ZifyBool.
Open Scope string_scope.
Open Scope list_scope.
Open Scope Z_scope.

(* ---------------------------------------------------------------- keyword alternation *)
(* first keyword that is a prefix of [pre] (the others before it differing from [pre] at a
   common position): what match_kw returns on pre ++ rest, whatever rest is *)
Fixpoint kw_lookup (kws : list string) (pre : list Z) : option (list Z * list Z) :=
  match kws with
  | [] => None
  | k :: r =>
    match drop_prefix (str k) pre with
    | Some tail => Some (str k, tail)
    | None => if clash (str k) pre then kw_lookup r pre else None
    end
  end.
Fixpoint kw_none (kws : list string) (pre : list Z) : bool :=
  match kws with [] => true | k :: r => clash (str k) pre && kw_none r pre end.

Lemma drop_prefix_app_l : forall q p t r, drop_prefix q p = Some t -> drop_prefix q (p ++ r) = Some (t ++ r).
Proof.
  induction q as [|x q IH]; intros p t r H; cbn [drop_prefix] in *.
  - inversion H. reflexivity.
  - destruct p as [|y p]; [discriminate|]. cbn [app]. destruct (x =? y); [|discriminate]. apply IH. exact H.
Qed.

Lemma match_kw_lookup : forall kws pre kw tail rest, kw_lookup kws pre = Some (kw, tail) ->
  match_kw kws (pre ++ rest) = Some (kw, tail ++ rest).
Proof.
  induction kws as [|k r IH]; intros pre kw tail rest H; cbn [kw_lookup] in H; [discriminate|].
  cbn [match_kw]. destruct (drop_prefix (str k) pre) as [t|] eqn:E.
  - inversion H; subst. rewrite (drop_prefix_app_l _ _ _ rest E). reflexivity.
  - destruct (clash (str k) pre) eqn:C; [|discriminate]. rewrite (clash_drop_prefix _ _ rest C). apply IH. exact H.
Qed.

Lemma match_kw_none : forall kws pre rest, kw_none kws pre = true -> match_kw kws (pre ++ rest) = None.
Proof.
  induction kws as [|k r IH]; intros pre rest H; [reflexivity|]. cbn [kw_none] in H.
  apply andb_true_iff in H. destruct H as [C H]. cbn [match_kw]. rewrite (clash_drop_prefix _ _ rest C). apply IH. exact H.
Qed.

Definition cmd_kws : list string := ["HWC#"; "HWCx#"; "HWCc#"; "HWCt#"; "HWCrawADCValues#"].
Definition single_kws : list string :=
  ["HeartBeatTimer"; "DimmedGain"; "PublishSystemStat"; "LoadCPU"; "SleepTimer";
   "SleepMode"; "SleepScreenSaver"; "Webserver"; "JSONonOutbound"; "PanelBrightness"].
Definition str_kws : list string := ["SetCalibrationProfile"; "SimulateEnvironmentalHealth"; "SetNetworkConfig"].
Definition reg_kws : list string := ["Flag#"; "Mem"; "Shift"; "State"].
Definition gfx_kws : list string := ["HWCgRGB#"; "HWCgGray#"; "HWCg#"].

Lemma m_cmd_none pre rest : kw_none cmd_kws pre = true -> m_cmd (pre ++ rest) = None.
Proof. intros H. unfold m_cmd. change (match_kw _ (pre ++ rest)) with (match_kw cmd_kws (pre ++ rest)). rewrite (match_kw_none _ _ _ H). reflexivity. Qed.
Lemma m_single_none pre rest : kw_none single_kws pre = true -> m_single (pre ++ rest) = None.
Proof. intros H. unfold m_single. change (match_kw _ (pre ++ rest)) with (match_kw single_kws (pre ++ rest)). rewrite (match_kw_none _ _ _ H). reflexivity. Qed.
Lemma m_dual_none pre rest : kw_none ["PanelBrightness"] pre = true -> m_dual (pre ++ rest) = None.
Proof. intros H. unfold m_dual. rewrite (match_kw_none _ _ _ H). reflexivity. Qed.
Lemma m_str_none pre rest : kw_none str_kws pre = true -> m_str (pre ++ rest) = None.
Proof. intros H. unfold m_str. change (match_kw _ (pre ++ rest)) with (match_kw str_kws (pre ++ rest)). rewrite (match_kw_none _ _ _ H). reflexivity. Qed.
Lemma m_reg_none pre rest : kw_none reg_kws pre = true -> m_reg (pre ++ rest) = None.
Proof. intros H. unfold m_reg. change (match_kw _ (pre ++ rest)) with (match_kw reg_kws (pre ++ rest)). rewrite (match_kw_none _ _ _ H). reflexivity. Qed.
Lemma gfx_match_none pre rest : kw_none gfx_kws pre = true -> gfx_match (pre ++ rest) = None.
Proof.
  intros H. cbn [kw_none gfx_kws] in H. repeat (apply andb_true_iff in H; destruct H as [? H]).
  unfold gfx_match, gfx_prefix. rewrite !clash_drop_prefix by assumption. reflexivity.
Qed.

(* ---------------------------------------------------------------- the exact-match switch *)
Definition words_clash (pre : list Z) : bool :=
  clash (str "ping") pre && clash (str "ack") pre && clash (str "nack") pre &&
  forallb (fun w => clash (str w) pre) flag_words.

Lemma lookup_flag_clash : forall ws k pre rest, forallb (fun w => clash (str w) pre) ws = true ->
  lookup_flag ws k (pre ++ rest) = None.
Proof.
  induction ws as [|w r IH]; intros k pre rest H; [reflexivity|]. cbn [forallb] in H.
  apply andb_true_iff in H. destruct H as [C H]. cbn [lookup_flag]. unfold seq_eqb.
  rewrite (clash_neq _ _ rest C). apply IH. exact H.
Qed.

Section Dec.
  Variable js : list Z -> HWCState.
  Variable jm : list Z -> list (option InboundMessage).
  Variable ncp : list Z -> option (list Z).
  Notation dline := (dec_line js jm ncp).

  (* a line that starts with [pre] reaches the regular expressions *)
  Lemma dec_line_prefixed st c pre' rest :
    let pre := c :: pre' in let l := pre ++ rest in
    words_clash pre = true -> (c =? 123) = false -> (c =? 91) = false ->
    dline st l =
      match m_cmd l with
      | Some gs => do ms <- dec_cmd_line gs; Ok (st, ms)
      | None =>
        match gfx_match l with
        | Some sm =>
          let '(st', d) := gfx_step st sm in
          Ok (st', match d with
                   | Some (ids, g) => [state_msg (mkState ids None None None None (Some (of_gfx g)) None None)]
                   | None => [] end)
        | None =>
          match m_single l with
          | Some gs => do ms <- dec_single_line gs; Ok (st, ms)
          | None =>
            match m_dual l with
            | Some gs => do ms <- dec_dual_line gs; Ok (st, ms)
            | None =>
              match m_str l with
              | Some gs => do ms <- dec_str_line ncp gs; Ok (st, ms)
              | None =>
                match m_reg l with
                | Some gs => do ms <- dec_reg_line gs; Ok (st, ms)
                | None => Ok (st, [empty_msg])
                end
              end
            end
          end
        end
      end.
  Proof.
    intros pre l W C1 C2. unfold words_clash in W. repeat (apply andb_true_iff in W; destruct W as [W ?]).
    unfold dec_line. subst l pre. cbn [app]. change (c :: pre' ++ rest) with ((c :: pre') ++ rest).
    unfold seq_eqb. rewrite !clash_neq by assumption.
    rewrite (lookup_flag_clash _ _ _ rest H). cbn [app]. rewrite C1, C2. reflexivity.
  Qed.
End Dec.

(* ---------------------------------------------------------------- field readers agree *)
Lemma all_opt_map_spec {A B} (f : A -> option B) : forall l r, all_opt (map f l) = Some r ->
  Forall2 (fun a b => f a = Some b) l r.
Proof.
  induction l as [|a l IH]; intros r H; cbn [map all_opt] in H.
  - inversion H. constructor.
  - destruct (f a) as [b|] eqn:E; [|discriminate]. destruct (all_opt (map f l)) as [t|] eqn:T; [|discriminate].
    inversion H; subst. constructor; [exact E|apply IH; reflexivity].
Qed.

(* su.IntExplode on a well-formed id list *)
Lemma int_explode_ids idtext ids : rd_ids idtext = Some ids -> int_explode idtext = ids.
Proof.
  unfold rd_ids, int_explode. rewrite split_on_fields. intros H. apply all_opt_map_spec in H.
  induction H as [|a b l r Hab _ IH]; [reflexivity|]. cbn [map]. rewrite IH. f_equal.
  apply rd_nat_lt_atoi in Hab; [|unfold two32, two63; lia]. destruct Hab as (-> & R & _).
  unfold wrap32. apply Z.mod_small. unfold two32 in R. lia.
Qed.

(* the characters of a well-formed id list *)
Lemma fields_join_chars (p : Z -> bool) sep : p sep = true -> forall s,
  Forall (fun f => forallb p f = true) (fields sep s) -> forallb p s = true.
Proof.
  intros Hs. induction s as [|c r IH]; intros H; [reflexivity|]. cbn [fields] in H. cbn [forallb].
  destruct (c =? sep) eqn:E.
  - apply Z.eqb_eq in E. subst. rewrite Hs. inversion H; subst. apply IH. assumption.
  - destruct (fields sep r) as [|f fs] eqn:F; [exfalso; eapply fields_nonempty; eauto|].
    inversion H as [|? ? Hcf Hfs]; subst. cbn [forallb] in Hcf. apply andb_true_iff in Hcf. destruct Hcf as [Hc Hf].
    rewrite Hc. apply IH. constructor; assumption.
Qed.

Lemma rd_ids_chars idtext ids : rd_ids idtext = Some ids -> forallb is_listch idtext = true /\ idtext <> [].
Proof.
  unfold rd_ids. intros H. apply all_opt_map_spec in H. split.
  - apply (fields_join_chars is_listch 44); [reflexivity|].
    clear - H. induction H as [|a b l r Hab _ IH]; constructor; [|exact IH].
    apply rd_nat_lt_atoi in Hab; [|unfold two32, two63; lia]. destruct Hab as (_ & _ & _ & D).
    revert D. apply forallb_impl. intros x Hx. unfold is_listch. rewrite Hx. reflexivity.
  - intros ->. cbn in H. inversion H as [|? ? ? ? Hab]; subst. discriminate.
Qed.

Lemma span_listch idtext v : forallb is_listch idtext = true -> span is_listch (idtext ++ 61 :: v) = (idtext, 61 :: v).
Proof. intros H. apply span_app_stop; [exact H|reflexivity]. Qed.

(* applying one update to several ids = applying it to each in turn *)
Lemma apply_state_ids p ids u :
  apply_effs p (flat_map (fun id => [EState [id] u]) ids) = apply_eff p (EState ids u).
Proof.
  revert p. induction ids as [|i r IH]; intros p.
  - cbn. destruct p; reflexivity.
  - cbn [flat_map app]. unfold apply_effs in *. cbn [fold_left]. rewrite IH. cbn [apply_eff fold_left]. reflexivity.
Qed.
