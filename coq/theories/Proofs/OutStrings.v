(* Generic string facts for the outbound codec proofs (C03/C04/C06): byte-string equality,
   prefixes, span, cut, table lookup, and the agreement of the reference reader's number
   readers with strconv.Atoi on their domain.  itoa/atoi core lemmas come from GfxNum.v. *)
From RP Require Import Lib.Base Lib.Sexp Lib.Strings Proofs.GfxNum Spec.DenoteOut Spec.GrammarOut.
Open Scope Z_scope.

(* ---------------------------------------------------------------- equality *)
Lemma beqb_eq : forall a b, bytes_eqb a b = true <-> a = b.
Proof.
  unfold bytes_eqb. induction a as [|x a IH]; destruct b as [|y b]; cbn [list_eqb]; split; intros H; try discriminate; auto.
  - apply andb_true_iff in H. destruct H as [H1 H2]. apply Z.eqb_eq in H1. apply IH in H2. congruence.
  - injection H as -> ->. rewrite Z.eqb_refl. cbn. apply IH. reflexivity.
Qed.

Lemma beqb_refl a : bytes_eqb a a = true.
Proof. apply beqb_eq. reflexivity. Qed.

Lemma beqb_neq a b : bytes_eqb a b = false <-> a <> b.
Proof.
  split; intros H.
  - intros E. apply beqb_eq in E. congruence.
  - destruct (bytes_eqb a b) eqn:E; auto. apply beqb_eq in E. contradiction.
Qed.

(* ---------------------------------------------------------------- prefixes *)
Lemma drop_prefix_some : forall p s r, drop_prefix p s = Some r -> s = p ++ r.
Proof.
  induction p as [|a p IH]; intros s r H; cbn [drop_prefix] in H.
  - injection H as ->. reflexivity.
  - destruct s as [|b s]; [discriminate|]. destruct (a =? b) eqn:E; [|discriminate].
    apply Z.eqb_eq in E. subst b. cbn [app]. f_equal. apply IH. exact H.
Qed.

Lemma drop_prefix_app : forall p r, drop_prefix p (p ++ r) = Some r.
Proof. induction p as [|a p IH]; intros r; cbn [drop_prefix app]; auto. rewrite Z.eqb_refl. apply IH. Qed.

(* ---------------------------------------------------------------- span *)
Lemma span_spec (p : Z -> bool) : forall s a b,
  span p s = (a, b) ->
  s = a ++ b /\ forallb p a = true /\ match b with [] => True | c :: _ => p c = false end.
Proof.
  induction s as [|c s IH]; intros a b H; cbn [span] in H.
  - injection H as <- <-. auto.
  - destruct (p c) eqn:E.
    + destruct (span p s) as [a' b'] eqn:E2. injection H as <- <-.
      destruct (IH a' b' eq_refl) as [H1 [H2 H3]]. subst s. cbn [app forallb]. rewrite E, H2. auto.
    + injection H as <- <-. cbn. rewrite E. auto.
Qed.

Lemma span_app_all (p : Z -> bool) : forall a b,
  forallb p a = true -> span p (a ++ b) = (a ++ fst (span p b), snd (span p b)).
Proof.
  induction a as [|x a IH]; intros b H; cbn [app].
  - destruct (span p b); reflexivity.
  - cbn in H. apply andb_true_iff in H. destruct H as [Hx Ha]. cbn [span]. rewrite Hx, (IH b Ha). reflexivity.
Qed.

(* ---------------------------------------------------------------- cut *)
Lemma cut_on_aux_spec (c : Z) : forall s cur a b f,
  cut_on_aux c s cur = (a, b, f) ->
  if f then exists a', a = rev cur ++ a' /\ s = a' ++ c :: b /\ forallb (fun x => negb (x =? c)) a' = true
  else a = rev cur ++ s /\ b = [] /\ forallb (fun x => negb (x =? c)) s = true.
Proof.
  induction s as [|x s IH]; intros cur a b f H; cbn [cut_on_aux] in H.
  - injection H as <- <- <-. rewrite app_nil_r. auto.
  - destruct (x =? c) eqn:E.
    + injection H as <- <- <-. apply Z.eqb_eq in E. subst x. exists []. rewrite app_nil_r. auto.
    + specialize (IH (x :: cur) a b f H). destruct f.
      * destruct IH as [a' [H1 [H2 H3]]]. exists (x :: a'). cbn [rev] in H1. rewrite <- app_assoc in H1. cbn [app] in H1.
        split; [exact H1|]. split; [subst s; reflexivity|]. cbn [forallb]. rewrite E, H3. reflexivity.
      * destruct IH as [H1 [H2 H3]]. cbn [rev] in H1. rewrite <- app_assoc in H1. cbn [app] in H1.
        split; [exact H1|]. split; [exact H2|]. cbn [forallb]. rewrite E, H3. reflexivity.
Qed.

Lemma cut_on_found c s a b :
  cut_on c s = (a, b, true) -> s = a ++ c :: b /\ forallb (fun x => negb (x =? c)) a = true.
Proof.
  intros H. apply cut_on_aux_spec in H. destruct H as [a' [H1 [H2 H3]]]. cbn in H1. subst a'. auto.
Qed.

Lemma cut_on_missing c s a b :
  cut_on c s = (a, b, false) -> a = s /\ b = [] /\ forallb (fun x => negb (x =? c)) s = true.
Proof. intros H. apply cut_on_aux_spec in H. cbn in H. exact H. Qed.

Lemma cut_on_aux_app c : forall a b cur,
  forallb (fun x => negb (x =? c)) a = true -> cut_on_aux c (a ++ c :: b) cur = (rev cur ++ a, b, true).
Proof.
  induction a as [|x a IH]; intros b cur H; cbn [app cut_on_aux].
  - rewrite Z.eqb_refl, app_nil_r. reflexivity.
  - cbn in H. apply andb_true_iff in H. destruct H as [Hx Ha]. apply negb_true_iff in Hx. rewrite Hx.
    rewrite (IH b (x :: cur) Ha). cbn [rev]. rewrite <- app_assoc. reflexivity.
Qed.

Lemma cut_on_app c a b :
  forallb (fun x => negb (x =? c)) a = true -> cut_on c (a ++ c :: b) = (a, b, true).
Proof. intros H. unfold cut_on. rewrite (cut_on_aux_app c a b [] H). reflexivity. Qed.

(* ---------------------------------------------------------------- split / join *)
Lemma split_on_aux_nosep c : forall s cur,
  forallb (fun x => negb (x =? c)) s = true -> split_on_aux c s cur = [rev cur ++ s].
Proof.
  induction s as [|x s IH]; intros cur H; cbn [split_on_aux].
  - rewrite app_nil_r. reflexivity.
  - cbn in H. apply andb_true_iff in H. destruct H as [Hx Hs]. apply negb_true_iff in Hx. rewrite Hx.
    rewrite (IH (x :: cur) Hs). cbn [rev]. rewrite <- app_assoc. reflexivity.
Qed.

Lemma split_on_aux_app c : forall a b cur,
  forallb (fun x => negb (x =? c)) a = true ->
  split_on_aux c (a ++ c :: b) cur = (rev cur ++ a) :: split_on_aux c b [].
Proof.
  induction a as [|x a IH]; intros b cur H; cbn [app split_on_aux].
  - rewrite Z.eqb_refl, app_nil_r. reflexivity.
  - cbn in H. apply andb_true_iff in H. destruct H as [Hx Ha]. apply negb_true_iff in Hx. rewrite Hx.
    rewrite (IH b (x :: cur) Ha). cbn [rev]. rewrite <- app_assoc. reflexivity.
Qed.

Lemma split_on_nosep c s : forallb (fun x => negb (x =? c)) s = true -> split_on c s = [s].
Proof. intros H. unfold split_on. rewrite (split_on_aux_nosep c s [] H). reflexivity. Qed.

Lemma split_on_app c a b :
  forallb (fun x => negb (x =? c)) a = true -> split_on c (a ++ c :: b) = a :: split_on c b.
Proof. intros H. unfold split_on. rewrite (split_on_aux_app c a b [] H). reflexivity. Qed.

Lemma split_on_nonempty c s : split_on c s <> [].
Proof.
  unfold split_on. generalize (@nil Z). induction s as [|x s IH]; intros cur; cbn [split_on_aux]; [discriminate|].
  destruct (x =? c); [discriminate|apply IH].
Qed.

(* split (join) = id for separator-free pieces, at least one piece *)
Lemma split_on_join c : forall l,
  l <> [] -> Forall (fun p => forallb (fun x => negb (x =? c)) p = true) l -> split_on c (join [c] l) = l.
Proof.
  induction l as [|p l IH]; intros Hne H; [congruence|].
  inversion H as [|? ? Hp Hl]; subst. destruct l as [|q l'].
  - cbn [join]. apply split_on_nosep. exact Hp.
  - change (join [c] (p :: q :: l')) with (p ++ [c] ++ join [c] (q :: l')). cbn [app].
    rewrite (split_on_app c p _ Hp). f_equal. apply IH; [discriminate|exact Hl].
Qed.

(* ---------------------------------------------------------------- table lookup *)
Lemma lookup_some {A} : forall (t : list (bytes * A)) k a, lookup k t = Some a -> In (k, a) t.
Proof.
  induction t as [|[n x] t IH]; intros k a H; cbn [lookup] in H; [discriminate|].
  destruct (bytes_eqb k n) eqn:E.
  - apply beqb_eq in E. injection H as ->. subst. left. reflexivity.
  - right. apply IH. exact H.
Qed.

(* ---------------------------------------------------------------- numbers *)
Lemma dec_val_digits_value : forall s a, dec_val s a = digits_value s a.
Proof. induction s as [|c s IH]; intros a; cbn [dec_val digits_value]; auto. Qed.

Lemma digits_value_nonneg : forall s a, forallb is_digit s = true -> 0 <= a -> 0 <= digits_value s a.
Proof.
  induction s as [|c s IH]; intros a H Ha; cbn [digits_value]; [exact Ha|].
  cbn in H. apply andb_true_iff in H. destruct H as [Hc Hs]. apply IH; [exact Hs|].
  unfold is_digit in Hc. apply andb_true_iff in Hc. destruct Hc as [H1 H2]. apply Z.leb_le in H1. lia.
Qed.

Lemma digits_nonempty_spec s : digits_nonempty s = true <-> s <> [] /\ forallb is_digit s = true.
Proof.
  unfold digits_nonempty. destruct s as [|c r]; split; intros H.
  - discriminate.
  - destruct H as [H _]. contradiction H. reflexivity.
  - split; [discriminate|exact H].
  - destruct H as [_ H]. exact H.
Qed.

(* atoi on a non-empty digit string whose value fits int64 *)
Lemma atoi_digits s : digits_nonempty s = true -> digits_value s 0 <= max_int64 ->
  atoi s = digits_value s 0.
Proof.
  intros H Hb. apply digits_nonempty_spec in H. destruct H as [Hne Hd].
  pose proof (digits_value_nonneg s 0 Hd ltac:(lia)) as Hnn.
  unfold atoi. destruct s as [|c r]; [congruence|].
  assert (Hc : is_digit c = true) by (cbn in Hd; apply andb_true_iff in Hd; tauto).
  pose proof (is_digit_not_sign c Hc) as Hs. apply orb_false_iff in Hs. destruct Hs as [H43 H45].
  rewrite H43, H45. cbn [orb].
  unfold max_int64 in Hb.
  rewrite parse_uint_digits; [| exact Hd | lia | unfold max_uint64; lia].
  destruct (digits_value (c :: r) 0 >=? 9223372036854775808) eqn:E; [apply Z.geb_le in E; lia | reflexivity].
Qed.

Lemma read_nat_spec s v : read_nat s = Some v ->
  digits_nonempty s = true /\ v = digits_value s 0 /\ 0 <= v.
Proof.
  unfold read_nat. destruct (digits_nonempty s) eqn:E; [|discriminate]. intros H. injection H as <-.
  rewrite dec_val_digits_value. split; [reflexivity|]. split; [reflexivity|].
  apply digits_nonempty_spec in E. apply digits_value_nonneg; [tauto|lia].
Qed.

Lemma read_nat_atoi s v : read_nat s = Some v -> v <= max_int64 -> atoi s = v.
Proof.
  intros H Hv. apply read_nat_spec in H. destruct H as [Hd [-> _]]. apply atoi_digits; assumption.
Qed.

Lemma read_u32_spec s v : read_u32 s = Some v ->
  digits_nonempty s = true /\ atoi s = v /\ 0 <= v < 4294967296.
Proof.
  unfold read_u32. destruct (read_nat s) as [x|] eqn:E; [|discriminate].
  destruct (x <? 4294967296) eqn:E2; [|discriminate]. intros H. injection H as <-.
  apply Z.ltb_lt in E2. pose proof (read_nat_spec s x E) as [Hd [_ Hnn]].
  split; [exact Hd|]. split; [|lia]. apply read_nat_atoi; [exact E|unfold max_int64; lia].
Qed.

Lemma read_u31_spec s v : read_u31 s = Some v ->
  digits_nonempty s = true /\ atoi s = v /\ 0 <= v < 2147483648.
Proof.
  unfold read_u31. destruct (read_nat s) as [x|] eqn:E; [|discriminate].
  destruct (x <? 2147483648) eqn:E2; [|discriminate]. intros H. injection H as <-.
  apply Z.ltb_lt in E2. pose proof (read_nat_spec s x E) as [Hd [_ Hnn]].
  split; [exact Hd|]. split; [|lia]. apply read_nat_atoi; [exact E|unfold max_int64; lia].
Qed.

(* atoi of '-' followed by digits *)
Lemma atoi_neg_digits r : digits_nonempty r = true -> digits_value r 0 <= 9223372036854775808 ->
  atoi (45 :: r) = - digits_value r 0.
Proof.
  intros H Hb. apply digits_nonempty_spec in H. destruct H as [Hne Hd].
  pose proof (digits_value_nonneg r 0 Hd ltac:(lia)) as Hnn.
  unfold atoi. change (45 =? 45) with true. cbn [orb].
  destruct r as [|c r']; [congruence|].
  rewrite parse_uint_digits; [| exact Hd | lia | unfold max_uint64; lia].
  destruct (digits_value (c :: r') 0 >? 9223372036854775808) eqn:E; [apply Z.gtb_lt in E; lia | reflexivity].
Qed.

Lemma read_i32_spec s v : read_i32 s = Some v ->
  s <> [] /\ forallb (fun c => (c =? 45) || is_digit c) s = true /\ atoi s = v /\ -2147483648 <= v < 2147483648.
Proof.
  unfold read_i32. destruct s as [|c r].
  - cbn. discriminate.
  - destruct (Z.eq_dec c 45) as [->|Hc].
    + destruct (read_nat r) as [x|] eqn:E; [|discriminate]. destruct (x <=? 2147483648) eqn:E2; [|discriminate].
      intros H. injection H as <-. apply Z.leb_le in E2. pose proof (read_nat_spec r x E) as [Hd [Hx Hnn]].
      split; [discriminate|]. split.
      * cbn [forallb]. change ((45 =? 45) || is_digit 45) with true. cbn [andb].
        apply digits_nonempty_spec in Hd. destruct Hd as [_ Hd].
        rewrite forallb_forall in *. intros y Hy. rewrite (Hd y Hy). apply orb_true_r.
      * split; [|lia]. subst x. apply atoi_neg_digits; [exact Hd|lia].
    + assert (E : match c with 45 => match read_nat r with Some v0 => if v0 <=? 2147483648 then Some (- v0) else None | None => None end
                               | _ => read_u31 (c :: r) end = read_u31 (c :: r)).
      { destruct c as [|p|p]; try reflexivity.
        do 6 (destruct p as [p|p|]; try reflexivity). contradiction Hc. reflexivity. }
      rewrite E. intros H. apply read_u31_spec in H. destruct H as [Hd [Ha Hr]].
      split; [discriminate|]. split; [|split; [exact Ha|lia]].
      apply digits_nonempty_spec in Hd. destruct Hd as [_ Hd].
      rewrite forallb_forall in *. intros y Hy. rewrite (Hd y Hy). apply orb_true_r.
Qed.

Lemma read_bool_spec s b : read_bool s = Some b ->
  digits_nonempty s = true /\ atoi s = (if b then 1 else 0).
Proof.
  unfold read_bool. destruct (read_nat s) as [x|] eqn:E; [|discriminate].
  pose proof (read_nat_spec s x E) as [Hd _].
  destruct (x =? 0) eqn:E0.
  - intros H. injection H as <-. apply Z.eqb_eq in E0. subst x. split; [exact Hd|].
    apply read_nat_atoi; [exact E|unfold max_int64; lia].
  - destruct (x =? 1) eqn:E1; [|discriminate]. intros H. injection H as <-. apply Z.eqb_eq in E1. subst x.
    split; [exact Hd|]. apply read_nat_atoi; [exact E|unfold max_int64; lia].
Qed.

(* printing then reading *)
Lemma itoa_read_nat n : 0 <= n -> read_nat (itoa n) = Some n.
Proof.
  intros H. destruct (itoa_nonneg_repr n H) as [Hne [Hall Hval]]. unfold read_nat.
  assert (Hd : digits_nonempty (itoa n) = true).
  { apply digits_nonempty_spec. split; [exact Hne|]. rewrite <- all_digits_forallb. exact Hall. }
  rewrite Hd, dec_val_digits_value, Hval. f_equal; lia.
Qed.

Lemma itoa_read_u32 n : 0 <= n < 4294967296 -> read_u32 (itoa n) = Some n.
Proof.
  intros H. unfold read_u32. rewrite itoa_read_nat by lia.
  destruct (n <? 4294967296) eqn:E; [reflexivity|]. apply Z.ltb_ge in E. lia.
Qed.

Lemma itoa_read_u31 n : 0 <= n < 2147483648 -> read_u31 (itoa n) = Some n.
Proof.
  intros H. unfold read_u31. rewrite itoa_read_nat by lia.
  destruct (n <? 2147483648) eqn:E; [reflexivity|]. apply Z.ltb_ge in E. lia.
Qed.

Lemma itoa_neg n : n < 0 -> itoa n = 45 :: itoa (- n).
Proof.
  intros H. unfold itoa. destruct (n <? 0) eqn:E; [|apply Z.ltb_ge in E; lia].
  destruct (- n <? 0) eqn:E2; [apply Z.ltb_lt in E2; lia|reflexivity].
Qed.

Lemma itoa_head_digit n : 0 <= n -> exists c r, itoa n = c :: r /\ is_digit c = true.
Proof.
  intros H. destruct (itoa_digits n H) as [Hd Hne]. destruct (itoa n) as [|c r]; [congruence|].
  exists c, r. split; [reflexivity|]. cbn in Hd. apply andb_true_iff in Hd. tauto.
Qed.

Lemma itoa_read_i32 n : -2147483648 <= n < 2147483648 -> read_i32 (itoa n) = Some n.
Proof.
  intros H. destruct (Z_lt_dec n 0) as [Hn|Hn].
  - rewrite (itoa_neg n Hn). cbn [read_i32]. rewrite itoa_read_nat by lia.
    destruct (- n <=? 2147483648) eqn:E; [f_equal; lia|apply Z.leb_gt in E; lia].
  - destruct (itoa_head_digit n ltac:(lia)) as [c [r [E Hc]]].
    assert (Hc45 : c <> 45).
    { unfold is_digit in Hc. apply andb_true_iff in Hc. destruct Hc as [H1 H2]. apply Z.leb_le in H1. lia. }
    unfold read_i32. rewrite E.
    assert (E' : match c with 45 => match read_nat r with Some v0 => if v0 <=? 2147483648 then Some (- v0) else None | None => None end
                               | _ => read_u31 (c :: r) end = read_u31 (c :: r)).
    { destruct c as [|p|p]; try reflexivity.
      do 6 (destruct p as [p|p|]; try reflexivity). contradiction Hc45. reflexivity. }
    rewrite E', <- E. apply itoa_read_u31. lia.
Qed.
