(* The one lemma everything else in C16/C18/C20 funnels through: what DrawPixel does to the
   pixel view of the buffer. *)
From RP Require Import Lib.Base Model.Mono Spec.Clip Proofs.ListZ.
From Coq Require Import ZifyBool.
Ltac Zify.zify_post_hook ::= Z.div_mod_to_equations.

Definition bytes_in_range (d : list Z) : Prop := Forall (fun b => 0 <= b < 256) d.

(* well-formed canvas: what NewImage establishes and every drawing op preserves *)
Definition wfg (g : geom) (d : list Z) : Prop :=
  0 <= gW g /\ 0 <= gH g /\ gwib g = (gW g + 7) / 8 /\ zlen d = gwib g * gH g /\ bytes_in_range d.

Lemma wfg_new_image w h : 0 <= w -> 0 <= h -> wfg (ig (new_image w h)) (idata (new_image w h)).
Proof.
  intros Hw Hh. unfold new_image, wfg, ceil_div8; simpl.
  destruct (Z.ltb_spec w 0); try lia.
  repeat split; auto.
  - rewrite zlen_zrepeat; auto. apply Z.mul_nonneg_nonneg; auto. apply Z.div_pos; lia.
  - unfold bytes_in_range, zrepeat. apply Forall_forall. intros x Hx. apply repeat_spec in Hx. lia.
Qed.

(* ---- byte-level bit facts ---- *)
Lemma byte_lt_log2 a : 0 <= a -> (a < 256 <-> a = 0 \/ Z.log2 a < 8).
Proof.
  intros Ha. destruct (Z.eq_dec a 0) as [->|Hn]; [split; intros; [auto|lia]|].
  change 256 with (2 ^ 8). rewrite (Z.log2_lt_pow2 a 8) by lia. intuition lia.
Qed.

Lemma byte_log2 a : 0 <= a < 256 -> Z.log2 a < 8.
Proof.
  intros Ha. destruct (Z.eq_dec a 0) as [->|Hn]; [reflexivity|].
  apply Z.log2_lt_pow2; lia.
Qed.

Lemma log2_byte a : 0 <= a -> Z.log2 a < 8 -> a < 256.
Proof.
  intros Ha Hl. destruct (Z.eq_dec a 0) as [->|Hn]; [lia|].
  change 256 with (2 ^ 8). apply Z.log2_lt_pow2; lia.
Qed.

Lemma byte_lor a b : 0 <= a < 256 -> 0 <= b < 256 -> 0 <= Z.lor a b < 256.
Proof.
  intros Ha Hb. assert (H0 : 0 <= Z.lor a b) by (apply Z.lor_nonneg; lia).
  split; auto. apply log2_byte; auto.
  rewrite Z.log2_lor by lia.
  pose proof (byte_log2 a Ha). pose proof (byte_log2 b Hb). lia.
Qed.

Lemma byte_land a b : 0 <= a < 256 -> 0 <= b -> 0 <= Z.land a b < 256.
Proof.
  intros Ha Hb. assert (H0 : 0 <= Z.land a b) by (apply Z.land_nonneg; lia).
  split; auto. apply log2_byte; auto.
  pose proof (Z.log2_land a b (proj1 Ha) Hb). pose proof (byte_log2 a Ha). lia.
Qed.

Lemma pixel_mask_pow x : 0 <= x -> pixel_mask x = 2 ^ (7 - x mod 8).
Proof.
  intros Hx. unfold pixel_mask, gmod, wrap8. rewrite Z.rem_mod_nonneg by lia.
  rewrite Z.shiftl_1_l.
  assert (H : 0 <= x mod 8 < 8) by (apply Z.mod_pos_bound; lia).
  assert (Hk : x mod 8 = 0 \/ x mod 8 = 1 \/ x mod 8 = 2 \/ x mod 8 = 3 \/ x mod 8 = 4 \/ x mod 8 = 5 \/ x mod 8 = 6 \/ x mod 8 = 7) by lia.
  destruct Hk as [-> | [-> | [-> | [-> | [-> | [-> | [-> | ->]]]]]]]; reflexivity.
Qed.

Lemma pixel_mask_range x : 0 <= x -> 0 <= pixel_mask x < 256.
Proof.
  intros Hx. unfold pixel_mask, wrap8. apply Z.mod_pos_bound. lia.
Qed.

Lemma testbit_255 m : 0 <= m < 8 -> Z.testbit 255 m = true.
Proof. intros H. change 255 with (Z.ones 8). apply Z.ones_spec_low. lia. Qed.

(* ---- the guard of DrawPixel is the clip rectangle ---- *)
Lemma guard_is_clip g X Y :
  ((0 <=? X) && (0 <=? Y) && (X <? width_max g) && (Y <? height_max g)) = in_clip g X Y.
Proof.
  unfold in_clip, width_max, height_max, qint.
  destruct (Z.gtb_spec (gbw g + gbx g) (gW g)); destruct (Z.gtb_spec (gbh g + gby g) (gH g)); lia.
Qed.

Lemma in_clip_bounds g c r : in_clip g c r = true -> 0 <= c < gW g /\ 0 <= r < gH g.
Proof. unfold in_clip. lia. Qed.

(* cell index arithmetic *)
Lemma cell_eq wib r c Y X :
  0 <= c / 8 < wib -> 0 <= X / 8 < wib ->
  (r * wib + c / 8 = Y * wib + X / 8 <-> r = Y /\ c / 8 = X / 8).
Proof.
  intros Hc HX. split; [|intros [-> ->]; reflexivity].
  intros H. assert (r = Y) by nia. subst. lia.
Qed.

Theorem draw_pixel_px g x y col d :
  wfg g d ->
  wfg g (draw_pixel g x y col d) /\
  forall c r, 0 <= c < 8 * gwib g -> 0 <= r < gH g ->
    px (gwib g) (draw_pixel g x y col d) c r =
    if (c =? x + gbx g) && (r =? y + gby g) && in_clip g c r then xorb col (ginv g) else px (gwib g) d c r.
Proof.
  intros (HW & HH & Hwib & Hlen & Hbytes).
  unfold draw_pixel.
  set (X := x + gbx g). set (Y := y + gby g).
  rewrite guard_is_clip.
  destruct (in_clip g X Y) eqn:Hclip.
  2:{ split; [repeat split; auto|].
      intros c r Hc Hr.
      destruct (Z.eqb_spec c X); destruct (Z.eqb_spec r Y); subst; simpl; auto.
      rewrite Hclip. reflexivity. }
  apply in_clip_bounds in Hclip as HXY. destruct HXY as [HX HY].
  unfold gdiv. rewrite Z.quot_div_nonneg by lia.
  assert (HX8 : 0 <= X / 8 < gwib g) by (rewrite Hwib; lia).
  set (index := Y * gwib g + X / 8).
  assert (Hidx : 0 <= index < zlen d) by (unfold index; rewrite Hlen; nia).
  destruct (Z.leb_spec 0 index); try lia.
  destruct (Z.ltb_spec index (zlen d)); try lia.
  simpl andb.
  assert (Hold : 0 <= znth 0 d index < 256) by (apply Forall_znth; auto; lia).
  pose proof (pixel_mask_range X (proj1 HX)) as Hmask.
  split.
  - (* well-formedness *)
    destruct (xorb col (ginv g)); repeat split; auto; try (rewrite zlen_zupd; auto).
    + apply Forall_zupd; auto. apply byte_lor; auto.
    + apply Forall_zupd; auto. apply byte_land; auto. apply Z.lxor_nonneg. lia.
  - intros c r Hc Hr.
    assert (Hc8 : 0 <= c / 8 < gwib g) by lia.
    assert (Hm : 0 <= 7 - c mod 8 < 8) by lia.
    unfold px.
    destruct (Z.eq_dec (r * gwib g + c / 8) index) as [Hcell | Hcell].
    + (* same byte *)
      apply (proj1 (cell_eq (gwib g) r c Y X Hc8 HX8)) in Hcell as [-> Hdiv].
      rewrite Z.eqb_refl.
      rewrite Hdiv. fold index.
      rewrite (pixel_mask_pow X) by lia.
      destruct (xorb col (ginv g)) eqn:Hv;
        rewrite znth_zupd_same by lia.
      * rewrite Z.lor_spec, Z.pow2_bits_eqb by lia.
        destruct (Z.eqb_spec c X) as [-> | Hne].
        -- rewrite Z.eqb_refl, Hclip. simpl. apply orb_true_r.
        -- destruct (Z.eqb_spec (7 - X mod 8) (7 - c mod 8)); [exfalso; lia|].
           simpl. apply orb_false_r.
      * rewrite Z.land_spec, Z.lxor_spec, Z.pow2_bits_eqb, testbit_255 by lia.
        destruct (Z.eqb_spec c X) as [-> | Hne].
        -- rewrite Z.eqb_refl, Hclip. simpl. apply andb_false_r.
        -- destruct (Z.eqb_spec (7 - X mod 8) (7 - c mod 8)); [exfalso; lia|].
           simpl. apply andb_true_r.
    + (* another byte *)
      assert (Hne : ((c =? X) && (r =? Y)) = false).
      { destruct (Z.eqb_spec c X); destruct (Z.eqb_spec r Y); subst; auto. exfalso; apply Hcell; reflexivity. }
      rewrite Hne. simpl.
      destruct (xorb col (ginv g)); rewrite znth_zupd_other; auto; nia.
Qed.
