(* C06: totality of the streaming reader, by composition of gfx's [parse] (a total function:
   it returns either nothing or a batch of buffered lines) with cin's decoder model. *)
From RP Require Import Lib.Base Model.MsgIn Model.DecIn Model.Gfx Proofs.InTotal.

Section Reader.
Variable json_state : list Z -> HWCState.
Variable json_msgs : list Z -> list (option InboundMessage).
Variable nc_parse : list Z -> option (list Z).

(* ASCIIreader.Parse: state transition + messages handed to the caller *)
Definition reader_step (st : reader) (line : list Z) : reader * res (list InboundMessage) :=
  let '(st', o) := parse st line in
  (st', match o with PNil => Ok [] | PBatch ls => dec_in json_state json_msgs nc_parse ls end).

Fixpoint reader_run (st : reader) (lines : list (list Z)) : res (list InboundMessage) :=
  match lines with
  | [] => Ok []
  | l :: r =>
    let '(st', o) := reader_step st l in
    do a <- o; do b <- reader_run st' r; Ok (a ++ b)
  end.

Lemma reader_step_total st line : exists ms, snd (reader_step st line) = Ok ms.
Proof.
  unfold reader_step. destruct (parse st line) as [st' [|ls]]; cbn [snd].
  - eauto.
  - apply dec_in_total.
Qed.

Theorem reader_run_total : forall lines st, exists ms, reader_run st lines = Ok ms.
Proof.
  induction lines as [|l r IH]; intros st; cbn [reader_run]; [eauto|].
  destruct (reader_step st l) as [st' o] eqn:E.
  destruct (reader_step_total st l) as [a Ha]. rewrite E in Ha. cbn [snd] in Ha. subst o.
  destruct (IH st') as [b ->]. cbn. eauto.
Qed.
End Reader.
