(* Lemmas for C13: overlay spec of both resolvers, id look-ups, predicates. *)
From RP Require Import Lib.Base Lib.Sexp Lib.Strings Model.Topo Spec.Topo Proofs.ListZ.
From Coq Require Import String.
Open Scope Z_scope.

(* ---------- boolean equalities decide equality ---------- *)
Lemma list_eqb_eq {A} (e : A -> A -> bool) :
  (forall x y, e x y = true <-> x = y) -> forall a b, list_eqb e a b = true <-> a = b.
Proof.
  intros He. induction a as [|x a IH]; destruct b as [|y b]; cbn; try (split; congruence).
  rewrite andb_true_iff, He, IH. split; [intros [-> ->]; reflexivity | intros H; inversion H; auto].
Qed.

Lemma bytes_eqb_eq a b : bytes_eqb a b = true <-> a = b.
Proof. apply list_eqb_eq. intros; apply Z.eqb_eq. Qed.

Lemma bytes_eqb_refl a : bytes_eqb a a = true.
Proof. apply bytes_eqb_eq; reflexivity. Qed.

Lemma opt_eqb_eq {A} (e : A -> A -> bool) :
  (forall x y, e x y = true <-> x = y) -> forall a b, opt_eqb e a b = true <-> a = b.
Proof.
  intros He [x|] [y|]; cbn; try (split; congruence).
  rewrite He. split; congruence.
Qed.

Ltac split_andb :=
  repeat match goal with
         | H : _ && _ = true |- _ => apply andb_true_iff in H; destruct H
         end.

Lemma subel_eqb_eq a b : subel_eqb a b = true <-> a = b.
Proof.
  destruct a, b; unfold subel_eqb; cbn. split.
  - intros H. split_andb.
    repeat match goal with
           | H : (_ =? _) = true |- _ => apply Z.eqb_eq in H
           | H : bytes_eqb _ _ = true |- _ => apply bytes_eqb_eq in H
           end. subst. reflexivity.
  - intros H; inversion H; subst. rewrite !Z.eqb_refl, !bytes_eqb_refl. reflexivity.
Qed.

Lemma disp_eqb_eq a b : disp_eqb a b = true <-> a = b.
Proof.
  destruct a, b; unfold disp_eqb; cbn. split.
  - intros H. split_andb.
    repeat match goal with
           | H : (_ =? _) = true |- _ => apply Z.eqb_eq in H
           | H : bytes_eqb _ _ = true |- _ => apply bytes_eqb_eq in H
           end. subst. reflexivity.
  - intros H; inversion H; subst. rewrite !Z.eqb_refl, !bytes_eqb_refl. reflexivity.
Qed.

Lemma typedef_eqb_eq a b : typedef_eqb a b = true <-> a = b.
Proof.
  destruct a, b; unfold typedef_eqb; cbn. split.
  - intros H. split_andb.
    repeat match goal with
           | H : (_ =? _) = true |- _ => apply Z.eqb_eq in H
           | H : bytes_eqb _ _ = true |- _ => apply bytes_eqb_eq in H
           | H : opt_eqb disp_eqb _ _ = true |- _ => apply (opt_eqb_eq _ disp_eqb_eq) in H
           | H : list_eqb subel_eqb _ _ = true |- _ => apply (list_eqb_eq _ subel_eqb_eq) in H
           end. subst. reflexivity.
  - intros H; inversion H; subst. rewrite !Z.eqb_refl, !bytes_eqb_refl.
    rewrite (proj2 (opt_eqb_eq _ disp_eqb_eq _ _) eq_refl), (proj2 (list_eqb_eq _ subel_eqb_eq _ _) eq_refl).
    reflexivity.
Qed.

Lemma typedef_eqb_refl a : typedef_eqb a a = true.
Proof. apply typedef_eqb_eq; reflexivity. Qed.

(* ---------- the index look-up ---------- *)
Lemma base_of_idx_get t h : base_of t h = idx_get (hType h) (tpIndex t).
Proof.
  unfold base_of, idx_get. induction (tpIndex t) as [|[k d] r IH]; cbn; [reflexivity|].
  destruct (k =? hType h); [reflexivity|exact IH].
Qed.

Lemma idx_find_in k d idx : idx_find k idx = Some d -> In (k, d) idx.
Proof.
  induction idx as [|[k' d'] r IH]; cbn; [discriminate|].
  destruct (k' =? k) eqn:E; [apply Z.eqb_eq in E; intros H; inversion H; subst; auto | auto].
Qed.

Lemma idx_find_none k idx : idx_find k idx = None <-> ~ In k (keys idx).
Proof.
  induction idx as [|[k' d'] r IH]; cbn; [tauto|].
  destruct (k' =? k) eqn:E.
  - apply Z.eqb_eq in E. split; [discriminate | intros H; exfalso; apply H; auto].
  - apply Z.eqb_neq in E. rewrite IH. tauto.
Qed.

Lemma idx_find_nodup k d idx : NoDup (keys idx) -> In (k, d) idx -> idx_find k idx = Some d.
Proof.
  induction idx as [|[k' d'] r IH]; cbn; [tauto|].
  intros ND [H|H].
  - inversion H; subst. rewrite Z.eqb_refl. reflexivity.
  - inversion ND; subst. destruct (k' =? k) eqn:E.
    + apply Z.eqb_eq in E; subst. exfalso. apply H2. apply (in_map fst) in H. exact H.
    + apply IH; assumption.
Qed.

Lemma base_of_ok t h : NoDup (keys (tpIndex t)) -> base_ok t h (base_of t h).
Proof.
  intros ND. rewrite base_of_idx_get. unfold idx_get. split.
  - intros d H. rewrite (idx_find_nodup _ _ _ ND H). reflexivity.
  - intros H. apply idx_find_none in H. rewrite H. reflexivity.
Qed.

(* ---------- resolver 1 = the overlay rule, attribute by attribute ---------- *)
Lemma ne_str_nil {A} (s : list A) : negb (zlen s =? 0) = match s with [] => false | _ => true end.
Proof.
  destruct s as [|x s]; [reflexivity|]. rewrite zlen_cons. pose proof (zlen_nonneg s).
  destruct (1 + zlen s =? 0) eqn:E; [apply Z.eqb_eq in E; lia | reflexivity].
Qed.

Lemma overlay_str (a : typedef -> list Z) base o :
  overlay ne_str a base o = match a o with [] => a base | _ => a o end.
Proof. unfold overlay, ne_str. rewrite ne_str_nil. destruct (a o); reflexivity. Qed.

Lemma overlay_sub base o :
  overlay ne_sub tSub base o = match tSub o with [] => tSub base | _ => tSub o end.
Proof. unfold overlay, ne_sub. rewrite ne_str_nil. destruct (tSub o); reflexivity. Qed.

Lemma overlay_pos (a : typedef -> Z) base o :
  overlay ne_pos a base o = if a o >? 0 then a o else a base.
Proof. unfold overlay, ne_pos. rewrite Z.gtb_ltb. reflexivity. Qed.

Lemma overlay_rot base o :
  overlay ne_rot tRotate base o = if f32_nonzero (tRotate o) then tRotate o else tRotate base.
Proof. unfold overlay, ne_rot, f32_nonzero. rewrite negb_orb. reflexivity. Qed.

Lemma overlay_disp base o :
  overlay ne_disp tDisp base o = match tDisp o with Some _ => tDisp o | None => tDisp base end.
Proof. unfold overlay, ne_disp. destruct (tDisp o); reflexivity. Qed.

(* the eleven equations, as propositions *)
Lemma overlay1_spec base o :
  let r := overlay1 base o in
  tW r = overlay ne_pos tW base o /\ tH r = overlay ne_pos tH base o /\
  tOut r = overlay ne_str tOut base o /\ tIn r = overlay ne_str tIn base o /\
  tDesc r = overlay ne_str tDesc base o /\ tExt r = overlay ne_str tExt base o /\
  tSubidx r = overlay ne_pos tSubidx base o /\ tRotate r = overlay ne_rot tRotate base o /\
  tDisp r = overlay ne_disp tDisp base o /\ tSub r = overlay ne_sub tSub base o /\
  tRender r = overlay ne_str tRender base o.
Proof.
  cbn. rewrite !overlay_pos, !overlay_str, overlay_rot, overlay_disp, overlay_sub. repeat split.
Qed.

Lemma resolve1_none t h : hOv h = None -> resolve1 t h = base_of t h.
Proof. intros H. unfold resolve1. rewrite H, base_of_idx_get. reflexivity. Qed.

Lemma resolve1_some t h o : hOv h = Some o -> resolve1 t h = overlay1 (base_of t h) o.
Proof. intros H. unfold resolve1. rewrite H, base_of_idx_get. reflexivity. Qed.

Lemma resolve1_ok t h : resolved_ok (base_of t h) (hOv h) (resolve1 t h) = true.
Proof.
  destruct (hOv h) as [o|] eqn:E.
  - rewrite (resolve1_some _ _ _ E). cbn [resolved_ok].
    destruct (overlay1_spec (base_of t h) o) as (H1 & H2 & H3 & H4 & H5 & H6 & H7 & H8 & H9 & H10 & H11).
    rewrite H1, H2, H3, H4, H5, H6, H7, H8, H9, H10, H11.
    rewrite !Z.eqb_refl, !bytes_eqb_refl.
    rewrite (proj2 (opt_eqb_eq _ disp_eqb_eq _ _) eq_refl), (proj2 (list_eqb_eq _ subel_eqb_eq _ _) eq_refl).
    reflexivity.
  - rewrite (resolve1_none _ _ E). cbn. apply typedef_eqb_refl.
Qed.

(* the spec determines the result: nothing but the eleven attributes exists, so nothing else changes *)
Lemma resolved_ok_unique base ov r r' :
  resolved_ok base ov r = true -> resolved_ok base ov r' = true -> r = r'.
Proof.
  destruct ov as [o|]; cbn [resolved_ok].
  - intros H H'. split_andb.
    repeat match goal with
           | H : (_ =? _) = true |- _ => apply Z.eqb_eq in H
           | H : bytes_eqb _ _ = true |- _ => apply bytes_eqb_eq in H
           | H : opt_eqb disp_eqb _ _ = true |- _ => apply (opt_eqb_eq _ disp_eqb_eq) in H
           | H : list_eqb subel_eqb _ _ = true |- _ => apply (list_eqb_eq _ subel_eqb_eq) in H
           end.
    destruct r, r'; cbn in *. congruence.
  - intros H H'. apply typedef_eqb_eq in H, H'. congruence.
Qed.

Lemma resolve1_spec t h r : resolved_ok (base_of t h) (hOv h) r = true <-> r = resolve1 t h.
Proof.
  split.
  - intros H. apply (resolved_ok_unique _ _ _ _ H (resolve1_ok t h)).
  - intros ->. apply resolve1_ok.
Qed.

(* ---------- look-ups by id ---------- *)
Lemma find_pos_spec id l k :
  match find_pos id l k with
  | Some (p, h) => exists pre post, l = pre ++ h :: post /\ hId h = id /\ ~ In id (map hId pre) /\ p = k + zlen pre
  | None => ~ In id (map hId l)
  end.
Proof.
  revert k. induction l as [|x l IH]; intros k; cbn; [tauto|].
  destruct (hId x =? id) eqn:E.
  - apply Z.eqb_eq in E. exists [], l. cbn. repeat split; auto. unfold zlen; cbn; lia.
  - apply Z.eqb_neq in E. specialize (IH (k + 1)). destruct (find_pos id l (k + 1)) as [[p h]|].
    + destruct IH as (pre & post & -> & Hid & Hn & ->). exists (x :: pre), post.
      split; [reflexivity|]. split; [assumption|]. split; [cbn; tauto|]. rewrite zlen_cons. lia.
    + tauto.
Qed.

Lemma find_hwc_first t id : find_hwc id t = first_with_id t id.
Proof.
  unfold find_hwc, first_with_id. generalize 0. induction (tpHWc t) as [|x l IH]; intros k; cbn; [reflexivity|].
  destruct (hId x =? id); [reflexivity | apply IH].
Qed.

Lemma first_with_id_none t id : ~ In id (map hId (tpHWc t)) -> first_with_id t id = None.
Proof.
  unfold first_with_id. induction (tpHWc t) as [|x l IH]; cbn; [reflexivity|].
  intros H. destruct (hId x =? id) eqn:E; [apply Z.eqb_eq in E; tauto | apply IH; tauto].
Qed.

Lemma first_with_id_some t id pre h post :
  tpHWc t = pre ++ h :: post -> hId h = id -> ~ In id (map hId pre) -> first_with_id t id = Some h.
Proof.
  unfold first_with_id. intros -> Hid. induction pre as [|x pre IH]; cbn.
  - intros _. rewrite Hid, Z.eqb_refl. reflexivity.
  - intros H. destruct (hId x =? id) eqn:E; [apply Z.eqb_eq in E; tauto | apply IH; tauto].
Qed.

(* unknown ids: the documented not-found results, for every look-up *)
Lemma unknown_id_results t id :
  ~ In id (map hId (tpHWc t)) ->
  get_xy t id = notfound_xy /\ get_text t id = notfound_text /\ get_type t id = inr (notfound_msg id).
Proof.
  intros H. unfold get_xy, get_text, get_type. rewrite find_hwc_first, (first_with_id_none _ _ H).
  repeat split.
Qed.

Lemma unknown_id_results2 t id :
  ~ In (wrap32 id) (map hId (tpHWc t)) ->
  resolve2_id t id = Ok zero_td /\ hwc_def_id t id = zero_hwc.
Proof.
  intros H. unfold resolve2_id, hwc_def_id. rewrite find_hwc_first, (first_with_id_none _ _ H).
  pose proof (find_pos_spec (wrap32 id) (tpHWc t) 0) as P.
  destruct (find_pos (wrap32 id) (tpHWc t) 0) as [[p h]|]; [|split; reflexivity].
  destruct P as (pre & post & E & Hid & _). exfalso. apply H. rewrite E, map_app. apply in_or_app. right. left. exact Hid.
Qed.

(* known ids: the answer is that of the FIRST component carrying the id *)
Lemma known_id_results t id pre h post :
  tpHWc t = pre ++ h :: post -> hId h = id -> ~ In id (map hId pre) ->
  get_xy t id = (hX h, hY h) /\ get_text t id = hTxt h /\ get_type t id = inl (resolve1 t h).
Proof.
  intros E Hid Hn. unfold get_xy, get_text, get_type.
  rewrite find_hwc_first, (first_with_id_some _ _ _ _ _ E Hid Hn). repeat split.
Qed.

Lemma get_hwcs_spec t : get_hwcs t = map hId (tpHWc t).
Proof. reflexivity. Qed.

Lemma get_with_display_spec t id :
  In id (get_with_display t) <-> exists h, In h (tpHWc t) /\ hId h = id /\ tDisp (resolve1 t h) <> None.
Proof.
  unfold get_with_display. rewrite in_map_iff. split.
  - intros (h & Hid & Hin). apply filter_In in Hin. destruct Hin as [Hin Hd]. exists h. repeat split; auto.
    unfold has_disp in Hd. destruct (tDisp (resolve1 t h)); congruence.
  - intros (h & Hin & Hid & Hd). exists h. split; [exact Hid|]. apply filter_In. split; [exact Hin|].
    unfold has_disp. destruct (tDisp (resolve1 t h)); congruence.
Qed.

(* ---------- resolver 2 agrees with resolver 1 on the nine shared attributes ---------- *)
Lemma shared9_overlay base o : shared9 (overlay2 base o) (overlay1 base o) = true.
Proof.
  unfold shared9; cbn. rewrite !Z.eqb_refl, !bytes_eqb_refl.
  rewrite (proj2 (opt_eqb_eq _ disp_eqb_eq _ _) eq_refl), (proj2 (list_eqb_eq _ subel_eqb_eq _ _) eq_refl).
  reflexivity.
Qed.

Lemma shared9_refl d : shared9 d d = true.
Proof.
  unfold shared9. rewrite !Z.eqb_refl, !bytes_eqb_refl.
  rewrite (proj2 (opt_eqb_eq _ disp_eqb_eq _ _) eq_refl), (proj2 (list_eqb_eq _ subel_eqb_eq _ _) eq_refl).
  reflexivity.
Qed.

Lemma znth_app_mid {A} (d : A) pre h post : znth d (pre ++ h :: post) (zlen pre) = h.
Proof.
  unfold znth. pose proof (zlen_nonneg pre). destruct (zlen pre <? 0) eqn:E; [apply Z.ltb_lt in E; lia|].
  unfold zlen. rewrite Nat2Z.id, app_nth2, Nat.sub_diag; [reflexivity | lia].
Qed.

Lemma resolvers_agree_idx t pre h post base :
  tpHWc t = pre ++ h :: post ->
  idx_find (hType h) (tpIndex t) = Some base ->
  exists d2, resolve2_idx t (zlen pre) = Ok d2 /\ shared9 d2 (resolve1 t h) = true /\
             tDesc d2 = tDesc base /\ tRender d2 = tRender base.
Proof.
  intros E Hb. unfold resolve2_idx, resolve1, idx_get. rewrite E, znth_app_mid, Hb.
  pose proof (zlen_nonneg pre). pose proof (zlen_nonneg post).
  rewrite zlen_app, zlen_cons.
  destruct (zlen pre >=? zlen pre + (1 + zlen post)) eqn:E1; [apply Z.geb_le in E1; lia|].
  destruct (zlen pre <? 0) eqn:E2; [apply Z.ltb_lt in E2; lia|].
  destruct (hOv h) as [o|].
  - exists (overlay2 base o). repeat split. apply shared9_overlay.
  - exists base. repeat split. apply shared9_refl.
Qed.

Lemma resolvers_agree_id t id pre h post base :
  0 <= id < 4294967296 ->
  tpHWc t = pre ++ h :: post -> hId h = id -> ~ In id (map hId pre) ->
  idx_find (hType h) (tpIndex t) = Some base ->
  exists d1 d2, get_type t id = inl d1 /\ resolve2_id t id = Ok d2 /\ shared9 d2 d1 = true.
Proof.
  intros R E Hid Hn Hb.
  destruct (known_id_results t id pre h post E Hid Hn) as (_ & _ & H1).
  destruct (resolvers_agree_idx t pre h post base E Hb) as (d2 & H2 & H3 & _).
  exists (resolve1 t h), d2. split; [exact H1|]. split; [|exact H3].
  unfold resolve2_id. unfold wrap32. rewrite Z.mod_small by lia.
  pose proof (find_pos_spec id (tpHWc t) 0) as P.
  destruct (find_pos id (tpHWc t) 0) as [[p h']|].
  - destruct P as (pre' & post' & E' & Hid' & Hn' & ->).
    assert (pre' = pre).
    { rewrite E in E'. clear - E' Hid Hid' Hn Hn'. revert pre' E' Hn'.
      induction pre as [|x pre IH]; intros [|y pre'] E' Hn'; cbn in *.
      - reflexivity.
      - inversion E'; subst. exfalso. apply Hn'. left. congruence.
      - inversion E'; subst. exfalso. apply Hn. left. congruence.
      - inversion E'; subst. f_equal. apply IH; tauto. }
    subst pre'. rewrite Z.add_0_l. exact H2.
  - exfalso. apply P. rewrite E, map_app. apply in_or_app. right. left. exact Hid.
Qed.

(* an unindexed type gives the empty definition from resolver 2 (resolver 1 overlays the zero base) *)
Lemma resolve2_unindexed t pre h post :
  tpHWc t = pre ++ h :: post -> idx_find (hType h) (tpIndex t) = None ->
  resolve2_idx t (zlen pre) = Ok zero_td.
Proof.
  intros E Hb. unfold resolve2_idx. rewrite E, znth_app_mid, Hb.
  pose proof (zlen_nonneg pre). pose proof (zlen_nonneg post). rewrite zlen_app, zlen_cons.
  destruct (zlen pre >=? zlen pre + (1 + zlen post)) eqn:E1; [reflexivity|].
  destruct (zlen pre <? 0) eqn:E2; [apply Z.ltb_lt in E2; lia|reflexivity].
Qed.

(* ---------- predicates ---------- *)
Lemma cut_on_aux_fst sep s cur :
  fst (fst (cut_on_aux sep s cur)) = hd [] (split_on_aux sep s cur).
Proof.
  revert cur. induction s as [|c r IH]; intros cur; cbn; [reflexivity|].
  destruct (c =? sep); [reflexivity | apply IH].
Qed.

Lemma input_type_first_token d : input_type d = first_token (tIn d).
Proof. unfold input_type, first_token, cut_on, split_on. apply cut_on_aux_fst. Qed.

Lemma token_in_cons s a alts : token_in s (a :: alts) = bytes_eqb s (str a) || token_in s alts.
Proof. reflexivity. Qed.

Lemma predicates_spec d :
  is_button d = button_spec d /\ is_binary d = binary_spec d /\ is_pulsed d = pulsed_spec d /\
  is_absolute d = absolute_spec d /\ is_intensity d = intensity_spec d.
Proof.
  unfold is_binary, is_button, is_pulsed, is_absolute, is_intensity,
         button_spec, binary_spec, pulsed_spec, absolute_spec, intensity_spec, is_str.
  rewrite !input_type_first_token. rewrite !token_in_cons. unfold token_in; cbn [existsb].
  rewrite !orb_false_r. repeat split; rewrite ?orb_assoc; reflexivity.
Qed.

Lemma predicates_depend_on_view d d' :
  tIn d = tIn d' -> tOut d = tOut d' -> tExt d = tExt d' -> tDisp d = tDisp d' -> tSub d = tSub d' ->
  preds_of d = preds_of d'.
Proof.
  intros H1 H2 H3 H4 H5.
  unfold preds_of, is_binary, is_button, is_pulsed, is_absolute, is_intensity, has_disp, has_led, has_steps,
         led_bar_steps, is_motorized, input_type.
  rewrite H1, H2, H3, H4, H5. reflexivity.
Qed.
