(* Lemmas for C15: the node list the SVG generator appends, against Spec/TopoSvg.v. *)
From RP Require Import Lib.Base Lib.Sexp Lib.Strings Model.Topo Model.TopoSvg Spec.Topo Spec.TopoSvg
     Proofs.ListZ Proofs.TopoLookup Proofs.TopoTransform.
From Coq Require Import String.
Open Scope Z_scope.

(* ---------------------------------------------------------------- order and masking *)
Lemma tagged_from_nodes fe o t m hs k :
  map snd (tagged_from fe o t m hs k) = flat_map (comp_nodes fe o t) (filter (fun h => avail m (hId h)) hs).
Proof.
  revert k. induction hs as [|h r IH]; intros k; cbn [tagged_from filter flat_map]; [reflexivity|].
  rewrite map_app, IH. destruct (avail m (hId h)); cbn [flat_map].
  - rewrite map_map. cbn [snd]. rewrite map_id. reflexivity.
  - reflexivity.
Qed.

Lemma nodes_in_component_order fe o t m :
  svg_nodes fe o t m = flat_map (comp_nodes fe o t) (filter (fun h => avail m (hId h)) (tpHWc t)).
Proof. apply tagged_from_nodes. Qed.

Lemma tagged_from_tags fe o t m hs k i n :
  In (i, n) (tagged_from fe o t m hs k) ->
  exists h, nth_error hs (i - k) = Some h /\ (k <= i)%nat /\ avail m (hId h) = true /\ In n (comp_nodes fe o t h).
Proof.
  revert k. induction hs as [|h r IH]; intros k; cbn [tagged_from]; [intros []|].
  rewrite in_app_iff. intros [H|H].
  - destruct (avail m (hId h)) eqn:A; [|destruct H]. apply in_map_iff in H. destruct H as (n' & E & Hin).
    inversion E; subst. exists h. rewrite Nat.sub_diag. cbn. auto.
  - apply IH in H. destruct H as (h' & Hn & Hk & A & Hin). exists h'.
    replace (i - k)%nat with (Datatypes.S (i - Datatypes.S k)) by lia. cbn. repeat split; auto. lia.
Qed.

(* a masked component contributes no node at all *)
Lemma masked_contribute_nothing fe o t m i h n :
  nth_error (tpHWc t) i = Some h -> avail m (hId h) = false -> ~ In (i, n) (svg_nodes_tagged fe o t m).
Proof.
  intros Hn A Hin. apply tagged_from_tags in Hin. destruct Hin as (h' & Hn' & _ & A' & _).
  rewrite Nat.sub_0_r in Hn'. congruence.
Qed.

(* the tags are non-decreasing: nodes appear in component order *)
Definition adj_le {A} (l : list (nat * A)) : Prop :=
  forall pre x y post, l = pre ++ x :: y :: post -> (fst x <= fst y)%nat.

Lemma adj_le_app {A} (k : nat) (l1 l2 : list (nat * A)) :
  (forall p, In p l1 -> fst p = k) -> (forall p, In p l2 -> (k < fst p)%nat) -> adj_le l2 -> adj_le (l1 ++ l2).
Proof.
  intros H1 H2 S. induction l1 as [|a l1 IH]; [exact S|].
  intros pre x y post E. destruct pre as [|p pre]; cbn in E.
  - inversion E as [[Ea Et]]. subst x. rewrite (H1 a) by (left; reflexivity).
    destruct l1 as [|a2 l1']; cbn in Et.
    + destruct l2 as [|b l2']; [discriminate|]. inversion Et; subst.
      specialize (H2 y (or_introl eq_refl)). lia.
    + inversion Et; subst. rewrite (H1 y) by (right; left; reflexivity). lia.
  - inversion E as [[Ea Et]]. eapply IH; [|exact Et]. intros q Hq. apply H1. right. exact Hq.
Qed.

Lemma tagged_from_sorted fe o t m hs : forall k, adj_le (tagged_from fe o t m hs k).
Proof.
  induction hs as [|h r IH]; intros k; cbn [tagged_from].
  - intros pre x y post E. destruct pre; discriminate.
  - apply (adj_le_app k).
    + intros p Hp. destruct (avail m (hId h)); [|destruct Hp].
      apply in_map_iff in Hp. destruct Hp as (n & <- & _). reflexivity.
    + intros [i n] Hp. apply tagged_from_tags in Hp. destruct Hp as (_ & _ & Hk & _). cbn. lia.
    + apply IH.
Qed.

(* ---------------------------------------------------------------- attribute look-up helpers *)
Lemma assoc_app k l1 l2 :
  assoc k (l1 ++ l2) = match assoc k l1 with Some v => Some v | None => assoc k l2 end.
Proof.
  induction l1 as [|[k' v] r IH]; cbn; [reflexivity|]. destruct (bytes_eqb k' k); [reflexivity | exact IH].
Qed.

Lemma label_parts_lines txt : label_parts txt = label_lines txt.
Proof.
  unfold label_parts, label_lines. destruct (split_on 124 txt) as [|l0 [|l1 r]]; cbn [nth hd]; try reflexivity.
  rewrite ne_str_nil. destruct l1; reflexivity.
Qed.

Lemma ne_str_nil_eqb {A} (s : list A) : (zlen s =? 0) = match s with [] => true | _ => false end.
Proof. pose proof (ne_str_nil s) as H. destruct s; destruct (zlen _ =? 0); cbn in *; congruence. Qed.

Lemma render_has_isin d w : render_has d w = isin w (split_on 44 (tRender d)).
Proof. reflexivity. Qed.

Lemma meets_all_app w1 w2 n1 n2 :
  meets_all w1 n1 = true -> meets_all w2 n2 = true -> meets_all (w1 ++ w2) (n1 ++ n2) = true.
Proof.
  revert n1. induction w1 as [|w w1 IH]; intros [|n n1]; cbn; try discriminate; [auto|].
  intros H H2. apply andb_true_iff in H. destruct H as [Ha Hb]. rewrite Ha. cbn. apply IH; assumption.
Qed.

Lemma meets_all_flat_map {A} (fw : A -> list want) (fn : A -> list node) l :
  (forall x, In x l -> meets_all (fw x) (fn x) = true) -> meets_all (flat_map fw l) (flat_map fn l) = true.
Proof.
  induction l as [|x r IH]; cbn; [reflexivity|]. intros H. apply meets_all_app; [apply H; auto | apply IH; auto].
Qed.

(* ---------------------------------------------------------------- node by node *)
Ltac ev_keys :=
  repeat match goal with
  | |- context [bytes_eqb (str ?x) (str ?y)] =>
      let b := eval vm_compute in (bytes_eqb (str x) (str y)) in
      change (bytes_eqb (str x) (str y)) with b
  end.
Ltac ev_node :=
  unfold node_meets, get_attr, has_attr, a, ai;
  cbn [wName wAttrs wText wIsMain wRot nName nAttrs nText fst snd forallb app assoc];
  ev_keys;
  cbn [andb orb negb Bool.eqb opt_bytes_eqb assoc];
  rewrite ?bytes_eqb_refl; try reflexivity.

Section Nodes.
  Variable fe : fenv.
  Hypothesis Hnz : forall b, f_nonzero fe b = ne_rot b.

  Lemma main_meets h d : node_meets (want_main h d) (main_node fe h d) = true.
  Proof.
    unfold want_main, main_node, rot_attr, half, gdiv. rewrite Z.gtb_ltb, Hnz.
    destruct (0 <? tH d); destruct (ne_rot (tRotate d)); ev_node.
  Qed.

  Lemma sub_meets h d s : meets_all (want_sub h d s) (sub_nodes fe h d s) = true.
  Proof.
    unfold want_sub, sub_nodes, rot_attr, sub_fmt. rewrite Hnz.
    destruct (bytes_eqb (sObj s) (str "r")); [|destruct (bytes_eqb (sObj s) (str "c")); [|reflexivity]].
    all: cbn [meets_all]; rewrite andb_true_r.
    all: destruct (ne_rot (tRotate d)); destruct (sRx s =? 0); destruct (sRy s =? 0); destruct (sStyle s); ev_node.
  Qed.

  Lemma label_go_meets h fill rot cnt : forall ls k,
    meets_all (map (fun line => Want "text" [("x"%string, itoa (hX h))] (Some line) false None) ls)
      ((fix go (ls : list (list Z)) (k : Z) : list node :=
          match ls with
          | [] => []
          | l :: r =>
            Node (str "text")
                 ([ai "x" (hX h); ai "y" (hY h + 27 + k * 30 - gdiv (cnt * 30) 2); a "text-anchor" "middle"; a "fill" fill;
                   a "font-weight" "bold"; a "font-size" "30"; a "font-family" "sans-serif"; a "pointer-events" "none"]
                  ++ rot_attr fe rot (hX h) (hY h))%list
                 l :: go r (k + 1)
          end) ls k) = true.
  Proof.
    induction ls as [|l r IH]; intros k; [reflexivity|]. cbn [map meets_all]. rewrite IH, andb_true_r.
    unfold rot_attr. destruct (f_nonzero fe rot); ev_node.
  Qed.

  Lemma labels_meet o h d :
    meets_all (want_labels o h d) (label_nodes fe o (split_on 44 (tRender d)) h d) = true.
  Proof.
    unfold want_labels, label_nodes. rewrite render_has_isin, label_parts_lines.
    destruct (oLabels o || isin "txt" (split_on 44 (tRender d))); [|reflexivity].
    apply label_go_meets.
  Qed.

  Lemma type_meets o h d : meets_all (want_type o h) (type_nodes fe o h d) = true.
  Proof.
    unfold want_type, type_nodes, rot_attr. destruct (oType o); [|reflexivity].
    cbn [meets_all]. rewrite andb_true_r. destruct (f_nonzero fe (tRotate d)); ev_node.
  Qed.

  Lemma dispsize_meets o h d : meets_all (want_dispsize o d) (dispsize_nodes fe o h d) = true.
  Proof.
    unfold want_dispsize, dispsize_nodes, rot_attr. destruct (tDisp d) as [dp|]; [|reflexivity].
    destruct (oDispSize o); [|reflexivity].
    destruct ((dSubidx dp >=? 0) && (zlen (tSub d) >? dSubidx dp)).
    all: cbn [meets_all]; rewrite andb_true_r.
    all: rewrite ne_str_nil_eqb.
    all: destruct (f_nonzero fe (tRotate d)); destruct (dType dp); ev_node.
  Qed.

  Lemma id_meets o h d : meets_all (want_id o h d) (id_nodes fe o (split_on 44 (tRender d)) h d) = true.
  Proof.
    unfold want_id, id_nodes, rot_attr. rewrite render_has_isin.
    destruct (oHWCID o || isin "hwcid" (split_on 44 (tRender d))); [|reflexivity].
    cbn [meets_all]. rewrite andb_true_r.
    destruct (f_nonzero fe (tRotate d)); destruct (tH d >? 0); destruct (tH d =? 0); destruct (oHWCID o); ev_node.
  Qed.

  Lemma comp_meets o t h : meets_all (want_comp o t h) (comp_nodes fe o t h) = true.
  Proof.
    unfold want_comp, comp_nodes. rewrite <- resolve1_is_spec. set (d := resolve1 t h).
    cbn [meets_all]. rewrite main_meets. cbn [andb].
    repeat apply meets_all_app.
    - apply meets_all_flat_map. intros s _. apply sub_meets.
    - apply labels_meet.
    - apply type_meets.
    - apply dispsize_meets.
    - apply id_meets.
  Qed.
End Nodes.

(* ---------------------------------------------------------------- the whole list meets the spec *)
Lemma existsb_absent (l : list (Z * Z)) id :
  ~ In id (map fst l) -> existsb (fun e => (fst e =? id) && negb (snd e =? 0)) l = false.
Proof.
  induction l as [|[k v] r IH]; intros H; [reflexivity|]. cbn [existsb fst snd].
  destruct (k =? id) eqn:E; [apply Z.eqb_eq in E; subst; exfalso; apply H; left; reflexivity|].
  cbn [andb orb]. apply IH. intros X. apply H. right. exact X.
Qed.

Lemma visible_avail m h :
  match m with Some l => NoDup (map fst l) | None => True end -> visible m h = avail m (hId h).
Proof.
  destruct m as [l|]; [|reflexivity]. cbn [visible avail]. induction l as [|[k v] r IH]; intros ND; [reflexivity|].
  cbn [existsb map_find fst snd]. inversion ND as [|? ? Hn ND']; subst. destruct (k =? hId h) eqn:E.
  - apply Z.eqb_eq in E. subst k. cbn [andb]. rewrite (existsb_absent r (hId h) Hn). apply orb_false_r.
  - cbn [andb orb]. apply IH. exact ND'.
Qed.

Lemma svg_model_meets_spec fe o t m :
  (forall b, f_nonzero fe b = ne_rot b) ->
  match m with Some l => NoDup (map fst l) | None => True end ->
  svg_ok o t m (svg_nodes fe o t m) = true.
Proof.
  intros Hnz ND. unfold svg_ok. rewrite nodes_in_component_order.
  rewrite (filter_ext (visible m) (fun h => avail m (hId h))) by (intros h; apply visible_avail; exact ND).
  apply meets_all_flat_map. intros h _. apply comp_meets. exact Hnz.
Qed.

(* ---------------------------------------------------------------- exactly one main shape *)
Lemma meets_all_not_main ws ns :
  meets_all ws ns = true -> Forall (fun w => wIsMain w = false) ws -> Forall (fun n => has_attr "id" n = false) ns.
Proof.
  revert ns. induction ws as [|w ws IH]; intros [|n ns]; cbn [meets_all]; try discriminate; [constructor|].
  intros H F. apply andb_true_iff in H. destruct H as [Hn Hr]. inversion F; subst. constructor; [|apply IH; assumption].
  unfold node_meets in Hn. repeat (apply andb_true_iff in Hn; destruct Hn as [Hn ?]).
  match goal with H : Bool.eqb (has_attr "id" n) (wIsMain w) = true |- _ => apply Bool.eqb_prop in H; congruence end.
Qed.

Lemma want_tail_not_main o t h :
  let d := resolve_spec (base_of t h) (hOv h) in
  Forall (fun w => wIsMain w = false)
         (flat_map (want_sub h d) (tSub d) ++ want_labels o h d ++ want_type o h ++ want_dispsize o d ++ want_id o h d).
Proof.
  intros d. repeat (apply Forall_app; split).
  - apply Forall_flat_map, Forall_forall. intros s _. unfold want_sub.
    destruct (bytes_eqb (sObj s) (str "r")); [repeat constructor|].
    destruct (bytes_eqb (sObj s) (str "c")); repeat constructor.
  - unfold want_labels. destruct (oLabels o || render_has d "txt"); [|constructor].
    apply Forall_map, Forall_forall. reflexivity.
  - unfold want_type. destruct (oType o); repeat constructor.
  - unfold want_dispsize. destruct (tDisp d); [destruct (oDispSize o)|]; repeat constructor.
  - unfold want_id. destruct (oHWCID o || render_has d "hwcid"); repeat constructor.
Qed.

Lemma main_id fe h d : get_attr "id" (main_node fe h d) = Some (str "HWc" ++ itoa (hId h)).
Proof.
  unfold main_node, rot_attr. destruct (tH d >? 0); destruct (f_nonzero fe (tRotate d));
    unfold get_attr, a, ai; cbn [nAttrs app assoc fst snd]; ev_keys; reflexivity.
Qed.

(* every visible component: its first node is THE main shape (kind and geometry by the spec),
   it carries id="HWc<id>", and no other node of the component carries an id attribute *)
Lemma one_main_shape fe o t h :
  (forall b, f_nonzero fe b = ne_rot b) ->
  let d := resolve1 t h in
  exists rest,
    comp_nodes fe o t h = main_node fe h d :: rest /\
    node_meets (want_main h d) (main_node fe h d) = true /\
    get_attr "id" (main_node fe h d) = Some (str "HWc" ++ itoa (hId h)) /\
    Forall (fun n => has_attr "id" n = false) rest.
Proof.
  intros Hnz d. eexists. split; [reflexivity|]. split; [apply main_meets; exact Hnz|]. split; [apply main_id|].
  pose proof (comp_meets fe Hnz o t h) as M. unfold want_comp, comp_nodes in M. cbn [meets_all] in M.
  apply andb_true_iff in M. destruct M as [_ M].
  eapply meets_all_not_main; [exact M|]. apply want_tail_not_main.
Qed.

(* main shape: rectangle centred on the coordinates iff the resolved type has a height,
   otherwise a circle of half the width (Go's truncating division) *)
Lemma main_shape_geometry fe h d :
  (0 < tH d ->
     nName (main_node fe h d) = str "rect" /\
     get_attr "x" (main_node fe h d) = Some (itoa (hX h - Z.quot (tW d) 2)) /\
     get_attr "y" (main_node fe h d) = Some (itoa (hY h - Z.quot (tH d) 2)) /\
     get_attr "width" (main_node fe h d) = Some (itoa (tW d)) /\
     get_attr "height" (main_node fe h d) = Some (itoa (tH d))) /\
  (tH d <= 0 ->
     nName (main_node fe h d) = str "circle" /\
     get_attr "cx" (main_node fe h d) = Some (itoa (hX h)) /\
     get_attr "cy" (main_node fe h d) = Some (itoa (hY h)) /\
     get_attr "r" (main_node fe h d) = Some (itoa (Z.quot (tW d) 2))).
Proof.
  unfold main_node, rot_attr, gdiv. split; intros H.
  - destruct (tH d >? 0) eqn:E; [|rewrite Z.gtb_ltb in E; apply Z.ltb_ge in E; lia].
    destruct (f_nonzero fe (tRotate d)); unfold get_attr, a, ai; cbn [nName nAttrs app assoc fst snd]; ev_keys;
      repeat split; reflexivity.
  - destruct (tH d >? 0) eqn:E; [rewrite Z.gtb_ltb in E; apply Z.ltb_lt in E; lia|].
    destruct (f_nonzero fe (tRotate d)); unfold get_attr, a, ai; cbn [nName nAttrs app assoc fst snd]; ev_keys;
      repeat split; reflexivity.
Qed.

(* counts of sub-shapes and label lines *)
Lemma sub_shape_count fe h d :
  List.length (flat_map (sub_nodes fe h d) (tSub d))
  = List.length (filter (fun s => bytes_eqb (sObj s) (str "r") || bytes_eqb (sObj s) (str "c")) (tSub d)).
Proof.
  induction (tSub d) as [|s r IH]; [reflexivity|]. cbn [flat_map filter]. rewrite List.app_length, IH.
  unfold sub_nodes. destruct (bytes_eqb (sObj s) (str "r")); [reflexivity|].
  destruct (bytes_eqb (sObj s) (str "c")); reflexivity.
Qed.

Lemma label_count fe o ropts h d :
  List.length (label_nodes fe o ropts h d)
  = if oLabels o || isin "txt" ropts then List.length (label_parts (hTxt h)) else 0%nat.
Proof.
  unfold label_nodes. destruct (oLabels o || isin "txt" ropts); [|reflexivity].
  rewrite label_parts_lines. generalize 0. generalize (zlen (label_lines (hTxt h))).
  induction (label_lines (hTxt h)) as [|l r IH]; intros c k; [reflexivity|]. cbn [List.length]. f_equal. apply IH.
Qed.

Lemma label_parts_one_or_two txt : List.length (label_parts txt) = 1%nat \/ List.length (label_parts txt) = 2%nat.
Proof. unfold label_parts. destruct (negb _); auto. Qed.

(* ---------------------------------------------------------------- counting main shapes per id *)
From RP Require Import Lib.JsonTree Proofs.TopoJson.

Definition is_main_of (i : Z) (n : node) : bool :=
  opt_bytes_eqb (get_attr "id" n) (Some (str "HWc" ++ itoa i)).

Lemma itoa_eqb a b : 0 <= a -> 0 <= b -> bytes_eqb (itoa a) (itoa b) = (a =? b).
Proof.
  intros Ha Hb. destruct (a =? b) eqn:E.
  - apply Z.eqb_eq in E. subst. apply bytes_eqb_refl.
  - destruct (bytes_eqb (itoa a) (itoa b)) eqn:B; [|reflexivity].
    apply bytes_eqb_eq in B. pose proof (parse_key_itoa a Ha) as Pa. pose proof (parse_key_itoa b Hb) as Pb.
    rewrite B in Pa. rewrite Pa in Pb. inversion Pb. subst. rewrite Z.eqb_refl in E. discriminate.
Qed.

Lemma bytes_eqb_app_l p x y : bytes_eqb (p ++ x) (p ++ y) = bytes_eqb x y.
Proof. induction p as [|c p IH]; [reflexivity|]. cbn. rewrite Z.eqb_refl. exact IH. Qed.

Lemma filter_none {A} (f : A -> bool) l : Forall (fun x => f x = false) l -> filter f l = [].
Proof. induction 1 as [|x l H _ IH]; [reflexivity|]. cbn. rewrite H. exact IH. Qed.

Lemma main_count fe o t m i :
  (forall b, f_nonzero fe b = ne_rot b) -> 0 <= i -> (forall h, In h (tpHWc t) -> 0 <= hId h) ->
  List.length (filter (is_main_of i) (svg_nodes fe o t m))
  = List.length (filter (fun h => avail m (hId h) && (hId h =? i)) (tpHWc t)).
Proof.
  intros Hnz Hi Hids. rewrite nodes_in_component_order.
  induction (tpHWc t) as [|h r IH]; [reflexivity|]. cbn [filter].
  assert (IH' := IH (fun x Hx => Hids x (or_intror Hx))). clear IH.
  destruct (avail m (hId h)) eqn:A; cbn [andb flat_map]; [|exact IH'].
  rewrite filter_app, List.app_length, IH'.
  destruct (one_main_shape fe o t h Hnz) as (rest & E & _ & Hid & Hrest). rewrite E. cbn [filter].
  assert (R : filter (is_main_of i) rest = []).
  { apply filter_none. eapply Forall_impl; [|exact Hrest]. intros n Hn. unfold is_main_of, has_attr in *.
    destruct (get_attr "id" n); [discriminate | reflexivity]. }
  rewrite R. unfold is_main_of at 1. rewrite Hid. cbn [opt_bytes_eqb].
  rewrite bytes_eqb_app_l, itoa_eqb by (auto; apply Hids; left; reflexivity).
  destruct (hId h =? i); reflexivity.
Qed.

Lemma svg_tagged_sorted fe o t m pre x y post :
  svg_nodes_tagged fe o t m = pre ++ x :: y :: post -> (fst x <= fst y)%nat.
Proof. apply (tagged_from_sorted fe o t m (tpHWc t) 0%nat). Qed.
