(* C18 centring: formats 10 (one line) and 11 (two lines), default proportional mode
   (not fixed width, no extra spacing), text without LF that fits the active area: the
   metric box of each line is centred (margins differ by at most one) and all ink of the line
   lies in that box extended by one size step.  The ink box is C20's ink_in_box. *)
From RP Require Import Lib.Base Lib.Utf8 Gen.Tables Model.Mono Model.Tile Spec.Clip Spec.TextBox Spec.Tile
  Proofs.ListZ Proofs.PixelProofs Proofs.DrawProofs Proofs.OpsProofs
  Proofs.TextGlyph Proofs.TextVal Proofs.TextRender
  Proofs.TileBasic Proofs.TileInv Proofs.TileClip.
From Coq Require Import ZifyBool.
Ltac Zify.zify_post_hook ::= Z.div_mod_to_equations.

(* ---- text states that agree on everything StrWidth / LineHeight / RenderText's layout read ---- *)
Definition same_metrics (t t' : tstate) : Prop :=
  tfont t' = tfont t /\ tprop t' = tprop t /\ tspacing t' = tspacing t /\
  tsh t' = tsh t /\ tsv t' = tsv t /\ twrap t' = twrap t.

Lemma same_metrics_refl t : same_metrics t t.
Proof. unfold same_metrics. tauto. Qed.

Lemma same_metrics_trans a b c : same_metrics a b -> same_metrics b c -> same_metrics a c.
Proof. unfold same_metrics. intuition congruence. Qed.

Lemma same_metrics_cursor t x y : same_metrics t (set_cursor t x y).
Proof. unfold same_metrics, set_cursor; simpl. tauto. Qed.

Lemma char_width_sm t t' c : same_metrics t t' -> char_width t' c = char_width t c.
Proof. intros (A & B & _). unfold char_width. rewrite A, B. reflexivity. Qed.

Lemma adv_sum_sm t t' cs : same_metrics t t' -> adv_sum t' cs = adv_sum t cs.
Proof.
  intros S. induction cs as [|c cs IH]; simpl; auto.
  rewrite IH, (char_width_sm t t' c S). destruct S as (_ & _ & C & D & _). rewrite C, D. reflexivity.
Qed.

Lemma str_width_sm t t' s : same_metrics t t' -> str_width t' s = str_width t s.
Proof.
  intros S. unfold str_width. rewrite !str_width_chars_sum, (adv_sum_sm t t' _ S).
  destruct S as (_ & _ & _ & D & _). rewrite D. reflexivity.
Qed.

Lemma line_height_sm t t' : same_metrics t t' -> line_height t' = line_height t.
Proof. intros (A & _ & _ & _ & E & _). unfold line_height. rewrite A, E. reflexivity. Qed.

Lemma write_char_sm g t d c : same_metrics t (fst (write_char g (t, d) c)).
Proof.
  unfold write_char. destruct (c =? 10); [apply same_metrics_cursor|].
  destruct (c =? 13); [apply same_metrics_refl|].
  match goal with |- context [if ?b then _ else _] => destruct b end; apply same_metrics_cursor.
Qed.

Lemma render_chars_sm g cs : forall t d, same_metrics t (fst (render_chars g cs (t, d))).
Proof.
  unfold render_chars. induction cs as [|c cs IH]; intros t d; cbn [fold_left].
  - apply same_metrics_refl.
  - pose proof (write_char_sm g t d c) as S1.
    destruct (write_char g (t, d) c) as [t1 d1]. simpl in S1.
    eapply same_metrics_trans; [exact S1 | apply IH].
Qed.

(* ---- SetCursor + RenderText on an image ---- *)
Lemma run_cursor_text i xo yo str :
  run_ops i [OSetCursor xo yo; OText str] =
  mkImg (ig i) (fst (render_text (ig i) str (set_cursor (it i) xo yo, idata i)))
        (snd (render_text (ig i) str (set_cursor (it i) xo yo, idata i))) (ibckg i) (ipixc i).
Proof.
  unfold run_ops; cbn [fold_left run_op with_t with_data ig it idata ibckg ipixc].
  destruct (render_text (ig i) str (set_cursor (it i) xo yo, idata i)); reflexivity.
Qed.

Lemma text_step i xo yo str :
  wf_img i -> twrap (it i) = false -> sizes_ok (it i) -> lh (it i) < 4294967296 -> no_lf (range_bytes str) ->
  let i' := run_ops i [OSetCursor xo yo; OText str] in
  wf_img i' /\ ig i' = ig i /\ same_metrics (it i) (it i') /\
  forall c r, 0 <= c < 8 * gwib (ig i) -> 0 <= r < gH (ig i) ->
    px (gwib (ig i)) (idata i') c r <> px (gwib (ig i)) (idata i) c r ->
    in_box xo yo (str_width (it i) str) (tsh (it i)) (line_height (it i)) (c - gbx (ig i)) (r - gby (ig i)) = true.
Proof.
  intros Wf Hwr Hs Hl Hn. cbv zeta. rewrite run_cursor_text.
  destruct (ink_in_box (ig i) (it i) xo yo str (idata i) Hwr Hs Hl Wf Hn) as [W E].
  unfold render_at in W, E.
  unfold wf_img. cbn [ig it idata].
  split; [exact W|]. split; [reflexivity|].
  split.
  - unfold render_text. eapply same_metrics_trans; [apply (same_metrics_cursor (it i) xo yo) | apply render_chars_sm].
  - intros c r Hc Hr Hne. destruct (E c r Hc Hr Hne) as [A _]. exact A.
Qed.

(* ---- the text state of formats 10/11 ---- *)
Section Fmt.
Variables (t : mtext) (W H s b : Z).
Hypothesis HW : 0 <= W.
Hypothesis HH : 0 <= H.
Let p := params t W H s b.
Let wib := (W + 7) / 8.
Let tsz := constrain (s_ufs (the_style t)) 1 4.
Let sa := qint (pfH p >? 0) (pfH p) tsz.
Let sb := qint (pfV p >? 0) (pfV p) tsz.
(* tracked state (what the model evaluates StrWidth / LineHeight on) *)
Let tsT := set_text_size (set_font (tile_t0 p) (pffc p) (pprop p)) sa sb.
(* actual state of the image after SetFont; SetTextColor; SetTextSize *)
Let tsA := set_text_size (set_text_color (set_font (tile_t0 p) (pffc p) (pprop p)) true) sa sb.

Lemma tsA_tsT : same_metrics tsT tsA.
Proof. unfold same_metrics, tsA, tsT, set_text_size, set_text_color, set_font; simpl. tauto. Qed.

Lemma land3 x : 0 <= Z.land x 3 <= 3.
Proof. change 3 with (Z.ones 2). rewrite Z.land_ones by lia. pose proof (Z.mod_pos_bound x (2 ^ 2) ltac:(lia)). change (2 ^ 2) with 4 in *. change (Z.ones 2) with 3. lia. Qed.

Lemma sa_range : 1 <= sa <= 4.
Proof.
  unfold sa, tsz, qint, constrain. pose proof (land3 (f_w (the_font (s_text (the_style t))))) as L.
  change (pfH p) with (Z.land (f_w (the_font (s_text (the_style t)))) 3).
  destruct (Z.gtb_spec (Z.land (f_w (the_font (s_text (the_style t)))) 3) 0); [lia|].
  destruct (Z.ltb_spec (s_ufs (the_style t)) 1); [lia|]. destruct (Z.gtb_spec (s_ufs (the_style t)) 4); lia.
Qed.

Lemma sb_range : 1 <= sb <= 4.
Proof.
  unfold sb, tsz, qint, constrain. pose proof (land3 (f_h (the_font (s_text (the_style t))))) as L.
  change (pfV p) with (Z.land (f_h (the_font (s_text (the_style t)))) 3).
  destruct (Z.gtb_spec (Z.land (f_h (the_font (s_text (the_style t)))) 3) 0); [lia|].
  destruct (Z.ltb_spec (s_ufs (the_style t)) 1); [lia|]. destruct (Z.gtb_spec (s_ufs (the_style t)) 4); lia.
Qed.

Lemma tsA_sizes : sizes_ok tsA /\ twrap tsA = false /\ lh tsA < 4294967296 /\ tsh tsA = sa /\ tsv tsA = sb.
Proof.
  pose proof sa_range as A. pose proof sb_range as B.
  assert (Hh : tsh tsA = sa).
  { unfold tsA, set_text_size; cbn [tsh]. unfold qint. destruct (Z.gtb_spec sa 0); lia. }
  assert (Hv : tsv tsA = sb).
  { unfold tsA, set_text_size; cbn [tsv]. unfold qint. destruct (Z.eqb_spec sb 0); lia. }
  assert (Hsp : 0 <= tspacing tsA).
  { unfold tsA, set_text_size, set_text_color, set_font, tile_t0, set_wrap, set_spacing; cbn [tspacing].
    unfold wrap8. apply Z.mod_pos_bound. lia. }
  split; [unfold sizes_ok; lia|]. split; [reflexivity|]. split; [|auto].
  unfold lh. rewrite Hv. pose proof (font_bbh_pos (tfont tsA)).
  assert (font_bbh (tfont tsA) <= 8) by (unfold font_bbh; destruct (tfont tsA =? 2); lia). nia.
Qed.

Lemma spacing_zero : plain_mode t = true -> tspacing tsA = 0.
Proof.
  intros Hp. unfold tsA, set_text_size, set_text_color, set_font, tile_t0, set_wrap, set_spacing; cbn [tspacing].
  change (pspacing p) with (Z.land (s_spacing (the_style t)) 3).
  unfold plain_mode in Hp. unfold the_style, fill_style.
  destruct (x_style t) as [st|]; cbn [s_spacing empty_style].
  - assert (s_spacing st = 0) by lia. rewrite H0. reflexivity.
  - reflexivity.
Qed.

(* the spec's own text state of formats 10/11 (Spec.Tile.centre_tstate) carries the metrics the renderer uses *)
Lemma text_font_of_eq : the_font (s_text (the_style t)) = text_font_of t.
Proof.
  unfold the_style, fill_style, text_font_of, the_font.
  destruct (x_style t) as [st|]; [destruct (s_text st)|]; reflexivity.
Qed.
Lemma ufs_of_eq : s_ufs (the_style t) = ufs_of t.
Proof. unfold the_style, fill_style, ufs_of. destruct (x_style t) as [st|]; reflexivity. Qed.
Lemma fixed_plain : plain_mode t = true -> s_fixed (the_style t) = false.
Proof.
  unfold plain_mode, the_style, fill_style. destruct (x_style t) as [st|]; cbn [s_fixed empty_style]; [|reflexivity].
  intros Hp. destruct (s_fixed st); [discriminate | reflexivity].
Qed.
Lemma land_mod x k : 0 <= k -> Z.land x (Z.ones k) = x mod 2 ^ k.
Proof. intros. apply Z.land_ones; auto. Qed.

Lemma tsT_centre : plain_mode t = true -> same_metrics tsT (centre_tstate t).
Proof.
  intros Hp.
  pose proof sa_range as A. pose proof sb_range as B.
  assert (E7 : pffc p = f_face (text_font_of t) mod 8).
  { change (pffc p) with (Z.land (f_face (the_font (s_text (the_style t)))) 7). rewrite text_font_of_eq. apply (land_mod _ 3). lia. }
  assert (EH : pfH p = f_w (text_font_of t) mod 4).
  { change (pfH p) with (Z.land (f_w (the_font (s_text (the_style t)))) 3). rewrite text_font_of_eq. apply (land_mod _ 2). lia. }
  assert (EV : pfV p = f_h (text_font_of t) mod 4).
  { change (pfV p) with (Z.land (f_h (the_font (s_text (the_style t)))) 3). rewrite text_font_of_eq. apply (land_mod _ 2). lia. }
  assert (Ez : tsz = clamp14 (ufs_of t)).
  { unfold tsz, constrain, clamp14. rewrite ufs_of_eq.
    destruct (Z.ltb_spec (ufs_of t) 1); [lia|]. destruct (Z.gtb_spec (ufs_of t) 4); lia. }
  unfold same_metrics, centre_tstate. cbn [tfont tprop tspacing tsh tsv twrap].
  unfold tsT, set_text_size, set_font, tile_t0, set_wrap, set_spacing. cbn [tfont tprop tspacing tsh tsv twrap].
  split; [unfold norm_font; rewrite E7; reflexivity|].
  split; [change (pprop p) with (negb (s_fixed (the_style t))); rewrite (fixed_plain Hp); reflexivity|].
  split.
  { pose proof (spacing_zero Hp) as S0.
    unfold tsA, set_text_size, set_text_color, set_font, tile_t0, set_wrap, set_spacing in S0. cbn [tspacing] in S0.
    symmetry. exact S0. }
  split.
  { unfold qint. destruct (Z.gtb_spec sa 0); [|lia]. unfold sa, qint. rewrite EH, Ez.
    destruct (Z.gtb_spec (f_w (text_font_of t) mod 4) 0); destruct (Z.ltb_spec 0 (f_w (text_font_of t) mod 4)); lia. }
  split; [|reflexivity].
  unfold qint. destruct (Z.eqb_spec sb 0); [lia|]. unfold sb, qint. rewrite EV, Ez.
  destruct (Z.gtb_spec (f_h (text_font_of t) mod 4) 0); destruct (Z.ltb_spec 0 (f_h (text_font_of t) mod 4)); lia.
Qed.

(* the image after the prologue and SetFont; SetTextColor; SetTextSize *)
Definition i_text (bg pc : Z) : img :=
  run_ops (run_ops (canvas W H bg pc) (prologue false p))
          [OSetFont (pffc p) (pprop p); OSetTextColor true; OSetTextSize sa sb].

Lemma i_text_facts bg pc :
  wf_img (i_text bg pc) /\ ig (i_text bg pc) = set_bbox (geom0 W H) b b (paw p) (pah p) /\
  it (i_text bg pc) = tsA /\
  forall c r, 0 <= c < 8 * wib -> 0 <= r < H -> px wib (idata (i_text bg pc)) c r = false.
Proof.
  destruct (after_prologue t W H s b HW HH bg pc) as (Wf & Eg & Z0). fold p wib in Wf, Eg, Z0.
  unfold i_text. rewrite run_prologue in *.
  unfold run_ops; cbn [fold_left run_op with_t ig it idata].
  split; [exact Wf|]. split; [exact Eg|]. split; [reflexivity|]. exact Z0.
Qed.
End Fmt.

(* ---- the op list of formats 10 / 11 ---- *)
Lemma tile_body_oneline t W H s b :
  x_fmt t = 10 ->
  let p := params t W H s b in
  let tsz := constrain (s_ufs (the_style t)) 1 4 in
  let sa := qint (pfH p >? 0) (pfH p) tsz in
  let sb := qint (pfV p >? 0) (pfV p) tsz in
  let tsT := set_text_size (set_font (tile_t0 p) (pffc p) (pprop p)) sa sb in
  tile_body t W H s b =
  [DSetFont (pffc p) (pprop p); DSetTextColor true; DSetTextSize sa sb;
   DSetCursor (Z.shiftr (constrain (paw p - str_width tsT (x_title t)) 0 (paw p)) 1) (Z.shiftr (pah p - line_height tsT) 1);
   DText (x_title t)].
Proof.
  intros Hf. cbv zeta. unfold tile_body. cbv zeta. rewrite params_inv.
  unfold body. change (x_fmt (set_inverted t false)) with (x_fmt t). rewrite Hf.
  change (10 =? 10) with true. cbv iota.
  unfold body_oneline.
  change (the_style (set_inverted t false)) with (the_style t).
  change (x_title (set_inverted t false)) with (x_title t).
  reflexivity.
Qed.

Lemma tile_body_twolines t W H s b :
  x_fmt t = 11 ->
  let p := params t W H s b in
  let tsz := constrain (s_ufs (the_style t)) 1 4 in
  let sa := qint (pfH p >? 0) (pfH p) tsz in
  let sb := qint (pfV p >? 0) (pfV p) tsz in
  let tsT := set_text_size (set_font (tile_t0 p) (pffc p) (pprop p)) sa sb in
  tile_body t W H s b =
  [DSetFont (pffc p) (pprop p); DSetTextColor true; DSetTextSize sa sb;
   DSetCursor (Z.shiftr (constrain (paw p - str_width tsT (x_l1 t)) 0 (paw p)) 1) (Z.shiftr (pah p) 1 - line_height tsT);
   DText (x_l1 t);
   DSetCursor (Z.shiftr (constrain (paw p - str_width tsT (x_l2 t)) 0 (paw p)) 1) (Z.shiftr (pah p) 1);
   DText (x_l2 t)].
Proof.
  intros Hf. cbv zeta. unfold tile_body. cbv zeta. rewrite params_inv.
  unfold body. change (x_fmt (set_inverted t false)) with (x_fmt t). rewrite Hf.
  change (11 =? 10) with false. change (11 =? 11) with true. cbv iota.
  unfold body_twolines.
  change (the_style (set_inverted t false)) with (the_style t).
  change (x_l1 (set_inverted t false)) with (x_l1 t).
  change (x_l2 (set_inverted t false)) with (x_l2 t).
  reflexivity.
Qed.

Lemma epilogue_it i p : it (run_ops i (epilogue p)) = it i.
Proof. unfold epilogue. destruct (pborder p >? 0); reflexivity. Qed.

Lemma active_w_eq t W H s b : 0 <= b -> active_w W s b = paw (params t W H s b).
Proof.
  intros Hb. rewrite paw_eq. unfold active_w, qint.
  assert (0 <= shrink_w s <= 1) by (unfold shrink_w; destruct (Z.testbit s 0); lia).
  destruct (Z.gtb_spec b 0); lia.
Qed.
Lemma active_h_eq t W H s b : 0 <= b -> active_h H s b = pah (params t W H s b).
Proof.
  intros Hb. rewrite pah_eq. unfold active_h, qint.
  assert (0 <= shrink_h s <= 1) by (unfold shrink_h; destruct (Z.testbit s 1); lia).
  destruct (Z.gtb_spec b 0); lia.
Qed.

Lemma no_lf_of_str str : no_lf_str str = true -> no_lf (range_bytes str).
Proof. unfold no_lf_str, no_lf, has_lf. intros Hn. destruct (existsb (Z.eqb 10) (range_bytes str)); [discriminate | reflexivity]. Qed.

Lemma shiftr1 x : Z.shiftr x 1 = x / 2.
Proof. rewrite Z.shiftr_div_pow2 by lia. reflexivity. Qed.

Theorem oneline_centred t W H s b i :
  0 <= W -> 0 <= H -> 0 <= b -> x_inv t = false -> tile_filled t W H s b = Ok i ->
  oneline_ok t W H s b (idata i) = true.
Proof.
  intros HW HH Hb Hinv Ht.
  unfold oneline_ok, oneline_ok_m, line_width, line_h, size_step.
  destruct (oneline_applies t (active_w W s b) (active_h H s b) (str_width (centre_tstate t) (x_title t)) (line_height (centre_tstate t))) eqn:Happ;
    [|reflexivity].
  cbn [negb orb].
  unfold oneline_applies in Happ.
  assert (Hf : x_fmt t = 10) by lia.
  assert (Hpl : plain_mode t = true) by (destruct (plain_mode t); [reflexivity | rewrite andb_false_r in Happ; discriminate]).
  assert (Hnl : no_lf_str (x_title t) = true).
  { destruct (no_lf_str (x_title t)); [reflexivity|]. rewrite !andb_false_r in Happ. discriminate. }
  destruct (tile_eq t W H s b) as (bg & pc & E). rewrite E in Ht. apply Ok_inj in Ht. subst i.
  unfold tile_ops in *. rewrite Hinv in *. rewrite (tile_body_oneline t W H s b Hf) in *.
  set (p := params t W H s b) in *.
  set (tsz := constrain (s_ufs (the_style t)) 1 4) in *.
  set (sa := qint (pfH p >? 0) (pfH p) tsz) in *. set (sb := qint (pfV p >? 0) (pfV p) tsz) in *.
  set (tsT := set_text_size (set_font (tile_t0 p) (pffc p) (pprop p)) sa sb) in *.
  set (xo := Z.shiftr (constrain (paw p - str_width tsT (x_title t)) 0 (paw p)) 1) in *.
  set (yo := Z.shiftr (pah p - line_height tsT) 1) in *.
  change (map op_of [DSetFont (pffc p) (pprop p); DSetTextColor true; DSetTextSize sa sb; DSetCursor xo yo; DText (x_title t)])
    with ([OSetFont (pffc p) (pprop p); OSetTextColor true; OSetTextSize sa sb] ++ [OSetCursor xo yo; OText (x_title t)]) in *.
  rewrite !run_ops_app in *.
  assert (Ei1 : run_ops (run_ops (canvas W H bg pc) (prologue false p))
                  [OSetFont (pffc p) (pprop p); OSetTextColor true; OSetTextSize sa sb] = i_text t W H s b bg pc) by reflexivity.
  rewrite Ei1 in *. clear Ei1.
  destruct (i_text_facts t W H s b HW HH bg pc) as (Wf1 & Eg1 & Et1 & Z1). fold p in Eg1.
  set (i1 := i_text t W H s b bg pc) in *.
  destruct (tsA_sizes t W H s b) as (Hsz & Hwr & Hlh & Hsh & Hsv). fold p tsz sa sb in Hsz, Hwr, Hlh, Hsh, Hsv.
  pose proof (tsA_tsT t W H s b) as Sm. fold p tsz sa sb tsT in Sm.
  fold p tsz sa sb in Et1.
  set (tsA := set_text_size (set_text_color (set_font (tile_t0 p) (pffc p) (pprop p)) true) sa sb) in *.
  rewrite <- Et1 in Hsz, Hwr, Hlh.
  destruct (text_step i1 xo yo (x_title t) Wf1 Hwr Hsz Hlh (no_lf_of_str _ Hnl)) as (Wf2 & Eg2 & Sm2 & Ink).
  set (i2 := run_ops i1 [OSetCursor xo yo; OText (x_title t)]) in *.
  try rewrite epilogue_it in *.
  rewrite Et1 in Sm2, Ink.
  (* metrics of the final state = metrics of the tracked state *)
  pose proof (tsT_centre t W H s b Hpl) as SmC. fold p tsz sa sb tsT in SmC.
  assert (Esw : str_width (centre_tstate t) (x_title t) = str_width tsT (x_title t)) by (apply str_width_sm; exact SmC).
  assert (Elh : line_height (centre_tstate t) = line_height tsT) by (apply line_height_sm; exact SmC).
  assert (Esh : tsh (centre_tstate t) = tsh tsA).
  { destruct SmC as (_ & _ & _ & D & _). destruct Sm as (_ & _ & _ & D' & _). congruence. }
  rewrite Esw, Elh, Esh in *.
  rewrite (str_width_sm tsT tsA _ Sm), (line_height_sm tsT tsA Sm) in Ink.
  rewrite (active_w_eq t W H s b Hb), (active_h_eq t W H s b Hb) in Happ. rewrite (active_w_eq t W H s b Hb).
  change (params t W H s b) with p in Happ |- *.
  set (sw := str_width tsT (x_title t)) in *. set (lhh := line_height tsT) in *.
  unfold centred_cols, ink_within. apply all_cells_spec. intros c r Hc Hr.
  change (wib_of W) with ((W + 7) / 8) in *.
  destruct (px ((W + 7) / 8) (idata (run_ops i2 (epilogue p))) c r) eqn:Hpx; [|rewrite andb_false_r; reflexivity].
  assert (Eg2' : ig i2 = set_bbox (geom0 W H) b b (paw p) (pah p)) by (rewrite Eg2; exact Eg1).
  destruct (after_epilogue t W H s b HW i2 Wf2 Eg2' c r Hc Hr Hpx) as [Hpx2 _].
  assert (Hwib : gwib (ig i1) = (W + 7) / 8).
  { rewrite Eg1. change (gwib (set_bbox (geom0 W H) b b (paw p) (pah p))) with (ceil_div8 W). apply ceil_div8_nonneg; exact HW. }
  specialize (Ink c r). rewrite Hwib, Eg1 in Ink.
  change (gH (set_bbox (geom0 W H) b b (paw p) (pah p))) with H in Ink.
  change (gbx (set_bbox (geom0 W H) b b (paw p) (pah p))) with b in Ink.
  change (gby (set_bbox (geom0 W H) b b (paw p) (pah p))) with b in Ink.
  specialize (Ink Hc Hr). rewrite Hpx2, (Z1 c r Hc Hr) in Ink. specialize (Ink ltac:(discriminate)).
  unfold in_box, in_rect in Ink.
  assert (Hxo : xo = (paw p - sw) / 2).
  { unfold xo. rewrite shiftr1. unfold constrain.
    destruct (Z.ltb_spec (paw p - sw) 0); [lia|]. destruct (Z.gtb_spec (paw p - sw) (paw p)); [lia|]. reflexivity. }
  rewrite Hxo in Ink. lia.
Qed.

Lemma sm_sizes t t' : same_metrics t t' -> sizes_ok t -> twrap t = false -> lh t < 4294967296 ->
  sizes_ok t' /\ twrap t' = false /\ lh t' < 4294967296.
Proof.
  intros (A & B & C & D & E & F) (S1 & S2 & S3) Hw Hl. unfold sizes_ok, lh in *. rewrite A, C, D, E, F. auto.
Qed.

Theorem twoline_centred t W H s b i :
  0 <= W -> 0 <= H -> 0 <= b -> x_inv t = false -> tile_filled t W H s b = Ok i ->
  twoline_ok t W H s b (idata i) = true.
Proof.
  intros HW HH Hb Hinv Ht.
  unfold twoline_ok, twoline_ok_m, line_width, line_h, size_step.
  destruct (twoline_applies t (active_w W s b) (active_h H s b) (str_width (centre_tstate t) (x_l1 t)) (str_width (centre_tstate t) (x_l2 t)) (line_height (centre_tstate t))) eqn:Happ;
    [|reflexivity].
  cbn [negb orb].
  unfold twoline_applies in Happ.
  assert (Hf : x_fmt t = 11) by lia.
  assert (Hpl : plain_mode t = true) by (destruct (plain_mode t); [reflexivity | rewrite !andb_false_r in Happ; discriminate]).
  assert (Hnl1 : no_lf_str (x_l1 t) = true).
  { destruct (no_lf_str (x_l1 t)); [reflexivity|]. rewrite !andb_false_r in Happ. discriminate. }
  assert (Hnl2 : no_lf_str (x_l2 t) = true).
  { destruct (no_lf_str (x_l2 t)); [reflexivity|]. rewrite !andb_false_r in Happ. discriminate. }
  destruct (tile_eq t W H s b) as (bg & pc & E). rewrite E in Ht. apply Ok_inj in Ht. subst i.
  unfold tile_ops in *. rewrite Hinv in *. rewrite (tile_body_twolines t W H s b Hf) in *.
  set (p := params t W H s b) in *.
  set (tsz := constrain (s_ufs (the_style t)) 1 4) in *.
  set (sa := qint (pfH p >? 0) (pfH p) tsz) in *. set (sb := qint (pfV p >? 0) (pfV p) tsz) in *.
  set (tsT := set_text_size (set_font (tile_t0 p) (pffc p) (pprop p)) sa sb) in *.
  set (xo1 := Z.shiftr (constrain (paw p - str_width tsT (x_l1 t)) 0 (paw p)) 1) in *.
  set (yo1 := Z.shiftr (pah p) 1 - line_height tsT) in *.
  set (xo2 := Z.shiftr (constrain (paw p - str_width tsT (x_l2 t)) 0 (paw p)) 1) in *.
  set (yo2 := Z.shiftr (pah p) 1) in *.
  change (map op_of [DSetFont (pffc p) (pprop p); DSetTextColor true; DSetTextSize sa sb;
                     DSetCursor xo1 yo1; DText (x_l1 t); DSetCursor xo2 yo2; DText (x_l2 t)])
    with ([OSetFont (pffc p) (pprop p); OSetTextColor true; OSetTextSize sa sb]
          ++ [OSetCursor xo1 yo1; OText (x_l1 t)] ++ [OSetCursor xo2 yo2; OText (x_l2 t)]) in *.
  rewrite !run_ops_app in *.
  assert (Ei1 : run_ops (run_ops (canvas W H bg pc) (prologue false p))
                  [OSetFont (pffc p) (pprop p); OSetTextColor true; OSetTextSize sa sb] = i_text t W H s b bg pc) by reflexivity.
  rewrite Ei1 in *. clear Ei1.
  destruct (i_text_facts t W H s b HW HH bg pc) as (Wf1 & Eg1 & Et1 & Z1). fold p in Eg1.
  set (i1 := i_text t W H s b bg pc) in *.
  destruct (tsA_sizes t W H s b) as (Hsz & Hwr & Hlh & Hsh & Hsv). fold p tsz sa sb in Hsz, Hwr, Hlh, Hsh, Hsv.
  pose proof (tsA_tsT t W H s b) as Sm. fold p tsz sa sb tsT in Sm.
  fold p tsz sa sb in Et1.
  set (tsA := set_text_size (set_text_color (set_font (tile_t0 p) (pffc p) (pprop p)) true) sa sb) in *.
  pose proof Hsz as Hsz0. pose proof Hwr as Hwr0. pose proof Hlh as Hlh0.
  rewrite <- Et1 in Hsz, Hwr, Hlh.
  destruct (text_step i1 xo1 yo1 (x_l1 t) Wf1 Hwr Hsz Hlh (no_lf_of_str _ Hnl1)) as (Wf2 & Eg2 & Sm2 & Ink1).
  set (i2 := run_ops i1 [OSetCursor xo1 yo1; OText (x_l1 t)]) in *.
  rewrite Et1 in Sm2, Ink1.
  destruct (sm_sizes tsA (it i2) Sm2 Hsz0 Hwr0 Hlh0) as (Hsz2 & Hwr2 & Hlh2).
  destruct (text_step i2 xo2 yo2 (x_l2 t) Wf2 Hwr2 Hsz2 Hlh2 (no_lf_of_str _ Hnl2)) as (Wf3 & Eg3 & Sm3 & Ink2).
  set (i3 := run_ops i2 [OSetCursor xo2 yo2; OText (x_l2 t)]) in *.
  try rewrite epilogue_it in *.
  pose proof (same_metrics_trans _ _ _ Sm2 Sm3) as Sm23.
  (* all metrics are those of the tracked state *)
  pose proof (tsT_centre t W H s b Hpl) as SmC. fold p tsz sa sb tsT in SmC.
  assert (Esw1 : str_width (centre_tstate t) (x_l1 t) = str_width tsT (x_l1 t)) by (apply str_width_sm; exact SmC).
  assert (Esw2 : str_width (centre_tstate t) (x_l2 t) = str_width tsT (x_l2 t)) by (apply str_width_sm; exact SmC).
  assert (Elh : line_height (centre_tstate t) = line_height tsT) by (apply line_height_sm; exact SmC).
  assert (Esh : tsh (centre_tstate t) = tsh tsA).
  { destruct SmC as (_ & _ & _ & D & _). destruct Sm as (_ & _ & _ & D' & _). congruence. }
  rewrite Esw1, Esw2, Elh, Esh in *.
  rewrite (str_width_sm tsT tsA _ Sm), (line_height_sm tsT tsA Sm) in Ink1.
  rewrite (str_width_sm tsA (it i2) _ Sm2), (line_height_sm tsA (it i2) Sm2) in Ink2.
  rewrite (str_width_sm tsT tsA _ Sm), (line_height_sm tsT tsA Sm) in Ink2.
  assert (Esh2 : tsh (it i2) = tsh tsA) by (destruct Sm2 as (_ & _ & _ & D & _); exact D).
  rewrite Esh2 in Ink2.
  rewrite (active_w_eq t W H s b Hb), (active_h_eq t W H s b Hb) in Happ.
  rewrite (active_w_eq t W H s b Hb), (active_h_eq t W H s b Hb).
  change (params t W H s b) with p in Happ |- *.
  set (sw1 := str_width tsT (x_l1 t)) in *. set (sw2 := str_width tsT (x_l2 t)) in *. set (lhh := line_height tsT) in *.
  assert (Eg2' : ig i2 = set_bbox (geom0 W H) b b (paw p) (pah p)) by (rewrite Eg2; exact Eg1).
  assert (Eg3' : ig i3 = set_bbox (geom0 W H) b b (paw p) (pah p)) by (rewrite Eg3; exact Eg2').
  assert (Hwib1 : gwib (ig i1) = (W + 7) / 8).
  { rewrite Eg1. change (gwib (set_bbox (geom0 W H) b b (paw p) (pah p))) with (ceil_div8 W). apply ceil_div8_nonneg; exact HW. }
  assert (Hwib2 : gwib (ig i2) = (W + 7) / 8) by (rewrite Eg2; exact Hwib1).
  (* every lit pixel of the result lies in the box of line 1 or of line 2 *)
  assert (Boxes : forall c r, 0 <= c < 8 * ((W + 7) / 8) -> 0 <= r < H ->
            px ((W + 7) / 8) (idata (run_ops i3 (epilogue p))) c r = true ->
            in_box xo1 yo1 sw1 (tsh tsA) lhh (c - b) (r - b) = true \/ in_box xo2 yo2 sw2 (tsh tsA) lhh (c - b) (r - b) = true).
  { intros c r Hc Hr Hpx.
    destruct (after_epilogue t W H s b HW i3 Wf3 Eg3' c r Hc Hr Hpx) as [Hpx3 _].
    destruct (px ((W + 7) / 8) (idata i2) c r) eqn:Hpx2.
    - left. specialize (Ink1 c r). rewrite Hwib1, Eg1 in Ink1.
      change (gH (set_bbox (geom0 W H) b b (paw p) (pah p))) with H in Ink1.
      change (gbx (set_bbox (geom0 W H) b b (paw p) (pah p))) with b in Ink1.
      change (gby (set_bbox (geom0 W H) b b (paw p) (pah p))) with b in Ink1.
      apply Ink1; auto. rewrite Hpx2, (Z1 c r Hc Hr). discriminate.
    - right. specialize (Ink2 c r). rewrite Hwib2, Eg2' in Ink2.
      change (gH (set_bbox (geom0 W H) b b (paw p) (pah p))) with H in Ink2.
      change (gbx (set_bbox (geom0 W H) b b (paw p) (pah p))) with b in Ink2.
      change (gby (set_bbox (geom0 W H) b b (paw p) (pah p))) with b in Ink2.
      apply Ink2; auto. rewrite Hpx3, Hpx2. discriminate. }
  assert (Hxo1 : xo1 = (paw p - sw1) / 2).
  { unfold xo1. rewrite shiftr1. unfold constrain. fold sw1.
    destruct (Z.ltb_spec (paw p - sw1) 0); [lia|]. destruct (Z.gtb_spec (paw p - sw1) (paw p)); [lia|]. reflexivity. }
  assert (Hxo2 : xo2 = (paw p - sw2) / 2).
  { unfold xo2. rewrite shiftr1. unfold constrain. fold sw2.
    destruct (Z.ltb_spec (paw p - sw2) 0); [lia|]. destruct (Z.gtb_spec (paw p - sw2) (paw p)); [lia|]. reflexivity. }
  assert (Hyo2 : yo2 = pah p / 2) by (unfold yo2; apply shiftr1).
  assert (Hyo1 : yo1 = pah p / 2 - lhh) by (rewrite <- Hyo2; reflexivity).
  unfold centred_cols.
  apply andb_true_iff. split; unfold ink_within; apply all_cells_spec; intros c r Hc Hr;
    change (wib_of W) with ((W + 7) / 8) in *;
    (destruct (px ((W + 7) / 8) (idata (run_ops i3 (epilogue p))) c r) eqn:Hpx; [|rewrite andb_false_r; reflexivity]);
    destruct (Boxes c r Hc Hr Hpx) as [B1 | B2]; unfold in_box, in_rect in *; lia.
Qed.
