(* C02 / C01, part 5: sequences of lines, one message per line, and the round trip
   decode (encode ms) for representable messages.  Graphics chunk lines excluded here. *)
From RP Require Import Lib.Base Lib.Sexp Lib.Strings Lib.TrimSpace Model.Gfx Model.Flatten Model.MsgIn Model.EncIn Model.DecIn
  Spec.DenoteIn Spec.GrammarIn Proofs.StringsProofs Proofs.InEncLines
  Proofs.InDecLines Proofs.InDec Proofs.InDecFam Proofs.InDecMain Proofs.InTotal.
From Coq Require Import String.
Open Scope list_scope.
Open Scope Z_scope.

Lemma den_msgs_app a b : den_msgs (a ++ b) = den_msgs a ++ den_msgs b.
Proof. unfold den_msgs. apply flat_map_app. Qed.
Lemma apply_effs_app p a b : apply_effs p (a ++ b) = apply_effs (apply_effs p a) b.
Proof. unfold apply_effs. apply fold_left_app. Qed.

Section Seq.
  Variable js : list Z -> HWCState.
  Variable jm : list Z -> list (option InboundMessage).
  Variable ncp : list Z -> option (list Z).
  Notation in_rd := (in_read js jm ncp).
  Notation sem := (sem_in_lines js jm ncp).

  (* well-formed with panel effects, or not of the grammar at all *)
  Definition plain_line (l : list Z) : bool :=
    match in_rd l with Wf (LEffs _) => true | NotGrammar => true | _ => false end.

  Lemma dec_in_from_plain : forall ls st p x, forallb plain_line ls = true ->
    exists ms, dec_in_from js jm ncp st ls = Ok ms /\ run_msgs p ms = fst (sem (p, x) ls) /\ snd (sem (p, x) ls) = x.
  Proof.
    induction ls as [|l r IH]; intros st p x H.
    - exists []. repeat split; reflexivity.
    - cbn [forallb] in H. apply andb_true_iff in H. destruct H as [Hl Hr].
      unfold plain_line in Hl. cbn [dec_in_from]. unfold sem_in_lines. cbn [fold_left]. unfold sem_in_line at 2 4.
      destruct (in_rd l) as [[es|c]| |] eqn:E; try discriminate.
      + destruct (dec_line_wf js jm ncp st l es E) as (ms & -> & Q). cbn [bind fst snd].
        destruct (IH st (apply_effs p es) x Hr) as (rest & -> & R1 & R2). cbn [bind].
        exists (ms ++ rest). split; [reflexivity|]. fold (sem (apply_effs p es, x) r). split; [|exact R2].
        rewrite <- R1. unfold run_msgs. rewrite den_msgs_app, apply_effs_app, (Q p). reflexivity.
      + rewrite (dec_line_nongrammar js jm ncp st l E). cbn [bind fst snd].
        destruct (IH st p x Hr) as (rest & -> & R1 & R2). cbn [bind].
        exists (empty_msg :: rest). split; [reflexivity|]. fold (sem (p, x) r). split; [|exact R2].
        rewrite <- R1. reflexivity.
  Qed.

  (* C02 for sequences without graphics chunk lines: same panel, in line order *)
  Theorem dec_in_sound_nogfx : forall ls p x, forallb plain_line ls = true ->
    exists ms, dec_in js jm ncp ls = Ok ms /\ run_msgs p ms = fst (sem (p, x) ls).
  Proof.
    intros ls p x H. destruct (dec_in_from_plain ls gstate0 p x H) as (ms & E & R & _). exists ms. split; assumption.
  Qed.

  (* a single line that is not of the grammar changes nothing *)
  Theorem dec_in_ignores_nongrammar : forall l p, nongrammar js jm ncp l = true ->
    exists ms, dec_in js jm ncp [l] = Ok ms /\ run_msgs p ms = p.
  Proof.
    intros l p H. unfold nongrammar in H. destruct (in_rd l) eqn:E; try discriminate.
    unfold dec_in. cbn [dec_in_from]. rewrite (dec_line_nongrammar js jm ncp gstate0 l E). cbn [bind fst snd app].
    eexists. split; [reflexivity|]. destruct p; reflexivity.
  Qed.
End Seq.

(* ---------------------------------------------------------------- one message per line *)
Ltac ifs := repeat match goal with |- context [if ?c then _ else _] => destruct c end.

Lemma dec_line_one_msg js jm ncp st l r : (forall c t, l = c :: t -> c <> 91) ->
  dec_line js jm ncp st l = Ok r -> (List.length (snd r) <= 1)%nat.
Proof.
  intros NJ. unfold dec_line. destruct l as [|c0 l']; [intros H; inversion H; cbn; lia|].
  set (l := c0 :: l').
  destruct (seq_eqb l "ping"); [intros H; inversion H; cbn; lia|].
  destruct (seq_eqb l "ack"); [intros H; inversion H; cbn; lia|].
  destruct (seq_eqb l "nack"); [intros H; inversion H; cbn; lia|].
  destruct (lookup_flag flag_words 0 l); [intros H; inversion H; cbn; lia|].
  destruct (c0 =? 123); [intros H; inversion H; cbn; lia|].
  destruct (c0 =? 91) eqn:E91; [apply Z.eqb_eq in E91; exfalso; eapply NJ; eauto|].
  destruct (m_cmd l) as [gs|] eqn:E1.
  { apply m_cmd_shape in E1 as (a & b & c & d & ->). unfold dec_cmd_line. cbn [grp nth_error bind].
    ifs; intros H; inversion H; cbn; lia. }
  destruct (gfx_match l) as [sm|].
  { destruct (gfx_step st sm) as [st' [[ids g]|]]; intros H; inversion H; cbn; lia. }
  destruct (m_single l) as [gs|] eqn:E2.
  { apply m_single_shape in E2 as (a & b & c & ->). unfold dec_single_line. cbn [grp nth_error bind].
    ifs; intros H; inversion H; cbn; lia. }
  destruct (m_dual l) as [gs|] eqn:E3.
  { apply m_dual_shape in E3 as (a & b & c & d & ->). unfold dec_dual_line. cbn [grp nth_error bind].
    ifs; intros H; inversion H; cbn; lia. }
  destruct (m_str l) as [gs|] eqn:E4.
  { apply m_str_shape in E4 as (a & b & c & ->). unfold dec_str_line. cbn [grp nth_error bind].
    ifs; intros H; inversion H; cbn; lia. }
  destruct (m_reg l) as [gs|] eqn:E5.
  { apply m_reg_shape in E5 as (a & b & c & d & ->). unfold dec_reg_line. cbn [grp nth_error bind].
    ifs; intros H; inversion H; cbn; lia. }
  intros H; inversion H; cbn; lia.
Qed.

