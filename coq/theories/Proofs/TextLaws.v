(* C20: the executable laws of Spec/TextBox.v hold of the model on canvases as NewImage
   creates them (default bounding box); and the two corners where the literal text fails. *)
From RP Require Import Lib.Base Lib.Utf8 Model.Mono Spec.Clip Spec.TextBox
  Proofs.ListZ Proofs.PixelProofs Proofs.DrawProofs Proofs.OpsProofs Proofs.TextGlyph Proofs.TextVal Proofs.TextRender.
From Coq Require Import ZifyBool.
Ltac Zify.zify_post_hook ::= Z.div_mod_to_equations.

Lemma all_from_true n : forall z f, all_from n z f = true <-> forall k, z <= k < z + Z.of_nat n -> f k = true.
Proof.
  induction n as [|n IH]; intros z f; simpl all_from.
  - split; auto. intros _ k Hk. lia.
  - rewrite andb_true_iff, IH. split.
    + intros [H0 H1] k Hk. destruct (Z.eq_dec k z) as [->|]; auto. apply H1. lia.
    + intros H. split; [apply H; lia | intros k Hk; apply H; lia].
Qed.

Lemma all_rect_true x0 y0 w h f :
  all_rect x0 y0 w h f = true <-> forall c r, x0 <= c < x0 + w -> y0 <= r < y0 + h -> f c r = true.
Proof.
  unfold all_rect. rewrite all_from_true. split.
  - intros H c r Hc Hr. specialize (H r ltac:(lia)). rewrite all_from_true in H. apply H. lia.
  - intros H r Hr. apply all_from_true. intros c Hc. apply H; lia.
Qed.

Lemma all_rect_intro x0 y0 w h f :
  (forall c r, x0 <= c < x0 + w -> y0 <= r < y0 + h -> f c r = true) -> all_rect x0 y0 w h f = true.
Proof. apply all_rect_true. Qed.

Lemma all_rect_elim x0 y0 w h f :
  all_rect x0 y0 w h f = true -> forall c r, x0 <= c < x0 + w -> y0 <= r < y0 + h -> f c r = true.
Proof. apply all_rect_true. Qed.

Lemma vis_px W H wib d c r : vis W H (px wib d) c r = pxv W H wib d c r.
Proof. reflexivity. Qed.

(* ---- canvases as NewImage creates them ---- *)
Definition g0 (W H : Z) : geom := ig (new_image W H).
Definition d0 (W H : Z) : list Z := idata (new_image W H).

Lemma g0_fields W H : 0 <= W ->
  gW (g0 W H) = W /\ gH (g0 W H) = H /\ gwib (g0 W H) = (W + 7) / 8 /\ gbx (g0 W H) = 0 /\ gby (g0 W H) = 0
  /\ gbw (g0 W H) = W /\ gbh (g0 W H) = H.
Proof.
  intros HW. unfold g0, new_image, ceil_div8. cbn [ig gW gH gwib gbx gby gbw gbh].
  destruct (Z.ltb_spec W 0); [lia|]. repeat split; reflexivity.
Qed.

Lemma px_zrepeat wib n c r : px wib (zrepeat 0 n) c r = false.
Proof.
  unfold px, znth, zrepeat. destruct (_ <? 0); [apply Z.testbit_0_l|].
  set (k := Z.to_nat _).
  assert (nth k (repeat 0 (Z.to_nat n)) 0 = 0).
  { destruct (Nat.lt_ge_cases k (length (repeat 0 (Z.to_nat n)))).
    - apply (repeat_spec (Z.to_nat n) 0). apply nth_In; auto.
    - apply nth_overflow; auto. }
  rewrite H. apply Z.testbit_0_l.
Qed.

Lemma blank_new_image W H : 0 <= W -> 0 <= H -> blank (g0 W H) (d0 W H).
Proof.
  intros HW HH. split; [apply wfg_new_image; auto|].
  intros c r. unfold d0, new_image. simpl. apply px_zrepeat.
Qed.

Lemma pxr_g0 W H d a b : 0 <= W -> pxr (g0 W H) d a b = pxv W H ((W + 7) / 8) d a b.
Proof.
  intros HW. destruct (g0_fields W H HW) as (E1 & E2 & E3 & E4 & E5 & _).
  unfold pxr. rewrite E1, E2, E3, E4, E5, !Z.add_0_r. reflexivity.
Qed.

Lemma cell_fits_g0 W H x y w h :
  0 <= W -> 0 <= h -> 0 <= x -> 0 <= y -> x + w <= W -> y + h <= H -> cell_fits (g0 W H) x y w h = true.
Proof.
  intros HW Hh Hx Hy Hxw Hyh. destruct (g0_fields W H HW) as (E1 & E2 & E3 & E4 & E5 & E6 & E7).
  unfold cell_fits, get_bwidth, qint. rewrite E1, E2, E4, E5, E6, E7.
  destruct (W >? 0); lia.
Qed.

Lemma box_fits_cell W H t cx cy s :
  0 <= W -> sizes_ok t -> lh t < 4294967296 ->
  box_fits W H cx cy (str_width t s) (tsh t) (line_height t) = true ->
  cell_fits (g0 W H) cx cy (str_width t s + tsh t) (lh t) = true.
Proof.
  intros HW Hs Hl Hb. pose proof (lh_pos t Hs). destruct Hs as (? & ? & ?).
  unfold box_fits in Hb. rewrite line_height_lh in Hb by lia.
  apply cell_fits_g0; lia.
Qed.

Lemma layout_cells_fit W H t cs : 0 <= W -> sizes_ok t -> forall x y,
  layout_fits W H cs (map (char_width t) cs) (tspacing t) (tsh t) (lh t) x y = true ->
  cells_fit (g0 W H) t cs x y = true.
Proof.
  intros HW Hs. pose proof (lh_pos t Hs) as Hl.
  induction cs as [|c cs IH]; intros x y Hf; simpl in *; auto.
  destruct (c =? 10); [apply IH; auto|].
  destruct (c =? 13); [apply IH; auto|].
  apply andb_prop in Hf as [Hcell Hrest].
  apply andb_true_intro; split.
  - apply cell_fits_g0; lia.
  - apply IH. unfold adv. rewrite Z.add_assoc. exact Hrest.
Qed.

(* ---- (1) ink box ---- *)
Theorem box_law_holds W H t cx cy s d :
  0 <= W -> 0 <= H -> twrap t = false -> sizes_ok t -> lh t < 4294967296 ->
  wfg (g0 W H) d -> has_lf (range_bytes s) = false ->
  box_law W H ((W + 7) / 8) d (render_at (g0 W H) t cx cy s d) cx cy (str_width t s) (tsh t) (line_height t) = true.
Proof.
  intros HW HH Hwr Hs Hl Hwf Hn.
  destruct (g0_fields W H HW) as (E1 & E2 & E3 & E4 & E5 & _).
  destruct (ink_in_box (g0 W H) t cx cy s d Hwr Hs Hl Hwf Hn) as [_ E].
  unfold box_law, box_law_p. apply all_rect_intro. intros c r Hc Hr.
  rewrite E2, E3, E4, E5 in E.
  destruct (Bool.eqb _ _) eqn:Q; [reflexivity|]. cbn [orb].
  apply Bool.eqb_false_iff in Q.
  destruct (E c r ltac:(lia) ltac:(lia) Q) as [A _]. rewrite !Z.sub_0_r in A. exact A.
Qed.

(* ---- (2) translation ---- *)
Theorem translation_law_holds W H t cx cy dx dy s :
  0 <= W -> 0 <= H -> twrap t = false -> sizes_ok t -> lh t < 4294967296 ->
  has_lf (range_bytes s) = false ->
  box_fits W H cx cy (str_width t s) (tsh t) (line_height t) = true ->
  box_fits W H (cx + dx) (cy + dy) (str_width t s) (tsh t) (line_height t) = true ->
  translation_law W H ((W + 7) / 8)
    (render_at (g0 W H) t cx cy s (d0 W H)) (render_at (g0 W H) t (cx + dx) (cy + dy) s (d0 W H)) dx dy = true.
Proof.
  intros HW HH Hwr Hs Hl Hn F1 F2.
  unfold translation_law, translation_law_p. apply all_rect_intro. intros c r _ _.
  rewrite !vis_px.
  rewrite <- !(pxr_g0 W H) by auto.
  rewrite (translation (g0 W H) t cx cy dx dy s (d0 W H) (d0 W H)); auto using blank_new_image, box_fits_cell.
  apply Bool.eqb_reflx.
Qed.

(* ---- (3) whole-string scaling ---- *)
Theorem scale_law_holds W H t cx cy s :
  0 <= W -> 0 <= H -> twrap t = false -> sizes_ok t -> lh t < 4294967296 ->
  has_lf (range_bytes s) = false ->
  scale_string_scope (range_bytes s) (tspacing t) = true ->
  box_fits W H cx cy (str_width t s) (tsh t) (line_height t) = true ->
  scale_law W H ((W + 7) / 8)
    (render_at (g0 W H) t cx cy s (d0 W H)) (render_at (g0 W H) (with_size t 1 1) cx cy s (d0 W H))
    cx cy (tsh t) (tsv t) = true.
Proof.
  intros HW HH Hwr Hs Hl Hn Hsc F.
  unfold scale_law, scale_law_p. apply all_rect_intro. intros c r _ _.
  rewrite !vis_px.
  rewrite <- (pxr_g0 W H) by auto.
  rewrite (scale_string (g0 W H) t cx cy s (d0 W H) (d0 W H)); auto using blank_new_image, box_fits_cell.
  destruct (scale_src cx cy (tsh t) (tsv t) c r) as [c1 r1].
  rewrite (pxr_g0 W H) by auto. apply Bool.eqb_reflx.
Qed.

(* ---- (4) glyph-wise law: ALL strings, any spacing ---- *)
Theorem glyph_law_holds W H t x y x1 y1 s :
  0 <= W -> 0 <= H -> twrap t = false -> sizes_ok t ->
  let cs := range_bytes s in
  let ws := map (char_width t) cs in
  layout_fits W H cs ws (tspacing t) (tsh t) (lh t) x y = true ->
  layout_fits W H cs ws (tspacing t) 1 (font_bbh (tfont t)) x1 y1 = true ->
  glyph_law W H ((W + 7) / 8)
    (render_at (g0 W H) t x y s (d0 W H)) (render_at (g0 W H) (with_size t 1 1) x1 y1 s (d0 W H))
    cs ws (tspacing t) (tsh t) (tsv t) (font_bbh (tfont t)) x y x1 y1 = true.
Proof.
  intros HW HH Hwr Hs cs ws F1 F2.
  unfold glyph_law, glyph_law_p. apply all_rect_intro. intros a b _ _.
  rewrite !vis_px.
  rewrite <- (pxr_g0 W H) by auto.
  rewrite (scale_glyph (g0 W H) t x y x1 y1 s (d0 W H) (d0 W H)); auto using blank_new_image.
  - fold cs ws. destruct (src_pixel cs ws _ _ _ _ x y x1 y1 a b) as [[a1 b1]|]; [|reflexivity].
    rewrite (pxr_g0 W H) by auto. apply Bool.eqb_reflx.
  - apply layout_cells_fit; auto.
  - apply layout_cells_fit; auto using sizes_ok_size1.
    assert (E : lh (with_size t 1 1) = font_bbh (tfont t)) by (unfold lh; cbn [tsv tfont with_size]; lia).
    rewrite E. exact F2.
Qed.

(* ---- the two corners where the literal text is false (DESIGN section 6: F16, F17) ---- *)
Definition t_demo (sp h v : Z) : tstate := mkT 0 true sp 0 0 true true h v false.

(* F16: "A\nB" from cursor (10,5) on a 40x24 canvas: all hypotheses of the box law except
   "no LF" hold, the box fits, and ink lies outside the box *)
Lemma ink_in_box_lf_witness :
  let t := t_demo 0 1 1 in let s := [65; 10; 66] in
  twrap t = false /\ sizes_ok t /\ box_fits 40 24 10 5 (str_width t s) (tsh t) (line_height t) = true /\
  box_law 40 24 5 (d0 40 24) (render_at (g0 40 24) t 10 5 s (d0 40 24)) 10 5 (str_width t s) (tsh t) (line_height t) = false.
Proof. vm_compute. repeat split; intros; discriminate. Qed.

Lemma translation_lf_witness :
  let t := t_demo 0 1 1 in let s := [65; 10; 66] in
  box_fits 40 24 10 5 (str_width t s) (tsh t) (line_height t) = true /\
  box_fits 40 24 13 6 (str_width t s) (tsh t) (line_height t) = true /\
  translation_law 40 24 5 (render_at (g0 40 24) t 10 5 s (d0 40 24)) (render_at (g0 40 24) t 13 6 s (d0 40 24)) 3 1 = false.
Proof. vm_compute. repeat split. Qed.

Lemma scale_lf_witness :
  let t := t_demo 0 2 2 in let s := [65; 10; 66] in
  box_fits 40 40 3 2 (str_width t s) (tsh t) (line_height t) = true /\
  scale_law 40 40 5 (render_at (g0 40 40) t 3 2 s (d0 40 40)) (render_at (g0 40 40) (with_size t 1 1) 3 2 s (d0 40 40)) 3 2 2 2 = false.
Proof. vm_compute. repeat split. Qed.

(* F17: "AB", character spacing 2, size (2,2): no LF, box fits, whole-string law fails *)
Lemma scale_spacing_witness :
  let t := t_demo 2 2 2 in let s := [65; 66] in
  has_lf (range_bytes s) = false /\
  box_fits 40 24 3 2 (str_width t s) (tsh t) (line_height t) = true /\
  scale_law 40 24 5 (render_at (g0 40 24) t 3 2 s (d0 40 24)) (render_at (g0 40 24) (with_size t 1 1) 3 2 s (d0 40 24)) 3 2 2 2 = false.
Proof. vm_compute. repeat split. Qed.

(* byte 13 is counted by StrWidth but not drawn: the box only gets wider (harmless) *)
Lemma cr_example :
  let t := t_demo 1 2 1 in
  str_width t [65; 13; 66] = str_width t [65; 66] + (6 * 2 + 1) /\
  render_at (g0 40 10) t 1 1 [65; 13; 66] (d0 40 10) = render_at (g0 40 10) t 1 1 [65; 66] (d0 40 10).
Proof. vm_compute. split; reflexivity. Qed.

(* ---- stateful use: one RenderText step of ANY operation sequence on one image object.
   StrWidth / LineHeight are functions of the text state in force at that moment, so whatever
   setters and measurements came before, the ink of this step lies in the box they report now. ---- *)
Lemma set_cursor_id t : set_cursor t (tcx t) (tcy t) = t.
Proof. destruct t; reflexivity. Qed.

Theorem ink_in_box_step (i : img) (s : list Z) :
  wf_img i -> twrap (it i) = false -> sizes_ok (it i) -> lh (it i) < 4294967296 ->
  has_lf (range_bytes s) = false ->
  let i' := run_op i (OText s) in
  wf_img i' /\
  forall c r, 0 <= c < 8 * gwib (ig i) -> 0 <= r < gH (ig i) ->
    px (gwib (ig i)) (idata i') c r <> px (gwib (ig i)) (idata i) c r ->
    in_box (tcx (it i)) (tcy (it i)) (str_width (it i) s) (tsh (it i)) (line_height (it i))
           (c - gbx (ig i)) (r - gby (ig i)) = true.
Proof.
  intros Hwf Hwr Hs Hl Hn. cbv zeta.
  destruct (ink_in_box (ig i) (it i) (tcx (it i)) (tcy (it i)) s (idata i) Hwr Hs Hl Hwf Hn) as [W E].
  unfold render_at in W, E. rewrite set_cursor_id in W, E.
  assert (Ed : idata (run_op i (OText s)) = snd (render_text (ig i) s (it i, idata i))).
  { simpl run_op. destruct (render_text (ig i) s (it i, idata i)) as [t' d']. reflexivity. }
  assert (Eg : ig (run_op i (OText s)) = ig i).
  { simpl run_op. destruct (render_text (ig i) s (it i, idata i)) as [t' d']. reflexivity. }
  split.
  - unfold wf_img. rewrite Eg, Ed. exact W.
  - intros c r Hc Hr Hne. rewrite Ed in Hne. apply (E c r Hc Hr Hne).
Qed.
