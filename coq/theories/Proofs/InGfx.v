(* Graphics chunk lines: the reference reader's chunk parser (Spec/GrammarIn.rd_chunk) and the
   library's regex (Model/Gfx.gfx_match) accept the same rendered lines with the same values;
   simulation between the reader's transfer tracker (step_chunk) and the batch decoder's
   graphics locals (gfx_step). *)
From RP Require Import Lib.Base Lib.Sexp Lib.Strings Lib.B64 Model.Gfx Model.MsgIn Model.DecIn
  Spec.DenoteIn Spec.GrammarIn Proofs.GfxNum Proofs.GfxB64 Proofs.GfxMatch Proofs.StringsProofs
  Proofs.InEncLines Proofs.InDecLines Proofs.InDec Proofs.InDecFam.
From Coq Require Import String ZifyBool.
Open Scope string_scope.
Open Scope list_scope.
Open Scope Z_scope.

(* numeric values of the header sub-matches *)
Definition adv_vals (adv : option (list Z * list Z * list Z * option (list Z * list Z)))
  : option (option (Z * Z * Z * option (Z * Z))) :=
  match adv with
  | None => Some None
  | Some (mx, w, h, off) =>
    match rd_nat_lt two63 mx, rd_nat_lt two32 w, rd_nat_lt two32 h with
    | Some a, Some b, Some c =>
      match off with
      | None => Some (Some (a, b, c, None))
      | Some (x, y) =>
        match rd_nat_lt two32 x, rd_nat_lt two32 y with
        | Some d, Some e => Some (Some (a, b, c, Some (d, e)))
        | _, _ => None
        end
      end
    | _, _, _ => None
    end
  end.

Definition no_ch (c : Z) (s : list Z) : bool := forallb (fun x => negb (x =? c)) s.
Lemma digits_no_ch c s : (c < 48 \/ 57 < c) -> forallb is_digit s = true -> no_ch c s = true.
Proof. intros H. apply StringsProofs.forallb_impl. intros x. unfold is_digit. lia. Qed.

Lemma rd_nat_lt_digits b s n : rd_nat_lt b s = Some n -> b <= two63 -> forallb is_digit s = true /\ s <> [].
Proof. intros H B. apply rd_nat_lt_atoi in H; [|exact B]. tauto. Qed.

Lemma cut_at_none_of sep : forall s, no_ch sep s = true -> cut_at sep s = None.
Proof.
  unfold no_ch. induction s as [|c r IH]; intros H; [reflexivity|]. cbn [forallb] in H.
  apply andb_true_iff in H. destruct H as [Hc Hr]. cbn [cut_at]. destruct (c =? sep); [discriminate|].
  rewrite (IH Hr). reflexivity.
Qed.

Lemma no_ch_app c a b : no_ch c (a ++ b) = no_ch c a && no_ch c b.
Proof. unfold no_ch. apply forallb_app. Qed.

(* ---------------------------------------------------------------- reader on a rendered line *)
Lemma rd_header_render mx w h off a b c o :
  adv_vals (Some (mx, w, h, off)) = Some (Some (a, b, c, o)) ->
  rd_header (mx ++ 44 :: w ++ 120 :: h ++ match off with None => [] | Some (x, y) => 44 :: x ++ 44 :: y end)
  = Some (a, b, c, o).
Proof.
  unfold adv_vals. intros H.
  destruct (rd_nat_lt two63 mx) as [a'|] eqn:Ea; [|discriminate].
  destruct (rd_nat_lt two32 w) as [b'|] eqn:Eb; [|discriminate].
  destruct (rd_nat_lt two32 h) as [c'|] eqn:Ec; [|discriminate].
  destruct (rd_nat_lt_digits _ _ _ Ea ltac:(lia)) as [Da _].
  destruct (rd_nat_lt_digits _ _ _ Eb ltac:(unfold two32, two63; lia)) as [Db _].
  destruct (rd_nat_lt_digits _ _ _ Ec ltac:(unfold two32, two63; lia)) as [Dc _].
  unfold rd_header.
  rewrite fields_app_sep by (apply (digits_no_ch 44); [lia|exact Da]).
  destruct off as [[x y]|].
  - destruct (rd_nat_lt two32 x) as [d|] eqn:Ex; [|discriminate].
    destruct (rd_nat_lt two32 y) as [e|] eqn:Ey; [|discriminate]. inversion H; subst.
    destruct (rd_nat_lt_digits _ _ _ Ex ltac:(unfold two32, two63; lia)) as [Dx _].
    destruct (rd_nat_lt_digits _ _ _ Ey ltac:(unfold two32, two63; lia)) as [Dy _].
    replace (w ++ 120 :: h ++ 44 :: x ++ 44 :: y) with ((w ++ 120 :: h) ++ 44 :: x ++ 44 :: y) by (rewrite <- app_assoc; reflexivity).
    rewrite fields_app_sep.
    2:{ fold (no_ch 44 (w ++ 120 :: h)). rewrite no_ch_app. cbn [no_ch forallb]. fold (no_ch 44 h).
        rewrite (digits_no_ch 44 w), (digits_no_ch 44 h) by (try lia; assumption). reflexivity. }
    rewrite fields_app_sep by (apply (digits_no_ch 44); [lia|exact Dx]).
    rewrite fields_no_sep by (apply (digits_no_ch 44); [lia|exact Dy]).
    rewrite Ea. rewrite cut_at_app by (apply (digits_no_ch 120); [lia|exact Db]). rewrite Eb, Ec, Ex, Ey. reflexivity.
  - inversion H; subst. rewrite app_nil_r.
    rewrite fields_no_sep.
    2:{ fold (no_ch 44 (w ++ 120 :: h)). rewrite no_ch_app. cbn [no_ch forallb]. fold (no_ch 44 h).
        rewrite (digits_no_ch 44 w), (digits_no_ch 44 h) by (try lia; assumption). reflexivity. }
    rewrite Ea. rewrite cut_at_app by (apply (digits_no_ch 120); [lia|exact Db]). rewrite Eb, Ec. reflexivity.
Qed.

Lemma render_hdr_no58 adv hv : adv_vals adv = Some hv -> no_ch 58 (render_hdr adv) = true.
Proof.
  unfold adv_vals, render_hdr. destruct adv as [[[[mx w] h] off]|]; [|reflexivity].
  destruct (rd_nat_lt two63 mx) eqn:Ea; [|discriminate].
  destruct (rd_nat_lt two32 w) eqn:Eb; [|discriminate].
  destruct (rd_nat_lt two32 h) eqn:Ec; [|discriminate].
  destruct (rd_nat_lt_digits _ _ _ Ea ltac:(lia)) as [Da _].
  destruct (rd_nat_lt_digits _ _ _ Eb ltac:(unfold two32, two63; lia)) as [Db _].
  destruct (rd_nat_lt_digits _ _ _ Ec ltac:(unfold two32, two63; lia)) as [Dc _].
  intros H. rewrite !no_ch_app. cbn [no_ch forallb]. fold (no_ch 58 mx) (no_ch 58 w) (no_ch 58 h).
  rewrite (digits_no_ch 58 mx), (digits_no_ch 58 w), (digits_no_ch 58 h) by (try lia; assumption).
  destruct off as [[x y]|]; [|reflexivity].
  destruct (rd_nat_lt two32 x) eqn:Ex; [|discriminate]. destruct (rd_nat_lt two32 y) eqn:Ey; [|discriminate].
  destruct (rd_nat_lt_digits _ _ _ Ex ltac:(unfold two32, two63; lia)) as [Dx _].
  destruct (rd_nat_lt_digits _ _ _ Ey ltac:(unfold two32, two63; lia)) as [Dy _].
  rewrite !no_ch_app. cbn [no_ch forallb]. fold (no_ch 58 x) (no_ch 58 y).
  rewrite (digits_no_ch 58 x), (digits_no_ch 58 y) by (try lia; assumption). reflexivity.
Qed.

Lemma rd_chunk_render ty lst ids idx k adv hv pay :
  rd_ids lst = Some ids -> rd_nat_lt two63 idx = Some k -> adv_vals adv = Some hv ->
  (adv <> None -> k = 0) -> bytes_eqb (b64_encode (b64_decode pay)) pay = true ->
  rd_chunk ty (lst ++ [61] ++ idx ++ render_hdr adv ++ [58] ++ pay)
  = Some (LChunk (mkChunk ty lst ids k hv (b64_decode pay))).
Proof.
  intros HI HK HA HZ HP. unfold rd_chunk. cbn [app].
  destruct (rd_ids_chars _ _ HI) as [Lc _].
  rewrite cut_at_app.
  2:{ revert Lc. apply StringsProofs.forallb_impl. intros x. unfold is_listch, is_digit. lia. }
  rewrite HI.
  destruct (rd_nat_lt_digits _ _ _ HK ltac:(lia)) as [Dk _].
  replace (idx ++ render_hdr adv ++ 58 :: pay) with ((idx ++ render_hdr adv) ++ 58 :: pay) by (rewrite <- app_assoc; reflexivity).
  rewrite cut_at_app.
  2:{ fold (no_ch 58 (idx ++ render_hdr adv)). rewrite no_ch_app, (digits_no_ch 58 idx), (render_hdr_no58 adv hv HA) by (try lia; assumption). reflexivity. }
  rewrite HP.
  destruct adv as [[[[mx w] h] off]|].
  - destruct hv as [[[[a b] c] o]|]; [|unfold adv_vals in HA; repeat (destruct (rd_nat_lt _ _)); try discriminate; destruct off as [[? ?]|]; repeat (destruct (rd_nat_lt _ _)); discriminate].
    unfold render_hdr. cbn [app]. rewrite cut_at_app by (apply (digits_no_ch 47); [lia|exact Dk]).
    rewrite HK. rewrite (rd_header_render mx w h off a b c o HA). rewrite (HZ ltac:(discriminate)). reflexivity.
  - unfold adv_vals in HA. inversion HA; subst hv. unfold render_hdr. rewrite app_nil_r.
    rewrite cut_at_none_of by (apply (digits_no_ch 47); [lia|exact Dk]). rewrite HK. reflexivity.
Qed.

(* ---------------------------------------------------------------- what the reader accepts is a rendered line *)
Lemma fields_four sep s a b c d : fields sep s = [a; b; c; d] -> s = a ++ sep :: b ++ sep :: c ++ sep :: d.
Proof. intros H. rewrite <- (fields_join sep s), H. reflexivity. Qed.

Lemma rd_header_inv hdr a b c o : rd_header hdr = Some (a, b, c, o) ->
  exists mx w h off, hdr = mx ++ 44 :: w ++ 120 :: h ++ match off with None => [] | Some (x, y) => 44 :: x ++ 44 :: y end /\
                     adv_vals (Some (mx, w, h, off)) = Some (Some (a, b, c, o)).
Proof.
  unfold rd_header. intros H.
  destruct (fields 44 hdr) as [|n [|t [|x [|y [|z r]]]]] eqn:F; try discriminate.
  - destruct (rd_nat_lt two63 n) as [a'|] eqn:Ea; [|discriminate].
    destruct (cut_at 120 t) as [[w h]|] eqn:C; [|discriminate].
    destruct (rd_nat_lt two32 w) as [b'|] eqn:Eb; [|discriminate].
    destruct (rd_nat_lt two32 h) as [c'|] eqn:Ec; [|discriminate]. inversion H; subst.
    apply fields_two in F. apply cut_at_spec in C. destruct C as [-> _].
    exists n, w, h, None. split; [rewrite app_nil_r; exact F|].
    unfold adv_vals. rewrite Ea, Eb, Ec. reflexivity.
  - destruct (rd_nat_lt two63 n) as [a'|] eqn:Ea; [|discriminate].
    destruct (cut_at 120 t) as [[w h]|] eqn:C; [|discriminate].
    destruct (rd_nat_lt two32 w) as [b'|] eqn:Eb; [|discriminate].
    destruct (rd_nat_lt two32 h) as [c'|] eqn:Ec; [|discriminate].
    destruct (rd_nat_lt two32 x) as [d'|] eqn:Ex; [|discriminate].
    destruct (rd_nat_lt two32 y) as [e'|] eqn:Ey; [|discriminate]. inversion H; subst.
    apply fields_four in F. apply cut_at_spec in C. destruct C as [-> _].
    exists n, w, h, (Some (x, y)). split; [rewrite F, <- ?app_assoc; reflexivity|].
    unfold adv_vals. rewrite Ea, Eb, Ec, Ex, Ey. reflexivity.
Qed.

Lemma rd_chunk_inv ty rest e : rd_chunk ty rest = Some e ->
  exists lst ids idx k adv hv pay,
    rest = lst ++ [61] ++ idx ++ render_hdr adv ++ [58] ++ pay /\
    rd_ids lst = Some ids /\ rd_nat_lt two63 idx = Some k /\ adv_vals adv = Some hv /\ (adv <> None -> k = 0) /\
    e = LChunk (mkChunk ty lst ids k hv (b64_decode pay)).
Proof.
  unfold rd_chunk. intros H.
  destruct (cut_at 61 rest) as [[idtext r1]|] eqn:C1; [|discriminate].
  destruct (rd_ids idtext) as [ids|] eqn:EI; [|discriminate].
  destruct (cut_at 58 r1) as [[head payload]|] eqn:C2; [|discriminate].
  destruct (bytes_eqb (b64_encode (b64_decode payload)) payload) eqn:EB; [|discriminate].
  apply cut_at_spec in C1. destruct C1 as [-> _]. apply cut_at_spec in C2. destruct C2 as [-> _].
  destruct (cut_at 47 head) as [[ix hdr]|] eqn:C3.
  - destruct (rd_nat_lt two63 ix) as [k|] eqn:EK; [|discriminate].
    destruct (rd_header hdr) as [[[[a b] c] o]|] eqn:EH; [|discriminate].
    destruct (k =? 0) eqn:K0; [|discriminate]. inversion H; subst e. apply Z.eqb_eq in K0. subst k.
    apply cut_at_spec in C3. destruct C3 as [-> _].
    destruct (rd_header_inv _ _ _ _ _ EH) as (mx & w & h & off & -> & AV).
    exists idtext, ids, ix, 0, (Some (mx, w, h, off)), (Some (a, b, c, o)), payload.
    split; [unfold render_hdr; destruct off as [[x y]|]; repeat (cbn [app]; rewrite <- ?app_assoc); reflexivity|].
    repeat split; auto.
  - destruct (rd_nat_lt two63 head) as [k|] eqn:EK; [|discriminate]. inversion H; subst e.
    exists idtext, ids, head, k, None, None, payload. split; [reflexivity|]. repeat split; auto. congruence.
Qed.

(* ---------------------------------------------------------------- the library's regex on such a line *)
Lemma adv_vals_ok adv hv : adv_vals adv = Some hv -> adv_ok adv.
Proof.
  unfold adv_vals, adv_ok. destruct adv as [[[[mx w] h] off]|]; [|auto].
  destruct (rd_nat_lt two63 mx) eqn:Ea; [|discriminate].
  destruct (rd_nat_lt two32 w) eqn:Eb; [|discriminate].
  destruct (rd_nat_lt two32 h) eqn:Ec; [|discriminate].
  pose proof (rd_nat_lt_digits _ _ _ Ea ltac:(lia)).
  pose proof (rd_nat_lt_digits _ _ _ Eb ltac:(unfold two32, two63; lia)).
  pose proof (rd_nat_lt_digits _ _ _ Ec ltac:(unfold two32, two63; lia)).
  destruct off as [[x y]|]; [|intros _; unfold digit_str; tauto].
  destruct (rd_nat_lt two32 x) eqn:Ex; [|discriminate]. destruct (rd_nat_lt two32 y) eqn:Ey; [|discriminate].
  pose proof (rd_nat_lt_digits _ _ _ Ex ltac:(unfold two32, two63; lia)).
  pose proof (rd_nat_lt_digits _ _ _ Ey ltac:(unfold two32, two63; lia)).
  intros _. unfold digit_str. tauto.
Qed.

Definition cmd_of (ty : Z) : list Z := if ty =? 1 then str "HWCgRGB#" else if ty =? 2 then str "HWCgGray#" else str "HWCg#".

Lemma gfx_match_wf ty rest e : (ty = 0 \/ ty = 1 \/ ty = 2) -> nolf rest = true -> rd_chunk ty rest = Some e ->
  exists lst ids idx k adv hv pay,
    gfx_match (cmd_of ty ++ rest) = Some (mkSm (cmd_of ty) lst idx adv pay) /\
    rd_ids lst = Some ids /\ rd_nat_lt two63 idx = Some k /\ adv_vals adv = Some hv /\ (adv <> None -> k = 0) /\
    e = LChunk (mkChunk ty lst ids k hv (b64_decode pay)).
Proof.
  intros HT N H. destruct (rd_chunk_inv _ _ _ H) as (lst & ids & idx & k & adv & hv & pay & -> & HI & HK & HA & HZ & ->).
  exists lst, ids, idx, k, adv, hv, pay. split; [|repeat split; auto].
  destruct (rd_ids_chars _ _ HI) as [Lc Ln]. destruct (rd_nat_lt_digits _ _ _ HK ltac:(lia)) as [Dk Nk].
  change (cmd_of ty ++ lst ++ [61] ++ idx ++ render_hdr adv ++ [58] ++ pay) with (render (cmd_of ty) lst idx adv pay).
  apply gfx_match_render; auto.
  - unfold is_cmd, cmd_of. destruct HT as [->|[->| ->]]; cbn; tauto.
  - split; assumption.
  - eapply adv_vals_ok; eauto.
  - rewrite !nolf_app in N. repeat (apply andb_true_iff in N; destruct N as [? N]).
    unfold payload_ok, contains_byte. rewrite (nolf_existsb pay N). reflexivity.
Qed.

(* ---------------------------------------------------------------- simulation *)
Definition img_of (g : gfx) : image :=
  mkImg (g_type g) (g_w g) (g_h g) (if g_xy g then Some (g_x g, g_y g) else None) (g_data g).

(* the decoder's graphics locals [st] and the reader's tracker [x] describe the same transfer *)
Definition R (st : gstate) (x : option xfer) : Prop :=
  match x with
  | None => gs_count st = -1 \/ gs_list st = []
  | Some t =>
    gs_type st = x_type t /\ gs_list st = x_ids t /\ x_ids t <> [] /\ gs_count st + 1 = x_next t /\
    gs_max st = x_last t /\ img_of (gs_img st) = x_img t /\ int_explode (gs_list st) = x_targets t /\
    (g_xy (gs_img st) = false -> g_x (gs_img st) = 0 /\ g_y (gs_img st) = 0)
  end.

Lemma R_init : R gstate0 None.
Proof. right. reflexivity. Qed.

Lemma bytes_eqb_sym a b : bytes_eqb a b = bytes_eqb b a.
Proof.
  unfold bytes_eqb. revert b. induction a as [|x a IH]; intros [|y b]; cbn [list_eqb]; try reflexivity.
  rewrite Z.eqb_sym, IH. reflexivity.
Qed.

Definition delivered (d : option (list Z * gfx)) : list InboundMessage :=
  match d with
  | Some (ids, g) => [state_msg (mkState ids None None None None (Some (of_gfx g)) None None)]
  | None => []
  end.

Lemma den_delivered p ids g : (g_xy g = false -> g_x g = 0 /\ g_y g = 0) ->
  apply_effs p (den_msgs (delivered (Some (ids, g)))) =
  if image_is_empty (img_of g) then p else apply_eff p (EState ids (UGfx (img_of g))).
Proof.
  intros XY. unfold delivered. rewrite den_state_msg. unfold den_state, state_upds.
  cbn [s_ids s_mode s_color s_ext s_text s_gfx s_adc app].
  assert (E : gfx_is_empty (of_gfx g) = image_is_empty (img_of g)).
  { unfold gfx_is_empty, image_is_empty, of_gfx, img_of. cbn [hg_type hg_w hg_h hg_xy hg_x hg_y hg_data hg_unk i_type i_w i_h i_off i_data].
    destruct (g_xy g) eqn:X.
    - cbn [negb andb]. rewrite !andb_false_r. reflexivity.
    - destruct (XY eq_refl) as [-> ->]. cbn [negb Z.eqb andb]. rewrite !andb_true_r. unfold nilb. destruct (g_data g); reflexivity. }
  rewrite E. destruct (image_is_empty (img_of g)).
  - cbn [map app]. induction ids as [|i r IH]; [destruct p; reflexivity|]. cbn [flat_map app]. exact IH.
  - cbn [map app]. rewrite apply_state_ids. reflexivity.
Qed.

Lemma type_of_cmd_of ty : (ty = 0 \/ ty = 1 \/ ty = 2) -> type_of_cmd (cmd_of ty) = ty.
Proof. intros [->|[->| ->]]; reflexivity. Qed.

Lemma wrap32_lt v b : rd_nat_lt two32 b = Some v -> wrap32 (atoi b) = v.
Proof.
  intros H. apply rd_nat_lt_atoi in H; [|unfold two32, two63; lia]. destruct H as (-> & R' & _).
  apply wrap32_small. exact R'.
Qed.

Lemma sim_step ty lst ids idx k adv hv pay st x p :
  (ty = 0 \/ ty = 1 \/ ty = 2) ->
  rd_ids lst = Some ids -> rd_nat_lt two63 idx = Some k -> adv_vals adv = Some hv -> (adv <> None -> k = 0) ->
  R st x ->
  let sm := mkSm (cmd_of ty) lst idx adv pay in
  let c := mkChunk ty lst ids k hv (b64_decode pay) in
  R (fst (gfx_step st sm)) (snd (step_chunk p x c)) /\
  fst (step_chunk p x c) = apply_effs p (den_msgs (delivered (snd (gfx_step st sm)))).
Proof.
  intros HT HI HK HA HZ HR sm c.
  pose proof (rd_nat_lt_atoi _ _ _ HK ltac:(lia)) as (EK & RK & _).
  destruct (rd_ids_chars _ _ HI) as [_ LN].
  unfold gfx_step, step_chunk. fold sm.
  replace (sm_index sm) with k by (unfold sm_index; cbn [sm_idx sm]; symmetry; exact EK).
  cbn [ck_index c ck_type ck_ids ck_targets ck_header ck_data sm_cmd sm_list sm_payload sm].
  rewrite (type_of_cmd_of ty HT).
  (* the state both sides continue from *)
  set (st1 := if k =? 0 then mkG (sm_new_image sm) (-1) (sm_max sm) lst ty else st).
  set (start := if k =? 0
                then match hv with
                     | Some (last, w, h, off) => Some (mkX ty lst ids 0 last (mkImg ty w h off []))
                     | None => Some (mkX ty lst ids 0 2 (mkImg ty 64 32 None []))
                     end
                else x).
  assert (R1 : R st1 start).
  { unfold st1, start. destruct (k =? 0) eqn:K0; [|exact HR].
    unfold sm_new_image, sm_max. cbn [sm_adv sm sm_cmd]. rewrite (type_of_cmd_of ty HT).
    destruct adv as [[[[mx w] h] off]|]; unfold adv_vals in HA.
    - destruct (rd_nat_lt two63 mx) as [a|] eqn:Ea; [|discriminate].
      destruct (rd_nat_lt two32 w) as [b|] eqn:Eb; [|discriminate].
      destruct (rd_nat_lt two32 h) as [c'|] eqn:Ec; [|discriminate].
      pose proof (rd_nat_lt_atoi _ _ _ Ea ltac:(lia)) as (EA & _).
      destruct off as [[xx yy]|].
      + destruct (rd_nat_lt two32 xx) as [d|] eqn:Ex; [|discriminate].
        destruct (rd_nat_lt two32 yy) as [e|] eqn:Ey; [|discriminate]. inversion HA; subst hv.
        cbn [R gs_type gs_list gs_count gs_max gs_img x_type x_ids x_next x_last x_img x_targets].
        rewrite (wrap32_lt _ _ Eb), (wrap32_lt _ _ Ec), (wrap32_lt _ _ Ex), (wrap32_lt _ _ Ey), EA, (int_explode_ids _ _ HI).
        repeat split; auto; match goal with H : g_xy _ = false |- _ => cbn in H; discriminate end.
      + inversion HA; subst hv.
        cbn [R gs_type gs_list gs_count gs_max gs_img x_type x_ids x_next x_last x_img x_targets].
        rewrite (wrap32_lt _ _ Eb), (wrap32_lt _ _ Ec), EA, (int_explode_ids _ _ HI).
        repeat split; auto.
    - inversion HA; subst hv.
      cbn [R gs_type gs_list gs_count gs_max gs_img x_type x_ids x_next x_last x_img x_targets].
      rewrite (int_explode_ids _ _ HI). repeat split; auto. }
  replace (if k =? 0 then match hv with
                          | Some (last, w, h, off) => Some (mkX ty lst ids 0 last (mkImg ty w h off []))
                          | None => Some (mkX ty lst ids 0 2 (mkImg ty 64 32 None []))
                          end else x) with start by reflexivity.
  assert (SK : start = None -> (k =? 0) = false).
  { unfold start. destruct (k =? 0); [|reflexivity]. destruct hv as [[[[? ?] ?] ?]|]; discriminate. }
  clearbody st1 start. clear HR.
  destruct start as [t|].
  - pose proof R1 as R1'. destruct R1 as (T1 & T2 & T3 & T4 & T5 & T6 & T7 & T8).
    rewrite T1. rewrite (bytes_eqb_sym lst (gs_list st1)). rewrite T2. rewrite T2 in T7.
    destruct ((x_type t =? ty) && bytes_eqb (x_ids t) lst) eqn:CND.
    + apply andb_true_iff in CND. destruct CND as [C1 C2]. rewrite C1, C2. cbn [andb].
      replace (gs_count st1 + 1) with (x_next t) by lia.
      destruct (k =? x_next t) eqn:KN.
      * rewrite T5. destruct (k =? x_last t) eqn:KL; cbn [fst snd].
        -- split; [left; reflexivity|].
           rewrite den_delivered.
           2:{ unfold gfx_append. cbn [g_xy g_x g_y]. exact T8. }
           rewrite T7.
           assert (IE : img_of (gfx_append (gs_img st1) (b64_decode pay)) =
                        mkImg (i_type (x_img t)) (i_w (x_img t)) (i_h (x_img t)) (i_off (x_img t)) (i_data (x_img t) ++ b64_decode pay)).
           { rewrite <- T6. unfold img_of, gfx_append. reflexivity. }
           rewrite IE. reflexivity.
        -- split; [|destruct p; reflexivity].
           cbn [R gs_type gs_list gs_count gs_max gs_img x_type x_ids x_next x_last x_img x_targets].
           repeat split; auto; try lia;
             try (match goal with H : g_xy (gfx_append _ _) = false |- _ => unfold gfx_append in H; cbn [g_xy] in H; destruct (T8 H) as [X0 Y0]; unfold gfx_append; cbn [g_x g_y]; assumption end).
           rewrite <- T6. unfold img_of, gfx_append. reflexivity.
      * cbn [fst snd]. split; [left; reflexivity|destruct p; reflexivity].
    + apply andb_false_iff in CND. destruct CND as [C|C]; rewrite C; cbn [andb fst snd].
      * split; [exact R1'|destruct p; reflexivity].
      * destruct (x_type t =? ty); cbn [fst snd]; (split; [exact R1'|destruct p; reflexivity]).
  - cbn [fst snd]. destruct R1 as [D|D].
    + destruct (gs_type st1 =? ty); [|split; [left; exact D|destruct p; reflexivity]].
      destruct (bytes_eqb lst (gs_list st1)); [|split; [left; exact D|destruct p; reflexivity]].
      rewrite D. replace (-1 + 1) with 0 by lia.
      destruct (k =? 0) eqn:K0; cbn [fst snd].
      * (* cannot happen: k = 0 always starts a transfer *) pose proof (SK eq_refl) as K1. congruence.
      * split; [left; reflexivity|destruct p; reflexivity].
    + destruct (gs_type st1 =? ty); [|split; [right; exact D|destruct p; reflexivity]].
      destruct (bytes_eqb lst (gs_list st1)) eqn:BE; [|split; [right; exact D|destruct p; reflexivity]].
      exfalso. apply InEncLines.bytes_eqb_eq in BE. congruence.
Qed.
