(* clean_stream: the encoder's lines through ASCIIreader.Parse, from any reader state, with
   unrelated lines in between, with or without the JSON round trip of the reader. *)
From RP Require Import Lib.Base Lib.Sexp Lib.Strings Lib.Utf8 Lib.B64 Lib.TrimSpace Model.Gfx Spec.Transfer
  Proofs.GfxNum Proofs.GfxB64 Proofs.GfxMatch Proofs.GfxBatch Proofs.GfxClean Proofs.GfxStream.
From Coq Require Import String ZifyBool.
Open Scope Z_scope.
Open Scope list_scope.

(* ---- TrimSpace leaves a line alone that starts and ends with a non-space ASCII byte ---- *)
Definition plain (c : Z) : Prop := 0 <= c < 128 /\ is_space_rune c = false.

Lemma trim_left_plain a m : plain a -> trim_left (a :: m) = a :: m.
Proof.
  intros [Ha Hs]. unfold trim_left. cbn [List.length trim_left_fuel]. unfold decode_rune.
  replace (a <? 128) with true by lia. cbn beta iota zeta. rewrite Hs. reflexivity.
Qed.

Lemma trim_right_plain s b m : rev s = b :: m -> plain b -> trim_right s = s.
Proof.
  intros Hr [Hb Hs]. unfold trim_right. rewrite Hr.
  assert (List.length s = Datatypes.S (List.length m)) as ->.
  { rewrite <- (rev_length s), Hr. reflexivity. }
  cbn [trim_right_rev_fuel]. unfold decode_last_rune_rev.
  replace (b <? 128) with true by lia. cbn beta iota zeta. rewrite Hs.
  rewrite <- Hr. apply rev_involutive.
Qed.

Lemma trim_space_plain a m b m' : rev (a :: m) = b :: m' -> plain a -> plain b -> trim_space (a :: m) = a :: m.
Proof.
  intros Hr Ha Hb. unfold trim_space. rewrite (trim_left_plain a m Ha). apply (trim_right_plain _ b m' Hr Hb).
Qed.

Lemma b64_outch_range c : b64_outch c = true -> 43 <= c <= 122.
Proof.
  unfold b64_outch, b64_alpha, b64_val.
  destruct ((65 <=? c) && (c <=? 90)) eqn:E1; [lia|].
  destruct ((97 <=? c) && (c <=? 122)) eqn:E2; [lia|].
  destruct ((48 <=? c) && (c <=? 57)) eqn:E3; [lia|].
  destruct (c =? 43) eqn:E4; [lia|]. destruct (c =? 47) eqn:E5; [lia|].
  cbn. lia.
Qed.

Lemma range_plain c : 33 <= c <= 126 -> plain c.
Proof. intros H. split; [lia|]. unfold is_space_rune. lia. Qed.

Lemma b64_encode_nonempty d : d <> [] -> b64_encode d <> [].
Proof. destruct d as [|a [|b [|c r]]]; cbn [b64_encode]; congruence. Qed.

Lemma b64_encode_last d : bytes_ok d = true -> d <> [] ->
  exists m b, b64_encode d = m ++ [b] /\ 43 <= b <= 122.
Proof.
  intros Hok Hne. destruct (exists_last (b64_encode_nonempty d Hne)) as [m [b Hmb]].
  exists m, b. split; [exact Hmb|]. apply b64_outch_range.
  pose proof (b64_encode_chars d Hok) as Hc. rewrite Hmb, forallb_app in Hc.
  apply andb_true_iff in Hc. destruct Hc as [_ Hc]. cbn in Hc. rewrite andb_true_r in Hc. exact Hc.
Qed.

Lemma forall_range_itoa n : 0 <= n -> Forall (fun c => 43 <= c <= 122) (itoa n).
Proof.
  intros H. destruct (itoa_digits n H) as [Hd _]. rewrite forallb_forall in Hd.
  apply Forall_forall. intros c Hc. specialize (Hd c Hc). unfold is_digit in Hd. lia.
Qed.

Lemma forall_range_b64 d : bytes_ok d = true -> Forall (fun c => 43 <= c <= 122) (b64_encode d).
Proof.
  intros H. pose proof (b64_encode_chars d H) as Hc. rewrite forallb_forall in Hc.
  apply Forall_forall. intros c Hin. apply b64_outch_range, Hc, Hin.
Qed.

Lemma range_ascii s : Forall (fun c => 35 <= c <= 122) s -> ascii s.
Proof. apply Forall_impl. intros; lia. Qed.

Lemma range_of_forallb s : forallb (fun c => (35 <=? c) && (c <=? 122)) s = true -> Forall (fun c => 35 <= c <= 122) s.
Proof. intros H. rewrite forallb_forall in H. apply Forall_forall. intros c Hc. specialize (H c Hc). lia. Qed.

Section Line.
  Variables (g : gfx) (id : Z).
  Hypothesis Hg : gfx_ok g.
  Hypothesis Hid : id_ok id.
  Let total := total_lines (zlen (g_data g)).

  Lemma chunk_line_chars k : 0 <= k < total -> Forall (fun c => 35 <= c <= 122) (chunk_line g id total k).
  Proof.
    intros Hk. destruct Hg as [Ht [Hw [Hh [Hx [Hy [Hd _]]]]]].
    assert (Hw1 : forall n, 0 <= n -> Forall (fun c => 35 <= c <= 122) (itoa n)).
    { intros n Hn. eapply Forall_impl; [|apply forall_range_itoa, Hn]. intros; cbn in *; lia. }
    unfold chunk_line, chunk_header.
    assert (Hb64 : Forall (fun c => 35 <= c <= 122) (b64_encode (chunk_data (g_data g) k))).
    { eapply Forall_impl; [|apply forall_range_b64].
      - intros; cbn in *; lia.
      - unfold chunk_data. apply bytes_ok_firstn, bytes_ok_skipn, Hd. }
    assert (Hcmd : Forall (fun c => 35 <= c <= 122) (cmd_string (g_type g))).
    { unfold cmd_string. destruct (g_type g =? 1); [|destruct (g_type g =? 2)]; apply range_of_forallb; reflexivity. }
    repeat (apply Forall_app; split); auto;
      try (apply Hw1; unfold id_ok in Hid; lia); try (apply range_of_forallb; reflexivity).
    destruct (k =? 0); [|constructor].
    repeat (apply Forall_app; split); try (apply Hw1; lia); try (apply range_of_forallb; reflexivity).
    destruct (g_xy g); [|constructor].
    repeat (apply Forall_app; split); try (apply Hw1; lia); try (apply range_of_forallb; reflexivity).
  Qed.

  Lemma chunk_data_nonempty k : 0 <= k < total -> chunk_data (g_data g) k <> [].
  Proof.
    intros Hk. unfold chunk_data.
    pose proof (zlen_nonneg (g_data g)) as Hn.
    destruct (total_lines_bounds _ Hn) as [Hb | [H0 Ht]]; fold total in Hb || (unfold total in Hk; lia).
    assert (Hlt : (Z.to_nat (170 * k) < List.length (g_data g))%nat) by (unfold zlen in *; lia).
    intros Hnil. apply (f_equal (@List.length Z)) in Hnil. rewrite firstn_length, skipn_length in Hnil.
    cbn [List.length] in Hnil. lia.
  Qed.

  Lemma chunk_line_trim k : 0 <= k < total -> trim_space (chunk_line g id total k) = chunk_line g id total k.
  Proof.
    intros Hk.
    assert (Hd : bytes_ok (chunk_data (g_data g) k) = true).
    { unfold chunk_data. apply bytes_ok_firstn, bytes_ok_skipn. apply Hg. }
    destruct (b64_encode_last _ Hd (chunk_data_nonempty k Hk)) as [m [b [Hmb Hb]]].
    assert (Hfirst : exists m0, chunk_line g id total k = 72 :: m0).
    { unfold chunk_line, cmd_string. destruct (g_type g =? 1); [|destruct (g_type g =? 2)]; eexists; reflexivity. }
    destruct Hfirst as [m0 Hm0].
    assert (Hlast : exists m1, rev (chunk_line g id total k) = b :: m1).
    { unfold chunk_line. rewrite Hmb. rewrite !app_assoc. rewrite rev_app_distr. cbn [rev app]. eexists; reflexivity. }
    destruct Hlast as [m1 Hm1]. rewrite Hm0 in *.
    apply (trim_space_plain 72 m0 b m1 Hm1); apply range_plain; lia.
  Qed.
End Line.

(* the graphics lines, each preceded by unrelated lines *)
Definition spaced_of (oss : list (list (list Z))) (ls : list (list Z)) : list (list (list Z) * list Z) := combine oss ls.

Lemma gfx_lines_nth g id : forall l, In l (gfx_lines g id) ->
  exists k, 0 <= k < total_lines (zlen (g_data g)) /\ l = chunk_line g id (total_lines (zlen (g_data g))) k.
Proof.
  intros l Hin. unfold gfx_lines in Hin. apply in_map_iff in Hin. destruct Hin as [k [Hk Hin]].
  apply in_seq in Hin. exists (Z.of_nat k). split; [lia | auto].
Qed.

Lemma gfx_lines_trim g id : gfx_ok g -> id_ok id -> map trim_space (gfx_lines g id) = gfx_lines g id.
Proof.
  intros Hg Hid. rewrite <- (map_id (gfx_lines g id)) at 2. apply map_ext_in.
  intros l Hin. destruct (gfx_lines_nth g id l Hin) as [k [Hk ->]]. apply chunk_line_trim; assumption.
Qed.

Lemma gfx_lines_ascii g id : gfx_ok g -> id_ok id -> Forall ascii (gfx_lines g id).
Proof.
  intros Hg Hid. apply Forall_forall. intros l Hin.
  destruct (gfx_lines_nth g id l Hin) as [k [Hk ->]]. apply range_ascii, chunk_line_chars; assumption.
Qed.

Lemma sp_lines_snd sp : sp_lines sp = map trim_space (map snd sp).
Proof. unfold sp_lines. rewrite map_map. reflexivity. Qed.


Lemma unspace_app a b : unspace (a ++ b) = unspace a ++ unspace b.
Proof. unfold unspace. apply flat_map_app. Qed.

Theorem clean_stream_sp ser g : gfx_ok g -> 1 <= zlen (g_data g) ->
  forall ids sp, Forall id_ok ids -> map snd sp = flat_map (gfx_lines g) ids -> sp_others_ok sp ->
  forall st, exists fin,
  rsteps ser st (unspace sp) =
  (clean_stream_out g (Z.to_nat (total_lines (zlen (g_data g)))) ids sp, fin)
  /\ (ids <> [] -> stable ser fin).
Proof.
  intros Hg Hl. set (T := Z.to_nat (total_lines (zlen (g_data g)))).
  induction ids as [|i r IH]; intros sp Hids Hsp Hoth st.
  - cbn [flat_map] in Hsp. destruct sp; [|discriminate]. exists st. split; [reflexivity | congruence].
  - inversion Hids as [|? ? Hi Hr]; subst. cbn [flat_map] in Hsp.
    apply map_eq_app in Hsp. destruct Hsp as [sp1 [sp2 [Hsplit [H1 H2]]]]. subst sp.
    assert (Hlen : List.length sp1 = T).
    { rewrite <- (map_length snd sp1), H1. pose proof (gfx_lines_len g i Hg Hi Hl) as HL. unfold T. rewrite <- HL. unfold zlen. rewrite Nat2Z.id. reflexivity. }
    unfold sp_others_ok in Hoth. rewrite Forall_app in Hoth. destruct Hoth as [Ho1 Ho2].
    rewrite unspace_app, rsteps_app.
    destruct (gfx_lines_full_run g i Hg Hi Hl) as [Hrun Hmax].
    assert (Hlines : sp_lines sp1 = gfx_lines g i).
    { rewrite sp_lines_snd, H1. apply gfx_lines_trim; assumption. }
    destruct (cmd_is_cmd g Hg) as [Hcmd Hty].
    rewrite (full_run_rsteps ser (cmd_string (g_type g) ++ str "#") (itoa i) (total_lines (zlen (g_data g)) - 1) sp1 (line_sm g i 0) (g_data g) Hcmd).
    2:{ rewrite Hlines. exact Hrun. }
    2:{ exact Ho1. }
    2:{ intros _. apply range_ascii. eapply Forall_impl; [|apply forall_range_itoa]. intros; cbn in *; lia. unfold id_ok in Hi; lia. }
    2:{ intros _. rewrite Hlines. apply gfx_lines_ascii; assumption. }
    destruct (IH sp2 Hr H2 Ho2 (mkR (-1) (cmd_string (g_type g) ++ str "#") [] (total_lines (zlen (g_data g)) - 1) (itoa i))) as [fin [Hfin Hst]].
    rewrite Hfin. cbn [clean_stream_out].
    rewrite firstn_app, Hlen, Nat.sub_diag, firstn_O, app_nil_r, <- Hlen, firstn_all.
    rewrite skipn_app, Nat.sub_diag, skipn_O, skipn_all, app_nil_l.
    rewrite (int_explode_itoa i Hi).
    assert (Ht : 1 <= total_lines (zlen (g_data g))).
    { destruct (total_lines_bounds (zlen (g_data g)) ltac:(lia)) as [Hb | [H0 _]]; lia. }
    rewrite (new_image_line0 g i Hg Ht). fold T in Hlen |- *. rewrite Hlen.
    exists (match r with [] => mkR (-1) (cmd_string (g_type g) ++ str "#") [] (total_lines (zlen (g_data g)) - 1) (itoa i) | _ => fin end).
    destruct r as [|i2 r2].
    + cbn [flat_map] in H2. destruct sp2; [|discriminate]. cbn [unspace flat_map rsteps] in Hfin.
      injection Hfin as Hf. subst fin. split; [reflexivity|]. intros _.
      apply in_transfer_stable; [exact Hcmd | | intros _; constructor].
      intros _. apply range_ascii. eapply Forall_impl; [|apply forall_range_itoa]. intros; cbn in *; lia. unfold id_ok in Hi; lia.
    + split; [reflexivity|]. intros _. apply Hst. congruence.
Qed.

(* the statement in terms of the model's stream_from, with unrelated lines after the last run *)
Theorem clean_stream_general ser g ids sp tail st :
  gfx_ok g -> 1 <= zlen (g_data g) -> Forall id_ok ids ->
  map snd sp = flat_map (gfx_lines g) ids -> sp_others_ok sp -> Forall other_line tail ->
  stream_from ser st (unspace sp ++ tail)
  = clean_stream_out g (Z.to_nat (total_lines (zlen (g_data g)))) ids sp ++ nones tail.
Proof.
  intros Hg Hl Hids Hsp Hoth Htail.
  rewrite stream_from_rsteps, rsteps_app.
  destruct (clean_stream_sp ser g Hg Hl ids sp Hids Hsp Hoth st) as [fin [Hfin _]]. rewrite Hfin.
  destruct (rsteps_others_any ser tail [] Htail fin) as [st' Hst']. rewrite app_nil_r in Hst'.
  rewrite Hst'. cbn [rsteps fst]. rewrite app_nil_r. reflexivity.
Qed.

(* no unrelated lines at all *)
Definition plain_sp (ls : list (list Z)) : list (list (list Z) * list Z) := map (fun l => ([], l)) ls.

Lemma unspace_plain ls : unspace (plain_sp ls) = ls.
Proof. unfold unspace, plain_sp. induction ls; cbn; auto. f_equal. exact IHls. Qed.

Theorem clean_stream_plain ser g ids st :
  gfx_ok g -> 1 <= zlen (g_data g) -> Forall id_ok ids ->
  stream_from ser st (flat_map (gfx_lines g) ids)
  = clean_stream_out g (Z.to_nat (total_lines (zlen (g_data g)))) ids (plain_sp (flat_map (gfx_lines g) ids)).
Proof.
  intros Hg Hl Hids.
  pose proof (clean_stream_general ser g ids (plain_sp (flat_map (gfx_lines g) ids)) [] st Hg Hl Hids) as H.
  rewrite unspace_plain, !app_nil_r in H. apply H.
  - unfold plain_sp. rewrite map_map. cbn [snd]. apply map_id.
  - unfold sp_others_ok, plain_sp. apply Forall_forall. intros p Hp. apply in_map_iff in Hp.
    destruct Hp as [l [<- _]]. constructor.
  - constructor.
Qed.

(* and what that output is: [] for every line but the last of each id's run *)
Lemma sp_outs_plain : forall ls final, ls <> [] ->
  sp_outs (plain_sp ls) final = repeat [] (List.length ls - 1) ++ [final].
Proof.
  induction ls as [|l r IH]; intros final Hne; [congruence|].
  destruct r as [|l2 r2]; [reflexivity|].
  change (plain_sp (l :: l2 :: r2)) with (([], l) :: plain_sp (l2 :: r2)).
  cbn [sp_outs fst nones map app]. rewrite IH by discriminate.
  cbn [List.length Nat.sub repeat app]. rewrite Nat.sub_0_r. reflexivity.
Qed.
