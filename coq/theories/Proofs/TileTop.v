(* C18: the theorems about [tile] = WriteDisplayTileNew itself: fill the absent
   sub-messages of the argument, then render ([tile_filled], proved in the other Tile*.v). *)
From RP Require Import Lib.Base Lib.Utf8 Gen.Tables Model.Mono Model.Tile Spec.Clip Spec.Tile
  Proofs.ListZ Proofs.PixelProofs Proofs.DrawProofs Proofs.OpsProofs
  Proofs.TileBasic Proofs.TileInv Proofs.TileClip Proofs.TileColour Proofs.TileCentre.

Lemma fill_style_idem o : fill_style (Some (fill_style o)) = fill_style o.
Proof. unfold fill_style. destruct o as [st|]; [destruct (s_title st), (s_text st)|]; reflexivity. Qed.

Lemma fill_text_idem t : fill_text (fill_text t) = fill_text t.
Proof. unfold fill_text; cbn [x_int x_fmt x_sicon x_micon x_title x_solid x_l1 x_l2 x_int2 x_pair x_scale x_style x_inv x_pix x_bg]. rewrite fill_style_idem. reflexivity. Qed.

(* the caller's object after the call is [fill_text t]; rendering it again gives the same result *)
Theorem top_refill t W H s b : tile (fill_text t) W H s b = tile t W H s b.
Proof. unfold tile. rewrite fill_text_idem. reflexivity. Qed.

Theorem top_deterministic t W H s b i j : tile t W H s b = Ok i -> tile t W H s b = Ok j -> i = j.
Proof. intros A B. rewrite A in B. apply Ok_inj in B. exact B. Qed.

Theorem top_total t W H s b : exists i, tile t W H s b = Ok i.
Proof. unfold tile. apply tile_total. Qed.

Theorem top_size t W H s b i :
  0 <= W -> 0 <= H -> tile t W H s b = Ok i ->
  size_ok W H (gW (ig i)) (gH (ig i)) (idata i) = true.
Proof. intros HW HH Ht. unfold tile in Ht. exact (tile_size_ok (fill_text t) W H s b i HW HH Ht). Qed.

Theorem top_clipped t W H s b i :
  0 <= W -> 0 <= H -> x_inv t = false -> tile t W H s b = Ok i ->
  forall c r, 0 <= c < 8 * ((W + 7) / 8) -> 0 <= r < H ->
    px ((W + 7) / 8) (idata i) c r = true -> active W H s b c r = true.
Proof.
  intros HW HH Hinv Ht. unfold tile in Ht.
  change (x_inv t) with (x_inv (fill_text t)) in Hinv.
  exact (tile_clipped (fill_text t) W H s b HW HH i Hinv Ht).
Qed.

Theorem top_clip_ok t W H s b i :
  0 <= W -> 0 <= H -> x_inv t = false -> tile t W H s b = Ok i -> clip_ok W H s b (idata i) = true.
Proof.
  intros HW HH Hinv Ht. unfold tile in Ht.
  change (x_inv t) with (x_inv (fill_text t)) in Hinv.
  exact (tile_clip_ok (fill_text t) W H s b HW HH i Hinv Ht).
Qed.

Theorem top_inversion t W H s b i0 i1 :
  0 <= W -> 0 <= H ->
  tile (set_inverted t false) W H s b = Ok i0 -> tile (set_inverted t true) W H s b = Ok i1 ->
  inversion_ok W H (idata i0) (idata i1) = true.
Proof.
  intros HW HH T0 T1. unfold tile in T0, T1.
  change (fill_text (set_inverted t false)) with (set_inverted (fill_text t) false) in T0.
  change (fill_text (set_inverted t true)) with (set_inverted (fill_text t) true) in T1.
  exact (tile_inversion_ok (fill_text t) W H s b i0 i1 HW HH T0 T1).
Qed.

Theorem top_colours t W H s b i :
  color_in_range (x_pix t) = true -> color_in_range (x_bg t) = true ->
  tile t W H s b = Ok i -> colours_ok t (ipixc i) (ibckg i) = true.
Proof.
  intros Rp Rb Ht. unfold tile in Ht.
  change (x_pix t) with (x_pix (fill_text t)) in Rp. change (x_bg t) with (x_bg (fill_text t)) in Rb.
  pose proof (tile_colours (fill_text t) W H s b i Rp Rb Ht) as P.
  unfold colours_ok in *. exact P.
Qed.

Theorem top_rgb t W H s b i :
  0 <= W -> 0 <= H -> tile t W H s b = Ok i ->
  rgb_ok W H (idata i) (ipixc i) (ibckg i) (rgb_slice i) = true.
Proof. intros HW HH Ht. unfold tile in Ht. exact (tile_rgb_ok (fill_text t) W H s b i HW HH Ht). Qed.

Lemma plain_mode_fill t : plain_mode (fill_text t) = plain_mode t.
Proof.
  unfold plain_mode, fill_text; cbn [x_style]. unfold fill_style.
  destruct (x_style t) as [st|]; reflexivity.
Qed.

Lemma centre_tstate_fill t : centre_tstate (fill_text t) = centre_tstate t.
Proof.
  unfold centre_tstate, text_font_of, ufs_of, fill_text; cbn [x_style]. unfold fill_style.
  destruct (x_style t) as [st|]; [destruct (s_text st)|]; reflexivity.
Qed.

Theorem top_oneline t W H s b i :
  0 <= W -> 0 <= H -> 0 <= b -> x_inv t = false -> tile t W H s b = Ok i ->
  oneline_ok t W H s b (idata i) = true.
Proof.
  intros HW HH Hb Hinv Ht. unfold tile in Ht.
  change (x_inv t) with (x_inv (fill_text t)) in Hinv.
  pose proof (oneline_centred (fill_text t) W H s b i HW HH Hb Hinv Ht) as P.
  unfold oneline_ok, oneline_ok_m, oneline_applies, line_width, line_h, size_step in *.
  rewrite plain_mode_fill, centre_tstate_fill in P. exact P.
Qed.

Theorem top_twoline t W H s b i :
  0 <= W -> 0 <= H -> 0 <= b -> x_inv t = false -> tile t W H s b = Ok i ->
  twoline_ok t W H s b (idata i) = true.
Proof.
  intros HW HH Hb Hinv Ht. unfold tile in Ht.
  change (x_inv t) with (x_inv (fill_text t)) in Hinv.
  pose proof (twoline_centred (fill_text t) W H s b i HW HH Hb Hinv Ht) as P.
  unfold twoline_ok, twoline_ok_m, twoline_applies, line_width, line_h, size_step in *.
  rewrite plain_mode_fill, centre_tstate_fill in P. exact P.
Qed.
