(* Batch decoder, value view: a run of chunk lines 0..N of one transfer, fed from ANY state of
   the locals, delivers exactly one image at its last line. *)
From RP Require Import Lib.Base Lib.Sexp Lib.Strings Lib.B64 Model.Gfx.
Open Scope Z_scope.
Open Scope list_scope.

Lemma list_eqb_refl {A} (eqb : A -> A -> bool) (Hr : forall x, eqb x x = true) :
  forall l, list_eqb eqb l l = true.
Proof. induction l; cbn; auto. rewrite Hr, IHl. reflexivity. Qed.

Lemma bytes_eqb_refl l : bytes_eqb l l = true.
Proof. apply list_eqb_refl. apply Z.eqb_refl. Qed.

Lemma list_eqb_eq {A} (eqb : A -> A -> bool) (He : forall x y, eqb x y = true -> x = y) :
  forall a b, list_eqb eqb a b = true -> a = b.
Proof.
  induction a; destruct b; cbn; intros H; try discriminate; auto.
  apply andb_true_iff in H. destruct H as [H1 H2]. f_equal; auto.
Qed.

Lemma bytes_eqb_eq a b : bytes_eqb a b = true -> a = b.
Proof. apply list_eqb_eq. intros x y H. apply Z.eqb_eq. exact H. Qed.

(* batch_gfx_from with the final state *)
Fixpoint bsteps (st : gstate) (pos : Z) (ls : list (list Z)) : list (Z * (list Z * gfx)) * gstate :=
  match ls with
  | [] => ([], st)
  | l :: r =>
    let '(st', d) := gfx_line_step st l in
    let '(ds, fin) := bsteps st' (pos + 1) r in
    (match d with Some m => (pos, m) :: ds | None => ds end, fin)
  end.

Lemma batch_gfx_from_bsteps : forall ls st pos, batch_gfx_from st pos ls = fst (bsteps st pos ls).
Proof.
  induction ls as [|l r IH]; intros st pos; cbn [batch_gfx_from bsteps]; auto.
  destruct (gfx_line_step st l) as [st' d].
  specialize (IH st' (pos + 1)). destruct (bsteps st' (pos + 1) r) as [ds fin].
  cbn [fst] in *. destruct d; rewrite IH; reflexivity.
Qed.

Lemma bsteps_app : forall a b st pos,
  bsteps st pos (a ++ b) =
  let '(da, sa) := bsteps st pos a in
  let '(db, sb) := bsteps sa (pos + zlen a) b in (da ++ db, sb).
Proof.
  induction a as [|l r IH]; intros b st pos.
  - cbn [app bsteps]. replace (pos + zlen []) with pos by (unfold zlen; cbn; lia).
    destruct (bsteps st pos b). reflexivity.
  - cbn [app bsteps]. destruct (gfx_line_step st l) as [st' d].
    rewrite IH. destruct (bsteps st' (pos + 1) r) as [da sa].
    replace (pos + zlen (l :: r)) with (pos + 1 + zlen r) by (unfold zlen; cbn [length]; lia).
    destruct (bsteps sa (pos + 1 + zlen r) b) as [db sb].
    destruct d; reflexivity.
Qed.

(* a line that is chunk i of transfer (cmd, lst) *)
Definition is_chunk (cmd lst : list Z) (i : Z) (l : list Z) (sm : gfx_sm) : Prop :=
  gfx_match l = Some sm /\ sm_cmd sm = cmd /\ sm_list sm = lst /\ sm_index sm = i.

(* lines = chunks k+1 .. N, with their decoded payloads *)
Inductive tail_run (cmd lst : list Z) : Z -> Z -> list (list Z) -> list Z -> Prop :=
| tr_nil N : tail_run cmd lst N N [] []
| tr_cons k N l sm r d :
    k < N -> is_chunk cmd lst (k + 1) l sm -> tail_run cmd lst (k + 1) N r d ->
    tail_run cmd lst k N (l :: r) (b64_decode (sm_payload sm) ++ d).

Lemma gfx_append_app g a b : gfx_append (gfx_append g a) b = gfx_append g (a ++ b).
Proof. unfold gfx_append. cbn. rewrite app_assoc. reflexivity. Qed.

Lemma tail_run_len cmd lst k N ls d : tail_run cmd lst k N ls d -> zlen ls = N - k.
Proof.
  induction 1; unfold zlen in *; cbn [length]; lia.
Qed.

Definition idle_after (N : Z) (lst : list Z) (ty : Z) : gstate := mkG gfx_empty (-1) N lst ty.

Lemma tail_run_bsteps cmd lst : forall k N ls d,
  tail_run cmd lst k N ls d -> 0 <= k -> k < N -> forall img pos,
  bsteps (mkG img k N lst (type_of_cmd cmd)) pos ls =
  ([(pos + (N - k - 1), (int_explode lst, gfx_append img d))], idle_after N lst (type_of_cmd cmd)).
Proof.
  induction 1 as [N | k N l sm r d Hk [Hm [Hc [Hl Hi]]] Hr IH]; intros Hk0 HkN img pos; [lia|].
  cbn [bsteps]. unfold gfx_line_step. rewrite Hm. unfold gfx_step.
  rewrite Hi. replace (k + 1 =? 0) with false by (symmetry; apply Z.eqb_neq; lia).
  cbn [gs_type gs_list gs_count gs_max gs_img].
  rewrite Hc, Z.eqb_refl, Hl, bytes_eqb_refl, Z.eqb_refl.
  destruct (k + 1 =? N) eqn:E.
  - apply Z.eqb_eq in E. subst N. inversion Hr; subst; [|lia].
    cbn [bsteps]. rewrite app_nil_r. replace (pos + (k + 1 - k - 1)) with pos by lia. reflexivity.
  - apply Z.eqb_neq in E.
    rewrite (IH ltac:(lia) ltac:(lia)). rewrite gfx_append_app.
    replace (pos + 1 + (N - (k + 1) - 1)) with (pos + (N - k - 1)) by lia. reflexivity.
Qed.

(* chunks 0..N of one transfer *)
Definition full_run (cmd lst : list Z) (N : Z) (ls : list (list Z)) (sm0 : gfx_sm) (d : list Z) : Prop :=
  exists l0 r dr, ls = l0 :: r /\ is_chunk cmd lst 0 l0 sm0 /\ sm_max sm0 = N /\ 0 <= N
                  /\ tail_run cmd lst 0 N r dr /\ d = b64_decode (sm_payload sm0) ++ dr.

Lemma full_run_len cmd lst N ls sm0 d : full_run cmd lst N ls sm0 d -> zlen ls = N + 1.
Proof.
  intros [l0 [r [dr [-> [_ [_ [_ [Ht _]]]]]]]]. apply tail_run_len in Ht.
  unfold zlen in *. cbn [length]. lia.
Qed.

Theorem full_run_bsteps cmd lst N ls sm0 d :
  full_run cmd lst N ls sm0 d -> forall st pos,
  bsteps st pos ls =
  ([(pos + N, (int_explode lst, gfx_append (sm_new_image sm0) d))], idle_after N lst (type_of_cmd cmd)).
Proof.
  intros [l0 [r [dr [-> [[Hm [Hc [Hl Hi]]] [Hmax [HN [Ht ->]]]]]]]] st pos.
  cbn [bsteps]. unfold gfx_line_step. rewrite Hm. unfold gfx_step.
  rewrite Hi. change (0 =? 0) with true. cbn [gs_type gs_list gs_count gs_max gs_img].
  rewrite Hc, Z.eqb_refl, Hl, bytes_eqb_refl, Hmax.
  change (-1 + 1) with 0. change (0 =? 0) with true. cbn iota.
  destruct (0 =? N) eqn:E.
  - apply Z.eqb_eq in E. subst N. inversion Ht; subst; [|lia].
    cbn [bsteps]. rewrite app_nil_r, Z.add_0_r. reflexivity.
  - apply Z.eqb_neq in E.
        rewrite (tail_run_bsteps cmd lst 0 N r dr Ht ltac:(lia) ltac:(lia)).
    rewrite gfx_append_app. replace (pos + 1 + (N - 0 - 1)) with (pos + N) by lia. reflexivity.
Qed.

(* lines the graphics regex does not match leave the locals alone and deliver nothing *)
Lemma bsteps_other : forall ls st pos,
  Forall (fun l => gfx_match l = None) ls -> bsteps st pos ls = ([], st).
Proof.
  induction ls as [|l r IH]; intros st pos H; [reflexivity|].
  inversion H; subst. cbn [bsteps]. unfold gfx_line_step. rewrite H2.
  rewrite (IH st (pos + 1) H3). reflexivity.
Qed.
