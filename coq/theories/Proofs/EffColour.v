(* Requested colour vs EFFECTIVE colour: every drawing operation of Model/Mono.v looks at its colour
   argument and at the canvas's inversion flag only through their exclusive-or.  Flipping both gives
   the same buffer; in particular no operation can depend on the REQUESTED colour alone.
   (Seed C16-12 showed why this is worth stating: a "canvas still blank" shortcut that was reset by the
   requested colour skipped a clearing FillRect after drawing under inversion.)

   EqF f f' : the two buffer transformers agree on every buffer; built compositionally from draw_pixel
   like TailW in TailProofs.v. *)
From RP Require Import Lib.Base Model.Mono.
Open Scope Z_scope.
Open Scope list_scope.

Definition flip (g : geom) : geom := set_inv g (negb (ginv g)).

Definition EqF (f f' : list Z -> list Z) : Prop := forall d, f d = f' d.

Lemma EqF_refl f : EqF f f.
Proof. intros d; reflexivity. Qed.

Lemma EqF_comp f1 f1' f2 f2' : EqF f1 f1' -> EqF f2 f2' -> EqF (fun d => f2 (f1 d)) (fun d => f2' (f1' d)).
Proof. intros H1 H2 d. rewrite H1. apply H2. Qed.

Lemma EqF_if (b : bool) f1 f1' f2 f2' : EqF f1 f1' -> EqF f2 f2' ->
  EqF (fun d => if b then f1 d else f2 d) (fun d => if b then f1' d else f2' d).
Proof. intros H1 H2 d. destruct b; auto. Qed.

Lemma EqF_iter f f' n : forall s, (forall k, EqF (f k) (f' k)) -> EqF (iter_up n s f) (iter_up n s f').
Proof.
  induction n as [|n IH]; intros s H d; simpl; [reflexivity|]. rewrite (H s d). apply IH. exact H.
Qed.

Lemma EqF_for_range f f' s n : (forall k, EqF (f k) (f' k)) -> EqF (for_range s n f) (for_range s n f').
Proof. intros H. unfold for_range. apply EqF_iter. exact H. Qed.

(* ---- the one primitive ---- *)
Lemma flip_pixel g x y c : EqF (draw_pixel (flip g) x y (negb c)) (draw_pixel g x y c).
Proof.
  intros d. unfold draw_pixel, flip, set_inv, width_max, height_max. cbn [gbx gby gbw gbh gW gH gwib ginv].
  replace (xorb (negb c) (negb (ginv g))) with (xorb c (ginv g)) by (destruct c, (ginv g); reflexivity).
  reflexivity.
Qed.

Lemma flip_vline g x y h c : EqF (vline (flip g) x y h (negb c)) (vline g x y h c).
Proof. unfold vline. apply EqF_for_range. intros k. apply flip_pixel. Qed.
Lemma flip_hline g x y w c : EqF (hline (flip g) x y w (negb c)) (hline g x y w c).
Proof. unfold hline. apply EqF_for_range. intros k. apply flip_pixel. Qed.
Lemma flip_fill_rect g x y w h c : EqF (fill_rect (flip g) x y w h (negb c)) (fill_rect g x y w h c).
Proof. unfold fill_rect. apply EqF_for_range. intros k. apply flip_vline. Qed.

Lemma flip_pp g (b : bool) x1 y1 x2 y2 c :
  EqF (fun d => if b then draw_pixel (flip g) x2 y2 (negb c) (draw_pixel (flip g) x1 y1 (negb c) d) else d)
      (fun d => if b then draw_pixel g x2 y2 c (draw_pixel g x1 y1 c d) else d).
Proof.
  apply (EqF_if b _ _ (fun d => d) (fun d => d)); [|apply EqF_refl].
  apply (EqF_comp (draw_pixel (flip g) x1 y1 (negb c)) (draw_pixel g x1 y1 c)
                  (draw_pixel (flip g) x2 y2 (negb c)) (draw_pixel g x2 y2 c)); apply flip_pixel.
Qed.

Lemma flip_corner_pixels g x0 y0 x y corner c :
  EqF (corner_pixels (flip g) x0 y0 x y corner (negb c)) (corner_pixels g x0 y0 x y corner c).
Proof.
  unfold corner_pixels. intros d.
  rewrite (flip_pp g (Z.land corner 4 >? 0) _ _ _ _ c d).
  rewrite (flip_pp g (Z.land corner 2 >? 0) _ _ _ _ c _).
  rewrite (flip_pp g (Z.land corner 8 >? 0) _ _ _ _ c _).
  rewrite (flip_pp g (Z.land corner 1 >? 0) _ _ _ _ c _).
  reflexivity.
Qed.

Lemma EqF_circle_loop body body' :
  (forall x y, EqF (body x y) (body' x y)) ->
  forall fuel f ddx ddy x y, EqF (circle_loop fuel body f ddx ddy x y) (circle_loop fuel body' f ddx ddy x y).
Proof.
  intros Hb fuel; induction fuel as [|fuel IH]; intros f ddx ddy x y d; simpl; [reflexivity|].
  destruct (x <? y); [|reflexivity].
  destruct (f >=? 0); rewrite Hb; apply IH.
Qed.

Lemma flip_circle_helper g x0 y0 r corner c :
  EqF (circle_helper (flip g) x0 y0 r corner (negb c)) (circle_helper g x0 y0 r corner c).
Proof. unfold circle_helper. apply EqF_circle_loop. intros. apply flip_corner_pixels. Qed.

Lemma flip_vv g (b : bool) x1 y1 h1 x2 y2 h2 c :
  EqF (fun d => if b then vline (flip g) x2 y2 h2 (negb c) (vline (flip g) x1 y1 h1 (negb c) d) else d)
      (fun d => if b then vline g x2 y2 h2 c (vline g x1 y1 h1 c d) else d).
Proof.
  apply (EqF_if b _ _ (fun d => d) (fun d => d)); [|apply EqF_refl].
  apply (EqF_comp (vline (flip g) x1 y1 h1 (negb c)) (vline g x1 y1 h1 c)
                  (vline (flip g) x2 y2 h2 (negb c)) (vline g x2 y2 h2 c)); apply flip_vline.
Qed.

Lemma flip_fill_corner_lines g x0 y0 x y corner delta c :
  EqF (fill_corner_lines (flip g) x0 y0 x y corner delta (negb c)) (fill_corner_lines g x0 y0 x y corner delta c).
Proof.
  unfold fill_corner_lines. intros d.
  rewrite (flip_vv g (Z.land corner 1 >? 0) _ _ _ _ _ _ c d).
  rewrite (flip_vv g (Z.land corner 2 >? 0) _ _ _ _ _ _ c _).
  reflexivity.
Qed.

Lemma flip_fill_circle_helper g x0 y0 r corner delta c :
  EqF (fill_circle_helper (flip g) x0 y0 r corner delta (negb c)) (fill_circle_helper g x0 y0 r corner delta c).
Proof. unfold fill_circle_helper. apply EqF_circle_loop. intros. apply flip_fill_corner_lines. Qed.

Lemma flip_round_rect g x y w h r c : EqF (round_rect (flip g) x y w h r (negb c)) (round_rect g x y w h r c).
Proof.
  unfold round_rect. intros d.
  rewrite (flip_hline g _ _ _ c d), (flip_hline g _ _ _ c _), (flip_vline g _ _ _ c _), (flip_vline g _ _ _ c _).
  rewrite (flip_circle_helper g _ _ _ 1 c _), (flip_circle_helper g _ _ _ 2 c _), (flip_circle_helper g _ _ _ 4 c _).
  apply flip_circle_helper.
Qed.

Lemma flip_fill_round_rect g x y w h r c :
  EqF (fill_round_rect (flip g) x y w h r (negb c)) (fill_round_rect g x y w h r c).
Proof.
  unfold fill_round_rect. intros d.
  rewrite (flip_fill_rect g _ _ _ _ c d), (flip_fill_circle_helper g _ _ _ 1 _ c _).
  apply flip_fill_circle_helper.
Qed.

Lemma flip_draw_bitmap g x y bm w h c inverted all :
  EqF (draw_bitmap (flip g) x y bm w h (negb c) inverted all) (draw_bitmap g x y bm w h c inverted all).
Proof.
  unfold draw_bitmap. apply EqF_for_range. intros j. apply EqF_for_range. intros i d.
  destruct (zlen bm >? j * gdiv (w + 7) 8 + gdiv i 8); [|reflexivity].
  match goal with |- (if ?b then _ else _) = _ => destruct b end; [|reflexivity].
  match goal with |- draw_pixel _ _ _ (xorb (negb c) ?q) _ = _ =>
    replace (xorb (negb c) q) with (negb (xorb c q)) by (destruct c, q; reflexivity) end.
  apply flip_pixel.
Qed.

Lemma flip_block g x y sh sv c : EqF (block (flip g) x y sh sv (negb c)) (block g x y sh sv c).
Proof. unfold block. intros d. destruct ((sh =? 1) && (sv =? 1)); [apply flip_pixel | apply flip_fill_rect]. Qed.

Lemma flip_draw_char g t x y ch col bg sh sv :
  EqF (draw_char (flip g) t x y ch (negb col) (negb bg) sh sv) (draw_char g t x y ch col bg sh sv).
Proof.
  unfold draw_char, get_bwidth, flip, set_inv. cbn [gbw gW gH]. fold (set_inv g (negb (ginv g))). fold (flip g).
  intros d.
  match goal with |- (if ?b then _ else _) = _ => destruct b end; [reflexivity|].
  revert d. apply EqF_for_range. intros i. apply EqF_for_range. intros j d.
  destruct (Z.testbit _ j); [apply flip_block|].
  replace (Bool.eqb (negb bg) (negb col)) with (Bool.eqb bg col) by (destruct bg, col; reflexivity).
  destruct (negb (Bool.eqb bg col)); [apply flip_block | reflexivity].
Qed.

(* ---- text: colour and background of the text state flipped as well ---- *)
Definition flip_t (t : tstate) : tstate :=
  mkT (tfont t) (tprop t) (tspacing t) (tcx t) (tcy t) (negb (tcol t)) (negb (tbg t)) (tsh t) (tsv t) (twrap t).

Definition flip_td (td : tstate * list Z) : tstate * list Z := (flip_t (fst td), snd td).

Lemma char_width_flip_t t c : char_width (flip_t t) c = char_width t c.
Proof. reflexivity. Qed.

(* DrawChar reads font, mode and size of the text state, never its colours (they are arguments) *)
Lemma draw_char_flip_t g t x y ch col bg sh sv d :
  draw_char g (flip_t t) x y ch col bg sh sv d = draw_char g t x y ch col bg sh sv d.
Proof. reflexivity. Qed.

Lemma flip_write_char g td c : write_char (flip g) (flip_td td) c = flip_td (write_char g td c).
Proof.
  destruct td as [t d]. unfold flip_td, write_char. cbn [fst snd].
  destruct (c =? 10); [reflexivity|]. destruct (c =? 13); [reflexivity|].
  cbn [flip_t tcx tcy tcol tbg tsh tsv tfont tspacing twrap].
  fold (flip_t t).
  assert (Hd : draw_char (flip g) (flip_t t) (tcx t) (tcy t) c (negb (tcol t)) (negb (tbg t)) (tsh t) (tsv t) d
             = draw_char g t (tcx t) (tcy t) c (tcol t) (tbg t) (tsh t) (tsv t) d).
  { transitivity (draw_char (flip g) t (tcx t) (tcy t) c (negb (tcol t)) (negb (tbg t)) (tsh t) (tsv t) d);
      [reflexivity | apply flip_draw_char]. }
  rewrite Hd.
  rewrite char_width_flip_t.
  unfold get_bwidth, flip, set_inv. cbn [gbw gW].
  destruct (twrap t && _); reflexivity.
Qed.

Lemma flip_render_chars g cs : forall td, render_chars (flip g) cs (flip_td td) = flip_td (render_chars g cs td).
Proof.
  unfold render_chars. induction cs as [|c cs IH]; intros td; [reflexivity|].
  cbn [fold_left]. rewrite flip_write_char. apply IH.
Qed.

Lemma flip_render_text g s td : render_text (flip g) s (flip_td td) = flip_td (render_text g s td).
Proof. unfold render_text. apply flip_render_chars. Qed.

(* ---- operations as data ---- *)
Definition flip_op (o : op) : op :=
  match o with
  | OPixel x y c => OPixel x y (negb c)
  | OHLine x y w c => OHLine x y w (negb c)
  | OVLine x y h c => OVLine x y h (negb c)
  | OFillRect x y w h c => OFillRect x y w h (negb c)
  | ORoundRect x y w h r c => ORoundRect x y w h r (negb c)
  | OFillRoundRect x y w h r c => OFillRoundRect x y w h r (negb c)
  | OCircleHelper x0 y0 r k c => OCircleHelper x0 y0 r k (negb c)
  | OFillCircleHelper x0 y0 r k dl c => OFillCircleHelper x0 y0 r k dl (negb c)
  | OBitmap x y bm w h c iv al => OBitmap x y bm w h (negb c) iv al
  | OChar x y ch c bg sh sv => OChar x y ch (negb c) (negb bg) sh sv
  | OInvert v => OInvert (negb v)
  | OSetTextColor c => OSetTextColor (negb c)
  | o => o
  end.

(* the canvas with inversion flag, text colour and text background flipped; same pixels *)
Definition flip_img (i : img) : img := mkImg (flip (ig i)) (flip_t (it i)) (idata i) (ibckg i) (ipixc i).

Theorem run_op_flip i o : run_op (flip_img i) (flip_op o) = flip_img (run_op i o).
Proof.
  destruct i as [g t d bk px]. unfold flip_img.
  destruct o; cbn [run_op flip_op]; unfold with_data, with_geom, with_t; cbn [ig it idata ibckg ipixc];
    try (f_equal; first [ apply flip_pixel | apply flip_hline | apply flip_vline | apply flip_fill_rect
                        | apply flip_round_rect | apply flip_fill_round_rect | apply flip_circle_helper
                        | apply flip_fill_circle_helper | apply flip_draw_bitmap ]; fail).
  - (* OChar *) f_equal. apply (flip_draw_char g t).
  - (* OText *)
    pose proof (flip_render_text g s (t, d)) as H. unfold flip_td in H. cbn [fst snd] in H.
    rewrite H. destruct (render_text g s (t, d)) as [t' d']. reflexivity.
Qed.

Theorem run_ops_flip ops : forall i, run_ops (flip_img i) (map flip_op ops) = flip_img (run_ops i ops).
Proof.
  unfold run_ops. induction ops as [|o ops IH]; intros i; [reflexivity|].
  cbn [map fold_left]. rewrite run_op_flip. apply IH.
Qed.

(* the pixels of any history are those of the flipped history *)
Corollary ops_flip_pixels i ops : idata (run_ops (flip_img i) (map flip_op ops)) = idata (run_ops i ops).
Proof. rewrite run_ops_flip. reflexivity. Qed.
