(* C20: the pixel function of a whole rendering ([text_val]) and its algebra:
   translation, whole-string scaling, glyph-wise law.  Pure arithmetic; no buffers. *)
From RP Require Import Lib.Base Model.Mono Spec.Clip Spec.TextBox Proofs.ListZ Proofs.PixelProofs Proofs.DrawProofs Proofs.TextGlyph.
From Coq Require Import ZifyBool.
Ltac Zify.zify_post_hook ::= Z.div_mod_to_equations.

(* t's cursor and wrap flag play no role below *)
Definition adv (t : tstate) (c : Z) : Z := tsh t * char_width t c + tspacing t.
Definition lh (t : tstate) : Z := tsv t * font_bbh (tfont t).

Fixpoint text_val (t : tstate) (cs : list Z) (x y a b : Z) : option bool :=
  match cs with
  | [] => None
  | c :: r =>
    if c =? 10 then text_val t r 0 (y + lh t) a b
    else if c =? 13 then text_val t r x y a b
    else match text_val t r (x + adv t c) y a b with
         | Some v => Some v
         | None => cell_val t c (tcol t) (tbg t) (tsh t) (tsv t) x y a b
         end
  end.

Definition sizes_ok (t : tstate) : Prop := 1 <= tsh t /\ 1 <= tsv t /\ 0 <= tspacing t.

Lemma adv_nonneg t c : sizes_ok t -> 0 <= adv t c.
Proof. intros (H1 & H2 & H3). unfold adv. pose proof (char_width_nonneg t c). nia. Qed.

Lemma lh_pos t : sizes_ok t -> 0 < lh t.
Proof. intros (H1 & H2 & H3). unfold lh. pose proof (font_bbh_pos (tfont t)). nia. Qed.

Lemma cell_val_in t c col bg sh sv x y a b v :
  cell_val t c col bg sh sv x y a b = Some v ->
  in_rect x y (char_width t c * sh) (font_bbh (tfont t) * sv) a b = true.
Proof. unfold cell_val. destruct (in_rect _ _ _ _ a b); auto; discriminate. Qed.

(* everything a (rest of a) string draws is right of the cursor on the cursor's line, or below it *)
Lemma text_val_none t cs : sizes_ok t -> forall x y a b,
  b < y \/ (b < y + lh t /\ a < x) -> text_val t cs x y a b = None.
Proof.
  intros Hs. pose proof (lh_pos t Hs) as Hlh.
  induction cs as [|c cs IH]; intros x y a b H; simpl; auto.
  destruct (c =? 10); [apply IH; lia|].
  destruct (c =? 13); [apply IH; lia|].
  pose proof (adv_nonneg t c Hs).
  rewrite IH by lia.
  unfold cell_val, in_rect, lh in *.
  match goal with |- (if ?c then _ else _) = _ => replace c with false by lia end. reflexivity.
Qed.

(* ---- one-line strings ---- *)
Definition no_lf (cs : list Z) : Prop := has_lf cs = false.

Lemma no_lf_cons c cs : no_lf (c :: cs) -> (c =? 10) = false /\ no_lf cs.
Proof. unfold no_lf, has_lf. cbn [existsb]. rewrite Z.eqb_sym. destruct (c =? 10); cbn [orb]; intros H; [discriminate | auto]. Qed.

(* sum of the advances StrWidth adds up (CR included) *)
Fixpoint adv_sum (t : tstate) (cs : list Z) : Z :=
  match cs with [] => 0 | c :: r => (char_width t c * tsh t + tspacing t) + adv_sum t r end.

Lemma adv_sum_nonneg t cs : sizes_ok t -> 0 <= adv_sum t cs.
Proof.
  intros Hs. induction cs as [|c cs IH]; simpl; [lia|].
  pose proof (adv_nonneg t c Hs). unfold adv in *. lia.
Qed.

Lemma str_width_chars_sum t cs : str_width_chars t cs = adv_sum t cs - tsh t.
Proof.
  unfold str_width_chars.
  assert (H : forall acc, fold_left (fun w c => w + (char_width t c * tsh t + tspacing t)) cs acc = acc + adv_sum t cs).
  { induction cs as [|c cs IH]; intros acc; simpl; [lia|]. rewrite IH. lia. }
  rewrite H. lia.
Qed.

(* ink of a one-line string lies in [x, x + adv_sum) x [y, y + lh) *)
Lemma text_val_box t cs : sizes_ok t -> no_lf cs -> forall x y a b v,
  text_val t cs x y a b = Some v -> in_rect x y (adv_sum t cs) (lh t) a b = true.
Proof.
  intros Hs. induction cs as [|c cs IH]; intros Hn x y a b v H; simpl in H; [discriminate|].
  apply no_lf_cons in Hn as [Hc Hn]. rewrite Hc in H.
  pose proof (adv_sum_nonneg t cs Hs) as Hsum. pose proof (adv_nonneg t c Hs) as Hadv.
  unfold adv in Hadv. simpl adv_sum.
  destruct (c =? 13).
  - apply IH in H; auto. unfold in_rect in *. lia.
  - destruct (text_val t cs (x + adv t c) y a b) eqn:E.
    + apply IH in E; auto. unfold in_rect, adv in *. lia.
    + apply cell_val_in in H. unfold in_rect, lh in *. destruct Hs as (? & ? & ?). nia.
Qed.

Lemma text_val_translate t cs : no_lf cs -> forall x y a b dx dy,
  text_val t cs (x + dx) (y + dy) (a + dx) (b + dy) = text_val t cs x y a b.
Proof.
  induction cs as [|c cs IH]; intros Hn x y a b dx dy; simpl; auto.
  apply no_lf_cons in Hn as [Hc Hn]. rewrite Hc.
  destruct (c =? 13); [apply IH; auto|].
  replace (x + dx + adv t c) with (x + adv t c + dx) by lia. rewrite IH by auto.
  unfold cell_val, in_rect.
  replace (a + dx - (x + dx)) with (a - x) by lia. replace (b + dy - (y + dy)) with (b - y) by lia.
  replace ((x + dx <=? a + dx) && (a + dx <? x + dx + char_width t c * tsh t) && (y + dy <=? b + dy) && (b + dy <? y + dy + font_bbh (tfont t) * tsv t))
    with ((x <=? a) && (a <? x + char_width t c * tsh t) && (y <=? b) && (b <? y + font_bbh (tfont t) * tsv t)) by lia.
  reflexivity.
Qed.

(* ---- sizes: the same face at size (1,1) ---- *)
Definition with_size (t : tstate) (h v : Z) : tstate :=
  mkT (tfont t) (tprop t) (tspacing t) (tcx t) (tcy t) (tcol t) (tbg t) h v (twrap t).

Lemma div_window a x w h : 1 <= h -> 0 <= w ->
  ((x <=? a) && (a <? x + w * h)) = ((0 <=? (a - x) / h) && ((a - x) / h <? w)).
Proof.
  intros Hh Hw.
  destruct (Z.leb_spec x a); simpl.
  - assert (0 <= (a - x) / h) by (apply Z.div_pos; lia).
    destruct (Z.ltb_spec a (x + w * h)).
    + assert ((a - x) / h < w) by (apply Z.div_lt_upper_bound; nia). lia.
    + assert (w <= (a - x) / h) by (apply Z.div_le_lower_bound; nia). lia.
  - assert ((a - x) / h < 0) by (apply Z.div_lt_upper_bound; nia). lia.
Qed.

(* a glyph cell at size (h,v) read at (a,b) = the size-1 cell read at the source pixel *)
Lemma cell_val_scale t c h v x y x1 y1 a b :
  1 <= h -> 1 <= v ->
  cell_val t c (tcol t) (tbg t) h v x y a b =
  cell_val (with_size t 1 1) c (tcol t) (tbg t) 1 1 x1 y1 (x1 + (a - x) / h) (y1 + (b - y) / v).
Proof.
  intros Hh Hv. unfold cell_val.
  change (char_width (with_size t 1 1) c) with (char_width t c).
  change (tfont (with_size t 1 1)) with (tfont t).
  change (glyph_val (with_size t 1 1) c) with (glyph_val t c).
  pose proof (char_width_nonneg t c) as Hw. pose proof (font_bbh_pos (tfont t)) as Hb.
  set (w := char_width t c) in *. set (bbh := font_bbh (tfont t)) in *.
  set (i := (a - x) / h). set (j := (b - y) / v).
  assert (E1 : in_rect x y (w * h) (bbh * v) a b = ((0 <=? i) && (i <? w) && ((0 <=? j) && (j <? bbh)))).
  { unfold in_rect. rewrite <- andb_assoc.
    rewrite (div_window a x w h), (div_window b y bbh v) by lia. reflexivity. }
  assert (E2 : in_rect x1 y1 (w * 1) (bbh * 1) (x1 + i) (y1 + j) = ((0 <=? i) && (i <? w) && ((0 <=? j) && (j <? bbh)))).
  { unfold in_rect. lia. }
  rewrite E1, E2.
  replace (x1 + i - x1) with i by lia. replace (y1 + j - y1) with j by lia.
  rewrite !Z.div_1_r. reflexivity.
Qed.

(* whole-string scaling about (cx, cy), character spacing 0 *)
Lemma text_val_scale_s0 t cs cx cy : sizes_ok t -> tspacing t = 0 -> no_lf cs -> forall x a b,
  text_val t cs (cx + (x - cx) * tsh t) cy a b =
  text_val (with_size t 1 1) cs x cy (cx + (a - cx) / tsh t) (cy + (b - cy) / tsv t).
Proof.
  intros Hs Hsp. destruct Hs as (Hh & Hv & _).
  induction cs as [|c cs IH]; intros Hn x a b; simpl; auto.
  apply no_lf_cons in Hn as [Hc Hn]. rewrite Hc.
  destruct (c =? 13); [apply IH; auto|].
  unfold adv at 1 2. change (char_width (with_size t 1 1) c) with (char_width t c).
  change (tsh (with_size t 1 1)) with 1. change (tspacing (with_size t 1 1)) with (tspacing t). rewrite Hsp.
  replace (cx + (x - cx) * tsh t + (tsh t * char_width t c + 0)) with (cx + (x + (1 * char_width t c + 0) - cx) * tsh t) by lia.
  rewrite IH by auto.
  destruct (text_val _ cs _ _ _ _); auto.
  change (tcol (with_size t 1 1)) with (tcol t). change (tbg (with_size t 1 1)) with (tbg t).
  change (tsv (with_size t 1 1)) with 1.
  rewrite (cell_val_scale t c (tsh t) (tsv t) _ cy x cy a b Hh Hv).
  f_equal.
  replace (a - (cx + (x - cx) * tsh t)) with ((a - cx) + (- (x - cx)) * tsh t) by lia.
  rewrite Z.div_add by lia. lia.
Qed.

Lemma text_val_nodrawn t cs : drawn cs = [] -> forall x y a b, text_val t cs x y a b = None.
Proof.
  induction cs as [|c cs IH]; intros Hd x y a b; simpl; auto.
  simpl in Hd. destruct (c =? 13) eqn:E13; destruct (c =? 10) eqn:E10; simpl in Hd; try discriminate; auto.
Qed.

(* ... and for at most one drawn character, any spacing *)
Lemma text_val_scale_one t cs cx cy : sizes_ok t -> no_lf cs -> zlen (drawn cs) <= 1 -> forall a b,
  text_val t cs cx cy a b =
  text_val (with_size t 1 1) cs cx cy (cx + (a - cx) / tsh t) (cy + (b - cy) / tsv t).
Proof.
  intros (Hh & Hv & _).
  induction cs as [|c cs IH]; intros Hn Hd a b; simpl; auto.
  apply no_lf_cons in Hn as [Hc Hn]. rewrite Hc.
  simpl in Hd. rewrite Hc in Hd.
  destruct (c =? 13) eqn:E13; simpl in Hd; [apply IH; auto|].
  assert (Hnil : drawn cs = []).
  { rewrite zlen_cons in Hd. pose proof (zlen_nonneg (drawn cs)). destruct (drawn cs); auto. rewrite zlen_cons in Hd. pose proof (zlen_nonneg l). lia. }
  rewrite !text_val_nodrawn by auto.
  change (tcol (with_size t 1 1)) with (tcol t). change (tbg (with_size t 1 1)) with (tbg t).
  change (tsh (with_size t 1 1)) with 1. change (tsv (with_size t 1 1)) with 1.
  rewrite (cell_val_scale t c (tsh t) (tsv t) cx cy cx cy a b Hh Hv). reflexivity.
Qed.

(* ---- glyph-wise law (all strings, LF and CR included) ---- *)
Definition after (X Y L a b : Z) : Prop := b >= Y + L \/ (b >= Y /\ a >= X).

Lemma src_pixel_after cs : forall ws s h v bbh x y x1 y1 a b a1 b1,
  0 <= s -> 1 <= h -> 1 <= v -> 0 < bbh -> Forall (fun w => 0 <= w) ws ->
  src_pixel cs ws s h v bbh x y x1 y1 a b = Some (a1, b1) ->
  after x y (v * bbh) a b /\ after x1 y1 bbh a1 b1.
Proof.
  induction cs as [|c cs IH]; intros ws s h v bbh x y x1 y1 a b a1 b1 Hs Hh Hv Hb Hws H; simpl in H; [discriminate|].
  destruct ws as [|w ws]; [discriminate|].
  inversion Hws as [|w' ws' Hw Hws']; subst.
  destruct (c =? 10).
  { apply IH in H; auto. unfold after in *. nia. }
  destruct (c =? 13).
  { apply IH in H; auto. }
  destruct (src_pixel cs ws s h v bbh (x + h * w + s) y (x1 + w + s) y1 a b) as [[a' b']|] eqn:E.
  - injection H as <- <-. apply IH in E; auto. unfold after in *. nia.
  - destruct (in_rect x y (w * h) (bbh * v) a b) eqn:Hin; [|discriminate].
    injection H as <- <-. unfold in_rect in Hin. unfold after.
    assert (0 <= (a - x) / h) by (apply Z.div_pos; lia).
    assert (0 <= (b - y) / v) by (apply Z.div_pos; lia).
    split; right; lia.
Qed.

Lemma text_val_glyphwise t cs : sizes_ok t -> forall x y x1 y1 a b,
  text_val t cs x y a b =
  match src_pixel cs (map (char_width t) cs) (tspacing t) (tsh t) (tsv t) (font_bbh (tfont t)) x y x1 y1 a b with
  | Some (a1, b1) => text_val (with_size t 1 1) cs x1 y1 a1 b1
  | None => None
  end.
Proof.
  intros Hs. pose proof Hs as (Hh & Hv & Hsp).
  assert (Hs1 : sizes_ok (with_size t 1 1)) by (unfold sizes_ok; simpl; lia).
  pose proof (font_bbh_pos (tfont t)) as Hb.
  induction cs as [|c cs IH]; intros x y x1 y1 a b; simpl; auto.
  destruct (c =? 10).
  { unfold lh. change (tsv (with_size t 1 1)) with 1. change (tfont (with_size t 1 1)) with (tfont t).
    rewrite (IH 0 (y + tsv t * font_bbh (tfont t)) 0 (y1 + 1 * font_bbh (tfont t))).
    replace (y1 + 1 * font_bbh (tfont t)) with (y1 + font_bbh (tfont t)) by lia. reflexivity. }
  destruct (c =? 13); [apply IH|].
  unfold adv at 1 2. change (char_width (with_size t 1 1) c) with (char_width t c).
  change (tsh (with_size t 1 1)) with 1. change (tspacing (with_size t 1 1)) with (tspacing t).
  change (tcol (with_size t 1 1)) with (tcol t). change (tbg (with_size t 1 1)) with (tbg t).
  change (tsv (with_size t 1 1)) with 1.
  set (w := char_width t c). assert (Hw : 0 <= w) by apply char_width_nonneg.
  rewrite (IH (x + (tsh t * w + tspacing t)) y (x1 + (1 * w + tspacing t)) y1 a b).
  replace (x + (tsh t * w + tspacing t)) with (x + tsh t * w + tspacing t) by lia.
  replace (x1 + (1 * w + tspacing t)) with (x1 + w + tspacing t) by lia.
  destruct (src_pixel cs (map (char_width t) cs) (tspacing t) (tsh t) (tsv t) (font_bbh (tfont t))
              (x + tsh t * w + tspacing t) y (x1 + w + tspacing t) y1 a b) as [[a1 b1]|] eqn:E.
  - (* drawn by a later glyph: not in this cell, on either side *)
    apply src_pixel_after in E as [A1 A2]; auto;
      [|apply Forall_forall; intros w' Hin; apply in_map_iff in Hin as (c' & <- & _); apply char_width_nonneg].
    destruct (text_val (with_size t 1 1) cs (x1 + w + tspacing t) y1 a1 b1); auto.
    unfold cell_val, in_rect. fold w. change (char_width (with_size t 1 1) c) with w.
    change (tfont (with_size t 1 1)) with (tfont t).
    unfold after in *.
    replace ((x <=? a) && (a <? x + w * tsh t) && (y <=? b) && (b <? y + font_bbh (tfont t) * tsv t)) with false by nia.
    replace ((x1 <=? a1) && (a1 <? x1 + w * 1) && (y1 <=? b1) && (b1 <? y1 + font_bbh (tfont t) * 1)) with false by nia.
    reflexivity.
  - destruct (in_rect x y (w * tsh t) (font_bbh (tfont t) * tsv t) a b) eqn:Hin.
    + unfold in_rect in Hin.
      rewrite (text_val_none (with_size t 1 1) cs Hs1).
      2:{ right. unfold lh. change (tsv (with_size t 1 1)) with 1. change (tfont (with_size t 1 1)) with (tfont t).
          assert ((a - x) / tsh t < w) by (apply Z.div_lt_upper_bound; nia).
          assert ((b - y) / tsv t < font_bbh (tfont t)) by (apply Z.div_lt_upper_bound; nia). lia. }
      apply cell_val_scale; auto.
    + unfold cell_val. fold w. rewrite Hin. reflexivity.
Qed.
