(* C18 clip: a non-inverted tile lights no pixel outside the active area left by shrink and
   border (padding bits included). *)
From RP Require Import Lib.Base Lib.Utf8 Gen.Tables Model.Mono Model.Tile Spec.Clip Spec.Tile
  Proofs.ListZ Proofs.PixelProofs Proofs.DrawProofs Proofs.OpsProofs Proofs.TileBasic Proofs.TileInv.
From Coq Require Import ZifyBool.
Ltac Zify.zify_post_hook ::= Z.div_mod_to_equations.

(* su.Qint(shrink&1 > 0, 1, 0) is bit 0 of shrink, su.Qint(shrink&2 > 0, 1, 0) is bit 1 *)
Lemma land_pow2 s k : 0 <= k -> Z.land s (2 ^ k) = if Z.testbit s k then 2 ^ k else 0.
Proof.
  intros Hk. apply Z.bits_inj'. intros n Hn.
  rewrite Z.land_spec, Z.pow2_bits_eqb by lia.
  destruct (Z.eqb_spec k n) as [->|Hne].
  - destruct (Z.testbit s n); [rewrite Z.pow2_bits_eqb by lia; rewrite Z.eqb_refl; reflexivity | rewrite Z.bits_0; reflexivity].
  - rewrite andb_false_r. destruct (Z.testbit s k); [rewrite Z.pow2_bits_eqb by lia; destruct (Z.eqb_spec k n); [lia|reflexivity] | rewrite Z.bits_0; reflexivity].
Qed.

Lemma shrink_w_eq s : qint (Z.land s 1 >? 0) 1 0 = shrink_w s.
Proof.
  unfold shrink_w, qint. change 1 with (2 ^ 0) at 1. rewrite land_pow2 by lia.
  destruct (Z.testbit s 0); reflexivity.
Qed.
Lemma shrink_h_eq s : qint (Z.land s 2 >? 0) 1 0 = shrink_h s.
Proof.
  unfold shrink_h, qint. change 2 with (2 ^ 1) at 1. rewrite land_pow2 by lia.
  destruct (Z.testbit s 1); reflexivity.
Qed.

Lemma paw_eq t W H s b : paw (params t W H s b) = qint (b >? 0) (W - b * 2) (W - shrink_w s).
Proof. unfold params; cbn [paw]. rewrite shrink_w_eq. reflexivity. Qed.
Lemma pah_eq t W H s b : pah (params t W H s b) = qint (b >? 0) (H - b * 2) (H - shrink_h s).
Proof. unfold params; cbn [pah]. rewrite shrink_h_eq. reflexivity. Qed.

(* the state after the prologue *)
Definition geom0 (W H : Z) : geom := mkGeom W H (ceil_div8 W) W H 0 0 false.

Lemma run_prologue W H bg pc v p :
  run_ops (canvas W H bg pc) (prologue v p) =
  mkImg (set_bbox (set_inv (geom0 W H) v) (pborder p) (pborder p) (paw p) (pah p)) (tile_t0 p)
        (fill_rect (set_inv (geom0 W H) v) 0 0 (pW p) (pH p) false (zrepeat 0 (ceil_div8 W * H))) bg pc.
Proof. reflexivity. Qed.

Lemma geom0_wf W H : 0 <= W -> 0 <= H -> wfg (geom0 W H) (zrepeat 0 (ceil_div8 W * H)).
Proof. intros HW HH. exact (wfg_new_image W H HW HH). Qed.

Section Clip.
Variables (t : mtext) (W H s b : Z).
Hypothesis HW : 0 <= W.
Hypothesis HH : 0 <= H.
Let p := params t W H s b.
Let wib := (W + 7) / 8.
Let g1 := set_bbox (geom0 W H) b b (paw p) (pah p).

Lemma pW_p : pW p = W. Proof. reflexivity. Qed.
Lemma pH_p : pH p = H. Proof. reflexivity. Qed.
Lemma pborder_p : pborder p = b. Proof. reflexivity. Qed.

(* 1. after the prologue (inversion off) every pixel is off *)
Lemma after_prologue bg pc :
  let i1 := run_ops (canvas W H bg pc) (prologue false p) in
  wf_img i1 /\ ig i1 = g1 /\
  forall c r, 0 <= c < 8 * wib -> 0 <= r < H -> px wib (idata i1) c r = false.
Proof.
  cbv zeta. rewrite run_prologue, pW_p, pH_p, pborder_p.
  change (set_inv (geom0 W H) false) with (geom0 W H).
  destruct (Paint_fill_rect (geom0 W H) 0 0 W H false _ (geom0_wf W H HW HH)) as [Wf E].
  unfold wf_img; cbn [ig idata].
  split; [exact Wf|]. split; [reflexivity|].
  intros c r Hc Hr.
  change (gwib (geom0 W H)) with (ceil_div8 W) in E. rewrite (ceil_div8_nonneg W HW) in E |- *. fold wib in E |- *.
  rewrite E by (auto; exact Hr).
  rewrite px_zeros. destruct (_ && _); reflexivity.
Qed.

(* 2. the body only lights pixels inside the clip rectangle of the bounding box *)
Lemma after_body bg pc :
  let i2 := run_ops (run_ops (canvas W H bg pc) (prologue false p)) (map op_of (tile_body t W H s b)) in
  wf_img i2 /\ ig i2 = g1 /\
  forall c r, 0 <= c < 8 * wib -> 0 <= r < H -> px wib (idata i2) c r = true -> in_clip g1 c r = true.
Proof.
  cbv zeta.
  destruct (after_prologue bg pc) as (Wf1 & Eg1 & Z1).
  set (i1 := run_ops (canvas W H bg pc) (prologue false p)) in *.
  pose proof (plain_map_op_of (tile_body t W H s b)) as Hp.
  destruct (ops_frame (map op_of (tile_body t W H s b)) i1 Wf1) as (Wf2 & _ & _ & _ & _ & _).
  split; [exact Wf2|]. split; [rewrite plain_ops_geom by exact Hp; exact Eg1|].
  intros c r Hc Hr Hpx.
  assert (Hwib : gwib (ig i1) = wib).
  { rewrite Eg1. change (gwib g1) with (ceil_div8 W). apply ceil_div8_nonneg; exact HW. }
  rewrite <- Eg1. apply (plain_ops_touch _ i1 Wf1 Hp c r).
  - unfold in_buffer. rewrite Hwib, Eg1. split; [exact Hc | exact Hr].
  - rewrite Hwib, Hpx, (Z1 c r Hc Hr). discriminate.
Qed.

(* 3. the epilogue clears rows [0,b) and columns [0,b) and lights nothing *)
Lemma after_epilogue i2 :
  wf_img i2 -> ig i2 = g1 ->
  let i3 := run_ops i2 (epilogue p) in
  forall c r, 0 <= c < 8 * wib -> 0 <= r < H -> px wib (idata i3) c r = true ->
    px wib (idata i2) c r = true /\ (b > 0 -> c < W -> b <= c /\ b <= r).
Proof.
  intros Wf2 Eg2. cbv zeta. unfold epilogue. rewrite pborder_p, pW_p, pH_p.
  destruct (Z.gtb_spec b 0) as [Hb|Hb].
  2:{ intros c r Hc Hr Hpx. split; [exact Hpx | lia]. }
  set (gF := set_bbox g1 0 0 W H).
  assert (Hrun : idata (run_ops i2 [OSetBBox 0 0 W H; OFillRect 0 0 W b false; OFillRect 0 0 b H false; OSetBBox b b (paw p) (pah p)])
                 = fill_rect gF 0 0 b H false (fill_rect gF 0 0 W b false (idata i2))).
  { unfold run_ops; cbn [fold_left run_op with_geom with_data ig idata]. rewrite Eg2. reflexivity. }
  rewrite Hrun.
  assert (WfF : wfg gF (idata i2)).
  { unfold wf_img in Wf2. rewrite Eg2 in Wf2. exact Wf2. }
  destruct (Paint_fill_rect gF 0 0 W b false _ WfF) as [WfA EA].
  destruct (Paint_fill_rect gF 0 0 b H false _ WfA) as [_ EB].
  change (gwib gF) with (ceil_div8 W) in EA, EB. rewrite (ceil_div8_nonneg W HW) in EA, EB. fold wib in EA, EB.
  change (gH gF) with H in EA, EB. change (gbx gF) with 0 in EA, EB. change (gby gF) with 0 in EA, EB.
  change (ginv gF) with false in EA, EB.
  intros c r Hc Hr Hpx.
  rewrite EB, EA in Hpx by auto.
  assert (Hcl : c < W -> in_clip gF c r = true).
  { intros HcW. unfold in_clip. change (gW gF) with W. change (gH gF) with H.
    change (gbx gF) with 0. change (gby gF) with 0. change (gbw gF) with W. change (gbh gF) with H. lia. }
  destruct (in_rect 0 0 b H (c - 0) (r - 0) && in_clip gF c r) eqn:EB1; [discriminate|].
  destruct (in_rect 0 0 W b (c - 0) (r - 0) && in_clip gF c r) eqn:EA1; [discriminate|].
  split; [exact Hpx|].
  intros _ HcW. specialize (Hcl HcW). rewrite Hcl in EB1, EA1. unfold in_rect in EB1, EA1. lia.
Qed.

Theorem tile_clipped i :
  x_inv t = false -> tile_filled t W H s b = Ok i ->
  forall c r, 0 <= c < 8 * wib -> 0 <= r < H ->
    px wib (idata i) c r = true -> active W H s b c r = true.
Proof.
  intros Hinv Ht.
  destruct (tile_eq t W H s b) as (bg & pc & E). rewrite E in Ht. apply Ok_inj in Ht. subst i.
  unfold tile_ops. fold p. rewrite Hinv, !run_ops_app.
  destruct (after_body bg pc) as (Wf2 & Eg2 & B).
  set (i2 := run_ops (run_ops (canvas W H bg pc) (prologue false p)) (map op_of (tile_body t W H s b))) in *.
  intros c r Hc Hr Hpx.
  destruct (after_epilogue i2 Wf2 Eg2 c r Hc Hr Hpx) as [Hpx2 Hedge].
  specialize (B c r Hc Hr Hpx2).
  unfold in_clip in B. change (gW g1) with W in B. change (gH g1) with H in B.
  change (gbx g1) with b in B. change (gby g1) with b in B.
  change (gbw g1) with (paw p) in B. change (gbh g1) with (pah p) in B.
  unfold p in B. rewrite paw_eq, pah_eq in B.
  unfold active.
  pose proof (shrink_w_eq s) as Sw. pose proof (shrink_h_eq s) as Sh.
  assert (0 <= shrink_w s <= 1) by (unfold shrink_w; destruct (Z.testbit s 0); lia).
  assert (0 <= shrink_h s <= 1) by (unfold shrink_h; destruct (Z.testbit s 1); lia).
  unfold qint in B.
  destruct (Z.gtb_spec b 0) as [Hb|Hb].
  - assert (HcW : c < W) by lia. assert (Hb' : b > 0) by lia. specialize (Hedge Hb' HcW). lia.
  - lia.
Qed.

Corollary tile_clip_ok i :
  x_inv t = false -> tile_filled t W H s b = Ok i -> clip_ok W H s b (idata i) = true.
Proof.
  intros Hinv Ht. unfold clip_ok. apply all_cells_spec. intros c r Hc Hr.
  change (wib_of W) with wib in *.
  destruct (px wib (idata i) c r) eqn:Hpx; [|apply orb_true_r].
  rewrite (tile_clipped i Hinv Ht c r Hc Hr Hpx). reflexivity.
Qed.
End Clip.
