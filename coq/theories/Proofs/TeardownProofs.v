(* Cancellation always gets ConnectToPanel out of a connection, whatever the panel does - since /repo
   02bcd7d.  Before that commit it did not (finding F19): with the writer blocked in conn.Write the only
   code that closes the socket on ctx.Done() was unreachable.  Model/Teardown.v; the state space is
   finite, the reachable set is computed and every statement about "all reachable states" is a
   [forallb] over it, closed under the step relation (reach_closed) - a proof, not a sample. *)
From RP Require Import Lib.Base Model.Teardown.
From Coq Require Import Bool Arith Lia.
Open Scope nat_scope.
Open Scope list_scope.

(* ---- decidable equality reflects ---- *)
Lemma rpc_eqb_eq a b : rpc_eqb a b = true -> a = b.
Proof. destruct a, b; cbn; try discriminate; try reflexivity. intro H. apply eqb_prop in H. subst. reflexivity. Qed.
Lemma gpc_eqb_eq a b : gpc_eqb a b = true -> a = b.
Proof. destruct a, b; cbn; try discriminate; reflexivity. Qed.
Lemma tst_eqb_eq a b : tst_eqb a b = true -> a = b.
Proof.
  destruct a, b. unfold tst_eqb. cbn.
  rewrite !andb_true_iff. intros [[[[[[[H1 H2] H3] H4] H5] H6] H7] H8].
  apply rpc_eqb_eq in H1. apply gpc_eqb_eq in H2. apply gpc_eqb_eq in H3.
  apply eqb_prop in H4. apply eqb_prop in H5. apply eqb_prop in H6. apply eqb_prop in H7.
  apply Nat.eqb_eq in H8. subst. reflexivity.
Qed.
Lemma mem_t_In x l : mem_t x l = true -> In x l.
Proof.
  unfold mem_t. intro H. apply existsb_exists in H. destruct H as [y [Hy He]].
  apply tst_eqb_eq in He. subst. exact Hy.
Qed.

(* ---- reachability ---- *)
Inductive Reachable (w : bool) : tst -> Prop :=
| R_init : Reachable w (tinit w)
| R_int s s' : Reachable w s -> In s' (internal s) -> Reachable w s'
| R_env s s' : Reachable w s -> In s' (env s) -> Reachable w s'.

Definition closed_b (l : list tst) : bool :=
  forallb (fun s => forallb (fun s' => mem_t s' l) (internal s ++ env s)) l.

Lemma reach_closed w : closed_b (reach w) = true.
Proof. destruct w; vm_compute; reflexivity. Qed.

Lemma reach_init w : mem_t (tinit w) (reach w) = true.
Proof. destruct w; vm_compute; reflexivity. Qed.

Theorem reachable_in_reach w s : Reachable w s -> In s (reach w).
Proof.
  induction 1 as [|s s' _ IH Hin|s s' _ IH Hin].
  - apply mem_t_In, reach_init.
  - pose proof (reach_closed w) as Hc. unfold closed_b in Hc. rewrite forallb_forall in Hc.
    specialize (Hc s IH). rewrite forallb_forall in Hc. apply mem_t_In, Hc, in_or_app. left; exact Hin.
  - pose proof (reach_closed w) as Hc. unfold closed_b in Hc. rewrite forallb_forall in Hc.
    specialize (Hc s IH). rewrite forallb_forall in Hc. apply mem_t_In, Hc, in_or_app. right; exact Hin.
Qed.

(* a boolean fact checked on the whole reachable set holds of every reachable state *)
Lemma by_reach w (P : tst -> bool) : forallb P (reach w) = true -> forall s, Reachable w s -> P s = true.
Proof. intros H s Hr. rewrite forallb_forall in H. apply H, reachable_in_reach, Hr. Qed.

(* ---- with the watcher: progress after cancellation ---- *)
Definition progress_b (s : tst) : bool :=
  negb (t_ctx s) || all_done s || match internal s with [] => false | _ => true end.

Theorem progress_after_cancel s : Reachable true s -> t_ctx s = true ->
  all_done s = true \/ internal s <> [].
Proof.
  intros Hr Hc. pose proof (by_reach true progress_b ltac:(vm_compute; reflexivity) s Hr) as H.
  unfold progress_b in H. rewrite Hc in H. cbn [negb orb] in H.
  destruct (all_done s); [left; reflexivity|]. right. destruct (internal s); [discriminate|discriminate].
Qed.

(* every internal step lowers the rank (all reachable states, both code versions) *)
Definition rank_b (s : tst) : bool := forallb (fun s' => Nat.ltb (rank s') (rank s)) (internal s).

Theorem internal_lowers_rank w s s' : Reachable w s -> In s' (internal s) -> rank s' < rank s.
Proof.
  intros Hr Hin. pose proof (by_reach w rank_b ltac:(destruct w; vm_compute; reflexivity) s Hr) as H.
  unfold rank_b in H. rewrite forallb_forall in H. apply Nat.ltb_lt, H, Hin.
Qed.

(* internal steps never undo the cancellation *)
Definition ctx_kept_b (s : tst) : bool := forallb (fun s' => Bool.eqb (t_ctx s') (t_ctx s)) (internal s).
Lemma internal_keeps_ctx w s s' : Reachable w s -> In s' (internal s) -> t_ctx s' = t_ctx s.
Proof.
  intros Hr Hin. pose proof (by_reach w ctx_kept_b ltac:(destruct w; vm_compute; reflexivity) s Hr) as H.
  unfold ctx_kept_b in H. rewrite forallb_forall in H. apply eqb_prop, H, Hin.
Qed.

(* runs of internal steps *)
Inductive IntRun : tst -> list tst -> tst -> Prop :=
| IR_nil s : IntRun s [] s
| IR_cons s s' l e : In s' (internal s) -> IntRun s' l e -> IntRun s (s' :: l) e.

(* BOUNDED TERMINATION: once the context is cancelled (and the application hands in nothing more),
   every run of the three goroutines is at most [rank s] <= 17 steps long, and when none of them can
   move any more the call has left the connection and every goroutine has finished *)
Theorem teardown_terminates : forall l s e, Reachable true s -> t_ctx s = true -> IntRun s l e ->
  length l <= rank s /\ (internal e = [] -> all_done e = true).
Proof.
  induction l as [|x l IH]; intros s e Hr Hc Hrun; inversion Hrun; subst.
  - split; [cbn; lia|]. intro Hn. destruct (progress_after_cancel e Hr Hc) as [H|H]; [exact H|contradiction].
  - match goal with H : In x (internal s) |- _ => rename H into Hin end.
    pose proof (internal_lowers_rank true s x Hr Hin) as Hlt.
    assert (Hr' : Reachable true x) by (eapply R_int; eauto).
    assert (Hc' : t_ctx x = true) by (rewrite (internal_keeps_ctx true s x Hr Hin); exact Hc).
    destruct (IH x e Hr' Hc' ltac:(assumption)) as [Hlen Hdone]. split; [cbn; lia | exact Hdone].
Qed.

Lemma rank_bound w s : Reachable w s -> rank s <= 17.
Proof.
  intro Hr. pose proof (by_reach w (fun s => Nat.leb (rank s) 17) ltac:(destruct w; vm_compute; reflexivity) s Hr) as H.
  apply Nat.leb_le, H.
Qed.

(* the disconnect that ends such a connection after a cancellation is reported as cancelled *)
Definition disc_flag_b (s : tst) : bool :=
  match t_r s with RDisc b => negb (t_ctx s && t_exit s) || b | _ => true end.
Lemma disc_flag w s : Reachable w s -> disc_flag_b s = true.
Proof. intro Hr. exact (by_reach w disc_flag_b ltac:(destruct w; vm_compute; reflexivity) s Hr). Qed.

(* wait group: zero only when writer and watcher have finished *)
Definition wg_b (s : tst) : bool :=
  negb (Nat.eqb (t_wg s) 0) || (gpc_eqb (t_w s) GDone && gpc_eqb (t_x s) GDone).
Theorem wg_zero_all_finished w s : Reachable w s -> t_wg s = 0 -> t_w s = GDone /\ t_x s = GDone.
Proof.
  intros Hr Hz. pose proof (by_reach w wg_b ltac:(destruct w; vm_compute; reflexivity) s Hr) as H.
  unfold wg_b in H. rewrite Hz in H. cbn in H. apply andb_true_iff in H. destruct H as [H1 H2].
  split; apply gpc_eqb_eq; assumption.
Qed.
(* and the counter is exactly the number of unfinished registered goroutines *)
Definition live (g : gpc) : nat := match g with GDone => 0 | _ => 1 end.
Theorem wg_counts w s : Reachable w s -> t_wg s = live (t_w s) + live (t_x s).
Proof.
  intro Hr. pose proof (by_reach w (fun s => Nat.eqb (t_wg s) (live (t_w s) + live (t_x s)))
                          ltac:(destruct w; vm_compute; reflexivity) s Hr) as H.
  apply Nat.eqb_eq, H.
Qed.

(* ---- without the watcher (the code before 02bcd7d): a reachable state, after the cancellation,
   in which nothing can ever move again ---- *)
Lemma blocked_reachable w : Reachable w (blocked_then_cancelled w).
Proof.
  unfold blocked_then_cancelled.
  (* the writer starts *)
  assert (H1 : Reachable w (set_tw GSelect (tinit w))).
  { eapply R_int; [apply R_init|]. destruct w; cbn; auto. }
  (* the application hands in a message: the writer takes it and blocks in Write *)
  assert (H2 : Reachable w (set_tw GWriting (set_tw GSelect (tinit w)))).
  { eapply R_env; [exact H1|]. destruct w; cbn; auto. }
  (* the context is cancelled *)
  eapply R_env; [exact H2|]. destruct w; cbn; auto.
Qed.

Theorem legacy_blocked_writer_stuck :
  let s := blocked_then_cancelled false in
  Reachable false s /\ t_ctx s = true /\ all_done s = false /\ internal s = [] /\
  (* the only step left is the environment's: nothing the library does *)
  env s = [].
Proof. cbn zeta. split; [apply blocked_reachable|]. vm_compute. repeat split. Qed.

Theorem repaired_blocked_writer_returns :
  blocked_cancel_outcome true = Some true /\ blocked_cancel_outcome false = None.
Proof. vm_compute. split; reflexivity. Qed.
