(* C07, whole-encoder form: every string either encoder model returns is free of line feeds,
   whatever bytes the message fields hold, and framing with one LF each splits back exactly.
   Instantiates Proofs/FlattenProofs.one_lines_no_lf at the two encoder models, which both end
   in [one_lines] (= singleLines(returnStrings), the F8 repair). *)
From RP Require Import Lib.Base Model.Flatten Model.MsgIn Model.EncIn Model.MsgOut Model.EncOut
  Spec.OneLine Proofs.FlattenProofs.

Theorem no_lf_in : forall (json_enc : HWCState -> list Z) (nc_print : list Z -> list Z)
    (ms : list InboundMessage) (ls : list (list Z)),
  enc_in json_enc nc_print ms = Ok ls -> Forall no_lf ls.
Proof.
  intros je ncp ms ls H. unfold enc_in in H.
  destruct (enc_in_raw je ncp ms) as [raw|site]; cbn in H; [|discriminate].
  injection H as <-. apply one_lines_no_lf.
Qed.

Theorem no_lf_out : forall (flat flat_svg : bytes -> bytes) (ords : list (list (Z * Z)))
    (ms : list (option out_msg)) (ls : list bytes),
  enc_out flat flat_svg ords ms = Ok ls -> Forall no_lf ls.
Proof.
  intros f fs ords ms ls H. unfold enc_out in H.
  destruct (enc_out_raw f fs ords ms) as [raw|site]; cbn in H; [|discriminate].
  injection H as <-. apply one_lines_no_lf.
Qed.

Theorem frame_split_in : forall je ncp ms ls,
  enc_in je ncp ms = Ok ls -> unframe (frame ls) = ls ++ [[]].
Proof. intros. apply frame_split. eapply no_lf_in; eauto. Qed.

Theorem frame_split_out : forall f fs ords ms ls,
  enc_out f fs ords ms = Ok ls -> unframe (frame ls) = ls ++ [[]].
Proof. intros. apply frame_split. eapply no_lf_out; eauto. Qed.
