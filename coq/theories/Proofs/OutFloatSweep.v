(* C04, float fields of SysStat: decimal numbers with at most 3 integer digits and one
   decimal (temperatures) or 2 integer digits and two decimals (voltage) are recovered
   exactly from the float32 the decoder stores: f32_scaled k (parse_float32 s) = the number
   the reference reader reads.  A finite sweep over all such strings (both signs, leading
   zeros included: 22 200 + 22 000 strings), checked by vm_compute and lifted to every
   string the reader accepts strictly. *)
From RP Require Import Lib.Base Lib.Sexp Lib.Strings Lib.FloatFmt Model.MsgOut Model.DecOut
  Spec.DenoteOut Spec.GrammarOut Proofs.GfxNum Proofs.OutStrings Proofs.OutDecSkel Proofs.OutDecEvent.
Open Scope Z_scope.

(* ---------------------------------------------------------------- the float sweep *)
Definition digit_chars : list Z := [48; 49; 50; 51; 52; 53; 54; 55; 56; 57].

Fixpoint digit_lists (n : nat) : list bytes :=
  match n with
  | O => [[]]
  | Datatypes.S n' => flat_map (fun d => map (cons d) (digit_lists n')) digit_chars
  end.

Definition dec_strings (k : nat) (lens : list nat) : list bytes :=
  flat_map (fun ip => flat_map (fun fp => [ip ++ 46 :: fp; 45 :: ip ++ 46 :: fp]) (digit_lists k))
           (flat_map digit_lists lens).

Definition dec_ok (k : nat) (s : bytes) : bool :=
  match read_dec k s with
  | Some (true, x) => f32_scaled (Z.of_nat k) (parse_float32 s) =? x
  | _ => false
  end.

Lemma sweep_tenths : forallb (dec_ok 1) (dec_strings 1 [1; 2; 3]%nat) = true.
Proof. vm_compute. reflexivity. Qed.

Lemma sweep_hundredths : forallb (dec_ok 2) (dec_strings 2 [1; 2]%nat) = true.
Proof. vm_compute. reflexivity. Qed.

Lemma is_digit_in c : is_digit c = true -> In c digit_chars.
Proof.
  unfold is_digit. intros H. apply andb_true_iff in H. destruct H as [H1 H2].
  apply Z.leb_le in H1. apply Z.leb_le in H2. unfold digit_chars. cbn [In].
  assert (c = 48 \/ c = 49 \/ c = 50 \/ c = 51 \/ c = 52 \/ c = 53 \/ c = 54 \/ c = 55 \/ c = 56 \/ c = 57) by lia.
  intuition.
Qed.

Lemma digit_lists_in : forall l, forallb is_digit l = true -> In l (digit_lists (length l)).
Proof.
  induction l as [|c l IH]; intros H; [left; reflexivity|].
  cbn in H. apply andb_true_iff in H. destruct H as [Hc Hl].
  cbn [length digit_lists]. apply in_flat_map. exists c. split; [apply is_digit_in; exact Hc|].
  apply in_map. apply IH. exact Hl.
Qed.

(* every string the reader accepts strictly is in the sweep *)
Lemma read_dec_in_sweep (k : nat) (lens : list nat) (maxip : nat) s x :
  (forall n, (1 <= n <= maxip)%nat -> In n lens) ->
  maxip = (if (k =? 1)%nat then 3 else 2)%nat ->
  read_dec k s = Some (true, x) -> In s (dec_strings k lens).
Proof.
  intros Hlens Hmax H. unfold read_dec in H.
  set (neg := match s with 45 :: _ => true | _ => false end) in *.
  set (s' := if neg then tl s else s) in *.
  destruct (cut_on 46 s') as [[ip fp] f] eqn:Ec. destruct f; [|discriminate].
  destruct (digits_nonempty ip && digits_nonempty fp && (length fp =? k)%nat) eqn:Eg; [|discriminate].
  apply andb_true_iff in Eg. destruct Eg as [Eg Hlen]. apply andb_true_iff in Eg. destruct Eg as [Hip Hfp].
  apply Nat.eqb_eq in Hlen.
  apply digits_nonempty_spec in Hip. destruct Hip as [Hipne Hipd].
  apply digits_nonempty_spec in Hfp. destruct Hfp as [_ Hfpd].
  injection H as Hst _. rewrite <- Hmax in Hst. apply Nat.leb_le in Hst.
  destruct (cut_on_found _ _ _ _ Ec) as [Hs' _].
  unfold dec_strings. apply in_flat_map. exists ip. split.
  - apply in_flat_map. exists (length ip). split; [|apply digit_lists_in; exact Hipd].
    apply Hlens. destruct ip; [congruence|]. cbn [length] in *. lia.
  - apply in_flat_map. exists fp. split; [rewrite <- Hlen; apply digit_lists_in; exact Hfpd|].
    assert (Hs : s = if neg then 45 :: s' else s').
    { subst s' neg. destruct s as [|c r]; [reflexivity|].
      destruct c as [|q|q]; try reflexivity. do 6 (destruct q as [q|q|]; try reflexivity). }
    rewrite Hs, Hs'. destruct neg; cbn [In]; auto.
Qed.

Lemma tenths_exact s x : read_dec 1 s = Some (true, x) -> f32_scaled 1 (parse_float32 s) = x.
Proof.
  intros H.
  assert (Hin : In s (dec_strings 1 [1; 2; 3]%nat)).
  { apply (read_dec_in_sweep 1 _ 3 s x); [|reflexivity|exact H]. intros n Hn. cbn [In]. lia. }
  pose proof sweep_tenths as Hsw. rewrite forallb_forall in Hsw. specialize (Hsw s Hin).
  unfold dec_ok in Hsw. rewrite H in Hsw. apply Z.eqb_eq in Hsw. exact Hsw.
Qed.

Lemma hundredths_exact s x : read_dec 2 s = Some (true, x) -> f32_scaled 2 (parse_float32 s) = x.
Proof.
  intros H.
  assert (Hin : In s (dec_strings 2 [1; 2]%nat)).
  { apply (read_dec_in_sweep 2 _ 2 s x); [|reflexivity|exact H]. intros n Hn. cbn [In]. lia. }
  pose proof sweep_hundredths as Hsw. rewrite forallb_forall in Hsw. specialize (Hsw s Hin).
  unfold dec_ok in Hsw. rewrite H in Hsw. apply Z.eqb_eq in Hsw. exact Hsw.
Qed.
