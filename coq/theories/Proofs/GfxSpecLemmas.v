(* Facts about the C05 spec functions (Spec/Transfer.v): a Prop-level witness that implies
   valid_b, and the chain of strictly increasing starts that implies at_most_once_b. *)
From RP Require Import Lib.Base Lib.Strings Model.Gfx Spec.Transfer Proofs.GfxBatch.
From Coq Require Import ZifyBool.
Open Scope Z_scope.
Open Scope list_scope.

Definition is_zero (y : line) : bool := match y with G c => c_index c =? 0 | O => false end.

Lemma not_zero_not_start t ids y : is_zero y = false -> is_start t ids y = false.
Proof. destruct y; cbn; intros H; [rewrite H; apply andb_false_r | reflexivity]. Qed.

Lemma zlen_cons {A} (x : A) l : zlen (x :: l) = 1 + zlen l.
Proof. unfold zlen. cbn [length]. lia. Qed.
Lemma zlen_app' {A} (a b : list A) : zlen (a ++ b) = zlen a + zlen b.
Proof. unfold zlen. rewrite app_length. lia. Qed.
Lemma zlen_nn {A} (l : list A) : 0 <= zlen l.
Proof. unfold zlen. lia. Qed.

(* ---- last_start ---- *)
Lemma last_start_none t ids : forall l pos e acc,
  Forall (fun y => is_start t ids y = false) l -> last_start t ids l pos e acc = acc.
Proof.
  induction l as [|y r IH]; intros pos e acc H; cbn [last_start]; auto.
  inversion H; subst. destruct (pos >? e); auto. rewrite H2. apply IH. assumption.
Qed.

Lemma last_start_beyond t ids : forall l pos e acc, e < pos -> last_start t ids l pos e acc = acc.
Proof.
  intros l pos e acc H. destruct l; cbn [last_start]; auto.
  replace (pos >? e) with true by lia. reflexivity.
Qed.

Lemma last_start_app t ids : forall a b pos e acc, pos + zlen a <= e + 1 ->
  last_start t ids (a ++ b) pos e acc = last_start t ids b (pos + zlen a) e (last_start t ids a pos e acc).
Proof.
  induction a as [|y r IH]; intros b pos e acc H.
  - cbn [app last_start]. replace (pos + zlen []) with pos by (unfold zlen; cbn; lia). reflexivity.
  - rewrite zlen_cons in H. pose proof (zlen_nn r).
    cbn [app last_start]. replace (pos >? e) with false by lia.
    rewrite IH by lia. rewrite zlen_cons. f_equal. lia.
Qed.

(* h = a ++ x :: m ++ fut, x a start, no start in m, the delivery at the last line of x :: m *)
Lemma last_start_witness t ids a x m fut :
  is_start t ids x = true -> Forall (fun y => is_start t ids y = false) m ->
  last_start t ids (a ++ x :: m ++ fut) 0 (zlen a + zlen m) None = Some (zlen a).
Proof.
  intros Hx Hm. pose proof (zlen_nn a). pose proof (zlen_nn m).
  rewrite last_start_app by lia. cbn [Z.add].
  cbn [last_start]. replace (zlen a >? zlen a + zlen m) with false by lia.
  rewrite Hx. rewrite last_start_app by lia.
  rewrite (last_start_none t ids m _ _ _ Hm).
  apply last_start_beyond. lia.
Qed.

Lemma nth_error_witness {A} (a : list A) x r : nth_error (a ++ x :: r) (Z.to_nat (zlen a)) = Some x.
Proof.
  unfold zlen. rewrite Nat2Z.id. rewrite nth_error_app2 by lia. rewrite Nat.sub_diag. reflexivity.
Qed.

Lemma segment_witness (a : list line) x m fut :
  segment (a ++ x :: m ++ fut) (zlen a) (zlen a + zlen m) = m.
Proof.
  unfold segment. replace (zlen a + zlen m - zlen a) with (zlen m) by lia.
  replace (Z.to_nat (zlen a + 1)) with (length a + 1)%nat by (unfold zlen; lia).
  rewrite skipn_app. rewrite skipn_all2 by lia. cbn [app].
  replace (length a + 1 - length a)%nat with 1%nat by lia. cbn [skipn].
  unfold zlen. rewrite Nat2Z.id. rewrite firstn_app, Nat.sub_diag, firstn_all. cbn [firstn]. apply app_nil_r.
Qed.

(* ---- asm from picks ---- *)
Definition key_chunk (t : Z) (ids : list Z) (i : Z) (c : chunk) : Prop :=
  same_key t ids c = true /\ c_index c = i.

(* chunks i .. j-1 of (t, ids) can be picked in order from seg, payloads concatenating to d *)
Inductive Picks (t : Z) (ids : list Z) : Z -> Z -> list line -> list Z -> Prop :=
| P_nil i : Picks t ids i i [] []
| P_skip i j y seg d : Picks t ids i j seg d -> Picks t ids i j (y :: seg) d
| P_take i j c seg d : key_chunk t ids i c -> Picks t ids (i + 1) j seg d ->
                       Picks t ids i j (G c :: seg) (c_data c ++ d).

Lemma Picks_le t ids i j seg d : Picks t ids i j seg d -> i <= j.
Proof. induction 1; lia. Qed.

Lemma Picks_snoc_skip t ids i j seg d y : Picks t ids i j seg d -> Picks t ids i j (seg ++ [y]) d.
Proof.
  induction 1; cbn [app].
  - apply P_skip. constructor.
  - apply P_skip. assumption.
  - apply P_take; assumption.
Qed.

Lemma Picks_snoc_take t ids i j seg d c :
  Picks t ids i j seg d -> key_chunk t ids j c -> Picks t ids i (j + 1) (seg ++ [G c]) (d ++ c_data c).
Proof.
  induction 1; intros Hc; cbn [app].
  - rewrite <- (app_nil_r (c_data c)). apply P_take; [exact Hc | constructor].
  - apply P_skip. auto.
  - rewrite <- app_assoc. apply P_take; auto.
Qed.

Lemma drop_prefix_app : forall p s, drop_prefix p (p ++ s) = Some s.
Proof. induction p; intros s; cbn [app drop_prefix]; auto. rewrite Z.eqb_refl. apply IHp. Qed.

Lemma asm_of_picks t ids N : forall i seg d c,
  Picks t ids i N seg d -> key_chunk t ids N c ->
  asm t ids N i (seg ++ [G c]) (d ++ c_data c) = true.
Proof.
  intros i seg d c HP [Hk Hi]. induction HP as [i | i j y seg d HP IH | i j c' seg d [Hk' Hi'] HP IH].
  - cbn [app asm]. rewrite Hk, Hi, !Z.eqb_refl. cbn [is_nil andb]. rewrite bytes_eqb_refl. reflexivity.
  - cbn [app asm]. rewrite IH by assumption. apply orb_true_r.
  - cbn [app asm]. pose proof (Picks_le _ _ _ _ _ _ HP) as Hle.
    rewrite Hk', Hi', Z.eqb_refl. replace (i =? j) with false by (symmetry; apply Z.eqb_neq; lia).
    rewrite <- app_assoc, drop_prefix_app. rewrite IH by assumption. reflexivity.
Qed.

(* ---- the witness ---- *)
Definition header_ok (c0 : chunk) (img : gfx) : Prop :=
  let '(N, W, H, off) := hdr_of c0 in
  g_w img = W /\ g_h img = H /\ g_xy img = (match off with Some _ => true | None => false end)
  /\ g_x img = (match off with Some (x, _) => x | None => 0 end)
  /\ g_y img = (match off with Some (_, y) => y | None => 0 end).

Definition hdr_N (c0 : chunk) : Z := let '(N, _, _, _) := hdr_of c0 in N.

Definition Witness (h : list line) (lastd : Z) (d : delivery) : Prop :=
  exists a c0 m fut,
    h = a ++ G c0 :: m ++ fut /\ d_pos d = zlen a + zlen m /\ lastd <= zlen a
    /\ key_chunk (g_type (d_img d)) (d_ids d) 0 c0
    /\ Forall (fun y => is_zero y = false) m
    /\ header_ok c0 (d_img d)
    /\ (if hdr_N c0 =? 0 then m = [] /\ g_data (d_img d) = c_data c0
        else exists want, g_data (d_img d) = c_data c0 ++ want
                          /\ asm (g_type (d_img d)) (d_ids d) (hdr_N c0) 1 m want = true).

Lemma Witness_more h lastd d more : Witness h lastd d -> Witness (h ++ more) lastd d.
Proof.
  intros [a [c0 [m [fut [Hh H]]]]]. exists a, c0, m, (fut ++ more). split; [|exact H].
  rewrite Hh. rewrite <- app_assoc. cbn [app]. rewrite <- app_assoc. reflexivity.
Qed.

Lemma Witness_start h lastd d : Witness h lastd d ->
  exists s, lastd <= s <= d_pos d /\
  last_start (g_type (d_img d)) (d_ids d) h 0 (d_pos d) None = Some s.
Proof.
  intros [a [c0 [m [fut [Hh [Hp [Hl [[Hk Hi] [Hm _]]]]]]]]].
  exists (zlen a). pose proof (zlen_nn m). split; [lia|].
  rewrite Hh, Hp. apply last_start_witness.
  - cbn [is_start]. rewrite Hk, Hi. reflexivity.
  - eapply Forall_impl; [|exact Hm]. intros y Hy. apply not_zero_not_start, Hy.
Qed.

Lemma Witness_valid h lastd d : Witness h lastd d -> valid_b h d = true.
Proof.
  intros Hw. destruct (Witness_start _ _ _ Hw) as [s [Hs Hls]].
  destruct Hw as [a [c0 [m [fut [Hh [Hp [Hl [[Hk Hi] [Hm [Hhdr Hdata]]]]]]]]]].
  assert (Hsa : s = zlen a).
  { rewrite Hh, Hp in Hls. rewrite last_start_witness in Hls.
    - congruence.
    - cbn [is_start]. rewrite Hk, Hi. reflexivity.
    - eapply Forall_impl; [|exact Hm]. intros y Hy. apply not_zero_not_start, Hy. }
  unfold valid_b. rewrite Hls. subst s.
  pose proof (zlen_nn a). pose proof (zlen_nn m). pose proof (zlen_nn fut).
  assert (Hlen : zlen h = zlen a + 1 + zlen m + zlen fut).
  { rewrite Hh, zlen_app', zlen_cons, zlen_app'. lia. }
  replace (0 <=? d_pos d) with true by (symmetry; apply Z.leb_le; lia).
  replace (d_pos d <? zlen h) with true by (symmetry; apply Z.ltb_lt; lia).
  cbn [andb]. rewrite Hh at 1. rewrite nth_error_witness.
  unfold header_ok, hdr_N in *. destruct (hdr_of c0) as [[[N W] H'] off].
  destruct Hhdr as [Hw [Hh' [Hxy [Hx Hy]]]].
  rewrite Hw, Hh', Hxy, Hx, Hy, !Z.eqb_refl, eqb_reflx. cbn [andb].
  destruct (N =? 0) eqn:EN.
  - destruct Hdata as [Hm0 Hd]. subst m. rewrite Hp. unfold zlen at 2. cbn [length Z.of_nat].
    rewrite Z.add_0_r, Z.eqb_refl, Hd, bytes_eqb_refl. reflexivity.
  - destruct Hdata as [want [Hd Hasm]]. rewrite Hd, drop_prefix_app.
    rewrite Hh, Hp, segment_witness. exact Hasm.
Qed.

(* ---- chains: every delivery has a witness whose start lies after the previous delivery ---- *)
Inductive Chain (h : list line) : Z -> list delivery -> Prop :=
| Ch_nil lastd : Chain h lastd []
| Ch_cons lastd d r : Witness h lastd d -> Chain h (d_pos d + 1) r -> Chain h lastd (d :: r).

Lemma Chain_more h more : forall lastd ds, Chain h lastd ds -> Chain (h ++ more) lastd ds.
Proof. induction 1; constructor; auto. apply Witness_more. assumption. Qed.

Lemma Chain_weaken h : forall lastd ds, Chain h lastd ds -> forall l', l' <= lastd -> Chain h l' ds.
Proof.
  intros lastd ds Hc. destruct Hc as [|lastd d r Hw Hc]; intros l' Hl; constructor; [|exact Hc].
  destruct Hw as [a [c0 [m [fut [H1 [H2 [H3 H4]]]]]]]. exists a, c0, m, fut.
  split; [exact H1|]. split; [exact H2|]. split; [lia | exact H4].
Qed.

Lemma Chain_valid h : forall lastd ds, Chain h lastd ds -> forallb (valid_b h) ds = true.
Proof.
  induction 1; cbn [forallb]; auto. rewrite (Witness_valid _ _ _ H), IHChain. reflexivity.
Qed.

Lemma Chain_starts h : forall lastd ds, Chain h lastd ds ->
  Forall (fun d => exists s, lastd <= s /\ snd (transfer_id h d) = Some s) ds.
Proof.
  induction 1; constructor.
  - destruct (Witness_start _ _ _ H) as [s [Hs Hl]]. exists s. split; [lia|]. unfold transfer_id. cbn [snd]. exact Hl.
  - eapply Forall_impl; [|exact IHChain]. intros d' [s [Hs Hl]]. exists s. split; [|exact Hl].
    destruct (Witness_start _ _ _ H) as [s0 [Hs0 _]]. lia.
Qed.

Lemma Chain_once h : forall lastd ds, Chain h lastd ds -> at_most_once_b h ds = true.
Proof.
  unfold at_most_once_b. induction 1 as [|lastd d r Hw Hc IH]; cbn [map distinct_b]; auto.
  rewrite IH, andb_true_r. apply negb_true_iff.
  destruct (existsb (tid_eqb (transfer_id h d)) (map (transfer_id h) r)) eqn:E; [|reflexivity].
  exfalso. apply existsb_exists in E. destruct E as [x [Hin Hx]].
  apply in_map_iff in Hin. destruct Hin as [d' [Hd' Hin]]. subst x.
  pose proof (Chain_starts _ _ _ Hc) as Hs. rewrite Forall_forall in Hs.
  destruct (Hs d' Hin) as [s' [Hs' Hl']].
  destruct (Witness_start _ _ _ Hw) as [s [Hs0 Hl]].
  unfold tid_eqb, transfer_id in Hx. unfold transfer_id in Hl'. cbn [snd] in Hl'.
  rewrite Hl, Hl' in Hx. apply andb_true_iff in Hx. destruct Hx as [_ Hx]. apply Z.eqb_eq in Hx. lia.
Qed.
