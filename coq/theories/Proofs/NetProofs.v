(* Lemmas for C08-C12 (environment Model/Net.v, client Model/Client.v). *)
From RP Require Import Lib.Base Lib.Varint Lib.Strings Model.Net Model.Client Spec.NetSpec.

Lemma probe_bytes_eq : probe_bytes = [2; 0; 0; 0; 8; 1].
Proof. reflexivity. Qed.
