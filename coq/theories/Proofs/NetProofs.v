(* Lemmas for C08/C10/C11: the binary and ASCII read loops of Model/Client.v, run against the
   environment of Model/Net.v, refine the reference stream reading of Spec/NetSpec.v
   (walk_bin / walk_lines) - for every timed byte stream, every fuel, every close instant. *)
From RP Require Import Lib.Base Lib.Varint Lib.Strings Model.Net Model.Client Spec.NetSpec Proofs.NetProbeProofs.
From Coq Require Import ZifyBool.

Lemma probe_bytes_eq : probe_bytes = [2; 0; 0; 0; 8; 1].
Proof. reflexivity. Qed.

(* ---------- list plumbing ---------- *)
Lemma rev_append_nil {A} (l : list A) : rev_append l [] = rev l.
Proof. rewrite rev_append_rev. apply app_nil_r. Qed.

Lemma split_tr_acc {A} : forall (l : list A) k acc,
  split_tr k l acc = match split_tr k l [] with Some (a, b) => Some (rev acc ++ a, b) | None => None end.
Proof.
  induction l as [|x r IH]; intros k acc; cbn.
  - destruct (k <=? 0); [|reflexivity]. rewrite rev_append_nil. cbn. rewrite app_nil_r. reflexivity.
  - destruct (k <=? 0).
    + rewrite rev_append_nil. cbn. rewrite app_nil_r. reflexivity.
    + rewrite (IH (k - 1) (x :: acc)). rewrite (IH (k - 1) [x]).
      destruct (split_tr (k - 1) r []) as [[a b]|]; [|reflexivity]. cbn. rewrite <- app_assoc. reflexivity.
Qed.

Lemma split_tr_cons {A} : forall (x : A) r k, 1 <= k ->
  split_tr k (x :: r) [] = match split_tr (k - 1) r [] with Some (a, b) => Some (x :: a, b) | None => None end.
Proof.
  intros x r k Hk. cbn. assert (E : k <=? 0 = false) by lia. rewrite E.
  rewrite split_tr_acc. destruct (split_tr (k - 1) r []) as [[a b]|]; reflexivity.
Qed.

Lemma split_tr_le0 {A} : forall (l : list A) k, k <= 0 -> split_tr k l [] = Some ([], l).
Proof. intros [|x r] k Hk; cbn; assert (E : k <=? 0 = true) by lia; rewrite E; reflexivity. Qed.

Lemma split_tr_sound {A} : forall (l : list A) k a b, split_tr k l [] = Some (a, b) ->
  l = a ++ b /\ zlen a = Z.max 0 k.
Proof.
  induction l as [|x r IH]; intros k a b H.
  - cbn in H. destruct (k <=? 0) eqn:E; [|discriminate]. inversion H; subst. split; [reflexivity|]. unfold zlen; cbn. lia.
  - destruct (Z_le_dec k 0).
    + rewrite split_tr_le0 in H by lia. inversion H; subst. split; [reflexivity|]. unfold zlen; cbn. lia.
    + rewrite split_tr_cons in H by lia. destruct (split_tr (k - 1) r []) as [[a' b']|] eqn:E; [|discriminate].
      inversion H; subst. destruct (IH _ _ _ E) as [-> Hl]. split; [reflexivity|].
      unfold zlen in *. cbn [length]. rewrite Nat2Z.inj_succ. lia.
Qed.

Lemma split_tr_none {A} : forall (l : list A) k, split_tr k l [] = None -> zlen l < k.
Proof.
  induction l as [|x r IH]; intros k H.
  - cbn in H. destruct (k <=? 0) eqn:E; [discriminate|]. unfold zlen; cbn. lia.
  - destruct (Z_le_dec k 0). { rewrite split_tr_le0 in H by lia. discriminate. }
    rewrite split_tr_cons in H by lia. destruct (split_tr (k - 1) r []) as [[a' b']|] eqn:E; [discriminate|].
    apply IH in E. unfold zlen in *. cbn [length]. rewrite Nat2Z.inj_succ. lia.
Qed.

Lemma split_tr_app {A} : forall (a b : list A), split_tr (zlen a) (a ++ b) [] = Some (a, b).
Proof.
  induction a as [|x a IH]; intro b.
  - apply split_tr_le0. unfold zlen; cbn; lia.
  - cbn [app]. rewrite split_tr_cons by (unfold zlen; cbn [length]; lia).
    replace (zlen (x :: a) - 1) with (zlen a) by (unfold zlen; cbn [length]; lia).
    rewrite IH. reflexivity.
Qed.

Lemma snds_map : forall l, snds l = map snd l.
Proof.
  intro l. unfold snds.
  assert (H : forall (l : list (Z * Z)) acc, fold_left (fun a x => snd x :: a) l acc = rev (map snd l) ++ acc).
  { induction l0 as [|x r IH]; intro acc; cbn; [reflexivity|]. rewrite IH. rewrite <- app_assoc. reflexivity. }
  rewrite H, app_nil_r, rev_append_nil, rev_involutive. reflexivity.
Qed.

Lemma tmax_ge : forall l m, m <= tmax l m.
Proof. induction l as [|[t b] r IH]; intro m; cbn; [lia|]. specialize (IH (Z.max m t)). lia. Qed.

Lemma tmax_le : forall l m c, m <= c -> Forall (fun x => fst x <= c) l -> tmax l m <= c.
Proof.
  induction l as [|[t b] r IH]; intros m c Hm H; cbn; [lia|]. inversion H; subst. cbn in *. apply IH; [lia|assumption].
Qed.

Lemma take_tr_split : forall (l : list (Z * Z)) k acc tm, 1 <= k ->
  take_tr k l acc tm =
  match split_tr k l [] with Some (a, b) => Some (rev acc ++ map snd a, tmax a tm, b) | None => None end.
Proof.
  induction l as [|[t b] r IH]; intros k acc tm Hk.
  - cbn. assert (E : k <=? 0 = false) by lia. rewrite E. reflexivity.
  - cbn [take_tr]. rewrite split_tr_cons by lia. destruct (k <=? 1) eqn:E1.
    + assert (k = 1) by lia. subst k. cbn [Z.sub]. rewrite split_tr_le0 by lia.
      rewrite rev_append_nil. cbn. reflexivity.
    + rewrite IH by lia. destruct (split_tr (k - 1) r []) as [[a b']|]; [|reflexivity].
      cbn. rewrite <- app_assoc. reflexivity.
Qed.

(* sortedness *)
Lemma tb_sorted_all_ge : forall (l : list (Z * Z)) m, tb_sorted m l = true -> Forall (fun x => m <= fst x) l.
Proof.
  induction l as [|[t b] r IH]; intros m H; constructor; cbn in *.
  - lia.
  - apply andb_true_iff in H. destruct H as [H1 H2]. specialize (IH t H2).
    eapply Forall_impl; [|exact IH]. cbn. intros; lia.
Qed.

Lemma tb_sorted_app : forall (a b : list (Z * Z)) m, tb_sorted m (a ++ b) = true -> tb_sorted (tmax a m) b = true.
Proof.
  induction a as [|[t x] a IH]; intros b m H; cbn in *; [exact H|].
  apply andb_true_iff in H. destruct H as [H1 H2]. replace (Z.max m t) with t by lia. apply IH. exact H2.
Qed.

(* ---------- reads on a stream with no local close ---------- *)
Definition C (nw : Z) (tb : list (Z * Z)) (c : option (Z * bool)) : conn := mkConn nw tb c None.

Definition end_reason (rst : bool) : reason := if rst then RReset else REof.

(* the peer closes after everything it sent, and not before the reader's clock *)
Definition close_after (c : option (Z * bool)) (nw : Z) (tb : list (Z * Z)) : Prop :=
  match c with Some (ct, _) => nw <= ct /\ Forall (fun x => fst x <= ct) tb | None => True end.

Lemma close_after_suffix : forall c nw (a b : list (Z * Z)), close_after c nw (a ++ b) -> close_after c (tmax a nw) b.
Proof.
  intros [[ct rst]|] nw a b H; cbn in *; [|exact I]. destruct H as [H1 H2].
  apply Forall_app in H2. destruct H2 as [Ha Hb]. split; [|exact Hb]. apply tmax_le; assumption.
Qed.

Lemma read_full_pure : forall n dl nw tb c, 1 <= n ->
  read_full n dl (C nw tb c) =
  match split_tr n tb [] with
  | Some (a, b) =>
    match dl with
    | Some d => if Z.max nw d <=? tmax a nw then (RErr ETimeout, C (Z.max nw d) tb c)
                else (RData (map snd a), C (tmax a nw) b c)
    | None => (RData (map snd a), C (tmax a nw) b c)
    end
  | None => finish_nodata (C nw tb c) dl
  end.
Proof.
  intros n dl nw tb c Hn. unfold read_full. assert (E : n <=? 0 = false) by lia. rewrite E.
  cbn [pend now C]. rewrite take_tr_split by lia. destruct (split_tr n tb []) as [[a b]|]; [|reflexivity].
  cbn [rev app]. unfold finish_data, interrupt, C. cbn [lcl now cl pend set_now].
  destruct dl as [d|]; reflexivity.
Qed.

Lemma finish_nodata_pure : forall dl nw tb c,
  finish_nodata (C nw tb c) dl =
  match c with
  | Some (ct, rst) =>
    match dl with
    | Some d => if Z.max nw d <=? Z.max nw ct then (RErr ETimeout, C (Z.max nw d) tb c)
                else (RErr (if rst then EReset else EEof), C (Z.max nw ct) tb c)
    | None => (RErr (if rst then EReset else EEof), C (Z.max nw ct) tb c)
    end
  | None =>
    match dl with
    | Some d => (RErr ETimeout, C (Z.max nw d) tb c)
    | None => (RBlocked, C nw tb c)
    end
  end.
Proof.
  intros dl nw tb c. unfold finish_nodata, interrupt, C. cbn [lcl now cl pend set_now].
  destruct c as [[ct rst]|]; destruct dl as [d|]; reflexivity.
Qed.

Section Reader.
Variable M : Type.
Variable unmarshal : bytes -> M.
Variable decode : bytes -> M.

Fixpoint deliveries (o : list (cobs M)) : list (Z * M) :=
  match o with
  | [] => []
  | ODeliver t m :: r => (t, m) :: deliveries r
  | OAlloc _ _ :: r => deliveries r
  end.
Fixpoint allocs (o : list (cobs M)) : list Z :=
  match o with
  | [] => []
  | OAlloc _ n :: r => n :: allocs r
  | ODeliver _ _ :: r => allocs r
  end.

(* what the reference reading says the loop must end with *)
Definition spec_outcome (f : option (Z * Z)) (c : option (Z * bool)) : outcome :=
  match f with
  | Some (t, k) =>
    if k =? 2 then Dropped t RLimit
    else match c with
         | Some (ct, rst) => if t <=? ct then Dropped t RTimeout else Dropped ct (end_reason rst)
         | None => Dropped t RTimeout
         end
  | None =>
    match c with
    | Some (ct, rst) => Dropped ct (end_reason rst)
    | None => Waiting
    end
  end.

Notation bin := (bin_loop M unmarshal).

Ltac fin3 := cbn [fst snd deliveries allocs reason_of end_reason]; repeat split; try reflexivity; try (repeat constructor; unfold limit; lia).

(* one iteration of the loop against one step of the reference reading *)
Lemma bin_step : forall f nw tb c,
  tb_sorted nw tb = true -> close_after c nw tb ->
  match next_frame tb with
  | FEnd => bin (S f) (C nw tb c) = ([], spec_outcome None c)
  | FFault t k =>
    deliveries (fst (bin (S f) (C nw tb c))) = [] /\
    Forall (fun n => n < limit) (allocs (fst (bin (S f) (C nw tb c)))) /\
    snd (bin (S f) (C nw tb c)) = spec_outcome (Some (t, k)) c
  | FGood p te rest =>
    exists t4 n, n < limit /\ nw <= te /\ (exists a, tb = a ++ rest /\ te = tmax a nw) /\
      bin (S f) (C nw tb c) =
      (OAlloc t4 n :: ODeliver te (unmarshal p) :: fst (bin f (C te rest c)), snd (bin f (C te rest c)))
  end.
Proof.
  intros f nw tb c Hs Hc. unfold tbyte in *.
  destruct tb as [|[t1 b1] r1].
  { (* nothing pending *)
    cbn [next_frame bin_loop]. unfold read_full. cbn [Z.leb Z.compare pend C take_tr].
    rewrite finish_nodata_pure. destruct c as [[ct [|]]|]; cbn; try reflexivity;
      cbn in Hc; destruct Hc as [Hc _]; replace (Z.max nw ct) with ct by lia; reflexivity. }
  assert (Hnw : nw <= t1). { cbn in Hs. lia. }
  assert (Hs1 : tb_sorted t1 r1 = true). { cbn in Hs. apply andb_true_iff in Hs. tauto. }
  cbn [bin_loop]. rewrite (read_full_pure 1) by lia.
  rewrite split_tr_cons by lia. cbn [Z.sub]. rewrite split_tr_le0 by lia.
  cbn [map snd tmax]. replace (Z.max nw t1) with t1 by lia.
  cbn [now C]. rewrite (read_full_pure 3) by lia.
  unfold next_frame. rewrite (split_tr_cons (t1, b1) r1 4) by lia. cbn [Z.sub].
  change (4 - 1) with 3.
  destruct (split_tr 3 r1 []) as [[a3 r4]|] eqn:E3.
  2:{ (* fewer than 4 bytes ever *)
    rewrite finish_nodata_pure. replace (Z.max t1 (t1 + 2000)) with (t1 + 2000) by lia.
    unfold spec_outcome, inframe. cbn [Z.eqb].
    destruct c as [[ct [|]]|]; [| |fin3];
      (cbn in Hc; destruct Hc as [Hc1 Hc2]; inversion Hc2; subst; cbn in H1;
       replace (Z.max t1 ct) with ct by lia; destruct (t1 + 2000 <=? ct); fin3). }
  destruct (split_tr_sound _ _ _ _ E3) as [Hr1 Hl3].
  cbn [tmax]. replace (Z.max t1 t1) with t1 by lia.
  replace (Z.max t1 (t1 + 2000)) with (t1 + 2000) by lia. unfold inframe.
  destruct (t1 + 2000 <=? tmax a3 t1) eqn:Ehd.
  { (* header not complete in time *)
    unfold spec_outcome. cbn [Z.eqb].
    destruct c as [[ct rst]|]; [|fin3].
    cbn in Hc. destruct Hc as [Hc1 Hc2]. inversion Hc2; subst. cbn in H1.
    assert (tmax a3 t1 <= ct). { apply tmax_le; [lia|]. apply Forall_app in H2. tauto. }
    assert (E : t1 + 2000 <=? ct = true) by lia. rewrite E. fin3. }
  cbn [now C]. rewrite snds_map. cbn [map snd]. change ([b1] ++ map snd a3) with (b1 :: map snd a3). rewrite !le32_dec_u32le.
  set (t4 := tmax a3 t1) in *.
  set (v := u32le (b1 :: map snd a3)).
  unfold payload_limit, limit.
  destruct (v <? 500000) eqn:Elim.
  2:{ assert (E : 500000 <=? v = true) by lia. rewrite E. unfold spec_outcome. cbn [Z.eqb]. fin3. }
  assert (E : 500000 <=? v = false) by lia. rewrite E. clear E.
  assert (Hs4 : tb_sorted t4 r4 = true). { subst r1. apply (tb_sorted_app a3 r4 t1). exact Hs1. }
  assert (Hc4 : close_after c t4 r4).
  { subst r1. apply (close_after_suffix c t1 a3 r4).
    destruct c as [[ct rst]|]; cbn in *; [|exact I]. destruct Hc as [Hc1 Hc2]. inversion Hc2; subst. cbn in H1. split; [lia|assumption]. }
  destruct (Z_le_dec v 0) as [Hv0|Hv0].
  { (* empty payload *)
    unfold read_full. assert (E : v <=? 0 = true) by lia. rewrite E.
    rewrite split_tr_le0 by lia. cbn [tmax]. rewrite snds_map. cbn [map].
    assert (E2 : t4 + 2000 <=? t4 = false) by lia. rewrite E2.
    exists t4, v. split; [unfold limit; lia|]. split; [pose proof (tmax_ge a3 t1); lia|].
    split.
    { exists ((t1, b1) :: a3). subst r1. split; [reflexivity|]. cbn [tmax]. replace (Z.max nw t1) with t1 by lia. reflexivity. }
    cbn [now C]. destruct (bin_loop M unmarshal f (C t4 r4 c)); reflexivity. }
  rewrite (read_full_pure v) by lia.
  destruct (split_tr v r4 []) as [[p r5]|] eqn:Ep.
  2:{ (* payload never complete *)
    rewrite finish_nodata_pure. replace (Z.max t4 (t4 + 2000)) with (t4 + 2000) by lia.
    unfold spec_outcome. cbn [Z.eqb].
    destruct c as [[ct [|]]|]; [| |fin3];
      (cbn in Hc4; destruct Hc4 as [Hc41 Hc42]; replace (Z.max t4 ct) with ct by lia;
       destruct (t4 + 2000 <=? ct); fin3). }
  replace (Z.max t4 (t4 + 2000)) with (t4 + 2000) by lia.
  destruct (t4 + 2000 <=? tmax p t4) eqn:Epay.
  { (* payload not complete in time *)
    unfold spec_outcome. cbn [Z.eqb].
    destruct (split_tr_sound _ _ _ _ Ep) as [Hr4 _].
    destruct c as [[ct rst]|]; [|fin3].
    cbn in Hc4. destruct Hc4 as [Hc41 Hc42].
    assert (tmax p t4 <= ct). { apply tmax_le; [lia|]. subst r4. apply Forall_app in Hc42. tauto. }
    assert (E : t4 + 2000 <=? ct = true) by lia. rewrite E. fin3. }
  (* a complete frame *)
  rewrite snds_map. cbn [now C].
  destruct (split_tr_sound _ _ _ _ Ep) as [Hr4 _].
  exists t4, v. split; [unfold limit; lia|].
  split. { pose proof (tmax_ge p t4). pose proof (tmax_ge a3 t1). lia. }
  split.
  { exists (((t1, b1) :: a3) ++ p). subst r1 r4. split; [rewrite <- app_assoc; reflexivity|].
    assert (Ht : forall (a b : list (Z * Z)) m, tmax (a ++ b) m = tmax b (tmax a m)).
    { induction a as [|[t x] a IH]; intros; cbn; [reflexivity|]. apply IH. }
    rewrite Ht. cbn [tmax]. replace (Z.max nw t1) with t1 by lia. reflexivity. }
  destruct (bin_loop M unmarshal f (C (tmax p t4) r5 c)); reflexivity.
Qed.

(* THE REFINEMENT: on every sorted timed stream, with or without a close after it, the binary
   read loop delivers exactly the frames of the reference reading, at their completion
   times, allocates only below the limit, and ends as the reference reading says. *)
Theorem bin_refines : forall fuel tb nw c,
  tb_sorted nw tb = true -> close_after c nw tb -> (length tb < fuel)%nat ->
  deliveries (fst (bin fuel (C nw tb c))) = map (fun g => (snd g, unmarshal (fst g))) (fst (walk_bin fuel tb)) /\
  Forall (fun n => n < limit) (allocs (fst (bin fuel (C nw tb c)))) /\
  snd (bin fuel (C nw tb c)) = spec_outcome (snd (walk_bin fuel tb)) c.
Proof.
  induction fuel as [|f IH]; intros tb nw c Hs Hc Hf; [lia|].
  pose proof (bin_step f nw tb c Hs Hc) as Hstep.
  cbn [walk_bin]. destruct (next_frame tb) as [p te rest|t k|] eqn:En.
  - destruct Hstep as (t4 & n & Hn & Hte & (a & Ha & Hta) & Heq). rewrite Heq. cbn [fst snd deliveries allocs].
    assert (Hlen : (length rest < f)%nat).
    { subst tb. rewrite app_length in Hf.
      assert (a <> []). { intro; subst a. cbn in *. unfold next_frame in En. destruct rest as [|[t1 b1] r]; [discriminate|].
        destruct (split_tr 4 ((t1, b1) :: r) []) as [[h r']|] eqn:E4; [|discriminate].
        (* a frame consumes at least its header *)
        apply split_tr_sound in E4. destruct E4 as [E4 Hl].
        destruct (t1 + inframe <=? tmax h t1); [discriminate|].
        destruct (limit <=? u32le (snds h)); [discriminate|].
        destruct (split_tr (u32le (snds h)) r' []) as [[pp rr]|] eqn:Ep; [|discriminate].
        destruct (tmax h t1 + inframe <=? tmax pp (tmax h t1)); [discriminate|].
        inversion En; subst. apply split_tr_sound in Ep. destruct Ep as [Ep _].
        assert (length ((t1, b1) :: r) = length (h ++ pp ++ (t1, b1) :: r))%nat by (rewrite E4 at 1; rewrite Ep; reflexivity).
        rewrite !app_length in H. unfold zlen in Hl. cbn [length] in H. lia. }
      destruct a; [congruence|]. cbn [length] in Hf. lia. }
    assert (Hs' : tb_sorted te rest = true). { subst tb te. apply tb_sorted_app. exact Hs. }
    assert (Hc' : close_after c te rest). { subst tb te. apply close_after_suffix. exact Hc. }
    destruct (IH rest te c Hs' Hc' Hlen) as (H1 & H2 & H3).
    destruct (walk_bin f rest) as [g e] eqn:Ew. cbn [fst snd map] in *.
    rewrite H1. split; [reflexivity|]. split; [constructor; assumption|exact H3].
  - destruct Hstep as (H1 & H2 & H3). cbn [fst snd map]. rewrite H1. auto.
  - rewrite Hstep. cbn. auto.
Qed.

End Reader.
