(* C06, outbound half: the models of the two outbound converters never panic.
   dec_out_total : for ALL byte-string lists the decoder model returns Ok (its result type
                   `list out_msg` has no nil element by construction: a line that leaves
                   `msg` nil contributes nothing, as `if msg != nil` in the source);
                   the regex-guarded sub-match indexing is discharged by the matcher
                   lemmas "a match has exactly k+1 entries".
   enc_out_total : for all message lists without nil pointers (the shape proto.Unmarshal
                   produces: any presence pattern of sub-messages, any enum / integer
                   values, any bytes) the encoder model returns Ok, for every map order. *)
From RP Require Import Lib.Base Lib.Sexp Lib.Strings Lib.Utf8 Lib.FloatFmt Model.MsgOut Model.EncOut Model.DecOut.
Open Scope Z_scope.

(* ---------------------------------------------------------------- matcher shapes *)
Lemma re_event_shape s : re_event s = [] \/ exists a b c d e f g, re_event s = [a; b; c; d; e; f; g].
Proof.
  unfold re_event.
  destruct (drop_prefix _ s) as [r|]; [|left; reflexivity].
  destruct (span is_digit r) as [p r1].
  destruct (null p); [left; reflexivity|].
  destruct (match r1 with 61 :: r2 => ev_after_eq r2 | _ => None end) as [[[k g5] g6]|].
  { right. repeat eexists. }
  destruct r1 as [|c r1']; [left; reflexivity|].
  destruct (c =? 10); [left; reflexivity|].
  destruct (span is_digit _) as [e r3].
  destruct (null e); [left; reflexivity|].
  destruct r3 as [|x r4]; [left; reflexivity|].
  destruct (Z.eq_dec x 61) as [->|Hx].
  - destruct (ev_after_eq r4) as [[[k g5] g6]|]; [right; repeat eexists|left; reflexivity].
  - left. destruct x as [|q|q]; try reflexivity.
    do 6 (destruct q as [q|q|]; try reflexivity). contradiction Hx. reflexivity.
Qed.

Lemma re_map_shape s : re_map s = [] \/ exists a b c, re_map s = [a; b; c].
Proof.
  unfold re_map. destruct (drop_prefix _ s) as [r|]; [|left; reflexivity].
  destruct (span is_digit r) as [a r1]. destruct r1 as [|x r2]; [left; reflexivity|].
  destruct (Z.eq_dec x 58) as [->|Hx].
  - destruct (negb (null a) && negb (null r2) && forallb is_digit r2); [right; repeat eexists|left; reflexivity].
  - left. destruct x as [|q|q]; try reflexivity.
    do 6 (destruct q as [q|q|]; try reflexivity). contradiction Hx. reflexivity.
Qed.

Lemma re_generic_shape s : re_generic s = [] \/ exists a b c, re_generic s = [a; b; c].
Proof.
  unfold re_generic. destruct (cut_on 61 s) as [[k v] f]. destruct f; [|left; reflexivity].
  match goal with |- context [if ?x then _ else _] => destruct x end; [right; repeat eexists|left; reflexivity].
Qed.

Lemma re_regs_shape s : re_regs s = [] \/ exists a b c d, re_regs s = [a; b; c; d].
Proof.
  unfold re_regs. destruct (match_kw reg_kws s) as [[k r]|]; [|left; reflexivity].
  destruct (span is_regid r) as [id r1]. destruct r1 as [|x v]; [left; reflexivity|].
  destruct (Z.eq_dec x 61) as [->|Hx].
  - destruct (negb (null v) && forallb is_digit v); [right; repeat eexists|left; reflexivity].
  - left. destruct x as [|q|q]; try reflexivity.
    do 6 (destruct q as [q|q|]; try reflexivity). contradiction Hx. reflexivity.
Qed.

(* ---------------------------------------------------------------- decoder *)
Section DecTotal.
Variable netparse : bytes -> option bytes.

Lemma dec_event_total a b c d e f g : exists om, dec_event [a; b; c; d; e; f; g] = Ok om.
Proof.
  unfold dec_event, sub. cbn [nth_error bind].
  repeat match goal with |- context [if ?x then _ else _] => destruct x end; cbn [bind]; eexists; reflexivity.
Qed.

Lemma dec_regs_total a b c d : exists om, dec_regs [a; b; c; d] = Ok om.
Proof.
  unfold dec_regs, sub. cbn [nth_error bind].
  repeat match goal with |- context [if ?x then _ else _] => destruct x end; cbn [bind]; eexists; reflexivity.
Qed.

Lemma dec_out_line_total s : exists om, dec_out_line netparse s = Ok om.
Proof.
  unfold dec_out_line.
  destruct (null s); [eexists; reflexivity|].
  repeat (match goal with |- context [if is_str s ?n then _ else _] => destruct (is_str s n); [eexists; reflexivity|] end).
  destruct (re_event_shape s) as [E|[a [b [c [d [e [f [g E]]]]]]]]; rewrite E; cbn [null negb].
  2: apply dec_event_total.
  destruct (re_map_shape s) as [E2|[a [b [c E2]]]]; rewrite E2; cbn [null negb].
  2: { unfold sub. cbn [nth_error bind]. eexists; reflexivity. }
  destruct (re_generic_shape s) as [E3|[a [b [c E3]]]]; rewrite E3; cbn [null negb].
  2: { unfold sub. cbn [nth_error bind]. eexists; reflexivity. }
  destruct (re_regs_shape s) as [E4|[a [b [c [d E4]]]]]; rewrite E4; cbn [null negb].
  2: apply dec_regs_total.
  eexists; reflexivity.
Qed.

Theorem dec_out_total : forall ls, exists ms, dec_out netparse ls = Ok ms.
Proof.
  induction ls as [|l r [ms IH]]; [exists []; reflexivity|].
  cbn [dec_out]. destruct (dec_out_line_total l) as [om E]. rewrite E, IH. cbn [bind]. eexists; reflexivity.
Qed.
End DecTotal.

(* ---------------------------------------------------------------- encoder *)
Definition no_nil {A} (l : list (option A)) : Prop := Forall (fun o => o <> None) l.

(* a message as proto.Unmarshal can produce it: no nil element in its repeated message fields *)
Definition wire_reachable (m : out_msg) : Prop := no_nil (om_events m) /\ no_nil (om_regs m).

Lemma enc_events_total l : no_nil l -> exists ls, enc_events l = Ok ls.
Proof.
  induction l as [|[e|] r IH]; intros H; [exists []; reflexivity| |].
  - inversion H; subst. destruct (IH H3) as [ls E]. cbn [enc_events]. rewrite E. cbn [bind]. eexists; reflexivity.
  - inversion H; subst. congruence.
Qed.

Lemma enc_regs_total l : no_nil l -> exists ls, enc_regs l = Ok ls.
Proof.
  induction l as [|[e|] r IH]; intros H; [exists []; reflexivity| |].
  - inversion H; subst. destruct (IH H3) as [ls E]. cbn [enc_regs]. rewrite E. cbn [bind]. eexists; reflexivity.
  - inversion H; subst. congruence.
Qed.

Section EncTotal.
Variables flat flat_svg : bytes -> bytes.

Lemma enc_msg_total ord m : wire_reachable m -> exists ls, enc_msg flat flat_svg ord m = Ok ls.
Proof.
  intros [He Hr]. unfold enc_msg.
  destruct (enc_events_total _ He) as [a Ea]. destruct (enc_regs_total _ Hr) as [b Eb].
  rewrite Ea, Eb. cbn [bind]. eexists; reflexivity.
Qed.

Lemma enc_out_raw_total : forall ms ords,
  no_nil ms -> Forall (fun o => match o with Some m => wire_reachable m | None => True end) ms ->
  exists ls, enc_out_raw flat flat_svg ords ms = Ok ls.
Proof.
  induction ms as [|[m|] r IH]; intros ords Hn Hw; [exists []; reflexivity| |].
  - inversion Hn; subst. inversion Hw; subst. cbn [enc_out_raw].
    destruct (enc_msg_total (match ords with o :: _ => o | [] => om_map m end) m H3) as [ls E]. rewrite E.
    destruct (IH (tl ords) H2 H4) as [rs E2]. rewrite E2. cbn [bind]. eexists; reflexivity.
  - inversion Hn; subst. congruence.
Qed.

Theorem enc_out_total : forall ms ords,
  no_nil ms -> Forall (fun o => match o with Some m => wire_reachable m | None => True end) ms ->
  exists ls, enc_out flat flat_svg ords ms = Ok ls.
Proof.
  intros ms ords Hn Hw. destruct (enc_out_raw_total ms ords Hn Hw) as [ls E].
  unfold enc_out. rewrite E. cbn [bind]. eexists; reflexivity.
Qed.
End EncTotal.
