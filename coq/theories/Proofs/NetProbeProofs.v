(* C12: negotiation.  Classification by the reconnecting client and by the stand-alone
   detector, for all reply contents. *)
From RP Require Import Lib.Base Lib.Varint Lib.Strings Model.Net Model.Client Spec.NetSpec.
From Coq Require Import ZifyBool.

Lemma list_eqb_Zeqb_eq : forall a b, bytes_eqb a b = true <-> a = b.
Proof.
  unfold bytes_eqb. induction a as [|x a IH]; destruct b as [|y b]; cbn; split; intro H; try congruence; try reflexivity.
  - apply andb_true_iff in H. destruct H as [H1 H2]. apply Z.eqb_eq in H1. apply IH in H2. congruence.
  - inversion H; subst. apply andb_true_iff. split. apply Z.eqb_refl. apply IH. reflexivity.
Qed.

Lemma bytes_eqb_refl : forall a, bytes_eqb a a = true.
Proof. intro. apply list_eqb_Zeqb_eq. reflexivity. Qed.

Lemma has_prefix_inv : forall p s, has_prefix p s = true -> exists r, s = p ++ r.
Proof.
  induction p as [|a p IH]; intros s H; cbn in H.
  - exists s. reflexivity.
  - destruct s as [|b s]; [discriminate|]. apply andb_true_iff in H. destruct H as [H1 H2].
    apply Z.eqb_eq in H1. subst. destruct (IH _ H2) as [r ->]. exists r. reflexivity.
Qed.

Lemma has_prefix_app : forall p r, has_prefix p (p ++ r) = true.
Proof. induction p; intros; cbn; [reflexivity|]. rewrite Z.eqb_refl. cbn. apply IHp. Qed.

Lemma upto_lf_first_line : forall s, upto_lf s = first_line s.
Proof. induction s; cbn; [reflexivity|]. destruct (a =? 10); congruence. Qed.

(* a prefix of the first line is a prefix of the whole *)
Lemma has_prefix_upto_lf : forall p s, has_prefix p (upto_lf s) = true -> has_prefix p s = true.
Proof.
  induction p as [|a p IH]; intros s H; cbn in *; [reflexivity|].
  destruct s as [|b s]; cbn in H; [discriminate|].
  destruct (b =? 10) eqn:E; cbn in H; [discriminate|].
  apply andb_true_iff in H. destruct H as [H1 H2]. rewrite H1. cbn. apply IH. exact H2.
Qed.

Lemma has_prefix_upto_lf_conv : forall p s, forallb (fun c => negb (c =? 10)) p = true ->
  has_prefix p s = true -> has_prefix p (upto_lf s) = true.
Proof.
  induction p as [|a p IH]; intros s Hp H; cbn in *; [reflexivity|].
  destruct s as [|b s]; [discriminate|].
  apply andb_true_iff in Hp. destruct Hp as [Ha Hp].
  apply andb_true_iff in H. destruct H as [H1 H2].
  apply Z.eqb_eq in H1. subst b. cbn. destruct (a =? 10) eqn:E; [discriminate|].
  cbn. rewrite Z.eqb_refl. cbn. apply IH; assumption.
Qed.

Lemma le32_dec_u32le : forall r, le32_dec r = u32le r.
Proof. intros [|a [|b [|c [|d r]]]]; cbn [le32_dec u32le]; try reflexivity. lia. Qed.

Lemma u32le_range : forall r, bytes_ok r = true -> 0 <= u32le r < 4294967296.
Proof.
  intros [|a [|b [|c [|d r]]]] H; cbn [u32le bytes_ok forallb] in *; try lia.
  unfold byte_ok in H. lia.
Qed.

Lemma zlen_cons' {A} (x : A) l : zlen (x :: l) = 1 + zlen l.
Proof. unfold zlen. cbn [length]. lia. Qed.
Lemma zlen_nonneg' {A} (l : list A) : 0 <= zlen l.
Proof. unfold zlen. lia. Qed.

(* the client says binary exactly for one frame whose header matches the byte count *)
Lemma client_binary_iff : forall r, bytes_ok r = true -> zlen r <= 1000 ->
  fst (classify_client (PData r)) = ((4 <? zlen r) && (u32le r =? zlen r - 4)).
Proof.
  intros r Hok Hn. cbn. rewrite le32_dec_u32le.
  pose proof (u32le_range r Hok) as Hr. pose proof (zlen_nonneg' r) as Hz.
  destruct (4 <? zlen r) eqn:E4; cbn; [|reflexivity].
  unfold wrap32.
  destruct (u32le r =? zlen r - 4) eqn:Eu.
  - apply Z.eqb_eq in Eu. rewrite Eu. replace (zlen r - 4 + 4) with (zlen r) by lia.
    rewrite Z.mod_small by lia. rewrite Z.eqb_refl. reflexivity.
  - apply Z.eqb_neq in Eu.
    destruct (Z_lt_dec (u32le r + 4) 4294967296).
    + rewrite Z.mod_small by lia. destruct (u32le r + 4 =? zlen r) eqn:E; [lia|reflexivity].
    + replace ((u32le r + 4) mod 4294967296) with (u32le r + 4 - 4294967296).
      * destruct (u32le r + 4 - 4294967296 =? zlen r) eqn:E; [lia|reflexivity].
      * apply Z.mod_unique with 1; lia.
Qed.

Lemma client_text : forall r, fst (classify_client (PData r)) = false ->
  classify_client (PData r) = (false, errmsg_of r).
Proof.
  intros r H. cbn in *. destruct ((4 <? zlen r) && (wrap32 (le32_dec r + 4) =? zlen r)); [discriminate|reflexivity].
Qed.


Lemma client_ascii_when : forall r v, le32_dec r = v -> 1000 < wrap32 (v + 4) -> zlen r <= 1000 ->
  classify_client (PData r) = (false, errmsg_of r).
Proof.
  intros r v Hv Hw Hn. apply client_text. cbn. rewrite Hv.
  destruct (4 <? zlen r); [|reflexivity]. cbn.
  destruct (wrap32 (v + 4) =? zlen r) eqn:E; [lia|reflexivity].
Qed.

Lemma errmsg_of_spec : forall r, has_prefix str_errormsg r = true ->
  errmsg_of r = skipn 9 (first_line r).
Proof.
  intros r H. unfold errmsg_of. rewrite (has_prefix_upto_lf_conv errormsg_prefix r); [|reflexivity|exact H].
  rewrite upto_lf_first_line. reflexivity.
Qed.

Lemma errmsg_of_none : forall r, has_prefix str_errormsg r = false -> errmsg_of r = [].
Proof.
  intros r H. unfold errmsg_of. destruct (has_prefix errormsg_prefix (upto_lf r)) eqn:E; [|reflexivity].
  apply has_prefix_upto_lf in E. unfold str_errormsg, errormsg_prefix in *. congruence.
Qed.

(* the error text for a reply "ErrorMsg=<e>\n..." is e *)
Lemma errmsg_extracted : forall e rest, forallb (fun c => negb (c =? 10)) e = true ->
  errmsg_of (errormsg_prefix ++ e ++ 10 :: rest) = e /\ errmsg_of (errormsg_prefix ++ e) = e.
Proof.
  intros e rest He.
  assert (Hu : forall tl, upto_lf (e ++ 10 :: tl) = e).
  { intro tl. induction e as [|c e IH]; cbn; [reflexivity|]. cbn in He. apply andb_true_iff in He. destruct He as [Hc He].
    destruct (c =? 10); [discriminate|]. rewrite IH by exact He. reflexivity. }
  assert (Hu2 : upto_lf e = e).
  { clear Hu. induction e as [|c e IH]; cbn; [reflexivity|]. cbn in He. apply andb_true_iff in He. destruct He as [Hc He].
    destruct (c =? 10); [discriminate|]. rewrite IH by exact He. reflexivity. }
  split; unfold errmsg_of, errormsg_prefix; cbn [app upto_lf Z.eqb]; cbn.
  - rewrite Hu. cbn. reflexivity.
  - rewrite Hu2. cbn. reflexivity.
Qed.

(* ---------- the model meets the spec predicate for every reply ---------- *)
Definition probe_result (reply : option (Z * bytes)) : pres :=
  match reply with
  | Some (t, r) => if t <? 2000 then PData r else PErr
  | None => PErr
  end.

Lemma negotiation_probe : forall b, firstn 6 (negotiation_bytes b) = probe_expected.
Proof. destruct b; reflexivity. Qed.

Lemma client_meets_spec : forall reply,
  (forall t r, reply = Some (t, r) -> bytes_ok r = true /\ zlen r <= 1000) ->
  let bin := fst (classify_client (probe_result reply)) in
  let err := snd (classify_client (probe_result reply)) in
  c12_judge true (classify_reply reply) bin err (negotiation_bytes bin) = [].
Proof.
  intros reply Hr. destruct reply as [[t r]|]; [|reflexivity].
  destruct (Hr t r eq_refl) as [Hok Hn]. clear Hr.
  unfold classify_reply, probe_result, window.
  destruct (t <? 2000) eqn:Et.
  2:{ assert (E : 2000 <=? t = true) by lia. rewrite E. reflexivity. }
  assert (E : 2000 <=? t = false) by lia. rewrite E. clear E.
  destruct (bytes_eqb r (lenprefix ack_msg)) eqn:Eack.
  { apply list_eqb_Zeqb_eq in Eack. subst r. reflexivity. }
  destruct (has_prefix str_rdy r) eqn:Erdy.
  { apply has_prefix_inv in Erdy. destruct Erdy as [rest ->].
    assert (Hc : classify_client (PData (str_rdy ++ rest)) = (false, [])).
    { rewrite (client_ascii_when _ 173622354); [|reflexivity|reflexivity|exact Hn].
      rewrite errmsg_of_none by reflexivity. reflexivity. }
    rewrite Hc. reflexivity. }
  destruct (has_prefix str_map r) eqn:Emap.
  { apply has_prefix_inv in Emap. destruct Emap as [rest ->].
    assert (Hc : classify_client (PData (str_map ++ rest)) = (false, [])).
    { rewrite (client_ascii_when _ 1030775149); [|reflexivity|reflexivity|exact Hn].
      rewrite errmsg_of_none by reflexivity. reflexivity. }
    rewrite Hc. reflexivity. }
  pose proof (client_binary_iff r Hok Hn) as Hb.
  destruct ((4 <? zlen r) && (zlen r <=? 1000) && (u32le r =? zlen r - 4)) eqn:Eof.
  { unfold c12_judge. rewrite negotiation_probe. rewrite bytes_eqb_refl. reflexivity. }
  assert (Hbin : fst (classify_client (PData r)) = false).
  { rewrite Hb. lia. }
  rewrite (client_text r Hbin). cbn [fst snd].
  destruct (has_prefix str_errormsg r) eqn:Eerr.
  { rewrite (errmsg_of_spec r Eerr). unfold c12_judge. cbn [negb andb]. rewrite bytes_eqb_refl.
    change (bytes_eqb (firstn 6 (negotiation_bytes false)) probe_expected) with true.
    change (bytes_eqb (negotiation_bytes false) (probe_expected ++ [10])) with true.
    rewrite ?bytes_eqb_refl. reflexivity. }
  rewrite (errmsg_of_none r Eerr). reflexivity.
Qed.

Lemma detector_meets_spec : forall reply,
  let bin := classify_detector (probe_result reply) in
  c12_judge false (classify_reply reply) bin [] (negotiation_bytes bin) = [].
Proof.
  intros reply. destruct reply as [[t r]|]; [|reflexivity].
  unfold classify_reply, probe_result, window.
  destruct (t <? 2000) eqn:Et.
  2:{ assert (E : 2000 <=? t = true) by lia. rewrite E. reflexivity. }
  assert (E : 2000 <=? t = false) by lia. rewrite E. clear E.
  destruct (bytes_eqb r (lenprefix ack_msg)) eqn:Eack.
  { apply list_eqb_Zeqb_eq in Eack. subst r. reflexivity. }
  destruct (has_prefix str_rdy r) eqn:Erdy.
  { apply has_prefix_inv in Erdy. destruct Erdy as [rest ->].
    assert (Hc : classify_detector (PData (str_rdy ++ rest)) = false).
    { unfold classify_detector.
      assert (E : 4 <=? zlen (str_rdy ++ rest) = true) by (unfold zlen; rewrite app_length; cbn [length str_rdy]; lia).
      rewrite E. reflexivity. }
    rewrite Hc. reflexivity. }
  destruct (has_prefix str_map r) eqn:Emap.
  { apply has_prefix_inv in Emap. destruct Emap as [rest ->].
    assert (Hc : classify_detector (PData (str_map ++ rest)) = false).
    { unfold classify_detector.
      assert (E : 4 <=? zlen (str_map ++ rest) = true) by (unfold zlen; rewrite app_length; cbn [length str_map]; lia).
      rewrite E. reflexivity. }
    rewrite Hc. reflexivity. }
  destruct ((4 <? zlen r) && (zlen r <=? 1000) && (u32le r =? zlen r - 4));
    [|destruct (has_prefix str_errormsg r)];
    unfold c12_judge; rewrite negotiation_probe, bytes_eqb_refl; reflexivity.
Qed.

(* ---------- named clauses ---------- *)
Lemma probe_is_one_ping :
  probe_bytes = lenprefix ping_msg /\ parse_frames 2 probe_bytes = ([ping_msg], []) /\
  ping_msg = pb_varint_field 1 1 /\ negotiation_bytes true = probe_bytes /\ negotiation_bytes false = probe_bytes ++ [10].
Proof. repeat split; reflexivity. Qed.

Lemma le32_dec_frame : forall p, 0 <= zlen p < 4294967296 -> le32_dec (frame p) = zlen p.
Proof.
  intros p H. unfold frame, le32, wrap32. cbv zeta. cbn [app le32_dec].
  rewrite (Z.mod_small (zlen p) 4294967296) by lia.
  set (n := zlen p) in *. clearbody n.
  Z.div_mod_to_equations. lia.
Qed.

(* any single well-formed frame of at most 1000 bytes in all: binary for both, nothing written *)
Lemma frame_binary : forall p, 0 < zlen p -> zlen p <= 996 ->
  classify_client (PData (frame p)) = (true, []) /\
  classify_detector (PData (frame p)) = true /\
  negotiation_bytes true = probe_bytes.
Proof.
  intros p H0 H1.
  assert (Hl : zlen (frame p) = 4 + zlen p).
  { unfold frame, le32. rewrite !zlen_cons' || idtac. unfold zlen. cbn [app length]. rewrite !Nat2Z.inj_succ. lia. }
  assert (Hd : le32_dec (frame p) = zlen p) by (apply le32_dec_frame; lia).
  split; [|split; [|reflexivity]].
  - cbn -[frame]. rewrite Hl, Hd. unfold wrap32. rewrite Z.mod_small by lia.
    assert (E1 : 4 <? 4 + zlen p = true) by lia. assert (E2 : zlen p + 4 =? 4 + zlen p = true) by lia.
    rewrite E1, E2. reflexivity.
  - unfold classify_detector. rewrite Hl.
    destruct (bytes_eqb (firstn 4 (frame p)) rdy_word) eqn:Er.
    { apply list_eqb_Zeqb_eq in Er.
      assert (Hx : le32_dec (frame p) = le32_dec (firstn 4 (frame p))) by (unfold frame, le32; cbv zeta; reflexivity).
      rewrite Er in Hx. change (le32_dec rdy_word) with 173622354 in Hx. lia. }
    destruct (bytes_eqb (firstn 4 (frame p)) map_word) eqn:Em.
    { apply list_eqb_Zeqb_eq in Em.
      assert (Hx : le32_dec (frame p) = le32_dec (firstn 4 (frame p))) by (unfold frame, le32; cbv zeta; reflexivity).
      rewrite Em in Hx. change (le32_dec map_word) with 1030775149 in Hx. lia. }
    cbn. rewrite andb_false_r. reflexivity.
Qed.

Lemma silence_ascii :
  classify_client PErr = (false, []) /\ classify_detector PErr = false /\
  negotiation_bytes false = probe_bytes ++ [10].
Proof. repeat split; reflexivity. Qed.

(* a "map=" reply can never be taken for a frame: its first four bytes read as a length are
   1 030 775 149, far above the 1000-byte probe buffer; likewise "RDY\n" *)
Lemma text_words_are_not_lengths : le32_dec map_word = 1030775149 /\ le32_dec rdy_word = 173622354.
Proof. split; reflexivity. Qed.

(* ---------- timing: what the single probe read returns ---------- *)
Local Opaque firstn skipn.
Lemma probe_read_in_window : forall t r rest, r <> [] -> t < 2000 -> zlen r <= 1000 ->
  fst (probe_read (Seg t r :: rest)) = PData r.
Proof.
  intros t r rest Hr Ht Hn. cbn. destruct r as [|b r]; [congruence|].
  assert (E : t <? 2000 = true) by lia. rewrite E. cbn [fst]. f_equal.
  Local Transparent firstn. apply firstn_all2. unfold zlen in Hn. change 1000%nat with (Z.to_nat 1000). lia.
Qed.

Lemma probe_read_late : forall t r rest, r <> [] -> 2000 <= t ->
  fst (probe_read (Seg t r :: rest)) = PErr /\ now (snd (probe_read (Seg t r :: rest))) = 2000.
Proof.
  intros t r rest Hr Ht. cbn. destruct r as [|b r]; [congruence|].
  assert (E : t <? 2000 = false) by lia. rewrite E. split; reflexivity.
Qed.

Lemma probe_read_silent : fst (probe_read []) = PErr /\ now (snd (probe_read [])) = 2000.
Proof. split; reflexivity. Qed.

Lemma probe_read_closed : forall t rest, fst (probe_read (Close t :: rest)) = PErr /\ fst (probe_read (Reset t :: rest)) = PErr.
Proof. intros. cbn. destruct (t <? 2000); split; reflexivity. Qed.
