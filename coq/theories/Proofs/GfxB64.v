(* encoding/base64 model: decode (encode x) = x, shape of the encoder's output. *)
From RP Require Import Lib.Base Lib.B64.
From Coq Require Import ZifyBool.
Open Scope Z_scope.

Ltac Zify.zify_post_hook ::= Z.div_mod_to_equations.

Lemma b64_val_char v : 0 <= v < 64 -> b64_val (b64_char v) = Some v.
Proof.
  intros Hv.
  assert (H64 : forallb (fun n => match b64_val (b64_char (Z.of_nat n)) with
                                   | Some w => w =? Z.of_nat n | None => false end) (seq 0 64) = true)
    by (vm_compute; reflexivity).
  rewrite forallb_forall in H64. specialize (H64 (Z.to_nat v)).
  rewrite Z2Nat.id in H64 by lia.
  destruct (b64_val (b64_char v)) as [w|].
  - f_equal. apply Z.eqb_eq. apply H64. apply in_seq. lia.
  - discriminate H64. apply in_seq. lia.
Qed.

(* characters of the alphabet: not LF, CR, '=' and inside ASCII *)
Definition b64_alpha (c : Z) : bool := match b64_val c with Some _ => true | None => false end.

Lemma b64_char_alpha v : 0 <= v < 64 -> b64_alpha (b64_char v) = true.
Proof. intros. unfold b64_alpha. rewrite b64_val_char by lia. reflexivity. Qed.

Lemma list_ind3 {A} (P : list A -> Prop) :
  P [] -> (forall a, P [a]) -> (forall a b, P [a; b]) ->
  (forall a b c r, P r -> P (a :: b :: c :: r)) -> forall l, P l.
Proof.
  intros H0 H1 H2 H3.
  assert (forall n l, (length l <= n)%nat -> P l) as Hn.
  { induction n; intros l Hl.
    - destruct l; [exact H0 | simpl in Hl; lia].
    - destruct l as [|a [|b [|c r]]]; auto.
      apply H3. apply IHn. simpl in Hl. lia. }
  intros l. apply (Hn (length l)). lia.
Qed.

Lemma bytes_ok_cons b r : bytes_ok (b :: r) = true <-> (0 <= b < 256) /\ bytes_ok r = true.
Proof.
  unfold bytes_ok. cbn [forallb]. rewrite andb_true_iff. unfold byte_ok at 1.
  rewrite andb_true_iff, Z.leb_le, Z.ltb_lt. tauto.
Qed.

Lemma b64_roundtrip_q : forall s, bytes_ok s = true -> b64_dec (b64_encode s) [] = s.
Proof.
  induction s as [| a | a b | a b c r IH] using list_ind3; intros Hok.
  - reflexivity.
  - apply bytes_ok_cons in Hok. destruct Hok as [Ha _].
    cbn [b64_encode b64_dec].
    rewrite !b64_val_char by lia. cbn. f_equal. lia.
  - apply bytes_ok_cons in Hok. destruct Hok as [Ha Hok].
    apply bytes_ok_cons in Hok. destruct Hok as [Hb _].
    cbn [b64_encode b64_dec].
    rewrite !b64_val_char by lia. cbn. f_equal; [lia|]. f_equal. lia.
  - apply bytes_ok_cons in Hok. destruct Hok as [Ha Hok].
    apply bytes_ok_cons in Hok. destruct Hok as [Hb Hok].
    apply bytes_ok_cons in Hok. destruct Hok as [Hc Hok].
    cbn [b64_encode b64_dec].
    rewrite !b64_val_char by lia.
    rewrite IH by exact Hok. unfold quantum_bytes. cbn [app].
    f_equal; [lia|]. f_equal; [lia|]. f_equal. lia.
Qed.

Theorem b64_roundtrip : forall s, bytes_ok s = true -> b64_decode (b64_encode s) = s.
Proof. exact b64_roundtrip_q. Qed.

(* every character the encoder writes is an alphabet character or '=' *)
Definition b64_outch (c : Z) : bool := b64_alpha c || (c =? 61).

Lemma b64_encode_chars : forall s, bytes_ok s = true -> forallb b64_outch (b64_encode s) = true.
Proof.
  induction s as [| a | a b | a b c r IH] using list_ind3; intros Hok.
  - reflexivity.
  - apply bytes_ok_cons in Hok. destruct Hok as [Ha _].
    cbn [b64_encode forallb]. unfold b64_outch. rewrite !b64_char_alpha by lia. reflexivity.
  - apply bytes_ok_cons in Hok. destruct Hok as [Ha Hok].
    apply bytes_ok_cons in Hok. destruct Hok as [Hb _].
    cbn [b64_encode forallb]. unfold b64_outch. rewrite !b64_char_alpha by lia. reflexivity.
  - apply bytes_ok_cons in Hok. destruct Hok as [Ha Hok].
    apply bytes_ok_cons in Hok. destruct Hok as [Hb Hok].
    apply bytes_ok_cons in Hok. destruct Hok as [Hc Hok].
    cbn [b64_encode forallb]. rewrite IH by exact Hok.
    unfold b64_outch. rewrite !b64_char_alpha by lia. reflexivity.
Qed.

Lemma b64_outch_not_lf c : b64_outch c = true -> c <> 10.
Proof.
  unfold b64_outch, b64_alpha, b64_val. intros H Hc. subst c. vm_compute in H. discriminate.
Qed.
