(* C04 composition: map lines, registers, lines outside the grammar; the per-line theorem
   and the three statements dec_out_sound, dec_out_ignores_nongrammar, press_is_down_then_up. *)
From RP Require Import Lib.Base Lib.Sexp Lib.Strings Lib.Utf8 Lib.TrimSpace Lib.FloatFmt Model.MsgOut Model.DecOut
  Spec.DenoteOut Spec.GrammarOut Proofs.GfxNum Proofs.OutStrings Proofs.OutDecSkel Proofs.OutDecEvent
  Proofs.OutDecSys Proofs.OutDecKV Proofs.OutReader.
From Coq Require Import String.
Open Scope Z_scope.

Lemma key_not_in_gen key : lookup key key_table = None -> existsb (bytes_eqb key) gen_keys = false.
Proof.
  intros H. destruct (existsb (bytes_eqb key) gen_keys) eqn:E; [|reflexivity]. exfalso.
  apply existsb_exists in E. destruct E as [k [Hin Hk]]. apply beqb_eq in Hk. subst k.
  unfold gen_keys in Hin. cbn [map In] in Hin.
  repeat (destruct Hin as [Hin|Hin]; [subst key; cbn in H; discriminate|]). destruct Hin.
Qed.

Lemma read_value_not_nongrammar vk v : read_value vk v <> NonGrammar.
Proof.
  unfold read_value. destruct (has_lf v); [discriminate|].
  destruct vk.
  - destruct v; discriminate.
  - destruct (read_u32 v); discriminate.
  - destruct (read_bool v); discriminate.
  - destruct (lookup v names); discriminate.
  - destruct v; [discriminate|]. destruct (forallb canonical_elem _); discriminate.
  - destruct v; discriminate.
  - discriminate.
  - unfold read_sys. destruct v; [discriminate|].
    destruct (sys_pairs _ _) as [[[[[[[? ?] ?] ?] ?] ?] ?]|]; discriminate.
Qed.

(* ---------------------------------------------------------------- registers *)
Lemma re_regs_inv l : re_regs l <> [] ->
  exists kw id v, In kw reg_kws /\ l = kw ++ id ++ 61 :: v /\ forallb is_regid id = true /\
                  v <> [] /\ forallb is_digit v = true /\ re_regs l = [l; kw; id; v].
Proof.
  unfold re_regs. destruct (match_kw reg_kws l) as [[kw r]|] eqn:Em; [|congruence].
  destruct (match_kw_some _ _ _ _ Em) as [Hin Hl].
  destruct (span is_regid r) as [id r1] eqn:Es. destruct (span_spec _ _ _ _ Es) as [Hr [Hid _]].
  destruct r1 as [|c v]; [congruence|].
  destruct (Z.eq_dec c 61) as [->|Hc].
  - destruct (negb (null v) && forallb is_digit v) eqn:Eg; [|congruence]. intros _.
    apply andb_true_iff in Eg. destruct Eg as [Hv Hd].
    exists kw, id, v. subst r. repeat split; auto. destruct v; [discriminate|discriminate].
  - intros H. exfalso. apply H. destruct c as [|q|q]; try reflexivity.
    do 6 (destruct q as [q|q|]; try reflexivity). contradiction Hc. reflexivity.
Qed.

Lemma try_register_of_shape l kw id v k :
  l = str kw ++ id ++ 61 :: v -> forallb is_regid id = true -> try_register l kw k <> None.
Proof.
  intros -> Hid. unfold try_register. rewrite drop_prefix_app.
  rewrite (cut_on_app 61 id v (regid_no_eq id Hid)).
  assert (E : forallb is_regid_ch id = true) by exact Hid. rewrite E. discriminate.
Qed.

Lemma try_register_not_ng l kw k c : try_register l kw k = Some c -> c <> NonGrammar.
Proof.
  intros H. destruct (try_register_shape _ _ _ _ H) as [id [v [_ [_ ->]]]].
  destruct (read_u32 v); [|discriminate]. destruct (k =? 1); [|discriminate]. destruct (read_u32 id); discriminate.
Qed.

Lemma read_register_ng l : read_register l = NonGrammar ->
  try_register l "Flag#" 1 = None /\ try_register l "Mem" 0 = None /\
  try_register l "Shift" 2 = None /\ try_register l "State" 3 = None.
Proof.
  unfold read_register. intros H.
  destruct (try_register l "Flag#" 1) as [c|] eqn:E1; [exfalso; apply (try_register_not_ng _ _ _ _ E1 H)|].
  destruct (try_register l "Mem" 0) as [c|] eqn:E0; [exfalso; apply (try_register_not_ng _ _ _ _ E0 H)|].
  destruct (try_register l "Shift" 2) as [c|] eqn:E2; [exfalso; apply (try_register_not_ng _ _ _ _ E2 H)|].
  destruct (try_register l "State" 3) as [c|] eqn:E3; [exfalso; apply (try_register_not_ng _ _ _ _ E3 H)|].
  auto.
Qed.

Lemma register_nongrammar_no_match l : read_register l = NonGrammar -> re_regs l = [].
Proof.
  intros H. destruct (re_regs l) as [|a rest] eqn:E; [reflexivity|]. exfalso.
  destruct (re_regs_inv l) as [kw [id [v [Hin [Hl [Hid _]]]]]]; [congruence|].
  destruct (read_register_ng l H) as [N1 [N0 [N2 N3]]].
  unfold reg_kws in Hin. cbn [map In] in Hin.
  destruct Hin as [<-|[<-|[<-|[<-|[]]]]].
  - apply (try_register_of_shape l "Flag#" id v 1 Hl Hid N1).
  - apply (try_register_of_shape l "Mem" id v 0 Hl Hid N0).
  - apply (try_register_of_shape l "Shift" id v 2 Hl Hid N2).
  - apply (try_register_of_shape l "State" id v 3 Hl Hid N3).
Qed.

Lemma re_regs_shape_ok (kw : string) id v :
  match_kw reg_kws (str kw ++ id ++ 61 :: v) = Some (str kw, id ++ 61 :: v) ->
  forallb is_regid id = true -> digits_nonempty v = true ->
  re_regs (str kw ++ id ++ 61 :: v) = [str kw ++ id ++ 61 :: v; str kw; id; v].
Proof.
  intros Hm Hid Hv. apply digits_nonempty_spec in Hv. destruct Hv as [Hne Hd].
  unfold re_regs. rewrite Hm. rewrite (span_app_stop is_regid id 61 v Hid eq_refl).
  rewrite (null_false v Hne), Hd. reflexivity.
Qed.

Section Sound.
Variable np : bytes -> option bytes.

Lemma register_line_sound l rs :
  drop_prefix (str "HWC#") l = None -> drop_prefix (str "map=") l = None ->
  (forall key v, cut_on 61 l = (key, v, true) -> lookup key key_table = None) ->
  read_register l = WF true rs ->
  exists om, dec_rest np l = Ok om /\ den_om om = rs.
Proof.
  intros Hh Hm Hkey H.
  assert (PRE : dec_rest np l = if negb (null (re_regs l)) then dec_regs (re_regs l) else Ok (Some empty_msg)).
  { unfold dec_rest. rewrite (re_event_noprefix l Hh), (re_map_noprefix l Hm). cbn [null negb].
    unfold re_generic. destruct (cut_on 61 l) as [[key v] f] eqn:Ec. destruct f; [|reflexivity].
    rewrite (key_not_in_gen key (Hkey key v eq_refl)). reflexivity. }
  rewrite PRE. clear PRE. unfold read_register in H.
  (* which keyword succeeded *)
  assert (CASE : forall (kw : string) k c, try_register l kw k = Some c -> c = WF true rs ->
     match_kw reg_kws (str kw ++ match l with _ => skipn (List.length (str kw)) l end) = Some (str kw, skipn (List.length (str kw)) l) ->
     (k = 0 /\ kw = "Mem" \/ k = 1 /\ kw = "Flag#" \/ k = 2 /\ kw = "Shift" \/ k = 3 /\ kw = "State")%string ->
     exists om, (if negb (null (re_regs l)) then dec_regs (re_regs l) else Ok (Some empty_msg)) = Ok om /\ den_om om = rs).
  { intros kw k c Ht Hc Hmk Hk. subst c. destruct (try_register_shape _ _ _ _ Ht) as [id [v [Hl [Hid Hrs]]]].
    destruct (read_u32 v) as [x|] eqn:Ev; [|discriminate].
    destruct (read_u32_spec _ _ Ev) as [Hdv [Hav Hrv]].
    assert (Hsk : skipn (List.length (str kw)) l = id ++ 61 :: v).
    { rewrite Hl. clear. induction (str kw) as [|c s IH]; [reflexivity|exact IH]. }
    rewrite Hsk in Hmk. rewrite Hl. rewrite (re_regs_shape_ok kw id v Hmk Hid Hdv). cbn [null negb].
    unfold dec_regs, sub. cbn [nth_error bind].
    destruct Hk as [[-> ->]|[[-> ->]|[[-> ->]|[-> ->]]]]; cbn [Z.eqb] in Hrs.
    - injection Hrs as ->. unfold intval. rewrite Hav, (wrap32_id x Hrv). eexists; split; reflexivity.
    - destruct (read_u32 id) as [n|] eqn:En; [|discriminate]. injection Hrs as ->.
      destruct (read_u32_spec _ _ En) as [_ [Han _]]. unfold intval. rewrite Hav, Han. eexists; split; reflexivity.
    - injection Hrs as ->. unfold intval. rewrite Hav, (wrap32_id x Hrv). eexists; split; reflexivity.
    - injection Hrs as ->. unfold intval. rewrite Hav, (wrap32_id x Hrv). eexists; split; reflexivity. }
  assert (MK : forall (kw : string) k c, try_register l kw k = Some c ->
     In (str kw) reg_kws ->
     (forall id v, match_kw reg_kws (str kw ++ id ++ 61 :: v) = Some (str kw, id ++ 61 :: v)) ->
     match_kw reg_kws (str kw ++ skipn (List.length (str kw)) l) = Some (str kw, skipn (List.length (str kw)) l)).
  { intros kw k c Ht _ Hall. destruct (try_register_shape _ _ _ _ Ht) as [id [v [Hl _]]].
    assert (Hsk : skipn (List.length (str kw)) l = id ++ 61 :: v).
    { rewrite Hl. clear. induction (str kw) as [|c' s IH]; [reflexivity|exact IH]. }
    rewrite Hsk. apply Hall. }
  destruct (try_register l "Flag#" 1) as [c|] eqn:E1.
  { apply (CASE "Flag#"%string 1 c E1 H); [|tauto].
    apply (MK "Flag#"%string 1 c E1); [unfold reg_kws; cbn; tauto|intros; reflexivity]. }
  destruct (try_register l "Mem" 0) as [c|] eqn:E0.
  { apply (CASE "Mem"%string 0 c E0 H); [|tauto].
    apply (MK "Mem"%string 0 c E0); [unfold reg_kws; cbn; tauto|intros; reflexivity]. }
  destruct (try_register l "Shift" 2) as [c|] eqn:E2.
  { apply (CASE "Shift"%string 2 c E2 H); [|tauto].
    apply (MK "Shift"%string 2 c E2); [unfold reg_kws; cbn; tauto|intros; reflexivity]. }
  destruct (try_register l "State" 3) as [c|] eqn:E3; [|discriminate].
  apply (CASE "State"%string 3 c E3 H); [|tauto].
  apply (MK "State"%string 3 c E3); [unfold reg_kws; cbn; tauto|intros; reflexivity].
Qed.

(* ---------------------------------------------------------------- map lines *)
Lemma map_line_sound r a b k v :
  cut_on 58 r = (a, b, true) -> read_u32 a = Some k -> read_u32 b = Some v ->
  exists om, dec_rest np (str "map=" ++ r) = Ok om /\ den_om om = [RMap k v].
Proof.
  intros Hc Ha Hb. destruct (cut_on_found _ _ _ _ Hc) as [Hr _].
  destruct (read_u32_spec _ _ Ha) as [Hda [Haa Hra]]. destruct (read_u32_spec _ _ Hb) as [Hdb [Hab Hrb]].
  apply digits_nonempty_spec in Hda. destruct Hda as [Hnea Hda].
  apply digits_nonempty_spec in Hdb. destruct Hdb as [Hneb Hdb].
  unfold dec_rest. change (re_event (str "map=" ++ r)) with (@nil bytes). cbn [null negb].
  unfold re_map. rewrite drop_prefix_app. subst r. rewrite (span_app_stop is_digit a 58 b Hda eq_refl).
  rewrite (null_false a Hnea), (null_false b Hneb), Hdb. cbn [negb andb null].
  unfold sub. cbn [nth_error bind]. unfold intval. rewrite Haa, Hab, (wrap32_id k Hra), (wrap32_id v Hrb).
  eexists; split; reflexivity.
Qed.

(* ---------------------------------------------------------------- no '=' at all *)
Lemma no_eq_line l :
  drop_prefix (str "HWC#") l = None -> drop_prefix (str "map=") l = None ->
  forallb (fun x => negb (x =? 61)) l = true ->
  dec_rest np l = Ok (Some empty_msg).
Proof.
  intros Hh Hm Hno. unfold dec_rest. rewrite (re_event_noprefix l Hh), (re_map_noprefix l Hm). cbn [null negb].
  assert (Hc : exists a b, cut_on 61 l = (a, b, false)).
  { destruct (cut_on 61 l) as [[a b] f] eqn:E. destruct f; [|eauto].
    destruct (cut_on_found _ _ _ _ E) as [Hl _]. rewrite Hl in Hno. rewrite forallb_app in Hno.
    apply andb_true_iff in Hno. destruct Hno as [_ Hno]. cbn in Hno. discriminate. }
  destruct Hc as [a [b Hc]]. unfold re_generic. rewrite Hc. cbn [null negb].
  destruct (re_regs l) as [|x rest] eqn:E; [reflexivity|]. exfalso.
  destruct (re_regs_inv l) as [kw [id [v [_ [Hl _]]]]]; [congruence|].
  rewrite Hl in Hno. rewrite !forallb_app in Hno. apply andb_true_iff in Hno. destruct Hno as [_ Hno].
  apply andb_true_iff in Hno. destruct Hno as [_ Hno]. cbn in Hno. discriminate.
Qed.

(* ---------------------------------------------------------------- the per-line theorem *)
Theorem dec_line_sound l :
  line_judgeable l = true ->
  exists om, dec_out_line np l = Ok om /\ den_om om = sem_out_line l.
Proof.
  unfold line_judgeable, sem_out_line. intros J.
  destruct l as [|c0 l0]; [exists None; split; reflexivity|].
  assert (Hlne : c0 :: l0 <> []) by discriminate.
  rewrite (read_out_line_nonempty _ Hlne) in *.
  revert J Hlne. generalize (c0 :: l0). clear c0 l0. intros l J Hlne.
  unfold read_rest in *.
  destruct (lookup l flow_words) as [w|] eqn:Ef.
  { apply lookup_some in Ef. unfold flow_words, tbl in Ef. cbn [map fst snd In] in Ef.
    repeat (destruct Ef as [Ef|Ef]; [injection Ef as <- <-; eexists; split; reflexivity|]). destruct Ef. }
  rewrite (dec_line_nonflow np l Hlne Ef).
  destruct (drop_prefix (str "HWC#") l) as [r|] eqn:Eh.
  { apply drop_prefix_some in Eh. destruct (has_lf l) eqn:Elf; [discriminate|].
    destruct (read_event r) as [st rs| |] eqn:Er; [| discriminate |].
    - subst st. rewrite Eh. apply (event_line_sound np r rs); [rewrite <- Eh; exact Elf|exact Er].
    - rewrite Eh, (event_line_nongrammar np r Er). eexists; split; reflexivity. }
  destruct (drop_prefix (str "map=") l) as [r|] eqn:Em.
  { apply drop_prefix_some in Em. destruct (cut_on 58 r) as [[a b] f] eqn:Ec. destruct f; [|discriminate].
    destruct (read_u32 a) as [k|] eqn:Ea; [|discriminate]. destruct (read_u32 b) as [v|] eqn:Eb; [|discriminate].
    rewrite Em. apply (map_line_sound r a b k v Ec Ea Eb). }
  destruct (cut_on 61 l) as [[key v] f] eqn:Ec. destruct f.
  - destruct (lookup key key_table) as [vk|] eqn:Ek.
    + destruct (read_value vk v) as [st rs| |] eqn:Ev; [|discriminate|exfalso; apply (read_value_not_nongrammar vk v Ev)].
      subst st. apply (kv_line_sound np l key v vk rs Eh Em Ec Ek Ev).
    + destruct (read_register l) as [st rs| |] eqn:Er; [|discriminate|].
      * subst st. apply (register_line_sound l rs Eh Em); [|exact Er].
        intros key' v' E'. rewrite Ec in E'. injection E' as <- <-. exact Ek.
      * exists (Some empty_msg). split; [|reflexivity].
        unfold dec_rest. rewrite (re_event_noprefix l Eh), (re_map_noprefix l Em). cbn [null negb].
        unfold re_generic. rewrite Ec, (key_not_in_gen key Ek). cbn [andb null negb].
        rewrite (register_nongrammar_no_match l Er). reflexivity.
  - destruct (cut_on_missing _ _ _ _ Ec) as [_ [_ Hno]].
    rewrite (no_eq_line l Eh Em Hno). eexists; split; reflexivity.
Qed.

(* ---------------------------------------------------------------- line lists *)
Theorem dec_out_sound : forall ls,
  Forall (fun l => line_judgeable l = true) ls ->
  exists ms, dec_out np ls = Ok ms /\ flat_map den_out ms = flat_map sem_out_line ls.
Proof.
  induction ls as [|l r IH]; intros H; [exists []; split; reflexivity|].
  inversion H as [|? ? Hl Hr]; subst. destruct (IH Hr) as [ms [E1 E2]].
  destruct (dec_line_sound l Hl) as [om [E3 E4]].
  cbn [dec_out flat_map]. rewrite E3, E1. cbn [bind].
  destruct om as [m|]; cbn [den_om] in E4.
  - exists (m :: ms). split; [reflexivity|]. cbn [flat_map]. rewrite E4, E2. reflexivity.
  - exists ms. split; [reflexivity|]. rewrite <- E4, E2. reflexivity.
Qed.

(* a line whose keyword / key name is not part of the grammar produces no event and no report,
   wherever it stands among well-formed lines *)
Theorem dec_out_ignores_nongrammar l :
  read_out_line l = NonGrammar ->
  exists om, dec_out_line np l = Ok om /\ den_om om = [].
Proof.
  intros H. destruct (dec_line_sound l) as [om [E1 E2]].
  - unfold line_judgeable. rewrite H. reflexivity.
  - exists om. split; [exact E1|]. rewrite E2. unfold sem_out_line. rewrite H. reflexivity.
Qed.

(* a Press line is reported as a press followed by a release of the same component and edge *)
Theorem press_is_down_then_up l id e :
  read_out_line l = WF true [REvent id EDown e; REvent id EUp e] ->
  exists m, dec_out_line np l = Ok (Some m) /\ den_out m = [REvent id EDown e; REvent id EUp e].
Proof.
  intros H. destruct (dec_line_sound l) as [om [E1 E2]].
  - unfold line_judgeable. rewrite H. reflexivity.
  - unfold sem_out_line in E2. rewrite H in E2. destruct om as [m|]; [|discriminate].
    exists m. split; [exact E1|exact E2].
Qed.
End Sound.
