(* C11: invariants of the two-process lifecycle system (Model/Lifecycle.v) over ALL runs
   (all scheduler and environment choice lists), by induction on the run. *)
From RP Require Import Lib.Base Model.Lifecycle Spec.NetSpec.
From Coq Require Import ZifyBool.

(* callbacks of a label history, in the vocabulary of Spec.NetSpec (None = connect, Some c = disconnect c) *)
Fixpoint cbs (h : list lab) : list (option bool) :=
  match h with
  | [] => []
  | LbConnect :: r => None :: cbs r
  | LbDisconnect b :: r => Some b :: cbs r
  | _ :: r => cbs r
  end.

Lemma cbs_app : forall a b, cbs (a ++ b) = cbs a ++ cbs b.
Proof. induction a as [|x a IH]; intro b; cbn; [reflexivity|]. destruct x; cbn; rewrite IH; reflexivity. Qed.

(* alternation with the expectation carried along *)
Fixpoint expect_after (e : bool) (l : list (option bool)) : option bool :=
  match l with
  | [] => Some e
  | None :: r => if e then expect_after false r else None
  | Some _ :: r => if e then None else expect_after true r
  end.

Lemma expect_after_app : forall a b e,
  expect_after e (a ++ b) = match expect_after e a with Some e' => expect_after e' b | None => None end.
Proof.
  induction a as [|x a IH]; intros b e; cbn; [reflexivity|].
  destruct x; destruct e; try reflexivity; apply IH.
Qed.

Lemma alternate_expect : forall l e, alternate e l = true <-> expect_after e l <> None.
Proof.
  induction l as [|x l IH]; intro e; cbn.
  - split; [discriminate|reflexivity].
  - destruct x; destruct e; cbn; rewrite ?IH; try tauto; split; try discriminate; congruence.
Qed.

Definition has_ct (l : list (option bool)) : bool :=
  existsb (fun o => match o with Some true => true | _ => false end) l.

Lemma cancelled_last_app1 : forall l x, cancelled_last l = true -> has_ct l = false -> cancelled_last (l ++ [x]) = true.
Proof.
  induction l as [|y l IH]; intros x H1 H2; cbn.
  - destruct x as [[|]|]; reflexivity.
  - cbn in H1, H2. destruct y as [[|]|]; cbn in *; try discriminate; apply IH; assumption.
Qed.

Lemma has_ct_app : forall a b, has_ct (a ++ b) = has_ct a || has_ct b.
Proof. intros. unfold has_ct. apply existsb_app. Qed.

(* ---------- state predicates ---------- *)
Definition in_conn (m : mpc) : bool :=
  match m with MRead | MEofSleep | MCloseQuit | MCloseConn | MLoadExit | MOnDisconnect _ => true | _ => false end.
Definition ret_pc (m : mpc) : bool := match m with MReturning | MReturned => true | _ => false end.
Definition may_be_open (m : mpc) : bool :=
  match m with MProbe | MSpawn | MOnConnect | MRead | MEofSleep | MCloseQuit | MCloseConn => true | _ => false end.
Definition absent_pc (m : mpc) : bool := match m with MProbe | MSpawn => true | _ => false end.
Definition live_pc (p : wpc) : Z :=
  match p with WNotStarted | WSelect | WWriting | WExitStore | WCloseConn | WDefer => 1 | _ => 0 end.
Definition started (c : crec) : Z := live_pc (c_w c) + live_pc (c_x c).
Fixpoint count_started (l : list crec) : Z := match l with [] => 0 | c :: r => started c + count_started r end.
Definition main_c (m : mpc) : Z := match m with MStart | MReturned => 0 | _ => 1 end.
Definition past_pc (p : wpc) : bool := match p with WCloseConn | WDefer | WDone => true | _ => false end.
Definition past_exit (c : crec) : bool := past_pc (c_w c) || past_pc (c_x c).
Definition dial_pc (m : mpc) : bool := match m with MDial | MWaitNoConn => true | _ => false end.
Definition has_retry (h : list lab) : bool := existsb (fun l => match l with LbSleptRetry => true | _ => false end) h.
Definition has_cancel (h : list lab) : bool := existsb (fun l => match l with LbCancel => true | _ => false end) h.

Record Inv (s : st) (h : list lab) : Prop := mkInv {
  i_alt : expect_after true (cbs h) = Some (negb (in_conn (s_m s)));
  i_ctx : s_ctx s = has_cancel h;
  i_exit_ctx : Forall (fun c => c_exit c = true -> s_ctx s = true) (s_cs s);
  i_disc_true : s_m s = MOnDisconnect true -> c_exit (cur s) = true;
  i_before : forall h1 h2, h = h1 ++ LbDisconnect true :: h2 -> has_cancel h1 = true;
  i_last : cancelled_last (cbs h) = true;
  i_ct_ret : has_ct (cbs h) = true -> ret_pc (s_m s) = true;
  i_open_old : Forall (fun c => c_open c = false) (tl (s_cs s));
  i_open_cur : may_be_open (s_m s) = false -> Forall (fun c => c_open c = false) (s_cs s);
  i_wg : s_wg s = main_c (s_m s) + count_started (s_cs s);
  i_absent : (s_m s = MProbe \/ s_m s = MSpawn) -> c_w (cur s) = WAbsent;
  i_absent_x : (s_m s = MProbe \/ s_m s = MSpawn) -> c_x (cur s) = WAbsent;
  i_exit_started : Forall (fun c => c_exit c = true -> past_exit c = true) (s_cs s);
  i_retry_dial : dial_pc (s_m s) = true -> s_cs s <> [] -> has_retry h = true;
  i_retry_two : (2 <= length (s_cs s))%nat -> has_retry h = true;
  i_retry_ret : ret_pc (s_m s) = true -> s_cs s = [] \/ c_exit (cur s) = true \/ has_retry h = true;
  i_conn_nonempty : (in_conn (s_m s) = true \/ may_be_open (s_m s) = true) -> s_cs s <> [];
  i_start : s_m s = MStart -> s_cs s = [];
  i_wexit : Forall (fun c => c_w c = WExitStore -> s_ctx s = true) (s_cs s);
  i_abs_old : Forall (fun c => c_w c <> WAbsent) (tl (s_cs s));
  i_abs_cur : absent_pc (s_m s) = false -> Forall (fun c => c_w c <> WAbsent) (s_cs s);
  i_xexit : Forall (fun c => c_x c = WExitStore -> s_ctx s = true) (s_cs s);
  i_xabs_old : Forall (fun c => c_x c <> WAbsent) (tl (s_cs s));
  i_xabs_cur : absent_pc (s_m s) = false -> Forall (fun c => c_x c <> WAbsent) (s_cs s);
  i_xnowrite : Forall (fun c => c_x c <> WWriting) (s_cs s)
}.

Lemma inv_init : Inv init [].
Proof.
  constructor; cbn; try reflexivity; try constructor; try discriminate; try tauto; try lia;
    try (intros [H|H]; discriminate); try (intros h1 h2 H; destruct h1; discriminate).
Qed.

Lemma has_cancel_app : forall a b, has_cancel (a ++ b) = has_cancel a || has_cancel b.
Proof. intros. unfold has_cancel. apply existsb_app. Qed.
Lemma has_retry_app : forall a b, has_retry (a ++ b) = has_retry a || has_retry b.
Proof. intros. unfold has_retry. apply existsb_app. Qed.

(* appending a non-callback label *)
Lemma before_app_other : forall h l,
  (forall h1 h2, h = h1 ++ LbDisconnect true :: h2 -> has_cancel h1 = true) ->
  l <> LbDisconnect true ->
  forall h1 h2, h ++ [l] = h1 ++ LbDisconnect true :: h2 -> has_cancel h1 = true.
Proof.
  intros h l H Hl h1 h2 E.
  destruct (rev h2) as [|x r2] eqn:Er.
  - apply (f_equal (@rev lab)) in Er. rewrite rev_involutive in Er. cbn in Er. subst h2.
    change (h1 ++ [LbDisconnect true]) with (h1 ++ [LbDisconnect true]) in E.
    apply app_inj_tail in E. destruct E as [_ E]. congruence.
  - assert (h2 = rev r2 ++ [x]). { apply (f_equal (@rev lab)) in Er. rewrite rev_involutive in Er. exact Er. }
    subst h2. rewrite app_comm_cons, app_assoc in E. apply app_inj_tail in E. destruct E as [E _].
    apply (H h1 (rev r2)). exact E.
Qed.

Lemma before_app_disc : forall h,
  (forall h1 h2, h = h1 ++ LbDisconnect true :: h2 -> has_cancel h1 = true) ->
  has_cancel h = true ->
  forall h1 h2, h ++ [LbDisconnect true] = h1 ++ LbDisconnect true :: h2 -> has_cancel h1 = true.
Proof.
  intros h H Hc h1 h2 E.
  destruct (rev h2) as [|x r2] eqn:Er.
  - apply (f_equal (@rev lab)) in Er. rewrite rev_involutive in Er. cbn in Er. subst h2.
    apply app_inj_tail in E. destruct E as [E _]. subst. exact Hc.
  - assert (h2 = rev r2 ++ [x]). { apply (f_equal (@rev lab)) in Er. rewrite rev_involutive in Er. exact Er. }
    subst h2. rewrite app_comm_cons, app_assoc in E. apply app_inj_tail in E. destruct E as [E _].
    apply (H h1 (rev r2)). exact E.
Qed.

(* list updates *)
Lemma Forall_upd_nth {A} (P : A -> Prop) : forall (l : list A) i f,
  Forall P l -> (forall x, P x -> P (f x)) -> Forall P (upd_nth l i f).
Proof.
  induction l as [|x l IH]; intros i f H Hf; cbn; [destruct i; constructor|].
  inversion H; subst. destruct i; constructor; auto.
Qed.

Lemma tl_upd_nth {A} : forall (l : list A) i f, tl (upd_nth l i f) = match i with O => tl l | S k => upd_nth (tl l) k f end.
Proof. intros [|x l] [|k] f; reflexivity. Qed.

Lemma count_upd_nth : forall l i f c, nth_error l i = Some c ->
  count_started (upd_nth l i f) = count_started l - started c + started (f c).
Proof.
  induction l as [|x l IH]; intros i f c H; destruct i; cbn in *; try discriminate.
  - inversion H; subst. lia.
  - rewrite (IH _ _ _ H). lia.
Qed.

Lemma length_upd_nth {A} : forall (l : list A) i f, length (upd_nth l i f) = length l.
Proof. induction l as [|x l IH]; intros [|k] f; cbn; auto. Qed.

Lemma upd_nth_nil {A} : forall (l : list A) i f, upd_nth l i f = [] <-> l = [].
Proof. intros [|x l] [|k] f; cbn; split; intro H; try reflexivity; try discriminate. Qed.

Lemma hd_upd_nth : forall (l : list crec) i f d,
  hd d (upd_nth l i f) = match i with O => match l with [] => d | x :: _ => f x end | S _ => hd d l end.
Proof. intros [|x l] [|k] f d; reflexivity. Qed.

Ltac solve_forall :=
  repeat match goal with
  | H : Forall _ (_ :: _) |- _ => inversion H; subst; clear H
  end;
  repeat constructor; cbn in *; auto; try congruence; try lia.

(* ---------- preservation ---------- *)
Lemma inv_main : forall s h e s' l, Inv s h -> main_step s e = Some (s', l) -> Inv s' (h ++ [l]).
Proof.
  intros [m cs wg ctx] h e s' l I H.
  destruct I as [Ialt Ictx Iec Idt Ibef Ilast Ictr Ioo Ioc Iwg Iabs Iabsx Ies Ird Ir2 Irr Icn Ist Iwe Iao Iac Ixe Ixao Ixac Ixnw].
  cbn [s_m s_cs s_wg s_ctx] in *.
  unfold main_step in H; cbn [s_m s_cs s_wg s_ctx] in H.
  destruct m; destruct e; try discriminate H;
    repeat match type of H with context [if ?b then _ else _] => destruct b eqn:? end;
    try discriminate H; inversion H; subst; clear H;
    (constructor; cbn [s_m s_cs s_wg s_ctx cur hd tl upd_cur in_conn ret_pc may_be_open absent_pc main_c dial_pc negb];
     rewrite ?cbs_app, ?has_cancel_app, ?has_retry_app, ?has_ct_app; cbn [cbs has_cancel has_retry has_ct existsb app orb];
     rewrite ?app_nil_r, ?orb_false_r, ?orb_true_r;
     try (rewrite expect_after_app, Ialt; reflexivity);
     try assumption; try reflexivity; try discriminate;
     try (intros; discriminate); try (intros [?|?]; discriminate)).
  all: try (apply before_app_other; [assumption|discriminate]).
  all: try (apply cancelled_last_app1; [assumption|]; destruct (has_ct (cbs h)) eqn:Ehc; [specialize (Ictr eq_refl); discriminate|reflexivity]).
  all: try (intro Hx; specialize (Ictr Hx); discriminate).
  all: try (match goal with |- @eq Z _ _ => lia end).
  all: cbn [in_conn ret_pc may_be_open absent_pc dial_pc] in *.
  all: try (apply Ioc; reflexivity).
  all: try (intros _ Hne; exfalso; apply Hne; apply Ist; reflexivity).
  all: try (intros Hlen; apply Ird; [reflexivity|intro; subst; cbn in Hlen; lia]).
  all: try (intros _; destruct cs as [|c0 cs0]; [left; reflexivity|right; right; apply Ird; [reflexivity|discriminate]]).
  all: try (apply before_app_disc; [assumption|]; specialize (Idt eq_refl); destruct cs as [|c0 cs0]; cbn in Idt; [discriminate|];
            inversion Iec; subst; auto).
  all: try (specialize (Iabs (or_intror eq_refl)); destruct cs as [|c0 cs0]; cbn [upd_cur s_cs hd cur count_started] in *; [reflexivity|];
            unfold started; cbn [set_w c_w]; rewrite Iabs; lia).
  all: try (specialize (Iabs (or_intror eq_refl)); destruct cs as [|c0 cs0]; cbn in *; [constructor|];
            inversion Ies; subst; constructor; [cbn; intro He; specialize (H1 He); unfold past_exit in H1; rewrite Iabs in H1; discriminate|assumption]).
  all: try (intros _; apply Iabs; auto; fail).
  all: try (intros; apply Icn; auto; fail).
  all: try (assert (Hne : cs <> []) by (apply Icn; auto); destruct cs as [|c0 cs0]; [congruence|]; cbn in *; solve_forall; fail).
  all: try (destruct cs as [|c0 cs0]; cbn in *; solve_forall; fail).
  all: try (apply Iac; reflexivity).
  all: try (assert (Hne : cs <> []) by (apply Icn; auto); specialize (Iabs (or_intror eq_refl)); destruct cs as [|c0 cs0]; [congruence|];
            cbn [upd_cur s_cs hd cur count_started] in *; unfold started; cbn [set_w c_w]; rewrite Iabs; lia).
  all: try (intros _; assert (Hne : cs <> []) by (apply Icn; auto); destruct cs as [|c0 cs0]; [congruence|];
            cbn [upd_cur s_cs tl] in *; constructor; [cbn; discriminate|exact Iao]).
  all: try (intros _; specialize (Iac eq_refl); destruct cs as [|c0 cs0]; cbn [upd_cur s_cs]; [constructor|];
            inversion Iac; subst; constructor; [cbn; assumption|assumption]).
  (* the watcher's mirror images *)
  all: try (apply Ixac; reflexivity).
  all: try (assert (Hne : cs <> []) by (apply Icn; auto);
            specialize (Iabs (or_intror eq_refl)); specialize (Iabsx (or_intror eq_refl)); destruct cs as [|c0 cs0]; [congruence|];
            cbn [upd_cur s_cs hd cur count_started] in *;
            unfold started; cbn [set_w set_x c_w c_x]; rewrite Iabs, Iabsx; cbn [live_pc]; lia).
  all: try (specialize (Iabs (or_intror eq_refl)); specialize (Iabsx (or_intror eq_refl)); destruct cs as [|c0 cs0]; cbn in *; [constructor|];
            inversion Ies; subst; constructor;
            [cbn; intro He; match goal with H : _ -> past_exit _ = true |- _ => specialize (H He); unfold past_exit in H; rewrite Iabs, Iabsx in H; discriminate end|assumption]).
  all: try (intros _; assert (Hne : cs <> []) by (apply Icn; auto); destruct cs as [|c0 cs0]; [congruence|];
            cbn [upd_cur s_cs tl] in *; constructor; [cbn; discriminate|exact Ixao]).
  all: try (intros _; specialize (Ixac eq_refl); destruct cs as [|c0 cs0]; cbn [upd_cur s_cs]; [constructor|];
            inversion Ixac; subst; constructor; [cbn; assumption|assumption]).
Qed.

Lemma Forall_upd_nth_at {A} (P : A -> Prop) : forall (l : list A) i f c,
  nth_error l i = Some c -> Forall P l -> P (f c) -> Forall P (upd_nth l i f).
Proof.
  induction l as [|x l IH]; intros i f c Hn H Hf; destruct i; cbn in *; try discriminate.
  - inversion Hn; subst. inversion H; subst. constructor; assumption.
  - inversion H; subst. constructor; [assumption|]. eapply IH; eauto.
Qed.

Lemma nth_error_tl {A} : forall (l : list A) k, nth_error (tl l) k = nth_error l (S k).
Proof. intros [|x l] k; [destruct k; reflexivity|reflexivity]. Qed.

Lemma inv_writer : forall s h i w s' l, Inv s h -> writer_step s i w = Some (s', l) -> Inv s' (h ++ [l]).
Proof.
  intros [m cs wg ctx] h i w s' l I H.
  destruct I as [Ialt Ictx Iec Idt Ibef Ilast Ictr Ioo Ioc Iwg Iabs Iabsx Ies Ird Ir2 Irr Icn Ist Iwe Iao Iac Ixe Ixao Ixac Ixnw].
  cbn [s_m s_cs s_wg s_ctx] in *.
  unfold writer_step in H; cbn [s_m s_cs s_wg s_ctx] in H.
  destruct (nth_error cs i) as [c|] eqn:Hn; [|discriminate].
  assert (Hin : In c cs) by (eapply nth_error_In; eauto).
  assert (Pec : c_exit c = true -> ctx = true) by (intro Hx; exact (proj1 (Forall_forall _ _) Iec c Hin Hx)).
  assert (Pes : c_exit c = true -> past_exit c = true) by (intro Hx; exact (proj1 (Forall_forall _ _) Ies c Hin Hx)).
  assert (Pwe : c_w c = WExitStore -> ctx = true) by (intro Hx; exact (proj1 (Forall_forall _ _) Iwe c Hin Hx)).
  assert (Pabs : i = O -> (m = MProbe \/ m = MSpawn) -> c_w c = WAbsent).
  { intros -> Hm. specialize (Iabs Hm). unfold cur in Iabs. cbn in Iabs. destruct cs; cbn in *; [discriminate|]. inversion Hn; subst. exact Iabs. }
  assert (Pxe : c_x c = WExitStore -> ctx = true) by (intro Hx; exact (proj1 (Forall_forall _ _) Ixe c Hin Hx)).
  assert (Pxnw : c_x c <> WWriting) by (exact (proj1 (Forall_forall _ _) Ixnw c Hin)).
  unfold past_exit in Pes.
  destruct (c_w c) eqn:Ew; destruct w; try discriminate H;
    repeat match type of H with context [if ?b then _ else _] => destruct b eqn:? end;
    try discriminate H; inversion H; subst; clear H.
  all: constructor; cbn [s_m s_cs s_wg s_ctx];
     rewrite ?cbs_app, ?has_cancel_app, ?has_retry_app, ?has_ct_app; cbn [cbs has_cancel has_retry has_ct existsb app orb];
     rewrite ?app_nil_r, ?orb_false_r, ?length_upd_nth, ?tl_upd_nth; try assumption.
  all: try (apply before_app_other; [assumption|discriminate]).
  all: try (match goal with |- @eq Z _ _ => rewrite (count_upd_nth _ _ _ _ Hn); unfold started; cbn [set_w set_exit set_closed c_w]; rewrite ?Ew; generalize (main_c m) (count_started cs); clear; intros; lia end).
  all: try (intro Hx; rewrite upd_nth_nil; auto; fail).
  all: try (intros Hx Hy; apply Ird; [assumption|]; intro; subst; apply Hy; reflexivity).
  all: try (eapply Forall_upd_nth_at; [eassumption|assumption|]; cbn [set_w set_exit set_closed c_w c_exit c_open c_quit past_exit];
            first [reflexivity | assumption | (intro; discriminate) | (intros; auto; fail) | idtac]).
  all: try reflexivity.
  all: try (destruct i; [assumption | apply Forall_upd_nth; [assumption | intros x Hx; cbn [set_w set_exit set_closed c_open]; auto]]; fail).
  all: try (intro Hm; apply Forall_upd_nth; [apply Ioc; exact Hm | intros x Hx; cbn [set_w set_exit set_closed c_open]; auto]; fail).
  all: unfold cur in *; cbn [s_cs] in *; rewrite ?hd_upd_nth.
  all: try (intro Hm; specialize (Idt Hm); destruct i;
            [destruct cs as [|c0 cs0]; [discriminate|]; cbn in Hn; inversion Hn; subst; cbn [hd set_w set_exit set_closed c_exit] in *; auto | exact Idt]; fail).
  all: try (intro Hm; destruct i; [exfalso; specialize (Pabs eq_refl Hm); congruence | apply Iabs; exact Hm]; fail).
  all: try (intro Hm; destruct (Irr Hm) as [H0|[H1|H2]];
            [subst cs; destruct i; discriminate
            |right; left; destruct i; [destruct cs as [|c0 cs0]; [discriminate|]; cbn in Hn; inversion Hn; subst; cbn [hd set_w set_exit set_closed c_exit] in *; auto | exact H1]
            |right; right; exact H2]; fail).
  all: try (destruct i; [exact Iao | apply Forall_upd_nth; [exact Iao | intros x Hx; cbn [set_w set_exit set_closed c_w]; discriminate]]; fail).
  all: try (intro Hm; apply Forall_upd_nth; [apply Iac; exact Hm | intros x Hx; cbn [set_w set_exit set_closed c_w]; discriminate]; fail).
  (* the watcher's fields are not touched by a writer step *)
  all: try (match goal with |- @eq Z _ _ => rewrite (count_upd_nth _ _ _ _ Hn); unfold started; cbn [set_w set_x set_exit set_closed c_w c_x]; rewrite ?Ew; cbn [live_pc];
            generalize (main_c m) (count_started cs) (live_pc (c_x c)); clear; intros; lia end).
  all: try (cbn [set_w set_exit set_closed c_x]; intro Hx; specialize (Pxe Hx); congruence).
  all: try (cbn [set_w set_exit set_closed c_x]; exact Pxnw).
  all: try (intro Hm; destruct i; [exfalso; specialize (Pabs eq_refl Hm); congruence | apply Iabsx; exact Hm]; fail).
  all: try (intro Hm; apply Forall_upd_nth; [apply Ixac; exact Hm | intros x Hx; cbn [set_w set_exit set_closed c_x]; exact Hx]; fail).
  all: try (destruct i; [exact Ixao | apply Forall_upd_nth; [exact Ixao | intros x Hx; cbn [set_w set_exit set_closed c_x]; exact Hx]]; fail).
Qed.

Lemma inv_cancel : forall s h s' l, Inv s h -> step s CCancel = Some (s', l) -> Inv s' (h ++ [l]).
Proof.
  intros [m cs wg ctx] h s' l I H. cbn in H. destruct ctx; [discriminate|]. inversion H; subst; clear H.
  destruct I as [Ialt Ictx Iec Idt Ibef Ilast Ictr Ioo Ioc Iwg Iabs Iabsx Ies Ird Ir2 Irr Icn Ist Iwe Iao Iac Ixe Ixao Ixac Ixnw].
  cbn [s_m s_cs s_wg s_ctx] in *.
  constructor; cbn [s_m s_cs s_wg s_ctx];
    rewrite ?cbs_app, ?has_cancel_app, ?has_retry_app, ?has_ct_app; cbn [cbs has_cancel has_retry has_ct existsb app orb];
    rewrite ?app_nil_r, ?orb_false_r, ?orb_true_r; try assumption; try reflexivity.
  - apply Forall_forall. intros; reflexivity.
  - apply before_app_other; [assumption|discriminate].
  - apply Forall_forall. intros; reflexivity.
  - apply Forall_forall. intros; reflexivity.
Qed.

Lemma inv_watcher : forall s h i w s' l, Inv s h -> watcher_step s i w = Some (s', l) -> Inv s' (h ++ [l]).
Proof.
  intros [m cs wg ctx] h i w s' l I H.
  destruct I as [Ialt Ictx Iec Idt Ibef Ilast Ictr Ioo Ioc Iwg Iabs Iabsx Ies Ird Ir2 Irr Icn Ist Iwe Iao Iac Ixe Ixao Ixac Ixnw].
  cbn [s_m s_cs s_wg s_ctx] in *.
  unfold watcher_step in H; cbn [s_m s_cs s_wg s_ctx] in H.
  destruct (nth_error cs i) as [c|] eqn:Hn; [|discriminate].
  assert (Hin : In c cs) by (eapply nth_error_In; eauto).
  assert (Pec : c_exit c = true -> ctx = true) by (intro Hx; exact (proj1 (Forall_forall _ _) Iec c Hin Hx)).
  assert (Pes : c_exit c = true -> past_exit c = true) by (intro Hx; exact (proj1 (Forall_forall _ _) Ies c Hin Hx)).
  assert (Pxe : c_x c = WExitStore -> ctx = true) by (intro Hx; exact (proj1 (Forall_forall _ _) Ixe c Hin Hx)).
  assert (Pabs : i = O -> (m = MProbe \/ m = MSpawn) -> c_x c = WAbsent).
  { intros -> Hm. specialize (Iabsx Hm). unfold cur in Iabsx. cbn in Iabsx. destruct cs; cbn in *; [discriminate|]. inversion Hn; subst. exact Iabsx. }
  assert (Pwe : c_w c = WExitStore -> ctx = true) by (intro Hx; exact (proj1 (Forall_forall _ _) Iwe c Hin Hx)).
  unfold past_exit in Pes.
  destruct (c_x c) eqn:Ew; destruct w; try discriminate H;
    repeat match type of H with context [if ?b then _ else _] => destruct b eqn:? end;
    try discriminate H; inversion H; subst; clear H.
  all: constructor; cbn [s_m s_cs s_wg s_ctx];
     rewrite ?cbs_app, ?has_cancel_app, ?has_retry_app, ?has_ct_app; cbn [cbs has_cancel has_retry has_ct existsb app orb];
     rewrite ?app_nil_r, ?orb_false_r, ?length_upd_nth, ?tl_upd_nth; try assumption.
  all: try (apply before_app_other; [assumption|discriminate]).
  all: try (match goal with |- @eq Z _ _ => rewrite (count_upd_nth _ _ _ _ Hn); unfold started; cbn [set_x set_exit set_closed c_x]; rewrite ?Ew; generalize (main_c m) (count_started cs); clear; intros; lia end).
  all: try (intro Hx; rewrite upd_nth_nil; auto; fail).
  all: try (intros Hx Hy; apply Ird; [assumption|]; intro; subst; apply Hy; reflexivity).
  all: try (eapply Forall_upd_nth_at; [eassumption|assumption|]; cbn [set_x set_exit set_closed c_x c_exit c_open c_quit past_exit];
            first [reflexivity | assumption | (intro; discriminate) | (intros; auto; fail) | idtac]).
  all: try reflexivity.
  all: try (destruct i; [assumption | apply Forall_upd_nth; [assumption | intros x Hx; cbn [set_x set_exit set_closed c_open]; auto]]; fail).
  all: try (intro Hm; apply Forall_upd_nth; [apply Ioc; exact Hm | intros x Hx; cbn [set_x set_exit set_closed c_open]; auto]; fail).
  all: unfold cur in *; cbn [s_cs] in *; rewrite ?hd_upd_nth.
  all: try (intro Hm; specialize (Idt Hm); destruct i;
            [destruct cs as [|c0 cs0]; [discriminate|]; cbn in Hn; inversion Hn; subst; cbn [hd set_x set_exit set_closed c_exit] in *; auto | exact Idt]; fail).
  all: try (intro Hm; destruct i; [exfalso; specialize (Pabs eq_refl Hm); congruence | apply Iabsx; exact Hm]; fail).
  all: try (intro Hm; destruct (Irr Hm) as [H0|[H1|H2]];
            [subst cs; destruct i; discriminate
            |right; left; destruct i; [destruct cs as [|c0 cs0]; [discriminate|]; cbn in Hn; inversion Hn; subst; cbn [hd set_x set_exit set_closed c_exit] in *; auto | exact H1]
            |right; right; exact H2]; fail).
  all: try (destruct i; [exact Ixao | apply Forall_upd_nth; [exact Ixao | intros x Hx; cbn [set_x set_exit set_closed c_x]; discriminate]]; fail).
  all: try (intro Hm; apply Forall_upd_nth; [apply Ixac; exact Hm | intros x Hx; cbn [set_x set_exit set_closed c_x]; discriminate]; fail).
  (* the watcher's fields are not touched by a writer step *)
  all: try (match goal with |- @eq Z _ _ => rewrite (count_upd_nth _ _ _ _ Hn); unfold started; cbn [set_x set_w set_exit set_closed c_x c_w]; rewrite ?Ew; cbn [live_pc];
            generalize (main_c m) (count_started cs) (live_pc (c_w c)); clear; intros; lia end).
  all: try (cbn [set_x set_exit set_closed c_w]; intro Hx; specialize (Pwe Hx); congruence).
  all: try (cbn [set_x set_exit set_closed c_w]; exact Pxnw).
  all: try (intro Hm; destruct i; [exfalso; specialize (Pabs eq_refl Hm); congruence | apply Iabs; exact Hm]; fail).
  all: try (intro Hm; apply Forall_upd_nth; [apply Iac; exact Hm | intros x Hx; cbn [set_x set_exit set_closed c_w]; exact Hx]; fail).
  all: try (destruct i; [exact Iao | apply Forall_upd_nth; [exact Iao | intros x Hx; cbn [set_x set_exit set_closed c_w]; exact Hx]]; fail).
  all: try (cbn [set_x set_exit set_closed c_x]; discriminate).
  all: try (intros _; unfold past_exit; cbn [set_x set_exit set_closed c_w c_x past_pc]; apply orb_true_r).
Qed.


Lemma inv_step : forall s h c s' l, Inv s h -> step s c = Some (s', l) -> Inv s' (h ++ [l]).
Proof.
  intros s h c s' l I H. destruct c as [e|i w|i w|].
  - eapply inv_main; eauto.
  - eapply inv_writer; eauto.
  - eapply inv_watcher; eauto.
  - eapply inv_cancel; eauto.
Qed.

Lemma inv_run : forall cs s h, Inv s h -> Inv (fst (run s cs)) (h ++ snd (run s cs)).
Proof.
  induction cs as [|c cs IH]; intros s h I; cbn [run].
  - cbn. rewrite app_nil_r. exact I.
  - destruct (step s c) as [[s' l]|] eqn:E.
    + specialize (IH s' (h ++ [l]) (inv_step _ _ _ _ _ I E)).
      destruct (run s' cs) as [sf ls]. cbn [fst snd] in *. rewrite <- app_assoc in IH. exact IH.
    + apply IH. exact I.
Qed.

Lemma live_pc_nonneg p : 0 <= live_pc p <= 1.
Proof. destruct p; cbn; lia. Qed.
Lemma started_nonneg c : 0 <= started c.
Proof. unfold started. pose proof (live_pc_nonneg (c_w c)). pose proof (live_pc_nonneg (c_x c)). lia. Qed.
Lemma count_started_nonneg : forall l, 0 <= count_started l.
Proof. induction l as [|c l IH]; cbn; [lia|]. pose proof (started_nonneg c). lia. Qed.

(* ---------- the theorems, for ALL choice lists ---------- *)
Theorem callbacks_alternate : forall cs, alternate true (cbs (snd (run init cs))) = true.
Proof.
  intro cs. pose proof (inv_run cs init [] inv_init) as I. cbn [app] in I.
  apply alternate_expect. rewrite (i_alt _ _ I). discriminate.
Qed.

(* when the call has returned the callbacks are BALANCED: every connect has had its disconnect (the next
   callback the alternation would allow is a connect) - a return from inside a connection without the
   disconnect report is not a run of the system *)
Theorem callbacks_balanced_at_return : forall cs,
  s_m (fst (run init cs)) = MReturned -> expect_after true (cbs (snd (run init cs))) = Some true.
Proof.
  intros cs H. pose proof (inv_run cs init [] inv_init) as I. cbn [app] in I.
  rewrite (i_alt _ _ I), H. reflexivity.
Qed.

Theorem cancelled_flag_sound : forall cs,
  cancelled_last (cbs (snd (run init cs))) = true /\
  forall h1 h2, snd (run init cs) = h1 ++ LbDisconnect true :: h2 -> has_cancel h1 = true.
Proof.
  intro cs. pose proof (inv_run cs init [] inv_init) as I. cbn [app] in I.
  split; [exact (i_last _ _ I)|exact (i_before _ _ I)].
Qed.

Theorem sockets_closed : forall cs, s_m (fst (run init cs)) = MReturned ->
  Forall (fun c => c_open c = false) (s_cs (fst (run init cs))).
Proof.
  intros cs H. pose proof (inv_run cs init [] inv_init) as I. apply (i_open_cur _ _ I). rewrite H. reflexivity.
Qed.

Theorem wg_accounting : forall cs,
  let s := fst (run init cs) in
  s_wg s = main_c (s_m s) + count_started (s_cs s) /\ 0 <= s_wg s /\
  (s_m s = MReturned -> s_wg s = count_started (s_cs s)).
Proof.
  intro cs. pose proof (inv_run cs init [] inv_init) as I. cbn zeta.
  pose proof (i_wg _ _ I) as Hw. pose proof (count_started_nonneg (s_cs (fst (run init cs)))).
  split; [exact Hw|]. split.
  - rewrite Hw. destruct (s_m (fst (run init cs))); cbn [main_c]; lia.
  - intro Hm. rewrite Hw, Hm. reflexivity.
Qed.

(* THE WAIT GROUP DRAINS ONLY WHEN EVERYTHING HAS FINISHED: in every reachable state, if the
   counter is 0 (so that a Wait() returns) and the call has been entered, then the call has
   returned and every writer goroutine it ever created has run to its end. *)
Theorem wg_drains : forall cs,
  let s := fst (run init cs) in
  s_wg s = 0 -> s_m s <> MStart ->
  s_m s = MReturned /\ Forall (fun c => c_w c = WDone /\ c_x c = WDone) (s_cs s).
Proof.
  intro cs. pose proof (inv_run cs init [] inv_init) as I. cbn zeta. intros Hz Hs.
  set (s := fst (run init cs)) in *. clearbody s.
  pose proof (i_wg _ _ I) as Hw.
  pose proof (count_started_nonneg (s_cs s)) as Hc.
  assert (Hm0 : 0 <= main_c (s_m s)) by (destruct (s_m s); cbn [main_c]; lia).
  assert (Hm : main_c (s_m s) = 0) by lia.
  assert (Hret : s_m s = MReturned) by (destruct (s_m s); cbn in Hm; try discriminate; [congruence|reflexivity]).
  split; [exact Hret|].
  pose proof (i_abs_cur _ _ I) as Ha. rewrite Hret in Ha. specialize (Ha eq_refl).
  pose proof (i_xabs_cur _ _ I) as Hax. rewrite Hret in Hax. specialize (Hax eq_refl).
  assert (Hcz : count_started (s_cs s) = 0) by lia. clear -Hcz Ha Hax.
  induction (s_cs s) as [|c l IH]; [constructor|]. cbn [count_started] in Hcz. inversion Ha; subst. inversion Hax; subst.
  pose proof (count_started_nonneg l). pose proof (started_nonneg c).
  constructor; [|apply IH; [assumption|assumption|lia]].
  assert (Hs0 : started c = 0) by lia. unfold started in Hs0.
  pose proof (live_pc_nonneg (c_w c)). pose proof (live_pc_nonneg (c_x c)).
  split; [destruct (c_w c) | destruct (c_x c)]; cbn [live_pc] in *; try lia; try congruence; reflexivity.
Qed.

(* the defect that was found in the code before /repo c935b5d (wg.Add(1) executed inside the
   writer goroutine): the connection is lost, the retry sleep passes, the next dial fails, the
   context is cancelled and the call returns - all before the writer goroutine of the lost
   connection was scheduled: counter 0 with a goroutine still to run, which then Adds *)
Definition wg_gap_schedule : list choice :=
  [CMain ENone; CMain EDialOk; CMain ENone; CMain ENone; CMain ENone; CMain (EReadFail false);
   CMain ENone; CMain ENone; CMain ENone; CMain ENone; CMain ENone; CMain EDialFail; CCancel;
   CMain ESelCtx; CMain ENone].

Theorem legacy_wg_gap :
  let s := fst (run_legacy init wg_gap_schedule) in
  s_m s = MReturned /\ s_wg s = 0 /\ (exists c, In c (s_cs s) /\ c_w c = WNotStarted) /\
  s_wg (fst (run_legacy init (wg_gap_schedule ++ [CWriter 0 WNone]))) = 1 /\
  (* the same schedule in the repaired system: the counter still holds the writer (and the watcher that
     the current code has as well) *)
  s_wg (fst (run init wg_gap_schedule)) = 2.
Proof. vm_compute. repeat split. eexists. split; [left; reflexivity|reflexivity]. Qed.
