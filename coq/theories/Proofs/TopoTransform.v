(* Lemmas for C14: CleanSections is a filter; RandomizeTypes preserves the panel's meaning
   for every iteration order of the map and every stream of random draws. *)
From RP Require Import Lib.Base Lib.Sexp Lib.Strings Model.Topo Spec.Topo Spec.TopoTransform
     Proofs.ListZ Proofs.TopoLookup.
From Coq Require Import Permutation.
Open Scope Z_scope.

(* ---------------------------------------------------------------- CleanSections *)
Lemma delete_at_mid {A} (pre : list A) h rest : delete_at (pre ++ h :: rest) (zlen pre) = pre ++ rest.
Proof.
  unfold delete_at. pose proof (zlen_nonneg pre).
  destruct (zlen pre <? 0) eqn:E; [apply Z.ltb_lt in E; lia|].
  unfold zlen. rewrite Nat2Z.id. clear. induction pre as [|x pre IH]; cbn; [reflexivity|]. rewrite IH. reflexivity.
Qed.

Lemma clean_loop pre l :
  fold_right (fun i acc => delete_at acc i) (pre ++ l) (marker_positions l (zlen pre))
  = pre ++ filter (fun h => negb (is_marker h)) l.
Proof.
  revert pre. induction l as [|h r IH]; intros pre; cbn [marker_positions filter]; [reflexivity|].
  unfold is_marker at 1. destruct (hType h =? 250) eqn:E; cbn [negb fold_right].
  - specialize (IH (pre ++ [h])). rewrite zlen_app in IH. unfold zlen at 2 in IH. cbn [length Z.of_nat] in IH.
    change (Z.pos (Pos.of_succ_nat 0)) with 1 in IH.
    rewrite <- app_assoc in IH. cbn [app] in IH. rewrite IH.
    rewrite <- app_assoc. cbn [app]. apply delete_at_mid.
  - specialize (IH (pre ++ [h])). rewrite zlen_app in IH. unfold zlen at 2 in IH. cbn [length Z.of_nat] in IH.
    change (Z.pos (Pos.of_succ_nat 0)) with 1 in IH.
    rewrite <- app_assoc in IH. cbn [app] in IH. rewrite IH. rewrite <- app_assoc. reflexivity.
Qed.

Lemma clean_is_filter t :
  clean_sections t = Topo (tpTitle t) (filter (fun h => negb (is_marker h)) (tpHWc t)) (tpIndex t).
Proof.
  unfold clean_sections. f_equal. rewrite <- fold_left_rev_right, rev_involutive.
  apply (clean_loop [] (tpHWc t)).
Qed.

Lemma hwc_eqb_eq a b : hwc_eqb a b = true <-> a = b.
Proof.
  destruct a, b; unfold hwc_eqb; cbn. split.
  - intros H. split_andb.
    repeat match goal with
           | H : (_ =? _) = true |- _ => apply Z.eqb_eq in H
           | H : bytes_eqb _ _ = true |- _ => apply bytes_eqb_eq in H
           | H : opt_eqb typedef_eqb _ _ = true |- _ => apply (opt_eqb_eq _ typedef_eqb_eq) in H
           end. subst. reflexivity.
  - intros H; inversion H; subst. rewrite !Z.eqb_refl, !bytes_eqb_refl.
    rewrite (proj2 (opt_eqb_eq _ typedef_eqb_eq _ _) eq_refl). reflexivity.
Qed.

Lemma entry_eqb_eq a b : entry_eqb a b = true <-> a = b.
Proof.
  destruct a, b; unfold entry_eqb; cbn. rewrite andb_true_iff, Z.eqb_eq, typedef_eqb_eq.
  split; [intros [-> ->]; reflexivity | intros H; inversion H; auto].
Qed.

Lemma clean_meets_spec t : clean_ok t (clean_sections t) = true.
Proof.
  rewrite clean_is_filter. unfold clean_ok, index_eqb; cbn.
  rewrite bytes_eqb_refl, (proj2 (list_eqb_eq _ entry_eqb_eq _ _) eq_refl), (proj2 (list_eqb_eq _ hwc_eqb_eq _ _) eq_refl).
  reflexivity.
Qed.

Lemma clean_ok_unique t t' : clean_ok t t' = true -> t' = clean_sections t.
Proof.
  rewrite clean_is_filter. unfold clean_ok, index_eqb. intros H. split_andb.
  apply bytes_eqb_eq in H. apply (list_eqb_eq _ entry_eqb_eq) in H1. apply (list_eqb_eq _ hwc_eqb_eq) in H0.
  destruct t'; cbn in *; subst. reflexivity.
Qed.

(* ---------------------------------------------------------------- RandomizeTypes *)
Definition new_of (idx : list (Z * typedef)) (mapping : list (Z * Z)) : list (Z * typedef) :=
  map (fun km => (snd km, idx_get (fst km) idx)) mapping.

Lemma mem_key_false k m : mem_key k m = false <-> ~ In k (keys m).
Proof.
  unfold mem_key, keys. induction m as [|[a d] r IH]; cbn; [tauto|].
  destruct (a =? k) eqn:E; cbn.
  - apply Z.eqb_eq in E. split; [discriminate | intros H; exfalso; apply H; auto].
  - apply Z.eqb_neq in E. rewrite IH. tauto.
Qed.

Lemma find_free_fresh seqm fuel rnd pos m sq new r :
  find_free seqm fuel rnd pos m sq new = Some r -> ~ In (fst (fst r)) (keys new).
Proof.
  revert pos m sq. induction fuel as [|f IH]; intros pos m sq; cbn; [discriminate|].
  destruct (mem_key m new) eqn:E.
  - destruct seqm; apply IH.
  - intros H; inversion H; subst; cbn. apply mem_key_false. exact E.
Qed.

Lemma keys_new_of idx mapping : keys (new_of idx mapping) = map snd mapping.
Proof. unfold keys, new_of. rewrite map_map. reflexivity. Qed.

Lemma NoDup_app_singleton_local {A} (l : list A) x : NoDup l -> ~ In x l -> NoDup (l ++ [x]).
Proof.
  induction l as [|y l IH]; cbn; intros ND H.
  - constructor; [tauto | constructor].
  - inversion ND; subst. constructor.
    + rewrite in_app_iff. cbn. intros [H'|[H'|[]]]; [tauto | subst; tauto].
    + apply IH; tauto.
Qed.

Lemma rand_keys_inv seqm fuel rnd order : forall pos sq idx mapping new' mapping',
  NoDup (map snd mapping) ->
  rand_keys seqm fuel rnd pos sq order idx (new_of idx mapping) mapping = Some (new', mapping') ->
  new' = new_of idx mapping' /\ NoDup (map snd mapping') /\ map fst mapping' = map fst mapping ++ order.
Proof.
  induction order as [|k r IH]; intros pos sq idx mapping new' mapping' ND; cbn [rand_keys].
  - intros H; inversion H; subst. rewrite app_nil_r. auto.
  - destruct (find_free seqm fuel rnd (Datatypes.S pos) (if seqm then sq else wrap32 (rnd pos)) sq (new_of idx mapping))
      as [[[m sq'] pos']|] eqn:F; [|discriminate].
    pose proof (find_free_fresh _ _ _ _ _ _ _ _ F) as Fr. cbn in Fr. rewrite keys_new_of in Fr.
    intros H.
    assert (E : new_of idx mapping ++ [(m, idx_get k idx)] = new_of idx (mapping ++ [(k, m)])).
    { unfold new_of. rewrite map_app. reflexivity. }
    rewrite E in H. apply IH in H.
    + destruct H as (H1 & H2 & H3). repeat split; auto. rewrite H3, map_app, <- app_assoc. reflexivity.
    + rewrite map_app. cbn. apply NoDup_app_singleton_local; assumption.
Qed.

Lemma randomize_shape seqm rnd order fuel t t' :
  randomize seqm rnd order fuel t = Some t' ->
  exists mapping, map fst mapping = order /\ NoDup (map snd mapping) /\
    tpIndex t' = new_of (tpIndex t) mapping /\ tpHWc t' = map (retype mapping) (tpHWc t) /\
    tpTitle t' = tpTitle t.
Proof.
  unfold randomize.
  destruct (rand_keys seqm fuel rnd 0 1 order (tpIndex t) [] []) as [[new mapping]|] eqn:E; [|discriminate].
  intros H; inversion H; subst; cbn.
  change (@nil (Z * typedef)) with (new_of (tpIndex t) []) in E.
  apply rand_keys_inv in E; [|constructor]. destruct E as (E1 & E2 & E3).
  exists mapping. cbn in E3. auto.
Qed.

Lemma map_find_in k mapping m : map_find k mapping = Some m -> In (k, m) mapping.
Proof.
  induction mapping as [|[a b] r IH]; cbn; [discriminate|].
  destruct (a =? k) eqn:E; [apply Z.eqb_eq in E; intros H; inversion H; subst; auto | auto].
Qed.

Lemma map_find_some k mapping : In k (map fst mapping) -> exists m, map_find k mapping = Some m.
Proof.
  induction mapping as [|[a b] r IH]; cbn; [tauto|].
  intros H. destruct (a =? k) eqn:E; [eauto|]. apply Z.eqb_neq in E. apply IH. tauto.
Qed.

Lemma idx_find_new_of idx mapping k m :
  NoDup (map snd mapping) -> In (k, m) mapping -> idx_find m (new_of idx mapping) = Some (idx_get k idx).
Proof.
  induction mapping as [|[a b] r IH]; cbn; [tauto|].
  intros ND [H|H].
  - inversion H; subst. rewrite Z.eqb_refl. reflexivity.
  - inversion ND; subst. destruct (b =? m) eqn:E.
    + apply Z.eqb_eq in E; subst. exfalso. apply H2. apply (in_map snd) in H. exact H.
    + apply IH; assumption.
Qed.

Lemma indexed_in t k : indexed t k = true <-> In k (keys (tpIndex t)).
Proof.
  unfold indexed, keys. rewrite existsb_exists. split.
  - intros ([a d] & Hin & E). apply Z.eqb_eq in E. cbn in E; subst. apply (in_map fst) in Hin. exact Hin.
  - intros H. apply in_map_iff in H. destruct H as ([a d] & E & Hin). exists (a, d). cbn in *. subst.
    rewrite Z.eqb_refl. auto.
Qed.

Lemma nodup_z_iff l : nodup_z l = true <-> NoDup l.
Proof.
  induction l as [|x r IH]; cbn; [split; [constructor | reflexivity]|].
  rewrite andb_true_iff, negb_true_iff, IH. split.
  - intros [H1 H2]. constructor; [|exact H2]. intros Hin.
    assert (existsb (Z.eqb x) r = true) by (apply existsb_exists; exists x; rewrite Z.eqb_refl; auto). congruence.
  - intros H; inversion H; subst. split; [|assumption].
    destruct (existsb (Z.eqb x) r) eqn:E; [|reflexivity].
    apply existsb_exists in E. destruct E as (y & Hy & E). apply Z.eqb_eq in E; subst. tauto.
Qed.

Lemma forallb2_map_r {A B} (f : A -> B -> bool) (g : A -> B) l :
  (forall x, In x l -> f x (g x) = true) -> forallb2 f l (map g l) = true.
Proof.
  induction l as [|x r IH]; cbn; [reflexivity|]. intros H. rewrite H by auto. apply IH. auto.
Qed.

Lemma strip_retype mapping h : strip (retype mapping h) = strip h.
Proof.
  unfold retype. destruct (hType h =? 0); [reflexivity|]. destruct (map_find (hType h) mapping); reflexivity.
Qed.

Lemma hOv_retype mapping h : hOv (retype mapping h) = hOv h.
Proof.
  unfold retype. destruct (hType h =? 0); [reflexivity|]. destruct (map_find (hType h) mapping); reflexivity.
Qed.

Lemma resolve1_is_spec t h : resolve1 t h = resolve_spec (base_of t h) (hOv h).
Proof.
  symmetry. apply resolve1_spec. destruct (hOv h) as [o|]; cbn.
  - rewrite !Z.eqb_refl, !bytes_eqb_refl.
    rewrite (proj2 (opt_eqb_eq _ disp_eqb_eq _ _) eq_refl), (proj2 (list_eqb_eq _ subel_eqb_eq _ _) eq_refl).
    reflexivity.
  - apply typedef_eqb_refl.
Qed.

(* the heart of renumbering: every component keeps its base type *)
Lemma base_kept t t' mapping h :
  NoDup (keys (tpIndex t)) ->
  Permutation (map fst mapping) (keys (tpIndex t)) ->
  NoDup (map snd mapping) ->
  tpIndex t' = new_of (tpIndex t) mapping ->
  ~ In 0 (keys (tpIndex t)) -> ~ In 0 (keys (tpIndex t')) ->
  hType h = 0 \/ In (hType h) (keys (tpIndex t)) ->
  base_of t' (retype mapping h) = base_of t h.
Proof.
  intros ND P NDm E Z0 Z0' Hc. rewrite !base_of_idx_get. unfold retype.
  destruct (hType h =? 0) eqn:E0.
  - apply Z.eqb_eq in E0. rewrite E0. unfold idx_get.
    rewrite (proj2 (idx_find_none 0 (tpIndex t')) Z0'), (proj2 (idx_find_none 0 (tpIndex t)) Z0). reflexivity.
  - apply Z.eqb_neq in E0. destruct Hc as [Hc|Hc]; [tauto|].
    assert (Hin : In (hType h) (map fst mapping)) by (eapply Permutation_in; [apply Permutation_sym; exact P | exact Hc]).
    destruct (map_find_some _ _ Hin) as [m Hm]. rewrite Hm. cbn [hType set_type].
    apply map_find_in in Hm. unfold idx_get at 1. rewrite E, (idx_find_new_of _ _ _ _ NDm Hm). reflexivity.
Qed.

Lemma renumber_general seqm rnd order fuel t t' :
  randomize seqm rnd order fuel t = Some t' ->
  Permutation order (keys (tpIndex t)) -> NoDup (keys (tpIndex t)) ->
  types_closed t = true -> ~ In 0 (keys (tpIndex t')) ->
  renumber_ok false t t' = true.
Proof.
  intros R P ND TC Z0'. destruct (randomize_shape _ _ _ _ _ _ R) as (mapping & M1 & M2 & M3 & M4 & M5).
  unfold types_closed in TC. apply andb_true_iff in TC. destruct TC as [TC0 TC].
  apply negb_true_iff in TC0.
  assert (Z0 : ~ In 0 (keys (tpIndex t))).
  { intros H. apply indexed_in in H. congruence. }
  unfold renumber_ok. rewrite M5, bytes_eqb_refl. cbn [andb].
  assert (L : zlen (tpIndex t') =? zlen (tpIndex t) = true).
  { apply Z.eqb_eq. rewrite M3. unfold zlen, new_of. rewrite map_length.
    rewrite <- (map_length fst mapping), M1, (Permutation_length P). unfold keys. rewrite map_length. reflexivity. }
  rewrite L. cbn [andb].
  assert (N : nodup_z (keys (tpIndex t')) = true).
  { apply nodup_z_iff. rewrite M3, keys_new_of. exact M2. }
  rewrite N. cbn [andb].
  assert (S : list_eqb hwc_eqb (map strip (tpHWc t')) (map strip (tpHWc t)) = true).
  { apply (list_eqb_eq _ hwc_eqb_eq). rewrite M4, map_map. apply map_ext. apply strip_retype. }
  rewrite S. cbn [andb]. rewrite andb_true_r. rewrite M4. apply forallb2_map_r.
  intros h Hin. apply typedef_eqb_eq. rewrite hOv_retype. f_equal.
  apply base_kept; auto.
  - rewrite M1. exact P.
  - rewrite forallb_forall in TC. specialize (TC h Hin). apply orb_true_iff in TC. destruct TC as [T|T].
    + left. apply Z.eqb_eq. exact T.
    + right. apply indexed_in. exact T.
Qed.

(* random mode: the output has no key 0 when no draw was 0 *)
Lemma find_free_key_origin fuel rnd pos m sq new r :
  find_free false fuel rnd pos m sq new = Some r ->
  fst (fst r) = m \/ exists i, fst (fst r) = wrap32 (rnd i).
Proof.
  revert pos m. induction fuel as [|f IH]; intros pos m; cbn; [discriminate|].
  destruct (mem_key m new).
  - intros H. apply IH in H. destruct H as [H|H]; [right; eauto | right; exact H].
  - intros H; inversion H; subst; cbn. left. reflexivity.
Qed.

Lemma rand_keys_no_zero fuel rnd order : forall pos sq idx new mapping new' mapping',
  (forall i, wrap32 (rnd i) <> 0) -> ~ In 0 (keys new) ->
  rand_keys false fuel rnd pos sq order idx new mapping = Some (new', mapping') -> ~ In 0 (keys new').
Proof.
  induction order as [|k r IH]; intros pos sq idx new mapping new' mapping' Hr Hn; cbn [rand_keys].
  - intros H; inversion H; subst. exact Hn.
  - destruct (find_free false fuel rnd (Datatypes.S pos) (wrap32 (rnd pos)) sq new) as [[[m sq'] pos']|] eqn:F; [|discriminate].
    apply IH; [exact Hr|]. unfold keys. rewrite map_app, in_app_iff. cbn.
    intros [H|[H|[]]]; [exact (Hn H)|].
    apply find_free_key_origin in F. cbn in F. destruct F as [F|[i F]]; subst m; [exact (Hr pos H) | exact (Hr i H)].
Qed.

Lemma randomize_random_no_zero rnd order fuel t t' :
  (forall i, wrap32 (rnd i) <> 0) -> randomize false rnd order fuel t = Some t' -> ~ In 0 (keys (tpIndex t')).
Proof.
  unfold randomize. intros Hr.
  destruct (rand_keys false fuel rnd 0 1 order (tpIndex t) [] []) as [[new mapping]|] eqn:E; [|discriminate].
  intros H; inversion H; subst; cbn. eapply rand_keys_no_zero; [exact Hr | | exact E]. cbn. tauto.
Qed.

(* ---------------------------------------------------------------- sequential mode *)
Definition iota1 (n : nat) : list Z := map Z.of_nat (seq 1 n).

Lemma in_iota1 k n : In k (iota1 n) <-> 1 <= k <= Z.of_nat n.
Proof.
  unfold iota1. rewrite in_map_iff. split.
  - intros (x & <- & H). apply in_seq in H. lia.
  - intros H. exists (Z.to_nat k). split; [lia|]. apply in_seq. lia.
Qed.

Lemma iota1_succ n : iota1 (Datatypes.S n) = iota1 n ++ [Z.of_nat n + 1].
Proof.
  unfold iota1. rewrite seq_S, map_app. cbn. f_equal. f_equal. lia.
Qed.

Definition seq_state (c : nat) (sq : Z) : Prop := (c = 0%nat /\ sq = 1) \/ ((1 <= c)%nat /\ sq = Z.of_nat c).

Lemma mem_key_true k m : mem_key k m = true <-> In k (keys m).
Proof.
  destruct (mem_key k m) eqn:E.
  - split; [|reflexivity]. intros _. destruct (in_dec Z.eq_dec k (keys m)) as [H|H]; [exact H|].
    apply mem_key_false in H. congruence.
  - split; [discriminate|]. intros H. apply mem_key_false in E. tauto.
Qed.

Lemma find_free_seq fuel rnd pos sq new c :
  (2 <= fuel)%nat -> keys new = iota1 c -> seq_state c sq -> Z.of_nat c + 1 < 4294967296 ->
  find_free true fuel rnd pos sq sq new = Some (Z.of_nat c + 1, Z.of_nat c + 1, pos).
Proof.
  intros Hf K St B. destruct fuel as [|[|f]]; try lia. cbn [find_free].
  destruct St as [[-> ->]|[Hc ->]].
  - assert (E : mem_key 1 new = false) by (apply mem_key_false; rewrite K; cbn; tauto).
    rewrite E. reflexivity.
  - assert (E : mem_key (Z.of_nat c) new = true) by (apply mem_key_true; rewrite K; apply in_iota1; lia).
    rewrite E. unfold wrap32. rewrite Z.mod_small by lia.
    assert (E' : mem_key (Z.of_nat c + 1) new = false) by (apply mem_key_false; rewrite K, in_iota1; lia).
    rewrite E'. reflexivity.
Qed.

Lemma rand_keys_seq fuel rnd order : forall pos sq idx mapping,
  (2 <= fuel)%nat ->
  map snd mapping = iota1 (length mapping) -> seq_state (length mapping) sq ->
  Z.of_nat (length mapping + length order) < 4294967295 ->
  exists mapping',
    rand_keys true fuel rnd pos sq order idx (new_of idx mapping) mapping = Some (new_of idx mapping', mapping') /\
    map snd mapping' = iota1 (length mapping + length order) /\ map fst mapping' = map fst mapping ++ order.
Proof.
  induction order as [|k r IH]; intros pos sq idx mapping Hf K St B; cbn [rand_keys].
  - exists mapping. rewrite Nat.add_0_r, app_nil_r. auto.
  - assert (KK : keys (new_of idx mapping) = iota1 (length mapping)) by (rewrite keys_new_of; exact K).
    cbn [length] in B.
    rewrite (find_free_seq fuel rnd (Datatypes.S pos) sq (new_of idx mapping) (length mapping) Hf KK St) by lia.
    assert (E : new_of idx mapping ++ [(Z.of_nat (length mapping) + 1, idx_get k idx)]
                = new_of idx (mapping ++ [(k, Z.of_nat (length mapping) + 1)])).
    { unfold new_of. rewrite map_app. reflexivity. }
    rewrite E.
    destruct (IH (Datatypes.S pos) (Z.of_nat (length mapping) + 1) idx (mapping ++ [(k, Z.of_nat (length mapping) + 1)]) Hf)
      as (mapping' & H1 & H2 & H3).
    + rewrite map_app, app_length. cbn [map snd length]. rewrite Nat.add_1_r, iota1_succ, K. reflexivity.
    + right. rewrite app_length. cbn [length]. split; lia.
    + rewrite app_length. cbn [length]. lia.
    + exists mapping'. split; [exact H1|]. split.
      * rewrite H2, app_length. cbn [length]. f_equal. lia.
      * rewrite H3, map_app, <- app_assoc. reflexivity.
Qed.

Lemma seq_mode_runs rnd order fuel t :
  (2 <= fuel)%nat -> Z.of_nat (length order) < 4294967295 ->
  exists t', randomize true rnd order fuel t = Some t' /\ keys (tpIndex t') = iota1 (length order).
Proof.
  intros Hf B. unfold randomize.
  change (@nil (Z * typedef)) with (new_of (tpIndex t) []).
  destruct (rand_keys_seq fuel rnd order 0%nat 1 (tpIndex t) [] Hf eq_refl (or_introl (conj eq_refl eq_refl)) B)
    as (mapping' & H1 & H2 & H3).
  rewrite H1. eexists. split; [reflexivity|]. cbn. rewrite keys_new_of. exact H2.
Qed.

Lemma is_1_to_n_iota n : is_1_to_n (iota1 n) = true.
Proof.
  unfold is_1_to_n. apply andb_true_iff. split.
  - apply nodup_z_iff. unfold iota1. apply FinFun.Injective_map_NoDup; [intros a b; lia | apply seq_NoDup].
  - apply forallb_forall. intros k H. apply in_iota1 in H. unfold zlen, iota1. rewrite map_length, seq_length.
    apply andb_true_iff. split; [apply Z.leb_le | apply Z.leb_le]; lia.
Qed.

Lemma renumber_seq rnd order fuel t :
  (2 <= fuel)%nat -> Permutation order (keys (tpIndex t)) -> NoDup (keys (tpIndex t)) ->
  zlen (tpIndex t) < 4294967295 -> types_closed t = true ->
  exists t', randomize true rnd order fuel t = Some t' /\
             keys (tpIndex t') = iota1 (length (tpIndex t)) /\ renumber_ok true t t' = true.
Proof.
  intros Hf P ND B TC.
  assert (Len : length order = length (tpIndex t)).
  { rewrite (Permutation_length P). unfold keys. apply map_length. }
  destruct (seq_mode_runs rnd order fuel t Hf) as (t' & R & K).
  { rewrite Len. exact B. }
  exists t'. split; [exact R|]. rewrite Len in K. split; [exact K|].
  assert (Z0' : ~ In 0 (keys (tpIndex t'))) by (rewrite K, in_iota1; lia).
  pose proof (renumber_general _ _ _ _ _ _ R P ND TC Z0') as G.
  unfold renumber_ok in *. rewrite andb_true_r in G. rewrite G. cbn [andb]. rewrite K. apply is_1_to_n_iota.
Qed.

(* reading [renumber_ok] back as propositions about the model's resolver *)
Lemma forallb2_Forall2 {A B} (f : A -> B -> bool) a b : forallb2 f a b = true -> Forall2 (fun x y => f x y = true) a b.
Proof.
  revert b. induction a as [|x a IH]; destruct b as [|y b]; cbn; try discriminate; [constructor|].
  intros H. apply andb_true_iff in H. destruct H. constructor; auto.
Qed.

Lemma Forall2_impl' {A B} (P Q : A -> B -> Prop) a b :
  (forall x y, P x y -> Q x y) -> Forall2 P a b -> Forall2 Q a b.
Proof. intros H F. induction F; constructor; auto. Qed.

Lemma renumber_ok_meaning seqm t t' :
  renumber_ok seqm t t' = true ->
  tpTitle t' = tpTitle t /\ length (tpIndex t') = length (tpIndex t) /\ NoDup (keys (tpIndex t')) /\
  map strip (tpHWc t') = map strip (tpHWc t) /\
  Forall2 (fun h h' => resolve1 t' h' = resolve1 t h) (tpHWc t) (tpHWc t') /\
  (seqm = true -> forall k, In k (keys (tpIndex t')) <-> 1 <= k <= zlen (tpIndex t)).
Proof.
  unfold renumber_ok. intros H.
  apply andb_true_iff in H. destruct H as [H Hseq].
  apply andb_true_iff in H. destruct H as [H Hres].
  apply andb_true_iff in H. destruct H as [H Hstrip].
  apply andb_true_iff in H. destruct H as [H Hnd].
  apply andb_true_iff in H. destruct H as [Htitle Hlen].
  apply bytes_eqb_eq in Htitle. apply Z.eqb_eq in Hlen. apply nodup_z_iff in Hnd.
  apply (list_eqb_eq _ hwc_eqb_eq) in Hstrip. apply forallb2_Forall2 in Hres.
  split; [exact Htitle|]. split; [unfold zlen in Hlen; lia|]. split; [exact Hnd|]. split; [exact Hstrip|].
  split.
  - eapply Forall2_impl'; [|exact Hres]. intros a b E. cbn in E. apply typedef_eqb_eq in E.
    rewrite !resolve1_is_spec. exact E.
  - intros ->. unfold is_1_to_n in Hseq. apply andb_true_iff in Hseq. destruct Hseq as [_ H0].
    rewrite forallb_forall in H0.
    assert (Hl : zlen (keys (tpIndex t')) = zlen (tpIndex t)).
    { unfold zlen, keys in *. rewrite map_length. lia. }
    intros k. split.
    + intros Hk. specialize (H0 _ Hk). apply andb_true_iff in H0. destruct H0 as [A B].
      apply Z.leb_le in A, B. lia.
    + intros [A B].
      (* pigeonhole: n distinct keys inside [1,n] cover [1,n] *)
      set (ks := keys (tpIndex t')) in *. set (n := zlen (tpIndex t)) in *.
      assert (Incl : incl ks (map Z.of_nat (seq 1 (Z.to_nat n)))).
      { intros x Hx. specialize (H0 _ Hx). apply andb_true_iff in H0. destruct H0 as [P Q].
        apply Z.leb_le in P, Q. rewrite Hl in Q. apply in_map_iff. exists (Z.to_nat x). split; [lia|].
        apply in_seq. lia. }
      assert (Len : (length (map Z.of_nat (seq 1 (Z.to_nat n))) <= length ks)%nat).
      { rewrite map_length, seq_length. unfold zlen in Hl. lia. }
      pose proof (NoDup_length_incl Hnd Len Incl) as Back. apply Back.
      apply in_map_iff. exists (Z.to_nat k). split; [lia|]. apply in_seq. lia.
Qed.

Lemma renumber_random rnd order fuel t t' :
  randomize false rnd order fuel t = Some t' ->
  (forall i, wrap32 (rnd i) <> 0) ->
  Permutation order (keys (tpIndex t)) -> NoDup (keys (tpIndex t)) -> types_closed t = true ->
  renumber_ok false t t' = true.
Proof.
  intros R Hr P ND TC. apply (renumber_general false rnd order fuel t t' R P ND TC).
  apply (randomize_random_no_zero rnd order fuel t t' Hr R).
Qed.

(* ---- look-ups after CleanSections answer from the list as it is then: a non-marker component is
   found exactly as before (the first one with its id among the non-markers), a marker's id is found
   only if a non-marker carries the same id ---- *)
Lemma find_pos_some_hwc id : forall l k, 
  match find_pos id l k with Some (_, h) => find (fun h => hId h =? id) l = Some h | None => find (fun h => hId h =? id) l = None end.
Proof.
  induction l as [|h l IH]; intros k; cbn [find_pos find]; [reflexivity|].
  destruct (hId h =? id); [reflexivity|apply IH].
Qed.

Lemma find_hwc_find id t : find_hwc id t = find (fun h => hId h =? id) (tpHWc t).
Proof.
  unfold find_hwc. pose proof (find_pos_some_hwc id (tpHWc t) 0) as H.
  destruct (find_pos id (tpHWc t) 0) as [[k h]|]; symmetry; exact H.
Qed.

Lemma find_filter_comm {A} (p q : A -> bool) : forall l,
  find p (filter q l) = find (fun x => p x && q x) l.
Proof.
  induction l as [|x l IH]; [reflexivity|]. cbn [filter find].
  destruct (q x) eqn:Eq; cbn [find]; destruct (p x); cbn [andb]; auto.
Qed.

Theorem lookups_after_clean t id :
  find_hwc id (clean_sections t) = find (fun h => (hId h =? id) && negb (is_marker h)) (tpHWc t).
Proof.
  rewrite find_hwc_find, clean_is_filter. cbn [tpHWc]. apply find_filter_comm.
Qed.

Corollary lookup_kept_after_clean t id h :
  find_hwc id t = Some h -> is_marker h = false -> find_hwc id (clean_sections t) = Some h.
Proof.
  rewrite lookups_after_clean, find_hwc_find. intros Hf Hm.
  induction (tpHWc t) as [|x l IH]; [discriminate|]. cbn [find] in *.
  destruct (hId x =? id) eqn:E.
  - injection Hf as ->. rewrite Hm. reflexivity.
  - cbn [andb]. apply IH. exact Hf.
Qed.
