(* C16 at the level of operations and operation lists. *)
From RP Require Import Lib.Base Lib.Utf8 Model.Mono Spec.Clip Proofs.ListZ Proofs.PixelProofs Proofs.DrawProofs.
From Coq Require Import ZifyBool.

Definition wf_img (i : img) : Prop := wfg (ig i) (idata i).

Definition in_buffer (g : geom) (c r : Z) : Prop := 0 <= c < 8 * gwib g /\ 0 <= r < gH g.

(* ---- text: state-threading fold; every write_char only touches the clip ---- *)
Lemma write_char_touch g t d c :
  wfg g d ->
  wfg g (snd (write_char g (t, d) c)) /\
  forall cc r, 0 <= cc < 8 * gwib g -> 0 <= r < gH g ->
    px (gwib g) (snd (write_char g (t, d) c)) cc r <> px (gwib g) d cc r -> in_clip g cc r = true.
Proof.
  intros Hwf. unfold write_char.
  destruct (c =? 10); [simpl; split; auto; intros; congruence|].
  destruct (c =? 13); [simpl; split; auto; intros; congruence|].
  destruct (Touch_draw_char g t (tcx t) (tcy t) c (tcol t) (tbg t) (tsh t) (tsv t) d Hwf) as [W E].
  match goal with |- context [if ?b then _ else _] => destruct b end; simpl; (split; [exact W|]);
    intros cc r Hc Hr Hne; apply (E cc r Hc Hr Hne).
Qed.

Lemma render_chars_touch g cs : forall t d,
  wfg g d ->
  wfg g (snd (render_chars g cs (t, d))) /\
  forall cc r, 0 <= cc < 8 * gwib g -> 0 <= r < gH g ->
    px (gwib g) (snd (render_chars g cs (t, d))) cc r <> px (gwib g) d cc r -> in_clip g cc r = true.
Proof.
  unfold render_chars.
  induction cs as [|c cs IH]; intros t d Hwf; cbn [fold_left].
  - simpl; split; auto; intros; congruence.
  - destruct (write_char g (t, d) c) as [t1 d1] eqn:E1.
    destruct (write_char_touch g t d c Hwf) as [W1 T1]. rewrite E1 in W1, T1. simpl in W1, T1.
    destruct (IH t1 d1 W1) as [W2 T2]. split; auto.
    intros cc r Hc Hr Hne.
    destruct (Bool.bool_dec (px (gwib g) d1 cc r) (px (gwib g) d cc r)) as [Heq|Hd].
    + apply T2; auto. congruence.
    + apply T1; auto.
Qed.

(* ---- one operation ---- *)
Lemma touch_text_independent t o a b :
  match o with OChar _ _ _ _ _ _ _ => False | _ => True end ->
  footprint t o a b = footprint init_t o a b.
Proof. destruct o; simpl; intros; try reflexivity; contradiction. Qed.

Theorem op_frame (i : img) (o : op) :
  wf_img i ->
  wf_img (run_op i o) /\
  gW (ig (run_op i o)) = gW (ig i) /\ gH (ig (run_op i o)) = gH (ig i) /\ gwib (ig (run_op i o)) = gwib (ig i) /\
  zlen (idata (run_op i o)) = zlen (idata i) /\
  forall c r, in_buffer (ig i) c r ->
    px (gwib (ig i)) (idata (run_op i o)) c r <> px (gwib (ig i)) (idata i) c r ->
    in_clip (ig i) c r = true /\ footprint (it i) o (c - gbx (ig i)) (r - gby (ig i)) = true.
Proof.
  intros Hwf. unfold wf_img in *.
  assert (Hlen : forall d', wfg (ig i) d' -> zlen d' = zlen (idata i)).
  { intros d' (_ & _ & _ & L & _). destruct Hwf as (_ & _ & _ & L0 & _). congruence. }
  (* drawing ops that are a Touch on the data *)
  assert (Hdraw : forall f, Touch (ig i) (footprint (it i) o) f ->
            run_op i o = with_data i (f (idata i)) ->
            wfg (ig (run_op i o)) (idata (run_op i o)) /\
            gW (ig (run_op i o)) = gW (ig i) /\ gH (ig (run_op i o)) = gH (ig i) /\ gwib (ig (run_op i o)) = gwib (ig i) /\
            zlen (idata (run_op i o)) = zlen (idata i) /\
            forall c r, in_buffer (ig i) c r ->
              px (gwib (ig i)) (idata (run_op i o)) c r <> px (gwib (ig i)) (idata i) c r ->
              in_clip (ig i) c r = true /\ footprint (it i) o (c - gbx (ig i)) (r - gby (ig i)) = true).
  { intros f HT Heq. rewrite Heq. simpl. destruct (HT (idata i) Hwf) as [W E].
    split; [exact W|]. split; [reflexivity|]. split; [reflexivity|]. split; [reflexivity|]. split; [auto|].
    intros c r [Hc Hr] Hne; destruct (E c r Hc Hr Hne); auto. }
  (* state ops: data untouched *)
  assert (Hstate : forall i', idata i' = idata i -> gW (ig i') = gW (ig i) -> gH (ig i') = gH (ig i) -> gwib (ig i') = gwib (ig i) ->
            run_op i o = i' ->
            wfg (ig (run_op i o)) (idata (run_op i o)) /\
            gW (ig (run_op i o)) = gW (ig i) /\ gH (ig (run_op i o)) = gH (ig i) /\ gwib (ig (run_op i o)) = gwib (ig i) /\
            zlen (idata (run_op i o)) = zlen (idata i) /\
            forall c r, in_buffer (ig i) c r ->
              px (gwib (ig i)) (idata (run_op i o)) c r <> px (gwib (ig i)) (idata i) c r ->
              in_clip (ig i) c r = true /\ footprint (it i) o (c - gbx (ig i)) (r - gby (ig i)) = true).
  { intros i' Hd HW HH Hwib Heq. rewrite Heq.
    split; [destruct Hwf as (A & B & C & D & E); unfold wfg; rewrite HW, HH, Hwib, Hd; auto|].
    split; [auto|]. split; [auto|]. split; [auto|]. split; [rewrite Hd; auto|].
    intros c r _ Hne. rewrite Hd in Hne. congruence. }
  destruct o.
  - apply (Hdraw (draw_pixel (ig i) x y c)); [apply Touch_pixel | reflexivity].
  - apply (Hdraw (hline (ig i) x y w c)); [apply Touch_hline | reflexivity].
  - apply (Hdraw (vline (ig i) x y h c)); [apply Touch_vline | reflexivity].
  - apply (Hdraw (fill_rect (ig i) x y w h c)); [apply Touch_fill_rect | reflexivity].
  - apply (Hdraw (round_rect (ig i) x y w h r c)); [apply Touch_round_rect | reflexivity].
  - apply (Hdraw (fill_round_rect (ig i) x y w h r c)); [apply Touch_fill_round_rect | reflexivity].
  - apply (Hdraw (circle_helper (ig i) x0 y0 r corner c)); [apply Touch_circle_helper | reflexivity].
  - apply (Hdraw (fill_circle_helper (ig i) x0 y0 r corner delta c)); [apply Touch_fill_circle_helper | reflexivity].
  - apply (Hdraw (draw_bitmap (ig i) x y bm w h c inverted all)); [apply Touch_draw_bitmap | reflexivity].
  - apply (Hdraw (draw_char (ig i) (it i) x y ch c bg sh sv)); [apply Touch_draw_char | reflexivity].
  - (* text *)
    simpl run_op. unfold render_text.
    destruct (render_chars (ig i) (range_bytes s) (it i, idata i)) as [t' d'] eqn:E.
    destruct (render_chars_touch (ig i) (range_bytes s) (it i) (idata i) Hwf) as [W T].
    rewrite E in W, T. simpl in W, T. simpl.
    split; [exact W|]. split; [reflexivity|]. split; [reflexivity|]. split; [reflexivity|]. split; [auto|].
    intros c r [Hc Hr] Hne. split; [apply (T c r Hc Hr Hne) | reflexivity].
  - apply (Hstate (with_geom i (set_bbox (ig i) x y w h))); reflexivity.
  - apply (Hstate (with_geom i (set_inv (ig i) v))); reflexivity.
  - apply (Hstate (with_t i (set_font (it i) n p))); reflexivity.
  - apply (Hstate (with_t i (set_cursor (it i) x y))); reflexivity.
  - apply (Hstate (with_t i (set_text_size (it i) h v))); reflexivity.
  - apply (Hstate (with_t i (set_text_color (it i) c))); reflexivity.
  - apply (Hstate (with_t i (set_spacing (it i) s))); reflexivity.
  - apply (Hstate (with_t i (set_wrap (it i) w))); reflexivity.
Qed.

(* padding bits (columns W .. 8*wib-1) are never modified *)
Corollary op_padding (i : img) (o : op) c r :
  wf_img i -> gW (ig i) <= c < 8 * gwib (ig i) -> 0 <= r < gH (ig i) ->
  px (gwib (ig i)) (idata (run_op i o)) c r = px (gwib (ig i)) (idata i) c r.
Proof.
  intros Hwf Hc Hr.
  destruct (op_frame i o Hwf) as (_ & _ & _ & _ & _ & F).
  destruct (Bool.bool_dec (px (gwib (ig i)) (idata (run_op i o)) c r) (px (gwib (ig i)) (idata i) c r)) as [E|Hne]; auto.
  destruct Hwf as (HW & _).
  destruct (F c r) as [Hclip _]; [split; lia | exact Hne |].
  apply in_clip_bounds in Hclip. lia.
Qed.

(* exactness of pixel, lines, filled rectangle *)
Theorem op_exact (i : img) (o : op) (col : bool) :
  wf_img i -> exact_colour o = Some col ->
  forall c r, in_buffer (ig i) c r ->
    px (gwib (ig i)) (idata (run_op i o)) c r =
    if in_clip (ig i) c r && footprint (it i) o (c - gbx (ig i)) (r - gby (ig i))
    then xorb col (ginv (ig i)) else px (gwib (ig i)) (idata i) c r.
Proof.
  intros Hwf Hex c r [Hc Hr]. unfold wf_img in Hwf.
  destruct o; simpl in Hex; try discriminate; injection Hex as <-; simpl run_op; simpl idata; simpl footprint.
  - destruct (Paint_pixel (ig i) x y c0 (idata i) Hwf) as [_ E]. rewrite E by auto. rewrite andb_comm. reflexivity.
  - destruct (Paint_hline (ig i) x y w c0 (idata i) Hwf) as [_ E]. rewrite E by auto. rewrite andb_comm. reflexivity.
  - destruct (Paint_vline (ig i) x y h c0 (idata i) Hwf) as [_ E]. rewrite E by auto. rewrite andb_comm. reflexivity.
  - destruct (Paint_fill_rect (ig i) x y w h c0 (idata i) Hwf) as [_ E]. rewrite E by auto. rewrite andb_comm. reflexivity.
Qed.

(* a pixel addressed outside the clip rectangle (in particular outside the canvas) is dropped:
   the buffer is literally unchanged, nothing wraps onto another row *)
Theorem pixel_outside_dropped g x y col d :
  in_clip g (x + gbx g) (y + gby g) = false -> draw_pixel g x y col d = d.
Proof. intros H. unfold draw_pixel. rewrite guard_is_clip, H. reflexivity. Qed.

(* ---- operation lists ---- *)
Lemma run_ops_app i a b : run_ops i (a ++ b) = run_ops (run_ops i a) b.
Proof. unfold run_ops. apply fold_left_app. Qed.

Theorem ops_frame (ops : list op) : forall (i : img),
  wf_img i ->
  wf_img (run_ops i ops) /\
  gW (ig (run_ops i ops)) = gW (ig i) /\ gH (ig (run_ops i ops)) = gH (ig i) /\ gwib (ig (run_ops i ops)) = gwib (ig i) /\
  zlen (idata (run_ops i ops)) = zlen (idata i) /\
  forall c r, in_buffer (ig i) c r ->
    px (gwib (ig i)) (idata (run_ops i ops)) c r <> px (gwib (ig i)) (idata i) c r ->
    exists pre o post, ops = pre ++ o :: post /\
      let j := run_ops i pre in
      in_clip (ig j) c r = true /\ footprint (it j) o (c - gbx (ig j)) (r - gby (ig j)) = true.
Proof.
  induction ops as [|o ops IH]; intros i Hwf.
  - simpl. split; [auto|]. split; [auto|]. split; [auto|]. split; [auto|]. split; [auto|]. intros c r _ Hne. congruence.
  - change (run_ops i (o :: ops)) with (run_ops (run_op i o) ops).
    destruct (op_frame i o Hwf) as (W1 & EW & EH & Ewib & EL & F1).
    destruct (IH (run_op i o) W1) as (W2 & EW2 & EH2 & Ewib2 & EL2 & F2).
    split; [auto|]. split; [congruence|]. split; [congruence|]. split; [congruence|]. split; [congruence|].
    intros c r Hb Hne.
    destruct (Bool.bool_dec (px (gwib (ig i)) (idata (run_op i o)) c r) (px (gwib (ig i)) (idata i) c r)) as [Heq|Hd].
    + destruct (F2 c r) as (pre & o' & post & -> & Hj).
      * unfold in_buffer in *. rewrite Ewib, EH. auto.
      * rewrite Ewib. congruence.
      * exists (o :: pre), o', post. split; [reflexivity|]. exact Hj.
    + exists [], o, ops. split; [reflexivity|]. simpl. apply F1; auto.
Qed.

(* ---- "no operation panics": the model's only unchecked slice reads are the font tables;
   every index DrawChar / GetCharWidth / GetCharStart can form is inside the regenerated table. ---- *)
Definition font_reads_ok : bool :=
  forallb (fun f =>
    (zlen (font_data f) =? 96 * font_memw f) &&
    forallb (fun p =>
      forallb (fun cn =>
        let c := Z.of_nat cn in
        let t := mkT f p 0 0 0 false false 1 1 true in
        let cw := char_width t c in
        let cs := char_start t c in
        negb (in_font c) ||
        ((1 <=? cw) && (cw <=? font_bbw f + 1) &&
         forallb (fun i_n => let i := Z.of_nat i_n in
                    ((p || (font_tight f >? 0)) && (i =? cw - 1))
                    || (wrap32 (wrap8 (c - font_start) * font_memw f + cs) + i <? zlen (font_data f)))
                 (seq 0 (Z.to_nat cw))))
      (seq 0 256)) [true; false]) [0; 1; 2].

Lemma font_reads_ok_true : font_reads_ok = true.
Proof. vm_compute. reflexivity. Qed.
