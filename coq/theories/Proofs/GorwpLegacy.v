(* C19 — historical: the loop of gorwp BEFORE fix commit 8fd853f (finding F12), in the vocabulary of the
   model: ONE goroutine selects over toPanel, fromPanel and the ticker; the handlers run inside it and send
   to toPanel; the ticker case sends its ping into toPanel itself.  So writing (CWrite) and ticking are only
   possible while that goroutine is in its select, i.e. not in the middle of a dispatch (s_ops = []), and a
   tick needs room in the queue.  The deadlock the harness reproduced on the old tree is a reachable state
   of this system; the repaired system has none (GorwpSystem.no_deadlock). *)
From RP Require Import Lib.Base Model.Gorwp.

Section Legacy.
  Variable unm : bytes -> omsg.
  Variable dec : bytes -> list omsg.

  Definition legacy_step (s : sys) (c : choice) : option sys :=
    match c with
    | CWrite => match s_ops s with [] => step unm dec s CWrite | _ => None end
    | CTick => match s_ops s with
               | [] => if room (s_to s) then step unm dec s (CUser TPing) else None   (* rp.toPanel <- ping, from the loop itself *)
               | _ => None end
    | CWExit => None                                                           (* there is no separate writer *)
    | _ => step unm dec s c
    end.

  Fixpoint legacy_run (s : sys) (sched : list choice) : sys :=
    match sched with
    | [] => s
    | c :: r => match legacy_step s c with Some s' => legacy_run s' r | None => legacy_run s r end
    end.

  Definition stuck (s : sys) : Prop :=
    s_cancel s = false /\ s_ops s <> [] /\
    forall c, In c [CWrite; CDisp; CTake; CPush; CTick] -> legacy_step s c = None.
End Legacy.

(* one frame with 11 events for a handler that sends one state per invocation *)
Definition legacy_unm (p : bytes) : omsg :=
  mkMsg 0 None [] None (map (fun id => mkEvent id (Some (true, 0)) None None None) p).
Definition legacy_b : bindings := [(KBinary, 7, mkHandler 1 [(7, 1)] [])].

Lemma legacy_loop_deadlock :
  exists sched,
    let s := legacy_run legacy_unm (fun _ => []) (sys0 true legacy_b [RBytes ([11; 0; 0; 0] ++ repeat 7 11)]) sched in
    stuck legacy_unm (fun _ => []) s /\ length (s_trace s) = 11%nat /\ length (s_to s) = 10%nat.
Proof.
  exists ([CRead; CPush; CTake] ++ repeat CDisp 40).
  vm_compute. repeat split; try reflexivity; try discriminate.
  intros c H. repeat (destruct H as [<-|H]; [reflexivity|]). destruct H.
Qed.

(* the same schedule prefix in the repaired system: the writer can always take over *)
Lemma repaired_not_stuck :
  let s := run legacy_unm (fun _ => []) (sys0 true legacy_b [RBytes ([11; 0; 0; 0] ++ repeat 7 11)]) ([CRead; CPush; CTake] ++ repeat CDisp 40) in
  length (s_to s) = 10%nat /\ exists s', step legacy_unm (fun _ => []) s CWrite = Some s'.
Proof. vm_compute. split; [reflexivity|eauto]. Qed.
