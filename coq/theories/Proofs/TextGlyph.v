(* C20 foundation: exact pixel effect of DrawChar when none of its clip tests fires.
   PaintF g F f : f writes value (F a b) at every pixel of the clip rectangle where F is
   defined (bounding-box-relative coordinates a b) and leaves all other pixels alone.
   Later writers win ([over_range]); glyph blocks are disjoint, so the result is the glyph
   cell function [cell_val]. *)
From RP Require Import Lib.Base Model.Mono Spec.Clip Proofs.ListZ Proofs.PixelProofs Proofs.DrawProofs.
From Coq Require Import ZifyBool.
Ltac Zify.zify_post_hook ::= Z.div_mod_to_equations.

Definition lit_val (inv : bool) (o : option bool) (old : bool) : bool :=
  match o with Some v => xorb v inv | None => old end.

Definition PaintF (g : geom) (F : Z -> Z -> option bool) (f : list Z -> list Z) : Prop :=
  forall d, wfg g d ->
    wfg g (f d) /\
    forall c r, 0 <= c < 8 * gwib g -> 0 <= r < gH g ->
      px (gwib g) (f d) c r =
      lit_val (ginv g) (if in_clip g c r then F (c - gbx g) (r - gby g) else None) (px (gwib g) d c r).

Lemma PaintF_id g : PaintF g (fun _ _ => None) (fun d => d).
Proof. intros d H; split; auto. intros c r _ _. destruct (in_clip g c r); reflexivity. Qed.

Lemma PaintF_ext g F F' f : (forall a b, F a b = F' a b) -> PaintF g F f -> PaintF g F' f.
Proof.
  intros HF HP d Hwf. destruct (HP d Hwf) as [W E]. split; auto.
  intros c r Hc Hr. rewrite E by auto. rewrite HF. reflexivity.
Qed.

Definition over (F2 F1 : Z -> Z -> option bool) (a b : Z) : option bool :=
  match F2 a b with Some v => Some v | None => F1 a b end.

Lemma PaintF_comp g F1 F2 f1 f2 :
  PaintF g F1 f1 -> PaintF g F2 f2 -> PaintF g (over F2 F1) (fun d => f2 (f1 d)).
Proof.
  intros P1 P2 d Hwf. destruct (P1 d Hwf) as [W1 E1]. destruct (P2 (f1 d) W1) as [W2 E2].
  split; auto. intros c r Hc Hr. rewrite E2, E1 by auto. unfold over.
  destruct (in_clip g c r); [|reflexivity].
  destruct (F2 (c - gbx g) (r - gby g)); reflexivity.
Qed.

Lemma Paint_PaintF g R col f :
  Paint g R (xorb col (ginv g)) f -> PaintF g (fun a b => if R a b then Some col else None) f.
Proof.
  intros HP d Hwf. destruct (HP d Hwf) as [W E]. split; auto.
  intros c r Hc Hr. rewrite E by auto.
  destruct (in_clip g c r); destruct (R (c - gbx g) (r - gby g)); reflexivity.
Qed.

(* iteration: later indices override earlier ones *)
Fixpoint over_range (n : nat) (s : Z) (F : Z -> Z -> Z -> option bool) (a b : Z) : option bool :=
  match n with
  | O => None
  | S n' => match over_range n' (s + 1) F a b with Some v => Some v | None => F s a b end
  end.

Lemma PaintF_iter g F f :
  (forall k, PaintF g (F k) (f k)) ->
  forall n s, PaintF g (over_range n s F) (iter_up n s f).
Proof.
  intros HP n; induction n as [|n IH]; intros s; simpl.
  - apply PaintF_id.
  - eapply PaintF_ext; [|apply (PaintF_comp g _ _ (f s) (iter_up n (s + 1) f) (HP s) (IH (s + 1)))].
    reflexivity.
Qed.

Lemma PaintF_for_range g F f s n :
  (forall k, PaintF g (F k) (f k)) -> PaintF g (over_range (Z.to_nat n) s F) (for_range s n f).
Proof. intros. unfold for_range. apply PaintF_iter; auto. Qed.

Lemma over_range_none n : forall s F a b,
  (forall k, s <= k < s + Z.of_nat n -> F k a b = None) -> over_range n s F a b = None.
Proof.
  induction n as [|n IH]; intros s F a b H; simpl; auto.
  rewrite IH by (intros k Hk; apply H; lia). apply H. lia.
Qed.

Lemma over_range_unique n : forall s F a b k0,
  s <= k0 < s + Z.of_nat n ->
  (forall k, s <= k < s + Z.of_nat n -> k <> k0 -> F k a b = None) ->
  over_range n s F a b = F k0 a b.
Proof.
  induction n as [|n IH]; intros s F a b k0 Hk0 H; simpl; [lia|].
  destruct (Z.eq_dec k0 s) as [->|Hne].
  - rewrite over_range_none; auto. intros k Hk. apply H; lia.
  - rewrite (IH (s + 1) F a b k0) by (try lia; intros k Hk Hkk; apply H; lia).
    destruct (F k0 a b) eqn:E; auto. apply H; lia.
Qed.

(* ---- one glyph block ---- *)
Lemma PaintF_block g x y sh sv col :
  PaintF g (fun a b => if in_rect x y sh sv a b then Some col else None) (block g x y sh sv col).
Proof.
  unfold block.
  destruct (Z.eqb_spec sh 1) as [->|]; destruct (Z.eqb_spec sv 1) as [->|]; simpl;
    try (apply Paint_PaintF, Paint_fill_rect).
  eapply PaintF_ext; [|apply Paint_PaintF, Paint_pixel].
  intros a b. simpl. unfold in_rect.
  replace ((x <=? a) && (a <? x + 1) && (y <=? b) && (b <? y + 1)) with ((a =? x) && (b =? y)) by lia.
  reflexivity.
Qed.

(* the value DrawChar writes for glyph cell (i, j) of character ch: Some colour, or None = untouched *)
Definition glyph_val (t : tstate) (ch : Z) (col bg : bool) (i j : Z) : option bool :=
  let cw := char_width t ch in
  if (0 <=? i) && (i <? cw) && (0 <=? j) && (j <? font_bbh (tfont t)) then
    if Z.testbit (char_column t ch cw (char_start t ch) i) j then Some col
    else if negb (Bool.eqb bg col) then Some bg else None
  else None.

(* glyph cell at (x, y), each glyph pixel enlarged to sh x sv *)
Definition cell_val (t : tstate) (ch : Z) (col bg : bool) (sh sv x y a b : Z) : option bool :=
  if in_rect x y (char_width t ch * sh) (font_bbh (tfont t) * sv) a b
  then glyph_val t ch col bg ((a - x) / sh) ((b - y) / sv) else None.

Definition char_clipped (g : geom) (t : tstate) (x y ch sh sv : Z) : bool :=
  (x >? get_bwidth g - (char_width t ch - 1) * sh) || (y >? gH g)
  || (x + font_bbw (tfont t) * sh - 1 <? 0) || (y + font_bbh (tfont t) * sv - 1 <? 0).

Lemma font_bbh_pos f : 0 < font_bbh f.
Proof. unfold font_bbh. destruct (f =? 2); lia. Qed.
Lemma font_bbw_pos f : 0 < font_bbw f.
Proof. unfold font_bbw. destruct (f =? 1); lia. Qed.

Lemma char_width_nonneg t ch : 0 <= char_width t ch.
Proof.
  unfold char_width.
  destruct (in_font ch && tprop t).
  - destruct (_ =? _).
    + unfold constrain. pose proof (font_bbw_pos (tfont t)).
      destruct (_ <? 3); [lia|]. destruct (_ >? _); [lia|].
      apply Z.shiftr_nonneg. lia.
    + unfold wrap8. apply Z.mod_pos_bound. lia.
  - pose proof (font_bbw_pos (tfont t)). lia.
Qed.

Lemma draw_char_exact g t x y ch col bg sh sv :
  1 <= sh -> 1 <= sv -> char_clipped g t x y ch sh sv = false ->
  PaintF g (cell_val t ch col bg sh sv x y) (draw_char g t x y ch col bg sh sv).
Proof.
  intros Hsh Hsv Hclip. unfold draw_char. unfold char_clipped in Hclip. rewrite Hclip.
  set (cw := char_width t ch). set (bbh := font_bbh (tfont t)).
  set (cb := fun i => char_column t ch cw (char_start t ch) i).
  set (gv := fun i j : Z => if Z.testbit (cb i) j then Some col else if negb (Bool.eqb bg col) then Some bg else None).
  set (Fij := fun i j a b => if in_rect (x + i * sh) (y + j * sv) sh sv a b then gv i j else None).
  assert (Hcw : 0 <= cw) by apply char_width_nonneg.
  assert (Hbbh : 0 < bbh) by apply font_bbh_pos.
  eapply PaintF_ext; [|apply (PaintF_for_range g (fun i => over_range (Z.to_nat bbh) 0 (Fij i)))].
  - (* the overridden union of the blocks is the cell function *)
    intros a b. unfold cell_val. fold cw bbh.
    destruct (in_rect x y (cw * sh) (bbh * sv) a b) eqn:Hin.
    + unfold in_rect in Hin.
      set (i0 := (a - x) / sh). set (j0 := (b - y) / sv).
      assert (Hi0 : 0 <= i0 < cw) by (unfold i0; split; [apply Z.div_pos; lia | apply Z.div_lt_upper_bound; nia]).
      assert (Hj0 : 0 <= j0 < bbh) by (unfold j0; split; [apply Z.div_pos; lia | apply Z.div_lt_upper_bound; nia]).
      assert (Ha : x + i0 * sh <= a < x + i0 * sh + sh) by (unfold i0; nia).
      assert (Hb : y + j0 * sv <= b < y + j0 * sv + sv) by (unfold j0; nia).
      rewrite (over_range_unique _ 0 _ a b i0) by
        (try lia; intros k Hk Hne; apply over_range_none; intros j Hj; unfold Fij, in_rect;
         match goal with |- (if ?c then _ else _) = _ => replace c with false by nia end; reflexivity).
      rewrite (over_range_unique _ 0 _ a b j0) by
        (try lia; intros k Hk Hne; unfold Fij, in_rect;
         match goal with |- (if ?c then _ else _) = _ => replace c with false by nia end; reflexivity).
      unfold Fij, in_rect. replace ((x + i0 * sh <=? a) && (a <? x + i0 * sh + sh) && (y + j0 * sv <=? b) && (b <? y + j0 * sv + sv)) with true by lia.
      unfold gv, glyph_val, cb. fold cw bbh.
      replace ((0 <=? i0) && (i0 <? cw) && (0 <=? j0) && (j0 <? bbh)) with true by lia. reflexivity.
    + apply over_range_none. intros i Hi. apply over_range_none. intros j Hj.
      unfold Fij, in_rect. unfold in_rect in Hin.
      match goal with |- (if ?c then _ else _) = _ => replace c with false by nia end; reflexivity.
  - intros i. apply PaintF_for_range. intros j.
    unfold Fij, gv, cb.
    destruct (Z.testbit _ j).
    + apply PaintF_block.
    + destruct (negb (Bool.eqb bg col)).
      * apply PaintF_block.
      * eapply PaintF_ext; [|apply PaintF_id]. intros a b. simpl. destruct (in_rect _ _ _ _ a b); reflexivity.
Qed.
