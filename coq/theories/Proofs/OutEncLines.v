(* C03, line by line: what the reference reader reports for each kind of line the encoder
   model emits (flow words, key=value items, map entries, events, registers). *)
From RP Require Import Lib.Base Lib.Sexp Lib.Strings Lib.TrimSpace Lib.FloatFmt Model.MsgOut Model.Flatten Model.EncOut
  Spec.DenoteOut Spec.GrammarOut Proofs.GfxNum Proofs.OutStrings.
From Coq Require Import String.
Open Scope Z_scope.

(* ---------------------------------------------------------------- LF-freeness *)
Lemma has_lf_app a b : has_lf (a ++ b) = has_lf a || has_lf b.
Proof. unfold has_lf, contains_byte. apply existsb_app. Qed.

Lemma has_lf_cons c a : has_lf (c :: a) = (10 =? c) || has_lf a.
Proof. reflexivity. Qed.

Lemma digits_no_lf s : forallb is_digit s = true -> has_lf s = false.
Proof.
  induction s as [|c s IH]; intros H; [reflexivity|]. cbn in H. apply andb_true_iff in H. destruct H as [Hc Hs].
  rewrite has_lf_cons, (IH Hs). unfold is_digit in Hc. apply andb_true_iff in Hc. destruct Hc as [H1 _]. apply Z.leb_le in H1.
  destruct (10 =? c) eqn:E; [apply Z.eqb_eq in E; lia|reflexivity].
Qed.

Lemma itoa_no_lf n : has_lf (itoa n) = false.
Proof.
  destruct (Z_lt_dec n 0) as [Hn|Hn].
  - rewrite (itoa_neg n Hn), has_lf_cons. cbn [Z.eqb orb]. apply digits_no_lf. apply (itoa_digits (- n)). lia.
  - apply digits_no_lf. apply (itoa_digits n). lia.
Qed.

Lemma one_line_id s : has_lf s = false -> one_line s = s.
Proof.
  unfold one_line. induction s as [|c s IH]; intros H; [reflexivity|].
  rewrite has_lf_cons in H. apply orb_false_iff in H. destruct H as [Hc Hs]. cbn [map].
  rewrite Z.eqb_sym in Hc. rewrite Hc, (IH Hs). reflexivity.
Qed.

Lemma digits_no_byte c s : forallb is_digit s = true -> is_digit c = false -> forallb (fun x => negb (x =? c)) s = true.
Proof.
  intros H Hc. rewrite forallb_forall in *. intros x Hx. specialize (H x Hx).
  destruct (x =? c) eqn:E; [|reflexivity]. apply Z.eqb_eq in E. subst x. congruence.
Qed.

Lemma itoa_no_byte c n : is_digit c = false -> c <> 45 -> forallb (fun x => negb (x =? c)) (itoa n) = true.
Proof.
  intros Hc H45. destruct (Z_lt_dec n 0) as [Hn|Hn].
  - rewrite (itoa_neg n Hn). cbn [forallb]. destruct (45 =? c) eqn:E; [apply Z.eqb_eq in E; congruence|]. cbn [negb andb].
    apply digits_no_byte; [apply (itoa_digits (- n)); lia|exact Hc].
  - apply digits_no_byte; [apply (itoa_digits n); lia|exact Hc].
Qed.

(* ---------------------------------------------------------------- key=value lines *)
(* for each key: the reader on key=value is the value reader (by computation on the key) *)
Ltac kvr := intros; reflexivity.
Lemma rd_model v : read_out_line (kv "_model=" v) = read_value (VText KModel true) v. Proof. kvr. Qed.
Lemma rd_serial v : read_out_line (kv "_serial=" v) = read_value (VText KSerial true) v. Proof. kvr. Qed.
Lemma rd_version v : read_out_line (kv "_version=" v) = read_value (VText KVersion true) v. Proof. kvr. Qed.
Lemma rd_name v : read_out_line (kv "_name=" v) = read_value (VText KName true) v. Proof. kvr. Qed.
Lemma rd_platform v : read_out_line (kv "_platform=" v) = read_value (VText KPlatform true) v. Proof. kvr. Qed.
Lemma rd_maxclients v : read_out_line (kv "_serverModeMaxClients=" v) = read_value (VU32 KMaxClients true) v. Proof. kvr. Qed.
Lemma rd_locked v : read_out_line (kv "_serverModeLockToIP=" v) = read_value (VElems KLockIP true) v. Proof. kvr. Qed.
Lemma rd_support v : read_out_line (kv "_support=" v) = read_value VCaps v. Proof. kvr. Qed.
Lemma rd_toposvg v : read_out_line (kv "_panelTopology_svgbase=" v) = read_value (VText KTopoSvg true) v. Proof. kvr. Qed.
Lemma rd_topojson v : read_out_line (kv "_panelTopology_HWC=" v) = read_value (VText KTopoJson true) v. Proof. kvr. Qed.
Lemma rd_burnin v : read_out_line (kv "_burninProfile=" v) = read_value (VText KBurnin false) v. Proof. kvr. Qed.
Lemma rd_netcfg v : read_out_line (kv "_networkConfig=" v) = read_value (VJson KNetCfg) v. Proof. kvr. Qed.
Lemma rd_calib v : read_out_line (kv "_calibrationProfile=" v) = read_value (VText KCalib false) v. Proof. kvr. Qed.
Lemma rd_defcalib v : read_out_line (kv "_defaultCalibrationProfile=" v) = read_value (VText KDefCalib false) v. Proof. kvr. Qed.
Lemma rd_sleept v : read_out_line (kv "_sleepTimer=" v) = read_value (VU32 KSleepTimer false) v. Proof. kvr. Qed.
Lemma rd_sleeps v : read_out_line (kv "_isSleeping=" v) = read_value (VBool KSleeping false) v. Proof. kvr. Qed.
Lemma rd_hb v : read_out_line (kv "_heartBeatTimer=" v) = read_value (VU32 KHeartBeat false) v. Proof. kvr. Qed.
Lemma rd_dim v : read_out_line (kv "DimmedGain=" v) = read_value (VU32 KDimmed false) v. Proof. kvr. Qed.
Lemma rd_conn v : read_out_line (kv "_connections=" v) = read_value (VElems KConnections false) v. Proof. kvr. Qed.
Lemma rd_boots v : read_out_line (kv "_bootsCount=" v) = read_value (VU32 KBoots true) v. Proof. kvr. Qed.
Lemma rd_total v : read_out_line (kv "_totalUptimeMin=" v) = read_value (VU32 KTotalUp true) v. Proof. kvr. Qed.
Lemma rd_session v : read_out_line (kv "_sessionUptimeMin=" v) = read_value (VU32 KSessionUp true) v. Proof. kvr. Qed.
Lemma rd_screensaver v : read_out_line (kv "_screenSaverOnMin=" v) = read_value (VU32 KScreenSaver true) v. Proof. kvr. Qed.
Lemma rd_err v : read_out_line (kv "ErrorMsg=" v) = read_value (VText KErrorMsg false) v. Proof. kvr. Qed.
Lemma rd_msg v : read_out_line (kv "Msg=" v) = read_value (VText KMsg false) v. Proof. kvr. Qed.
Lemma rd_sys v : read_out_line (kv "SysStat=" v) = read_value VSys v. Proof. kvr. Qed.

(* value readers on what the encoder prints *)
Lemma rv_text_enc k d v : text_ok v = true ->
  read_value (VText k d) v = match v with [] => WF false (if d then [] else [RStr k []]) | _ => WF true [RStr k v] end.
Proof. unfold text_ok, read_value. intros H. apply negb_true_iff in H. rewrite H. reflexivity. Qed.

Lemma rv_u32_enc k d x : 0 <= x < 4294967296 ->
  read_value (VU32 k d) (itoa x) = WF true (if d && (x =? 0) then [] else [RNum k x]).
Proof. intros H. unfold read_value. rewrite itoa_no_lf, (itoa_read_u32 x H). reflexivity. Qed.

Lemma join_no_lf : forall l, forallb elem_ok l = true -> has_lf (join [59] l) = false.
Proof.
  induction l as [|e l IH]; intros H; [reflexivity|]. cbn in H. apply andb_true_iff in H. destruct H as [He Hl].
  unfold elem_ok in He. apply andb_true_iff in He. destruct He as [He Hlf]. apply negb_true_iff in Hlf.
  destruct l as [|e' l']; [exact Hlf|].
  change (join [59] (e :: e' :: l')) with (e ++ [59] ++ join [59] (e' :: l')).
  rewrite !has_lf_app, Hlf, (IH Hl). reflexivity.
Qed.

Lemma elem_ok_nosep e : elem_ok e = true -> forallb (fun x => negb (x =? 59)) e = true.
Proof.
  unfold elem_ok. intros H. apply andb_true_iff in H. destruct H as [H _]. apply andb_true_iff in H. destruct H as [_ H].
  apply negb_true_iff in H. unfold contains_byte in H. rewrite forallb_forall. intros x Hx.
  destruct (x =? 59) eqn:E; [|reflexivity]. apply Z.eqb_eq in E. subst x.
  assert (existsb (Z.eqb 59) e = true) by (apply existsb_exists; exists 59; split; [exact Hx|reflexivity]). congruence.
Qed.

Lemma rv_elems_enc k d l : l <> [] -> forallb elem_ok l = true ->
  read_value (VElems k d) (join [59] l) = WF true [RList k l].
Proof.
  intros Hne H. unfold read_value. rewrite (join_no_lf l H).
  assert (Hsplit : split_on 59 (join [59] l) = l).
  { apply split_on_join; [exact Hne|]. rewrite Forall_forall. intros e He. apply elem_ok_nosep.
    rewrite forallb_forall in H. apply H. exact He. }
  assert (Hcan : forallb canonical_elem l = true).
  { rewrite forallb_forall in *. intros e He. specialize (H e He). unfold elem_ok in H.
    apply andb_true_iff in H. destruct H as [H _]. apply andb_true_iff in H. tauto. }
  destruct (join [59] l) as [|c r] eqn:Ej.
  - (* join empty: the single element would be empty, but elements are canonical (non-empty) *)
    exfalso. destruct l as [|e l']; [congruence|]. cbn in Hcan. apply andb_true_iff in Hcan. destruct Hcan as [He _].
    destruct e; [discriminate|]. destruct l'; discriminate.
  - rewrite Hsplit, Hcan. reflexivity.
Qed.

(* ---------------------------------------------------------------- map entries *)
Lemma sem_map_entry k v : 0 <= k < 4294967296 -> 0 <= v < 4294967296 ->
  read_out_line (enc_map_entry (k, v)) = WF true [RMap k v].
Proof.
  intros Hk Hv. unfold enc_map_entry, kv. cbn [fst snd].
  destruct (itoa_digits k ltac:(lia)) as [Hdk _]. rewrite <- app_assoc.
  change (read_out_line (str "map=" ++ itoa k ++ 58 :: itoa v)) with
    (match cut_on 58 (itoa k ++ 58 :: itoa v) with
     | (a, b, true) => match read_u32 a, read_u32 b with Some k, Some v => WF true [RMap k v] | _, _ => Malformed end
     | _ => Malformed end).
  rewrite (cut_on_app 58 (itoa k) (itoa v) (digits_no_byte 58 _ Hdk eq_refl)).
  rewrite (itoa_read_u32 k Hk), (itoa_read_u32 v Hv). reflexivity.
Qed.

(* ---------------------------------------------------------------- events *)
Lemma span_itoa_stop n c r : 0 <= n -> is_digit c = false -> span is_digit (itoa n ++ c :: r) = (itoa n, c :: r).
Proof. intros Hn Hc. apply span_app_stop; [apply (itoa_digits n Hn)|exact Hc]. Qed.

(* the reader after "HWC#<id>" for the five line forms *)
Local Opaque read_i32 read_u32 read_u31 itoa.
Lemma read_event_binary id edge (pressed : bool) :
  0 <= id < 4294967296 -> 0 <= edge < 2147483648 ->
  read_event (itoa id ++ (if edge >? 0 then 46 :: itoa edge else []) ++ (if pressed then str "=Down" else str "=Up")) =
  WF true [REvent id (if pressed then EDown else EUp) edge].
Proof.
  intros Hid He. unfold read_event.
  change (str "=Down") with (61 :: str "Down"). change (str "=Up") with (61 :: str "Up").
  destruct (edge >? 0) eqn:Eg.
  - cbn [app]. rewrite (span_itoa_stop id 46 _ ltac:(lia) eq_refl), (itoa_read_u32 id Hid).
    destruct pressed.
    + rewrite (span_itoa_stop edge 61 _ ltac:(lia) eq_refl), (itoa_read_u31 edge He). reflexivity.
    + rewrite (span_itoa_stop edge 61 _ ltac:(lia) eq_refl), (itoa_read_u31 edge He). reflexivity.
  - assert (edge = 0) by (rewrite Z.gtb_ltb in Eg; apply Z.ltb_ge in Eg; lia). subst edge. cbn [app].
    destruct pressed.
    + rewrite (span_itoa_stop id 61 _ ltac:(lia) eq_refl), (itoa_read_u32 id Hid). reflexivity.
    + rewrite (span_itoa_stop id 61 _ ltac:(lia) eq_refl), (itoa_read_u32 id Hid). reflexivity.
Qed.

Lemma read_event_enc id v : 0 <= id < 4294967296 -> -2147483648 <= v < 2147483648 ->
  read_event (itoa id ++ kv "=Enc:" (itoa v)) = WF true [REvent id EEnc v].
Proof.
  intros Hid Hv. unfold read_event.
  change (kv "=Enc:" (itoa v)) with (61 :: 69 :: 110 :: 99 :: 58 :: itoa v).
  rewrite (span_itoa_stop id 61 _ ltac:(lia) eq_refl), (itoa_read_u32 id Hid).
  cbn. rewrite (itoa_read_i32 v Hv). reflexivity.
Qed.

Lemma read_event_speed id v : 0 <= id < 4294967296 -> -2147483648 <= v < 2147483648 ->
  read_event (itoa id ++ kv "=Speed:" (itoa v)) = WF true [REvent id ESpeed v].
Proof.
  intros Hid Hv. unfold read_event.
  change (kv "=Speed:" (itoa v)) with (61 :: 83 :: 112 :: 101 :: 101 :: 100 :: 58 :: itoa v).
  rewrite (span_itoa_stop id 61 _ ltac:(lia) eq_refl), (itoa_read_u32 id Hid).
  cbn. rewrite (itoa_read_i32 v Hv). reflexivity.
Qed.

Lemma read_event_abs id v : 0 <= id < 4294967296 -> 0 <= v < 4294967296 ->
  read_event (itoa id ++ kv "=Abs:" (itoa v)) = WF true [REvent id EAbs v].
Proof.
  intros Hid Hv. unfold read_event.
  change (kv "=Abs:" (itoa v)) with (61 :: 65 :: 98 :: 115 :: 58 :: itoa v).
  rewrite (span_itoa_stop id 61 _ ltac:(lia) eq_refl), (itoa_read_u32 id Hid).
  cbn. rewrite (itoa_read_u32 v Hv). reflexivity.
Qed.

Lemma read_event_raw id v : 0 <= id < 4294967296 -> 0 <= v < 4294967296 ->
  read_event (itoa id ++ kv "=Raw:" (itoa v)) = WF true [REvent id ERaw v].
Proof.
  intros Hid Hv. unfold read_event.
  change (kv "=Raw:" (itoa v)) with (61 :: 82 :: 97 :: 119 :: 58 :: itoa v).
  rewrite (span_itoa_stop id 61 _ ltac:(lia) eq_refl), (itoa_read_u32 id Hid).
  cbn. rewrite (itoa_read_u32 v Hv). reflexivity.
Qed.

(* an HWC# line: the reader goes to read_event when the line has no LF *)
Lemma read_hwc_line r : has_lf r = false -> read_out_line (kv "HWC#" r) = read_event r.
Proof.
  intros H. unfold kv.
  change (read_out_line (str "HWC#" ++ r)) with (if has_lf (str "HWC#" ++ r) then Malformed else read_event r).
  rewrite has_lf_app, H. reflexivity.
Qed.
