(* C20: the indexed buffer view used by the oracle (Run/C20.v: fpx over rows_of) reads the same
   pixels as the list view px of the theorems, so the oracle evaluates the very predicates the
   theorems are about. *)
From RP Require Import Lib.Base Model.Mono Spec.Clip Spec.TextBox Proofs.ListZ Proofs.TextLaws Run.C20.
From Coq Require Import ZifyBool.
Ltac Zify.zify_post_hook ::= Z.div_mod_to_equations.

Lemma skipn_nil_ {A} n : skipn n (@nil A) = [].
Proof. destruct n; reflexivity. Qed.

Lemma nth_skipn_ {A} (l : list A) : forall m k d, nth k (skipn m l) d = nth (m + k) l d.
Proof.
  induction l as [|a l IH]; intros m k d.
  - rewrite skipn_nil_. destruct (m + k)%nat; destruct k; reflexivity.
  - destruct m; simpl; auto.
Qed.

Lemma skipn_skipn_ {A} (l : list A) : forall x y, skipn x (skipn y l) = skipn (y + x) l.
Proof.
  induction l as [|a l IH]; intros x y.
  - rewrite !skipn_nil_. reflexivity.
  - destruct y; simpl; auto.
Qed.

Lemma nth_firstn_ {A} (l : list A) : forall n k d, (k < n)%nat -> nth k (firstn n l) d = nth k l d.
Proof.
  induction l as [|a l IH]; intros n k d H.
  - rewrite firstn_nil. reflexivity.
  - destruct n; [lia|]. destruct k; simpl; auto. apply IH. lia.
Qed.

Lemma nth_rows_of_fuel fuel : forall n d r, (0 < n)%nat -> (length d <= fuel)%nat ->
  nth r (rows_of_fuel fuel n d) [] = firstn n (skipn (r * n) d).
Proof.
  induction fuel as [|f IH]; intros n d r Hn Hlen.
  - destruct d; [|simpl in Hlen; lia]. simpl. rewrite skipn_nil_, firstn_nil. destruct r; reflexivity.
  - destruct d as [|a d'].
    + simpl. rewrite skipn_nil_, firstn_nil. destruct r; reflexivity.
    + cbn [rows_of_fuel]. destruct r as [|r'].
      * reflexivity.
      * cbn [nth]. rewrite IH; auto.
        -- rewrite skipn_skipn_. repeat (f_equal; try lia).
        -- rewrite skipn_length. cbn [length] in *. lia.
Qed.

Theorem fpx_px wib d c r : 0 < wib -> 0 <= c < 8 * wib -> 0 <= r ->
  fpx (rows_of wib d) c r = px wib d c r.
Proof.
  intros Hw Hc Hr. unfold fpx, rows_of, px.
  destruct (Z.leb_spec wib 0); try lia.
  rewrite Z.shiftr_div_pow2 by lia. change (2 ^ 3) with 8.
  change 7 with (Z.ones 3) at 2. rewrite Z.land_ones by lia. change (2 ^ 3) with 8.
  f_equal.
  rewrite nth_rows_of_fuel by lia.
  rewrite nth_firstn_ by lia. rewrite nth_skipn_.
  unfold znth. destruct (Z.ltb_spec (r * wib + c / 8) 0); [nia|].
  f_equal. nia.
Qed.

(* a law evaluated through accessors that agree on the canvas gives the same verdict *)
Lemma all_rect_ext x0 y0 w h f g :
  (forall c r, x0 <= c < x0 + w -> y0 <= r < y0 + h -> f c r = g c r) -> all_rect x0 y0 w h f = all_rect x0 y0 w h g.
Proof.
  intros H. destruct (all_rect x0 y0 w h g) eqn:E.
  - apply all_rect_intro. intros c r Hc Hr. rewrite H by auto. apply (all_rect_elim _ _ _ _ _ E); auto.
  - destruct (all_rect x0 y0 w h f) eqn:F; auto.
    assert (all_rect x0 y0 w h g = true); [|congruence].
    apply all_rect_intro. intros c r Hc Hr. rewrite <- H by auto. apply (all_rect_elim _ _ _ _ _ F); auto.
Qed.

Lemma vis_fpx W H wib d c r : 0 <= W -> wib = (W + 7) / 8 ->
  vis W H (fpx (rows_of wib d)) c r = pxv W H wib d c r.
Proof.
  intros HW Hwib. unfold vis, pxv.
  destruct ((0 <=? c) && (c <? W) && (0 <=? r) && (r <? H)) eqn:Q; [|reflexivity].
  cbn [andb]. apply fpx_px; lia.
Qed.

(* the oracle's box / translation / scaling / glyph-wise verdicts are the Spec predicates on the lists *)
Theorem oracle_box W H d0 d1 cx cy strw sh lineh : 0 < W ->
  let wib := (W + 7) / 8 in
  box_law_p (8 * wib) H (fpx (rows_of wib d0)) (fpx (rows_of wib d1)) cx cy strw sh lineh
  = box_law W H wib d0 d1 cx cy strw sh lineh.
Proof.
  intros HW wib. unfold box_law, box_law_p. apply all_rect_ext. intros c r Hc Hr.
  rewrite !fpx_px by (unfold wib; lia). reflexivity.
Qed.

Theorem oracle_translation W H dA dB dx dy : 0 <= W ->
  let wib := (W + 7) / 8 in
  translation_law_p W H (fpx (rows_of wib dA)) (fpx (rows_of wib dB)) dx dy = translation_law W H wib dA dB dx dy.
Proof.
  intros HW wib. unfold translation_law, translation_law_p. apply all_rect_ext. intros c r _ _.
  rewrite !vis_fpx by auto. reflexivity.
Qed.

Theorem oracle_scale W H dA dC cx cy h v : 0 <= W ->
  let wib := (W + 7) / 8 in
  scale_law_p W H (fpx (rows_of wib dA)) (fpx (rows_of wib dC)) cx cy h v = scale_law W H wib dA dC cx cy h v.
Proof.
  intros HW wib. unfold scale_law, scale_law_p. apply all_rect_ext. intros c r _ _.
  rewrite vis_fpx by auto. destruct (scale_src cx cy h v c r) as [c1 r1]. rewrite vis_fpx by auto. reflexivity.
Qed.

Theorem oracle_glyph W H dA dC cs ws s h v bbh x y x1 y1 : 0 <= W ->
  let wib := (W + 7) / 8 in
  glyph_law_p W H (fpx (rows_of wib dA)) (fpx (rows_of wib dC)) cs ws s h v bbh x y x1 y1
  = glyph_law W H wib dA dC cs ws s h v bbh x y x1 y1.
Proof.
  intros HW wib. unfold glyph_law, glyph_law_p. apply all_rect_ext. intros a b _ _.
  rewrite vis_fpx by auto. destruct (src_pixel _ _ _ _ _ _ _ _ _ _ a b) as [[a1 b1]|]; [|reflexivity].
  rewrite vis_fpx by auto. reflexivity.
Qed.
