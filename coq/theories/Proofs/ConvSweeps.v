(* C17: finite sweeps (64 six-bit colours, 65536 RGB565 colours, 256 x 256 byte pairs) by
   vm_compute, lifted to universally quantified statements. Kept apart: slow to compile. *)
From RP Require Import Lib.Base Model.Mono Model.MonoConv Spec.Clip Spec.TextBox Spec.Conv Proofs.TextLaws.
From Coq Require Import ZifyBool.
Ltac Zify.zify_post_hook ::= Z.div_mod_to_equations.

Definition colour16_ok (c : Z) : Prop := 0 <= c < 65536.

Lemma in_zseq a n : In a (zseq n) <-> 0 <= a < n.
Proof.
  unfold zseq. rewrite in_map_iff. split.
  - intros (k & <- & Hk). apply in_seq in Hk. lia.
  - intros H. exists (Z.to_nat a). split; [lia|]. apply in_seq. lia.
Qed.

(* ---------- colour maps: finite sweeps lifted ---------- *)
Lemma forallb_zseq (P : Z -> bool) n : forallb P (zseq n) = true -> forall a, 0 <= a < n -> P a = true.
Proof. intros H a Ha. rewrite forallb_forall in H. apply H. apply in_zseq. exact Ha. Qed.

(* all 64 six-bit colours against the closed formula with the full-scale maps 0,10,20,31 / 0,21,42,63 *)
Lemma colour_sweep : forallb (fun c => oled_color c =? rgb565_of_6bit c) (zseq 64) = true.
Proof. vm_compute. reflexivity. Qed.

Theorem colour565 : forall c, 0 <= c < 64 -> oled_color c = rgb565_of_6bit c.
Proof. intros c Hc. pose proof (forallb_zseq _ 64 colour_sweep c Hc) as H. cbv beta in H. lia. Qed.

Lemma colour565_range c : colour16_ok (oled_color c).
Proof. unfold oled_color, colour16_ok, wrap16. apply Z.mod_pos_bound. lia. Qed.

(* all RGB565 colours, by arithmetic (no sweep): none of the uint16 / uint32 wraps of
   RGB16BitToGray fires, and the high nibble of its result is the documented luma *)
Lemma land_ones_mod v k : 0 <= k -> Z.land v (Z.ones k) = v mod 2 ^ k.
Proof. intros. apply Z.land_ones; auto. Qed.

Theorem gray_luma : forall c, colour16_ok c -> rgb16_to_gray c / 16 = luma_nibble c /\ 0 <= rgb16_to_gray c < 256.
Proof.
  intros c Hc. unfold colour16_ok in Hc. unfold rgb16_to_gray, luma_nibble, luma16.
  change 31 with (Z.ones 5). change 63 with (Z.ones 6). change 65535 with (Z.ones 16).
  rewrite !land_ones_mod by lia. rewrite !Z.shiftr_div_pow2 by lia. rewrite Z.shiftl_1_l.
  change (2 ^ 5) with 32. change (2 ^ 6) with 64. change (2 ^ 11) with 2048. change (2 ^ 15) with 32768.
  change (2 ^ 16) with 65536. change (2 ^ 8) with 256.
  set (r := c mod 32). set (g := (c / 32) mod 64). set (b := (c / 2048) mod 32).
  assert (Hr : 0 <= r < 32) by (unfold r; lia). assert (Hg : 0 <= g < 64) by (unfold g; lia).
  assert (Hb : 0 <= b < 32) by (unfold b; lia).
  clearbody r g b. clear Hc c.
  unfold wrap16, wrap32, wrap8.
  rewrite (Z.mod_small (r * 2114)), (Z.mod_small (g * 1040)), (Z.mod_small (b * 2114)) by lia.
  rewrite (Z.mod_small (r * 2114)), (Z.mod_small (g * 1040)), (Z.mod_small (b * 2114)) by lia.
  set (S := 19595 * (r * 2114) + 38470 * (g * 1040) + 7471 * (b * 2114) + 32768).
  assert (HS : 0 <= S < 4294967296) by (unfold S; lia). clearbody S.
  rewrite (Z.mod_small S) by lia.
  assert (H1 : 0 <= S / 65536 < 65536) by lia.
  rewrite (Z.mod_small (S / 65536)) by lia.
  assert (H2 : 0 <= S / 65536 / 256 < 256) by lia.
  rewrite (Z.mod_small (S / 65536 / 256)) by lia.
  split; [|lia]. lia.
Qed.

(* packing two nibbles: all 256 x 256 byte pairs *)
Lemma nibble_sweep :
  all_rect 0 0 256 256 (fun g g' =>
    let b := Z.lor (Z.land g 240) (Z.land (Z.shiftr g' 4) 15) in (b / 16 =? g / 16) && (b mod 16 =? g' / 16)) = true.
Proof. vm_compute. reflexivity. Qed.

Lemma nibble_pack : forall g g', 0 <= g < 256 -> 0 <= g' < 256 ->
  let b := Z.lor (Z.land g 240) (Z.land (Z.shiftr g' 4) 15) in b / 16 = g / 16 /\ b mod 16 = g' / 16.
Proof.
  intros g g' Hg Hg'.
  assert (A : 0 <= g < 0 + 256) by lia. assert (B : 0 <= g' < 0 + 256) by lia.
  pose proof (all_rect_elim _ _ _ _ _ nibble_sweep _ _ A B) as H2. cbv beta zeta in H2. cbv zeta.
  generalize dependent (Z.lor (Z.land g 240) (Z.land (Z.shiftr g' 4) 15)). intros. lia.
Qed.
