(* C17: finite sweeps (64 six-bit colours, 65536 RGB565 colours, 256 x 256 byte pairs) by
   vm_compute, lifted to universally quantified statements. Kept apart: slow to compile. *)
From RP Require Import Lib.Base Model.Mono Model.MonoConv Spec.Clip Spec.TextBox Spec.Conv Proofs.TextLaws.
From Coq Require Import ZifyBool.
Ltac Zify.zify_post_hook ::= Z.div_mod_to_equations.

Definition colour16_ok (c : Z) : Prop := 0 <= c < 65536.

Lemma in_zseq a n : In a (zseq n) <-> 0 <= a < n.
Proof.
  unfold zseq. rewrite in_map_iff. split.
  - intros (k & <- & Hk). apply in_seq in Hk. lia.
  - intros H. exists (Z.to_nat a). split; [lia|]. apply in_seq. lia.
Qed.

(* ---------- colour maps: finite sweeps lifted ---------- *)
Lemma forallb_zseq (P : Z -> bool) n : forallb P (zseq n) = true -> forall a, 0 <= a < n -> P a = true.
Proof. intros H a Ha. rewrite forallb_forall in H. apply H. apply in_zseq. exact Ha. Qed.

(* all 64 six-bit colours against the closed formula with the full-scale maps 0,10,20,31 / 0,21,42,63 *)
Lemma colour_sweep : forallb (fun c => oled_color c =? rgb565_of_6bit c) (zseq 64) = true.
Proof. vm_compute. reflexivity. Qed.

Theorem colour565 : forall c, 0 <= c < 64 -> oled_color c = rgb565_of_6bit c.
Proof. intros c Hc. pose proof (forallb_zseq _ 64 colour_sweep c Hc) as H. cbv beta in H. lia. Qed.

Lemma colour565_range c : colour16_ok (oled_color c).
Proof. unfold oled_color, colour16_ok, wrap16. apply Z.mod_pos_bound. lia. Qed.

(* all 65536 RGB565 colours (256 x 256): the 8-bit grey of RGB16BitToGray (no uint16/uint32 wrap
   occurs) has the documented luma in its high nibble *)
Lemma gray_sweep :
  all_rect 0 0 256 256 (fun lo hi =>
    let g := rgb16_to_gray (hi * 256 + lo) in
    (g / 16 =? luma_nibble (hi * 256 + lo)) && (0 <=? g) && (g <? 256)) = true.
Proof. vm_compute. reflexivity. Qed.

Theorem gray_luma : forall c, colour16_ok c -> rgb16_to_gray c / 16 = luma_nibble c /\ 0 <= rgb16_to_gray c < 256.
Proof.
  intros c Hc. unfold colour16_ok in Hc.
  assert (A : 0 <= c mod 256 < 0 + 256) by lia. assert (B : 0 <= c / 256 < 0 + 256) by lia.
  pose proof (all_rect_elim _ _ _ _ _ gray_sweep _ _ A B) as H1.
  cbv beta zeta in H1. replace (c / 256 * 256 + c mod 256) with c in H1 by lia.
  generalize dependent (rgb16_to_gray c). generalize (luma_nibble c). intros. lia.
Qed.

(* packing two nibbles: all 256 x 256 byte pairs *)
Lemma nibble_sweep :
  all_rect 0 0 256 256 (fun g g' =>
    let b := Z.lor (Z.land g 240) (Z.land (Z.shiftr g' 4) 15) in (b / 16 =? g / 16) && (b mod 16 =? g' / 16)) = true.
Proof. vm_compute. reflexivity. Qed.

Lemma nibble_pack : forall g g', 0 <= g < 256 -> 0 <= g' < 256 ->
  let b := Z.lor (Z.land g 240) (Z.land (Z.shiftr g' 4) 15) in b / 16 = g / 16 /\ b mod 16 = g' / 16.
Proof.
  intros g g' Hg Hg'.
  assert (A : 0 <= g < 0 + 256) by lia. assert (B : 0 <= g' < 0 + 256) by lia.
  pose proof (all_rect_elim _ _ _ _ _ nibble_sweep _ _ A B) as H2. cbv beta zeta in H2. cbv zeta.
  generalize dependent (Z.lor (Z.land g 240) (Z.land (Z.shiftr g' 4) 15)). intros. lia.
Qed.
