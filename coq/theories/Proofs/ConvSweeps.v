(* C17: finite sweeps (64 six-bit colours, 65536 RGB565 colours, 256 x 256 byte pairs) by
   vm_compute, lifted to universally quantified statements. Kept apart: slow to compile. *)
From RP Require Import Lib.Base Model.Mono Model.MonoConv Spec.Clip Spec.TextBox Spec.Conv Proofs.TextLaws.
From Coq Require Import ZifyBool.
Ltac Zify.zify_post_hook ::= Z.div_mod_to_equations.

Definition colour16_ok (c : Z) : Prop := 0 <= c < 65536.

Lemma in_zseq a n : In a (zseq n) <-> 0 <= a < n.
Proof.
  unfold zseq. rewrite in_map_iff. split.
  - intros (k & <- & Hk). apply in_seq in Hk. lia.
  - intros H. exists (Z.to_nat a). split; [lia|]. apply in_seq. lia.
Qed.

(* ---------- colour maps: finite sweeps lifted ---------- *)
Lemma forallb_zseq (P : Z -> bool) n : forallb P (zseq n) = true -> forall a, 0 <= a < n -> P a = true.
Proof. intros H a Ha. rewrite forallb_forall in H. apply H. apply in_zseq. exact Ha. Qed.

(* all 64 six-bit colours against the closed formula with the full-scale maps 0,10,20,31 / 0,21,42,63 *)
Theorem colour565 : forall c, 0 <= c < 64 -> oled_color c = rgb565_of_6bit c.
Proof.
  intros c Hc.
  assert (H : forallb (fun c => oled_color c =? rgb565_of_6bit c) (zseq 64) = true) by (vm_compute; reflexivity).
  apply (forallb_zseq _ 64 H) in Hc. lia.
Qed.

Lemma colour565_range c : colour16_ok (oled_color c).
Proof. unfold oled_color, colour16_ok, wrap16. apply Z.mod_pos_bound. lia. Qed.

(* all 65536 RGB565 colours: the 8-bit grey of RGB16BitToGray (no uint16/uint32 wrap occurs) has
   the documented luma in its high nibble *)
Theorem gray_luma : forall c, colour16_ok c -> rgb16_to_gray c / 16 = luma_nibble c /\ 0 <= rgb16_to_gray c < 256.
Proof.
  intros c Hc.
  assert (H : all_from (Z.to_nat 65536) 0 (fun c => (rgb16_to_gray c / 16 =? luma_nibble c) && (0 <=? rgb16_to_gray c) && (rgb16_to_gray c <? 256)) = true)
    by (vm_compute; reflexivity).
  assert (En : Z.of_nat (Z.to_nat 65536) = 65536) by (apply Z2Nat.id; discriminate).
  remember (Z.to_nat 65536) as n eqn:Hn. clear Hn.
  pose proof (proj1 (all_from_true _ _ _) H c) as H1. cbv beta in H1.
  rewrite En in H1. unfold colour16_ok in Hc. specialize (H1 ltac:(lia)). lia.
Qed.

(* packing two nibbles: all 256 x 256 byte pairs *)
Lemma nibble_pack : forall g g', 0 <= g < 256 -> 0 <= g' < 256 ->
  let b := Z.lor (Z.land g 240) (Z.land (Z.shiftr g' 4) 15) in b / 16 = g / 16 /\ b mod 16 = g' / 16.
Proof.
  intros g g' Hg Hg'.
  assert (H : all_rect 0 0 256 256 (fun g g' =>
              let b := Z.lor (Z.land g 240) (Z.land (Z.shiftr g' 4) 15) in (b / 16 =? g / 16) && (b mod 16 =? g' / 16)) = true)
    by (vm_compute; reflexivity).
  pose proof (all_rect_elim _ _ _ _ _ H g g' ltac:(lia) ltac:(lia)) as H2. cbv beta zeta in H2. cbv zeta. lia.
Qed.

