(* C17: the loops of the image routines never panic and compute the closed forms of
   Model/MonoConv.v.  One generic lemma about `for y { for x { dest.Set(x+ox, y+oy, f x y) } }`. *)
From RP Require Import Lib.Base Model.Mono Model.MonoConv Proofs.ListZ.
From Coq Require Import ZifyBool.
Ltac Zify.zify_post_hook ::= Z.div_mod_to_equations.

Lemma iter_up_res_inv {S} (P : Z -> S -> Prop) (f : Z -> S -> res S) n : forall start st,
  P start st ->
  (forall k st, start <= k < start + Z.of_nat n -> P k st -> exists st', f k st = Ok st' /\ P (k + 1) st') ->
  exists st', iter_up_res n start f st = Ok st' /\ P (start + Z.of_nat n) st'.
Proof.
  induction n as [|n IH]; intros start st H0 Hstep.
  - exists st. cbn [iter_up_res]. split; auto. replace (start + Z.of_nat 0) with start by lia. exact H0.
  - destruct (Hstep start st ltac:(lia) H0) as (st1 & E1 & P1).
    destruct (IH (start + 1) st1 P1) as (st' & E' & P').
    { intros k st2 Hk. apply Hstep. lia. }
    exists st'. cbn [iter_up_res]. rewrite E1. split; auto.
    replace (start + Z.of_nat (Datatypes.S n)) with (start + 1 + Z.of_nat n) by lia. exact P'.
Qed.

Lemma for_range_res_inv {S} (P : Z -> S -> Prop) (f : Z -> S -> res S) n st :
  0 <= n -> P 0 st ->
  (forall k st, 0 <= k < n -> P k st -> exists st', f k st = Ok st' /\ P (k + 1) st') ->
  exists st', for_range_res 0 n f st = Ok st' /\ P n st'.
Proof.
  intros Hn H0 Hstep. unfold for_range_res.
  destruct (iter_up_res_inv P f (Z.to_nat n) 0 st H0) as (st' & E & P').
  { intros k st2 Hk. apply Hstep. lia. }
  exists st'. split; auto. replace n with (0 + Z.of_nat (Z.to_nat n)) by lia. exact P'.
Qed.

(* cells already written: complete rows < y, and columns < x of row y *)
Definition done_ (w y x a b : Z) : bool :=
  ((0 <=? a) && (a <? w) && (0 <=? b) && (b <? y)) || ((b =? y) && (0 <=? a) && (a <? x)).

Lemma r_set_at r x y c X Y :
  rw (r_set r x y c) = rw r /\ rh (r_set r x y c) = rh r /\
  rat (r_set r x y c) X Y = if r_in (rw r) (rh r) x y && (X =? x) && (Y =? y) then c else rat r X Y.
Proof.
  unfold r_set. destruct (r_in (rw r) (rh r) x y); simpl; auto.
Qed.

Theorem paint_loop_ok w h ox oy f g r0 :
  0 <= w -> 0 <= h ->
  (forall x y, 0 <= x < w -> 0 <= y < h -> f x y = Ok (g x y)) ->
  exists r, paint_loop w h ox oy f r0 = Ok r /\ rw r = rw r0 /\ rh r = rh r0 /\
    forall X Y, rat r X Y =
      if r_in (rw r0) (rh r0) X Y && r_in w h (X - ox) (Y - oy)
      then match g (X - ox) (Y - oy) with Some c => c | None => rat r0 X Y end
      else rat r0 X Y.
Proof.
  intros Hw Hh Hf.
  set (I := fun (y x : Z) (r : raster) =>
    rw r = rw r0 /\ rh r = rh r0 /\
    forall X Y, rat r X Y =
      if r_in (rw r0) (rh r0) X Y && done_ w y x (X - ox) (Y - oy)
      then match g (X - ox) (Y - oy) with Some c => c | None => rat r0 X Y end
      else rat r0 X Y).
  unfold paint_loop.
  destruct (for_range_res_inv (fun y r => I y 0 r)
              (fun y r => for_range_res 0 w (fun x r =>
                 match f x y with Ok (Some c) => Ok (r_set r (x + ox) (y + oy) c) | Ok None => Ok r | Panic s => Panic s end) r)
              h r0 Hh) as (r & E & (HW & HH & HA)).
  - (* nothing done yet *)
    unfold I. split; auto. split; auto. intros X Y.
    replace (done_ w 0 0 (X - ox) (Y - oy)) with false by (unfold done_; lia).
    rewrite andb_false_r. reflexivity.
  - (* one row *)
    intros y r Hy HI.
    destruct (for_range_res_inv (fun x r => I y x r)
                (fun x r => match f x y with Ok (Some c) => Ok (r_set r (x + ox) (y + oy) c) | Ok None => Ok r | Panic s => Panic s end)
                w r Hw HI) as (r' & E' & (HW' & HH' & HA')).
    + intros x r1 Hx (HW1 & HH1 & HA1). rewrite (Hf x y Hx Hy).
      destruct (g x y) as [c|] eqn:Eg.
      * exists (r_set r1 (x + ox) (y + oy) c). split; auto.
        destruct (r_set_at r1 (x + ox) (y + oy) c 0 0) as (A & B & _).
        split; [congruence|]. split; [congruence|]. intros X Y.
        destruct (r_set_at r1 (x + ox) (y + oy) c X Y) as (_ & _ & C). rewrite C, HA1, HW1, HH1.
        destruct ((X =? x + ox) && (Y =? y + oy)) eqn:Q.
        -- assert (X = x + ox /\ Y = y + oy) as [-> ->] by lia.
           replace (x + ox - ox) with x by lia. replace (y + oy - oy) with y by lia.
           rewrite Eg.
           replace (done_ w y (x + 1) x y) with true by (unfold done_; lia).
           replace (done_ w y x x y) with false by (unfold done_; lia).
           rewrite !Z.eqb_refl, andb_false_r, !andb_true_r.
           destruct (r_in (rw r0) (rh r0) (x + ox) (y + oy)); reflexivity.
        -- replace (r_in (rw r0) (rh r0) (x + ox) (y + oy) && (X =? x + ox) && (Y =? y + oy)) with false by lia.
           replace (done_ w y (x + 1) (X - ox) (Y - oy)) with (done_ w y x (X - ox) (Y - oy)) by (unfold done_; lia).
           reflexivity.
      * exists r1. split; auto. split; auto. split; auto. intros X Y. rewrite HA1.
        destruct (Z.eq_dec (X - ox) x) as [Ex|Nx]; [destruct (Z.eq_dec (Y - oy) y) as [Ey|Ny]|].
        -- rewrite Ex, Ey, Eg.
           destruct (r_in (rw r0) (rh r0) X Y && done_ w y x x y); destruct (r_in (rw r0) (rh r0) X Y && done_ w y (x + 1) x y); reflexivity.
        -- replace (done_ w y (x + 1) (X - ox) (Y - oy)) with (done_ w y x (X - ox) (Y - oy)) by (unfold done_; lia). reflexivity.
        -- replace (done_ w y (x + 1) (X - ox) (Y - oy)) with (done_ w y x (X - ox) (Y - oy)) by (unfold done_; lia). reflexivity.
    + exists r'. split; auto. unfold I. split; auto. split; auto. intros X Y. rewrite HA'.
      replace (done_ w (y + 1) 0 (X - ox) (Y - oy)) with (done_ w y w (X - ox) (Y - oy)) by (unfold done_; lia).
      reflexivity.
  - exists r. split; auto. split; auto. split; auto. intros X Y. rewrite HA.
    replace (done_ w h 0 (X - ox) (Y - oy)) with (r_in w h (X - ox) (Y - oy)) by (unfold done_, r_in; lia).
    reflexivity.
Qed.

(* ---------- the per-pixel bodies: guards make every read in range ---------- *)
Lemma rd_ok d i s : 0 <= i < zlen d -> rd d i s = Ok (znth 0 d i).
Proof. intros H. unfold rd. replace ((0 <=? i) && (i <? zlen d)) with true by lia. reflexivity. Qed.

Lemma rgb_cell_ok w data x y : 0 <= w -> 0 <= x -> 0 <= y ->
  rgb_cell w data x y = Ok (rgb_at (zlen data) (znth 0 data) w x y).
Proof.
  intros Hw Hx Hy. unfold rgb_cell, rgb_at.
  assert (0 <= (y * w + x) * 2) by nia.
  destruct (Z.ltb_spec ((y * w + x) * 2 + 1) (zlen data)); [|reflexivity].
  rewrite !rd_ok by lia. reflexivity.
Qed.

Lemma gray_cell_ok w data x y : 0 <= w -> 0 <= x -> 0 <= y ->
  gray_cell w data x y = Ok (gray_at (zlen data) (znth 0 data) w x y).
Proof.
  intros Hw Hx Hy. unfold gray_cell, gray_at, gdiv.
  assert (0 <= y * w + x) by nia.
  assert (0 <= Z.quot (y * w + x) 2) by (apply Z.quot_pos; lia).
  destruct (Z.ltb_spec (Z.quot (y * w + x) 2) (zlen data)); [|reflexivity].
  rewrite rd_ok by lia. reflexivity.
Qed.

Lemma mono_cell_ok w data x y :
  mono_cell w data x y = Ok (mono_at (zlen data) (znth 0 data) w x y).
Proof.
  unfold mono_cell, mono_at.
  destruct ((0 <=? y * ceil_div8 w + gdiv x 8) && (y * ceil_div8 w + gdiv x 8 <? zlen data)) eqn:E; [|reflexivity].
  rewrite rd_ok by lia. reflexivity.
Qed.

Lemma rwp_cell_ok g x y : 0 <= gw g -> 0 <= x -> 0 <= y ->
  rwp_cell g x y = Ok (cell_at (zlen (gdata g)) (znth 0 (gdata g)) (gtype g) (gw g) x y).
Proof.
  intros. unfold rwp_cell, cell_at.
  destruct (gtype g =? 1); [apply rgb_cell_ok; auto|].
  destruct (gtype g =? 2); [apply gray_cell_ok; auto|].
  destruct (gtype g =? 0); [apply mono_cell_ok|reflexivity].
Qed.

(* ---------- the routines ---------- *)
Theorem img_from_rgb_ok w h data : 0 <= w -> 0 <= h ->
  exists r, img_from_rgb_loop w h data = Ok r /\ rw r = w /\ rh r = h /\
    forall X Y, rat r X Y = img_from_at (zlen data) (znth 0 data) 1 w h X Y.
Proof.
  intros Hw Hh.
  destruct (paint_loop_ok w h 0 0 (rgb_cell w data) (rgb_at (zlen data) (znth 0 data) w) (r_new w h c_zero) Hw Hh)
    as (r & E & A & B & C).
  { intros x y Hx Hy. apply rgb_cell_ok; lia. }
  exists r. split; auto. split; auto. split; auto. intros X Y. rewrite C. simpl rw. simpl rh. simpl rat.
  rewrite !Z.sub_0_r. unfold img_from_at, cell_at. simpl.
  destruct (r_in w h X Y); reflexivity.
Qed.

Theorem img_from_gray_ok w h data : 0 <= w -> 0 <= h ->
  exists r, img_from_gray_loop w h data = Ok r /\ rw r = w /\ rh r = h /\
    forall X Y, rat r X Y = img_from_at (zlen data) (znth 0 data) 2 w h X Y.
Proof.
  intros Hw Hh.
  destruct (paint_loop_ok w h 0 0 (gray_cell w data) (gray_at (zlen data) (znth 0 data) w) (r_new w h c_zero) Hw Hh)
    as (r & E & A & B & C).
  { intros x y Hx Hy. apply gray_cell_ok; lia. }
  exists r. split; auto. split; auto. split; auto. intros X Y. rewrite C. simpl rw. simpl rh. simpl rat.
  rewrite !Z.sub_0_r. unfold img_from_at, cell_at. simpl.
  destruct (r_in w h X Y); reflexivity.
Qed.

(* a mono image whose buffer holds at least wib*H bytes (NewImage, CreateFromImage: exactly;
   CreateFromBytes: at least) *)
Definition mono_ok (i : img) : Prop :=
  0 <= gW (ig i) /\ 0 <= gH (ig i) /\ gwib (ig i) = (gW (ig i) + 7) / 8 /\ gwib (ig i) * gH (ig i) <= zlen (idata i).

Theorem to_image_ok inv i : mono_ok i ->
  exists r, to_image_loop inv i = Ok r /\ rw r = gW (ig i) /\ rh r = gH (ig i) /\
    forall X Y, rat r X Y = to_image_at (znth 0 (idata i)) inv (gW (ig i)) (gH (ig i)) (gwib (ig i)) X Y.
Proof.
  intros (HW & HH & Hwib & Hlen). unfold to_image_loop.
  set (g := ig i) in *.
  destruct (paint_loop_ok (8 * gwib g) (gH g) 0 0
              (fun x y => do b <- rd (idata i) (y * gwib g + gdiv x 8) 1;
                          Ok (Some (if xorb (Z.land b (Z.shiftl 1 (Z.land (7 - gmod x 8) 255)) >? 0) inv then c_black else c_white)))
              (fun x y => Some (if xorb (Z.land (znth 0 (idata i) (y * gwib g + gdiv x 8)) (Z.shiftl 1 (Z.land (7 - gmod x 8) 255)) >? 0) inv then c_black else c_white))
              (r_new (gW g) (gH g) c_zero)) as (r & E & A & B & C); try lia.
  { intros x y Hx Hy. unfold gdiv. rewrite Z.quot_div_nonneg by lia.
    rewrite rd_ok by nia. reflexivity. }
  exists r. split; auto. split; auto. split; auto. intros X Y. rewrite C. simpl rw. simpl rh. simpl rat.
  rewrite !Z.sub_0_r. unfold to_image_at.
  destruct (r_in (gW g) (gH g) X Y) eqn:Hin; [|reflexivity].
  replace (r_in (8 * gwib g) (gH g) X Y) with true by (unfold r_in in *; lia).
  reflexivity.
Qed.

Lemma mono_ok_create w h data : 0 <= w -> 0 <= h -> mono_ok (fst (create_from_bytes w h data)).
Proof.
  intros Hw Hh. unfold create_from_bytes, new_image, ceil_div8.
  destruct (Z.ltb_spec w 0); try lia. cbn [ig gwib].
  destruct (Z.gtb_spec ((w + 7) / 8 * h) (zlen data)); unfold mono_ok; cbn [fst ig idata gW gH gwib].
  - repeat split; try lia. rewrite zlen_zrepeat; [lia|]. apply Z.mul_nonneg_nonneg; [apply Z.div_pos|]; lia.
  - repeat split; lia.
Qed.

Theorem rwp_to_image_ok g width height : 0 <= gw g -> 0 <= gh g ->
  exists r, rwp_to_image_loop g width height = Ok r /\ rw r = width /\ rh r = height /\
    forall X Y, rat r X Y = rwp_at (zlen (gdata g)) (znth 0 (gdata g)) (gtype g) (gw g) (gh g) width height X Y.
Proof.
  intros Hw Hh. unfold rwp_to_image_loop.
  destruct (paint_loop_ok (gw g) (gh g) (gdiv (width - gw g) 2) (gdiv (height - gh g) 2) (rwp_cell g)
              (cell_at (zlen (gdata g)) (znth 0 (gdata g)) (gtype g) (gw g)) (r_new width height c_black) Hw Hh)
    as (r & E & A & B & C).
  { intros x y Hx Hy. apply rwp_cell_ok; lia. }
  exists r. split; auto. split; auto. split; auto. intros X Y. rewrite C. simpl rw. simpl rh. simpl rat.
  unfold rwp_at.
  destruct (r_in width height X Y); [|reflexivity]. cbn [andb].
  destruct (r_in (gw g) (gh g) _ _); reflexivity.
Qed.

(* ConvertGfxStateToPngBytes up to the encoder *)
Theorem gfx_state_ok g : 0 <= gw g -> 0 <= gh g ->
  exists o, gfx_state_image_loop g = Ok o /\
    match o with
    | Some r => (gtype g = 0 \/ gtype g = 1 \/ gtype g = 2) /\ rw r = gw g /\ rh r = gh g /\ forall X Y, rat r X Y = gfx_state_at g X Y
    | None => gtype g <> 0 /\ gtype g <> 1 /\ gtype g <> 2
    end.
Proof.
  intros Hw Hh. unfold gfx_state_image_loop, gfx_state_at.
  destruct (Z.eqb_spec (gtype g) 0) as [E0|N0].
  { destruct (to_image_ok true _ (mono_ok_create (gw g) (gh g) (pad_mono (gw g) (gh g) (gdata g)) Hw Hh)) as (r & E & A & B & C).
    rewrite E. exists (Some r). split; [reflexivity|]. split; [auto|].
    assert (GW : gW (ig (fst (create_from_bytes (gw g) (gh g) (pad_mono (gw g) (gh g) (gdata g))))) = gw g)
      by (unfold create_from_bytes; destruct (_ >? _); reflexivity).
    assert (GH : gH (ig (fst (create_from_bytes (gw g) (gh g) (pad_mono (gw g) (gh g) (gdata g))))) = gh g)
      by (unfold create_from_bytes; destruct (_ >? _); reflexivity).
    rewrite GW in *. rewrite GH in *. auto. }
  destruct (Z.eqb_spec (gtype g) 1) as [E1|N1].
  { destruct (img_from_rgb_ok (gw g) (gh g) (gdata g) Hw Hh) as (r & E & A & B & C).
    rewrite E. exists (Some r). split; [reflexivity|]. rewrite E1. auto. }
  destruct (Z.eqb_spec (gtype g) 2) as [E2|N2].
  { destruct (img_from_gray_ok (gw g) (gh g) (gdata g) Hw Hh) as (r & E & A & B & C).
    rewrite E. exists (Some r). split; [reflexivity|]. rewrite E2. auto. }
  exists None. split; auto.
Qed.
