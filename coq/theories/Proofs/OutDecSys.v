(* C04, SysStat lines: for every strictly well-formed field list (any subset, any order,
   repetitions with the later value winning, optional final ':') the decoder's sliding
   name:value scan produces exactly the statistics the reference reader assigns. *)
From RP Require Import Lib.Base Lib.Sexp Lib.Strings Lib.FloatFmt Model.MsgOut Model.DecOut
  Spec.DenoteOut Spec.GrammarOut Proofs.GfxNum Proofs.OutStrings Proofs.OutDecSkel Proofs.OutDecEvent
  Proofs.OutFloatSweep.
Open Scope Z_scope.

Lemma index_in_of : forall x l i, index_in x l i = index_of x l i.
Proof. induction l as [|y l IH]; intros i; cbn [index_in index_of]; [reflexivity|]. destruct (bytes_eqb x y); auto. Qed.

Lemma index_of_lt : forall x l i0 i, index_of x l i0 = Some i -> (i0 <= i < i0 + length l)%nat.
Proof.
  induction l as [|y l IH]; intros i0 i H; cbn [index_of] in H; [discriminate|].
  destruct (bytes_eqb x y).
  - injection H as <-. cbn [length]. lia.
  - apply IH in H. cbn [length]. lia.
Qed.

Lemma set_nth_upd {A} : forall (l : list A) n v, (n < length l)%nat -> set_nth l n v = upd_nat l n v.
Proof.
  unfold set_nth. induction l as [|x l IH]; intros n v H; [cbn in H; lia|].
  destruct n as [|n]; cbn [firstn skipn app upd_nat]; [reflexivity|].
  f_equal. apply IH. cbn in H. lia.
Qed.

Lemma upd_nat_len {A} : forall (l : list A) n v, length (upd_nat l n v) = length l.
Proof. induction l as [|x l IH]; intros [|n] v; cbn [upd_nat length]; auto. Qed.

(* numeric strings are never field names *)
Definition numeric_head (v : bytes) : bool :=
  match v with c :: _ => (c =? 45) || is_digit c | [] => false end.

Lemma index_of_head_mismatch c v' : forall l i,
  Forall (fun n => match n with h :: _ => (c =? h) = false | [] => True end) l -> index_of (c :: v') l i = None.
Proof.
  induction l as [|n l IH]; intros i H; cbn [index_of]; [reflexivity|].
  inversion H as [|? ? Hn Hl]; subst. destruct n as [|h t].
  - cbn. apply IH. exact Hl.
  - unfold bytes_eqb. cbn [list_eqb]. rewrite Hn. cbn [andb]. apply IH. exact Hl.
Qed.

Lemma numeric_not_name v : numeric_head v = true -> index_of v ss_names 0 = None.
Proof.
  destruct v as [|c v']; [discriminate|]. cbn [numeric_head]. intros H.
  assert (Hc : c = 45 \/ 48 <= c <= 57).
  { apply orb_true_iff in H. destruct H as [H|H]; [left; apply Z.eqb_eq; exact H|right].
    unfold is_digit in H. apply andb_true_iff in H. destruct H as [H1 H2]. apply Z.leb_le in H1. apply Z.leb_le in H2. lia. }
  apply index_of_head_mismatch.
  let l := eval vm_compute in ss_names in change ss_names with l.
  repeat (constructor; [apply Z.eqb_neq; lia|]). constructor.
Qed.

Lemma digits_numeric v : digits_nonempty v = true -> numeric_head v = true.
Proof.
  intros H. apply digits_nonempty_spec in H. destruct H as [Hne Hd]. destruct v as [|c v']; [congruence|].
  cbn in Hd. apply andb_true_iff in Hd. destruct Hd as [Hc _]. cbn [numeric_head]. rewrite Hc. apply orb_true_r.
Qed.

Lemma read_dec_numeric k v r : read_dec k v = Some r -> numeric_head v = true.
Proof.
  unfold read_dec. intros H.
  destruct v as [|c v']; [cbn in H; discriminate|].
  destruct (Z.eq_dec c 45) as [->|Hc]; [reflexivity|].
  assert (E : match c :: v' with 45 :: _ => true | _ => false end = false).
  { destruct c as [|q|q]; try reflexivity. do 6 (destruct q as [q|q|]; try reflexivity). contradiction Hc. reflexivity. }
  rewrite E in H.
  destruct (cut_on 46 (c :: v')) as [[ip fp] f] eqn:Ec. destruct f; [|discriminate].
  destruct (digits_nonempty ip && digits_nonempty fp && (length fp =? k)%nat) eqn:Eg; [|discriminate].
  apply andb_true_iff in Eg. destruct Eg as [Eg _]. apply andb_true_iff in Eg. destruct Eg as [Hip _].
  destruct (cut_on_found _ _ _ _ Ec) as [Hs _].
  apply digits_nonempty_spec in Hip. destruct Hip as [Hne Hd]. destruct ip as [|d ip']; [congruence|].
  cbn [app] in Hs. injection Hs as -> _. cbn in Hd. apply andb_true_iff in Hd. destruct Hd as [Hd _].
  cbn [numeric_head]. rewrite Hd. apply orb_true_r.
Qed.

Lemma read_i32_numeric v x : read_i32 v = Some x -> numeric_head v = true.
Proof.
  intros H. destruct (read_i32_spec _ _ H) as [Hne [Hch _]]. destruct v as [|c v']; [congruence|].
  cbn in Hch. apply andb_true_iff in Hch. destruct Hch as [Hc _]. exact Hc.
Qed.

(* ---------------------------------------------------------------- reader state vs decoder state *)
Definition R (a : sys_acc) (s : sys_stat) : Prop :=
  match a with
  | (st, cpu, t, e, vo, ints, fl) =>
    ss_cpu s = cpu /\ ss_ints s = ints /\ ss_flags s = fl /\ length ints = 8%nat /\ length fl = 8%nat /\
    (st = true -> f32_scaled 1 (ss_temp s) = t /\ f32_scaled 1 (ss_ext s) = e /\ f32_scaled 2 (ss_volt s) = vo)
  end.

Lemma R_zero : R sys_zero empty_sys.
Proof. unfold R, sys_zero, empty_sys. cbn. repeat split. Qed.

Ltac use_float Hfloat :=
  match goal with
  | Hs : ?st && ?sx = true |- _ =>
    apply andb_true_iff in Hs; destruct Hs as [? ?]; subst; destruct (Hfloat eq_refl) as [? [? ?]]
  | Hs : ?st = true |- _ => destruct (Hfloat Hs) as [? [? ?]]
  end.

Lemma sys_step name v a a' s :
  sys_field name v a = Some a' -> R a s -> R a' (ss_assign name v s) /\ numeric_head v = true.
Proof.
  destruct a as [[[[[[st cpu] t] e] vo] ints] fl]. unfold sys_field, R. intros H [Hcpu [Hints [Hfl [Hli [Hlf Hfloat]]]]].
  rewrite index_in_of in H. unfold ss_assign.
  destruct (index_of name ss_names 0) as [i|] eqn:Ei; [|discriminate].
  pose proof (index_of_lt _ _ _ _ Ei) as Hi. change (length ss_names) with 20%nat in Hi.
  destruct i as [|[|[|[|i]]]]; cbn [Nat.eqb] in H.
  - destruct (read_u32 v) as [x|] eqn:Ev; [|discriminate]. injection H as <-.
    destruct (read_u32_spec _ _ Ev) as [Hd [Ha Hr]]. unfold intval. rewrite Ha, (wrap32_id x Hr).
    split; [|apply digits_numeric; exact Hd]. cbn. repeat split; auto; use_float Hfloat; auto.
  - destruct (read_dec 1 v) as [[sx x]|] eqn:Ev; [|discriminate]. injection H as <-.
    split; [|apply (read_dec_numeric _ _ _ Ev)]. cbn. repeat split; auto; use_float Hfloat; auto.
    apply tenths_exact. exact Ev.
  - destruct (read_dec 1 v) as [[sx x]|] eqn:Ev; [|discriminate]. injection H as <-.
    split; [|apply (read_dec_numeric _ _ _ Ev)]. cbn. repeat split; auto; use_float Hfloat; auto.
    apply tenths_exact. exact Ev.
  - destruct (read_dec 2 v) as [[sx x]|] eqn:Ev; [|discriminate]. injection H as <-.
    split; [|apply (read_dec_numeric _ _ _ Ev)]. cbn. repeat split; auto; use_float Hfloat; auto.
    apply hundredths_exact. exact Ev.
  - change (Datatypes.S (Datatypes.S (Datatypes.S (Datatypes.S i))) - 4)%nat with (i - 0)%nat in *.
    replace (i - 0)%nat with i in * by lia.
    destruct (Datatypes.S (Datatypes.S (Datatypes.S (Datatypes.S i))) <? 12)%nat eqn:E12.
    + apply Nat.ltb_lt in E12.
      destruct (read_i32 v) as [x|] eqn:Ev; [|discriminate]. injection H as <-.
      destruct (read_i32_spec _ _ Ev) as [_ [_ [Ha Hr]]]. unfold intval. rewrite Ha, (sint32_id x Hr).
      split; [|apply (read_i32_numeric _ _ Ev)]. cbn [ss_cpu ss_ints ss_flags ss_temp ss_ext ss_volt].
      rewrite Hints. rewrite set_nth_upd by lia. repeat split; auto; try (rewrite upd_nat_len; exact Hli); use_float Hfloat; auto.
    + apply Nat.ltb_ge in E12.
      destruct (read_bool v) as [x|] eqn:Ev; [|discriminate]. injection H as <-.
      destruct (read_bool_spec _ _ Ev) as [Hd Ha]. unfold intval. rewrite Ha.
      split; [|apply digits_numeric; exact Hd]. cbn [ss_cpu ss_ints ss_flags ss_temp ss_ext ss_volt].
      rewrite Hfl. rewrite set_nth_upd by lia.
      assert (Eb : ((if x then 1 else 0) =? 1) = x) by (destruct x; reflexivity). rewrite Eb.
      repeat split; auto; try (rewrite upd_nat_len; exact Hlf); use_float Hfloat; auto.
Qed.

Lemma ss_assign_nonname y z s : index_of y ss_names 0 = None -> ss_assign y z s = s.
Proof. intros H. unfold ss_assign. rewrite H. reflexivity. Qed.

Lemma pair_ind (Q : list bytes -> Prop) :
  Q [] -> (forall x, Q [x]) -> (forall x y r, Q r -> Q (x :: y :: r)) -> forall l, Q l.
Proof. intros H0 H1 H2. fix IH 1. intros [|x [|y r]]; [exact H0|apply H1|apply H2; apply IH]. Qed.

Lemma sys_scan_ok tail : tail = [] \/ tail = [[]] -> forall P a a' s,
  sys_pairs P a = Some a' -> R a s -> R a' (ss_scan (P ++ tail) s).
Proof.
  intros Ht P. induction P as [|x|x y r IH] using pair_ind; intros a a' s H HR.
  - cbn [sys_pairs] in H. injection H as <-. cbn [app]. destruct Ht as [->| ->]; exact HR.
  - cbn [sys_pairs] in H. discriminate.
  - cbn [sys_pairs] in H. destruct (sys_field x y a) as [a1|] eqn:E1; [|discriminate].
    destruct (sys_step _ _ _ _ _ E1 HR) as [HR1 Hnum].
    cbn [app ss_scan].
    destruct (r ++ tail) as [|z rest'] eqn:Ert.
    + assert (r = []) by (destruct r; [reflexivity|discriminate]). subst r. cbn [sys_pairs] in H. injection H as <-. exact HR1.
    + rewrite (ss_assign_nonname y z _ (numeric_not_name y Hnum)). apply (IH a1 a' _ H HR1).
Qed.

Lemma drop_last_empty_spec (l : list bytes) :
  exists tail, (tail = [] \/ tail = [[]]) /\ l = drop_last_empty l ++ tail.
Proof.
  unfold drop_last_empty. destruct (rev l) as [|x r] eqn:E.
  - exists []. split; [left; reflexivity|rewrite app_nil_r; reflexivity].
  - destruct x as [|c x'].
    + exists [[]]. split; [right; reflexivity|]. rewrite <- (rev_involutive l), E. reflexivity.
    + exists []. split; [left; reflexivity|rewrite app_nil_r; reflexivity].
Qed.

Theorem sys_line_sound v rs :
  v <> [] -> read_sys v = WF true rs -> [den_sys (ss_scan (split_on 58 v) empty_sys)] = rs.
Proof.
  intros Hne H. unfold read_sys in H. destruct v as [|c v']; [congruence|].
  destruct (sys_pairs (drop_last_empty (split_on 58 (c :: v'))) sys_zero) as [a|] eqn:E; [|discriminate].
  destruct a as [[[[[[st cpu] t] e] vo] ints] fl]. injection H as -> <-.
  destruct (drop_last_empty_spec (split_on 58 (c :: v'))) as [tail [Ht Hs]].
  pose proof (sys_scan_ok tail Ht _ _ _ empty_sys E R_zero) as HR. rewrite <- Hs in HR.
  unfold R in HR. destruct HR as [H1 [H2 [H3 [_ [_ H4]]]]]. destruct (H4 eq_refl) as [H5 [H6 H7]].
  unfold den_sys. rewrite H1, H2, H3, H5, H6, H7. reflexivity.
Qed.
