(* C02 with graphics: every well-formed line, chunk lines included, and whole sequences. *)
From RP Require Import Lib.Base Lib.Sexp Lib.Strings Lib.B64 Model.Gfx Model.MsgIn Model.DecIn
  Spec.DenoteIn Spec.GrammarIn Proofs.GfxNum Proofs.GfxMatch Proofs.StringsProofs
  Proofs.InEncLines Proofs.InDecLines Proofs.InDec Proofs.InDecFam Proofs.InDecMain Proofs.InSeq Proofs.InGfx.
From Coq Require Import String ZifyBool.
Open Scope string_scope.
Open Scope list_scope.
Open Scope Z_scope.

Lemma nolf_app_right a b : nolf (a ++ b) = true -> nolf b = true.
Proof. rewrite nolf_app. intros H. apply andb_true_iff in H. tauto. Qed.

Section GfxSeq.
  Variable js : list Z -> HWCState.
  Variable jm : list Z -> list (option InboundMessage).
  Variable ncp : list Z -> option (list Z).
  Notation dline := (dec_line js jm ncp).
  Notation in_rd := (in_read js jm ncp).
  Notation sem := (sem_in_lines js jm ncp).
  Ltac side := vm_compute; reflexivity.

  (* which table entries can yield a chunk: only the three graphics keys *)
  Lemma chunk_line_form l c : in_rd l = Wf (LChunk c) ->
    exists ty rest, (ty = 0 \/ ty = 1 \/ ty = 2) /\ l = cmd_of ty ++ rest /\ nolf rest = true /\ rd_chunk ty rest = Some (LChunk c).
  Proof.
    intros H. unfold in_read in H.
    destruct (existsb (Z.eqb 10) l) eqn:LF; [discriminate|]. apply existsb_nolf in LF.
    destruct l as [|c0 r]; [discriminate|].
    destruct (c0 =? 123); [discriminate|]. destruct (c0 =? 91); [discriminate|].
    destruct (find_bare bare_words (c0 :: r)); [discriminate|].
    destruct (by_prefix_inv _ _ _ H) as (pre & f & rest & I & EL & F).
    rewrite EL in LF. pose proof (nolf_app_right _ _ LF) as NR. rewrite EL. clear H EL LF c0 r.
    set (st := gstate0).
    unfold prefix_table in I. cbn [In] in I.
    repeat (destruct I as [I|I]; [inversion I; subst pre f; clear I|]); [..|contradiction].
    - destruct (state_line_dec js jm ncp "HWC#" val_mode st rest _ ltac:(do 2 eexists; split; [side|split; reflexivity]) ltac:(side) ltac:(side) mode_kind NR F) as (es' & E & L). discriminate.
    - destruct (state_line_dec js jm ncp "HWCc#" val_colour st rest _ ltac:(do 2 eexists; split; [side|split; reflexivity]) ltac:(side) ltac:(side) colour_kind NR F) as (es' & E & L). discriminate.
    - destruct (state_line_dec js jm ncp "HWCx#" val_ext st rest _ ltac:(do 2 eexists; split; [side|split; reflexivity]) ltac:(side) ltac:(side) ext_kind NR F) as (es' & E & L). discriminate.
    - destruct (state_line_dec js jm ncp "HWCt#" val_text st rest _ ltac:(do 2 eexists; split; [side|split; reflexivity]) ltac:(side) ltac:(side) text_kind NR F) as (es' & E & L). discriminate.
    - destruct (state_line_dec js jm ncp "HWCrawADCValues#" val_adc st rest _ ltac:(do 2 eexists; split; [side|split; reflexivity]) ltac:(side) ltac:(side) adc_kind NR F) as (es' & E & L). discriminate.
    - exists 0, rest. repeat split; auto.
    - exists 1, rest. repeat split; auto.
    - exists 2, rest. repeat split; auto.
    - destruct (heartbeat_dec js jm ncp st rest _ F) as (es' & E & L). discriminate.
    - destruct (dimmed_dec js jm ncp st rest _ F) as (es' & E & L). discriminate.
    - destruct (pubstat_dec js jm ncp st rest _ F) as (es' & E & L). discriminate.
    - destruct (loadcpu_dec js jm ncp st rest _ F) as (es' & E & L). discriminate.
    - destruct (sleeptimer_dec js jm ncp st rest _ F) as (es' & E & L). discriminate.
    - destruct (sleepmode_dec js jm ncp st rest _ F) as (es' & E & L). discriminate.
    - destruct (screensaver_dec js jm ncp st rest _ F) as (es' & E & L). discriminate.
    - destruct (webserver_dec js jm ncp st rest _ F) as (es' & E & L). discriminate.
    - destruct (jsonout_dec js jm ncp st rest _ F) as (es' & E & L). discriminate.
    - destruct (bright_dec js jm ncp st rest _ F) as (es' & E & L). discriminate.
    - unfold one_cmd in F. discriminate.
    - destruct (setnet_dec js jm ncp st rest _ NR F) as (es' & E & L). discriminate.
    - destruct (simenv_dec js jm ncp st rest _ NR F) as (es' & E & L). discriminate.
    - destruct (mem_dec js jm ncp st rest _ F) as (es' & E & L). discriminate.
    - destruct (shift_dec js jm ncp st rest _ F) as (es' & E & L). discriminate.
    - destruct (state_dec js jm ncp st rest _ F) as (es' & E & L). discriminate.
    - destruct (flag_dec js jm ncp st rest _ F) as (es' & E & L). discriminate.
  Qed.

  Lemma dec_line_gfx st ty rest sm : (ty = 0 \/ ty = 1 \/ ty = 2) ->
    gfx_match (cmd_of ty ++ rest) = Some sm ->
    dline st (cmd_of ty ++ rest) = Ok (fst (gfx_step st sm), delivered (snd (gfx_step st sm))).
  Proof.
    intros HT GM.
    assert (P : exists c pre', cmd_of ty = c :: pre' /\ words_clash (c :: pre') = true /\ (c =? 123) = false /\ (c =? 91) = false /\
                               kw_none cmd_kws (c :: pre') = true).
    { destruct HT as [->|[->| ->]]; do 2 eexists; (split; [side|]); repeat split; side. }
    destruct P as (c & pre' & E & W & C1 & C2 & K). rewrite E in *.
    rewrite (dec_line_prefixed js jm ncp st c pre' rest W C1 C2). cbv zeta.
    rewrite (m_cmd_none _ rest K), GM.
    destruct (gfx_step st sm) as [st' [[ids g]|]]; reflexivity.
  Qed.

  (* one well-formed chunk line: decoder locals and reader tracker stay related, and the
     delivered message (if any) means what the reader does to the panel *)
  Theorem dec_line_chunk st x p l c : in_rd l = Wf (LChunk c) -> R st x ->
    exists st' ms, dline st l = Ok (st', ms) /\ R st' (snd (step_chunk p x c)) /\
                   fst (step_chunk p x c) = apply_effs p (den_msgs ms).
  Proof.
    intros H HR. destruct (chunk_line_form l c H) as (ty & rest & HT & -> & NR & F).
    destruct (gfx_match_wf ty rest _ HT NR F) as (lst & ids & idx & k & adv & hv & pay & GM & HI & HK & HA & HZ & E).
    inversion E; subst c.
    rewrite (dec_line_gfx st ty rest _ HT GM).
    destruct (sim_step ty lst ids idx k adv hv pay st x p HT HI HK HA HZ HR) as [R' P'].
    do 2 eexists. split; [reflexivity|]. split; [exact R'|exact P'].
  Qed.

  (* ---------------------------------------------------------------- sequences, graphics included *)
  Definition good_line (l : list Z) : bool :=
    match in_rd l with Wf _ => true | NotGrammar => true | Malformed => false end.

  Lemma dec_in_from_good : forall ls st x p, forallb good_line ls = true -> R st x ->
    exists ms, dec_in_from js jm ncp st ls = Ok ms /\ run_msgs p ms = fst (sem (p, x) ls).
  Proof.
    induction ls as [|l r IH]; intros st x p H HR.
    - exists []. split; reflexivity.
    - cbn [forallb] in H. apply andb_true_iff in H. destruct H as [Hl Hr].
      unfold good_line in Hl. cbn [dec_in_from]. unfold sem_in_lines. cbn [fold_left]. unfold sem_in_line at 2.
      destruct (in_rd l) as [[es|c]| |] eqn:E; try discriminate.
      + destruct (dec_line_wf js jm ncp st l es E) as (ms & -> & Q). cbn [bind fst snd].
        destruct (IH st x (apply_effs p es) Hr HR) as (rest & -> & R1). cbn [bind].
        exists (ms ++ rest). split; [reflexivity|]. fold (sem (apply_effs p es, x) r).
        rewrite <- R1. unfold run_msgs. rewrite den_msgs_app, apply_effs_app, (Q p). reflexivity.
      + destruct (dec_line_chunk st x p l c E HR) as (st' & ms & -> & R' & P'). cbn [bind fst snd].
        destruct (step_chunk p x c) as [p' x'] eqn:SC. cbn [fst snd] in *.
        destruct (IH st' x' p' Hr R') as (rest & -> & R1). cbn [bind].
        exists (ms ++ rest). split; [reflexivity|]. fold (sem (p', x') r).
        rewrite <- R1. unfold run_msgs. rewrite den_msgs_app, apply_effs_app, <- P'. reflexivity.
      + rewrite (dec_line_nongrammar js jm ncp st l E). cbn [bind fst snd].
        destruct (IH st x p Hr HR) as (rest & -> & R1). cbn [bind].
        exists (empty_msg :: rest). split; [reflexivity|]. fold (sem (p, x) r). rewrite <- R1. reflexivity.
  Qed.

  (* C02: all sequences of well-formed lines (every spelling, graphics transfers in any order,
     interrupted, mixed-target ...) with lines that are not of the grammar interleaved *)
  Theorem dec_in_sound : forall ls p, forallb good_line ls = true ->
    exists ms, dec_in js jm ncp ls = Ok ms /\ run_msgs p ms = fst (sem (p, None) ls).
  Proof. intros ls p H. apply (dec_in_from_good ls gstate0 None p H R_init). Qed.
End GfxSeq.
