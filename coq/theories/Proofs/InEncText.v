(* C01, part 2: the 21-slot HWCt# line.  Trailing-trim lemma for
   StringImplodeRemoveTrailingEmpty, then: the reference reader, applied to the slots the
   encoder fills for a representable text record, returns the record's normal form. *)
From RP Require Import Lib.Base Lib.Sexp Lib.Strings Model.MsgIn Model.EncIn
  Spec.DenoteIn Spec.GrammarIn Proofs.GfxNum Proofs.StringsProofs Proofs.InBits Proofs.InEncLines.
From Coq Require Import String ZifyBool.
Open Scope list_scope.
Open Scope Z_scope.

(* ---------------------------------------------------------------- trailing trim *)
Fixpoint trim_trailing (l : list (list Z)) : list (list Z) :=
  match l with
  | [] => []
  | x :: r => match trim_trailing r with [] => if nilb x then [] else [x] | t => x :: t end
  end.

Definition no_bar (s : list Z) : bool := forallb (fun c => negb (c =? 124)) s.

Lemma implode_aux_spec : forall l, forallb no_bar l = true ->
  (snd (implode_aux [124] l) = false -> fst (implode_aux [124] l) = [] /\ trim_trailing l = []) /\
  (snd (implode_aux [124] l) = true ->
     exists T, fst (implode_aux [124] l) = 124 :: T /\ fields 124 T = trim_trailing l /\ trim_trailing l <> []).
Proof.
  induction l as [|x r IH]; intros H.
  - cbn. split; [auto|discriminate].
  - cbn [forallb] in H. apply andb_true_iff in H. destruct H as [Hx Hr]. specialize (IH Hr).
    cbn [implode_aux trim_trailing]. destruct (implode_aux [124] r) as [o fill] eqn:E. cbn [fst snd] in *.
    destruct IH as [IH0 IH1]. destruct fill.
    + destruct (IH1 eq_refl) as (T & -> & FT & NE). cbn [orb fst snd]. split; [discriminate|]. intros _.
      exists (x ++ 124 :: T). split; [reflexivity|]. rewrite fields_app_sep by exact Hx. rewrite FT.
      destruct (trim_trailing r); [congruence|]. split; [reflexivity|discriminate].
    + destruct (IH0 eq_refl) as [-> TR]. rewrite TR. cbn [orb]. destruct x as [|c x'].
      * cbn. split; [auto|discriminate].
      * cbn [nilb negb fst snd]. split; [discriminate|]. intros _. exists (c :: x'). rewrite app_nil_r.
        split; [reflexivity|]. rewrite fields_no_sep by exact Hx. split; [reflexivity|discriminate].
Qed.

Lemma fld_trim : forall l k, fld (trim_trailing l) k = fld l k.
Proof.
  unfold fld. induction l as [|x r IH]; intros k; [reflexivity|]. cbn [trim_trailing].
  destruct (trim_trailing r) as [|y t] eqn:E.
  - destruct x as [|c x']; cbn [nilb].
    + destruct k; cbn [nth]; [reflexivity|]. rewrite <- IH. destruct k; reflexivity.
    + destruct k; cbn [nth]; [reflexivity|]. rewrite <- IH. destruct k; reflexivity.
  - destruct k; cbn [nth]; [reflexivity|]. apply IH.
Qed.

Lemma trim_length : forall l, (List.length (trim_trailing l) <= List.length l)%nat.
Proof.
  induction l as [|x r IH]; cbn [trim_trailing List.length]; [lia|].
  destruct (trim_trailing r); [destruct (nilb x); cbn; lia|cbn [List.length] in *; lia].
Qed.

Lemma fld_nil_all : forall l, trim_trailing l = [] -> forall k, fld l k = [].
Proof. intros l H k. rewrite <- fld_trim, H. unfold fld. destruct k; reflexivity. Qed.

(* what the reader sees of the imploded line: the same fields, no more of them *)
Lemma implode_fields l : forallb no_bar l = true ->
  (forall k, fld (fields 124 (implode_trim l)) k = fld l k) /\
  (List.length (fields 124 (implode_trim l)) <= Nat.max 1 (List.length l))%nat.
Proof.
  intros H. destruct (implode_aux_spec l H) as [S0 S1]. unfold implode_trim.
  destruct (snd (implode_aux [124] l)) eqn:F.
  - destruct (S1 eq_refl) as (T & -> & FT & NE). rewrite FT. split; [intros k; apply fld_trim|].
    pose proof (trim_length l). pose proof (Nat.le_max_r 1 (List.length l)). lia.
  - destruct (S0 eq_refl) as [-> TR]. cbn [fields]. split.
    + intros k. rewrite (fld_nil_all l TR). unfold fld. destruct k as [|[|k]]; reflexivity.
    + cbn [List.length]. pose proof (Nat.le_max_l 1 (List.length l)). lia.
Qed.

(* the reader looks at its field list only through [fld] and the length test *)
Lemma rd_text_ext fs fs' : (List.length fs <= 21)%nat -> (List.length fs' <= 21)%nat ->
  (forall k, fld fs k = fld fs' k) -> rd_text fs = rd_text fs'.
Proof.
  intros L L' H. unfold rd_text, num_fld, int_fld.
  replace (21 <? Z.of_nat (List.length fs)) with false by lia.
  replace (21 <? Z.of_nat (List.length fs')) with false by lia.
  rewrite !H. reflexivity.
Qed.

(* ---------------------------------------------------------------- the slots, one by one *)
Definition nf (s : list Z) : option Z := match s with [] => Some 0 | _ => rd_nat_lt two31 s end.
Definition inf (s : list Z) : option Z := match s with [] => Some 0 | _ => rd_int32 s end.

Lemma nf_itoa v : 0 <= v < two31 -> nf (itoa v) = Some v.
Proof.
  intros H. unfold nf. pose proof (itoa_nonempty v). destruct (itoa v) eqn:E; [congruence|].
  rewrite <- E. apply rd_nat_lt_itoa. exact H.
Qed.
Lemma nf_itoa_if v : 0 <= v < two31 -> nf (itoa_if (v >? 0) v) = Some v.
Proof.
  intros H. unfold itoa_if. destruct (v >? 0) eqn:E; [apply nf_itoa; exact H|].
  assert (v = 0) by lia. subst. reflexivity.
Qed.
Lemma inf_itoa v : - two31 <= v < two31 -> inf (itoa v) = Some v.
Proof.
  intros H. unfold inf. pose proof (itoa_nonempty v). destruct (itoa v) eqn:E; [congruence|].
  rewrite <- E. apply rd_int32_itoa. exact H.
Qed.
Lemma inf_itoa_if v : - two31 <= v < two31 -> inf (itoa_if (negb (v =? 0)) v) = Some v.
Proof.
  intros H. unfold itoa_if. destruct (v =? 0) eqn:E; cbn [negb]; [|apply inf_itoa; exact H].
  assert (v = 0) by lia. subst. reflexivity.
Qed.
Lemma nilb_itoa v : nilb (itoa v) = false.
Proof. pose proof (itoa_nonempty v). destruct (itoa v); [congruence|reflexivity]. Qed.
Lemma nilb_itoa_if c v : nilb (itoa_if c v) = negb c.
Proof. unfold itoa_if. destruct c; [apply nilb_itoa|reflexivity]. Qed.

Lemma is_i32_range v : is_i32 v = true -> - two31 <= v < two31.
Proof. unfold is_i32, two31. intros H. apply in_range_iff in H. lia. Qed.
Lemma is_n31_range v : is_n31 v = true -> 0 <= v < two31.
Proof. unfold is_n31, two31. intros H. apply in_range_iff in H. lia. Qed.
Lemma is_u32_range v : is_u32 v = true -> 0 <= v < two32.
Proof. unfold is_u32, two32. intros H. apply in_range_iff in H. lia. Qed.

(* colour slot: the integer and what the reader makes of it *)
Lemma color_integer_spec c : rep_color c = true ->
  0 <= color_integer c < 256 /\ text_colour (color_integer c) = den_textcolor (Some c).
Proof.
  intros H. unfold rep_color in H. unfold color_integer, den_textcolor, text_colour.
  destruct (c_rgb c) as [rgb|], (c_index c) as [ix|]; try discriminate.
  - destruct (rgb_bits_spec rgb H) as (_ & _ & _ & _ & A6 & A4 & A2 & A0 & Pos & _ & _ & Hi). cbv zeta in *.
    split; [lia|]. destruct (Z.lor 64 (rgb_bits rgb) =? 0) eqn:E; [lia|]. rewrite A6, A4, A2, A0. reflexivity.
  - apply in_range_iff in H. destruct (index_bits_spec ix H) as (_ & _ & L & B6 & B0 & _). rewrite L.
    split; [lia|]. destruct (ix =? 0) eqn:E; [reflexivity|]. rewrite B6, B0. cbn [Z.eqb]. rewrite E. reflexivity.
  - split; [lia|reflexivity].
Qed.

Definition slot_col (o : option Color) : list Z := match o with Some c => itoa (color_integer c) | None => [] end.
Lemma slot_col_spec o : rep_opt rep_color o = true ->
  exists v, nf (slot_col o) = Some v /\ text_colour v = den_textcolor o.
Proof.
  intros H. destruct o as [c|]; cbn [slot_col].
  - destruct (color_integer_spec c H) as [R T]. exists (color_integer c). split; [|exact T].
    apply nf_itoa. unfold two31. lia.
  - exists 0. split; reflexivity.
Qed.

(* ---------------------------------------------------------------- style integers *)
Definition fz (o : option TextStyle) (f : TextStyle -> option Font) : Font :=
  font_or_zero (match o with Some s => f s | None => None end).

Lemma rep_font_range f : rep_font f = true -> 0 <= f_face f <= 7 /\ 0 <= f_height f <= 3 /\ 0 <= f_width f <= 3.
Proof.
  unfold rep_font. intros H. apply andb_true_iff in H. destruct H as [H H3]. apply andb_true_iff in H.
  destruct H as [H1 H2]. apply in_range_iff in H1. apply in_range_iff in H2. apply in_range_iff in H3. lia.
Qed.
Lemma fz_range o f : (forall s, o = Some s -> rep_opt rep_font (f s) = true) ->
  0 <= f_face (fz o f) <= 7 /\ 0 <= f_height (fz o f) <= 3 /\ 0 <= f_width (fz o f) <= 3.
Proof.
  intros H. unfold fz. destruct o as [s|]; [|cbn; lia]. specialize (H s eq_refl).
  destruct (f s) as [ft|]; [apply rep_font_range; exact H|cbn; lia].
Qed.

Lemma style_face_fz s : style_face s =
  Z.lor (Z.lor (Z.land (f_face (fz (Some s) ts_textfont)) 7) (Z.shiftl (Z.land (f_face (fz (Some s) ts_titlefont)) 7) 3))
        (Z.shiftl (if ts_fixed s then 1 else 0) 6).
Proof. unfold style_face, fz. destruct (ts_textfont s), (ts_titlefont s); reflexivity. Qed.
Lemma style_sizes_fz s : style_sizes s =
  Z.lor (Z.lor (Z.land (f_width (fz (Some s) ts_textfont)) 3) (Z.shiftl (Z.land (f_height (fz (Some s) ts_textfont)) 3) 2))
        (Z.lor (Z.shiftl (Z.land (f_width (fz (Some s) ts_titlefont)) 3) 4) (Z.shiftl (Z.land (f_height (fz (Some s) ts_titlefont)) 3) 6)).
Proof. unfold style_sizes, fz. destruct (ts_textfont s), (ts_titlefont s); reflexivity. Qed.

Lemma style_slots_spec (o : option TextStyle) : rep_opt rep_style o = true ->
  let sl := match o with
            | Some s => [itoa_if (style_face s >? 0) (style_face s); itoa_if (style_sizes s >? 0) (style_sizes s);
                         itoa_if (style_settings s >? 0) (style_settings s)]
            | None => [[]; []; []] end in
  exists a b c, nf (nth 0 sl []) = Some a /\ nf (nth 1 sl []) = Some b /\ nf (nth 2 sl []) = Some c /\
    bits a 0 3 = f_face (fz o ts_textfont) /\ bits a 3 3 = f_face (fz o ts_titlefont) /\
    (bits a 6 1 =? 1) = match o with Some s => ts_fixed s | None => false end /\
    bits b 0 2 = f_width (fz o ts_textfont) /\ bits b 2 2 = f_height (fz o ts_textfont) /\
    bits b 4 2 = f_width (fz o ts_titlefont) /\ bits b 6 2 = f_height (fz o ts_titlefont) /\
    bits c 0 2 = match o with Some s => ts_padding s | None => 0 end /\
    bits c 2 3 = match o with Some s => ts_spacing s | None => 0 end.
Proof.
  intros H. destruct o as [s|].
  - cbn [rep_opt] in H. unfold rep_style in H. repeat (apply andb_true_iff in H; destruct H as [H ?]).
    apply in_range_iff in H2. apply in_range_iff in H1.
    destruct (fz_range (Some s) ts_textfont) as (T1 & T2 & T3); [intros ? E; inversion E; subst; assumption|].
    destruct (fz_range (Some s) ts_titlefont) as (U1 & U2 & U3); [intros ? E; inversion E; subst; assumption|].
    cbv zeta. cbn [nth].
    assert (SF : face_ok (f_face (fz (Some s) ts_textfont)) (f_face (fz (Some s) ts_titlefont)) = true)
      by (apply (sweep2 face_ok 8 8 face_sweep); cbn; lia).
    assert (SS : sizes_ok (f_width (fz (Some s) ts_textfont)) (f_height (fz (Some s) ts_textfont)) = true)
      by (apply (sweep2 sizes_ok 4 4 sizes_sweep); cbn; lia).
    pose proof (sweep2 settings_ok 4 8 settings_sweep (ts_padding s) (ts_spacing s) ltac:(cbn; lia) ltac:(cbn; lia)) as ST.
    unfold face_ok in SF. cbn [forallb] in SF. unfold sizes_ok in SS. unfold settings_ok in ST.
    pose proof (sweep2 (fun hw hh => let v :=
         Z.lor (Z.lor (Z.land (f_width (fz (Some s) ts_textfont)) 3) (Z.shiftl (Z.land (f_height (fz (Some s) ts_textfont)) 3) 2))
               (Z.lor (Z.shiftl (Z.land hw 3) 4) (Z.shiftl (Z.land hh 3) 6)) in
         (bits v 0 2 =? f_width (fz (Some s) ts_textfont)) && (bits v 2 2 =? f_height (fz (Some s) ts_textfont)) && (bits v 4 2 =? hw) && (bits v 6 2 =? hh) && (0 <=? v) && (v <? 256)) 4 4) as SS'.
    specialize (SS' SS (f_width (fz (Some s) ts_titlefont)) (f_height (fz (Some s) ts_titlefont)) ltac:(cbn; lia) ltac:(cbn; lia)).
    cbv beta zeta in SS'. rewrite <- style_sizes_fz in SS'.
    exists (style_face s), (style_sizes s), (style_settings s).
    unfold style_settings in *. cbv zeta in ST.
    rewrite style_face_fz in *.
    destruct (ts_fixed s).
    + apply andb_true_iff in SF. destruct SF as [SF _]. cbv zeta in SF.
      rewrite !nf_itoa_if by (unfold two31; lia).
      repeat split; lia.
    + apply andb_true_iff in SF. destruct SF as [_ SF]. apply andb_true_iff in SF. destruct SF as [SF _]. cbv zeta in SF.
      rewrite !nf_itoa_if by (unfold two31; lia).
      repeat split; lia.
  - cbv zeta. cbn [nth]. exists 0, 0, 0. repeat split; reflexivity.
Qed.

Lemma num_fld_nf fs k : num_fld fs k = nf (fld fs k).
Proof. unfold num_fld, nf. destruct (fld fs k); reflexivity. Qed.
Lemma int_fld_inf fs k : int_fld fs k = inf (fld fs k).
Proof. unfold int_fld, inf. destruct (fld fs k); reflexivity. Qed.

Definition scale_slots (o : option ScaleM) : list (list Z) :=
  match o with
  | Some s => if sc_type s >? 0
              then [itoa (sc_type s); itoa (sc_rlo s); itoa (sc_rhi s); itoa (sc_llo s); itoa (sc_lhi s)]
              else [[]; []; []; []; []]
  | None => [[]; []; []; []; []]
  end.
Definition norm_scale (o : option ScaleM) : option (Z * Z * Z * Z * Z) :=
  match o with
  | Some s => if sc_type s >? 0 then Some (sc_type s, sc_rlo s, sc_rhi s, sc_llo s, sc_lhi s) else None
  | None => None end.

Lemma scale_slots_spec o : rep_opt rep_scale o = true ->
  exists s9 s10 s11 s12 s13 t a b c d,
    scale_slots o = [s9; s10; s11; s12; s13] /\ nf s9 = Some t /\ inf s10 = Some a /\ inf s11 = Some b /\
    inf s12 = Some c /\ inf s13 = Some d /\
    (if t >? 0 then Some (t, a, b, c, d) else None) = norm_scale o.
Proof.
  intros H. unfold scale_slots, norm_scale. destruct o as [s|].
  - cbn [rep_opt] in H. unfold rep_scale in H. do 4 (apply andb_true_iff in H; destruct H as [H ?]).
    apply is_i32_range in H, H0, H1, H2, H3.
    destruct (sc_type s >? 0) eqn:E.
    + do 5 eexists. exists (sc_type s), (sc_rlo s), (sc_rhi s), (sc_llo s), (sc_lhi s).
      split; [reflexivity|]. rewrite nf_itoa by (unfold two31 in *; lia). rewrite !inf_itoa by assumption.
      rewrite E. repeat split; reflexivity.
    + do 5 eexists. exists 0, 0, 0, 0, 0. split; [reflexivity|]. repeat split; reflexivity.
  - do 5 eexists. exists 0, 0, 0, 0, 0. split; [reflexivity|]. repeat split; reflexivity.
Qed.

Definition style_slots (o : option TextStyle) : list (list Z) :=
  match o with
  | Some s => [itoa_if (style_face s >? 0) (style_face s); itoa_if (style_sizes s >? 0) (style_sizes s);
               itoa_if (style_settings s >? 0) (style_settings s)]
  | None => [[]; []; []] end.

Lemma style_slots_list o : exists x y z, style_slots o = [x; y; z].
Proof. destruct o; do 3 eexists; reflexivity. Qed.

Lemma text_slots_eq t : text_slots t =
  [ (if t_fmt t =? 7 then [] else if is_10_11 (t_fmt t) then itoa (match t_style t with Some s => ts_ufs s | None => 0 end) else itoa (t_int t));
    (if t_fmt t =? 7 then [] else itoa_if (t_fmt t >? 0) (t_fmt t));
    (if (t_sicon t >? 0) || (t_micon t >? 0) then itoa_if (icon_integer t >? 0) (icon_integer t) else []);
    t_title t; (if t_solid t then [] else [49]); t_l1 t; t_l2 t;
    itoa_if (negb (t_int2 t =? 0)) (t_int2 t); itoa_if (t_pair t >? 0) (t_pair t) ] ++
  scale_slots (t_scale t) ++ [[]] ++ style_slots (t_style t) ++
  [ (if t_inv t then [49] else []); slot_col (t_pix t); slot_col (t_bg t) ].
Proof. reflexivity. Qed.

Lemma mkNT_eq a1 a2 a3 a4 a5 a6 a7 a8 a9 a10 a11 a12 a13 a14 a15 a16 a17 a18 a19 a20 a21 a22 a23 a24 b1 b2 b3 b4 b5 b6 b7 b8 b9 b10 b11 b12 b13 b14 b15 b16 b17 b18 b19 b20 b21 b22 b23 b24 :
  a1 = b1 -> a2 = b2 -> a3 = b3 -> a4 = b4 -> a5 = b5 -> a6 = b6 -> a7 = b7 -> a8 = b8 -> a9 = b9 -> a10 = b10 -> a11 = b11 -> a12 = b12 -> a13 = b13 -> a14 = b14 -> a15 = b15 -> a16 = b16 -> a17 = b17 -> a18 = b18 -> a19 = b19 -> a20 = b20 -> a21 = b21 -> a22 = b22 -> a23 = b23 -> a24 = b24 ->
  Some (mkNT a1 a2 a3 a4 a5 a6 a7 a8 a9 a10 a11 a12 a13 a14 a15 a16 a17 a18 a19 a20 a21 a22 a23 a24) = Some (mkNT b1 b2 b3 b4 b5 b6 b7 b8 b9 b10 b11 b12 b13 b14 b15 b16 b17 b18 b19 b20 b21 b22 b23 b24).
Proof. intros. subst. reflexivity. Qed.

Lemma text_read t : rep_text t = true -> rd_text (text_slots t) = Some (norm_text t).
Proof.
  intros R. unfold rep_text in R. do 12 (apply andb_true_iff in R; destruct R as [R ?]).
  rename H into Rbg, H0 into Rpix, H1 into Rsty, H2 into Rsc, H3 into Rpair, H4 into Rint2.
  destruct (scale_slots_spec _ Rsc) as (s9 & s10 & s11 & s12 & s13 & sct & rlo & rhi & llo & lhi & Esc & N9 & N10 & N11 & N12 & N13 & NSC).
  destruct (style_slots_list (t_style t)) as (x15 & x16 & x17 & Est).
  pose proof (style_slots_spec _ Rsty) as SS. cbv zeta in SS. fold (style_slots (t_style t)) in SS. rewrite Est in SS.
  cbn [nth] in SS. destruct SS as (fa & fb & fc & N15 & N16 & N17 & B).
  destruct (slot_col_spec _ Rpix) as (vp & Np & Tp). destruct (slot_col_spec _ Rbg) as (vb & Nb & Tb).
  rewrite text_slots_eq, Esc, Est. cbn [app].
  unfold rd_text. cbn [List.length]. change (21 <? Z.of_nat 21) with false. cbv iota.
  rewrite !num_fld_nf, !int_fld_inf. cbn [fld nth].
  apply is_n31_range in H10, Rpair. apply is_i32_range in R, Rint2.
  apply in_range_iff in H9. apply in_range_iff in H8.
  assert (IC : icons_ok (t_sicon t) (t_micon t) = true) by (apply (sweep2 icons_ok 4 8 icons_sweep); cbn; lia).
  unfold icons_ok in IC. fold (icon_integer t) in IC. cbv zeta in IC.
  assert (N2 : nf (if (t_sicon t >? 0) || (t_micon t >? 0) then itoa_if (icon_integer t >? 0) (icon_integer t) else []) = Some (icon_integer t)).
  { destruct ((t_sicon t >? 0) || (t_micon t >? 0)) eqn:E.
    - apply nf_itoa_if. unfold two31. lia.
    - assert (icon_integer t = 0) by lia. rewrite H. reflexivity. }
  assert (N1 : nf (if t_fmt t =? 7 then [] else itoa_if (t_fmt t >? 0) (t_fmt t)) = Some (if t_fmt t =? 7 then 0 else t_fmt t)).
  { destruct (t_fmt t =? 7); [reflexivity|]. apply nf_itoa_if. exact H10. }
  assert (N4 : nf (if t_solid t then [] else [49]) = Some (if t_solid t then 0 else 1)) by (destruct (t_solid t); reflexivity).
  assert (N18 : nf (if t_inv t then [49] else []) = Some (if t_inv t then 1 else 0)) by (destruct (t_inv t); reflexivity).
  rewrite N1, N2, N4, (inf_itoa_if _ Rint2), (nf_itoa_if _ Rpair), N9, N10, N11, N12, N13, N15, N16, N17, N18, Np, Nb.
  cbv iota beta.
  set (ufs := match t_style t with Some s => ts_ufs s | None => 0 end).
  assert (Uf : 0 <= ufs < two32).
  { unfold ufs. destruct (t_style t) as [s|]; [|unfold two32; lia]. cbn [rep_opt] in Rsty. unfold rep_style in Rsty.
    apply andb_true_iff in Rsty. destruct Rsty as [_ U]. apply is_u32_range in U. exact U. }
  set (slot0 := if t_fmt t =? 7 then [] else if is_10_11 (t_fmt t) then itoa ufs else itoa (t_int t)).
  assert (FM : (if nilb slot0 && ((if t_fmt t =? 7 then 0 else t_fmt t) =? 0) then 7 else if t_fmt t =? 7 then 0 else t_fmt t) = t_fmt t).
  { unfold slot0. destruct (t_fmt t =? 7) eqn:E7; [cbn; lia|].
    destruct (is_10_11 (t_fmt t)); rewrite nilb_itoa; reflexivity. }
  rewrite FM. change (fmt_is_size (t_fmt t)) with (is_10_11 (t_fmt t)).
  assert (V0 : (if is_10_11 (t_fmt t) then match slot0 with [] => Some 0 | z :: l => rd_nat_lt two32 (z :: l) end else inf slot0)
               = Some (if t_fmt t =? 7 then 0 else if is_10_11 (t_fmt t) then ufs else t_int t)).
  { unfold slot0. destruct (t_fmt t =? 7) eqn:E7.
    - assert (is_10_11 (t_fmt t) = false) by (unfold is_10_11; lia). rewrite H. reflexivity.
    - destruct (is_10_11 (t_fmt t)).
      + pose proof (itoa_nonempty ufs). destruct (itoa ufs) eqn:EI; [congruence|]. rewrite <- EI. apply rd_nat_lt_itoa. exact Uf.
      + apply inf_itoa. exact R. }
  rewrite V0. unfold norm_text. change (fmt_is_size (t_fmt t)) with (is_10_11 (t_fmt t)).
  destruct B as (B1 & B2 & B3 & B4 & B5 & B6 & B7 & B8 & B9).
  apply mkNT_eq.
  all: try reflexivity.
  - destruct (t_fmt t =? 7), (is_10_11 (t_fmt t)); reflexivity.
  - unfold ufs. destruct (t_fmt t =? 7) eqn:E7, (is_10_11 (t_fmt t)) eqn:E10; try reflexivity.
    unfold is_10_11 in E10. lia.
  - lia.
  - lia.
  - destruct (t_solid t); reflexivity.
  - rewrite nilb_itoa_if, negb_involutive. destruct (is_10_11 (t_fmt t)); [reflexivity|].
    destruct (negb (nilb (t_l2 t)) || negb (t_int2 t =? 0)); cbn [andb]; [|reflexivity].
    destruct (t_pair t =? 0) eqn:E1, (t_pair t <=? 0) eqn:E2; try reflexivity; lia.
  - exact NSC.
  - exact B1.
  - exact B4.
  - exact B5.
  - exact B2.
  - exact B6.
  - exact B7.
  - exact B3.
  - exact B8.
  - exact B9.
  - destruct (t_inv t); reflexivity.
  - exact Tp.
  - exact Tb.
Qed.

(* ---------------------------------------------------------------- the whole line *)
Lemma no_bar_dec s : forallb dec_char s = true -> no_bar s = true.
Proof. apply forallb_impl. intros x. unfold dec_char, is_digit. lia. Qed.
Lemma no_bar_itoa v : no_bar (itoa v) = true.
Proof. apply no_bar_dec, itoa_chars. Qed.
Lemma no_bar_itoa_if c v : no_bar (itoa_if c v) = true.
Proof. destruct c; [apply no_bar_itoa|reflexivity]. Qed.
Lemma no_bar_clean s : clean_text s = true -> no_bar s = true.
Proof. apply forallb_impl. intros x. lia. Qed.
Lemma nolf_itoa_if c v : nolf (itoa_if c v) = true.
Proof. destruct c; [apply nolf_itoa|reflexivity]. Qed.

Lemma text_slots_clean t : rep_text t = true ->
  forallb no_bar (text_slots t) = true /\ forallb nolf (text_slots t) = true /\ (List.length (text_slots t) = 21)%nat.
Proof.
  intros R. unfold rep_text in R. do 12 (apply andb_true_iff in R; destruct R as [R ?]).
  rewrite text_slots_eq.
  assert (SC : forallb no_bar (scale_slots (t_scale t)) = true /\ forallb nolf (scale_slots (t_scale t)) = true /\ (List.length (scale_slots (t_scale t)) = 5)%nat).
  { unfold scale_slots. destruct (t_scale t) as [s|]; [destruct (sc_type s >? 0)|]; cbn [forallb List.length];
      rewrite ?no_bar_itoa, ?nolf_itoa; repeat split; reflexivity. }
  assert (ST : forallb no_bar (style_slots (t_style t)) = true /\ forallb nolf (style_slots (t_style t)) = true /\ (List.length (style_slots (t_style t)) = 3)%nat).
  { unfold style_slots. destruct (t_style t) as [s|]; cbn [forallb List.length];
      rewrite ?no_bar_itoa_if, ?nolf_itoa_if; repeat split; reflexivity. }
  assert (CP : forall o, no_bar (slot_col o) = true /\ nolf (slot_col o) = true).
  { intros [c|]; cbn [slot_col]; [rewrite no_bar_itoa, nolf_itoa|]; split; reflexivity. }
  destruct SC as (SC1 & SC2 & SC3). destruct ST as (ST1 & ST2 & ST3).
  rewrite !forallb_app, !app_length, SC1, SC2, SC3, ST1, ST2, ST3. cbn [forallb List.length].
  destruct (CP (t_pix t)) as [-> ->]. destruct (CP (t_bg t)) as [-> ->].
  rewrite (no_bar_clean _ H7), (no_bar_clean _ H6), (no_bar_clean _ H5).
  rewrite (nolf_clean _ H7), (nolf_clean _ H6), (nolf_clean _ H5).
  rewrite !no_bar_itoa_if, !nolf_itoa_if.
  repeat split.
  - destruct (t_fmt t =? 7); [|destruct (is_10_11 (t_fmt t)); rewrite ?no_bar_itoa];
    destruct ((t_sicon t >? 0) || (t_micon t >? 0)); rewrite ?no_bar_itoa_if; destruct (t_solid t), (t_inv t); reflexivity.
  - destruct (t_fmt t =? 7); [|destruct (is_10_11 (t_fmt t)); rewrite ?nolf_itoa];
    destruct ((t_sicon t >? 0) || (t_micon t >? 0)); rewrite ?nolf_itoa_if; destruct (t_solid t), (t_inv t); reflexivity.
Qed.

Lemma nolf_fields_all : forall l, forallb nolf l = true -> nolf (fst (implode_aux [124] l)) = true.
Proof.
  induction l as [|x r IH]; intros H; [reflexivity|]. cbn [forallb] in H. apply andb_true_iff in H. destruct H as [Hx Hr].
  cbn [implode_aux]. destruct (implode_aux [124] r) as [o fill]. cbn [fst] in *. specialize (IH Hr).
  destruct (fill || negb (nilb x)); cbn [fst]; [|exact IH]. rewrite !nolf_app, Hx, IH. reflexivity.
Qed.
Lemma nolf_implode l : forallb nolf l = true -> nolf (implode_trim l) = true.
Proof.
  intros H. unfold implode_trim. pose proof (nolf_fields_all l H) as N.
  destruct (fst (implode_aux [124] l)) as [|c r]; [reflexivity|]. cbn [nolf forallb] in N.
  apply andb_true_iff in N. tauto.
Qed.

(* the reader's value parser on the imploded slots of a representable text record *)
Lemma val_text_slots t : rep_text t = true ->
  val_text (implode_trim (text_slots t)) = Some (UText (norm_text t)) /\ nolf (implode_trim (text_slots t)) = true.
Proof.
  intros R. destruct (text_slots_clean t R) as (NB & NL & LN).
  split; [|apply nolf_implode; exact NL].
  unfold val_text. destruct (implode_fields _ NB) as [F L].
  rewrite (rd_text_ext _ (text_slots t)); [rewrite (text_read t R); reflexivity| | |exact F].
  - rewrite LN in L. change (Nat.max 1 21) with 21%nat in L. exact L.
  - rewrite LN. apply le_n.
Qed.
