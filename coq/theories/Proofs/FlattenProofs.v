(* C07: flattening keeps every non-white-space character and leaves no line feed; the generic
   "every produced string passes through one_line" combinator; framing. *)
From RP Require Import Lib.Base Lib.Strings Lib.Utf8 Lib.TrimSpace Model.Flatten Spec.OneLine
  Proofs.FlattenUtf8.
From Coq Require Import ZifyBool.
Open Scope Z_scope.
Open Scope list_scope.

(* ---------------------------------------------------------------- nonws *)
Lemma nonws_go_keep0 s k1 k2 : nonws_go 0 k1 s = nonws_go 0 k2 s.
Proof. destruct s; reflexivity. Qed.

(* dropping k bytes of a white-space rune *)
Lemma nonws_go_drop : forall s k, (k <= length s)%nat -> nonws_go k false s = nonws (skipn k s).
Proof.
  induction s as [|c r IH]; intros k Hk.
  - destruct k; reflexivity.
  - destruct k as [|k]; [apply nonws_go_keep0|]. cbn [nonws_go skipn app]. apply IH. cbn in Hk. lia.
Qed.

(* concatenation at a clean boundary *)
Lemma nonws_go_app b : starts_clean b -> forall a k keep, (k <= length a)%nat ->
  nonws_go k keep (a ++ b) = nonws_go k keep a ++ nonws b.
Proof.
  intros Hb. induction a as [|c r IH]; intros k keep Hk.
  - cbn in Hk. assert (k = 0)%nat by lia. subst k. cbn [app]. apply nonws_go_keep0.
  - destruct k as [|k].
    + change ((c :: r) ++ b) with (c :: (r ++ b)). cbn [nonws_go].
      change (c :: r ++ b) with ((c :: r) ++ b).
      rewrite (decode_rune_app (c :: r) b ltac:(discriminate) Hb).
      pose proof (decode_rune_len (c :: r) ltac:(discriminate)) as Hl.
      destruct (decode_rune (c :: r)) as [ru n]. cbn [snd length] in Hl.
      rewrite IH by lia. rewrite app_assoc. reflexivity.
    + cbn [app nonws_go]. rewrite IH by (cbn in Hk; lia). rewrite app_assoc. reflexivity.
Qed.

Lemma nonws_app a b : starts_clean b -> nonws (a ++ b) = nonws a ++ nonws b.
Proof. intros Hb. unfold nonws. apply nonws_go_app; [exact Hb | lia]. Qed.

(* a single white-space rune, validly encoded, contributes nothing *)
Lemma nonws_space_rune enc r n :
  decode_rune enc = (r, n) -> n = length enc -> is_space_rune r = true -> nonws enc = [].
Proof.
  intros Hd Hn Hs. destruct enc as [|c e]; [reflexivity|].
  unfold nonws. cbn [nonws_go]. rewrite Hd, Hs. cbn [negb app].
  rewrite nonws_go_drop by (cbn in Hn; lia).
  replace (n - 1)%nat with (length e) by (cbn in Hn; lia). rewrite skipn_all. reflexivity.
Qed.

(* ---------------------------------------------------------------- TrimSpace keeps them *)
Lemma nonws_trim_left_fuel : forall f s, nonws (trim_left_fuel f s) = nonws s.
Proof.
  induction f as [|f IH]; intros s; [reflexivity|]. cbn [trim_left_fuel].
  destruct s as [|c r]; [reflexivity|].
  pose proof (decode_rune_len (c :: r) ltac:(discriminate)) as Hl.
  destruct (decode_rune (c :: r)) as [ru n] eqn:Ed. cbn [snd] in Hl.
  destruct (is_space_rune ru) eqn:Es; [|reflexivity].
  rewrite IH. unfold nonws at 2. cbn [nonws_go]. rewrite Ed, Es. cbn [negb app].
  destruct n as [|n]; [lia|]. cbn [skipn]. replace (Datatypes.S n - 1)%nat with n by lia.
  rewrite nonws_go_drop; [reflexivity | cbn [length] in Hl; lia].
Qed.

(* what DecodeLastRune found when it reports a white-space rune *)
Lemma decode_last_space rs r n :
  decode_last_rune_rev rs = (r, n) -> is_space_rune r = true ->
  exists enc rest, rs = rev enc ++ rest /\ length enc = n /\ decode_rune enc = (r, n) /\ starts_clean enc.
Proof.
  assert (Hne : is_space_rune rune_error = false) by reflexivity.
  assert (Htry : forall bs k c rest', try_last bs k = (r, n) -> is_space_rune r = true -> length bs = k ->
                 bs = c :: rest' -> rune_start c = true ->
                 length bs = n /\ decode_rune bs = (r, n) /\ starts_clean bs).
  { intros bs k c rest' Ht Hs Hk Hbs Hrs. unfold try_last in Ht.
    destruct (decode_rune bs) as [r' n'] eqn:Ed. destruct (Nat.eqb n' k) eqn:En.
    - apply Nat.eqb_eq in En. injection Ht as <- <-. subst n'. repeat split; auto.
      subst bs. cbn. unfold rune_start in Hrs. apply negb_true_iff in Hrs. exact Hrs.
    - injection Ht as <- <-. rewrite Hne in Hs. discriminate. }
  unfold decode_last_rune_rev. intros H Hs.
  destruct rs as [|b0 r1]; [injection H as <- <-; rewrite Hne in Hs; discriminate|].
  destruct (b0 <? 128) eqn:E0.
  { injection H as <- <-. exists [b0], r1. repeat split; auto.
    - unfold decode_rune. rewrite E0. reflexivity.
    - cbn. unfold is_cont. lia. }
  destruct r1 as [|b1 r2]; [injection H as <- <-; rewrite Hne in Hs; discriminate|].
  destruct (rune_start b1) eqn:E1.
  { destruct (Htry [b1; b0] 2%nat b1 [b0] H Hs eq_refl eq_refl E1) as [H1 [H2 H3]].
    exists [b1; b0], r2. repeat split; auto. }
  destruct r2 as [|b2 r3]; [injection H as <- <-; rewrite Hne in Hs; discriminate|].
  destruct (rune_start b2) eqn:E2.
  { destruct (Htry [b2; b1; b0] 3%nat b2 [b1; b0] H Hs eq_refl eq_refl E2) as [H1 [H2 H3]].
    exists [b2; b1; b0], r3. repeat split; auto. }
  destruct r3 as [|b3 r4]; [injection H as <- <-; rewrite Hne in Hs; discriminate|].
  destruct (rune_start b3) eqn:E3.
  { destruct (Htry [b3; b2; b1; b0] 4%nat b3 [b2; b1; b0] H Hs eq_refl eq_refl E3) as [H1 [H2 H3]].
    exists [b3; b2; b1; b0], r4. repeat split; auto. }
  injection H as <- <-. rewrite Hne in Hs. discriminate.
Qed.

Lemma nonws_trim_right_rev_fuel : forall f rs, nonws (rev (trim_right_rev_fuel f rs)) = nonws (rev rs).
Proof.
  induction f as [|f IH]; intros rs; [reflexivity|]. cbn [trim_right_rev_fuel].
  destruct rs as [|c r0]; [reflexivity|].
  destruct (decode_last_rune_rev (c :: r0)) as [r n] eqn:Ed.
  destruct (is_space_rune r) eqn:Es; [|reflexivity].
  destruct (decode_last_space _ _ _ Ed Es) as [enc [rest [Hrs [Hlen [Hdec Hclean]]]]].
  rewrite IH, Hrs. rewrite <- Hlen, <- (rev_length enc), skipn_app, Nat.sub_diag, skipn_all. cbn [app skipn].
  rewrite rev_app_distr, rev_involutive. rewrite nonws_app by exact Hclean.
  rewrite (nonws_space_rune enc r n Hdec (eq_sym Hlen) Es), app_nil_r. reflexivity.
Qed.

Theorem nonws_trim_space s : nonws (trim_space s) = nonws s.
Proof.
  unfold trim_space, trim_right, trim_left.
  rewrite nonws_trim_right_rev_fuel, rev_involutive. apply nonws_trim_left_fuel.
Qed.

(* ---------------------------------------------------------------- splitting at LF *)
Lemma nonws_lf r : nonws (10 :: r) = nonws r.
Proof. unfold nonws. cbn [nonws_go decode_rune]. cbn. apply nonws_go_keep0. Qed.

Lemma starts_clean_lf r : starts_clean (10 :: r).
Proof. reflexivity. Qed.

Lemma nonws_split_aux : forall s cur,
  concat (map nonws (split_on_aux 10 s cur)) = nonws (rev cur ++ s).
Proof.
  induction s as [|c r IH]; intros cur; cbn [split_on_aux].
  - cbn [map concat]. rewrite !app_nil_r. reflexivity.
  - destruct (c =? 10) eqn:E.
    + apply Z.eqb_eq in E. subst c. cbn [map concat]. rewrite IH. cbn [rev app].
      rewrite (nonws_app (rev cur) (10 :: r) (starts_clean_lf r)), nonws_lf. reflexivity.
    + rewrite IH. cbn [rev]. rewrite <- app_assoc. reflexivity.
Qed.

(* the characters of a text are the characters of its lines *)
Theorem nonws_lines s : concat (map nonws (split_on 10 s)) = nonws s.
Proof. unfold split_on. rewrite nonws_split_aux. reflexivity. Qed.

(* ---------------------------------------------------------------- flatten_keeps *)
(* per line, for ALL byte strings *)
Theorem strip_lb_keeps_lines s : concat (map nonws (map trim_space (split_on 10 s))) = nonws s.
Proof.
  rewrite <- (nonws_lines s). f_equal. rewrite map_map. apply map_ext. intros p. apply nonws_trim_space.
Qed.

Lemma nonws_svg_part p : nonws (svg_part p) = nonws p.
Proof.
  unfold svg_part. destruct (has_suffix [62] (trim_space p)); [apply nonws_trim_space|].
  rewrite nonws_app by reflexivity. rewrite nonws_trim_space. unfold nonws at 2. cbn. apply app_nil_r.
Qed.

Theorem strip_lb_svg_keeps_lines s : concat (map nonws (map svg_part (split_on 10 s))) = nonws s.
Proof.
  rewrite <- (nonws_lines s). f_equal. rewrite map_map. apply map_ext. intros p. apply nonws_svg_part.
Qed.

(* the joined string: the joins must not glue stray continuation bytes onto the previous line *)
Definition joins_clean (parts : list (list Z)) : Prop := Forall starts_clean parts.

Lemma starts_clean_concat parts : joins_clean parts -> starts_clean (concat parts).
Proof.
  induction 1 as [|p r Hp Hr IH]; [exact I|]. cbn [concat]. destruct p as [|c p']; [exact IH | exact Hp].
Qed.

Lemma nonws_concat parts : joins_clean parts -> nonws (concat parts) = concat (map nonws parts).
Proof.
  induction 1 as [|p r Hp Hr IH]; [reflexivity|]. cbn [concat map].
  rewrite nonws_app by (apply starts_clean_concat; exact Hr). rewrite IH. reflexivity.
Qed.

Theorem strip_lb_keeps s : joins_clean (map trim_space (split_on 10 s)) -> nonws (strip_lb s) = nonws s.
Proof. intros H. unfold strip_lb. rewrite nonws_concat by exact H. apply strip_lb_keeps_lines. Qed.

Theorem strip_lb_svg_keeps s : joins_clean (map svg_part (split_on 10 s)) -> nonws (strip_lb_svg s) = nonws s.
Proof. intros H. unfold strip_lb_svg. rewrite nonws_concat by exact H. apply strip_lb_svg_keeps_lines. Qed.

(* ---------------------------------------------------------------- no line feed *)
Definition no_lf (s : list Z) : Prop := ~ In 10 s.

Lemma no_lf_b_iff s : no_lf_b s = true <-> no_lf s.
Proof.
  unfold no_lf_b, contains_byte, no_lf. rewrite negb_true_iff. split.
  - intros H Hin. assert (existsb (Z.eqb 10) s = true) by (apply existsb_exists; exists 10; split; [exact Hin | apply Z.eqb_refl]). congruence.
  - intros H. destruct (existsb (Z.eqb 10) s) eqn:E; [|reflexivity]. apply existsb_exists in E.
    destruct E as [x [Hx Hx2]]. apply Z.eqb_eq in Hx2. subst x. contradiction.
Qed.

Lemma no_lf_forall s : no_lf s <-> Forall (fun c => c <> 10) s.
Proof.
  unfold no_lf. rewrite Forall_forall. split.
  - intros H x Hx Hc. subst x. contradiction.
  - intros H Hin. exact (H 10 Hin eq_refl).
Qed.

Lemma split_on_aux_no_sep : forall s cur, Forall (fun c => c <> 10) cur ->
  Forall (Forall (fun c => c <> 10)) (split_on_aux 10 s cur).
Proof.
  induction s as [|c r IH]; intros cur Hc; cbn [split_on_aux].
  - constructor; [apply Forall_rev; exact Hc | constructor].
  - destruct (c =? 10) eqn:E.
    + constructor; [apply Forall_rev; exact Hc | apply IH; constructor].
    + apply IH. constructor; [apply Z.eqb_neq; exact E | exact Hc].
Qed.

Lemma Forall_skipn' {A} (P : A -> Prop) : forall n l, Forall P l -> Forall P (skipn n l).
Proof. induction n; intros l H; [exact H|]. destruct l; [constructor|]. inversion H; subst. cbn. auto. Qed.

Lemma trim_space_forall' (P : Z -> Prop) s : Forall P s -> Forall P (trim_space s).
Proof.
  intros H. unfold trim_space, trim_right, trim_left. apply Forall_rev.
  assert (HL : forall f t, Forall P t -> Forall P (trim_left_fuel f t)).
  { induction f; intros t Ht; cbn [trim_left_fuel]; [exact Ht|]. destruct t; [constructor|].
    destruct (decode_rune (z :: t)) as [r n]. destruct (is_space_rune r); [apply IHf, Forall_skipn', Ht | exact Ht]. }
  assert (HR : forall f t, Forall P t -> Forall P (trim_right_rev_fuel f t)).
  { induction f; intros t Ht; cbn [trim_right_rev_fuel]; [exact Ht|]. destruct t; [constructor|].
    destruct (decode_last_rune_rev (z :: t)) as [r n]. destruct (is_space_rune r); [apply IHf, Forall_skipn', Ht | exact Ht]. }
  apply HR, Forall_rev, HL, H.
Qed.

Lemma Forall_concat {A} (P : A -> Prop) ls : Forall (Forall P) ls -> Forall P (concat ls).
Proof. induction 1; cbn [concat]; [constructor | apply Forall_app; split; assumption]. Qed.

Theorem strip_lb_no_lf s : no_lf (strip_lb s).
Proof.
  apply no_lf_forall. unfold strip_lb. apply Forall_concat.
  pose proof (split_on_aux_no_sep s [] ltac:(constructor)) as H. fold (split_on 10 s) in H.
  induction H; cbn [map]; constructor; auto. apply trim_space_forall'. assumption.
Qed.

Theorem strip_lb_svg_no_lf s : no_lf (strip_lb_svg s).
Proof.
  apply no_lf_forall. unfold strip_lb_svg. apply Forall_concat.
  pose proof (split_on_aux_no_sep s [] ltac:(constructor)) as H. fold (split_on 10 s) in H.
  induction H; cbn [map]; constructor; auto. unfold svg_part.
  destruct (has_suffix [62] (trim_space x)); [apply trim_space_forall'; assumption|].
  apply Forall_app. split; [apply trim_space_forall'; assumption | constructor; [lia | constructor]].
Qed.

(* ---------------------------------------------------------------- the final pass of both encoders *)
Theorem one_line_no_lf s : no_lf (one_line s).
Proof.
  apply no_lf_forall. unfold one_line. apply Forall_forall. intros c Hc. apply in_map_iff in Hc.
  destruct Hc as [x [Hx _]]. destruct (x =? 10) eqn:E; subst c; [lia | apply Z.eqb_neq; exact E].
Qed.

(* generic combinator: whatever strings an encoder collected, what it RETURNS after the final
   pass holds no line feed *)
Theorem one_lines_no_lf ls : Forall no_lf (one_lines ls).
Proof. unfold one_lines. apply Forall_forall. intros l Hl. apply in_map_iff in Hl. destruct Hl as [x [<- _]]. apply one_line_no_lf. Qed.

Theorem one_line_id s : no_lf s -> one_line s = s.
Proof.
  intros H. apply no_lf_forall in H. unfold one_line. induction H as [|c r Hc Hr IH]; [reflexivity|].
  cbn [map]. rewrite IH. replace (c =? 10) with false by (symmetry; apply Z.eqb_neq; exact Hc). reflexivity.
Qed.

(* the flattened payloads are already single lines: the final pass does not touch them *)
Theorem one_line_strip_lb s : one_line (strip_lb s) = strip_lb s.
Proof. apply one_line_id, strip_lb_no_lf. Qed.
Theorem one_line_strip_lb_svg s : one_line (strip_lb_svg s) = strip_lb_svg s.
Proof. apply one_line_id, strip_lb_svg_no_lf. Qed.

(* a prefix without LF in front of a single-line payload is a single line (the call sites
   "_panelTopology_svgbase=" + stripLineBreaksSvg(...) etc.) *)
Lemma no_lf_app a b : no_lf a -> no_lf b -> no_lf (a ++ b).
Proof. unfold no_lf. intros Ha Hb Hin. apply in_app_or in Hin. tauto. Qed.

(* ---------------------------------------------------------------- framing on the wire *)
Lemma split_on_aux_frame : forall l cur rest, no_lf l ->
  split_on_aux 10 (l ++ 10 :: rest) cur = (rev cur ++ l) :: split_on_aux 10 rest [].
Proof.
  induction l as [|c r IH]; intros cur rest H; cbn [app split_on_aux].
  - rewrite app_nil_r. reflexivity.
  - assert (c <> 10) by (intros ->; apply H; left; reflexivity).
    replace (c =? 10) with false by (symmetry; apply Z.eqb_neq; assumption).
    rewrite IH by (intros Hin; apply H; right; exact Hin). cbn [rev]. rewrite <- app_assoc. reflexivity.
Qed.

(* writing each string followed by one LF and splitting the stream at LF recovers exactly the
   strings (followed by the empty rest after the last LF) *)
Theorem frame_split ls : Forall no_lf ls -> unframe (frame ls) = ls ++ [[]].
Proof.
  unfold unframe, frame, split_on. induction 1 as [|l r Hl Hr IH]; [reflexivity|].
  cbn [map concat]. rewrite <- app_assoc. cbn [app]. rewrite split_on_aux_frame by exact Hl.
  cbn [rev app]. rewrite IH. reflexivity.
Qed.

Theorem frame_split_one_lines ls : unframe (frame (one_lines ls)) = one_lines ls ++ [[]].
Proof. apply frame_split, one_lines_no_lf. Qed.

(* ---------------------------------------------------------------- well-formed UTF-8 joins cleanly *)
Lemma utf8_go_app b : starts_clean b -> forall a k, (k <= length a)%nat ->
  utf8_go k (a ++ b) = utf8_go k a && utf8_go 0 b.
Proof.
  intros Hb. induction a as [|c r IH]; intros k Hk.
  - cbn in Hk. assert (k = 0)%nat by lia. subst k. reflexivity.
  - destruct k as [|k].
    + change ((c :: r) ++ b) with (c :: (r ++ b)). cbn [utf8_go].
      change (c :: r ++ b) with ((c :: r) ++ b).
      rewrite (decode_rune_app (c :: r) b ltac:(discriminate) Hb).
      pose proof (decode_rune_len (c :: r) ltac:(discriminate)) as Hl.
      destruct (decode_rune (c :: r)) as [ru n]. cbn [snd length] in Hl.
      rewrite IH by lia. rewrite andb_assoc. reflexivity.
    + cbn [app utf8_go]. apply IH. cbn in Hk. lia.
Qed.

Lemma utf8_valid_app a b : starts_clean b -> utf8_valid (a ++ b) = utf8_valid a && utf8_valid b.
Proof. intros Hb. unfold utf8_valid. apply utf8_go_app; [exact Hb | lia]. Qed.

Lemma utf8_go_skip : forall s k, (k <= length s)%nat -> utf8_go k s = utf8_valid (skipn k s).
Proof.
  induction s as [|c r IH]; intros k Hk.
  - destruct k; reflexivity.
  - destruct k as [|k]; [reflexivity|]. cbn [utf8_go skipn]. apply IH. cbn in Hk. lia.
Qed.

Lemma utf8_valid_head c r : utf8_valid (c :: r) = true -> is_cont c = false.
Proof.
  unfold utf8_valid. cbn [utf8_go]. unfold decode_rune, is_cont.
  destruct (c <? 128) eqn:E1; [lia|].
  destruct ((c <? 194) || (244 <? c)) eqn:E2; [|lia].
  cbn. discriminate.
Qed.

Lemma utf8_valid_clean s : utf8_valid s = true -> starts_clean s.
Proof. destruct s as [|c r]; [exact (fun _ => I) | apply utf8_valid_head]. Qed.

Lemma utf8_valid_split_aux : forall s cur,
  forallb utf8_valid (split_on_aux 10 s cur) = utf8_valid (rev cur ++ s).
Proof.
  induction s as [|c r IH]; intros cur; cbn [split_on_aux].
  - cbn [forallb]. rewrite app_nil_r, andb_true_r. reflexivity.
  - destruct (c =? 10) eqn:E.
    + apply Z.eqb_eq in E. subst c. cbn [forallb]. rewrite IH. cbn [rev app].
      rewrite (utf8_valid_app (rev cur) (10 :: r) (starts_clean_lf r)).
      f_equal.
    + rewrite IH. cbn [rev]. rewrite <- app_assoc. reflexivity.
Qed.

Lemma utf8_valid_trim_left_fuel : forall f s, utf8_valid s = true -> utf8_valid (trim_left_fuel f s) = true.
Proof.
  induction f as [|f IH]; intros s H; [exact H|]. cbn [trim_left_fuel].
  destruct s as [|c r]; [reflexivity|].
  pose proof (decode_rune_len (c :: r) ltac:(discriminate)) as Hl.
  destruct (decode_rune (c :: r)) as [ru n] eqn:Ed. cbn [snd] in Hl.
  destruct (is_space_rune ru); [|exact H]. apply IH.
  unfold utf8_valid in H. cbn [utf8_go] in H. rewrite Ed in H. apply andb_true_iff in H. destruct H as [_ H].
  destruct n as [|n]; [lia|]. cbn [skipn]. replace (Datatypes.S n - 1)%nat with n in H by lia.
  rewrite utf8_go_skip in H by (cbn [length] in Hl; lia). exact H.
Qed.

Lemma skipn_skipn' {A} : forall a b (l : list A), skipn a (skipn b l) = skipn (b + a) l.
Proof.
  intros a b. induction b; intros l; cbn [skipn plus]; auto.
  destruct l; [destruct a; reflexivity|]. apply IHb.
Qed.

Lemma trim_right_rev_fuel_skipn : forall f rs, exists k, trim_right_rev_fuel f rs = skipn k rs.
Proof.
  induction f as [|f IH]; intros rs; [exists 0%nat; reflexivity|]. cbn [trim_right_rev_fuel].
  destruct rs as [|c r]; [exists 0%nat; reflexivity|].
  destruct (decode_last_rune_rev (c :: r)) as [ru n]. destruct (is_space_rune ru); [|exists 0%nat; reflexivity].
  destruct (IH (skipn n (c :: r))) as [k Hk]. exists (n + k)%nat. rewrite Hk. apply skipn_skipn'.
Qed.

Lemma trim_right_prefix t : exists m, trim_right t = firstn m t.
Proof.
  unfold trim_right. destruct (trim_right_rev_fuel_skipn (length t) (rev t)) as [k Hk]. rewrite Hk.
  exists (length t - k)%nat. rewrite skipn_rev, rev_involutive. reflexivity.
Qed.

Lemma starts_clean_firstn m t : starts_clean t -> starts_clean (firstn m t).
Proof. destruct m, t; cbn; auto. Qed.

Lemma utf8_valid_trim_clean p : utf8_valid p = true -> starts_clean (trim_space p).
Proof.
  intros H. unfold trim_space. destruct (trim_right_prefix (trim_left p)) as [m ->].
  apply starts_clean_firstn, utf8_valid_clean. unfold trim_left. apply utf8_valid_trim_left_fuel, H.
Qed.

Lemma utf8_valid_joins_clean s : utf8_valid s = true -> joins_clean (map trim_space (split_on 10 s)).
Proof.
  intros H. pose proof (utf8_valid_split_aux s []) as Hs. cbn [rev app] in Hs. fold (split_on 10 s) in Hs.
  rewrite H in Hs. rewrite forallb_forall in Hs. unfold joins_clean. apply Forall_forall.
  intros t Ht. apply in_map_iff in Ht. destruct Ht as [p [<- Hp]]. apply utf8_valid_trim_clean, Hs, Hp.
Qed.

Lemma utf8_valid_joins_clean_svg s : utf8_valid s = true -> joins_clean (map svg_part (split_on 10 s)).
Proof.
  intros H. pose proof (utf8_valid_split_aux s []) as Hs. cbn [rev app] in Hs. fold (split_on 10 s) in Hs.
  rewrite H in Hs. rewrite forallb_forall in Hs. unfold joins_clean. apply Forall_forall.
  intros t Ht. apply in_map_iff in Ht. destruct Ht as [p [<- Hp]].
  pose proof (utf8_valid_trim_clean p (Hs p Hp)) as Hc. unfold svg_part.
  destruct (has_suffix [62] (trim_space p)); [exact Hc|]. destruct (trim_space p); [reflexivity | exact Hc].
Qed.

(* flatten_keeps at full strength for texts that ARE sequences of characters *)
Theorem flatten_keeps s : utf8_valid s = true ->
  nonws (strip_lb s) = nonws s /\ nonws (strip_lb_svg s) = nonws s.
Proof.
  intros H. split; [apply strip_lb_keeps, utf8_valid_joins_clean, H | apply strip_lb_svg_keeps, utf8_valid_joins_clean_svg, H].
Qed.

(* ---------------------------------------------------------------- execution twins *)
Lemma lrev_rev {A} (l : list A) : lrev l = rev l.
Proof. unfold lrev. symmetry. apply rev_alt. Qed.

Lemma split_on_aux_fast_eq sep : forall s cur, split_on_aux_fast sep s cur = split_on_aux sep s cur.
Proof.
  induction s as [|c r IH]; intros cur; cbn [split_on_aux_fast split_on_aux]; rewrite ?lrev_rev; auto.
  destruct (c =? sep); rewrite ?IH; reflexivity.
Qed.

Lemma split_on_fast_eq sep s : split_on_fast sep s = split_on sep s.
Proof. apply split_on_aux_fast_eq. Qed.

Lemma trim_space_fast_eq s : trim_space_fast s = trim_space s.
Proof. unfold trim_space_fast, trim_space, trim_right. cbv zeta. rewrite !lrev_rev. reflexivity. Qed.

Lemma svg_part_fast_eq p : svg_part_fast p = svg_part p.
Proof.
  unfold svg_part_fast, svg_part. cbv zeta. rewrite trim_space_fast_eq, lrev_rev.
  unfold has_suffix. cbn [rev app]. destruct (rev (trim_space p)) as [|c r]; cbn [has_prefix]; [reflexivity|].
  rewrite Z.eqb_sym, andb_true_r. reflexivity.
Qed.

Theorem strip_lb_fast_eq s : strip_lb_fast s = strip_lb s.
Proof.
  unfold strip_lb_fast, strip_lb. rewrite split_on_fast_eq. f_equal. apply map_ext, trim_space_fast_eq.
Qed.

Theorem strip_lb_svg_fast_eq s : strip_lb_svg_fast s = strip_lb_svg s.
Proof.
  unfold strip_lb_svg_fast, strip_lb_svg. rewrite split_on_fast_eq. f_equal. apply map_ext, svg_part_fast_eq.
Qed.
