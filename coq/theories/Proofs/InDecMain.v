(* C02, part 4: per-line soundness over the whole grammar table, lines that are not of the
   grammar, and sequences of lines (graphics chunk lines excluded here). *)
From RP Require Import Lib.Base Lib.Sexp Lib.Strings Model.Gfx Model.MsgIn Model.DecIn
  Spec.DenoteIn Spec.GrammarIn Proofs.GfxNum Proofs.StringsProofs Proofs.InBits Proofs.InEncLines
  Proofs.InDecLines Proofs.InDec Proofs.InDecFam.
From Coq Require Import String ZifyBool.
Open Scope string_scope.
Open Scope list_scope.
Open Scope Z_scope.

Lemma by_prefix_inv : forall t l e, by_prefix t l = Wf e ->
  exists pre f rest, In (pre, f) t /\ l = str pre ++ rest /\ f rest = Some e.
Proof.
  induction t as [|[q g] t IH]; intros l e H; cbn [by_prefix] in H; [discriminate|].
  destruct (drop_prefix (str q) l) as [rest|] eqn:D.
  - destruct (g rest) as [e'|] eqn:G; [|discriminate]. inversion H; subst e'.
    exists q, g, rest. split; [left; reflexivity|]. split; [apply drop_prefix_spec; exact D|exact G].
  - destruct (IH l e H) as (pre & f & rest & I & E & F). exists pre, f, rest. split; [right; exact I|tauto].
Qed.

Lemma by_prefix_ng : forall t l, by_prefix t l = NotGrammar ->
  forall pre f, In (pre, f) t -> drop_prefix (str pre) l = None.
Proof.
  induction t as [|[q g] t IH]; intros l H pre f I; [contradiction|]. cbn [by_prefix] in H.
  destruct (drop_prefix (str q) l) as [rest|] eqn:D.
  - destruct (g rest); discriminate.
  - destruct I as [I|I]; [inversion I; subst; exact D|eapply IH; eauto].
Qed.

Lemma rd_chunk_is_chunk ty s e : rd_chunk ty s = Some e -> exists c, e = LChunk c.
Proof.
  unfold rd_chunk. intros H.
  destruct (cut_at 61 s) as [[idtext rest]|]; [|discriminate].
  destruct (rd_ids idtext); [|discriminate]. destruct (cut_at 58 rest) as [[head payload]|]; [|discriminate].
  destruct (bytes_eqb _ payload); [|discriminate].
  destruct (cut_at 47 head) as [[ix hdr]|].
  - destruct (rd_nat_lt two63 ix); [|discriminate]. destruct (rd_header hdr); [|discriminate].
    destruct (_ =? 0); [|discriminate]. inversion H. eauto.
  - destruct (rd_nat_lt two63 head); [|discriminate]. inversion H. eauto.
Qed.

Section Main.
  Variable js : list Z -> HWCState.
  Variable jm : list Z -> list (option InboundMessage).
  Variable ncp : list Z -> option (list Z).
  Notation dline := (dec_line js jm ncp).
  Notation in_rd := (in_read js jm ncp).
  Notation line_ok := (line_ok js jm ncp).
  Ltac side := vm_compute; reflexivity.

  Lemma nolf_app_r a b : nolf (a ++ b) = true -> nolf b = true.
  Proof. rewrite nolf_app. intros H. apply andb_true_iff in H. tauto. Qed.

  (* every well-formed non-graphics line: the decoder appends messages meaning exactly the
     effects the reference reader assigns, and leaves the graphics locals alone *)
  Theorem dec_line_wf : forall st l es, in_rd l = Wf (LEffs es) -> line_ok st l es.
  Proof.
    intros st l es H. unfold in_read in H.
    destruct (existsb (Z.eqb 10) l) eqn:LF; [discriminate|]. apply existsb_nolf in LF.
    destruct l as [|c r].
    { inversion H; subst. exists []. split; [reflexivity|apply equiv_refl]. }
    destruct (c =? 123) eqn:C1.
    { inversion H; subst. apply json_state_dec. exact C1. }
    destruct (c =? 91) eqn:C2.
    { inversion H; subst. apply json_msgs_dec; assumption. }
    destruct (find_bare bare_words (c :: r)) as [cm|] eqn:FB.
    { inversion H; subst. apply bare_dec. exact FB. }
    destruct (by_prefix_inv _ _ _ H) as (pre & f & rest & I & EL & F).
    rewrite EL in LF. pose proof (nolf_app_r _ _ LF) as NR. rewrite EL. clear H EL FB C1 C2 LF c r.
    unfold prefix_table in I. cbn [In] in I.
    repeat (destruct I as [I|I]; [inversion I; subst pre f; clear I|]); [..|contradiction].
    - destruct (state_line_dec js jm ncp "HWC#" val_mode st rest _ ltac:(do 2 eexists; split; [side|split; reflexivity]) ltac:(side) ltac:(side) mode_kind NR F) as (es' & E & L). inversion E; subst. exact L.
    - destruct (state_line_dec js jm ncp "HWCc#" val_colour st rest _ ltac:(do 2 eexists; split; [side|split; reflexivity]) ltac:(side) ltac:(side) colour_kind NR F) as (es' & E & L). inversion E; subst. exact L.
    - destruct (state_line_dec js jm ncp "HWCx#" val_ext st rest _ ltac:(do 2 eexists; split; [side|split; reflexivity]) ltac:(side) ltac:(side) ext_kind NR F) as (es' & E & L). inversion E; subst. exact L.
    - destruct (state_line_dec js jm ncp "HWCt#" val_text st rest _ ltac:(do 2 eexists; split; [side|split; reflexivity]) ltac:(side) ltac:(side) text_kind NR F) as (es' & E & L). inversion E; subst. exact L.
    - destruct (state_line_dec js jm ncp "HWCrawADCValues#" val_adc st rest _ ltac:(do 2 eexists; split; [side|split; reflexivity]) ltac:(side) ltac:(side) adc_kind NR F) as (es' & E & L). inversion E; subst. exact L.
    - destruct (rd_chunk_is_chunk _ _ _ F) as [ck E]. discriminate.
    - destruct (rd_chunk_is_chunk _ _ _ F) as [ck E]. discriminate.
    - destruct (rd_chunk_is_chunk _ _ _ F) as [ck E]. discriminate.
    - destruct (heartbeat_dec js jm ncp st rest _ F) as (es' & E & L). inversion E; subst. exact L.
    - destruct (dimmed_dec js jm ncp st rest _ F) as (es' & E & L). inversion E; subst. exact L.
    - destruct (pubstat_dec js jm ncp st rest _ F) as (es' & E & L). inversion E; subst. exact L.
    - destruct (loadcpu_dec js jm ncp st rest _ F) as (es' & E & L). inversion E; subst. exact L.
    - destruct (sleeptimer_dec js jm ncp st rest _ F) as (es' & E & L). inversion E; subst. exact L.
    - destruct (sleepmode_dec js jm ncp st rest _ F) as (es' & E & L). inversion E; subst. exact L.
    - destruct (screensaver_dec js jm ncp st rest _ F) as (es' & E & L). inversion E; subst. exact L.
    - destruct (webserver_dec js jm ncp st rest _ F) as (es' & E & L). inversion E; subst. exact L.
    - destruct (jsonout_dec js jm ncp st rest _ F) as (es' & E & L). inversion E; subst. exact L.
    - destruct (bright_dec js jm ncp st rest _ F) as (es' & E & L). inversion E; subst. exact L.
    - unfold one_cmd in F. inversion F; subst. apply setcal_dec. exact NR.
    - destruct (setnet_dec js jm ncp st rest _ NR F) as (es' & E & L). inversion E; subst. exact L.
    - destruct (simenv_dec js jm ncp st rest _ NR F) as (es' & E & L). inversion E; subst. exact L.
    - destruct (mem_dec js jm ncp st rest _ F) as (es' & E & L). inversion E; subst. exact L.
    - destruct (shift_dec js jm ncp st rest _ F) as (es' & E & L). inversion E; subst. exact L.
    - destruct (state_dec js jm ncp st rest _ F) as (es' & E & L). inversion E; subst. exact L.
    - destruct (flag_dec js jm ncp st rest _ F) as (es' & E & L). inversion E; subst. exact L.
  Qed.
End Main.

(* ---------------------------------------------------------------- lines that are not of the grammar *)
Lemma match_kw_some : forall kws l k r0, match_kw kws l = Some (k, r0) ->
  exists kw, In kw kws /\ k = str kw /\ drop_prefix (str kw) l = Some r0.
Proof.
  induction kws as [|q kws IH]; intros l k r0 H; cbn [match_kw] in H; [discriminate|].
  destruct (drop_prefix (str q) l) as [rest|] eqn:D.
  - inversion H; subst. exists q. split; [left; reflexivity|]. split; [reflexivity|exact D].
  - destruct (IH _ _ _ H) as (kw & I & E & D'). exists kw. split; [right; exact I|tauto].
Qed.

Lemma drop_prefix_snoc : forall a c l r0, drop_prefix a l = Some r0 -> drop_prefix (a ++ [c]) l = None -> expect c r0 = None.
Proof.
  induction a as [|x a IH]; intros c l r0 H N; cbn [drop_prefix app] in *.
  - inversion H; subst. destruct r0 as [|y r]; [reflexivity|]. cbn [expect]. rewrite Z.eqb_sym.
    destruct (c =? y); [discriminate|reflexivity].
  - destruct l as [|y l]; [discriminate|]. destruct (x =? y); [|discriminate]. eapply IH; eauto.
Qed.

Section NonGrammar.
  Variable js : list Z -> HWCState.
  Variable jm : list Z -> list (option InboundMessage).
  Variable ncp : list Z -> option (list Z).
  Notation dline := (dec_line js jm ncp).
  Notation in_rd := (in_read js jm ncp).

  Ltac intable := unfold prefix_table; cbn [In]; repeat (first [left; reflexivity | right]).

  Theorem dec_line_nongrammar : forall st l, in_rd l = NotGrammar -> dline st l = Ok (st, [empty_msg]).
  Proof.
    intros st l H. unfold in_read in H.
    destruct (existsb (Z.eqb 10) l) eqn:LF; [discriminate|].
    destruct l as [|c r]; [discriminate|].
    destruct (c =? 123) eqn:C1; [discriminate|]. destruct (c =? 91) eqn:C2; [discriminate|].
    destruct (find_bare bare_words (c :: r)) as [cm|] eqn:FB; [discriminate|].
    pose proof (by_prefix_ng _ _ H) as NG. clear H.
    set (l := c :: r) in *.
    (* the exact-match switch *)
    unfold bare_words in FB. cbn [find_bare] in FB.
    repeat match type of FB with (if same l ?w then _ else _) = None =>
      let E := fresh "E" in destruct (same l w) eqn:E; [discriminate|] end.
    unfold dec_line. fold l. unfold seq_eqb, same in *.
    rewrite E, E0, E1. unfold flag_words. cbn [lookup_flag]. unfold seq_eqb.
    rewrite E2, E3, E4, E5, E6, E7, E8, E9, E10, E11, E12, E13, E14, E15, E16, E17.
    subst l. cbv iota. rewrite C1, C2. set (l := c :: r) in *.
    (* regex_cmd *)
    assert (MC : m_cmd l = None).
    { unfold m_cmd. destruct (match_kw _ l) as [[k r0]|] eqn:M; [|reflexivity].
      apply match_kw_some in M. destruct M as (kw & I & _ & D). cbn [In] in I.
      repeat (destruct I as [I|I]; [subst kw; match type of D with drop_prefix (str ?w) _ = _ => rewrite (NG w _ ltac:(intable)) in D end; discriminate|]). contradiction. }
    rewrite MC.
    assert (MG : gfx_match l = None).
    { unfold gfx_match, gfx_prefix.
      rewrite (NG "HWCgRGB#" _ ltac:(intable)), (NG "HWCgGray#" _ ltac:(intable)), (NG "HWCg#" _ ltac:(intable)). reflexivity. }
    rewrite MG.
    assert (MS : m_single l = None).
    { unfold m_single. destruct (match_kw _ l) as [[k r0]|] eqn:M; [|reflexivity]. cbn [obind].
      apply match_kw_some in M. destruct M as (kw & I & _ & D). cbn [In] in I.
      repeat (destruct I as [I|I]; [subst kw;
        match type of D with drop_prefix (str ?w) _ = _ =>
          rewrite (drop_prefix_snoc (str w) 61 l r0 D (NG (w ++ "=")%string _ ltac:(intable))) end; reflexivity|]).
      contradiction. }
    rewrite MS.
    assert (MD : m_dual l = None).
    { unfold m_dual. destruct (match_kw _ l) as [[k r0]|] eqn:M; [|reflexivity]. cbn [obind].
      apply match_kw_some in M. destruct M as (kw & I & _ & D). cbn [In] in I.
      destruct I as [I|I]; [|contradiction]. subst kw.
      rewrite (drop_prefix_snoc (str "PanelBrightness") 61 l r0 D (NG "PanelBrightness=" _ ltac:(intable))). reflexivity. }
    rewrite MD.
    assert (MT : m_str l = None).
    { unfold m_str. destruct (match_kw _ l) as [[k r0]|] eqn:M; [|reflexivity]. cbn [obind].
      apply match_kw_some in M. destruct M as (kw & I & _ & D). cbn [In] in I.
      repeat (destruct I as [I|I]; [subst kw;
        match type of D with drop_prefix (str ?w) _ = _ =>
          rewrite (drop_prefix_snoc (str w) 61 l r0 D (NG (w ++ "=")%string _ ltac:(intable))) end; reflexivity|]).
      contradiction. }
    rewrite MT.
    assert (MR : m_reg l = None).
    { unfold m_reg. destruct (match_kw _ l) as [[k r0]|] eqn:M; [|reflexivity].
      apply match_kw_some in M. destruct M as (kw & I & _ & D). cbn [In] in I.
      repeat (destruct I as [I|I]; [subst kw; match type of D with drop_prefix (str ?w) _ = _ => rewrite (NG w _ ltac:(intable)) in D end; discriminate|]). contradiction. }
    rewrite MR. reflexivity.
  Qed.
End NonGrammar.
