(* C17: MonoImg -> image object -> MonoImg reproduces (inverts) every visible pixel. *)
From RP Require Import Lib.Base Model.Mono Model.MonoConv Spec.Clip Spec.TextBox Spec.Conv
  Proofs.ListZ Proofs.PixelProofs Proofs.TextLaws Proofs.ConvLoops Proofs.ConvSweeps Proofs.ConvExports.
From Coq Require Import ZifyBool.
Ltac Zify.zify_post_hook ::= Z.div_mod_to_equations.

Lemma to_image_bit d wib X Y : 0 <= X ->
  (Z.land (znth 0 d (Y * wib + gdiv X 8)) (Z.shiftl 1 (Z.land (7 - gmod X 8) 255)) >? 0) = px wib d X Y.
Proof.
  intros HX. unfold gdiv, gmod, px. rewrite Z.quot_div_nonneg, Z.rem_mod_nonneg by lia.
  change 255 with (Z.ones 8). rewrite Z.land_ones by lia. rewrite Z.mod_small by (change (2 ^ 8) with 256; lia).
  rewrite Z.shiftl_1_l. apply land_pow2_testbit. lia.
Qed.

Lemma from_image_byte_bit src row col p : 0 <= p < 8 ->
  Z.testbit (from_image_byte src row col) (7 - p) = negb (red16 (rat src (col * 8 + p) row) >? 127).
Proof.
  intros Hp. unfold from_image_byte.
  change (zseq 8) with [0; 1; 2; 3; 4; 5; 6; 7]. cbn [fold_left].
  assert (Hc : p = 0 \/ p = 1 \/ p = 2 \/ p = 3 \/ p = 4 \/ p = 5 \/ p = 6 \/ p = 7) by lia.
  destruct Hc as [-> | [-> | [-> | [-> | [-> | [-> | [-> | ->]]]]]]];
    generalize (red16 (rat src (col * 8 + 0) row) >? 127) (red16 (rat src (col * 8 + 1) row) >? 127)
               (red16 (rat src (col * 8 + 2) row) >? 127) (red16 (rat src (col * 8 + 3) row) >? 127)
               (red16 (rat src (col * 8 + 4) row) >? 127) (red16 (rat src (col * 8 + 5) row) >? 127)
               (red16 (rat src (col * 8 + 6) row) >? 127) (red16 (rat src (col * 8 + 7) row) >? 127);
    intros b0 b1 b2 b3 b4 b5 b6 b7;
    destruct b0, b1, b2, b3, b4, b5, b6, b7; reflexivity.
Qed.

Lemma from_image_px src c r :
  0 <= rw src -> 0 <= rh src -> 0 <= c < 8 * ceil_div8 (rw src) -> 0 <= r < rh src ->
  px (ceil_div8 (rw src)) (idata (from_image src)) c r = negb (red16 (rat src c r) >? 127).
Proof.
  intros HW HH Hc Hr. unfold from_image. cbn [idata]. unfold px.
  set (wib := ceil_div8 (rw src)) in *.
  assert (Hwib : 0 <= wib) by lia.
  rewrite (znth_flat_map_zseq _ (rh src) wib) by (try lia; intros; apply zlen_map_zseq; auto).
  rewrite znth_map_zseq by lia.
  rewrite (from_image_byte_bit src r (c / 8) (c mod 8)) by lia.
  replace (c / 8 * 8 + c mod 8) with c by lia. reflexivity.
Qed.

Lemma from_image_geom src : 0 <= rw src -> 0 <= rh src ->
  gW (ig (from_image src)) = rw src /\ gH (ig (from_image src)) = rh src /\
  gwib (ig (from_image src)) = (rw src + 7) / 8 /\
  zlen (idata (from_image src)) = (rw src + 7) / 8 * rh src.
Proof.
  intros HW HH. unfold from_image. cbn [ig idata gW gH gwib].
  assert (E : ceil_div8 (rw src) = (rw src + 7) / 8) by (unfold ceil_div8; destruct (Z.ltb_spec (rw src) 0); lia).
  rewrite E. repeat split; auto.
  rewrite (zlen_flat_map_zseq _ _ ((rw src + 7) / 8)); try lia.
  intros; apply zlen_map_zseq; lia.
Qed.

(* ConvertToImage(inv) never panics, gives a W x H image, and CreateFromImage of it has the
   same geometry, exactly wib*H bytes, every visible pixel = original xor inv; padding bits = 1 *)
Theorem image_roundtrip inv i : mono_ok i ->
  exists r, to_image_loop inv i = Ok r /\
    let i' := from_image r in
    let wib := gwib (ig i) in
    gW (ig i') = gW (ig i) /\ gH (ig i') = gH (ig i) /\ gwib (ig i') = wib /\ zlen (idata i') = wib * gH (ig i) /\
    (forall x y, 0 <= x < gW (ig i) -> 0 <= y < gH (ig i) ->
       px wib (idata i') x y = xorb inv (px wib (idata i) x y)) /\
    (forall x y, gW (ig i) <= x < 8 * wib -> 0 <= y < gH (ig i) -> px wib (idata i') x y = true).
Proof.
  intros Hok. pose proof Hok as (HW & HH & Hwib & Hlen).
  destruct (to_image_ok inv i Hok) as (r & E & RW & RH & RA).
  exists r. split; auto. cbv zeta.
  destruct (from_image_geom r ltac:(lia) ltac:(lia)) as (G1 & G2 & G3 & G4).
  rewrite RW, RH in *. rewrite <- Hwib in *.
  split; [auto|]. split; [auto|]. split; [auto|]. split; [auto|].
  assert (Ec : ceil_div8 (rw r) = gwib (ig i)) by (rewrite RW; unfold ceil_div8; destruct (Z.ltb_spec (gW (ig i)) 0); lia).
  split.
  - intros x y Hx Hy. rewrite <- Ec at 1. rewrite from_image_px by (rewrite ?Ec, ?RW, ?RH; lia).
    rewrite RA. unfold to_image_at. replace (r_in (gW (ig i)) (gH (ig i)) x y) with true by (unfold r_in; lia).
    rewrite to_image_bit by lia.
    destruct (px (gwib (ig i)) (idata i) x y); destruct inv; reflexivity.
  - intros x y Hx Hy. rewrite <- Ec at 1. rewrite from_image_px by (rewrite ?Ec, ?RW, ?RH; lia).
    rewrite RA. unfold to_image_at. replace (r_in (gW (ig i)) (gH (ig i)) x y) with false by (unfold r_in; lia).
    reflexivity.
Qed.

Theorem image_roundtrip_ok inv i : mono_ok i ->
  exists r, to_image_loop inv i = Ok r /\
    visible_equal (gW (ig i)) (gH (ig i)) (gwib (ig i)) (idata i) (idata (from_image r)) inv = true.
Proof.
  intros Hok. destruct (image_roundtrip inv i Hok) as (r & E & _ & _ & _ & _ & P & _).
  exists r. split; auto. unfold visible_equal. apply all_rect_intro. intros x y Hx Hy.
  rewrite P by lia. apply Bool.eqb_reflx.
Qed.
