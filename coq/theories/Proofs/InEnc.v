(* C01, part 3: composition.  Every representable message list is encoded without panic into
   lines whose reading by the reference grammar reader, from any panel and any tracker state,
   yields exactly the panel the messages themselves describe. *)
From RP Require Import Lib.Base Lib.Sexp Lib.Strings Lib.TrimSpace Model.Gfx Model.Flatten Model.MsgIn Model.EncIn
  Spec.DenoteIn Spec.GrammarIn Proofs.GfxNum Proofs.StringsProofs Proofs.InBits Proofs.InEncLines Proofs.InEncText Proofs.InEncGfx.
From Coq Require Import String ZifyBool.
Open Scope string_scope.
Open Scope list_scope.
Open Scope Z_scope.

Definition no_gfx_state (o : option HWCState) : bool :=
  match o with Some s => is_none (s_gfx s) | None => true end.
Definition no_gfx_msg (m : InboundMessage) : bool := forallb no_gfx_state (im_states m).

Lemma one_line_nolf l : nolf l = true -> Flatten.one_line l = l.
Proof.
  unfold nolf, Flatten.one_line. induction l as [|c r IH]; intros H; [reflexivity|].
  cbn [forallb] in H. apply andb_true_iff in H. destruct H as [Hc Hr]. cbn [map].
  destruct (c =? 10); [discriminate|]. rewrite (IH Hr). reflexivity.
Qed.
Lemma one_lines_nolf ls : Forall (fun l => nolf l = true) ls -> one_lines ls = ls.
Proof.
  unfold one_lines. induction 1 as [|l r Hl Hr IH]; [reflexivity|]. cbn [map]. rewrite (one_line_nolf l Hl), IH. reflexivity.
Qed.

Section EncSound.
  Variable js : list Z -> HWCState.
  Variable jm : list Z -> list (option InboundMessage).
  Variable ncp : list Z -> option (list Z).
  Variable json_enc : HWCState -> list Z.
  Variable nc_print : list Z -> list Z.
  Variable olt : list Z -> bool.
  Variable nok : list Z -> bool.
  Hypothesis olt_ok : forall j, olt j = true -> strip_line_breaks j = j /\ single_line j = true.
  Hypothesis nok_ok : forall n, nok n = true -> ncp (nc_print n) = Some n /\ single_line (nc_print n) = true.

  Notation in_rd := (in_read js jm ncp).
  Notation seg := (seg js jm ncp).
  Notation sem := (sem_in_lines js jm ncp).
  Ltac lookup := first [reflexivity | vm_compute; reflexivity].

  Lemma text_seg i t : is_u32 i = true -> rep_text t = true ->
    seg (if text_is_empty t then [] else [text_line i t])
        (map (EState [i]) (if text_is_empty t then [] else [UText (norm_text t)])).
  Proof.
    intros Hi R. destruct (text_is_empty t); [apply seg_nil|]. apply seg_one.
    destruct (val_text_slots t R) as [V N]. unfold text_line.
    apply (state_line js jm ncp "HWCt#" val_text); [lookup|lookup|exact Hi|exact N|exact V].
  Qed.

  Lemma gfx_seg i g : is_u32 i = true -> rep_gfx g = true ->
    seg (if gfx_is_empty g then [] else gfx_lines (to_gfx g) i)
        (map (EState [i]) (if gfx_is_empty g then [] else [UGfx (den_image g)])).
  Proof.
    intros Hi R. destruct (gfx_is_empty g); [apply seg_nil|]. split.
    - apply gfx_lines_wf; assumption.
    - intros p x. exists None. rewrite (gfx_run js jm ncp g i R Hi p x). reflexivity.
  Qed.

  Lemma state_id_seg s i : rep_state s = true -> is_u32 i = true ->
    seg (state_id_lines json_enc s i) (map (EState [i]) (state_upds s)).
  Proof.
    intros R Hi. unfold rep_state in R. do 6 (apply andb_true_iff in R; destruct R as [R ?]).
    unfold state_id_lines, state_upds.
    destruct (s_proc s); [discriminate|]. rewrite !app_nil_r. rewrite !map_app.
    apply seg_app.
    { destruct (s_mode s) as [m|]; [|apply seg_nil]. apply seg_one, mode_line; assumption. }
    apply seg_app.
    { destruct (s_color s) as [c|]; [|apply seg_nil]. apply colour_seg; assumption. }
    apply seg_app.
    { destruct (s_ext s) as [x|]; [|apply seg_nil]. apply seg_one, ext_line; assumption. }
    apply seg_app.
    { destruct (s_text s) as [t|]; [|apply seg_nil]. apply text_seg; assumption. }
    apply seg_app.
    { destruct (s_gfx s) as [g|]; [|apply seg_nil]. apply gfx_seg; assumption. }
    destruct (s_adc s) as [b|]; [|apply seg_nil]. apply seg_one, adc_line; assumption.
  Qed.

  Lemma state_seg s : rep_state s = true -> seg (state_lines json_enc s) (den_state s).
  Proof.
    intros R. unfold state_lines, den_state.
    assert (Hids : forallb is_u32 (s_ids s) = true).
    { unfold rep_state in R. do 6 (apply andb_true_iff in R; destruct R as [R ?]). exact R. }
    induction (s_ids s) as [|i r IH]; [apply seg_nil|]. cbn [forallb] in Hids.
    apply andb_true_iff in Hids. destruct Hids as [Hi Hr]. cbn [flat_map].
    apply seg_app; [apply state_id_seg; assumption|apply IH; exact Hr].
  Qed.

  Lemma states_seg l : forallb (rep_some rep_state) l = true ->
    exists ls, states_lines json_enc l = Ok ls /\ seg ls (flat_map (opt_effs den_state) l).
  Proof.
    induction l as [|o r IH]; intros R; cbn [states_lines flat_map].
    - exists []. split; [reflexivity|apply seg_nil].
    - cbn [forallb] in R. apply andb_true_iff in R. destruct R as [Ro Rr].
      destruct o as [s|]; [|discriminate]. destruct (IH Rr) as (ls & -> & S). cbn [bind].
      eexists. split; [reflexivity|]. cbn [opt_effs]. apply seg_app; [|exact S].
      apply state_seg. exact Ro.
  Qed.

  Lemma regs_seg l : forallb (rep_some rep_reg) l = true ->
    exists ls, regs_lines l = Ok ls /\ seg ls (flat_map (opt_effs den_reg) l).
  Proof.
    induction l as [|o r IH]; intros R; cbn [regs_lines flat_map].
    - exists []. split; [reflexivity|apply seg_nil].
    - cbn [forallb] in R. apply andb_true_iff in R. destruct R as [Ro Rr].
      destruct o as [g|]; [|discriminate]. destruct (IH Rr) as (ls & -> & S). cbn [bind].
      eexists. split; [reflexivity|]. cbn [opt_effs]. apply seg_app; [|exact S].
      apply reg_seg. exact Ro.
  Qed.

  Lemma msg_seg m : rep_msg olt nok m = true ->
    exists ls, enc_in_msg json_enc nc_print m = Ok ls /\ seg ls (den_in m).
  Proof.
    intros R. unfold rep_msg in R. do 2 (apply andb_true_iff in R; destruct R as [R ?]).
    unfold enc_in_msg, den_in.
    destruct (states_seg _ H0) as (sl & -> & SS). destruct (regs_seg _ H) as (rl & -> & RS). cbn [bind].
    eexists. split; [reflexivity|]. rewrite <- app_assoc.
    apply seg_app; [apply flow_seg|]. apply seg_app; [|apply seg_app; assumption].
    destruct (im_cmd m) as [c|]; [|apply seg_nil]. cbn [opt_effs].
    apply (cmd_seg js jm ncp nc_print olt nok olt_ok nok_ok). exact R.
  Qed.

  Lemma msgs_seg ms : forallb (rep_msg olt nok) ms = true ->
    exists ls, enc_in_raw json_enc nc_print ms = Ok ls /\ seg ls (den_msgs ms).
  Proof.
    induction ms as [|m r IH]; intros R; cbn [enc_in_raw].
    - exists []. split; [reflexivity|apply seg_nil].
    - cbn [forallb] in R. apply andb_true_iff in R. destruct R as [Rm Rr].
      destruct (msg_seg m Rm) as (a & -> & Sa). destruct (IH Rr) as (b & -> & Sb). cbn [bind].
      eexists. split; [reflexivity|]. unfold den_msgs. cbn [flat_map]. apply seg_app; assumption.
  Qed.

  (* C01: the whole ASCII-representable domain, graphics included *)
  Theorem enc_in_sound : forall ms p x,
    forallb (rep_msg olt nok) ms = true ->
    exists ls, enc_in json_enc nc_print ms = Ok ls /\
               Forall (fun l => wf_in_line js jm ncp l = true) ls /\
               fst (sem (p, x) ls) = run_msgs p ms.
  Proof.
    intros ms p x R. destruct (msgs_seg ms R) as (ls & E & [W S]).
    assert (N : Forall (fun l => nolf l = true) ls).
    { revert W. apply Forall_impl. intros l. apply wf_line_nolf. }
    unfold enc_in. rewrite E. cbn [bind]. rewrite (one_lines_nolf ls N).
    exists ls. split; [reflexivity|]. split; [exact W|destruct (S p x) as [x' ->]; reflexivity].
  Qed.
End EncSound.
