(* Generic JSON round trip over struct schemas (C14): for every well-formed schema and every
   value of it, dec (enc v) = canon v, enc (canon v) = enc v, and canon v is the same
   topology as v (Spec/TopoJson.veq). *)
From RP Require Import Lib.Base Lib.Sexp Lib.Strings Lib.JsonTree Spec.TopoJson Proofs.ListZ.
Open Scope Z_scope.

(* ---------------------------------------------------------------- decimal keys *)
Lemma digits_aux_value fuel : forall n acc,
  0 <= n < 2 ^ Z.of_nat fuel -> key_value (digits_aux fuel n acc) 0 = key_value acc n.
Proof.
  induction fuel as [|f IH]; intros n acc H.
  - change (2 ^ Z.of_nat 0) with 1 in H. assert (n = 0) by lia. subst. reflexivity.
  - cbn [digits_aux]. destruct (n <? 10) eqn:E.
    + cbn [key_value]. f_equal. lia.
    + apply Z.ltb_ge in E. rewrite IH.
      * cbn [key_value]. f_equal. pose proof (Z.div_mod n 10). lia.
      * rewrite Nat2Z.inj_succ, Z.pow_succ_r in H by lia. split; [apply Z.div_pos; lia|].
        apply Z.div_lt_upper_bound; lia.
Qed.

Lemma digits_aux_all_digits fuel : forall n acc,
  0 <= n -> key_all_digits (digits_aux fuel n acc) = key_all_digits acc.
Proof.
  induction fuel as [|f IH]; intros n acc H; [reflexivity|].
  cbn [digits_aux]. destruct (n <? 10) eqn:E.
  - apply Z.ltb_lt in E. cbn [key_all_digits].
    replace ((48 <=? 48 + n) && (48 + n <=? 57)) with true; [reflexivity|].
    symmetry. apply andb_true_iff. split; apply Z.leb_le; lia.
  - rewrite IH by (apply Z.div_pos; lia). cbn [key_all_digits].
    pose proof (Z.mod_pos_bound n 10 ltac:(lia)).
    replace ((48 <=? 48 + n mod 10) && (48 + n mod 10 <=? 57)) with true; [reflexivity|].
    symmetry. apply andb_true_iff. split; apply Z.leb_le; lia.
Qed.

Lemma log2_fuel n : 0 <= n -> n < 2 ^ Z.of_nat (Datatypes.S (Z.to_nat (Z.log2 n + 1))).
Proof.
  intros H. rewrite Nat2Z.inj_succ, Z2Nat.id by (pose proof (Z.log2_nonneg n); lia).
  destruct (Z.eq_dec n 0) as [->|Hn]; [cbn; lia|].
  pose proof (Z.log2_spec n ltac:(lia)) as [_ L].
  rewrite Z.pow_succ_r by (pose proof (Z.log2_nonneg n); lia).
  replace (Z.succ (Z.log2 n)) with (Z.log2 n + 1) in L by lia. lia.
Qed.

Lemma digits_aux_nonempty fuel : forall n acc, digits_aux (Datatypes.S fuel) n acc <> [].
Proof.
  induction fuel as [|f IH]; intros n acc; cbn [digits_aux]; destruct (n <? 10); try discriminate.
  apply IH.
Qed.

(* the decimal string of a non-negative key parses back to the key *)
Lemma parse_key_itoa k : 0 <= k -> parse_key (itoa k) = Some k.
Proof.
  intros H. unfold itoa. destruct (k <? 0) eqn:E; [apply Z.ltb_lt in E; lia|].
  unfold digits_of_nonneg. set (fuel := Z.to_nat (Z.log2 k + 1)).
  pose proof (digits_aux_value (Datatypes.S fuel) k [] (conj H (log2_fuel k H))) as V.
  pose proof (digits_aux_all_digits (Datatypes.S fuel) k [] H) as A.
  pose proof (digits_aux_nonempty fuel k []) as N.
  destruct (digits_aux (Datatypes.S fuel) k []) as [|c r] eqn:D; [congruence|].
  unfold parse_key. rewrite A, V. reflexivity.
Qed.

(* ---------------------------------------------------------------- induction over schemas *)
Section TyInd.
  Variable P : ty -> Prop.
  Hypothesis Hint : forall lo hi, P (TInt lo hi).
  Hypothesis Hbool : P TBool.
  Hypothesis Hstr : P TStr.
  Hypothesis Hfloat : forall sz, P (TFloat sz).
  Hypothesis Hopq : forall n, P (TOpaque n).
  Hypothesis Huns : forall n, P (TUnsupported n).
  Hypothesis Hptr : forall t, P t -> P (TPtr t).
  Hypothesis Hslice : forall t, P t -> P (TSlice t).
  Hypothesis Hmap : forall lo hi t, P t -> P (TMap lo hi t).
  Hypothesis Hstruct : forall n fs, Forall (fun p => P (snd p)) fs -> P (TStruct n fs).

  Fixpoint ty_ind' (t : ty) : P t :=
    match t with
    | TInt lo hi => Hint lo hi
    | TBool => Hbool
    | TStr => Hstr
    | TFloat sz => Hfloat sz
    | TOpaque n => Hopq n
    | TUnsupported n => Huns n
    | TPtr t' => Hptr t' (ty_ind' t')
    | TSlice t' => Hslice t' (ty_ind' t')
    | TMap lo hi t' => Hmap lo hi t' (ty_ind' t')
    | TStruct n fs =>
      Hstruct n fs
        ((fix go (fs : list (finfo * ty)) : Forall (fun p => P (snd p)) fs :=
            match fs with
            | [] => Forall_nil _
            | p :: r => Forall_cons p (ty_ind' (snd p)) (go r)
            end) fs)
    end.
End TyInd.

(* ---------------------------------------------------------------- unfolding the nested fixpoints *)
Lemma enc_struct n fs l : enc (TStruct n fs) (VStruct l) = JObj (enc_fields fs l).
Proof. reflexivity. Qed.

Lemma dec_struct n fs ms :
  dec (TStruct n fs) (JObj ms) = match dec_fields ms fs with Some xs => Some (VStruct xs) | None => None end.
Proof.
  cbn [dec].
  match goal with |- match ?f fs with _ => _ end = _ => assert (E : forall fs0, f fs0 = dec_fields ms fs0) end.
  { induction fs0 as [|[i ft] r IH]; [reflexivity|]. cbn [dec_fields]. rewrite <- IH. reflexivity. }
  rewrite E. reflexivity.
Qed.

Lemma canon_struct n fs l : canon (TStruct n fs) (VStruct l) = VStruct (canon_fields fs l).
Proof. reflexivity. Qed.

Lemma has_type_struct n fs l : has_type (TStruct n fs) (VStruct l) = has_type_fields fs l.
Proof. reflexivity. Qed.

Lemma wf_struct n fs : wf_ty (TStruct n fs) = nodup_names (visible_folded fs) && wf_fields fs.
Proof. reflexivity. Qed.

Lemma veq_struct n fs la lb : veq (TStruct n fs) (VStruct la) (VStruct lb) = veq_fields fs la lb.
Proof. reflexivity. Qed.

(* ---------------------------------------------------------------- small facts *)
Lemma bytes_eqb_eq' a b : bytes_eqb a b = true <-> a = b.
Proof.
  unfold bytes_eqb. revert b. induction a as [|x a IH]; destruct b as [|y b]; cbn; try (split; congruence).
  rewrite andb_true_iff, Z.eqb_eq, IH. split; [intros [-> ->]; reflexivity | intros H; inversion H; auto].
Qed.

Lemma bytes_eqb_sym a b : bytes_eqb a b = bytes_eqb b a.
Proof.
  destruct (bytes_eqb a b) eqn:E1, (bytes_eqb b a) eqn:E2; try reflexivity.
  - apply bytes_eqb_eq' in E1. subst. rewrite (proj2 (bytes_eqb_eq' b b) eq_refl) in E2. discriminate.
  - apply bytes_eqb_eq' in E2. subst. rewrite (proj2 (bytes_eqb_eq' a a) eq_refl) in E1. discriminate.
Qed.

Lemma bytes_eqb_refl' a : bytes_eqb a a = true.
Proof. apply bytes_eqb_eq'. reflexivity. Qed.

Lemma omapM_map {A B C} (f : B -> option C) (g : A -> B) (h : A -> C) l :
  (forall x, In x l -> f (g x) = Some (h x)) -> omapM f (map g l) = Some (map h l).
Proof.
  induction l as [|x r IH]; cbn; [reflexivity|]. intros H. rewrite (H x) by auto. rewrite IH by auto. reflexivity.
Qed.

(* ---------------------------------------------------------------- sorting of map entries *)
Lemma in_insert_entry {A} (e x : Z * A) l : In x (insert_entry e l) <-> x = e \/ In x l.
Proof.
  induction l as [|h r IH]; cbn; [intuition|].
  destruct (key_leb (fst e) (fst h)); cbn; [intuition|]. rewrite IH. intuition.
Qed.

Lemma in_sort_entries {A} (x : Z * A) l : In x (sort_entries l) <-> In x l.
Proof.
  induction l as [|h r IH]; cbn; [tauto|]. rewrite in_insert_entry, IH. intuition.
Qed.

Lemma insert_map_snd {A B} (g : A -> B) e (l : list (Z * A)) :
  insert_entry (fst e, g (snd e)) (map (fun kv => (fst kv, g (snd kv))) l)
  = map (fun kv => (fst kv, g (snd kv))) (insert_entry e l).
Proof.
  induction l as [|h r IH]; cbn; [reflexivity|].
  destruct (key_leb (fst e) (fst h)); cbn; [reflexivity|]. rewrite IH. reflexivity.
Qed.

Lemma sort_map_snd {A B} (g : A -> B) (l : list (Z * A)) :
  sort_entries (map (fun kv => (fst kv, g (snd kv))) l) = map (fun kv => (fst kv, g (snd kv))) (sort_entries l).
Proof.
  induction l as [|h r IH]; cbn; [reflexivity|]. rewrite IH. apply (insert_map_snd g h).
Qed.

(* locally sorted *)
Fixpoint lsorted {A} (l : list (Z * A)) : Prop :=
  match l with
  | [] => True
  | a :: r => match r with [] => True | b :: _ => key_leb (fst a) (fst b) = true end /\ lsorted r
  end.

Lemma bytes_leb_total a b : bytes_leb a b = true \/ bytes_leb b a = true.
Proof.
  revert b. induction a as [|x a IH]; destruct b as [|y b]; cbn; auto.
  destruct (x <? y) eqn:E1; [auto|]. destruct (y <? x) eqn:E2; [auto|]. apply IH.
Qed.

Lemma insert_sorted {A} (e : Z * A) l : lsorted l -> lsorted (insert_entry e l).
Proof.
  induction l as [|h r IH]; cbn [insert_entry]; intros H; [cbn; auto|].
  destruct (key_leb (fst e) (fst h)) eqn:E.
  - cbn [lsorted]. split; [exact E | exact H].
  - destruct H as [H1 H2]. specialize (IH H2). cbn [lsorted]. split; [|exact IH].
    destruct r as [|b r']; cbn [insert_entry].
    + destruct (bytes_leb_total (itoa (fst e)) (itoa (fst h))) as [T|T]; [unfold key_leb in E; congruence | exact T].
    + destruct (key_leb (fst e) (fst b)); [|exact H1].
      destruct (bytes_leb_total (itoa (fst e)) (itoa (fst h))) as [T|T]; [unfold key_leb in E; congruence | exact T].
Qed.

Lemma sort_sorted {A} (l : list (Z * A)) : lsorted (sort_entries l).
Proof. induction l as [|h r IH]; cbn [sort_entries]; [cbn; auto | apply insert_sorted; exact IH]. Qed.

Lemma sort_fixed {A} (l : list (Z * A)) : lsorted l -> sort_entries l = l.
Proof.
  induction l as [|a r IH]; [reflexivity|]. intros [H1 H2]. cbn [sort_entries]. rewrite (IH H2).
  destruct r as [|b r']; [reflexivity|]. cbn [insert_entry]. rewrite H1. reflexivity.
Qed.

Lemma sort_idem {A} (l : list (Z * A)) : sort_entries (sort_entries l) = sort_entries l.
Proof. apply sort_fixed, sort_sorted. Qed.

Lemma sort_nonempty {A} (l : list (Z * A)) : sort_entries l = [] -> l = [].
Proof.
  destruct l as [|h r]; [reflexivity|]. cbn. intros H.
  assert (In h (insert_entry h (sort_entries r))) by (apply in_insert_entry; auto).
  rewrite H in H0. destruct H0.
Qed.

(* ---------------------------------------------------------------- struct fields *)
Definition emitted (i : finfo) (ft : ty) (x : val) : bool := negb (omit i && is_empty ft x).

Fixpoint lk_ok (ms : list (list Z * json)) (fs : list (finfo * ty)) (l : list val) : Prop :=
  match fs, l with
  | (i, ft) :: fs', x :: l' =>
    (visible i = true -> lookup_fold (jname i) ms = if emitted i ft x then Some (enc ft x) else None)
    /\ lk_ok ms fs' l'
  | _, _ => True
  end.

Lemma visible_folded_cons i ft fs :
  visible_folded ((i, ft) :: fs) = if visible i then fold_name (jname i) :: visible_folded fs else visible_folded fs.
Proof. unfold visible_folded. cbn. destruct (visible i); reflexivity. Qed.

Lemma lookup_absent fs : forall l k,
  existsb (bytes_eqb (fold_name k)) (visible_folded fs) = false -> lookup_fold k (enc_fields fs l) = None.
Proof.
  induction fs as [|[i ft] fs IH]; intros l k H; [reflexivity|].
  destruct l as [|x l]; [reflexivity|]. cbn [enc_fields]. rewrite visible_folded_cons in H.
  destruct (visible i).
  - cbn [existsb] in H. apply orb_false_iff in H. destruct H as [H1 H2].
    destruct (omit i && is_empty ft x); [apply IH; exact H2|].
    cbn [lookup_fold]. rewrite bytes_eqb_sym, H1. apply IH; exact H2.
  - apply IH; exact H.
Qed.

Lemma lk_weaken k j ms fs : forall l,
  existsb (bytes_eqb (fold_name k)) (visible_folded fs) = false -> lk_ok ms fs l -> lk_ok ((k, j) :: ms) fs l.
Proof.
  induction fs as [|[i ft] fs IH]; intros l H L; [exact Logic.I|].
  destruct l as [|x l]; [exact Logic.I|]. cbn [lk_ok] in *. destruct L as [L1 L2].
  rewrite visible_folded_cons in H. destruct (visible i) eqn:V.
  - cbn [existsb] in H. apply orb_false_iff in H. destruct H as [H1 H2]. split; [|apply IH; assumption].
    intros _. cbn [lookup_fold]. rewrite H1. apply L1. reflexivity.
  - split; [intros X; discriminate | apply IH; assumption].
Qed.

Lemma nodup_names_cons x r : nodup_names (x :: r) = negb (existsb (bytes_eqb x) r) && nodup_names r.
Proof. reflexivity. Qed.

Lemma lk_enc fs : forall l, nodup_names (visible_folded fs) = true -> lk_ok (enc_fields fs l) fs l.
Proof.
  induction fs as [|[i ft] fs IH]; intros l ND; [exact Logic.I|].
  destruct l as [|x l]; [exact Logic.I|]. cbn [lk_ok enc_fields]. rewrite visible_folded_cons in ND.
  destruct (visible i) eqn:V.
  - rewrite nodup_names_cons in ND. apply andb_true_iff in ND. destruct ND as [N1 N2].
    apply negb_true_iff in N1. unfold emitted. destruct (omit i && is_empty ft x) eqn:O; cbn [negb].
    + split; [intros _; apply lookup_absent; exact N1 | apply IH; exact N2].
    + split.
      * intros _. cbn [lookup_fold]. rewrite bytes_eqb_refl'. reflexivity.
      * apply lk_weaken; [exact N1 | apply IH; exact N2].
  - split; [intros X; discriminate | apply IH; exact ND].
Qed.

Lemma dec_fields_gen ms fs : forall l,
  Forall (fun p => wf_ty (snd p) = true -> forall v, has_type (snd p) v = true ->
                   dec (snd p) (enc (snd p) v) = Some (canon (snd p) v)) fs ->
  wf_fields fs = true -> has_type_fields fs l = true -> lk_ok ms fs l ->
  dec_fields ms fs = Some (canon_fields fs l).
Proof.
  induction fs as [|[i ft] fs IH]; intros l F W T L.
  - destruct l; [reflexivity | discriminate].
  - destruct l as [|x l]; [discriminate|]. cbn [dec_fields canon_fields].
    inversion F as [|? ? F1 F2]; subst. cbn [snd] in F1.
    cbn [wf_fields] in W. apply andb_true_iff in W. destruct W as [W1 W2].
    cbn [has_type_fields] in T. apply andb_true_iff in T. destruct T as [T1 T2].
    cbn [lk_ok] in L. destruct L as [L1 L2].
    rewrite (IH l F2 W2 T2 L2).
    destruct (visible i) eqn:V.
    + rewrite (L1 eq_refl). unfold emitted. destruct (omit i && is_empty ft x); cbn [negb]; [reflexivity|].
      apply andb_true_iff in W1. destruct W1 as [_ W1]. rewrite (F1 W1 x T1). reflexivity.
    + reflexivity.
Qed.

(* ---------------------------------------------------------------- round trip *)
Lemma struct_not_null t v : is_struct t = true -> has_type t v = true -> enc t v <> JNull.
Proof.
  destruct t; try discriminate. intros _. destruct v; intros T; try discriminate T.
  rewrite enc_struct. discriminate.
Qed.

Theorem json_roundtrip_gen : forall t,
  wf_ty t = true -> forall v, has_type t v = true -> dec t (enc t v) = Some (canon t v).
Proof.
  induction t using ty_ind'; intros W v T.
  - destruct v; try discriminate. cbn in *. rewrite T. reflexivity.
  - destruct v; try discriminate. reflexivity.
  - destruct v; try discriminate. reflexivity.
  - destruct v; try discriminate. reflexivity.
  - destruct v; try discriminate. reflexivity.
  - discriminate.
  - cbn [wf_ty] in W. apply andb_true_iff in W. destruct W as [W1 W2].
    destruct v; try discriminate; [reflexivity|]. cbn [has_type] in T. cbn [enc canon].
    pose proof (struct_not_null t v W1 T) as NN. cbn [dec].
    rewrite (IHt W2 v T). destruct (enc t v); try reflexivity. congruence.
  - cbn [wf_ty] in W. apply andb_true_iff in W. destruct W as [_ W2].
    destruct v; try discriminate; [reflexivity|]. cbn [has_type] in T. cbn [enc canon dec].
    rewrite forallb_forall in T.
    rewrite (omapM_map (dec t) (enc t) (canon t)); [reflexivity|]. intros x Hx. apply IHt; auto.
  - cbn [wf_ty] in W. apply andb_true_iff in W. destruct W as [W1 W2].
    apply andb_true_iff in W1. destruct W1 as [Wlo _]. apply Z.leb_le in Wlo.
    destruct v; try discriminate; [reflexivity|]. cbn [has_type] in T. cbn [enc canon dec].
    rewrite forallb_forall in T.
    rewrite (omapM_map _ (fun kv : Z * val => (itoa (fst kv), enc t (snd kv)))
                       (fun kv => (fst kv, canon t (snd kv)))); [reflexivity|].
    intros [k x] Hx. apply (proj1 (in_sort_entries _ _)) in Hx. specialize (T _ Hx). cbn [fst snd] in *.
    apply andb_true_iff in T. destruct T as [T1 T2]. apply andb_true_iff in T1. destruct T1 as [Ta Tb].
    apply Z.leb_le in Ta, Tb.
    rewrite (parse_key_itoa k) by lia.
    rewrite (proj2 (Z.leb_le lo k) Ta), (proj2 (Z.leb_le k hi) Tb). cbn [andb].
    rewrite (IHt W2 x T2). reflexivity.
  - rewrite wf_struct in W. apply andb_true_iff in W. destruct W as [W1 W2].
    destruct v; try discriminate. rewrite has_type_struct in T.
    rewrite enc_struct, dec_struct, canon_struct.
    rewrite (dec_fields_gen (enc_fields fs l) fs l); auto.
    apply lk_enc. exact W1.
Qed.

(* ---------------------------------------------------------------- fixpoint after one round *)
Lemma empty_zero ft x : has_type ft x = true -> is_empty ft x = true -> is_empty ft (zero ft) = true.
Proof.
  destruct ft; destruct x; cbn; intros T E; try discriminate; try reflexivity.
Qed.

Lemma empty_canon ft x : has_type ft x = true -> is_empty ft (canon ft x) = is_empty ft x.
Proof.
  destruct ft; destruct x; intros T; try discriminate T; try reflexivity.
  - cbn. destruct l; reflexivity.
  - cbn. destruct (sort_entries l) eqn:E; [apply sort_nonempty in E; subst; reflexivity|].
    destruct l; [discriminate E | reflexivity].
Qed.

Lemma enc_fields_canon fs : forall l,
  Forall (fun p => wf_ty (snd p) = true -> forall v, has_type (snd p) v = true ->
                   enc (snd p) (canon (snd p) v) = enc (snd p) v) fs ->
  wf_fields fs = true -> has_type_fields fs l = true ->
  enc_fields fs (canon_fields fs l) = enc_fields fs l.
Proof.
  induction fs as [|[i ft] fs IH]; intros l F W T; [reflexivity|].
  destruct l as [|x l]; [reflexivity|]. cbn [canon_fields enc_fields].
  inversion F as [|? ? F1 F2]; subst. cbn [snd] in F1.
  cbn [wf_fields] in W. apply andb_true_iff in W. destruct W as [W1 W2].
  cbn [has_type_fields] in T. apply andb_true_iff in T. destruct T as [T1 T2].
  rewrite (IH l F2 W2 T2). destruct (visible i); [|reflexivity].
  apply andb_true_iff in W1. destruct W1 as [_ W1].
  destruct (omit i) eqn:O; cbn [andb].
  - destruct (is_empty ft x) eqn:E.
    + rewrite (empty_zero ft x T1 E). reflexivity.
    + rewrite (empty_canon ft x T1), E, (F1 W1 x T1). reflexivity.
  - rewrite (F1 W1 x T1). reflexivity.
Qed.

Theorem json_fixpoint_gen : forall t,
  wf_ty t = true -> forall v, has_type t v = true -> enc t (canon t v) = enc t v.
Proof.
  induction t using ty_ind'; intros W v T.
  - reflexivity.
  - reflexivity.
  - reflexivity.
  - reflexivity.
  - reflexivity.
  - reflexivity.
  - cbn [wf_ty] in W. apply andb_true_iff in W. destruct W as [W1 W2].
    destruct v; try discriminate; [reflexivity|]. cbn [has_type] in T. cbn [enc canon]. apply IHt; auto.
  - cbn [wf_ty] in W. apply andb_true_iff in W. destruct W as [_ W2].
    destruct v; try discriminate; [reflexivity|]. cbn [has_type] in T. cbn [enc canon].
    rewrite forallb_forall in T. f_equal. rewrite map_map. apply map_ext_in. intros x Hx. apply IHt; auto.
  - cbn [wf_ty] in W. apply andb_true_iff in W. destruct W as [_ W2].
    destruct v; try discriminate; [reflexivity|]. cbn [has_type] in T. cbn [enc canon].
    rewrite forallb_forall in T. f_equal.
    rewrite (sort_map_snd (canon t)), sort_idem, map_map. apply map_ext_in. intros [k x] Hx. cbn [fst snd].
    apply (proj1 (in_sort_entries _ _)) in Hx. specialize (T _ Hx). cbn [fst snd] in T.
    apply andb_true_iff in T. destruct T as [_ T2]. rewrite (IHt W2 x T2). reflexivity.
  - rewrite wf_struct in W. apply andb_true_iff in W. destruct W as [W1 W2].
    destruct v; try discriminate. rewrite has_type_struct in T.
    rewrite canon_struct, !enc_struct. f_equal. apply enc_fields_canon; auto.
Qed.

(* ---------------------------------------------------------------- canon v is the same topology as v *)
Lemma all2_map_r {A} (f : A -> A -> bool) (g : A -> A) l :
  (forall x, In x l -> f x (g x) = true) -> all2 f l (map g l) = true.
Proof.
  induction l as [|x r IH]; cbn; [reflexivity|]. intros H. rewrite H by auto. apply IH. auto.
Qed.

Lemma veq_empty_zero ft x : has_type ft x = true -> is_empty ft x = true -> veq ft x (zero ft) = true.
Proof.
  destruct ft; destruct x; cbn; intros T E; try discriminate; try reflexivity.
  - rewrite E. reflexivity.
  - destruct b; [discriminate | reflexivity].
  - destruct s; [reflexivity | discriminate].
  - rewrite E. cbn [andb]. apply orb_true_r.
  - destruct l; [reflexivity | discriminate].
  - destruct l; [reflexivity | discriminate].
Qed.

Lemma veq_fields_canon fs : forall l,
  Forall (fun p => wf_ty (snd p) = true -> forall v, has_type (snd p) v = true ->
                   veq (snd p) v (canon (snd p) v) = true) fs ->
  wf_fields fs = true -> has_type_fields fs l = true ->
  veq_fields fs l (canon_fields fs l) = true.
Proof.
  induction fs as [|[i ft] fs IH]; intros l F W T.
  - destruct l; [reflexivity | discriminate].
  - destruct l as [|x l]; [discriminate|]. cbn [canon_fields veq_fields].
    inversion F as [|? ? F1 F2]; subst. cbn [snd] in F1.
    cbn [wf_fields] in W. apply andb_true_iff in W. destruct W as [W1 W2].
    cbn [has_type_fields] in T. apply andb_true_iff in T. destruct T as [T1 T2].
    rewrite (IH l F2 W2 T2), andb_true_r.
    destruct (visible i).
    + apply andb_true_iff in W1. destruct W1 as [_ W1].
      destruct (omit i && is_empty ft x) eqn:O.
      * apply andb_true_iff in O. destruct O as [_ O]. apply veq_empty_zero; assumption.
      * apply F1; assumption.
    + destruct ft; try discriminate. reflexivity.
Qed.

Theorem canon_same_gen : forall t,
  wf_ty t = true -> forall v, has_type t v = true -> veq t v (canon t v) = true.
Proof.
  induction t using ty_ind'; intros W v T.
  - destruct v; try discriminate. cbn. apply Z.eqb_refl.
  - destruct v; try discriminate. cbn. destruct b; reflexivity.
  - destruct v; try discriminate. cbn. apply bytes_eqb_refl'.
  - destruct v; try discriminate. cbn. rewrite Z.eqb_refl. reflexivity.
  - reflexivity.
  - reflexivity.
  - cbn [wf_ty] in W. apply andb_true_iff in W. destruct W as [W1 W2].
    destruct v; try discriminate; [reflexivity|]. cbn [has_type] in T. cbn [veq canon]. apply IHt; auto.
  - cbn [wf_ty] in W. apply andb_true_iff in W. destruct W as [_ W2].
    destruct v; try discriminate; [reflexivity|]. cbn [has_type] in T. cbn [veq canon as_list].
    rewrite forallb_forall in T. apply all2_map_r. intros x Hx. apply IHt; auto.
  - cbn [wf_ty] in W. apply andb_true_iff in W. destruct W as [_ W2].
    destruct v; try discriminate; [reflexivity|]. cbn [has_type] in T. cbn [veq canon as_entries].
    rewrite forallb_forall in T.
    rewrite (sort_map_snd (canon t)), sort_idem.
    apply (all2_map_r (fun e f : Z * val => (fst e =? fst f) && veq t (snd e) (snd f))
                      (fun kv => (fst kv, canon t (snd kv)))).
    intros [k x] Hx. cbn [fst snd]. rewrite Z.eqb_refl. cbn [andb].
    apply (proj1 (in_sort_entries _ _)) in Hx. specialize (T _ Hx). cbn [fst snd] in T.
    apply andb_true_iff in T. destruct T as [_ T2]. apply IHt; auto.
  - rewrite wf_struct in W. apply andb_true_iff in W. destruct W as [W1 W2].
    destruct v; try discriminate. rewrite has_type_struct in T.
    rewrite canon_struct, veq_struct. apply veq_fields_canon; auto.
Qed.
