(* C18: totality and size of the tile model; shared helpers (all_cells as a forall,
   the fresh canvas, geometry invariance of plain op lists). *)
From RP Require Import Lib.Base Lib.Utf8 Gen.Tables Model.Mono Model.Tile Spec.Clip Spec.Tile
  Proofs.ListZ Proofs.PixelProofs Proofs.DrawProofs Proofs.OpsProofs.
From Coq Require Import ZifyBool.
Ltac Zify.zify_post_hook ::= Z.div_mod_to_equations.

(* ---- all_cells is a bounded forall ---- *)
Lemma forallb_seq0 n (P : nat -> bool) :
  forallb P (seq 0 n) = true <-> forall k, (k < n)%nat -> P k = true.
Proof.
  rewrite forallb_forall. split.
  - intros H k Hk. apply H. apply in_seq. lia.
  - intros H k Hk. apply in_seq in Hk. apply H. lia.
Qed.

Lemma all_cells_spec wib h f :
  all_cells wib h f = true <-> forall c r, 0 <= c < 8 * wib -> 0 <= r < h -> f c r = true.
Proof.
  unfold all_cells. rewrite forallb_seq0. split.
  - intros H c r Hc Hr.
    specialize (H (Z.to_nat r)). rewrite forallb_seq0 in H.
    specialize (H ltac:(lia) (Z.to_nat c) ltac:(lia)).
    rewrite !Z2Nat.id in H by lia. exact H.
  - intros H r Hr. rewrite forallb_seq0. intros c Hc. apply H; lia.
Qed.

(* ---- the fresh canvas ---- *)
Lemma ceil_div8_nonneg w : 0 <= w -> ceil_div8 w = (w + 7) / 8.
Proof. intros. unfold ceil_div8. destruct (Z.ltb_spec w 0); lia. Qed.

Lemma znth_zrepeat0 n i : znth 0 (zrepeat 0 n) i = 0.
Proof.
  unfold znth, zrepeat. destruct (i <? 0); auto.
  destruct (Nat.lt_ge_cases (Z.to_nat i) (length (repeat 0 (Z.to_nat n)))) as [Hlt | Hge].
  - apply (repeat_spec (Z.to_nat n) 0). apply nth_In. exact Hlt.
  - apply nth_overflow. exact Hge.
Qed.

Lemma px_zeros wib n c r : px wib (zrepeat 0 n) c r = false.
Proof. unfold px. rewrite znth_zrepeat0. apply Z.testbit_0_l. Qed.

Definition canvas (W H : Z) (bg pc : Z) : img := with_colors (new_image W H) bg pc.

Lemma canvas_wf W H bg pc : 0 <= W -> 0 <= H -> wf_img (canvas W H bg pc).
Proof. intros. unfold wf_img, canvas, with_colors; simpl ig; simpl idata. apply (wfg_new_image W H); auto. Qed.

(* ---- plain op lists (no InvertPixels, no SetBoundingBox) keep the geometry ---- *)
Definition plain_op (o : op) : bool :=
  match o with OInvert _ | OSetBBox _ _ _ _ => false | _ => true end.

Lemma plain_op_geom i o : plain_op o = true -> ig (run_op i o) = ig i.
Proof.
  destruct o; simpl; intros Hp; try discriminate; try reflexivity.
  destruct (render_text (ig i) s (it i, idata i)); reflexivity.
Qed.

Lemma plain_ops_geom ops : forall i, forallb plain_op ops = true -> ig (run_ops i ops) = ig i.
Proof.
  induction ops as [|o ops IH]; intros i H; simpl in *; auto.
  apply andb_true_iff in H as [Ho Hr].
  change (run_ops i (o :: ops)) with (run_ops (run_op i o) ops).
  rewrite IH by auto. apply plain_op_geom; auto.
Qed.

Lemma plain_map_op_of l : forallb plain_op (map op_of l) = true.
Proof. induction l as [|d l IH]; simpl; auto. rewrite IH. destruct d; reflexivity. Qed.

(* a plain op list only changes pixels inside the (fixed) clip rectangle *)
Lemma plain_ops_touch ops i :
  wf_img i -> forallb plain_op ops = true ->
  forall c r, in_buffer (ig i) c r ->
    px (gwib (ig i)) (idata (run_ops i ops)) c r <> px (gwib (ig i)) (idata i) c r ->
    in_clip (ig i) c r = true.
Proof.
  intros Hwf Hp c r Hb Hne.
  destruct (ops_frame ops i Hwf) as (_ & _ & _ & _ & _ & F).
  destruct (F c r Hb Hne) as (pre & o & post & Heq & Hclip & _).
  subst ops. rewrite forallb_app in Hp. apply andb_true_iff in Hp as [Hpre _].
  rewrite (plain_ops_geom pre i Hpre) in Hclip. exact Hclip.
Qed.

(* ---- totality ---- *)
Definition tables_ok : bool :=
  (zlen button_colors >? 0) && forallb (fun e => (0 <=? e) && (e <? 64)) button_colors
  && (Z.of_nat (length icons8by8) =? 7) && font_reads_ok.

Lemma tables_ok_true : tables_ok = true.
Proof. vm_compute. reflexivity. Qed.

Lemma color6_ok c : exists v, color6 c = Ok v.
Proof.
  unfold color6. destruct (c_rgb c) as [[[r g] b]|]; [eexists; reflexivity|].
  destruct (c_idx c) as [i|]; [|eexists; reflexivity].
  unfold read_tab.
  pose proof tables_ok_true as T. unfold tables_ok in T.
  assert (Hlen : zlen button_colors > 0) by lia.
  assert (Hk : 0 <= Z.land i 31) by (apply Z.land_nonneg; lia).
  destruct (Z.geb_spec (Z.land i 31) (zlen button_colors)).
  - destruct (Z.leb_spec 0 0); [|lia]. destruct (Z.ltb_spec 0 (zlen button_colors)); [|lia]. eexists; reflexivity.
  - destruct (Z.leb_spec 0 (Z.land i 31)); [|lia]. destruct (Z.ltb_spec (Z.land i 31) (zlen button_colors)); [|lia]. eexists; reflexivity.
Qed.

Lemma opt_color_ok o dflt : exists v, opt_color o dflt = Ok v.
Proof.
  destruct o as [c|]; simpl; [|eexists; reflexivity].
  destruct (color6_ok c) as [v ->]. simpl. eexists; reflexivity.
Qed.

Lemma tile_eq t W H s b :
  exists bg pc, tile_filled t W H s b = Ok (run_ops (canvas W H bg pc) (tile_ops t W H s b)).
Proof.
  unfold tile_filled.
  destruct (opt_color_ok (x_bg t) 0) as [bg ->]. destruct (opt_color_ok (x_pix t) 65535) as [pc ->].
  exists bg, pc. reflexivity.
Qed.

Theorem tile_total t W H s b : exists i, tile_filled t W H s b = Ok i.
Proof. destruct (tile_eq t W H s b) as (bg & pc & ->). eexists; reflexivity. Qed.

(* ---- size ---- *)
Theorem tile_size t W H s b i :
  0 <= W -> 0 <= H -> tile_filled t W H s b = Ok i ->
  gW (ig i) = W /\ gH (ig i) = H /\ gwib (ig i) = (W + 7) / 8 /\
  zlen (idata i) = (W + 7) / 8 * H /\ bytes_in_range (idata i).
Proof.
  intros HW HH Ht. destruct (tile_eq t W H s b) as (bg & pc & E). rewrite E in Ht. injection Ht as <-.
  destruct (ops_frame (tile_ops t W H s b) (canvas W H bg pc) (canvas_wf W H bg pc HW HH)) as (Wf & EW & EH & Ewib & EL & _).
  destruct Wf as (_ & _ & Hw & Hl & Hb).
  rewrite EW, EH, Ewib in *. simpl in *. rewrite (ceil_div8_nonneg W HW) in *.
  repeat split; auto.
Qed.

Corollary tile_size_ok t W H s b i :
  0 <= W -> 0 <= H -> tile_filled t W H s b = Ok i ->
  size_ok W H (gW (ig i)) (gH (ig i)) (idata i) = true.
Proof.
  intros HW HH Ht. destruct (tile_size t W H s b i HW HH Ht) as (E1 & E2 & _ & E4 & E5).
  unfold size_ok, wib_of. rewrite E1, E2, E4, !Z.eqb_refl. simpl.
  unfold bytes_ok. apply forallb_forall. intros x Hx.
  unfold bytes_in_range in E5. rewrite Forall_forall in E5. specialize (E5 x Hx). unfold byte_ok. lia.
Qed.
