(* C07 for ALL byte strings, well-formed UTF-8 or not: flattening keeps every byte that is not part of
   a white-space character's encoding, in order (Spec/OneLine.v hard_bytes).  Complements
   flatten_keeps (characters, well-formed input): on ill-formed input the joined string may form a new
   character where two lines are glued, but no byte outside the white-space encodings is ever lost,
   added or changed.  (Seed C07-12: a final pass through strings.Map rewrote every ill-formed byte to
   EF BF BD; the character clause does not apply there, this one does.) *)
From RP Require Import Lib.Base Lib.Strings Lib.Utf8 Lib.TrimSpace Model.Flatten Spec.OneLine
  Proofs.FlattenUtf8 Proofs.FlattenProofs.
From Coq Require Import ZifyBool.
Open Scope Z_scope.
Open Scope list_scope.

Lemma hard_app a b : hard_bytes (a ++ b) = hard_bytes a ++ hard_bytes b.
Proof. unfold hard_bytes. apply filter_app. Qed.

Lemma hard_rev a : hard_bytes (rev a) = rev (hard_bytes a).
Proof.
  induction a as [|c a IH]; [reflexivity|]. cbn [rev]. rewrite hard_app, IH.
  unfold hard_bytes. cbn [filter]. destruct (negb (ws_byte c)); cbn [rev app]; [reflexivity|].
  rewrite app_nil_r. reflexivity.
Qed.

Lemma hard_all_ws a : Forall (fun b => ws_byte b = true) a -> hard_bytes a = [].
Proof.
  induction 1 as [|c a Hc _ IH]; [reflexivity|]. unfold hard_bytes in *. cbn [filter]. rewrite Hc. exact IH.
Qed.

Lemma hard_concat ls : hard_bytes (concat ls) = concat (map hard_bytes ls).
Proof. induction ls as [|l ls IH]; [reflexivity|]. cbn [concat map]. rewrite hard_app, IH. reflexivity. Qed.

(* the bytes of a decoded white-space character are all white-space bytes *)
Lemma space_rune_bytes s r n :
  decode_rune s = (r, n) -> is_space_rune r = true -> Forall (fun b => ws_byte b = true) (firstn n s).
Proof.
  assert (Hne : is_space_rune rune_error = false) by reflexivity.
  unfold decode_rune. intros H Hs.
  destruct s as [|c0 s1]; [injection H as <- <-; constructor|].
  destruct (c0 <? 128) eqn:E0.
  { injection H as <- <-. cbn [firstn]. constructor; [|constructor].
    unfold is_space_rune in Hs. unfold ws_byte. lia. }
  destruct ((c0 <? 194) || (244 <? c0)) eqn:E1; [injection H as <- <-; rewrite Hne in Hs; discriminate|].
  destruct (c0 <? 224) eqn:E2.
  { destruct s1 as [|c1 s2]; [injection H as <- <-; rewrite Hne in Hs; discriminate|].
    destruct (is_cont c1) eqn:Ec1; [|injection H as <- <-; rewrite Hne in Hs; discriminate].
    injection H as <- <-. cbn [firstn]. unfold is_cont in Ec1. unfold is_space_rune in Hs.
    assert (c0 = 194) by lia. assert (c1 = 133 \/ c1 = 160) by lia.
    constructor; [subst; reflexivity|]. constructor; [|constructor].
    destruct H0; subst; reflexivity. }
  destruct (c0 <? 240) eqn:E3.
  { cbv zeta in H.
    destruct s1 as [|c1 [|c2 s3]]; try (injection H as <- <-; rewrite Hne in Hs; discriminate).
    match type of H with (if ?b then _ else _) = _ => destruct b eqn:Eb end;
      [|injection H as <- <-; rewrite Hne in Hs; discriminate].
    injection H as <- <-. cbn [firstn]. unfold is_cont in Eb. unfold is_space_rune in Hs.
    revert Eb; destruct (c0 =? 224) eqn:E224; destruct (c0 =? 237) eqn:E237; intros Eb;
      repeat (apply Forall_cons); try apply Forall_nil; unfold ws_byte; lia. }
  cbv zeta in H.
  destruct s1 as [|c1 [|c2 [|c3 s4]]]; try (injection H as <- <-; rewrite Hne in Hs; discriminate).
  match type of H with (if ?b then _ else _) = _ => destruct b eqn:Eb end;
    [|injection H as <- <-; rewrite Hne in Hs; discriminate].
  injection H as <- <-. unfold is_cont in Eb. unfold is_space_rune in Hs. exfalso.
  revert Eb; destruct (c0 =? 240) eqn:E240; destruct (c0 =? 244) eqn:E244; intros Eb; lia.
Qed.

Lemma hard_skip_space s r n :
  decode_rune s = (r, n) -> is_space_rune r = true -> hard_bytes (skipn n s) = hard_bytes s.
Proof.
  intros Hd Hs. rewrite <- (firstn_skipn n s) at 2. rewrite hard_app.
  rewrite (hard_all_ws _ (space_rune_bytes s r n Hd Hs)). reflexivity.
Qed.

Lemma hard_trim_left_fuel : forall f s, hard_bytes (trim_left_fuel f s) = hard_bytes s.
Proof.
  induction f as [|f IH]; intros s; [reflexivity|]. cbn [trim_left_fuel].
  destruct s as [|c r]; [reflexivity|].
  destruct (decode_rune (c :: r)) as [ru n] eqn:Ed.
  destruct (is_space_rune ru) eqn:Es; [|reflexivity].
  rewrite IH. apply (hard_skip_space _ ru n Ed Es).
Qed.

Lemma hard_trim_right_rev_fuel : forall f rs, hard_bytes (trim_right_rev_fuel f rs) = hard_bytes rs.
Proof.
  induction f as [|f IH]; intros rs; [reflexivity|]. cbn [trim_right_rev_fuel].
  destruct rs as [|c r0]; [reflexivity|].
  destruct (decode_last_rune_rev (c :: r0)) as [r n] eqn:Ed.
  destruct (is_space_rune r) eqn:Es; [|reflexivity].
  destruct (decode_last_space _ _ _ Ed Es) as [enc [rest [Hrs [Hlen [Hdec Hclean]]]]].
  rewrite IH, Hrs. rewrite <- Hlen, <- (rev_length enc), skipn_app, Nat.sub_diag, skipn_all. cbn [app skipn].
  rewrite hard_app, hard_rev.
  pose proof (space_rune_bytes enc r n Hdec Es) as Hall.
  rewrite <- Hlen, firstn_all in Hall. rewrite (hard_all_ws _ Hall). reflexivity.
Qed.

Theorem hard_trim_space s : hard_bytes (trim_space s) = hard_bytes s.
Proof.
  unfold trim_space, trim_right, trim_left.
  rewrite hard_rev, hard_trim_right_rev_fuel, hard_rev, rev_involutive. apply hard_trim_left_fuel.
Qed.

Lemma hard_svg_part p : hard_bytes (svg_part p) = hard_bytes p.
Proof.
  unfold svg_part. destruct (has_suffix [62] (trim_space p)).
  - apply hard_trim_space.
  - rewrite hard_app, hard_trim_space. cbn. apply app_nil_r.
Qed.

Lemma hard_split_aux : forall s cur,
  concat (map hard_bytes (split_on_aux 10 s cur)) = hard_bytes (rev cur ++ s).
Proof.
  induction s as [|c r IH]; intros cur; cbn [split_on_aux].
  - cbn [map concat]. rewrite !app_nil_r. reflexivity.
  - destruct (c =? 10) eqn:E.
    + apply Z.eqb_eq in E. subst c. cbn [map concat]. rewrite IH. cbn [rev app].
      rewrite hard_app. reflexivity.
    + rewrite IH. cbn [rev]. rewrite <- app_assoc. reflexivity.
Qed.

Lemma hard_lines s : concat (map hard_bytes (split_on 10 s)) = hard_bytes s.
Proof. unfold split_on. rewrite hard_split_aux. reflexivity. Qed.

Lemma hard_map_parts (f : list Z -> list Z) : (forall p, hard_bytes (f p) = hard_bytes p) ->
  forall ls, map hard_bytes (map f ls) = map hard_bytes ls.
Proof. intros Hf ls. rewrite map_map. apply map_ext. exact Hf. Qed.

Theorem hard_strip_lb s : hard_bytes (strip_lb s) = hard_bytes s.
Proof. unfold strip_lb. rewrite hard_concat, (hard_map_parts _ hard_trim_space), hard_lines. reflexivity. Qed.

Theorem hard_strip_lb_svg s : hard_bytes (strip_lb_svg s) = hard_bytes s.
Proof. unfold strip_lb_svg. rewrite hard_concat, (hard_map_parts _ hard_svg_part), hard_lines. reflexivity. Qed.

Theorem hard_one_line s : hard_bytes (one_line s) = hard_bytes s.
Proof.
  induction s as [|c r IH]; [reflexivity|]. unfold one_line, hard_bytes in *. cbn [map filter].
  destruct (c =? 10) eqn:E.
  - apply Z.eqb_eq in E. subst c. cbn. exact IH.
  - rewrite IH. reflexivity.
Qed.

(* what the encoders return for a flattened payload *)
Theorem flatten_keeps_bytes s :
  hard_bytes (one_line (strip_lb s)) = hard_bytes s /\ hard_bytes (one_line (strip_lb_svg s)) = hard_bytes s.
Proof. split; rewrite hard_one_line; [apply hard_strip_lb | apply hard_strip_lb_svg]. Qed.
