(* C19 — lemmas about the pure dispatcher, the panel state and the init window. *)
From RP Require Import Lib.Base Model.Gorwp Spec.Gorwp.
From Coq Require Import Lia.

(* ------------------------------------------------------------------ registrations *)
Lemma in_force_app1 : forall regs r k id,
  in_force (regs ++ [r]) k id =
  (let '(k', id', h) := r in if kind_eqb k k' && (id =? id') then Some h else in_force regs k id).
Proof.
  intros. unfold in_force. rewrite fold_left_app. cbn [fold_left]. destruct r as [[k' id'] h]. reflexivity.
Qed.

(* the newest-first maps of the model = "latest registration in force" *)
Lemma in_force_rev : forall b k id, in_force (rev b) k id = lookup b k id.
Proof.
  induction b as [|[[k' id'] h] b IH]; intros; [reflexivity|].
  cbn [rev lookup]. rewrite in_force_app1. rewrite IH. reflexivity.
Qed.

(* ------------------------------------------------------------------ one event *)
Lemma calls_of_event_spec : forall b e, calls_of_event b e = event_calls (lookup b) e.
Proof.
  intros. unfold calls_of_event, event_calls, all_kinds. cbn [flat_map expected_call].
  rewrite app_nil_r.
  destruct (lookup b KTrigger (e_id e)), (lookup b KBinary (e_id e)), (lookup b KPulsed (e_id e)),
           (lookup b KAbsolute (e_id e)), (lookup b KIntensity (e_id e));
  destruct (e_bin e) as [[p edge]|], (e_pul e), (e_abs e), (e_spd e);
  unfold qint, wrap8; try destruct p; reflexivity.
Qed.

Lemma event_calls_ext : forall who who' e,
  (forall k, who k (e_id e) = who' k (e_id e)) -> event_calls who e = event_calls who' e.
Proof. intros. unfold event_calls, all_kinds. cbn [flat_map]. rewrite !H. reflexivity. Qed.

Definition call_kind (c : callrec) : kind :=
  match c with CTrigger _ _ _ => KTrigger | CBinary _ _ _ _ => KBinary | CValue k _ _ _ => k end.

Definition has_payload (k : kind) (e : event) : bool :=
  match k with
  | KTrigger => true
  | KBinary => match e_bin e with Some _ => true | None => false end
  | KPulsed => match e_pul e with Some _ => true | None => false end
  | KAbsolute => match e_abs e with Some _ => true | None => false end
  | KIntensity => match e_spd e with Some _ => true | None => false end
  end.

Lemma expected_call_kind : forall k h e c, expected_call k h e = Some c -> call_kind c = k.
Proof.
  intros k h e c H. destruct k; cbn in H.
  - inversion H; reflexivity.
  - destruct (e_bin e) as [[p ed]|]; inversion H; reflexivity.
  - destruct (e_pul e); inversion H; reflexivity.
  - destruct (e_abs e); inversion H; reflexivity.
  - destruct (e_spd e); inversion H; reflexivity.
Qed.

Lemma expected_call_some : forall k h e, (exists c, expected_call k h e = Some c) <-> has_payload k e = true.
Proof.
  intros. destruct k; cbn.
  - split; eauto.
  - destruct (e_bin e) as [[p ed]|]; split; intros; eauto; try discriminate. destruct H; discriminate.
  - destruct (e_pul e); split; intros; eauto; try discriminate. destruct H; discriminate.
  - destruct (e_abs e); split; intros; eauto; try discriminate. destruct H; discriminate.
  - destruct (e_spd e); split; intros; eauto; try discriminate. destruct H; discriminate.
Qed.

(* exactly one invocation of kind k iff a handler of kind k is registered for the id and the event carries
   that payload; none otherwise; and the kinds come in the fixed order *)
Lemma event_calls_count : forall who e k,
  length (filter (fun ch => kind_eqb (call_kind (fst ch)) k) (event_calls who e)) =
  match who k (e_id e) with
  | Some _ => if has_payload k e then 1%nat else 0%nat
  | None => 0%nat
  end.
Proof.
  intros who e k. unfold event_calls, all_kinds. cbn [flat_map]. rewrite app_nil_r.
  assert (P : forall k', length (filter (fun ch => kind_eqb (call_kind (fst ch)) k)
             (match who k' (e_id e) with
              | Some h => match expected_call k' h e with Some c => [(c, h)] | None => [] end
              | None => [] end)) =
          if kind_eqb k' k then match who k' (e_id e) with Some _ => if has_payload k' e then 1%nat else 0%nat | None => 0%nat end else 0%nat).
  { intros k'. destruct (who k' (e_id e)) as [h|]; [|destruct (kind_eqb k' k); reflexivity].
    destruct (expected_call k' h e) as [c|] eqn:E.
    - pose proof (expected_call_kind _ _ _ _ E) as K. cbn [filter fst]. rewrite K.
      assert (has_payload k' e = true) by (apply (proj1 (expected_call_some k' h e)); eauto). rewrite H.
      destruct (kind_eqb k' k); reflexivity.
    - assert (has_payload k' e = false).
      { destruct (has_payload k' e) eqn:HP; [|reflexivity]. apply (proj2 (expected_call_some k' h e)) in HP. destruct HP as [c Hc]. congruence. }
      rewrite H. destruct (kind_eqb k' k); reflexivity. }
  rewrite !filter_app, !app_length, !P.
  destruct k; cbn [kind_eqb]; lia.
Qed.

(* ------------------------------------------------------------------ one message *)
Lemma calls_of_app : forall a b, calls_of (a ++ b) = calls_of a ++ calls_of b.
Proof. intros. unfold calls_of. apply flat_map_app. Qed.
Lemma sends_of_app : forall a b, sends_of (a ++ b) = sends_of a ++ sends_of b.
Proof. intros. unfold sends_of. apply flat_map_app. Qed.

Lemma calls_of_sends : forall l, calls_of (map Send l) = [].
Proof. induction l; [reflexivity|]. cbn. exact IHl. Qed.
Lemma sends_of_sends : forall l, sends_of (map Send l) = l.
Proof. induction l; [reflexivity|]. cbn. f_equal. exact IHl. Qed.
Lemma calls_of_rebinds : forall l, calls_of (map Rebind l) = [].
Proof. induction l; [reflexivity|]. cbn. exact IHl. Qed.
Lemma sends_of_rebinds : forall l, sends_of (map Rebind l) = [].
Proof. induction l; [reflexivity|]. cbn. exact IHl. Qed.

Lemma calls_of_acts : forall l, calls_of (acts_of_calls l) = map fst l.
Proof.
  induction l as [|[c h] l IH]; [reflexivity|].
  unfold acts_of_calls in *. cbn [flat_map]. rewrite calls_of_app. cbn [fst snd]. cbn [map].
  change (Call c :: map Send (fb_items h) ++ map Rebind (h_binds h)) with ([Call c] ++ map Send (fb_items h) ++ map Rebind (h_binds h)).
  rewrite !calls_of_app, calls_of_sends, calls_of_rebinds. cbn. f_equal. exact IH.
Qed.
Lemma sends_of_acts : forall l, sends_of (acts_of_calls l) = flat_map (fun ch => fb_items (snd ch)) l.
Proof.
  induction l as [|[c h] l IH]; [reflexivity|].
  unfold acts_of_calls in *. cbn [flat_map]. rewrite sends_of_app. cbn [fst snd].
  change (Call c :: map Send (fb_items h) ++ map Rebind (h_binds h)) with ([Call c] ++ map Send (fb_items h) ++ map Rebind (h_binds h)).
  rewrite !sends_of_app, sends_of_sends, sends_of_rebinds. cbn. rewrite app_nil_r. f_equal. exact IH.
Qed.

Lemma map_fst_flat_map : forall {A B C} (f : A -> list (B * C)) l,
  map fst (flat_map f l) = flat_map (fun x => map fst (f x)) l.
Proof. induction l; [reflexivity|]. cbn. rewrite map_app. f_equal. exact IHl. Qed.

Lemma flat_map_flat_map : forall {A B C} (f : A -> list B) (g : B -> list C) l,
  flat_map g (flat_map f l) = flat_map (fun x => flat_map g (f x)) l.
Proof. induction l; [reflexivity|]. cbn. rewrite flat_map_app. f_equal. exact IHl. Qed.

Lemma calls_of_event_force : forall b e, calls_of_event b e = event_calls (in_force (rev b)) e.
Proof. intros. rewrite calls_of_event_spec. apply event_calls_ext. intros. symmetry. apply in_force_rev. Qed.

Lemma rev_apply_binds : forall b rs, rev (apply_binds b rs) = rev b ++ rs.
Proof. intros. unfold apply_binds. rewrite rev_app_distr, rev_involutive. reflexivity. Qed.

Lemma dispatch_events_cons : forall b e r,
  dispatch_events b (e :: r) =
  (acts_of_calls (calls_of_event b e) ++ fst (dispatch_events (apply_binds b (binds_of_calls (calls_of_event b e))) r),
   snd (dispatch_events (apply_binds b (binds_of_calls (calls_of_event b e))) r)).
Proof. intros. cbn [dispatch_events]. destruct (dispatch_events _ r). reflexivity. Qed.

Lemma events_demands_cons : forall regs e r,
  events_demands regs (e :: r) =
  (let chs := event_calls (in_force regs) e in
   let rest := events_demands (regs ++ flat_map (fun ch => h_binds (snd ch)) chs) r in
   (map fst chs ++ fst (fst rest), flat_map (fun ch => fb_items (snd ch)) chs ++ snd (fst rest), snd rest)).
Proof. intros. cbn [events_demands]. destruct (events_demands _ r) as [[c s] regs']. reflexivity. Qed.

(* the events of a message: invocations, sends and the maps afterwards are what the spec demands *)
Lemma dispatch_events_meets : forall evs b,
  calls_of (fst (dispatch_events b evs)) = fst (fst (events_demands (rev b) evs)) /\
  sends_of (fst (dispatch_events b evs)) = snd (fst (events_demands (rev b) evs)) /\
  rev (snd (dispatch_events b evs)) = snd (events_demands (rev b) evs).
Proof.
  induction evs as [|e r IH]; intros b; [cbn; auto|].
  rewrite dispatch_events_cons, events_demands_cons. cbn zeta. cbn [fst snd].
  rewrite <- calls_of_event_force.
  specialize (IH (apply_binds b (binds_of_calls (calls_of_event b e)))).
  rewrite rev_apply_binds in IH. unfold binds_of_calls in *. destruct IH as (H1 & H2 & H3).
  rewrite calls_of_app, sends_of_app, calls_of_acts, sends_of_acts, H1, H2, H3. auto.
Qed.

Lemma dispatch_meets_demands : forall b st m,
  calls_of (fst (fst (dispatch b st m))) = fst (fst (msg_demands (rev b) m)) /\
  sends_of (fst (fst (dispatch b st m))) = snd (fst (msg_demands (rev b) m)) /\
  rev (snd (dispatch b st m)) = snd (msg_demands (rev b) m) /\
  snd (fst (dispatch b st m)) = upd_state st m.
Proof.
  intros. unfold dispatch, msg_demands.
  pose proof (dispatch_events_meets (m_events m) b) as (H1 & H2 & H3).
  destruct (dispatch_events b (m_events m)) as [a b'].
  destruct (events_demands (rev b) (m_events m)) as [[c s] regs'].
  cbn [fst snd] in *. rewrite calls_of_app, sends_of_app, H1, H2.
  destruct (m_flow m =? 1); cbn; auto.
Qed.

(* the statement in the property's words: the invocations for a message are, event by event in order, those
   [event_calls] demands under the registrations in force at that event (the ones before the message plus
   the ones made by the handlers of the earlier events) *)
Lemma dispatch_exactly_once : forall b st m,
  calls_of (fst (fst (dispatch b st m))) = fst (fst (events_demands (rev b) (m_events m))).
Proof.
  intros. rewrite (proj1 (dispatch_meets_demands b st m)). unfold msg_demands.
  destruct (events_demands (rev b) (m_events m)) as [[c s] regs']. reflexivity.
Qed.

(* handlers that register nothing themselves: the maps are the same for every event of the message *)
Definition no_rebind (who : kind -> Z -> option handler) : Prop := forall k id h, who k id = Some h -> h_binds h = [].

Lemma event_calls_no_rebind : forall who e, no_rebind who -> flat_map (fun ch => h_binds (snd ch)) (event_calls who e) = [].
Proof.
  intros who e H. unfold event_calls. induction all_kinds as [|k ks IH]; [reflexivity|].
  cbn [flat_map]. rewrite flat_map_app, IH, app_nil_r.
  destruct (who k (e_id e)) as [h|] eqn:W; [|reflexivity].
  destruct (expected_call k h e); [|reflexivity]. cbn [flat_map snd]. rewrite (H _ _ _ W). reflexivity.
Qed.

Lemma events_demands_static : forall regs evs, no_rebind (in_force regs) ->
  events_demands regs evs =
  (flat_map (fun e => map fst (event_calls (in_force regs) e)) evs,
   flat_map (fun e => flat_map (fun ch => fb_items (snd ch)) (event_calls (in_force regs) e)) evs, regs).
Proof.
  intros regs evs H. induction evs as [|e r IH]; [reflexivity|].
  cbn [events_demands flat_map]. rewrite event_calls_no_rebind by assumption. rewrite app_nil_r, IH. reflexivity.
Qed.

Lemma dispatch_exactly_once_static : forall b st m, no_rebind (in_force (rev b)) ->
  calls_of (fst (fst (dispatch b st m))) = flat_map (fun e => map fst (event_calls (in_force (rev b)) e)) (m_events m).
Proof. intros. rewrite dispatch_exactly_once, events_demands_static by assumption. reflexivity. Qed.

(* ------------------------------------------------------------------ ping -> exactly one ack *)
Lemma count_acks_app : forall a b, count_acks (a ++ b) = (count_acks a + count_acks b)%nat.
Proof. intros. unfold count_acks. rewrite filter_app, app_length. reflexivity. Qed.

Lemma count_acks_fb : forall h, count_acks (fb_items h) = 0%nat.
Proof. intros. unfold fb_items. induction (h_sends h); [reflexivity|]. cbn. exact IHl. Qed.

Lemma count_acks_fbs : forall (l : list (callrec * handler)), count_acks (flat_map (fun ch => fb_items (snd ch)) l) = 0%nat.
Proof. induction l; [reflexivity|]. cbn [flat_map]. rewrite count_acks_app, count_acks_fb, IHl. reflexivity. Qed.

Lemma events_demands_acks : forall evs regs, count_acks (snd (fst (events_demands regs evs))) = 0%nat.
Proof.
  induction evs as [|e r IH]; intros; [reflexivity|].
  cbn [events_demands]. specialize (IH (regs ++ flat_map (fun ch => h_binds (snd ch)) (event_calls (in_force regs) e))).
  destruct (events_demands _ r) as [[c s] regs']. cbn [fst snd] in *. rewrite count_acks_app, count_acks_fbs, IH. reflexivity.
Qed.

Lemma msg_demands_acks : forall regs m,
  count_acks (snd (fst (msg_demands regs m))) = if m_flow m =? 1 then 1%nat else 0%nat.
Proof.
  intros. unfold msg_demands. pose proof (events_demands_acks (m_events m) regs) as H.
  destruct (events_demands regs (m_events m)) as [[c s] regs']. cbn [fst snd] in *.
  rewrite count_acks_app, H. destruct (m_flow m =? 1); reflexivity.
Qed.

Lemma delivery_demands_cons : forall regs m r,
  delivery_demands regs (m :: r) =
  (fst (fst (msg_demands regs m)) ++ fst (fst (delivery_demands (snd (msg_demands regs m)) r)),
   snd (fst (msg_demands regs m)) ++ snd (fst (delivery_demands (snd (msg_demands regs m)) r)),
   snd (delivery_demands (snd (msg_demands regs m)) r)).
Proof.
  intros. cbn [delivery_demands]. destruct (msg_demands regs m) as [[c1 s1] regs1]. cbn [fst snd].
  destruct (delivery_demands regs1 r) as [[c2 s2] regs2]. reflexivity.
Qed.

Lemma dispatch_all_cons : forall b st m r,
  dispatch_all b st (m :: r) =
  (let d := dispatch b st m in let rest := dispatch_all (snd d) (snd (fst d)) r in
   (fst (fst d) ++ fst (fst rest), snd (fst rest), snd rest)).
Proof. intros. cbn [dispatch_all]. destruct (dispatch b st m) as [[a st1] b1]. cbn [fst snd]. destruct (dispatch_all b1 st1 r) as [[a' st2] b2]. reflexivity. Qed.

Lemma dispatch_all_meets : forall ms b st,
  calls_of (fst (fst (dispatch_all b st ms))) = fst (fst (delivery_demands (rev b) ms)) /\
  sends_of (fst (fst (dispatch_all b st ms))) = snd (fst (delivery_demands (rev b) ms)) /\
  rev (snd (dispatch_all b st ms)) = snd (delivery_demands (rev b) ms) /\
  snd (fst (dispatch_all b st ms)) = fold_left upd_state ms st.
Proof.
  induction ms as [|m r IH]; intros; [cbn; auto|].
  rewrite dispatch_all_cons, delivery_demands_cons. cbn zeta. cbn [fst snd fold_left].
  pose proof (dispatch_meets_demands b st m) as (H1 & H2 & H3 & H4).
  specialize (IH (snd (dispatch b st m)) (snd (fst (dispatch b st m)))). rewrite H3, H4 in IH.
  destruct IH as (I1 & I2 & I3 & I4).
  rewrite H4, calls_of_app, sends_of_app, H1, H2, I1, I2, I3, I4. auto.
Qed.

Lemma delivery_demands_acks : forall ms regs, count_acks (snd (fst (delivery_demands regs ms))) = count_pings ms.
Proof.
  induction ms as [|m r IH]; intros; [reflexivity|].
  rewrite delivery_demands_cons. cbn [fst snd]. rewrite count_acks_app, IH, msg_demands_acks.
  unfold count_pings. cbn [filter]. destruct (m_flow m =? 1); reflexivity.
Qed.

(* a panel ping is answered with exactly one acknowledge, whatever the handlers do *)
Lemma ping_one_ack : forall b ms st,
  count_acks (sends_of (fst (fst (dispatch_all b st ms)))) = count_pings ms.
Proof. intros. rewrite (proj1 (proj2 (dispatch_all_meets ms b st))). apply delivery_demands_acks. Qed.

(* ------------------------------------------------------------------ state *)
Lemma dispatch_all_state : forall b ms st, snd (fst (dispatch_all b st ms)) = fold_left upd_state ms st.
Proof. intros. apply (dispatch_all_meets ms b st). Qed.

Lemma keep_spec : forall new old, keep new old = match new with [] => old | v => v end.
Proof. intros. destruct new; reflexivity. Qed.

Lemma upd_model : forall st m, g_model (upd_state st m) = match f_model m with [] => g_model st | v => v end.
Proof. intros. unfold upd_state, f_model, keep. destruct (m_info m) as [i|], (m_topo m) as [t|]; cbn; try destruct (pi_model i); reflexivity. Qed.
Lemma upd_serial : forall st m, g_serial (upd_state st m) = match f_serial m with [] => g_serial st | v => v end.
Proof. intros. unfold upd_state, f_serial, keep. destruct (m_info m) as [i|], (m_topo m) as [t|]; cbn; try destruct (pi_serial i); reflexivity. Qed.
Lemma upd_name : forall st m, g_name (upd_state st m) = match f_name m with [] => g_name st | v => v end.
Proof. intros. unfold upd_state, f_name, keep. destruct (m_info m) as [i|], (m_topo m) as [t|]; cbn; try destruct (pi_name i); reflexivity. Qed.
Lemma upd_json : forall st m, g_json (upd_state st m) = match f_json m with [] => g_json st | v => v end.
Proof. intros. unfold upd_state, f_json, keep. destruct (m_info m) as [i|], (m_topo m) as [t|]; cbn; try destruct (pt_json t); reflexivity. Qed.
Lemma upd_svg : forall st m, g_svg (upd_state st m) = match f_svg m with [] => g_svg st | v => v end.
Proof. intros. unfold upd_state, f_svg, keep. destruct (m_info m) as [i|], (m_topo m) as [t|]; cbn; try destruct (pt_svg t); reflexivity. Qed.

Lemma avail_get_set : forall k v l k', avail_get k' (avail_set k v l) = if k' =? k then Some v else avail_get k' l.
Proof.
  induction l as [|[k0 v0] l IH]; intros.
  - cbn. destruct (k' =? k); reflexivity.
  - cbn [avail_set]. destruct (k <? k0) eqn:L.
    + cbn [avail_get]. destruct (k' =? k); reflexivity.
    + destruct (k =? k0) eqn:E.
      * apply Z.eqb_eq in E. subst k0. cbn [avail_get]. destruct (k' =? k); reflexivity.
      * cbn [avail_get]. rewrite IH. destruct (k' =? k0) eqn:E0; [|reflexivity].
        apply Z.eqb_eq in E0. subst k0. destruct (k' =? k) eqn:E1; [|reflexivity].
        apply Z.eqb_eq in E1. subst k'. rewrite Z.eqb_refl in E. discriminate.
Qed.

Lemma avail_fold : forall kvs a k,
  avail_get k (fold_left (fun a kv => avail_set (fst kv) (snd kv) a) kvs a) =
  fold_left (fun acc (kv : Z * Z) => if fst kv =? k then Some (snd kv) else acc) kvs (avail_get k a).
Proof.
  induction kvs as [|[k0 v0] r IH]; intros; [reflexivity|].
  cbn [fold_left fst snd]. rewrite IH. rewrite avail_get_set. rewrite (Z.eqb_sym k k0). reflexivity.
Qed.

Lemma upd_avail : forall st m k,
  avail_get k (g_avail (upd_state st m)) =
  fold_left (fun acc (kv : Z * Z) => if fst kv =? k then Some (snd kv) else acc) (m_avail m) (avail_get k (g_avail st)).
Proof.
  intros. unfold upd_state. destruct (m_info m), (m_topo m); cbn [g_avail]; apply avail_fold.
Qed.

Lemma latest_step : forall f init ms m, latest f init (ms ++ [m]) = match f m with [] => latest f init ms | v => v end.
Proof. intros. unfold latest. rewrite fold_left_app. reflexivity. Qed.

Lemma fold_upd_snoc : forall ms m st, fold_left upd_state (ms ++ [m]) st = upd_state (fold_left upd_state ms st) m.
Proof. intros. rewrite fold_left_app. reflexivity. Qed.

(* getters after any history = last non-empty value / map overlay *)
Lemma state_latest : forall ms st,
  let st' := fold_left upd_state ms st in
  g_model st' = latest f_model (g_model st) ms /\
  g_serial st' = latest f_serial (g_serial st) ms /\
  g_name st' = latest f_name (g_name st) ms /\
  g_json st' = latest f_json (g_json st) ms /\
  g_svg st' = latest f_svg (g_svg st) ms /\
  forall k, avail_get k (g_avail st') = avail_latest (fun k => avail_get k (g_avail st)) ms k.
Proof.
  intros ms. induction ms as [|m ms IH] using rev_ind; intros st.
  - cbn. repeat split; reflexivity.
  - cbn zeta. rewrite fold_upd_snoc. specialize (IH st). cbn zeta in IH.
    destruct IH as (H1 & H2 & H3 & H4 & H5 & H6).
    rewrite upd_model, upd_serial, upd_name, upd_json, upd_svg, !latest_step, H1, H2, H3, H4, H5.
    repeat split; try reflexivity.
    intros k. rewrite upd_avail, H6. unfold avail_latest. rewrite flat_map_app, fold_left_app. cbn [flat_map]. rewrite app_nil_r. reflexivity.
Qed.

(* ------------------------------------------------------------------ init *)
Lemma initialised_all_four : forall ms, initialised (fold_left upd_state ms st0) = has_all_four ms.
Proof.
  intros. unfold initialised, has_all_four.
  pose proof (state_latest ms st0) as (H1 & H2 & _ & H4 & H5 & _). cbn zeta in *.
  rewrite H1, H2, H4, H5. reflexivity.
Qed.

Lemma nonempty_keep : forall new old, nonempty old = true -> nonempty (keep new old) = true.
Proof. intros. unfold keep. destruct (nonempty new) eqn:E; assumption. Qed.

Lemma initialised_mono : forall st m, initialised st = true -> initialised (upd_state st m) = true.
Proof.
  intros st m H. unfold initialised in *.
  apply andb_prop in H as [H Hv]. apply andb_prop in H as [H Hj]. apply andb_prop in H as [Hm Hs].
  rewrite upd_model, upd_serial, upd_json, upd_svg.
  destruct (f_model m), (f_serial m), (f_json m), (f_svg m); cbn [nonempty]; rewrite ?Hm, ?Hs, ?Hj, ?Hv; reflexivity.
Qed.

Lemma initialised_mono_all : forall ms st, initialised st = true -> initialised (fold_left upd_state ms st) = true.
Proof. induction ms; intros; [assumption|]. cbn. apply IHms, initialised_mono. assumption. Qed.

Lemma connect_ok_window : forall evs b st,
  connect_ok b st evs = initialised (fold_left upd_state (in_window evs) st).
Proof.
  induction evs as [|[t [d|]] r IH]; intros.
  - cbn. apply orb_false_r.
  - cbn [connect_ok in_window]. destruct (t <? init_window).
    + pose proof (dispatch_all_state b d st) as DS.
      destruct (dispatch_all b st d) as [[a st'] b']. cbn [fst snd] in DS. subst st'.
      rewrite IH, fold_left_app.
      destruct (initialised st) eqn:I; [|reflexivity].
      cbn. symmetry. apply initialised_mono_all, initialised_mono_all. assumption.
    + cbn. apply orb_false_r.
  - cbn. apply orb_false_r.
Qed.

(* Connect succeeds exactly when model, serial, topology JSON and SVG all arrive in the window,
   before the connection is lost *)
Lemma init_iff : forall b evs, connect_ok b st0 evs = connect_expected evs.
Proof. intros. rewrite connect_ok_window. apply initialised_all_four. Qed.
