(* Submission ORDER is observable in the abstract panel: the clearing commands act on what the
   components show when they arrive (Spec/DenoteIn.v [comps_after_cmd]), so swapping a state write
   and a Clear changes the final panel.  Used by Props/C01.v / C02.v to show that the soundness
   theorems - which are equalities of final panels - really constrain the order in which the
   effects of successive messages (lines) appear. *)
From RP Require Import Lib.Base Spec.DenoteIn.
Open Scope Z_scope.

Definition w_mode (id st : Z) : effect := EState [id] (UMode st false 0).
Definition e_clear : effect := ECmd (CBare KClear).
Definition e_clear_leds : effect := ECmd (CBare KClearLEDs).
Definition e_clear_displays : effect := ECmd (CBare KClearDisplays).

Lemma clear_then_write_differs : forall id st p,
  p_comp (apply_effs p [w_mode id st; e_clear]) = [] /\
  p_comp (apply_effs p [e_clear; w_mode id st]) = [(id, cs_apply (UMode st false 0) cs_empty)].
Proof. intros id st p. split; reflexivity. Qed.

Lemma order_observable : forall id st p,
  apply_effs p [w_mode id st; e_clear] <> apply_effs p [e_clear; w_mode id st].
Proof.
  intros id st p H. apply (f_equal p_comp) in H.
  destruct (clear_then_write_differs id st p) as [H1 H2]. rewrite H1, H2 in H. discriminate H.
Qed.

(* a write that is overwritten in place (the earlier line replaced by the later value, as a
   coalescing encoder would do) is NOT the same panel when a Clear stands between the two writes *)
Lemma coalescing_is_unsound : forall id a b p, 
  apply_effs p [w_mode id a; e_clear; w_mode id b] <> apply_effs p [w_mode id b; e_clear].
Proof.
  intros id a b p H. apply (f_equal p_comp) in H. cbn in H. discriminate H.
Qed.

(* ClearLEDs forgets mode and colour only; ClearDisplays text and image only *)
Lemma clear_leds_keeps_ext : forall c, cs_ext (cs_clear_leds c) = cs_ext c /\ cs_text (cs_clear_leds c) = cs_text c
  /\ cs_gfx (cs_clear_leds c) = cs_gfx c /\ cs_mode (cs_clear_leds c) = None /\ cs_colour (cs_clear_leds c) = None.
Proof. intros c. repeat split. Qed.
Lemma clear_displays_keeps_leds : forall c, cs_mode (cs_clear_displays c) = cs_mode c /\ cs_colour (cs_clear_displays c) = cs_colour c
  /\ cs_ext (cs_clear_displays c) = cs_ext c /\ cs_text (cs_clear_displays c) = None /\ cs_gfx (cs_clear_displays c) = None.
Proof. intros c. repeat split. Qed.
