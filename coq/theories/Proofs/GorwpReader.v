(* C19 — the reader: independence of segmentation, frames and lines are delivered exactly as the
   spec says, nothing is delivered at or after the first fault. *)
From RP Require Import Lib.Base Model.Gorwp Spec.Gorwp Proofs.ListZ.
From Coq Require Import Lia ZifyBool.
Ltac Zify.zify_post_hook ::= Z.div_mod_to_equations.

Section R.
  Variable unm : bytes -> omsg.
  Variable dec : bytes -> list omsg.

  Notation rbyte := (rbyte unm dec).
  Notation rbytes := (rbytes unm dec).
  Notation rstep := (rstep unm dec).
  Notation reader_run := (reader_run unm dec).
  Notation deliver_bin := (deliver_bin unm).
  Notation deliver_line := (deliver_line dec).

  (* ---------------------------------------------------------------- segmentation *)
  Lemma rbytes_app : forall a b st,
    rbytes st (a ++ b) =
    (fst (rbytes (fst (rbytes st a)) b), snd (rbytes st a) ++ snd (rbytes (fst (rbytes st a)) b)).
  Proof.
    induction a as [|c a IH]; intros.
    - cbn. destruct (rbytes st b); reflexivity.
    - cbn [app Gorwp.rbytes]. destruct (rbyte st c) as [st1 d1]. rewrite IH.
      destruct (rbytes st1 a) as [st2 d2]. cbn [fst snd].
      destruct (rbytes st2 b) as [st3 d3]. cbn [fst snd]. rewrite app_assoc. reflexivity.
  Qed.

  (* the reader on the byte-level view of a script *)
  Definition bev_step (st : rstate) (e : bev) : rstate * list delivery :=
    match e with
    | BByte c => rbyte st c
    | BStall => rstep st RStall
    | BClose => rstep st RClose
    end.
  Fixpoint bev_run (st : rstate) (l : list bev) : rstate * list delivery :=
    match l with
    | [] => (st, [])
    | e :: r => let '(st1, d1) := bev_step st e in let '(st2, d2) := bev_run st1 r in (st2, d1 ++ d2)
    end.

  Lemma bev_run_app : forall a b st,
    bev_run st (a ++ b) =
    (fst (bev_run (fst (bev_run st a)) b), snd (bev_run st a) ++ snd (bev_run (fst (bev_run st a)) b)).
  Proof.
    induction a as [|c a IH]; intros.
    - cbn. destruct (bev_run st b); reflexivity.
    - cbn [app bev_run]. destruct (bev_step st c) as [st1 d1]. rewrite IH.
      destruct (bev_run st1 a) as [st2 d2]. cbn [fst snd].
      destruct (bev_run st2 b) as [st3 d3]. cbn [fst snd]. rewrite app_assoc. reflexivity.
  Qed.

  Lemma bev_run_bytes : forall bs st, bev_run st (map BByte bs) = rbytes st bs.
  Proof.
    induction bs as [|c bs IH]; intros; [reflexivity|].
    cbn [map bev_run bev_step Gorwp.rbytes]. destruct (rbyte st c) as [st1 d1]. rewrite IH. reflexivity.
  Qed.

  Lemma reader_run_bevs : forall ins st, reader_run st ins = bev_run st (bevs_of ins).
  Proof.
    induction ins as [|i ins IH]; intros; [reflexivity|].
    cbn [Gorwp.reader_run]. unfold bevs_of. cbn [flat_map]. fold (bevs_of ins).
    rewrite bev_run_app. rewrite <- IH.
    destruct i; cbn [Gorwp.rstep].
    - rewrite bev_run_bytes. destruct (rbytes st bs) as [st1 d1]. cbn [fst snd].
      destruct (reader_run st1 ins); reflexivity.
    - cbn [bev_run bev_step Gorwp.rstep fst snd]. rewrite app_nil_r.
      destruct (reader_run (match st with RPay _ _ => RDead | _ => st end) ins); reflexivity.
    - cbn [bev_run bev_step Gorwp.rstep fst snd].
      destruct (reader_run RDead ins); reflexivity.
  Qed.

  (* any two scripts with the same byte/stall/close sequence — i.e. any two segmentations — read the same *)
  Lemma framing_segmentation : forall ins ins' st,
    bevs_of ins = bevs_of ins' -> reader_run st ins = reader_run st ins'.
  Proof. intros. rewrite !reader_run_bevs. congruence. Qed.

  Lemma reader_run_app : forall a b st,
    reader_run st (a ++ b) =
    (fst (reader_run (fst (reader_run st a)) b), snd (reader_run st a) ++ snd (reader_run (fst (reader_run st a)) b)).
  Proof. intros. rewrite !reader_run_bevs. unfold bevs_of. rewrite flat_map_app. apply bev_run_app. Qed.

  (* ---------------------------------------------------------------- once dead, nothing *)
  Lemma rbytes_dead : forall bs, rbytes RDead bs = (RDead, []).
  Proof. induction bs; [reflexivity|]. cbn. rewrite IHbs. reflexivity. Qed.

  Lemma reader_run_dead : forall ins, reader_run RDead ins = (RDead, []).
  Proof.
    induction ins as [|i ins IH]; [reflexivity|].
    cbn [Gorwp.reader_run]. destruct i; cbn [Gorwp.rstep]; rewrite ?rbytes_dead, IH; reflexivity.
  Qed.

  (* ---------------------------------------------------------------- binary frames *)
  Lemma le32_val_le32 : forall n, 0 <= n < 4294967296 -> le32_val (le32 n) = n.
  Proof. intros n H. unfold le32, le32_val. lia. Qed.

  Lemma hdr_step : forall acc c, zlen acc < 3 -> rbyte (RHdr acc) c = (RHdr (acc ++ [c]), []).
  Proof.
    intros. cbn [Gorwp.rbyte]. rewrite zlen_app. change (zlen [c]) with 1.
    destruct (Z.ltb_spec (zlen acc + 1) 4); [reflexivity|lia].
  Qed.

  Definition after_header (n : Z) : rstate * list delivery :=
    if n <? payload_limit then (if n =? 0 then (RHdr [], deliver_bin []) else (RPay n [], [])) else (RDead, []).

  Lemma hdr_last : forall acc c, zlen acc = 3 -> rbyte (RHdr acc) c = after_header (le32_val (acc ++ [c])).
  Proof.
    intros. cbn [Gorwp.rbyte]. rewrite zlen_app. change (zlen [c]) with 1.
    destruct (Z.ltb_spec (zlen acc + 1) 4); [lia|reflexivity].
  Qed.

  (* a prefix of a header *)
  Lemma hdr_prefix : forall bs acc, zlen acc + zlen bs < 4 -> rbytes (RHdr acc) bs = (RHdr (acc ++ bs), []).
  Proof.
    induction bs as [|c bs IH]; intros.
    - rewrite app_nil_r. reflexivity.
    - rewrite zlen_cons in H. pose proof (zlen_nonneg bs).
      cbn [Gorwp.rbytes]. rewrite hdr_step by lia. rewrite IH by (rewrite zlen_app; change (zlen [c]) with 1; lia).
      rewrite <- app_assoc. reflexivity.
  Qed.

  Lemma hdr_complete : forall h, zlen h = 4 -> rbytes (RHdr []) h = after_header (le32_val h).
  Proof.
    intros h H. destruct h as [|a [|b [|c [|d [|x t]]]]]; try (cbn in H; lia);
      try (pose proof (zlen_nonneg t); rewrite !zlen_cons in H; lia).
    change [a; b; c; d] with ([a; b; c] ++ [d]). rewrite rbytes_app.
    rewrite (hdr_prefix [a; b; c] []) by (cbn; lia). cbn [fst snd app Gorwp.rbytes].
    rewrite (hdr_last [a; b; c] d) by reflexivity. cbn [app].
    destruct (after_header (le32_val [a; b; c; d])). rewrite app_nil_r. reflexivity.
  Qed.

  Lemma pay_partial : forall p need racc, zlen p < need ->
    rbytes (RPay need racc) p = (RPay (need - zlen p) (rev p ++ racc), []).
  Proof.
    induction p as [|c p IH]; intros.
    - cbn. f_equal. f_equal. change (zlen []) with 0. lia.
    - rewrite zlen_cons in *. pose proof (zlen_nonneg p).
      cbn [Gorwp.rbytes Gorwp.rbyte]. destruct (Z.leb_spec need 1); [lia|].
      rewrite IH by lia. cbn [rev]. rewrite <- app_assoc. cbn [app]. f_equal. f_equal. lia.
  Qed.

  Lemma pay_complete : forall p need racc, zlen p = need -> 0 < need ->
    rbytes (RPay need racc) p = (RHdr [], deliver_bin (rev racc ++ p)).
  Proof.
    induction p as [|c p IH]; intros.
    - change (zlen []) with 0 in H. lia.
    - rewrite zlen_cons in *. pose proof (zlen_nonneg p).
      cbn [Gorwp.rbytes Gorwp.rbyte]. destruct (Z.leb_spec need 1).
      + assert (zlen p = 0) by lia. destruct p; [|rewrite zlen_cons in *; pose proof (zlen_nonneg p); lia].
        cbn [Gorwp.rbytes]. rewrite app_nil_r. rewrite <- rev_alt. cbn [rev]. reflexivity.
      + rewrite IH by lia. cbn [rev]. rewrite <- app_assoc. reflexivity.
  Qed.

  (* a whole legal frame from the between-frames state *)
  Lemma frame_whole : forall p, zlen p < payload_limit ->
    rbytes (RHdr []) (le32 (zlen p) ++ p) = (RHdr [], deliver_bin p).
  Proof.
    intros p H. pose proof (zlen_nonneg p). unfold payload_limit in H.
    rewrite rbytes_app. rewrite hdr_complete by reflexivity.
    rewrite le32_val_le32 by lia. unfold after_header.
    destruct (Z.ltb_spec (zlen p) payload_limit); [|unfold payload_limit in *; lia].
    destruct (Z.eqb_spec (zlen p) 0) as [E|E].
    - destruct p; [|rewrite zlen_cons in E; pose proof (zlen_nonneg p); lia]. cbn [fst snd Gorwp.rbytes]. rewrite app_nil_r. reflexivity.
    - cbn [fst snd]. rewrite pay_complete by lia. reflexivity.
  Qed.

  Lemma over_header : forall n, payload_limit <= n < 4294967296 -> rbytes (RHdr []) (le32 n) = (RDead, []).
  Proof.
    intros n H. rewrite hdr_complete by reflexivity. rewrite le32_val_le32 by (unfold payload_limit in *; lia).
    unfold after_header. destruct (Z.ltb_spec n payload_limit); [lia|reflexivity].
  Qed.

  (* the state after the first k bytes of a legal frame: inside the header, inside the payload, or done *)
  Lemma firstn_app_le : forall {A} (a b : list A) n, (n <= length a)%nat -> firstn n (a ++ b) = firstn n a.
  Proof. intros. rewrite firstn_app. replace (n - length a)%nat with 0%nat by lia. cbn. apply app_nil_r. Qed.

  Lemma zlen_firstn : forall {A} (l : list A) n, (n <= length l)%nat -> zlen (firstn n l) = Z.of_nat n.
  Proof. intros. unfold zlen. rewrite firstn_length. lia. Qed.

  Lemma frame_prefix_state : forall p k, zlen p < payload_limit -> (k <= length (le32 (zlen p) ++ p))%nat ->
    let w := le32 (zlen p) ++ p in
    let st := fst (rbytes (RHdr []) (firstn k w)) in
    snd (rbytes (RHdr []) (firstn k w)) = (if Z.of_nat k <? 4 + zlen p then [] else deliver_bin p) /\
    (Z.of_nat k < 4 -> st = RHdr (firstn k w)) /\
    (4 <= Z.of_nat k < 4 + zlen p -> exists need racc, st = RPay need racc) /\
    (Z.of_nat k = 4 + zlen p -> st = RHdr []).
  Proof.
    intros p k Hp Hk w st. subst w st. pose proof (zlen_nonneg p).
    assert (L4 : length (le32 (zlen p)) = 4%nat) by reflexivity.
    rewrite app_length, L4 in Hk.
    destruct (Z.ltb_spec (Z.of_nat k) 4) as [K4|K4].
    - (* inside the header *)
      rewrite firstn_app_le by lia.
      rewrite hdr_prefix by (cbn [zlen length app]; rewrite zlen_firstn by lia; change (zlen []) with 0; lia).
      cbn [fst snd app]. destruct (Z.ltb_spec (Z.of_nat k) (4 + zlen p)); [|lia].
      repeat split; intros; try lia; try reflexivity.
    - rewrite firstn_app. rewrite firstn_all2 by lia.
      rewrite rbytes_app, hdr_complete by reflexivity.
      rewrite le32_val_le32 by (unfold payload_limit in *; lia). unfold after_header.
      destruct (Z.ltb_spec (zlen p) payload_limit); [|lia].
      rewrite L4.
      destruct (Z.eqb_spec (zlen p) 0) as [E|E].
      + destruct p; [|rewrite zlen_cons in E; pose proof (zlen_nonneg p); lia].
        change (zlen []) with 0 in *. cbn [fst snd]. rewrite firstn_nil. cbn [Gorwp.rbytes fst snd]. rewrite app_nil_r.
        destruct (Z.ltb_spec (Z.of_nat k) (4 + 0)); [lia|].
        repeat split; intros; try lia; try reflexivity.
      + cbn [fst snd app].
        destruct (Z.ltb_spec (Z.of_nat k) (4 + zlen p)) as [KL|KL].
        * rewrite pay_partial by (rewrite zlen_firstn by (unfold zlen in *; lia); lia).
          cbn [fst snd]. repeat split; intros; try lia; eauto.
        * assert (k - 4 = length p)%nat by (unfold zlen in *; lia).
          rewrite firstn_all2 by lia. rewrite pay_complete by lia. cbn [fst snd rev app].
          repeat split; intros; try lia; try reflexivity.
  Qed.

  (* ---------------------------------------------------------------- ASCII lines *)
  Lemma line_partial : forall l racc, existsb (Z.eqb 10) l = false ->
    rbytes (RLine racc) l = (RLine (rev l ++ racc), []).
  Proof.
    induction l as [|c l IH]; intros; [reflexivity|].
    cbn [existsb] in H. apply orb_false_elim in H as [H1 H2].
    cbn [Gorwp.rbytes Gorwp.rbyte]. rewrite Z.eqb_sym in H1. rewrite H1.
    rewrite IH by assumption. cbn [rev]. rewrite <- app_assoc. reflexivity.
  Qed.

  Lemma trim_left_app_space : forall s c, is_space c = true ->
    trim_left (s ++ [c]) = match trim_left s with [] => [] | t => t ++ [c] end.
  Proof.
    induction s as [|a s IH]; intros.
    - cbn. rewrite H. reflexivity.
    - cbn [app trim_left]. destruct (is_space a); [apply IH; assumption|]. reflexivity.
  Qed.

  Lemma trim_space_snoc_space : forall s c, is_space c = true -> trim_space (s ++ [c]) = trim_space s.
  Proof.
    intros. unfold trim_space. rewrite <- !rev_alt. rewrite trim_left_app_space by assumption.
    destruct (trim_left s) as [|a t] eqn:E; [reflexivity|].
    rewrite rev_app_distr. cbn [rev app trim_left]. rewrite H. reflexivity.
  Qed.

  Lemma rbytes_cons : forall st c r,
    rbytes st (c :: r) = (fst (rbytes (fst (rbyte st c)) r), snd (rbyte st c) ++ snd (rbytes (fst (rbyte st c)) r)).
  Proof. intros. cbn [Gorwp.rbytes]. destruct (rbyte st c) as [st1 d1]. cbn [fst snd]. destruct (rbytes st1 r); reflexivity. Qed.

  Lemma rbyte_line_lf : forall racc, rbyte (RLine racc) 10 = (RLine [], deliver_line (rev_append racc [])).
  Proof. reflexivity. Qed.
  Lemma rbyte_line_cr : forall racc, rbyte (RLine racc) 13 = (RLine (13 :: racc), []).
  Proof. reflexivity. Qed.

  Lemma line_whole : forall l (crlf : bool), existsb (Z.eqb 10) l = false ->
    rbytes (RLine []) (l ++ (if crlf then [13; 10] else [10])) =
    (RLine [], if bytes_eqb (trim_space l) ack_line then [] else [dec (trim_space l)]).
  Proof.
    intros l crlf H. rewrite rbytes_app, line_partial by assumption. cbn [fst snd app]. rewrite app_nil_r.
    destruct crlf.
    - rewrite !rbytes_cons, rbyte_line_cr. cbn [fst snd]. rewrite rbyte_line_lf. cbn [fst snd app Gorwp.rbytes].
      rewrite app_nil_r. rewrite <- rev_alt. cbn [rev]. rewrite rev_involutive.
      unfold Gorwp.deliver_line. rewrite trim_space_snoc_space by reflexivity. reflexivity.
    - rewrite !rbytes_cons, rbyte_line_lf. cbn [fst snd app Gorwp.rbytes].
      rewrite app_nil_r. rewrite <- rev_alt. rewrite rev_involutive. reflexivity.
  Qed.

  (* ---------------------------------------------------------------- items *)
  Definition is_rpay (st : rstate) : bool := match st with RPay _ _ => true | _ => false end.

  (* a pause splits the bytes in two; it matters only if the reader is inside a payload at that moment *)
  Lemma with_pause_run : forall w pause st,
    reader_run st (with_pause w pause) =
    match pause with
    | None => rbytes st w
    | Some k =>
      let '(st1, d1) := rbytes st (firstn (Z.to_nat k) w) in
      if is_rpay st1 then (RDead, d1) else rbytes st w
    end.
  Proof.
    intros. destruct pause as [k|]; cbn [with_pause Gorwp.reader_run Gorwp.rstep].
    - assert (E : rbytes st w = rbytes st (firstn (Z.to_nat k) w ++ skipn (Z.to_nat k) w)) by (rewrite firstn_skipn; reflexivity).
      rewrite E, rbytes_app.
      destruct (rbytes st (firstn (Z.to_nat k) w)) as [st1 d1]. cbn [fst snd].
      destruct st1; cbn [is_rpay]; try (destruct (rbytes _ (skipn (Z.to_nat k) w)); rewrite app_nil_r; reflexivity).
      rewrite rbytes_dead. rewrite !app_nil_r. reflexivity.
    - destruct (rbytes st w). rewrite app_nil_r. reflexivity.
  Qed.

  Lemma frame_item : forall p pause, zlen p < frame_limit ->
    reader_run (RHdr []) (wire_of (IFrame p pause)) =
    if pause_breaks (zlen p) pause then (RDead, []) else (RHdr [], deliver_bin p).
  Proof.
    intros p pause Hp. change frame_limit with payload_limit in Hp.
    cbn [wire_of wire_bytes]. rewrite with_pause_run.
    destruct pause as [k|]; [|cbn [pause_breaks]; apply frame_whole; assumption].
    set (w := le32 (zlen p) ++ p). pose proof (zlen_nonneg p).
    assert (LW : length w = (4 + length p)%nat) by (subst w; rewrite app_length; reflexivity).
    destruct (Nat.le_gt_cases (Z.to_nat k) (length w)) as [Hk|Hk].
    - pose proof (frame_prefix_state p (Z.to_nat k) Hp Hk) as (D & S1 & S2 & S3). fold w in D, S1, S2, S3.
      destruct (rbytes (RHdr []) (firstn (Z.to_nat k) w)) as [st1 d1] eqn:E. cbn [fst snd] in *.
      unfold pause_breaks.
      destruct (Z.leb_spec 4 k) as [K4|K4]; cbn [andb].
      + rewrite Z2Nat.id in * by lia.
        destruct (Z.ltb_spec k (4 + zlen p)) as [KL|KL].
        * destruct S2 as (need & racc & ->); [lia|]. cbn [is_rpay]. subst d1. reflexivity.
        * assert (k = 4 + zlen p) by (unfold zlen in *; lia). rewrite S3 by assumption. cbn [is_rpay]. apply frame_whole; assumption.
      + assert (Z.of_nat (Z.to_nat k) < 4) by lia. rewrite S1 by assumption. cbn [is_rpay]. apply frame_whole; assumption.
    - rewrite firstn_all2 by lia. unfold w. rewrite frame_whole by assumption. cbn [is_rpay].
      unfold pause_breaks. destruct (Z.leb_spec 4 k); cbn [andb]; [|reflexivity].
      destruct (Z.ltb_spec k (4 + zlen p)); [unfold zlen in *; lia|reflexivity].
  Qed.

  Lemma rbytes_rline_not_pay : forall bs racc, is_rpay (fst (rbytes (RLine racc) bs)) = false.
  Proof.
    induction bs as [|c bs IH]; intros; [reflexivity|].
    cbn [Gorwp.rbytes Gorwp.rbyte]. destruct (c =? 10).
    - specialize (IH []). destruct (rbytes (RLine []) bs). exact IH.
    - specialize (IH (c :: racc)). destruct (rbytes (RLine (c :: racc)) bs). exact IH.
  Qed.

  Lemma line_item : forall l crlf pause, existsb (Z.eqb 10) l = false ->
    reader_run (RLine []) (wire_of (ILine l crlf pause)) =
    (RLine [], if bytes_eqb (trim_space l) ack_line then [] else [dec (trim_space l)]).
  Proof.
    intros. cbn [wire_of wire_bytes]. rewrite with_pause_run.
    destruct pause as [k|]; [|apply line_whole; assumption].
    pose proof (rbytes_rline_not_pay (firstn (Z.to_nat k) (l ++ (if crlf then [13; 10] else [10]))) []) as NP.
    destruct (rbytes (RLine []) (firstn (Z.to_nat k) _)) as [st1 d1]. cbn [fst] in NP. rewrite NP.
    apply line_whole; assumption.
  Qed.

  Lemma trunc_bin : forall bs, trunc_wf true bs = true ->
    snd (rbytes (RHdr []) bs) = [].
  Proof.
    intros bs H. unfold trunc_wf in H. pose proof (zlen_nonneg bs).
    destruct (Z.ltb_spec (zlen bs) 4) as [L|L].
    - rewrite hdr_prefix by (change (zlen []) with 0; lia). reflexivity.
    - cbn [orb] in H. apply andb_prop in H as [H1 H2]. apply Z.ltb_lt in H1, H2.
      rewrite <- (firstn_skipn 4 bs) at 1. rewrite rbytes_app.
      assert (L4 : zlen (firstn 4 bs) = 4) by (rewrite zlen_firstn; unfold zlen in *; lia).
      rewrite hdr_complete by assumption. unfold after_header.
      change frame_limit with payload_limit in H1.
      destruct (Z.ltb_spec (le32_val (firstn 4 bs)) payload_limit); [|lia].
      assert (LS : zlen (skipn 4 bs) = zlen bs - 4) by (unfold zlen; rewrite skipn_length; unfold zlen in *; lia).
      destruct (Z.eqb_spec (le32_val (firstn 4 bs)) 0); [lia|].
      cbn [fst snd app]. rewrite pay_partial by lia. reflexivity.
  Qed.

  (* ---------------------------------------------------------------- the whole history *)
  Lemma reader_run_cons_app : forall a b st,
    reader_run st (a ++ b) =
    (let '(st1, d1) := reader_run st a in let '(st2, d2) := reader_run st1 b in (st2, d1 ++ d2)).
  Proof.
    intros. rewrite reader_run_app. destruct (reader_run st a) as [st1 d1]. cbn [fst snd].
    destruct (reader_run st1 b); reflexivity.
  Qed.

  (* For every history of well-formed items: the reader delivers exactly what the spec says is to be
     dispatched, stops (RDead) exactly when the spec sees a fault, and is between frames otherwise. *)
  Lemma reader_items : forall binary items,
    forallb (citem_wf binary) items = true ->
    reader_run (rinit binary) (flat_map wire_of items) =
    ((if snd (to_dispatch unm dec items) then RDead else rinit binary), fst (to_dispatch unm dec items)).
  Proof.
    intros binary. induction items as [|it items IH]; intros W; [reflexivity|].
    cbn [forallb] in W. apply andb_prop in W as [W1 W2]. specialize (IH W2).
    cbn [flat_map]. rewrite reader_run_cons_app.
    destruct it as [p pause|l crlf pause|n|bs|]; cbn [citem_wf] in W1.
    - (* frame *)
      apply andb_prop in W1 as [B L]. subst binary. apply Z.ltb_lt in L. cbn [rinit] in *.
      rewrite frame_item by assumption. cbn [to_dispatch].
      destruct (pause_breaks (zlen p) pause).
      + rewrite reader_run_dead. reflexivity.
      + rewrite IH. destruct (to_dispatch unm dec items) as [ds f]. cbn [fst snd].
        unfold Gorwp.deliver_bin. destruct (m_flow (unm p) =? 2); reflexivity.
    - (* line *)
      apply andb_prop in W1 as [B L]. destruct binary; [discriminate|]. apply negb_true_iff in L. cbn [rinit] in *.
      rewrite line_item by assumption. rewrite IH. cbn [to_dispatch].
      destruct (to_dispatch unm dec items) as [ds f]. cbn [fst snd].
      destruct (bytes_eqb (trim_space l) ack_line); reflexivity.
    - (* over-limit header *)
      apply andb_prop in W1 as [W1 U]. apply andb_prop in W1 as [B L]. subst binary.
      apply Z.leb_le in L. apply Z.ltb_lt in U. change frame_limit with payload_limit in L.
      cbn [rinit wire_of wire_bytes Gorwp.reader_run Gorwp.rstep]. rewrite over_header by lia.
      rewrite reader_run_dead. reflexivity.
    - (* truncated, then closed *)
      cbn [wire_of Gorwp.reader_run Gorwp.rstep to_dispatch fst snd].
      assert (D : snd (rbytes (rinit binary) bs) = []).
      { destruct binary; cbn [rinit].
        - apply trunc_bin; assumption.
        - unfold trunc_wf in W1. apply negb_true_iff in W1. rewrite line_partial by assumption. reflexivity. }
      destruct (rbytes (rinit binary) bs) as [st1 d1]. cbn [snd] in D. subst d1.
      rewrite reader_run_dead. reflexivity.
    - cbn [wire_of Gorwp.reader_run Gorwp.rstep to_dispatch fst snd]. rewrite reader_run_dead. reflexivity.
  Qed.

  (* ... whatever the segmentation *)
  Lemma framing : forall binary items ins,
    forallb (citem_wf binary) items = true ->
    bevs_of ins = bevs_of (flat_map wire_of items) ->
    snd (reader_run (rinit binary) ins) = fst (to_dispatch unm dec items) /\
    (fst (reader_run (rinit binary) ins) = RDead <-> snd (to_dispatch unm dec items) = true).
  Proof.
    intros binary items ins W E. rewrite (framing_segmentation _ _ _ E), reader_items by assumption.
    cbn [fst snd]. split; [reflexivity|].
    destruct (snd (to_dispatch unm dec items)); split; intros; try reflexivity; try discriminate.
    destruct binary; discriminate.
  Qed.

  (* nothing from the items after the first fault is ever delivered *)
  Lemma to_dispatch_stops : forall a b, snd (to_dispatch unm dec a) = true ->
    to_dispatch unm dec (a ++ b) = to_dispatch unm dec a.
  Proof.
    induction a as [|it a IH]; intros b H; [discriminate|].
    destruct it as [p pause|l crlf pause|n|bs|]; cbn [app to_dispatch] in *; try reflexivity.
    - destruct (pause_breaks (zlen p) pause); [reflexivity|].
      destruct (to_dispatch unm dec a) as [ds f] eqn:E. cbn [snd] in H. subst f.
      rewrite IH by reflexivity. reflexivity.
    - destruct (to_dispatch unm dec a) as [ds f] eqn:E. cbn [snd] in H. subst f.
      rewrite IH by reflexivity. reflexivity.
  Qed.

  (* a fault anywhere in the history: what was delivered is what preceded it; the reader has stopped *)
  Lemma nothing_after_fault : forall binary a b ins,
    forallb (citem_wf binary) (a ++ b) = true ->
    snd (to_dispatch unm dec a) = true ->
    bevs_of ins = bevs_of (flat_map wire_of (a ++ b)) ->
    snd (reader_run (rinit binary) ins) = fst (to_dispatch unm dec a) /\
    fst (reader_run (rinit binary) ins) = RDead.
  Proof.
    intros binary a b ins W F E. destruct (framing binary (a ++ b) ins W E) as [D S].
    rewrite to_dispatch_stops in D, S by assumption. split; [assumption|]. apply S. assumption.
  Qed.
End R.
