(* C01, graphics: the lines the encoder writes for an image and one target id are, for the
   reference reader, chunks 0..T-1 of one transfer; read from ANY panel and tracker state they
   put exactly that image on that component and leave the tracker idle. *)
From RP Require Import Lib.Base Lib.Sexp Lib.Strings Lib.B64 Model.Gfx Model.MsgIn Model.EncIn
  Spec.DenoteIn Spec.GrammarIn Proofs.GfxNum Proofs.GfxB64 Proofs.GfxMatch Proofs.GfxClean Proofs.StringsProofs
  Proofs.InBits Proofs.InEncLines Proofs.InEncText Proofs.InGfx.
From Coq Require Import String ZifyBool.
Open Scope string_scope.
Open Scope list_scope.
Open Scope Z_scope.

Lemma firstn_plus {A} : forall a b (l : list A), firstn a l ++ firstn b (skipn a l) = firstn (a + b) l.
Proof.
  induction a as [|a IH]; intros b l; [reflexivity|]. destruct l as [|x l]; [destruct b; reflexivity|].
  cbn [firstn skipn plus app]. rewrite IH. reflexivity.
Qed.

Lemma rep_gfx_facts g : rep_gfx g = true ->
  (hg_type g = 0 \/ hg_type g = 1 \/ hg_type g = 2) /\ 0 <= hg_w g < two32 /\ 0 <= hg_h g < two32 /\
  0 <= hg_x g < two32 /\ 0 <= hg_y g < two32 /\ hg_data g <> [] /\ bytes_ok (hg_data g) = true /\
  zlen (hg_data g) < 9007199254740992.
Proof.
  unfold rep_gfx. intros H. do 7 (apply andb_true_iff in H; destruct H as [H ?]).
  apply in_range_iff in H. apply is_u32_range in H6, H5, H4, H3.
  repeat split; try lia; try assumption.
  - destruct (hg_data g); discriminate.
  - unfold zlen. lia.
Qed.

Section GfxLines.
  Variable js : list Z -> HWCState.
  Variable jm : list Z -> list (option InboundMessage).
  Variable ncp : list Z -> option (list Z).
  Notation in_rd := (in_read js jm ncp).
  Notation sem := (sem_in_lines js jm ncp).
  Ltac lookup := first [reflexivity | vm_compute; reflexivity].

  Variable g : HWCGfx.
  Variable id : Z.
  Hypothesis Rg : rep_gfx g = true.
  Hypothesis Hid : is_u32 id = true.

  Let ty := hg_type g.
  Let data := hg_data g.
  Let T := total_lines (zlen data).
  Let off := if hg_xy g then Some (hg_x g, hg_y g) else None.

  Definition ck (k : Z) : chunk :=
    mkChunk ty (itoa id) [id] k (if k =? 0 then Some (T - 1, hg_w g, hg_h g, off) else None) (chunk_data data k).

  Lemma T_bounds : 1 <= T /\ 170 * (T - 1) < zlen data <= 170 * T.
  Proof.
    destruct (rep_gfx_facts g Rg) as (_ & _ & _ & _ & _ & NE & _ & _).
    assert (0 < zlen data). { unfold zlen, data. destruct (hg_data g); [congruence|cbn; lia]. }
    destruct (total_lines_bounds (zlen data) ltac:(lia)) as [B|[B _]]; [|lia]. fold T in B. lia.
  Qed.

  Lemma chunk_line_read k : 0 <= k < T ->
    in_rd (chunk_line (to_gfx g) id T k) = Wf (LChunk (ck k)).
  Proof.
    intros Hk. destruct (rep_gfx_facts g Rg) as (HT & Hw & Hh & Hx & Hy & NE & BO & LN).
    pose proof T_bounds as [T1 [TB _]]. apply is_u32_range in Hid. fold data in LN.
    assert (TS : T < 9007199254740992) by lia.
    assert (CS : cmd_string (g_type (to_gfx g)) ++ str "#" = cmd_of ty).
    { unfold to_gfx, cmd_string, cmd_of, ty. cbn [g_type]. destruct HT as [->|[->| ->]]; reflexivity. }
    rewrite (chunk_line_render (to_gfx g) id T k (cmd_of ty) CS). unfold render. change (g_data (to_gfx g)) with data.
    assert (BD : bytes_ok (chunk_data data k) = true) by (unfold chunk_data; apply bytes_ok_firstn, bytes_ok_skipn, BO).
    assert (RC : rd_chunk ty (itoa id ++ [61] ++ itoa k ++ render_hdr (if k =? 0 then enc_adv (to_gfx g) T else None) ++ [58] ++ b64_encode (chunk_data data k))
                 = Some (LChunk (ck k))).
    { rewrite (rd_chunk_render ty (itoa id) [id] (itoa k) k _ (if k =? 0 then Some (T - 1, hg_w g, hg_h g, off) else None)).
      - rewrite b64_roundtrip by exact BD. reflexivity.
      - apply rd_ids_single. unfold is_u32. apply in_range_iff. unfold two32 in Hid. lia.
      - apply rd_nat_lt_itoa. unfold two63. lia.
      - destruct (k =? 0); [|reflexivity]. unfold enc_adv, adv_vals, to_gfx. cbn [g_w g_h g_xy g_x g_y].
        rewrite (rd_nat_lt_itoa two63) by (unfold two63; lia). rewrite !(rd_nat_lt_itoa two32) by lia.
        unfold off. destruct (hg_xy g); [rewrite !(rd_nat_lt_itoa two32) by lia|]; reflexivity.
      - destruct (k =? 0) eqn:K0; [lia|congruence].
      - rewrite b64_roundtrip by exact BD. apply bytes_eqb_refl. }
    assert (NL : nolf (itoa id ++ [61] ++ itoa k ++ render_hdr (if k =? 0 then enc_adv (to_gfx g) T else None) ++ [58] ++ b64_encode (chunk_data data k)) = true).
    { rewrite !nolf_app, !nolf_itoa. cbn [nolf forallb andb negb Z.eqb].
      assert (NB : nolf (b64_encode (chunk_data data k)) = true).
      { pose proof (payload_ok_b64 _ BD) as P. unfold payload_ok, contains_byte in P. apply existsb_nolf.
        destruct (existsb (Z.eqb 10) (b64_encode (chunk_data data k))); [discriminate|reflexivity]. }
      rewrite NB. rewrite andb_true_r.
      destruct (k =? 0); [|reflexivity]. unfold enc_adv, render_hdr. rewrite !nolf_app, !nolf_itoa. cbn [nolf forallb andb negb Z.eqb].
      destruct (g_xy (to_gfx g)); [rewrite !nolf_app, !nolf_itoa|]; reflexivity. }
    destruct HT as [E|[E|E]]; unfold cmd_of; fold ty in E; rewrite E in *; cbn [Z.eqb Pos.eqb].
    - rewrite (in_read_prefixed js jm ncp (str "HWCg#") (rd_chunk 0)); [rewrite RC; reflexivity|lookup|lookup|exact NL].
    - rewrite (in_read_prefixed js jm ncp (str "HWCgRGB#") (rd_chunk 1)); [rewrite RC; reflexivity|lookup|lookup|exact NL].
    - rewrite (in_read_prefixed js jm ncp (str "HWCgGray#") (rd_chunk 2)); [rewrite RC; reflexivity|lookup|lookup|exact NL].
  Qed.

  (* tracker after chunks 0..j-1 (1 <= j <= T-1) *)
  Definition mid (j : nat) : option xfer :=
    Some (mkX ty (itoa id) [id] (Z.of_nat j) (T - 1) (mkImg ty (hg_w g) (hg_h g) off (firstn (170 * j) data))).

  Definition final_panel (p : panel) : panel := apply_eff p (EState [id] (UGfx (den_image g))).

  Lemma den_image_eq : den_image g = mkImg ty (hg_w g) (hg_h g) off data.
  Proof. reflexivity. Qed.

  Lemma data_not_empty_image d : d <> [] -> image_is_empty (mkImg ty (hg_w g) (hg_h g) off d) = false.
  Proof. intros N. unfold image_is_empty. cbn [i_data]. destruct d; [congruence|]. rewrite !andb_false_r. reflexivity. Qed.

  Lemma chunk_data_step (j : nat) : firstn (170 * j) data ++ chunk_data data (Z.of_nat j) = firstn (170 * Datatypes.S j) data.
  Proof.
    rewrite chunk_data_nat. rewrite firstn_plus. f_equal. lia.
  Qed.

  Lemma firstn_all_T : firstn (170 * Z.to_nat T) data = data.
  Proof.
    pose proof T_bounds as [T1 [_ B]]. apply firstn_all2. unfold zlen in B. lia.
  Qed.

  Lemma firstn_nonempty (n : nat) : (0 < n)%nat -> firstn n data <> [].
  Proof.
    destruct (rep_gfx_facts g Rg) as (_ & _ & _ & _ & _ & NE & _ & _). fold data in NE.
    destruct n; [lia|]. destruct data; [congruence|]. discriminate.
  Qed.

  (* one middle or final chunk *)
  Lemma step_mid (j : nat) p : (1 <= j)%nat -> Z.of_nat j < T ->
    step_chunk p (mid j) (ck (Z.of_nat j)) =
    if Z.of_nat j =? T - 1 then (final_panel p, None) else (p, mid (Datatypes.S j)).
  Proof.
    intros J1 JT. unfold step_chunk, mid, ck.
    cbn [ck_index ck_type ck_ids ck_targets ck_header ck_data x_type x_ids x_targets x_next x_last x_img i_type i_w i_h i_off i_data].
    destruct (Z.of_nat j =? 0) eqn:J0; [lia|].
    cbn [x_type x_ids x_targets x_next x_last x_img i_type i_w i_h i_off i_data].
    rewrite Z.eqb_refl, bytes_eqb_refl. cbn [andb]. rewrite Z.eqb_refl.
    rewrite chunk_data_step.
    destruct (Z.of_nat j =? T - 1) eqn:JL.
    - replace (Datatypes.S j) with (Z.to_nat T) by lia. rewrite firstn_all_T.
      rewrite data_not_empty_image by (destruct (rep_gfx_facts g Rg) as (_ & _ & _ & _ & _ & NE & _ & _); exact NE).
      reflexivity.
    - unfold mid. do 3 f_equal. lia.
  Qed.

  Lemma step_first p x :
    step_chunk p x (ck 0) = if 0 =? T - 1 then (final_panel p, None) else (p, mid 1).
  Proof.
    unfold step_chunk, ck.
    cbn [ck_index ck_type ck_ids ck_targets ck_header ck_data].
    change (0 =? 0) with true. cbv iota.
    cbn [x_type x_ids x_targets x_next x_last x_img i_type i_w i_h i_off i_data].
    rewrite Z.eqb_refl, bytes_eqb_refl. cbn [andb]. change (0 =? 0) with true. cbv iota. cbn [app].
    pose proof (chunk_data_step 0) as CD. change (170 * 0)%nat with 0%nat in CD. cbn [firstn app] in CD. change (Z.of_nat 0) with 0 in CD.
    destruct (0 =? T - 1) eqn:TL.
    - assert (T = 1) by lia. rewrite CD. replace (170 * 1)%nat with (170 * Z.to_nat T)%nat by lia.
      rewrite firstn_all_T. rewrite data_not_empty_image by (destruct (rep_gfx_facts g Rg) as (_ & _ & _ & _ & _ & NE & _ & _); exact NE).
      reflexivity.
    - unfold mid. rewrite CD. reflexivity.
  Qed.

  Lemma run_tail : forall (m j : nat) p, (1 <= j)%nat -> (j + m = Z.to_nat T)%nat ->
    sem (p, mid j) (map (fun k => chunk_line (to_gfx g) id T (Z.of_nat k)) (seq j m)) =
    if (m =? 0)%nat then (p, mid j) else (final_panel p, None).
  Proof.
    induction m as [|m IH]; intros j p J1 JM; [reflexivity|].
    cbn [seq map]. unfold sem_in_lines. cbn [fold_left]. unfold sem_in_line at 2.
    rewrite chunk_line_read by lia. cbn [fst snd].
    rewrite step_mid by lia.
    destruct (Z.of_nat j =? T - 1) eqn:JL.
    - assert (m = 0)%nat by lia. subst m. reflexivity.
    - fold (sem (p, mid (Datatypes.S j)) (map (fun k => chunk_line (to_gfx g) id T (Z.of_nat k)) (seq (Datatypes.S j) m))).
      rewrite (IH (Datatypes.S j) p) by lia. destruct m; [lia|reflexivity].
  Qed.

  Theorem gfx_run p x : sem (p, x) (gfx_lines (to_gfx g) id) = (final_panel p, None).
  Proof.
    pose proof T_bounds as [T1 _].
    unfold gfx_lines. change (g_data (to_gfx g)) with data. fold T.
    destruct (Z.to_nat T) as [|n] eqn:NT; [lia|]. cbn [seq map].
    unfold sem_in_lines. cbn [fold_left]. unfold sem_in_line at 2.
    change (Z.of_nat 0) with 0. rewrite chunk_line_read by lia. cbn [fst snd]. rewrite step_first.
    destruct (0 =? T - 1) eqn:TL.
    - assert (n = 0)%nat by lia. subst n. reflexivity.
    - fold (sem (p, mid 1) (map (fun k => chunk_line (to_gfx g) id T (Z.of_nat k)) (seq 1 n))).
      rewrite (run_tail n 1 p) by lia. destruct n; [lia|reflexivity].
  Qed.

  Lemma gfx_lines_wf : Forall (fun l => wf_in_line js jm ncp l = true) (gfx_lines (to_gfx g) id).
  Proof.
    unfold gfx_lines. change (g_data (to_gfx g)) with data. fold T. apply Forall_forall. intros l Hl.
    apply in_map_iff in Hl. destruct Hl as (k & <- & Hk). apply in_seq in Hk.
    unfold wf_in_line. rewrite chunk_line_read by lia. reflexivity.
  Qed.
End GfxLines.
