(* safety_stream: for EVERY history of lines fed through ASCIIreader.Parse from the zero value,
   with or without the JSON round trip between lines. *)
From RP Require Import Lib.Base Lib.Sexp Lib.Strings Lib.Utf8 Lib.B64 Lib.TrimSpace Model.Gfx Spec.Transfer
  Proofs.GfxNum Proofs.GfxMatch Proofs.GfxBatch Proofs.GfxSpecLemmas Proofs.GfxStream Proofs.GfxSafety.
From Coq Require Import ZifyBool.
Open Scope Z_scope.
Open Scope list_scope.

Lemma tail_run_snoc cmd lst : forall i k ls d s sm,
  tail_run cmd lst i k ls d -> is_chunk cmd lst (k + 1) s sm -> i <= k ->
  tail_run cmd lst i (k + 1) (ls ++ [s]) (d ++ b64_decode (sm_payload sm)).
Proof.
  intros i k ls d s sm H. induction H as [N | i N l sm' r d Hlt Hc Hr IH]; intros Hs Hle; cbn [app].
  - rewrite <- (app_nil_r (b64_decode (sm_payload sm))). apply tr_cons; [lia | exact Hs | constructor].
  - rewrite <- app_assoc. apply tr_cons; [lia | exact Hc | apply IH; [exact Hs | lia]].
Qed.

Lemma tail_run_le cmd lst i k ls d : tail_run cmd lst i k ls d -> i <= k.
Proof. induction 1; lia. Qed.

(* ---- reader invariant ---- *)
Definition RDead (st : reader) : Prop := r_count (init_rule st) = -1.

Definition RLive (hp : list line) (lastd : Z) (st : reader) : Prop :=
  exists a sm0 m dd l0 rest,
    hp = a ++ G (chunk_of_sm sm0) :: m /\ lastd <= zlen a
    /\ r_type st = sm_cmd sm0 /\ r_list st = sm_list sm0 /\ r_max st = sm_max sm0
    /\ 0 <= r_count st < sm_max sm0
    /\ Forall (fun y => is_zero y = false) m
    /\ Picks (type_of_cmd (sm_cmd sm0)) (int_explode (sm_list sm0)) 1 (r_count st + 1) m dd
    /\ r_buf st = l0 :: rest /\ is_chunk (sm_cmd sm0) (sm_list sm0) 0 l0 sm0
    /\ tail_run (sm_cmd sm0) (sm_list sm0) 0 (r_count st) rest dd.

Definition RInv (hp : list line) (lastd : Z) (st : reader) : Prop := RDead st \/ RLive hp lastd st.

Lemma init_rule_idem st : init_rule (init_rule st) = init_rule st.
Proof.
  unfold init_rule. destruct (is_nil (r_list st) && is_nil (r_type st)) eqn:E; cbn [r_list r_type]; rewrite E; reflexivity.
Qed.

Lemma init_rule_dead st : r_count st = -1 -> r_count (init_rule st) = -1.
Proof. intros H. unfold init_rule. destruct (_ && _); [reflexivity | exact H]. Qed.

Lemma RLive_init hp lastd st : RLive hp lastd st -> init_rule st = st.
Proof.
  intros [a [sm0 [m [dd [l0 [rest [_ [_ [Ht [_ [_ [_ [_ [_ [_ [[Hm _] _]]]]]]]]]]]]]]]].
  destruct (gfx_match_spec _ _ Hm) as [Hc _]. unfold init_rule. rewrite Ht, (is_cmd_not_nil _ Hc), andb_false_r. reflexivity.
Qed.

Lemma RLive_skip hp lastd st y : RLive hp lastd st -> is_zero y = false -> RLive (hp ++ [y]) lastd st.
Proof.
  intros [a [sm0 [m [dd [l0 [rest [H1 [H2 [H3 [H4 [H5 [H6 [H7 [H8 H9]]]]]]]]]]]]]] Hy.
  exists a, sm0, (m ++ [y]), dd, l0, rest.
  split; [rewrite H1, <- app_assoc; reflexivity|]. split; [exact H2|]. split; [exact H3|].
  split; [exact H4|]. split; [exact H5|]. split; [exact H6|].
  split; [apply Forall_app; split; [assumption | constructor; [assumption | constructor]]|].
  split; [apply Picks_snoc_skip; assumption | exact H9].
Qed.

Lemma RInv_skip hp lastd st y : RInv hp lastd st -> is_zero y = false -> RInv (hp ++ [y]) lastd (init_rule st).
Proof.
  intros [H | H] Hy.
  - left. unfold RDead in *. rewrite init_rule_idem. exact H.
  - right. rewrite (RLive_init _ _ _ H). apply RLive_skip; assumption.
Qed.

(* the image handed over when a buffer is complete *)
Lemma out_full_run cmd lst N buf sm0 d :
  full_run cmd lst N buf sm0 d ->
  out_gfx (PBatch buf) = [(int_explode lst, gfx_append (sm_new_image sm0) d)].
Proof.
  intros H. unfold out_gfx, batch_gfx. rewrite batch_gfx_from_bsteps, (full_run_bsteps _ _ _ _ _ _ H). reflexivity.
Qed.


Lemma rstep_inv hp lastd st l : RInv hp lastd st -> lastd <= zlen hp ->
  let '(st', o) := parse st l in
  match out_gfx o with
  | [] => RInv (hp ++ [sline l]) lastd st'
  | [(ids, img)] =>
    Witness (hp ++ [sline l]) lastd (mkD (zlen hp) ids img) /\ RInv (hp ++ [sline l]) (zlen hp + 1) st'
  | _ => False
  end.
Proof.
  intros HI Hlast. unfold sline.
  destruct (gfx_match (trim_space l)) as [sm|] eqn:Em.
  2:{ rewrite (parse_other st l Em), (out_gfx_other _ Em), (classify_none _ Em).
      apply RInv_skip; [exact HI | reflexivity]. }
  rewrite (classify_some _ sm Em).
  pose proof (sm_index_nonneg _ sm Em) as Hidx0. pose proof (sm_max_nonneg _ sm Em) as Hmax0.
  destruct (gfx_match_spec _ sm Em) as [Hcmd [Hlne _]].
  destruct (Z.eq_dec (sm_index sm) 0) as [E0 | E0].
  - (* chunk 0 *)
    rewrite (parse_chunk0 st l sm Em E0).
    destruct (chunk_of_sm_hdr sm (b64_decode (sm_payload sm))) as [Hh [HN [Hty Hdat]]].
    destruct (0 =? sm_max sm) eqn:EN.
    + apply Z.eqb_eq in EN.
      assert (Hrun : full_run (sm_cmd sm) (sm_list sm) 0 [trim_space l] sm (b64_decode (sm_payload sm) ++ [])).
      { exists (trim_space l), [], []. repeat split; auto; try lia. constructor. }
      rewrite (out_full_run _ _ _ _ _ _ Hrun), app_nil_r. split.
      * exists hp, (chunk_of_sm sm), [], []. cbn [d_pos d_ids d_img].
        split; [reflexivity|]. split; [unfold zlen; cbn [length]; lia|]. split; [exact Hlast|].
        split; [split; [unfold same_key; rewrite Hty; cbn [chunk_of_sm c_type c_ids]; rewrite Z.eqb_refl, ids_eqb_refl; reflexivity | exact E0]|].
        split; [constructor|]. split; [exact Hh|].
        rewrite HN, <- EN. cbn. split; [reflexivity | exact Hdat].
      * left. unfold RDead. apply init_rule_dead. reflexivity.
    + apply Z.eqb_neq in EN. cbn [out_gfx]. right.
      exists hp, sm, [], [], (trim_space l), []. cbn [r_type r_list r_count r_max r_buf].
      repeat split; auto; try lia; try constructor.
  - (* a later chunk *)
    assert (Hnz : is_zero (G (chunk_of_sm sm)) = false).
    { cbn [is_zero chunk_of_sm c_index]. apply Z.eqb_neq. exact E0. }
    rewrite (parse_nonzero st l sm Em E0). cbn zeta.
    destruct (bytes_eqb (r_type (init_rule st)) (sm_cmd sm)) eqn:Et; [|cbn [out_gfx]; apply RInv_skip; assumption].
    destruct (bytes_eqb (r_list (init_rule st)) (sm_list sm)) eqn:El; [|cbn [out_gfx]; apply RInv_skip; assumption].
    apply bytes_eqb_eq in Et. apply bytes_eqb_eq in El.
    destruct (sm_index sm =? r_count (init_rule st) + 1) eqn:Ec.
    2:{ cbn [out_gfx]. left. unfold RDead. apply init_rule_dead. reflexivity. }
    apply Z.eqb_eq in Ec.
    destruct HI as [Hd | HL].
    { unfold RDead in Hd. rewrite Hd in Ec. lia. }
    rewrite (RLive_init _ _ _ HL) in *.
    destruct HL as [a [sm0 [m [dd [l0 [rest [H1 [H2 [H3 [H4 [H5 [H6 [H7 [H8 [H9 [H10 H11]]]]]]]]]]]]]]]].
    set (c := chunk_of_sm sm).
    assert (Hch : is_chunk (sm_cmd sm0) (sm_list sm0) (r_count st + 1) (trim_space l) sm).
    { split; [exact Em|]. split; [congruence|]. split; [congruence | exact Ec]. }
    assert (Hkey : key_chunk (type_of_cmd (sm_cmd sm0)) (int_explode (sm_list sm0)) (r_count st + 1) c).
    { split; [|cbn [c chunk_of_sm c_index]; exact Ec].
      unfold same_key. cbn [c chunk_of_sm c_type c_ids].
      replace (sm_cmd sm) with (sm_cmd sm0) by congruence. replace (sm_list sm) with (sm_list sm0) by congruence.
      rewrite Z.eqb_refl, ids_eqb_refl. reflexivity. }
    destruct (chunk_of_sm_hdr sm0 (b64_decode (sm_payload sm0) ++ dd ++ b64_decode (sm_payload sm))) as [Hh [HN [Hty Hdat]]].
    destruct (sm_index sm =? r_max st) eqn:Ex.
    + apply Z.eqb_eq in Ex.
      assert (Hrun : full_run (sm_cmd sm0) (sm_list sm0) (sm_max sm0) (r_buf st ++ [trim_space l]) sm0
                              (b64_decode (sm_payload sm0) ++ dd ++ b64_decode (sm_payload sm))).
      { exists l0, (rest ++ [trim_space l]), (dd ++ b64_decode (sm_payload sm)).
        split; [rewrite H9; reflexivity|]. split; [exact H10|]. split; [reflexivity|]. split; [lia|].
        split; [|reflexivity].
        replace (sm_max sm0) with (r_count st + 1) by lia.
        apply tail_run_snoc; [exact H11 | exact Hch | lia]. }
      rewrite (out_full_run _ _ _ _ _ _ Hrun). split.
      2:{ left. unfold RDead. apply init_rule_dead. reflexivity. }
      exists a, (chunk_of_sm sm0), (m ++ [G c]), []. cbn [d_pos d_ids d_img].
      split; [rewrite H1, app_nil_r, <- app_assoc; reflexivity|].
      split; [rewrite H1; unfold zlen; repeat (rewrite app_length || cbn [length]); lia|].
      split; [exact H2|].
      split; [split; [unfold same_key; rewrite Hty; cbn [chunk_of_sm c_type c_ids]; rewrite Z.eqb_refl, ids_eqb_refl; reflexivity | apply H10]|].
      split; [apply Forall_app; split; [exact H7 | constructor; [exact Hnz | constructor]]|].
      split; [exact Hh|].
      rewrite HN. replace (sm_max sm0 =? 0) with false by lia.
      exists (dd ++ b64_decode (sm_payload sm)). split; [rewrite Hdat; reflexivity|].
      rewrite Hty. change (b64_decode (sm_payload sm)) with (c_data c).
      apply asm_of_picks.
      * replace (sm_max sm0) with (r_count st + 1) by lia. exact H8.
      * replace (sm_max sm0) with (r_count st + 1) by lia. exact Hkey.
    + apply Z.eqb_neq in Ex. cbn [out_gfx]. right.
      exists a, sm0, (m ++ [G c]), (dd ++ b64_decode (sm_payload sm)), l0, (rest ++ [trim_space l]).
      cbn [r_type r_list r_count r_max r_buf].
      split; [rewrite H1, <- app_assoc; reflexivity|]. split; [exact H2|]. split; [exact H3|].
      split; [exact H4|]. split; [exact H5|]. split; [lia|].
      split; [apply Forall_app; split; [exact H7 | constructor; [exact Hnz | constructor]]|].
      split; [change (b64_decode (sm_payload sm)) with (c_data c); apply Picks_snoc_take; assumption|].
      split; [rewrite H9; reflexivity|]. split; [exact H10|].
      apply tail_run_snoc; [exact H11 | exact Hch | lia].
Qed.


Lemma stream_chain : forall ls hp lastd st, RInv hp lastd st -> lastd <= zlen hp ->
  Chain (hp ++ map sline ls) lastd (stream_ds (zlen hp) (fst (rsteps false st ls))).
Proof.
  induction ls as [|l r IH]; intros hp lastd st HI Hl; [constructor|].
  cbn [rsteps map]. pose proof (rstep_inv hp lastd st l HI Hl) as Hs.
  destruct (parse st l) as [st' o].
  assert (Heq : hp ++ sline l :: map sline r = (hp ++ [sline l]) ++ map sline r)
    by (rewrite <- app_assoc; reflexivity).
  assert (Hz : zlen hp + 1 = zlen (hp ++ [sline l])) by (unfold zlen; rewrite app_length; cbn [length]; lia).
  destruct (rsteps false st' r) as [os fin] eqn:Er. cbn [fst stream_ds].
  destruct (out_gfx o) as [|[ids img] [|x y]]; [| |contradiction].
  - cbn [map app]. rewrite Heq, Hz. specialize (IH (hp ++ [sline l]) lastd st' Hs ltac:(lia)).
    rewrite Er in IH. exact IH.
  - destruct Hs as [Hw HI']. cbn [map app fst snd]. rewrite Heq. constructor.
    + apply Witness_more. exact Hw.
    + cbn [d_pos]. rewrite Hz. specialize (IH (hp ++ [sline l]) (zlen (hp ++ [sline l])) st').
      rewrite Er in IH. apply IH; [rewrite <- Hz; exact HI' | lia].
Qed.

Theorem safety_stream_chain ls :
  Chain (map sline ls) 0 (stream_ds 0 (stream_from false reader0 ls)).
Proof.
  rewrite stream_from_rsteps.
  apply (stream_chain ls [] 0 reader0); [|unfold zlen; cbn; lia].
  left. reflexivity.
Qed.

(* ---- with the JSON round trip: on ASCII lines it changes nothing ---- *)
Lemma Forall_skipn {A} (P : A -> Prop) : forall n l, Forall P l -> Forall P (skipn n l).
Proof. induction n; intros l H; [exact H|]. destruct l; [constructor|]. inversion H; subst. cbn. auto. Qed.

Lemma trim_left_fuel_forall (P : Z -> Prop) : forall f s, Forall P s -> Forall P (trim_left_fuel f s).
Proof.
  induction f; intros s H; cbn [trim_left_fuel]; [exact H|].
  destruct s; [constructor|]. destruct (decode_rune (z :: s)) as [r n].
  destruct (is_space_rune r); [apply IHf, Forall_skipn, H | exact H].
Qed.

Lemma trim_right_rev_fuel_forall (P : Z -> Prop) : forall f s, Forall P s -> Forall P (trim_right_rev_fuel f s).
Proof.
  induction f; intros s H; cbn [trim_right_rev_fuel]; [exact H|].
  destruct s; [constructor|]. destruct (decode_last_rune_rev (z :: s)) as [r n].
  destruct (is_space_rune r); [apply IHf, Forall_skipn, H | exact H].
Qed.

Lemma trim_space_forall (P : Z -> Prop) s : Forall P s -> Forall P (trim_space s).
Proof.
  intros H. unfold trim_space, trim_right, trim_left.
  apply Forall_rev, trim_right_rev_fuel_forall, Forall_rev, trim_left_fuel_forall, H.
Qed.

Lemma listch_ascii s : forallb is_listch s = true -> ascii s.
Proof.
  intros H. rewrite forallb_forall in H. apply Forall_forall. intros c Hc. specialize (H c Hc).
  unfold is_listch, is_digit in H. lia.
Qed.

Lemma init_rule_ascii st : reader_ascii st -> reader_ascii (init_rule st).
Proof. unfold init_rule. destruct (_ && _); auto. Qed.

Lemma parse_ascii st l : reader_ascii st -> ascii l -> reader_ascii (fst (parse st l)).
Proof.
  intros Hst Hl. pose proof (trim_space_forall _ l Hl) as Ht. pose proof (init_rule_ascii st Hst) as [Hi1 [Hi2 Hi3]].
  destruct (gfx_match (trim_space l)) as [sm|] eqn:Em.
  2:{ rewrite (parse_other st l Em). cbn [fst]. apply init_rule_ascii, Hst. }
  destruct (gfx_match_spec_full _ sm Em) as [Hls [Hcmd _]].
  pose proof (is_cmd_ascii _ Hcmd) as Hca. pose proof (listch_ascii _ Hls) as Hla.
  destruct (Z.eq_dec (sm_index sm) 0) as [E0 | E0].
  - rewrite (parse_chunk0 st l sm Em E0). destruct (0 =? sm_max sm); cbn [fst]; repeat split; cbn [r_type r_list r_buf]; auto.
  - rewrite (parse_nonzero st l sm Em E0). cbn zeta.
    destruct (bytes_eqb _ _); [|cbn [fst]; repeat split; assumption].
    destruct (bytes_eqb _ _); [|cbn [fst]; repeat split; assumption].
    destruct (_ =? _); [destruct (_ =? _)|]; cbn [fst]; repeat split; cbn [r_type r_list r_buf]; auto.
    apply Forall_app. split; [assumption | constructor; [assumption | constructor]].
Qed.

Lemma rsteps_ser_ascii : forall ls st, Forall ascii ls -> reader_ascii st ->
  rsteps true st ls = rsteps false st ls.
Proof.
  induction ls as [|l r IH]; intros st Hls Hst; [reflexivity|].
  inversion Hls; subst. cbn [rsteps].
  pose proof (parse_ascii st l Hst H1) as Hp. destruct (parse st l) as [st' o]. cbn [fst] in Hp.
  rewrite (json_reader_ascii st' Hp). rewrite (IH st' H2 Hp). reflexivity.
Qed.

Theorem safety_stream_ser_chain ls : Forall ascii ls ->
  Chain (map sline ls) 0 (stream_ds 0 (stream_from true reader0 ls)).
Proof.
  intros H. rewrite stream_from_rsteps, rsteps_ser_ascii; [| exact H | repeat split; constructor].
  rewrite <- stream_from_rsteps. apply safety_stream_chain.
Qed.
