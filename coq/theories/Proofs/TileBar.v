(* C18 strength bar: the bar width the renderer computes is monotone in the value
   (through monotonicity of rnd53), mirrored for reversed ranges, absent for a degenerate
   range; and that width is the width of the filled rectangle in the tile's op list. *)
From RP Require Import Lib.Base Lib.Sexp Lib.FloatTile Gen.Tables Model.Mono Model.Tile Proofs.TileFloat.
From Coq Require Import ZifyBool.

Lemma constrain_mono x y hi : 0 <= hi -> x <= y -> constrain x 0 hi <= constrain y 0 hi.
Proof.
  unfold constrain. intros.
  destruct (Z.ltb_spec x 0); destruct (Z.ltb_spec y 0); destruct (Z.gtb_spec x hi); destruct (Z.gtb_spec y hi); lia.
Qed.

Lemma constrain_anti_neg x y hi : hi < 0 -> x <= y -> constrain y 0 hi <= constrain x 0 hi.
Proof.
  unfold constrain. intros.
  destruct (Z.ltb_spec x 0); destruct (Z.ltb_spec y 0); destruct (Z.gtb_spec x hi); destruct (Z.gtb_spec y hi); lia.
Qed.

(* rangeLow < rangeHigh: a larger value never gives a narrower bar - for every active width *)
Theorem bar_monotone rl rh aw v v' :
  rl < rh -> v <= v' -> wbar (v - rl) (rh - rl) aw <= wbar (v' - rl) (rh - rl) aw.
Proof.
  intros Hr Hv. unfold wbar.
  destruct (Z_le_gt_dec 0 aw) as [Hw | Hw].
  - apply constrain_mono; auto. apply scale_pos_mono; lia.
  - apply constrain_anti_neg; [lia|]. apply scale_pos_mono_negw; lia.
Qed.

(* reversed range: mirrored *)
Theorem bar_monotone_reversed rl rh aw v v' :
  rh < rl -> 0 <= aw -> v <= v' -> wbar (v' - rl) (rh - rl) aw <= wbar (v - rl) (rh - rl) aw.
Proof.
  intros Hr Hw Hv. unfold wbar. apply constrain_mono; auto. apply scale_pos_anti; lia.
Qed.

(* degenerate range: no scale is drawn at all *)
Theorem bar_degenerate t p s :
  sc_rh (the_scale t) = sc_rl (the_scale t) -> body_scale t p s = s.
Proof.
  intros E. unfold body_scale. rewrite E, Z.sub_diag. simpl. rewrite andb_false_r. reflexivity.
Qed.

(* the limit marks: independent of the value *)
Definition limit_marks (t : mtext) (p : tparams) : list dop :=
  let sc := the_scale t in
  let rdiff := sc_rh sc - sc_rl sc in
  (if sc_rh sc >? sc_lh sc
   then [DFillRoundRect (constrain (wbar (sint32 (sc_lh sc - sc_rl sc)) rdiff (paw p)) 0 (paw p - 1)) (pah p - 4) 1 3 0 true]
   else []) ++
  (if sc_rl sc <? sc_ll sc
   then [DFillRoundRect (constrain (wbar (sint32 (sc_ll sc - sc_rl sc)) rdiff (paw p)) 0 (paw p - 1)) (pah p - 4) 1 3 0 true]
   else []).

(* scale type 1 (strength): base line, then the bar of width wbar(value) if positive, then the marks *)
Theorem body_scale_strength t p s :
  sc_type (the_scale t) = 1 -> sc_rh (the_scale t) <> sc_rl (the_scale t) ->
  let sc := the_scale t in
  let wb := wbar (x_int t - sc_rl sc) (sc_rh sc - sc_rl sc) (paw p) in
  snd (body_scale t p s) =
  snd s ++ DRoundRect 0 (pah p - 1) (pW p) 1 0 true
        :: (if wb >? 0 then [DFillRoundRect 0 (pah p - 3) wb 3 0 true] else []) ++ limit_marks t p.
Proof.
  intros Ety Hne. cbv zeta. unfold body_scale, limit_marks. rewrite Ety.
  destruct (Z.eqb_spec (sc_rh (the_scale t) - sc_rl (the_scale t)) 0) as [E0|_]; [lia|].
  cbn [Z.gtb Z.compare andb negb Z.eqb Pos.eqb].
  destruct (wbar (x_int t - sc_rl (the_scale t)) (sc_rh (the_scale t) - sc_rl (the_scale t)) (paw p) >? 0);
    destruct (sc_rh (the_scale t) >? sc_lh (the_scale t));
    destruct (sc_rl (the_scale t) <? sc_ll (the_scale t));
    unfold emit; cbn [fst snd app]; rewrite <- ?app_assoc; reflexivity.
Qed.
