(* Lemmas about the Z-indexed list helpers of Lib/Base.v *)
From RP Require Import Lib.Base.

Lemma zlen_nonneg {A} (l : list A) : 0 <= zlen l.
Proof. unfold zlen; lia. Qed.

Lemma upd_nat_length {A} (l : list A) n v : length (upd_nat l n v) = length l.
Proof. revert n; induction l as [|h t IH]; intros [|n]; simpl; auto. Qed.

Lemma upd_nat_same {A} (l : list A) n v d : (n < length l)%nat -> nth n (upd_nat l n v) d = v.
Proof. revert n; induction l as [|h t IH]; intros [|n] Hn; simpl in *; try lia; auto. apply IH; lia. Qed.

Lemma upd_nat_other {A} (l : list A) n m v d : n <> m -> nth m (upd_nat l n v) d = nth m l d.
Proof.
  revert n m; induction l as [|h t IH]; intros [|n] [|m] Hn; simpl; auto; try congruence.
Qed.

Lemma zlen_zupd {A} (l : list A) i v : zlen (zupd l i v) = zlen l.
Proof. unfold zupd, zlen. destruct (i <? 0); auto. rewrite upd_nat_length; auto. Qed.

Lemma znth_zupd_same {A} (l : list A) i v d : 0 <= i < zlen l -> znth d (zupd l i v) i = v.
Proof.
  unfold znth, zupd, zlen. intros H. destruct (Z.ltb_spec i 0); try lia.
  apply upd_nat_same. lia.
Qed.

Lemma znth_zupd_other {A} (l : list A) i j v d : i <> j -> 0 <= j -> znth d (zupd l i v) j = znth d l j.
Proof.
  unfold znth, zupd. intros Hij Hj.
  destruct (Z.ltb_spec j 0); try lia.
  destruct (Z.ltb_spec i 0); auto.
  apply upd_nat_other. lia.
Qed.

Lemma Forall_upd_nat {A} (P : A -> Prop) (l : list A) n v : Forall P l -> P v -> Forall P (upd_nat l n v).
Proof.
  revert n; induction l as [|h t IH]; intros [|n] Hl Hv; simpl; auto; inversion Hl; subst; constructor; auto.
Qed.

Lemma Forall_zupd {A} (P : A -> Prop) (l : list A) i v : Forall P l -> P v -> Forall P (zupd l i v).
Proof. unfold zupd; destruct (i <? 0); auto using Forall_upd_nat. Qed.

Lemma Forall_znth {A} (P : A -> Prop) (l : list A) d i : Forall P l -> P d -> P (znth d l i).
Proof.
  intros Hl Hd. unfold znth. destruct (i <? 0); auto.
  destruct (Nat.lt_ge_cases (Z.to_nat i) (length l)).
  - rewrite Forall_forall in Hl. apply Hl. apply nth_In; auto.
  - rewrite nth_overflow; auto.
Qed.

Lemma zlen_zrepeat {A} (a : A) n : 0 <= n -> zlen (zrepeat a n) = n.
Proof. intros; unfold zlen, zrepeat; rewrite repeat_length; lia. Qed.

Lemma zlen_app {A} (a b : list A) : zlen (a ++ b) = zlen a + zlen b.
Proof. unfold zlen; rewrite app_length; lia. Qed.

Lemma zlen_cons {A} (x : A) l : zlen (x :: l) = 1 + zlen l.
Proof. unfold zlen; simpl length; lia. Qed.

(* iter_up / for_range induction principle *)
Lemma iter_up_ind {S} (P : S -> Prop) (f : Z -> S -> S) :
  (forall k s, P s -> P (f k s)) -> forall n start s, P s -> P (iter_up n start f s).
Proof. intros Hf n; induction n as [|n IH]; simpl; intros; auto. Qed.

Lemma iter_up_snoc {S} n start (f : Z -> S -> S) s :
  iter_up (Datatypes.S n) start f s = f (start + Z.of_nat n) (iter_up n start f s).
Proof.
  revert start s; induction n as [|n IH]; intros start s.
  - simpl. replace (start + 0) with start by lia. reflexivity.
  - change (iter_up (Datatypes.S (Datatypes.S n)) start f s) with (iter_up (Datatypes.S n) (start + 1) f (f start s)).
    rewrite IH. simpl iter_up at 2.
    replace (start + 1 + Z.of_nat n) with (start + Z.of_nat (Datatypes.S n)) by lia. reflexivity.
Qed.
