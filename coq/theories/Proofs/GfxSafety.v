(* safety_batch: for EVERY list of lines, every image the batch decoder delivers has a witness
   in the history (chunks 0..N in order of the most recent transfer of its key), and the
   witnesses' starts are strictly increasing (at most once). *)
From RP Require Import Lib.Base Lib.Sexp Lib.Strings Lib.B64 Model.Gfx Spec.Transfer
  Proofs.GfxNum Proofs.GfxMatch Proofs.GfxBatch Proofs.GfxSpecLemmas.
From Coq Require Import ZifyBool.
Open Scope Z_scope.
Open Scope list_scope.

(* ---- what a successful match guarantees ---- *)
Lemma span_spec (p : Z -> bool) : forall s a b, span p s = (a, b) -> forallb p a = true /\ s = a ++ b.
Proof.
  induction s as [|c r IH]; intros a b H; cbn [span] in H.
  - injection H as <- <-. split; reflexivity.
  - destruct (p c) eqn:E.
    + destruct (span p r) as [a' b'] eqn:E2. injection H as <- <-.
      destruct (IH a' b' eq_refl) as [H1 H2]. split; [cbn; rewrite E, H1; reflexivity | cbn; rewrite <- H2; reflexivity].
    + injection H as <- <-. split; reflexivity.
Qed.

Lemma take_digits1_spec s d r : take_digits1 s = Some (d, r) -> digit_str d /\ s = d ++ r.
Proof.
  unfold take_digits1. destruct (span is_digit s) as [a b] eqn:E. destruct (span_spec _ _ _ _ E) as [H1 H2].
  destruct a; [discriminate|]. intros H. injection H as <- <-. split; [split; [exact H1 | discriminate] | exact H2].
Qed.

Lemma gfx_prefix_spec s cmd r : gfx_prefix s = Some (cmd, r) -> is_cmd cmd.
Proof.
  unfold gfx_prefix, is_cmd.
  destruct (drop_prefix _ s); [intros H; injection H as <- _; auto|].
  destruct (drop_prefix _ s); [intros H; injection H as <- _; auto|].
  destruct (drop_prefix _ s); [intros H; injection H as <- _; auto | discriminate].
Qed.

Lemma gfx_match_spec_full l sm : gfx_match l = Some sm ->
  forallb is_listch (sm_list sm) = true /\
  (is_cmd (sm_cmd sm) /\ sm_list sm <> [] /\ digit_str (sm_idx sm) /\ adv_ok (sm_adv sm)).
Proof.
  unfold gfx_match. destruct (gfx_prefix l) as [[cmd r0]|] eqn:Ep; [|discriminate]. cbn [obind].
  apply gfx_prefix_spec in Ep.
  destruct (span is_listch r0) as [lst r1] eqn:Es. apply span_spec in Es. destruct Es as [Hls _]. destruct lst as [|l0 lst]; [discriminate|].
  destruct (expect 61 r1) as [r2|]; [|discriminate]. cbn [obind].
  destruct (take_digits1 r2) as [[idx r3]|] eqn:Ei; [|discriminate]. cbn [obind].
  apply take_digits1_spec in Ei. destruct Ei as [Hidx _].
  destruct r3 as [|c r4]; [discriminate|].
  destruct (c =? 58).
  { destruct (payload_ok r4); [|discriminate]. intros H; inversion H; subst; cbn [sm_cmd sm_list sm_idx sm_adv adv_ok]; split; [exact Hls|]; split; [exact Ep|]; split; [discriminate|]; split; [exact Hidx | tauto]. }
  destruct (c =? 47); [|discriminate].
  destruct (take_digits1 r4) as [[mx r5]|] eqn:Em; [|discriminate]. cbn [obind].
  apply take_digits1_spec in Em. destruct Em as [Hmx _].
  destruct (expect 44 r5) as [r6|]; [|discriminate]. cbn [obind].
  destruct (take_digits1 r6) as [[w r7]|] eqn:Ew; [|discriminate]. cbn [obind].
  apply take_digits1_spec in Ew. destruct Ew as [Hw _].
  destruct (expect 120 r7) as [r8|]; [|discriminate]. cbn [obind].
  destruct (take_digits1 r8) as [[h r9]|] eqn:Eh; [|discriminate]. cbn [obind].
  apply take_digits1_spec in Eh. destruct Eh as [Hh _].
  destruct r9 as [|c9 r10]; [discriminate|].
  destruct (c9 =? 58).
  { destruct (payload_ok r10); [|discriminate]. intros H; inversion H; subst; cbn [sm_cmd sm_list sm_idx sm_adv adv_ok]; split; [exact Hls|]; split; [exact Ep|]; split; [discriminate|]; split; [exact Hidx | tauto]. }
  destruct (c9 =? 44); [|discriminate].
  destruct (take_digits1 r10) as [[x r11]|] eqn:Ex; [|discriminate]. cbn [obind].
  apply take_digits1_spec in Ex. destruct Ex as [Hx _].
  destruct (expect 44 r11) as [r12|]; [|discriminate]. cbn [obind].
  destruct (take_digits1 r12) as [[y r13]|] eqn:Ey; [|discriminate]. cbn [obind].
  apply take_digits1_spec in Ey. destruct Ey as [Hy _].
  destruct (expect 58 r13) as [pay|]; [|discriminate]. cbn [obind].
  destruct (payload_ok pay); [|discriminate]. intros H; inversion H; subst; cbn [sm_cmd sm_list sm_idx sm_adv adv_ok]; split; [exact Hls|]; split; [exact Ep|]; split; [discriminate|]; split; [exact Hidx | tauto].
Qed.

Lemma gfx_match_spec l sm : gfx_match l = Some sm ->
  is_cmd (sm_cmd sm) /\ sm_list sm <> [] /\ digit_str (sm_idx sm) /\ adv_ok (sm_adv sm).
Proof. intros H. apply gfx_match_spec_full in H. tauto. Qed.

Lemma parse_uint_nonneg : forall s acc v, 0 <= acc -> parse_uint s acc = Some v -> 0 <= v.
Proof.
  induction s as [|c r IH]; intros acc v Ha H; cbn [parse_uint] in H.
  - injection H as <-. exact Ha.
  - destruct (is_digit c) eqn:Hc; [|discriminate].
    unfold is_digit in Hc. apply andb_true_iff in Hc. destruct Hc as [H1 H2].
    apply Z.leb_le in H1. apply Z.leb_le in H2.
    destruct (acc >=? 1844674407370955162); [injection H as <-; unfold max_uint64; lia|].
    destruct (acc * 10 + (c - 48) >? max_uint64); [injection H as <-; unfold max_uint64; lia|].
    eapply IH; [|exact H]. lia.
Qed.

Lemma atoi_digits_nonneg s : digit_str s -> 0 <= atoi s.
Proof.
  intros [Hd Hne]. unfold atoi.
  destruct s as [|c r]; [lia|].
  assert (Hc : is_digit c = true) by (cbn in Hd; apply andb_true_iff in Hd; tauto).
  pose proof (is_digit_not_sign c Hc) as Hs. apply orb_false_iff in Hs. destruct Hs as [H43 H45].
  rewrite H45, H43. cbn [orb].
  destruct (parse_uint (c :: r) 0) as [un|] eqn:E; [|lia].
  assert (0 <= un) by (eapply parse_uint_nonneg; [|exact E]; lia).
  destruct (un >=? 9223372036854775808); unfold max_int64; lia.
Qed.

Lemma sm_index_nonneg l sm : gfx_match l = Some sm -> 0 <= sm_index sm.
Proof. intros H. apply gfx_match_spec in H. apply atoi_digits_nonneg. tauto. Qed.

Lemma sm_max_nonneg l sm : gfx_match l = Some sm -> 0 <= sm_max sm.
Proof.
  intros H. apply gfx_match_spec in H. destruct H as [_ [_ [_ Ha]]]. unfold sm_max.
  destruct (sm_adv sm) as [[[[mx w] h] off]|]; [|lia]. apply atoi_digits_nonneg. cbn in Ha. tauto.
Qed.

(* ---- the chunk the grammar reads from a matching line ---- *)
Lemma chunk_of_sm_hdr sm d :
  header_ok (chunk_of_sm sm) (gfx_append (sm_new_image sm) d) /\ hdr_N (chunk_of_sm sm) = sm_max sm
  /\ g_type (gfx_append (sm_new_image sm) d) = type_of_cmd (sm_cmd sm)
  /\ g_data (gfx_append (sm_new_image sm) d) = d.
Proof.
  unfold header_ok, hdr_N, hdr_of, chunk_of_sm, sm_new_image, sm_max, gfx_append. cbn [c_hdr].
  destruct (sm_adv sm) as [[[[mx w] h] [[x y]|]]|]; cbn; repeat split; reflexivity.
Qed.

(* ---- invariant ---- *)
Definition Dead (st : gstate) : Prop := gs_count st = -1 \/ gs_list st = [].

Definition Live (hp : list line) (lastd : Z) (st : gstate) : Prop :=
  exists a sm0 m dd,
    hp = a ++ G (chunk_of_sm sm0) :: m /\ lastd <= zlen a /\ sm_index sm0 = 0
    /\ gs_type st = type_of_cmd (sm_cmd sm0) /\ gs_list st = sm_list sm0 /\ gs_max st = sm_max sm0
    /\ 0 <= gs_count st < sm_max sm0
    /\ Forall (fun y => is_zero y = false) m
    /\ Picks (gs_type st) (int_explode (gs_list st)) 1 (gs_count st + 1) m dd
    /\ gs_img st = gfx_append (sm_new_image sm0) (b64_decode (sm_payload sm0) ++ dd).

Definition Inv (hp : list line) (lastd : Z) (st : gstate) : Prop := Dead st \/ Live hp lastd st.

Lemma ids_eqb_refl l : ids_eqb l l = true.
Proof. apply list_eqb_refl, Z.eqb_refl. Qed.

Lemma Live_skip hp lastd st y : Live hp lastd st -> is_zero y = false -> Live (hp ++ [y]) lastd st.
Proof.
  intros [a [sm0 [m [dd [H1 [H2 [H3 [H4 [H5 [H6 [H7 [H8 [H9 H10]]]]]]]]]]]]] Hy.
  exists a, sm0, (m ++ [y]), dd. repeat split; auto; try tauto.
  - rewrite H1, <- app_assoc. reflexivity.
  - apply Forall_app. split; [assumption | constructor; [assumption | constructor]].
  - apply Picks_snoc_skip. assumption.
Qed.

Lemma Inv_skip hp lastd st y : Inv hp lastd st -> is_zero y = false -> Inv (hp ++ [y]) lastd st.
Proof. intros [H | H] Hy; [left; exact H | right; apply Live_skip; assumption]. Qed.

Lemma classify_some l sm : gfx_match l = Some sm -> classify l = G (chunk_of_sm sm).
Proof. intros H. unfold classify. rewrite H. reflexivity. Qed.
Lemma classify_none l : gfx_match l = None -> classify l = O.
Proof. intros H. unfold classify. rewrite H. reflexivity. Qed.

(* one line *)
Lemma step_inv hp lastd st l : Inv hp lastd st -> lastd <= zlen hp ->
  let '(st', d) := gfx_line_step st l in
  match d with
  | None => Inv (hp ++ [classify l]) lastd st'
  | Some (ids, img) =>
    Witness (hp ++ [classify l]) lastd (mkD (zlen hp) ids img) /\ Inv (hp ++ [classify l]) (zlen hp + 1) st'
  end.
Proof.
  intros HI Hlast. unfold gfx_line_step.
  destruct (gfx_match l) as [sm|] eqn:Em.
  2:{ rewrite (classify_none l Em). apply Inv_skip; [exact HI | reflexivity]. }
  rewrite (classify_some l sm Em).
  pose proof (sm_index_nonneg l sm Em) as Hidx0. pose proof (sm_max_nonneg l sm Em) as Hmax0.
  destruct (gfx_match_spec l sm Em) as [Hcmd [Hlne _]].
  unfold gfx_step.
  destruct (sm_index sm =? 0) eqn:E0.
  - (* chunk 0: a new transfer *)
    apply Z.eqb_eq in E0. rewrite E0. cbn [gs_type gs_list gs_count gs_max gs_img].
    rewrite Z.eqb_refl, bytes_eqb_refl. change (-1 + 1) with 0. change (0 =? 0) with true. cbn iota.
    destruct (chunk_of_sm_hdr sm (b64_decode (sm_payload sm))) as [Hh [HN [Hty Hdat]]].
    destruct (0 =? sm_max sm) eqn:EN.
    + apply Z.eqb_eq in EN. split.
      * exists hp, (chunk_of_sm sm), [], []. cbn [d_pos d_ids d_img].
        split; [reflexivity|]. split; [unfold zlen; cbn [length]; lia|]. split; [exact Hlast|].
        split; [split; [unfold same_key; rewrite Hty; cbn [chunk_of_sm c_type c_ids]; rewrite Z.eqb_refl, ids_eqb_refl; reflexivity | exact E0]|].
        split; [constructor|]. split; [exact Hh|].
        rewrite HN, <- EN. cbn. split; [reflexivity | exact Hdat].
      * left. left. reflexivity.
    + apply Z.eqb_neq in EN. right.
      exists hp, sm, [], []. cbn [gs_type gs_list gs_count gs_max gs_img].
      repeat split; auto; try lia; try constructor.
      rewrite app_nil_r. reflexivity.
  - (* a later chunk *)
    apply Z.eqb_neq in E0.
    assert (Hnz : is_zero (G (chunk_of_sm sm)) = false).
    { cbn [is_zero chunk_of_sm c_index]. apply Z.eqb_neq. exact E0. }
    destruct (gs_type st =? type_of_cmd (sm_cmd sm)) eqn:Et; [|apply Inv_skip; assumption].
    destruct (bytes_eqb (sm_list sm) (gs_list st)) eqn:El; [|apply Inv_skip; assumption].
    apply Z.eqb_eq in Et. apply bytes_eqb_eq in El.
    destruct (sm_index sm =? gs_count st + 1) eqn:Ec.
    2:{ left. left. reflexivity. }
    apply Z.eqb_eq in Ec.
    destruct HI as [[Hd | Hd] | HL].
    { rewrite Hd in Ec. lia. }
    { rewrite Hd in El. congruence. }
    destruct HL as [a [sm0 [m [dd [H1 [H2 [H3 [H4 [H5 [H6 [H7 [H8 [H9 H10]]]]]]]]]]]]].
    set (c := chunk_of_sm sm).
    assert (Hkey : key_chunk (gs_type st) (int_explode (gs_list st)) (gs_count st + 1) c).
    { split; [|cbn [c chunk_of_sm c_index]; exact Ec].
      unfold same_key. cbn [c chunk_of_sm c_type c_ids]. rewrite <- Et, Z.eqb_refl, El, ids_eqb_refl. reflexivity. }
    destruct (chunk_of_sm_hdr sm0 (b64_decode (sm_payload sm0) ++ dd ++ b64_decode (sm_payload sm))) as [Hh [HN [Hty Hdat]]].
    assert (Himg : gfx_append (gs_img st) (b64_decode (sm_payload sm))
                   = gfx_append (sm_new_image sm0) (b64_decode (sm_payload sm0) ++ dd ++ b64_decode (sm_payload sm))).
    { rewrite H10, gfx_append_app, <- app_assoc. reflexivity. }
    destruct (sm_index sm =? gs_max st) eqn:Ex.
    + apply Z.eqb_eq in Ex. rewrite Himg. split; [|left; left; reflexivity].
      exists a, (chunk_of_sm sm0), (m ++ [G c]), []. cbn [d_pos d_ids d_img].
      split; [rewrite H1, app_nil_r, <- app_assoc; reflexivity|].
      split; [rewrite H1; unfold zlen; repeat (rewrite app_length || cbn [length]); lia|].
      split; [exact H2|].
      split; [split; [unfold same_key; rewrite Hty; cbn [chunk_of_sm c_type c_ids]; rewrite H5, Z.eqb_refl, ids_eqb_refl; reflexivity | exact H3]|].
      split; [apply Forall_app; split; [exact H8 | constructor; [exact Hnz | constructor]]|].
      split; [exact Hh|].
      rewrite HN. replace (sm_max sm0 =? 0) with false by lia.
      exists (dd ++ b64_decode (sm_payload sm)). split; [rewrite Hdat; reflexivity|].
      rewrite Hty, <- H4.
      change (b64_decode (sm_payload sm)) with (c_data c).
      apply asm_of_picks.
      * replace (sm_max sm0) with (gs_count st + 1) by lia. exact H9.
      * replace (sm_max sm0) with (gs_count st + 1) by lia. exact Hkey.
    + apply Z.eqb_neq in Ex. right.
      exists a, sm0, (m ++ [G c]), (dd ++ b64_decode (sm_payload sm)).
      cbn [gs_type gs_list gs_count gs_max gs_img].
      split; [rewrite H1, <- app_assoc; reflexivity|]. split; [exact H2|]. split; [exact H3|].
      split; [exact H4|]. split; [exact H5|]. split; [exact H6|]. split; [lia|].
      split; [apply Forall_app; split; [exact H8 | constructor; [exact Hnz | constructor]]|].
      split; [|exact Himg].
      change (b64_decode (sm_payload sm)) with (c_data c). apply Picks_snoc_take; assumption.
Qed.


Lemma batch_chain : forall ls hp lastd st, Inv hp lastd st -> lastd <= zlen hp ->
  Chain (hp ++ map classify ls) lastd (to_ds (batch_gfx_from st (zlen hp) ls)).
Proof.
  induction ls as [|l r IH]; intros hp lastd st HI Hl; [constructor|].
  cbn [batch_gfx_from map]. pose proof (step_inv hp lastd st l HI Hl) as Hs.
  destruct (gfx_line_step st l) as [st' d].
  assert (Heq : hp ++ classify l :: map classify r = (hp ++ [classify l]) ++ map classify r)
    by (rewrite <- app_assoc; reflexivity).
  assert (Hz : zlen hp + 1 = zlen (hp ++ [classify l])) by (unfold zlen; rewrite app_length; cbn [length]; lia).
  destruct d as [[ids img]|].
  - destruct Hs as [Hw HI']. cbn [to_ds map fst snd]. rewrite Heq. constructor.
    + apply Witness_more. exact Hw.
    + cbn [d_pos]. rewrite Hz. apply IH; [rewrite <- Hz; exact HI' | lia].
  - rewrite Heq, Hz. apply IH; [exact Hs | lia].
Qed.

Theorem safety_batch_chain ls : Chain (map classify ls) 0 (to_ds (batch_gfx ls)).
Proof.
  apply (batch_chain ls [] 0 gstate0); [|unfold zlen; cbn; lia].
  left. right. reflexivity.
Qed.

Theorem safety_batch ls :
  forallb (valid_b (map classify ls)) (to_ds (batch_gfx ls)) = true
  /\ at_most_once_b (map classify ls) (to_ds (batch_gfx ls)) = true.
Proof.
  pose proof (safety_batch_chain ls) as H. split; [eapply Chain_valid | eapply Chain_once]; exact H.
Qed.
