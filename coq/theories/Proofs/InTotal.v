(* C06, inbound half: the models of both inbound converters never panic.
     dec_in_total : for ALL byte strings as lines and ALL oracle behaviours;
     enc_in_total : for all messages without nil elements in their repeated fields (what
                    proto.Unmarshal can produce), any presence pattern of sub-messages,
                    any field values.
   The result type of dec_in is [list InboundMessage]: a nil message cannot be expressed, the
   JSON null elements being filtered ([filter_some]) as the repaired code does. *)
From RP Require Import Lib.Base Lib.Sexp Lib.Strings Model.Gfx Model.MsgIn Model.EncIn Model.DecIn.
From Coq Require Import String.
Open Scope Z_scope.

(* ---------------------------------------------------------------- decoder *)
Lemma obind_some : forall {A B} (o : option A) (f : A -> option B) b,
  obind o f = Some b -> exists a, o = Some a /\ f a = Some b.
Proof. intros A B [a|] f b H; cbn in H; [eauto | discriminate]. Qed.

Lemma m_cmd_shape : forall l gs, m_cmd l = Some gs -> exists a b c d, gs = [a; b; c; d].
Proof.
  unfold m_cmd; intros l gs H.
  apply obind_some in H as [[kw r0] [_ H]].
  destruct (span is_listch r0) as [ids r1]. destruct ids; [discriminate|].
  apply obind_some in H as [rest [_ H]].
  destruct (no_lf rest); inversion H; eauto.
Qed.

Lemma m_single_shape : forall l gs, m_single l = Some gs -> exists a b c, gs = [a; b; c].
Proof.
  unfold m_single; intros l gs H.
  apply obind_some in H as [[kw r0] [_ H]].
  apply obind_some in H as [r1 [_ H]].
  apply obind_some in H as [[d r2] [_ H]].
  destruct r2; inversion H; eauto.
Qed.

Lemma m_dual_shape : forall l gs, m_dual l = Some gs -> exists a b c d, gs = [a; b; c; d].
Proof.
  unfold m_dual; intros l gs H.
  apply obind_some in H as [[kw r0] [_ H]].
  apply obind_some in H as [r1 [_ H]].
  apply obind_some in H as [[a r2] [_ H]].
  apply obind_some in H as [r3 [_ H]].
  apply obind_some in H as [[b r4] [_ H]].
  destruct r4; inversion H; eauto.
Qed.

Lemma m_str_shape : forall l gs, m_str l = Some gs -> exists a b c, gs = [a; b; c].
Proof.
  unfold m_str; intros l gs H.
  apply obind_some in H as [[kw r0] [_ H]].
  apply obind_some in H as [rest [_ H]].
  destruct (no_lf rest); inversion H; eauto.
Qed.

Lemma m_reg_shape : forall l gs, m_reg l = Some gs -> exists a b c d, gs = [a; b; c; d].
Proof.
  unfold m_reg; intros l gs H.
  apply obind_some in H as [[kw r0] [_ H]].
  destruct (span is_regid r0) as [id r1].
  apply obind_some in H as [r2 [_ H]].
  apply obind_some in H as [[d r3] [_ H]].
  destruct r3; inversion H; eauto.
Qed.

Ltac ifs := repeat match goal with |- context [if ?c then _ else _] => destruct c end.

Lemma dec_cmd_line_ok : forall a b c d, exists ms, dec_cmd_line [a; b; c; d] = Ok ms.
Proof. intros. unfold dec_cmd_line. cbn [grp nth_error bind]. ifs; eauto. Qed.

Lemma dec_single_line_ok : forall a b c, exists ms, dec_single_line [a; b; c] = Ok ms.
Proof. intros. unfold dec_single_line. cbn [grp nth_error bind]. ifs; eauto. Qed.

Lemma dec_dual_line_ok : forall a b c d, exists ms, dec_dual_line [a; b; c; d] = Ok ms.
Proof. intros. unfold dec_dual_line. cbn [grp nth_error bind]. ifs; eauto. Qed.

Lemma dec_str_line_ok : forall ncp a b c, exists ms, dec_str_line ncp [a; b; c] = Ok ms.
Proof. intros. unfold dec_str_line. cbn [grp nth_error bind]. ifs; eauto. Qed.

Lemma dec_reg_line_ok : forall a b c d, exists ms, dec_reg_line [a; b; c; d] = Ok ms.
Proof. intros. unfold dec_reg_line. cbn [grp nth_error bind]. ifs; eauto. Qed.

Lemma dec_line_total : forall js jm ncp st l, exists r, dec_line js jm ncp st l = Ok r.
Proof.
  intros. unfold dec_line. destruct l as [|c0 l']; [eauto|].
  set (l := c0 :: l').
  destruct (seq_eqb l "ping"); [eauto|].
  destruct (seq_eqb l "ack"); [eauto|].
  destruct (seq_eqb l "nack"); [eauto|].
  destruct (lookup_flag flag_words 0 l); [eauto|].
  destruct (c0 =? 123); [eauto|].
  destruct (c0 =? 91); [eauto|].
  destruct (m_cmd l) as [gs|] eqn:E1.
  { apply m_cmd_shape in E1 as (a & b & c & d & ->).
    destruct (dec_cmd_line_ok a b c d) as [ms ->]. cbn. eauto. }
  destruct (gfx_match l) as [sm|].
  { destruct (gfx_step st sm) as [st' d]. eauto. }
  destruct (m_single l) as [gs|] eqn:E2.
  { apply m_single_shape in E2 as (a & b & c & ->).
    destruct (dec_single_line_ok a b c) as [ms ->]. cbn. eauto. }
  destruct (m_dual l) as [gs|] eqn:E3.
  { apply m_dual_shape in E3 as (a & b & c & d & ->).
    destruct (dec_dual_line_ok a b c d) as [ms ->]. cbn. eauto. }
  destruct (m_str l) as [gs|] eqn:E4.
  { apply m_str_shape in E4 as (a & b & c & ->).
    destruct (dec_str_line_ok ncp a b c) as [ms ->]. cbn. eauto. }
  destruct (m_reg l) as [gs|] eqn:E5.
  { apply m_reg_shape in E5 as (a & b & c & d & ->).
    destruct (dec_reg_line_ok a b c d) as [ms ->]. cbn. eauto. }
  eauto.
Qed.

Lemma dec_in_from_total : forall js jm ncp ls st, exists ms, dec_in_from js jm ncp st ls = Ok ms.
Proof.
  induction ls as [|l r IH]; intros st; cbn [dec_in_from]; [eauto|].
  destruct (dec_line_total js jm ncp st l) as [[st' ms] ->]. cbn [bind fst snd].
  destruct (IH st') as [rest ->]. cbn. eauto.
Qed.

(* all byte strings (indeed all lists of integers), all list lengths, every behaviour of the
   three encoding/json oracles *)
Theorem dec_in_total : forall (json_state : list Z -> HWCState)
    (json_msgs : list Z -> list (option InboundMessage)) (nc_parse : list Z -> option (list Z))
    (ls : list (list Z)),
  exists ms, dec_in json_state json_msgs nc_parse ls = Ok ms.
Proof. intros. apply dec_in_from_total. Qed.

(* ---------------------------------------------------------------- encoder *)
Definition wire_reachable (m : InboundMessage) : Prop :=
  Forall (fun o => o <> None) (im_states m) /\ Forall (fun o => o <> None) (im_regs m).

Lemma states_lines_ok : forall je l, Forall (fun o : option HWCState => o <> None) l ->
  exists ls, states_lines je l = Ok ls.
Proof.
  induction l as [|o r IH]; intros H; cbn [states_lines]; [eauto|].
  inversion H as [|? ? Ho Hr]; subst. destruct o as [s|]; [|congruence].
  destruct (IH Hr) as [ls ->]. cbn. eauto.
Qed.

Lemma regs_lines_ok : forall l, Forall (fun o : option Register => o <> None) l ->
  exists ls, regs_lines l = Ok ls.
Proof.
  induction l as [|o r IH]; intros H; cbn [regs_lines]; [eauto|].
  inversion H as [|? ? Ho Hr]; subst. destruct o as [s|]; [|congruence].
  destruct (IH Hr) as [ls ->]. cbn. eauto.
Qed.

Lemma enc_in_msg_ok : forall je ncp m, wire_reachable m -> exists ls, enc_in_msg je ncp m = Ok ls.
Proof.
  intros je ncp m [Hs Hr]. unfold enc_in_msg.
  destruct (states_lines_ok je _ Hs) as [a ->]. destruct (regs_lines_ok _ Hr) as [b ->]. cbn. eauto.
Qed.

(* any presence pattern of the optional sub-messages, enums and integers anywhere, any bytes
   in strings; both encoding/json oracles arbitrary *)
Theorem enc_in_total : forall (json_enc : HWCState -> list Z) (nc_print : list Z -> list Z)
    (ms : list InboundMessage),
  Forall wire_reachable ms -> exists ls, enc_in json_enc nc_print ms = Ok ls.
Proof.
  intros je ncp ms H. unfold enc_in.
  assert (R : exists ls, enc_in_raw je ncp ms = Ok ls).
  { induction ms as [|m r IH]; cbn [enc_in_raw]; [eauto|].
    inversion H as [|? ? Hm Hr]; subst.
    destruct (enc_in_msg_ok je ncp m Hm) as [a ->]. destruct (IH Hr) as [b ->]. cbn. eauto. }
  destruct R as [ls ->]. cbn. eauto.
Qed.

(* the hypothesis of enc_in_total is necessary: a nil element is a panic site *)
Example enc_in_nil_state_panics : forall je ncp,
  enc_in je ncp [mkMsg 0 None [None] []] = Panic 701.
Proof. reflexivity. Qed.

(* the decoder's output is always wire-reachable or comes from the JSON oracle: composition
   dec then enc is total whenever the JSON oracle returns no nil elements; for plain ASCII
   lines (no '{' / '[' line) this is unconditional - see Proofs/InDec.v *)
