(* Lemmas about Lib/Strings.v (atoi, split_on, span, drop_prefix) and Sexp.itoa, and their
   agreement with the reference reader's own lexical functions (Spec/GrammarIn: rd_digits,
   rd_nat, rd_int, fields, cut_at).  Core itoa / atoi facts come from Proofs/GfxNum.v. *)
From RP Require Import Lib.Base Lib.Sexp Lib.Strings Proofs.GfxNum Spec.GrammarIn.
From Coq Require Import ZifyBool.
Open Scope Z_scope.

(* ---------------------------------------------------------------- atoi *)
(* ParseUint on an all-digit string: the decimal value, saturated at max_uint64 *)
Lemma parse_uint_all : forall s acc, forallb is_digit s = true -> 0 <= acc <= max_uint64 ->
  parse_uint s acc = Some (Z.min (digits_value s acc) max_uint64).
Proof.
  induction s as [|c r IH]; intros acc H Ha; cbn [parse_uint digits_value].
  - f_equal. lia.
  - cbn [forallb] in H. apply andb_true_iff in H. destruct H as [Hc Hr]. rewrite Hc.
    assert (Hc' := Hc). unfold is_digit in Hc'.
    pose proof (digits_value_ge r (acc * 10 + (c - 48)) Hr ltac:(lia)) as Hge.
    unfold max_uint64 in *.
    destruct (acc >=? 1844674407370955162) eqn:E1; [f_equal; lia|].
    destruct (acc * 10 + (c - 48) >? 18446744073709551615) eqn:E2; [f_equal; lia|].
    apply IH; auto. lia.
Qed.

(* On syntactically valid input (sign? digits+) the exact atoi is the decimal value clamped
   to int64 - the formula Lib/Strings.v used before parse_uint was introduced. *)
Lemma atoi_syntax_ok_value : forall s, atoi_syntax_ok s = true ->
  atoi s =
  match s with
  | c :: r =>
    let v := if c =? 45 then - digits_value r 0 else if c =? 43 then digits_value r 0 else digits_value s 0 in
    if v >? max_int64 then max_int64 else if v <? min_int64 then min_int64 else v
  | [] => 0
  end.
Proof.
  intros [|c r] H; [reflexivity|]. unfold atoi_syntax_ok in H. unfold atoi.
  destruct ((c =? 43) || (c =? 45)) eqn:S.
  - apply andb_true_iff in H. destruct H as [Hne Hd]. rewrite all_digits_forallb in Hd.
    destruct r as [|c1 r1]; [discriminate|]. clear Hne.
    pose proof (digits_value_ge (c1 :: r1) 0 Hd ltac:(lia)) as Hge.
    replace ((c =? 45) || (c =? 43)) with true by (destruct (c =? 45), (c =? 43); cbn in *; congruence).
    rewrite (parse_uint_all _ 0 Hd) by (unfold max_uint64; lia).
    unfold max_uint64, max_int64, min_int64 in *. cbv zeta.
    destruct (c =? 45) eqn:E45.
    + destruct (Z.min (digits_value (c1 :: r1) 0) 18446744073709551615 >? 9223372036854775808) eqn:G;
      destruct (- digits_value (c1 :: r1) 0 >? 9223372036854775807) eqn:G1;
      destruct (- digits_value (c1 :: r1) 0 <? -9223372036854775808) eqn:G2; lia.
    + assert (E43 : (c =? 43) = true) by (destruct (c =? 43); cbn in S; congruence). rewrite E43.
      destruct (Z.min (digits_value (c1 :: r1) 0) 18446744073709551615 >=? 9223372036854775808) eqn:G;
      destruct (digits_value (c1 :: r1) 0 >? 9223372036854775807) eqn:G1;
      destruct (digits_value (c1 :: r1) 0 <? -9223372036854775808) eqn:G2; lia.
  - rewrite all_digits_forallb in H.
    pose proof (digits_value_ge (c :: r) 0 H ltac:(lia)) as Hge.
    apply orb_false_iff in S. destruct S as [E43 E45]. rewrite E43, E45. cbn [orb]. cbv zeta.
    rewrite (parse_uint_all _ 0 H) by (unfold max_uint64; lia).
    unfold max_uint64, max_int64, min_int64 in *.
    destruct (Z.min (digits_value (c :: r) 0) 18446744073709551615 >=? 9223372036854775808) eqn:G;
    destruct (digits_value (c :: r) 0 >? 9223372036854775807) eqn:G1;
    destruct (digits_value (c :: r) 0 <? -9223372036854775808) eqn:G2; lia.
Qed.

(* ---------------------------------------------------------------- the reader's decimals *)
Lemma is_dig_is_digit c : is_dig c = is_digit c.
Proof. reflexivity. Qed.

Lemma rd_digits_spec : forall s acc n, rd_digits s acc = Some n ->
  forallb is_digit s = true /\ digits_value s acc = n.
Proof.
  induction s as [|c r IH]; intros acc n H; cbn [rd_digits] in H.
  - inversion H. split; reflexivity.
  - rewrite is_dig_is_digit in H. destruct (is_digit c) eqn:E; [|discriminate].
    apply IH in H. destruct H as [H1 H2]. cbn [forallb digits_value]. rewrite E, H1. split; auto.
Qed.

Lemma rd_digits_complete : forall s acc, forallb is_digit s = true ->
  rd_digits s acc = Some (digits_value s acc).
Proof.
  induction s as [|c r IH]; intros acc H; cbn [rd_digits digits_value]; [reflexivity|].
  cbn [forallb] in H. apply andb_true_iff in H. destruct H as [Hc Hr].
  rewrite is_dig_is_digit, Hc. apply IH. exact Hr.
Qed.

Lemma rd_nat_spec : forall s n, rd_nat s = Some n ->
  s <> [] /\ forallb is_digit s = true /\ digits_value s 0 = n /\ 0 <= n.
Proof.
  intros s n H. unfold rd_nat in H. destruct s as [|c r]; [discriminate|].
  apply rd_digits_spec in H. destruct H as [H1 H2]. split; [discriminate|]. split; [exact H1|].
  split; [exact H2|]. rewrite <- H2. apply (digits_value_ge (c :: r) 0 H1). lia.
Qed.

(* what the library reads (strconv.Atoi) where the reference reader reads a decimal *)
Lemma rd_nat_atoi : forall s n, rd_nat s = Some n -> n < two63 -> atoi s = n.
Proof.
  intros s n H Hn. apply rd_nat_spec in H. destruct H as (Hne & Hd & Hv & H0).
  rewrite atoi_syntax_ok_value.
  - destruct s as [|c r]; [congruence|].
    assert (Hc : is_digit c = true) by (cbn in Hd; apply andb_true_iff in Hd; tauto).
    pose proof (is_digit_not_sign c Hc) as Hs. apply orb_false_iff in Hs. destruct Hs as [E43 E45].
    rewrite E45, E43. cbv zeta. rewrite Hv. unfold two63, max_int64, min_int64 in *.
    destruct (n >? 9223372036854775807) eqn:G1; destruct (n <? -9223372036854775808) eqn:G2; lia.
  - destruct s as [|c r]; [congruence|]. unfold atoi_syntax_ok.
    assert (Hc : is_digit c = true) by (cbn in Hd; apply andb_true_iff in Hd; tauto).
    rewrite (is_digit_not_sign c Hc). rewrite all_digits_forallb. exact Hd.
Qed.

Lemma rd_nat_lt_atoi : forall b s n, rd_nat_lt b s = Some n -> b <= two63 ->
  atoi s = n /\ 0 <= n < b /\ s <> [] /\ forallb is_digit s = true.
Proof.
  intros b s n H Hb. unfold rd_nat_lt in H. destruct (rd_nat s) as [m|] eqn:E; [|discriminate].
  destruct (m <? b) eqn:L; [|discriminate]. inversion H; subst m.
  pose proof (rd_nat_spec _ _ E) as (Hne & Hd & _ & H0).
  split; [apply rd_nat_atoi; [exact E|lia]|]. repeat split; auto; lia.
Qed.

Lemma rd_int_atoi : forall s v, rd_int s = Some v -> - two63 <= v < two63 -> atoi s = v.
Proof.
  intros s v H Hv. unfold rd_int in H.
  destruct s as [|c r]; [discriminate|].
  destruct (Z.eq_dec c 45) as [->|Hc].
  - destruct (rd_nat r) as [m|] eqn:E; [|discriminate]. inversion H; subst v.
    apply rd_nat_spec in E. destruct E as (Hne & Hd & Hval & H0).
    rewrite atoi_syntax_ok_value.
    + change (45 =? 45) with true. cbv zeta. rewrite Hval. unfold two63, max_int64, min_int64 in *.
      destruct (- m >? 9223372036854775807) eqn:G1; destruct (- m <? -9223372036854775808) eqn:G2; lia.
    + unfold atoi_syntax_ok. change ((45 =? 43) || (45 =? 45)) with true.
      rewrite all_digits_forallb, Hd. destruct r; [congruence|reflexivity].
  - assert (H' : rd_nat (c :: r) = Some v).
    { destruct c as [|p|p]; try exact H.
      do 6 (destruct p as [p|p|]; try exact H); congruence. }
    apply rd_nat_atoi; [exact H'|lia].
Qed.

(* ---------------------------------------------------------------- itoa *)
Lemma itoa_nonneg_digits n : 0 <= n ->
  itoa n <> [] /\ forallb is_digit (itoa n) = true /\ digits_value (itoa n) 0 = n.
Proof.
  intros H. destruct (itoa_nonneg_repr n H) as (Hne & Hall & Hval).
  split; [exact Hne|]. split; [rewrite <- all_digits_forallb; exact Hall|]. rewrite Hval. lia.
Qed.

Lemma rd_nat_itoa n : 0 <= n -> rd_nat (itoa n) = Some n.
Proof.
  intros H. destruct (itoa_nonneg_digits n H) as (Hne & Hd & Hv).
  unfold rd_nat. destruct (itoa n) as [|c r] eqn:E; [congruence|].
  rewrite (rd_digits_complete _ 0 Hd), Hv. reflexivity.
Qed.

Lemma rd_nat_lt_itoa b n : 0 <= n < b -> rd_nat_lt b (itoa n) = Some n.
Proof.
  intros H. unfold rd_nat_lt. rewrite rd_nat_itoa by lia.
  destruct (n <? b) eqn:E; [reflexivity|lia].
Qed.

Lemma itoa_neg n : n < 0 -> itoa n = 45 :: itoa (- n).
Proof.
  intros H. unfold itoa. destruct (n <? 0) eqn:E; [|lia].
  destruct (- n <? 0) eqn:E2; [lia|]. reflexivity.
Qed.

Lemma itoa_head_digit n : 0 <= n -> exists c r, itoa n = c :: r /\ is_digit c = true.
Proof.
  intros H. destruct (itoa_nonneg_digits n H) as (Hne & Hd & _).
  destruct (itoa n) as [|c r]; [congruence|]. exists c, r. split; [reflexivity|].
  cbn in Hd. apply andb_true_iff in Hd. tauto.
Qed.

Lemma rd_int_itoa z : rd_int (itoa z) = Some z.
Proof.
  destruct (Z_lt_le_dec z 0) as [H|H].
  - rewrite itoa_neg by lia. cbn [rd_int]. rewrite rd_nat_itoa by lia. f_equal. lia.
  - destruct (itoa_head_digit z H) as (c & r & E & Hc). unfold rd_int.
    rewrite <- (rd_nat_itoa z H). rewrite E.
    unfold is_digit in Hc.
    destruct c as [|p|p]; try reflexivity.
    do 6 (destruct p as [p|p|]; try reflexivity). cbn in Hc. discriminate.
Qed.

Lemma rd_int32_itoa z : - two31 <= z < two31 -> rd_int32 (itoa z) = Some z.
Proof.
  intros H. unfold rd_int32. rewrite rd_int_itoa.
  destruct ((- two31 <=? z) && (z <? two31)) eqn:E; [reflexivity|]. unfold two31 in *. lia.
Qed.

(* the characters of a decimal: digits, after an optional leading minus sign *)
Definition dec_char (c : Z) : bool := is_digit c || (c =? 45).
Lemma itoa_chars z : forallb dec_char (itoa z) = true.
Proof.
  assert (P : forall n, 0 <= n -> forallb dec_char (itoa n) = true).
  { intros n H. destruct (itoa_nonneg_digits n H) as (_ & Hd & _).
    rewrite forallb_forall in *. intros x Hx. unfold dec_char. rewrite (Hd x Hx). reflexivity. }
  destruct (Z_lt_le_dec z 0) as [H|H]; [|apply P; exact H].
  rewrite itoa_neg by lia. cbn [forallb]. rewrite P by lia. reflexivity.
Qed.
Lemma itoa_nonempty z : itoa z <> [].
Proof.
  destruct (Z_lt_le_dec z 0) as [H|H]; [rewrite itoa_neg by lia; discriminate|].
  apply (itoa_nonneg_digits z H).
Qed.

(* ---------------------------------------------------------------- split / cut / fields *)
Lemma fields_nonempty : forall sep s, fields sep s <> [].
Proof.
  induction s as [|c r IH]; cbn [fields]; [discriminate|].
  destruct (c =? sep); [discriminate|]. destruct (fields sep r); discriminate.
Qed.

Lemma split_on_aux_fields : forall sep s cur,
  split_on_aux sep s cur =
  match fields sep s with f :: fs => (rev cur ++ f) :: fs | [] => [rev cur] end.
Proof.
  induction s as [|c r IH]; intros cur; cbn [split_on_aux fields].
  - rewrite app_nil_r. reflexivity.
  - pose proof (fields_nonempty sep r) as NE.
    destruct (c =? sep).
    + rewrite IH. cbn [rev app]. rewrite app_nil_r.
      destruct (fields sep r) as [|f fs] eqn:E; [congruence|reflexivity].
    + rewrite IH. cbn [rev]. destruct (fields sep r) as [|f fs] eqn:E; [congruence|].
      rewrite <- app_assoc. reflexivity.
Qed.

(* strings.Split with a one-byte separator is the reference reader's [fields] *)
Lemma split_on_fields sep s : split_on sep s = fields sep s.
Proof.
  unfold split_on. rewrite split_on_aux_fields. cbn [rev app].
  destruct (fields sep s) eqn:E; [exfalso; eapply fields_nonempty; eauto | reflexivity].
Qed.

Lemma fields_no_sep sep s : forallb (fun c => negb (c =? sep)) s = true -> fields sep s = [s].
Proof.
  induction s as [|c r IH]; intros H; cbn [fields]; [reflexivity|].
  cbn [forallb] in H. apply andb_true_iff in H. destruct H as [Hc Hr].
  destruct (c =? sep); [discriminate|]. rewrite (IH Hr). reflexivity.
Qed.

Lemma fields_app_sep sep a b : forallb (fun c => negb (c =? sep)) a = true ->
  fields sep (a ++ sep :: b) = a :: fields sep b.
Proof.
  induction a as [|c r IH]; intros H; cbn [app fields].
  - rewrite Z.eqb_refl. reflexivity.
  - cbn [forallb] in H. apply andb_true_iff in H. destruct H as [Hc Hr].
    destruct (c =? sep); [discriminate|]. rewrite (IH Hr). reflexivity.
Qed.

Lemma cut_at_app sep a b : forallb (fun c => negb (c =? sep)) a = true ->
  cut_at sep (a ++ sep :: b) = Some (a, b).
Proof.
  induction a as [|c r IH]; intros H; cbn [app cut_at].
  - rewrite Z.eqb_refl. reflexivity.
  - cbn [forallb] in H. apply andb_true_iff in H. destruct H as [Hc Hr].
    destruct (c =? sep); [discriminate|]. rewrite (IH Hr). reflexivity.
Qed.

Lemma cut_at_spec : forall sep s a b, cut_at sep s = Some (a, b) ->
  s = a ++ sep :: b /\ forallb (fun c => negb (c =? sep)) a = true.
Proof.
  induction s as [|c r IH]; intros a b H; cbn [cut_at] in H; [discriminate|].
  destruct (c =? sep) eqn:E.
  - inversion H; subst. apply Z.eqb_eq in E. subst. split; reflexivity.
  - destruct (cut_at sep r) as [[a' b']|] eqn:C; [|discriminate]. inversion H; subst.
    destruct (IH _ _ eq_refl) as [-> Hf]. split; [reflexivity|]. cbn [forallb]. rewrite E, Hf. reflexivity.
Qed.

Lemma cut_at_none : forall sep s, cut_at sep s = None -> forallb (fun c => negb (c =? sep)) s = true.
Proof.
  induction s as [|c r IH]; intros H; cbn [cut_at] in H; [reflexivity|].
  destruct (c =? sep) eqn:E; [discriminate|].
  destruct (cut_at sep r) as [[a b]|] eqn:C; [discriminate|]. cbn [forallb]. rewrite E, (IH eq_refl). reflexivity.
Qed.

Lemma forallb_impl {A} (p q : A -> bool) l :
  (forall x, p x = true -> q x = true) -> forallb p l = true -> forallb q l = true.
Proof. intros I H. rewrite forallb_forall in *. auto. Qed.

Lemma forallb_app_true {A} (p : A -> bool) a b :
  forallb p a = true -> forallb p b = true -> forallb p (a ++ b) = true.
Proof. intros. rewrite forallb_app. rewrite H, H0. reflexivity. Qed.

(* drop_prefix on a concatenation; incompatible prefixes *)
Lemma drop_prefix_app p r : drop_prefix p (p ++ r) = Some r.
Proof. induction p as [|c p IH]; cbn [app drop_prefix]; [reflexivity|]. rewrite Z.eqb_refl. exact IH. Qed.

Lemma drop_prefix_spec : forall p s r, drop_prefix p s = Some r -> s = p ++ r.
Proof.
  induction p as [|c p IH]; intros s r H; cbn [drop_prefix] in H.
  - inversion H. reflexivity.
  - destruct s as [|d s]; [discriminate|]. destruct (c =? d) eqn:E; [|discriminate].
    apply Z.eqb_eq in E. subst. cbn [app]. f_equal. apply IH. exact H.
Qed.

(* neither string is a prefix of the other: they differ at a common position *)
Fixpoint clash (a b : list Z) : bool :=
  match a, b with
  | x :: a', y :: b' => negb (x =? y) || clash a' b'
  | _, _ => false
  end.
Lemma clash_drop_prefix : forall q p r, clash q p = true -> drop_prefix q (p ++ r) = None.
Proof.
  induction q as [|x q IH]; intros p r H; [discriminate|].
  destruct p as [|y p]; [discriminate|]. cbn [clash] in H. cbn [app drop_prefix].
  destruct (x =? y) eqn:E; [|reflexivity]. cbn in H. apply IH. exact H.
Qed.
Lemma clash_neq : forall a p r, clash a p = true -> bytes_eqb (p ++ r) a = false.
Proof.
  induction a as [|x a IH]; intros p r H; [discriminate|].
  destruct p as [|y p]; [discriminate|]. cbn [clash] in H. cbn [app].
  unfold bytes_eqb. cbn [list_eqb]. destruct (x =? y) eqn:E.
  - cbn in H. rewrite Z.eqb_sym, E. cbn. apply IH. exact H.
  - rewrite Z.eqb_sym, E. reflexivity.
Qed.
