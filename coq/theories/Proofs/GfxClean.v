(* Clean runs: the encoder's lines for one id form chunks 0..T-1 of one transfer whose
   payloads concatenate to the image data; hence clean_batch. *)
From RP Require Import Lib.Base Lib.Sexp Lib.Strings Lib.B64 Model.Gfx Spec.Transfer
  Proofs.GfxNum Proofs.GfxB64 Proofs.GfxMatch Proofs.GfxBatch.
From Coq Require Import String.
Open Scope Z_scope.
Open Scope list_scope.


Lemma gfx_ok_wf g : gfx_ok g -> gfx_wf g.
Proof. unfold gfx_ok, gfx_wf. intuition lia. Qed.

Lemma wrap32_id n : 0 <= n < 4294967296 -> wrap32 n = n.
Proof. intros. unfold wrap32. apply Z.mod_small. lia. Qed.

Lemma u32_atoi_itoa n : 0 <= n < 4294967296 -> wrap32 (atoi (itoa n)) = n.
Proof. intros. rewrite atoi_itoa by (unfold max_int64; lia). apply wrap32_id. lia. Qed.

Lemma split_on_aux_nosep sep : forall s cur,
  existsb (Z.eqb sep) s = false -> split_on_aux sep s cur = [rev cur ++ s].
Proof.
  induction s as [|c r IH]; intros cur H; cbn [split_on_aux].
  - rewrite app_nil_r. reflexivity.
  - cbn in H. apply orb_false_iff in H. destruct H as [H1 H2].
    rewrite Z.eqb_sym, H1. rewrite IH by exact H2. cbn [rev]. rewrite <- app_assoc. reflexivity.
Qed.

Lemma digits_no_comma s : forallb is_digit s = true -> existsb (Z.eqb 44) s = false.
Proof.
  induction s as [|c r IH]; cbn [existsb forallb]; auto. intros H. apply andb_true_iff in H. destruct H as [H1 H2].
  rewrite (IH H2), orb_false_r. unfold is_digit in H1. apply andb_true_iff in H1.
  destruct H1 as [Ha Hb]. apply Z.leb_le in Ha. apply Z.eqb_neq. lia.
Qed.

Lemma int_explode_itoa i : id_ok i -> int_explode (itoa i) = [i].
Proof.
  intros Hi. unfold int_explode, split_on.
  destruct (itoa_digits i) as [Hd _]; [unfold id_ok in Hi; lia|].
  rewrite split_on_aux_nosep by (apply digits_no_comma; exact Hd).
  cbn [rev app map]. rewrite u32_atoi_itoa by exact Hi. reflexivity.
Qed.

(* ---- chunk data ---- *)
Lemma chunk_data_nat (data : list Z) (j : nat) : chunk_data data (Z.of_nat j) = firstn 170 (skipn (170 * j) data).
Proof. unfold chunk_data. f_equal. f_equal. lia. Qed.

Lemma skipn_skipn {A} : forall a b (l : list A), skipn a (skipn b l) = skipn (b + a) l.
Proof.
  intros a b. induction b; intros l; cbn [skipn plus]; auto.
  destruct l; [destruct a; reflexivity|]. apply IHb.
Qed.

Lemma chunk_split (data : list Z) (j : nat) :
  skipn (170 * j) data = firstn 170 (skipn (170 * j) data) ++ skipn (170 * Datatypes.S j) data.
Proof.
  replace (170 * Datatypes.S j)%nat with (170 * j + 170)%nat by lia.
  rewrite <- skipn_skipn. symmetry. apply firstn_skipn.
Qed.

Lemma total_lines_bounds len : 0 <= len ->
  170 * (total_lines len - 1) < len <= 170 * total_lines len \/ (len = 0 /\ total_lines len = 0).
Proof.
  intros H. unfold total_lines.
  pose proof (Z.div_mod (len + 169) 170 ltac:(lia)).
  pose proof (Z.mod_pos_bound (len + 169) 170 ltac:(lia)).
  destruct (Z.eq_dec len 0); [right; subst; split; reflexivity | left; lia].
Qed.

Section OneId.
  Variables (g : gfx) (id : Z).
  Hypothesis Hg : gfx_ok g.
  Hypothesis Hid : id_ok id.
  Let total := total_lines (zlen (g_data g)).
  Let cmd := cmd_string (g_type g) ++ str "#".

  Lemma cmd_is_cmd : is_cmd cmd /\ type_of_cmd cmd = g_type g.
  Proof.
    destruct (cmd_string_hash (g_type g)) as [c [H1 [H2 H3]]]. unfold cmd. rewrite H2.
    split; [exact H1 | apply H3; destruct Hg; lia].
  Qed.

  Definition line_sm (k : Z) : gfx_sm :=
    mkSm cmd (itoa id) (itoa k) (if k =? 0 then enc_adv g total else None)
         (b64_encode (chunk_data (g_data g) k)).

  Lemma total_small : total <= zlen (g_data g) < 2 ^ 53.
  Proof.
    destruct Hg as [_ [_ [_ [_ [_ [_ Hl]]]]]]. split; [|exact Hl].
    unfold total. pose proof (zlen_nonneg (g_data g)).
    destruct (total_lines_bounds (zlen (g_data g)) H) as [Hb | [H0 Ht]]; lia.
  Qed.

  Lemma line_is_chunk k : 0 <= k < total ->
    is_chunk cmd (itoa id) k (chunk_line g id total k) (line_sm k).
  Proof.
    intros Hk. destruct cmd_is_cmd as [Hc _]. split.
    - apply gfx_match_chunk_line; auto; [apply gfx_ok_wf, Hg | unfold id_ok in Hid; lia | lia | lia].
    - repeat split. unfold sm_index, line_sm. cbn [sm_idx].
      apply atoi_itoa. unfold max_int64. pose proof total_small. lia.
  Qed.

  Lemma line_payload k : b64_decode (sm_payload (line_sm k)) = chunk_data (g_data g) k.
  Proof.
    unfold line_sm. cbn [sm_payload]. apply b64_roundtrip. unfold chunk_data.
    apply bytes_ok_firstn, bytes_ok_skipn. apply Hg.
  Qed.

  (* lines j .. total-1 are chunks j .. total-1; their payloads are the data from 170*j on *)
  Lemma lines_tail_run : forall n j, (1 <= j)%nat -> Z.of_nat (j + n) = total ->
    tail_run cmd (itoa id) (Z.of_nat j - 1) (total - 1)
             (map (fun k => chunk_line g id total (Z.of_nat k)) (seq j n))
             (skipn (170 * j) (g_data g)).
  Proof.
    induction n as [|n IH]; intros j Hj Hsum.
    - cbn [seq map]. replace (Z.of_nat j - 1) with (total - 1) by lia.
      rewrite skipn_all2; [constructor|].
      pose proof (zlen_nonneg (g_data g)) as Hn.
      destruct (total_lines_bounds _ Hn) as [Hb | [H0 Ht]]; unfold total in *; unfold zlen in *; lia.
    - cbn [seq map]. rewrite (chunk_split (g_data g) j).
      rewrite <- chunk_data_nat, <- (line_payload (Z.of_nat j)).
      apply (tr_cons cmd (itoa id) (Z.of_nat j - 1) (total - 1) _ (line_sm (Z.of_nat j))).
      + lia.
      + replace (Z.of_nat j - 1 + 1) with (Z.of_nat j) by lia. apply line_is_chunk. lia.
      + replace (Z.of_nat j - 1 + 1) with (Z.of_nat (Datatypes.S j) - 1) by lia.
        apply IH; lia.
  Qed.

  Definition sent_image : gfx := gfx_norm g.

  Lemma new_image_line0 : 1 <= total ->
    gfx_append (sm_new_image (line_sm 0)) (g_data g) = sent_image.
  Proof.
    intros Ht. destruct cmd_is_cmd as [_ Hty].
    destruct Hg as [_ [Hw [Hh [Hx [Hy _]]]]].
    unfold sm_new_image, line_sm, sent_image, gfx_norm, gfx_append, enc_adv.
    cbn [sm_adv sm_cmd Z.eqb]. rewrite Hty.
    destruct g as [t w h xy x y d]. cbn [g_type g_w g_h g_xy g_x g_y g_data] in *.
    rewrite !u32_atoi_itoa by lia.
    destruct xy; cbn [app]; rewrite ?u32_atoi_itoa by lia; reflexivity.
  Qed.

  Theorem gfx_lines_full_run : 1 <= zlen (g_data g) ->
    full_run cmd (itoa id) (total - 1) (gfx_lines g id) (line_sm 0) (g_data g)
    /\ sm_max (line_sm 0) = total - 1.
  Proof.
    intros Hlen.
    assert (Ht : 1 <= total).
    { destruct (total_lines_bounds (zlen (g_data g)) ltac:(lia)) as [Hb | [H0 _]]; unfold total in *; lia. }
    assert (Hmax : sm_max (line_sm 0) = total - 1).
    { unfold sm_max, line_sm, enc_adv. cbn [sm_adv Z.eqb]. apply atoi_itoa.
      unfold max_int64. pose proof total_small. lia. }
    split; [|exact Hmax].
    unfold gfx_lines. fold total.
    destruct (Z.to_nat total) as [|n] eqn:En; [lia|].
    cbn [seq map]. exists (chunk_line g id total 0), (map (fun k => chunk_line g id total (Z.of_nat k)) (seq 1 n)), (skipn 170 (g_data g)).
    split; [reflexivity|]. split; [apply line_is_chunk; lia|].
    split; [exact Hmax|]. split; [lia|]. split.
    - apply (lines_tail_run n 1%nat); lia.
    - rewrite line_payload. unfold chunk_data. cbn [Z.mul Z.to_nat skipn]. symmetry. apply firstn_skipn.
  Qed.
End OneId.

(* ---- several ids, one after the other: clean_batch ---- *)

Lemma gfx_lines_len g id : gfx_ok g -> id_ok id -> 1 <= zlen (g_data g) ->
  zlen (gfx_lines g id) = total_lines (zlen (g_data g)).
Proof.
  intros Hg Hid Hl. destruct (gfx_lines_full_run g id Hg Hid Hl) as [Hr _].
  apply full_run_len in Hr. lia.
Qed.

Theorem clean_batch_from g ids :
  gfx_ok g -> Forall id_ok ids -> 1 <= zlen (g_data g) -> forall st pos,
  fst (bsteps st pos (flat_map (gfx_lines g) ids))
  = clean_deliveries g (total_lines (zlen (g_data g))) pos ids.
Proof.
  intros Hg Hids Hl. induction Hids as [|i r Hi Hr IH]; intros st pos; [reflexivity|].
  cbn [flat_map clean_deliveries]. rewrite bsteps_app.
  destruct (gfx_lines_full_run g i Hg Hi Hl) as [Hrun Hmax].
  rewrite (full_run_bsteps _ _ _ _ _ _ Hrun st pos).
  rewrite (gfx_lines_len g i Hg Hi Hl).
  specialize (IH (idle_after (total_lines (zlen (g_data g)) - 1) (itoa i)
                             (type_of_cmd (cmd_string (g_type g) ++ str "#")))
                 (pos + total_lines (zlen (g_data g)))).
  destruct (bsteps _ (pos + total_lines (zlen (g_data g))) (flat_map (gfx_lines g) r)) as [db sb].
  cbn [fst app] in *. rewrite IH.
  rewrite (int_explode_itoa i Hi).
  assert (Ht : 1 <= total_lines (zlen (g_data g))).
  { destruct (total_lines_bounds (zlen (g_data g)) ltac:(lia)) as [Hb | [H0 _]]; lia. }
  rewrite (new_image_line0 g i Hg Ht).
  replace (pos + (total_lines (zlen (g_data g)) - 1)) with (pos + total_lines (zlen (g_data g)) - 1) by lia.
  reflexivity.
Qed.

Theorem clean_batch g ids :
  gfx_ok g -> Forall id_ok ids -> 1 <= zlen (g_data g) ->
  batch_gfx (flat_map (gfx_lines g) ids) = clean_deliveries g (total_lines (zlen (g_data g))) 0 ids.
Proof.
  intros. unfold batch_gfx. rewrite batch_gfx_from_bsteps. apply clean_batch_from; assumption.
Qed.

(* an image without data produces no line at all *)
Lemma gfx_lines_empty g id : g_data g = [] -> gfx_lines g id = [].
Proof. intros H. unfold gfx_lines. rewrite H. reflexivity. Qed.

(* every line carries at most 170 payload bytes, and there are ceil(len/170) of them *)
Lemma chunk_len_le_170 data k : zlen (chunk_data data k) <= 170.
Proof.
  unfold chunk_data, zlen. rewrite firstn_length. lia.
Qed.

Lemma chunk_count g id : zlen (gfx_lines g id) = total_lines (zlen (g_data g)).
Proof.
  unfold gfx_lines, zlen. rewrite map_length, seq_length.
  pose proof (Zle_0_nat (List.length (g_data g))).
  assert (0 <= total_lines (Z.of_nat (List.length (g_data g)))).
  { unfold total_lines. apply Z.div_pos; lia. }
  lia.
Qed.

(* ---- other lines do not matter (batch): deliveries = those of the graphics lines alone ---- *)
Definition is_gfx_line (l : list Z) : bool := match gfx_match l with Some _ => true | None => false end.

Lemma bsteps_filter : forall ls st pos,
  map snd (fst (bsteps st pos ls)) = map snd (fst (bsteps st 0 (filter is_gfx_line ls)))
  /\ snd (bsteps st pos ls) = snd (bsteps st 0 (filter is_gfx_line ls)).
Proof.
  assert (Hshift : forall ls st p q, map snd (fst (bsteps st p ls)) = map snd (fst (bsteps st q ls))
                                     /\ snd (bsteps st p ls) = snd (bsteps st q ls)).
  { induction ls as [|l r IH]; intros st p q; [split; reflexivity|].
    cbn [bsteps]. destruct (gfx_line_step st l) as [st' d].
    specialize (IH st' (p + 1) (q + 1)).
    destruct (bsteps st' (p + 1) r) as [d1 f1]. destruct (bsteps st' (q + 1) r) as [d2 f2].
    cbn [fst snd] in *. destruct IH as [IH1 IH2]. destruct d; cbn [map snd]; split; congruence. }
  induction ls as [|l r IH]; intros st pos; [split; reflexivity|].
  cbn [bsteps filter].
  destruct (gfx_match l) as [sm|] eqn:E.
  - assert (Hl : gfx_line_step st l = gfx_step st sm) by (unfold gfx_line_step; rewrite E; reflexivity).
    assert (Hg : is_gfx_line l = true) by (unfold is_gfx_line; rewrite E; reflexivity).
    rewrite Hg. cbn [bsteps]. rewrite !Hl.
    destruct (gfx_step st sm) as [st' d].
    specialize (IH st' (pos + 1)). destruct (Hshift (filter is_gfx_line r) st' 0 (0 + 1)) as [Hs1 Hs2].
    destruct (bsteps st' (pos + 1) r) as [d1 f1].
    destruct (bsteps st' 0 (filter is_gfx_line r)) as [d2 f2].
    destruct (bsteps st' (0 + 1) (filter is_gfx_line r)) as [d3 f3].
    cbn [fst snd] in *. destruct IH as [IH1 IH2].
    destruct d; cbn [map snd]; split; congruence.
  - assert (Hl : gfx_line_step st l = (st, None)) by (unfold gfx_line_step; rewrite E; reflexivity).
    assert (Hg : is_gfx_line l = false) by (unfold is_gfx_line; rewrite E; reflexivity).
    rewrite Hg, !Hl.
    specialize (IH st (pos + 1)). destruct (bsteps st (pos + 1) r) as [d1 f1]. exact IH.
Qed.

Lemma clean_deliveries_snd g T : forall ids p,
  map snd (clean_deliveries g T p ids) = map (fun i => ([i], gfx_norm g)) ids.
Proof. induction ids as [|i r IH]; intros p; [reflexivity|]. cbn [clean_deliveries map snd]. rewrite IH. reflexivity. Qed.

Theorem clean_batch_interleaved g ids ls :
  gfx_ok g -> Forall id_ok ids -> 1 <= zlen (g_data g) ->
  filter is_gfx_line ls = flat_map (gfx_lines g) ids ->
  map snd (batch_gfx ls) = map (fun i => ([i], gfx_norm g)) ids.
Proof.
  intros Hg Hids Hl Hf. unfold batch_gfx. rewrite batch_gfx_from_bsteps.
  destruct (bsteps_filter ls gstate0 0) as [H _]. rewrite H, Hf.
  rewrite (clean_batch_from g ids Hg Hids Hl). apply clean_deliveries_snd.
Qed.
