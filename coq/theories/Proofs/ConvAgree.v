(* C17: graphics states - documented expansion at every covered pixel, for each routine, and
   agreement of the alternative routines. *)
From RP Require Import Lib.Base Model.Mono Model.MonoConv Spec.Clip Spec.TextBox Spec.Conv
  Proofs.ListZ Proofs.PixelProofs Proofs.TextLaws Proofs.ConvLoops Proofs.ConvSweeps Proofs.ConvExports Proofs.ConvRound.
From Coq Require Import ZifyBool.
Ltac Zify.zify_post_hook ::= Z.div_mod_to_equations.

Definition data_ok (data : list Z) : Prop := Forall (fun b => 0 <= b < 256) data.

Lemma data_ok_znth data i : data_ok data -> 0 <= znth 0 data i < 256.
Proof. intros H. apply Forall_znth; auto. lia. Qed.

(* ---------- bit operations = integer arithmetic ---------- *)
Lemma expand_scale v vmax : 0 < vmax -> 0 <= v <= vmax -> expand v vmax = exp_scale v vmax.
Proof.
  intros Hm Hv. unfold expand, exp_scale, map_value, gdiv, wrap8.
  rewrite !Z.sub_0_r, Z.add_0_r. rewrite Z.quot_div_nonneg by nia.
  apply Z.mod_small. split; [apply Z.div_pos; nia|]. apply Z.div_lt_upper_bound; nia.
Qed.

Lemma word_of_bytes a b : 0 <= a -> 0 <= b < 256 -> Z.lor (Z.shiftl a 8) b = a * 256 + b.
Proof.
  intros Ha Hb. rewrite Z.shiftl_mul_pow2 by lia.
  assert (L : Z.land (a * 2 ^ 8) b = 0).
  { apply Z.bits_inj'. intros n Hn. rewrite Z.land_spec, Z.bits_0.
    destruct (Z.ltb_spec n 8).
    - rewrite Z.mul_pow2_bits_low by lia. reflexivity.
    - destruct (Z.eq_dec b 0) as [->|]; [rewrite Z.bits_0; apply andb_false_r|].
      rewrite (Z.bits_above_log2 b n); [apply andb_false_r | lia |].
      assert (Z.log2 b < 8) by (apply Z.log2_lt_pow2; lia). lia. }
  rewrite <- (Z.lxor_lor _ _ L), <- (Z.add_nocarry_lxor _ _ L). reflexivity.
Qed.

Lemma land_shiftr_mod v s m k : 0 <= s -> 0 <= k -> m = Z.ones k -> Z.land (Z.shiftr v s) m = (v / 2 ^ s) mod 2 ^ k.
Proof. intros Hs Hk ->. rewrite Z.land_ones by lia. rewrite Z.shiftr_div_pow2 by lia. reflexivity. Qed.

Lemma mono_at_px w data x y : 0 <= w -> 0 <= x ->
  (Z.land (znth 0 data (y * ceil_div8 w + gdiv x 8)) (wrap8 (Z.shiftl 1 (7 - gmod x 8))) >? 0) = px ((w + 7) / 8) data x y.
Proof.
  intros Hw Hx.
  assert (E : ceil_div8 w = (w + 7) / 8) by (unfold ceil_div8; destruct (Z.ltb_spec w 0); lia).
  rewrite E. apply (mono_bit_px ((w + 7) / 8) data x y Hx).
Qed.

(* ---------- a covered cell holds the documented expansion ---------- *)
Theorem cell_expansion ty W data x y :
  0 <= W -> 0 <= x < W -> 0 <= y -> data_ok data ->
  cell_at (zlen data) (znth 0 data) ty W x y =
  if covered ty W (zlen data) x y then Some (expansion ty W data x y) else None.
Proof.
  intros HW Hx Hy Hd. unfold cell_at, covered, expansion, expansion_p.
  assert (Hk : 0 <= y * W + x) by nia.
  destruct (Z.eqb_spec ty 1) as [->|N1].
  { unfold rgb_at.
    replace ((y * W + x) * 2 + 1 <? zlen data) with (2 * (y * W + x) + 1 <? zlen data) by lia.
    destruct (2 * (y * W + x) + 1 <? zlen data); [|reflexivity].
    replace ((y * W + x) * 2) with (2 * (y * W + x)) by lia.
    pose proof (data_ok_znth data (2 * (y * W + x)) Hd) as Ha.
    pose proof (data_ok_znth data (2 * (y * W + x) + 1) Hd) as Hb.
    rewrite word_of_bytes by lia.
    set (v := znth 0 data (2 * (y * W + x)) * 256 + znth 0 data (2 * (y * W + x) + 1)).
    assert (Hv : 0 <= v < 65536) by (unfold v; lia).
    replace (Z.land v 31) with (v mod 32) by (change 31 with (Z.ones 5); rewrite Z.land_ones by lia; reflexivity).
    rewrite (land_shiftr_mod v 5 63 6), (land_shiftr_mod v 11 31 5) by (try lia; reflexivity).
    change (2 ^ 5) with 32. change (2 ^ 6) with 64. change (2 ^ 11) with 2048.
    rewrite !expand_scale by lia. reflexivity. }
  destruct (Z.eqb_spec ty 2) as [->|N2].
  { unfold gray_at, gdiv, gmod. rewrite Z.quot_div_nonneg, Z.rem_mod_nonneg by lia.
    destruct ((y * W + x) / 2 <? zlen data); [|reflexivity].
    unfold nibble_get.
    pose proof (data_ok_znth data ((y * W + x) / 2) Hd) as Hb.
    set (b := znth 0 data ((y * W + x) / 2)) in *.
    replace (Z.land (Z.shiftr b 4) 15) with (b / 16)
      by (rewrite (land_shiftr_mod b 4 15 4) by (try lia; reflexivity); change (2 ^ 4) with 16; lia).
    replace (Z.land b 15) with (b mod 16) by (change 15 with (Z.ones 4); rewrite Z.land_ones by lia; reflexivity).
    destruct ((y * W + x) mod 2 =? 0); rewrite !expand_scale by lia; reflexivity. }
  destruct (Z.eqb_spec ty 0) as [->|N0]; [|reflexivity].
  unfold mono_at.
  assert (E : ceil_div8 W = (W + 7) / 8) by (unfold ceil_div8; destruct (Z.ltb_spec W 0); lia).
  rewrite E.
  fold (mono_bit ((W + 7) / 8) data x y). rewrite mono_bit_px by lia.
  unfold gdiv. rewrite Z.quot_div_nonneg by lia.
  replace ((0 <=? y * ((W + 7) / 8) + x / 8) && (y * ((W + 7) / 8) + x / 8 <? zlen data)) with (y * ((W + 7) / 8) + x / 8 <? zlen data) by nia.
  destruct (y * ((W + 7) / 8) + x / 8 <? zlen data); reflexivity.
Qed.

Lemma rgba_eqb_refl c : rgba_eqb c c = true.
Proof. destruct c as [[[a b] c] d]. unfold rgba_eqb. rewrite !Z.eqb_refl. reflexivity. Qed.

(* ---------- each routine ---------- *)
(* RwpImgToImage: declared canvas size; covered image pixels that land on the canvas show the
   documented expansion at the centred position *)
Theorem rwp_expansion g width height :
  0 <= gw g -> 0 <= gh g -> data_ok (gdata g) ->
  exists r, rwp_to_image_loop g width height = Ok r /\ rw r = width /\ rh r = height /\
    forall x y, 0 <= x < gw g -> 0 <= y < gh g ->
      covered (gtype g) (gw g) (zlen (gdata g)) x y = true ->
      r_in width height (x + centre_offset width (gw g)) (y + centre_offset height (gh g)) = true ->
      rat r (x + centre_offset width (gw g)) (y + centre_offset height (gh g)) = expansion (gtype g) (gw g) (gdata g) x y.
Proof.
  intros Hw Hh Hd. destruct (rwp_to_image_ok g width height Hw Hh) as (r & E & A & B & C).
  exists r. split; auto. split; auto. split; auto.
  intros x y Hx Hy Hc Hin. rewrite C. unfold rwp_at, centre_offset, gdiv in *. rewrite Hin.
  replace (x + Z.quot (width - gw g) 2 - Z.quot (width - gw g) 2) with x by lia.
  replace (y + Z.quot (height - gh g) 2 - Z.quot (height - gh g) 2) with y by lia.
  replace (r_in (gw g) (gh g) x y) with true by (unfold r_in; lia).
  rewrite cell_expansion by (auto; lia). rewrite Hc. reflexivity.
Qed.

(* padded mono data read like the original wherever the original covers *)
Lemma px_pad_mono w h data x y : 0 <= w -> 0 <= x < w -> 0 <= y ->
  covered 0 w (zlen data) x y = true ->
  px ((w + 7) / 8) (pad_mono w h data) x y = px ((w + 7) / 8) data x y.
Proof.
  intros Hw Hx Hy Hc. unfold covered in Hc. cbn [Z.eqb] in Hc.
  unfold pad_mono. destruct (zlen data <? ceil_div8 w * h); [|reflexivity].
  unfold px. f_equal. unfold znth.
  assert (0 <= y * ((w + 7) / 8) + x / 8) by nia.
  destruct (Z.ltb_spec (y * ((w + 7) / 8) + x / 8) 0); try lia.
  apply app_nth1. unfold zlen in Hc. lia.
Qed.

Lemma zlen_pad_mono w h data : 0 <= w -> 0 <= h -> (w + 7) / 8 * h <= zlen (pad_mono w h data).
Proof.
  intros Hw Hh. unfold pad_mono.
  assert (E : ceil_div8 w = (w + 7) / 8) by (unfold ceil_div8; destruct (Z.ltb_spec w 0); lia).
  rewrite E. destruct (Z.ltb_spec (zlen data) ((w + 7) / 8 * h)); [|lia].
  rewrite zlen_app, zlen_zrepeat by lia. lia.
Qed.

(* ConvertGfxStateToPngBytes (image handed to the encoder): declared size; covered pixels show
   the expansion, for the three formats and ANY data length (after the F15 repair) *)
Theorem gfx_state_expansion g :
  0 <= gw g -> 0 <= gh g -> data_ok (gdata g) ->
  gtype g = 0 \/ gtype g = 1 \/ gtype g = 2 ->
  exists r, gfx_state_image_loop g = Ok (Some r) /\ rw r = gw g /\ rh r = gh g /\
    forall x y, 0 <= x < gw g -> 0 <= y < gh g ->
      covered (gtype g) (gw g) (zlen (gdata g)) x y = true ->
      rat r x y = expansion (gtype g) (gw g) (gdata g) x y.
Proof.
  intros Hw Hh Hd Hty. destruct (gfx_state_ok g Hw Hh) as (o & E & P).
  destruct o as [r|]; [|destruct P as (? & ? & ?); lia].
  destruct P as (_ & A & B & C). exists r. split; auto. split; auto. split; auto.
  intros x y Hx Hy Hc. rewrite C. unfold gfx_state_at.
  destruct Hty as [T | [T | T]]; rewrite T in *.
  - cbn [Z.eqb]. pose proof (zlen_pad_mono (gw g) (gh g) (gdata g) Hw Hh) as L.
    unfold create_from_bytes, new_image, ceil_div8.
    destruct (Z.ltb_spec (gw g) 0); try lia. cbn [ig gwib].
    destruct (Z.gtb_spec ((gw g + 7) / 8 * gh g) (zlen (pad_mono (gw g) (gh g) (gdata g)))); try lia.
    cbn [fst idata ig gwib]. unfold to_image_at.
    replace (r_in (gw g) (gh g) x y) with true by (unfold r_in; lia).
    rewrite to_image_bit by lia. rewrite px_pad_mono by (auto; lia). unfold expansion, expansion_p. cbn [Z.eqb].
    change (Z.testbit (znth 0 (gdata g) (y * ((gw g + 7) / 8) + x / 8)) (7 - x mod 8)) with (px ((gw g + 7) / 8) (gdata g) x y).
    destruct (px ((gw g + 7) / 8) (gdata g) x y); reflexivity.
  - cbn [Z.eqb]. unfold img_from_at. replace (r_in (gw g) (gh g) x y) with true by (unfold r_in; lia).
    rewrite cell_expansion by (auto; lia). rewrite Hc. reflexivity.
  - cbn [Z.eqb]. unfold img_from_at. replace (r_in (gw g) (gh g) x y) with true by (unfold r_in; lia).
    rewrite cell_expansion by (auto; lia). rewrite Hc. reflexivity.
Qed.

(* routines agree on covered pixels *)
Theorem routines_agree g width height :
  0 <= gw g -> 0 <= gh g -> data_ok (gdata g) ->
  gtype g = 0 \/ gtype g = 1 \/ gtype g = 2 ->
  exists r1 r2, rwp_to_image_loop g width height = Ok r1 /\ gfx_state_image_loop g = Ok (Some r2) /\
    agree_ok (gtype g) (gw g) (gh g) (zlen (gdata g)) width height
             (centre_offset width (gw g)) (centre_offset height (gh g)) (rat r1) (rat r2) = true.
Proof.
  intros Hw Hh Hd Hty.
  destruct (rwp_expansion g width height Hw Hh Hd) as (r1 & E1 & _ & _ & P1).
  destruct (gfx_state_expansion g Hw Hh Hd Hty) as (r2 & E2 & _ & _ & P2).
  exists r1, r2. split; auto. split; auto.
  unfold agree_ok. apply all_rect_intro. intros x y Hx Hy.
  destruct (covered (gtype g) (gw g) (zlen (gdata g)) x y) eqn:Hc; [|reflexivity].
  destruct (r_in width height _ _) eqn:Hin; [|reflexivity]. cbn [andb negb orb].
  rewrite P1, P2 by (auto; lia). apply rgba_eqb_refl.
Qed.

Theorem expansion_ok_rwp g width height :
  0 <= gw g -> 0 <= gh g -> data_ok (gdata g) ->
  exists r, rwp_to_image_loop g width height = Ok r /\
    expansion_ok (gtype g) (gw g) (gh g) (gdata g)
      (fun x y => if r_in width height (x + centre_offset width (gw g)) (y + centre_offset height (gh g))
                  then rat r (x + centre_offset width (gw g)) (y + centre_offset height (gh g))
                  else expansion (gtype g) (gw g) (gdata g) x y) = true.
Proof.
  intros Hw Hh Hd. destruct (rwp_expansion g width height Hw Hh Hd) as (r & E & _ & _ & P).
  exists r. split; auto. unfold expansion_ok, expansion_ok_p. apply all_rect_intro. intros x y Hx Hy.
  destruct (covered _ _ _ x y) eqn:Hc; [|reflexivity]. cbn [negb orb].
  destruct (r_in width height _ _) eqn:Hin.
  - rewrite P by (auto; lia). apply rgba_eqb_refl.
  - apply rgba_eqb_refl.
Qed.

Theorem expansion_ok_gfx g :
  0 <= gw g -> 0 <= gh g -> data_ok (gdata g) ->
  gtype g = 0 \/ gtype g = 1 \/ gtype g = 2 ->
  exists r, gfx_state_image_loop g = Ok (Some r) /\ rw r = gw g /\ rh r = gh g /\
    expansion_ok (gtype g) (gw g) (gh g) (gdata g) (rat r) = true.
Proof.
  intros Hw Hh Hd Hty. destruct (gfx_state_expansion g Hw Hh Hd Hty) as (r & E & A & B & P).
  exists r. split; auto. split; auto. split; auto. unfold expansion_ok, expansion_ok_p. apply all_rect_intro. intros x y Hx Hy.
  destruct (covered _ _ _ x y) eqn:Hc; [|reflexivity]. cbn [negb orb].
  rewrite P by (auto; lia). apply rgba_eqb_refl.
Qed.

(* F15 (repaired in /repo 645e4d4): MONO 16x4 with 3 bytes of data - the PNG route used to show
   black at the covered pixel (0,0); now both routes show it white *)
Definition f15_gfx : gfx := mkGfx 0 16 4 [255; 255; 255].
Lemma f15_regression :
  exists r1 r2, rwp_to_image_loop f15_gfx 16 4 = Ok r1 /\ gfx_state_image_loop f15_gfx = Ok (Some r2) /\
    covered 0 16 3 0 0 = true /\ rat r1 0 0 = c_white /\ rat r2 0 0 = c_white /\ rat r2 8 1 = c_black.
Proof.
  destruct (rwp_to_image_ok f15_gfx 16 4 ltac:(simpl; lia) ltac:(simpl; lia)) as (r1 & E1 & _ & _ & C1).
  destruct (gfx_state_ok f15_gfx ltac:(simpl; lia) ltac:(simpl; lia)) as (o & E2 & P).
  destruct o as [r2|]; [|destruct P as (P & _); exfalso; apply P; reflexivity].
  destruct P as (_ & _ & _ & C2).
  exists r1, r2. split; auto. split; auto. split; [reflexivity|].
  split; [rewrite C1; reflexivity|]. split; rewrite C2; reflexivity.
Qed.
