(* The regex matcher reads back what the encoder prints: gfx_match (render ...) = Some ... *)
From RP Require Import Lib.Base Lib.Sexp Lib.Strings Lib.B64 Model.Gfx Proofs.GfxNum Proofs.GfxB64.
From Coq Require Import String.
Open Scope Z_scope.
Open Scope list_scope.

Definition render_hdr (adv : option (list Z * list Z * list Z * option (list Z * list Z))) : list Z :=
  match adv with
  | None => []
  | Some (mx, w, h, off) =>
    [47] ++ mx ++ [44] ++ w ++ [120] ++ h
    ++ match off with None => [] | Some (x, y) => [44] ++ x ++ [44] ++ y end
  end.

Definition render (cmd lst idx : list Z) adv (pay : list Z) : list Z :=
  cmd ++ lst ++ [61] ++ idx ++ render_hdr adv ++ [58] ++ pay.

Definition digit_str (s : list Z) : Prop := forallb is_digit s = true /\ s <> [].

Definition adv_ok (adv : option (list Z * list Z * list Z * option (list Z * list Z))) : Prop :=
  match adv with
  | None => True
  | Some (mx, w, h, off) =>
    digit_str mx /\ digit_str w /\ digit_str h /\
    match off with None => True | Some (x, y) => digit_str x /\ digit_str y end
  end.

Definition is_cmd (cmd : list Z) : Prop :=
  cmd = str "HWCg#" \/ cmd = str "HWCgRGB#" \/ cmd = str "HWCgGray#".

Lemma gfx_prefix_cmd cmd rest : is_cmd cmd -> gfx_prefix (cmd ++ rest) = Some (cmd, rest).
Proof. intros [-> | [-> | ->]]; reflexivity. Qed.

Lemma take_digits1_stop d c r :
  digit_str d -> is_digit c = false -> take_digits1 (d ++ c :: r) = Some (d, c :: r).
Proof.
  intros [Hd Hne] Hc. unfold take_digits1. rewrite (span_app_stop is_digit d c r Hd Hc).
  destruct d; [congruence | reflexivity].
Qed.

Lemma is_digit_listch c : is_digit c = true -> is_listch c = true.
Proof. unfold is_listch. intros ->. reflexivity. Qed.

Lemma forallb_impl {A} (p q : A -> bool) l :
  (forall x, p x = true -> q x = true) -> forallb p l = true -> forallb q l = true.
Proof.
  intros Hpq. induction l; cbn; auto. intros H. apply andb_true_iff in H. destruct H as [H1 H2].
  rewrite (Hpq _ H1), (IHl H2). reflexivity.
Qed.

Theorem gfx_match_render cmd lst idx adv pay :
  is_cmd cmd -> forallb is_listch lst = true -> lst <> [] -> digit_str idx -> adv_ok adv ->
  payload_ok pay = true ->
  gfx_match (render cmd lst idx adv pay) = Some (mkSm cmd lst idx adv pay).
Proof.
  intros Hcmd Hlst Hne Hidx Hadv Hpay.
  unfold render, gfx_match.
  rewrite (gfx_prefix_cmd cmd _ Hcmd). cbn [obind].
  cbn [app]. rewrite (span_app_stop is_listch lst 61 _ Hlst eq_refl).
  destruct lst as [|l0 lst']; [congruence|].
  cbn [expect Z.eqb Pos.eqb obind].
  destruct adv as [[[[mx w] h] [[x y]|]]|]; cbn [render_hdr app];
    repeat (rewrite <- !app_assoc; cbn [app]).
  - destruct Hadv as [Hmx [Hw [Hh [Hx Hy]]]].
    rewrite (take_digits1_stop idx 47 _ Hidx eq_refl). cbn [obind].
    rewrite (take_digits1_stop mx 44 _ Hmx eq_refl). cbn [obind expect Z.eqb Pos.eqb].
    rewrite (take_digits1_stop w 120 _ Hw eq_refl). cbn [obind expect Z.eqb Pos.eqb].
    rewrite (take_digits1_stop h 44 _ Hh eq_refl). cbn [obind].
    rewrite (take_digits1_stop x 44 _ Hx eq_refl). cbn [obind expect Z.eqb Pos.eqb].
    rewrite (take_digits1_stop y 58 _ Hy eq_refl). cbn [obind expect Z.eqb Pos.eqb].
    rewrite Hpay. reflexivity.
  - destruct Hadv as [Hmx [Hw [Hh _]]].
    rewrite (take_digits1_stop idx 47 _ Hidx eq_refl). cbn [obind].
    rewrite (take_digits1_stop mx 44 _ Hmx eq_refl). cbn [obind expect Z.eqb Pos.eqb].
    rewrite (take_digits1_stop w 120 _ Hw eq_refl). cbn [obind expect Z.eqb Pos.eqb].
    rewrite (take_digits1_stop h 58 _ Hh eq_refl). cbn [obind].
    rewrite Hpay. reflexivity.
  - rewrite (take_digits1_stop idx 58 _ Hidx eq_refl). cbn [obind].
    rewrite Hpay. reflexivity.
Qed.

(* ---- the encoder's line is a rendering ---- *)
Lemma cmd_string_hash t : exists cmd, is_cmd cmd /\ cmd_string t ++ str "#" = cmd
                                      /\ (0 <= t <= 2 -> type_of_cmd cmd = t).
Proof.
  unfold cmd_string.
  destruct (t =? 1) eqn:E1; [|destruct (t =? 2) eqn:E2].
  - exists (str "HWCgRGB#"). split; [right; left; reflexivity|]. split; [reflexivity|].
    intros _. apply Z.eqb_eq in E1. subst. reflexivity.
  - exists (str "HWCgGray#"). split; [right; right; reflexivity|]. split; [reflexivity|].
    intros _. apply Z.eqb_eq in E2. subst. reflexivity.
  - exists (str "HWCg#"). split; [left; reflexivity|]. split; [reflexivity|].
    intros H. apply Z.eqb_neq in E1. apply Z.eqb_neq in E2. assert (t = 0) by lia. subst. reflexivity.
Qed.

Lemma itoa_digit_str n : 0 <= n -> digit_str (itoa n).
Proof. intros H. destruct (itoa_digits n H). split; assumption. Qed.

Lemma payload_ok_b64 d : bytes_ok d = true -> payload_ok (b64_encode d) = true.
Proof.
  intros H. unfold payload_ok, contains_byte. apply negb_true_iff.
  pose proof (b64_encode_chars d H) as Hc. rewrite forallb_forall in Hc.
  destruct (existsb (Z.eqb 10) (b64_encode d)) eqn:E; [|reflexivity].
  apply existsb_exists in E. destruct E as [x [Hin Hx]]. apply Z.eqb_eq in Hx. subst x.
  exfalso. apply (b64_outch_not_lf 10 (Hc 10 Hin)). reflexivity.
Qed.

(* header sub-matches printed by the encoder for chunk 0 *)
Definition enc_adv (g : gfx) (total : Z) :=
  Some (itoa (total - 1), itoa (g_w g), itoa (g_h g),
        if g_xy g then Some (itoa (g_x g), itoa (g_y g)) else None).

Lemma chunk_line_render g id total k cmd :
  cmd_string (g_type g) ++ str "#" = cmd ->
  chunk_line g id total k =
  render cmd (itoa id) (itoa k) (if k =? 0 then enc_adv g total else None) (b64_encode (chunk_data (g_data g) k)).
Proof.
  intros <-. unfold chunk_line, render, chunk_header, enc_adv, render_hdr.
  change (str "=") with [61]. change (str ":") with [58]. change (str "/") with [47].
  change (str ",") with [44]. change (str "x") with [120].
  destruct (k =? 0); destruct (g_xy g); rewrite <- ?app_assoc; cbn [app]; rewrite <- ?app_assoc; reflexivity.
Qed.

Definition gfx_wf (g : gfx) : Prop :=
  0 <= g_w g /\ 0 <= g_h g /\ 0 <= g_x g /\ 0 <= g_y g /\ bytes_ok (g_data g) = true.

Lemma bytes_ok_firstn n d : bytes_ok d = true -> bytes_ok (firstn n d) = true.
Proof.
  unfold bytes_ok. revert d. induction n; intros d H; [reflexivity|].
  destruct d; [reflexivity|]. cbn in *. apply andb_true_iff in H. destruct H as [H1 H2].
  rewrite H1, (IHn _ H2). reflexivity.
Qed.

Lemma bytes_ok_skipn n d : bytes_ok d = true -> bytes_ok (skipn n d) = true.
Proof.
  unfold bytes_ok. revert d. induction n; intros d H; [exact H|].
  destruct d; [reflexivity|]. cbn in *. apply andb_true_iff in H. destruct H as [H1 H2]. auto.
Qed.

Theorem gfx_match_chunk_line g id total k cmd :
  cmd_string (g_type g) ++ str "#" = cmd -> is_cmd cmd ->
  gfx_wf g -> 0 <= id -> 0 <= k -> 1 <= total ->
  gfx_match (chunk_line g id total k) =
  Some (mkSm cmd (itoa id) (itoa k) (if k =? 0 then enc_adv g total else None)
             (b64_encode (chunk_data (g_data g) k))).
Proof.
  intros Hc Hcmd [Hw [Hh [Hx [Hy Hd]]]] Hid Hk Ht.
  rewrite (chunk_line_render g id total k cmd Hc).
  apply gfx_match_render; auto.
  - destruct (itoa_digits id Hid) as [H _]. eapply forallb_impl; [apply is_digit_listch | exact H].
  - destruct (itoa_digits id Hid) as [_ H]. exact H.
  - apply itoa_digit_str; lia.
  - destruct (k =? 0); [|exact Logic.I]. unfold enc_adv, adv_ok.
    repeat split; try (apply itoa_digit_str; lia).
    destruct (g_xy g); [split; apply itoa_digit_str; lia | exact Logic.I].
  - apply payload_ok_b64. unfold chunk_data. apply bytes_ok_firstn, bytes_ok_skipn, Hd.
Qed.
