(* The proof obligation that is re-checked against /repo's struct declarations on every run:
   the schema REGENERATED from topology.go is well-formed (every data field is exported and
   visible to JSON, JSON names are valid and unique under case folding, hidden fields are
   mutexes, map keys are integral, no unsupported type). *)
From RP Require Import Lib.Base Lib.Sexp Lib.Strings Lib.JsonTree Gen.TopoSchema Spec.TopoJson Proofs.TopoJson.
Open Scope Z_scope.

Lemma topo_schema_wf : wf_ty topo_schema = true.
Proof. vm_compute. reflexivity. Qed.

Lemma topo_json_roundtrip v :
  has_type topo_schema v = true -> dec topo_schema (enc topo_schema v) = Some (canon topo_schema v).
Proof. apply json_roundtrip_gen, topo_schema_wf. Qed.

Lemma topo_json_fixpoint v :
  has_type topo_schema v = true -> enc topo_schema (canon topo_schema v) = enc topo_schema v.
Proof. apply json_fixpoint_gen, topo_schema_wf. Qed.

Lemma topo_json_same v :
  has_type topo_schema v = true -> veq topo_schema v (canon topo_schema v) = true.
Proof. apply canon_same_gen, topo_schema_wf. Qed.

Lemma topo_json_all v : has_type topo_schema v = true ->
  dec topo_schema (enc topo_schema v) = Some (canon topo_schema v) /\
  enc topo_schema (canon topo_schema v) = enc topo_schema v /\
  veq topo_schema v (canon topo_schema v) = true.
Proof. intros T. split; [apply topo_json_roundtrip | split; [apply topo_json_fixpoint | apply topo_json_same]]; exact T. Qed.
