(* strconv.Itoa / Atoi facts used by the chunk-line proofs: itoa n is a non-empty digit
   string for n >= 0, atoi reads it back, and a digit run followed by a non-digit is split
   exactly there by [span]. *)
From RP Require Import Lib.Base Lib.Sexp Lib.Strings.
Open Scope Z_scope.

Lemma digits_value_app : forall a b acc, digits_value (a ++ b) acc = digits_value b (digits_value a acc).
Proof. induction a; intros; cbn [app digits_value]; auto. Qed.

Lemma all_digits_app : forall a b, all_digits (a ++ b) = all_digits a && all_digits b.
Proof. induction a; intros; cbn [app all_digits]; auto. rewrite IHa, andb_assoc. reflexivity. Qed.

Definition dec_repr (ds : list Z) (n : Z) : Prop :=
  ds <> [] /\ all_digits ds = true /\ forall a, digits_value ds a = a * 10 ^ zlen ds + n.

Lemma zlen_app {A} (a b : list A) : zlen (a ++ b) = zlen a + zlen b.
Proof. unfold zlen. rewrite app_length. lia. Qed.

Lemma zlen_nonneg {A} (l : list A) : 0 <= zlen l.
Proof. unfold zlen. lia. Qed.

Lemma digits_aux_spec : forall fuel n acc,
  (1 <= fuel)%nat -> 0 <= n < 10 ^ Z.of_nat fuel ->
  exists ds, digits_aux fuel n acc = ds ++ acc /\ dec_repr ds n.
Proof.
  induction fuel as [|f IH]; intros n acc Hf Hn; [lia|].
  cbn [digits_aux].
  destruct (n <? 10) eqn:E.
  - apply Z.ltb_lt in E. exists [48 + n]. split; [reflexivity|].
    split; [discriminate|]. split.
    + cbn [all_digits]. unfold is_digit. rewrite andb_true_r. apply andb_true_iff. split; apply Z.leb_le; lia.
    + intros a. cbn [digits_value]. change (zlen [48 + n]) with 1. rewrite Z.pow_1_r. lia.
  - apply Z.ltb_ge in E.
    assert (Hf1 : (1 <= f)%nat).
    { destruct f; [|lia]. cbn in Hn. lia. }
    assert (Hn' : 0 <= n / 10 < 10 ^ Z.of_nat f).
    { split; [apply Z.div_pos; lia|].
      apply Z.div_lt_upper_bound; [lia|].
      replace (Z.of_nat (Datatypes.S f)) with (Z.of_nat f + 1) in Hn by lia.
      rewrite Z.pow_add_r in Hn by lia. lia. }
    destruct (IH (n / 10) ((48 + n mod 10) :: acc) Hf1 Hn') as [ds [Heq [Hne [Hall Hval]]]].
    exists (ds ++ [48 + n mod 10]). split.
    + rewrite Heq, <- app_assoc. reflexivity.
    + split; [destruct ds; discriminate|]. split.
      * rewrite all_digits_app, Hall. cbn [all_digits andb]. unfold is_digit. rewrite andb_true_r.
        apply andb_true_iff. assert (0 <= n mod 10 < 10) by (apply Z.mod_pos_bound; lia). split; apply Z.leb_le; lia.
      * intros a. rewrite digits_value_app, Hval. cbn [digits_value].
        rewrite zlen_app. change (zlen [48 + n mod 10]) with 1.
        rewrite Z.pow_add_r by (try apply zlen_nonneg; lia). rewrite Z.pow_1_r.
        pose proof (Z.div_mod n 10). lia.
Qed.

Lemma digits_of_nonneg_spec n : 0 <= n -> dec_repr (digits_of_nonneg n) n.
Proof.
  intros Hn. unfold digits_of_nonneg.
  destruct (digits_aux_spec (Datatypes.S (Z.to_nat (Z.log2 n + 1))) n []) as [ds [Heq Hr]].
  - lia.
  - split; [lia|].
    pose proof (Z.log2_nonneg n).
    replace (Z.of_nat (Datatypes.S (Z.to_nat (Z.log2 n + 1)))) with (Z.log2 n + 2) by lia.
    assert (n < 2 ^ (Z.log2 n + 1)).
    { destruct (Z.eq_dec n 0) as [->|]; [cbn; lia|].
      pose proof (Z.log2_spec n). replace (Z.log2 n + 1) with (Z.succ (Z.log2 n)) by lia. lia. }
    assert (2 ^ (Z.log2 n + 1) <= 10 ^ (Z.log2 n + 1)) by (apply Z.pow_le_mono_l; lia).
    assert (10 ^ (Z.log2 n + 1) < 10 ^ (Z.log2 n + 2)) by (apply Z.pow_lt_mono_r; lia).
    lia.
  - rewrite Heq, app_nil_r. exact Hr.
Qed.

Lemma itoa_nonneg_repr n : 0 <= n -> dec_repr (itoa n) n.
Proof.
  intros Hn. unfold itoa. destruct (n <? 0) eqn:E; [apply Z.ltb_lt in E; lia|].
  apply digits_of_nonneg_spec. exact Hn.
Qed.

Lemma all_digits_forallb s : all_digits s = forallb is_digit s.
Proof. induction s as [|c r IH]; [reflexivity|]. cbn [all_digits forallb]. rewrite IH. reflexivity. Qed.

Lemma is_digit_not_sign c : is_digit c = true -> (c =? 43) || (c =? 45) = false.
Proof.
  unfold is_digit. intros H. apply andb_true_iff in H. destruct H as [H1 H2].
  apply Z.leb_le in H1. apply Z.leb_le in H2.
  apply orb_false_iff. split; apply Z.eqb_neq; lia.
Qed.

Lemma digits_value_ge : forall s acc, forallb is_digit s = true -> 0 <= acc -> acc <= digits_value s acc.
Proof.
  induction s as [|c r IH]; intros acc H Ha; cbn [digits_value]; [lia|].
  cbn [forallb] in H. apply andb_true_iff in H. destruct H as [Hc Hr].
  unfold is_digit in Hc. apply andb_true_iff in Hc. destruct Hc as [H1 H2].
  apply Z.leb_le in H1. apply Z.leb_le in H2.
  specialize (IH (acc * 10 + (c - 48)) Hr ltac:(lia)). lia.
Qed.

(* ParseUint's digit loop agrees with the plain decimal value as long as that fits uint64 *)
Lemma parse_uint_digits : forall s acc, forallb is_digit s = true -> 0 <= acc ->
  digits_value s acc <= max_uint64 -> parse_uint s acc = Some (digits_value s acc).
Proof.
  induction s as [|c r IH]; intros acc H Ha Hv; cbn [parse_uint digits_value]; [reflexivity|].
  cbn [forallb] in H. apply andb_true_iff in H. destruct H as [Hc Hr]. rewrite Hc.
  assert (Hc' := Hc). unfold is_digit in Hc'. apply andb_true_iff in Hc'. destruct Hc' as [H1 H2].
  apply Z.leb_le in H1. apply Z.leb_le in H2.
  cbn [digits_value] in Hv.
  pose proof (digits_value_ge r (acc * 10 + (c - 48)) Hr ltac:(lia)) as Hge.
  unfold max_uint64 in *.
  destruct (acc >=? 1844674407370955162) eqn:E1; [apply Z.geb_le in E1; lia|].
  destruct (acc * 10 + (c - 48) >? 18446744073709551615) eqn:E2; [apply Z.gtb_lt in E2; lia|].
  apply IH; auto. lia.
Qed.

Lemma atoi_dec_repr ds n : dec_repr ds n -> 0 <= n <= max_int64 -> atoi ds = n.
Proof.
  intros [Hne [Hall Hval]] Hn. unfold atoi.
  destruct ds as [|c r]; [congruence|].
  assert (Hc : is_digit c = true) by (cbn in Hall; apply andb_true_iff in Hall; tauto).
  pose proof (is_digit_not_sign c Hc) as Hs. apply orb_false_iff in Hs. destruct Hs as [H43 H45].
  rewrite H43, H45. cbn [orb].
  rewrite all_digits_forallb in Hall.
  assert (Hv : digits_value (c :: r) 0 = n) by (rewrite Hval; lia).
  unfold max_int64 in Hn.
  rewrite parse_uint_digits; [| exact Hall | lia | unfold max_uint64; lia].
  rewrite Hv. destruct (n >=? 9223372036854775808) eqn:E; [apply Z.geb_le in E; lia | reflexivity].
Qed.

Lemma atoi_itoa n : 0 <= n <= max_int64 -> atoi (itoa n) = n.
Proof. intros H. apply atoi_dec_repr; [apply itoa_nonneg_repr; lia | exact H]. Qed.

(* span stops exactly at the first character outside the class *)
Lemma span_app_stop (p : Z -> bool) : forall a c r,
  forallb p a = true -> p c = false -> span p (a ++ c :: r) = (a, c :: r).
Proof.
  induction a as [|x a IH]; intros c r Ha Hc; cbn [app span].
  - rewrite Hc. reflexivity.
  - cbn in Ha. apply andb_true_iff in Ha. destruct Ha as [Hx Ha].
    rewrite Hx, (IH c r Ha Hc). reflexivity.
Qed.

Lemma span_all (p : Z -> bool) : forall a, forallb p a = true -> span p a = (a, []).
Proof.
  induction a as [|x a IH]; intros Ha; cbn [span]; auto.
  cbn in Ha. apply andb_true_iff in Ha. destruct Ha as [Hx Ha]. rewrite Hx, (IH Ha). reflexivity.
Qed.

Lemma itoa_digits n : 0 <= n -> forallb is_digit (itoa n) = true /\ itoa n <> [].
Proof.
  intros H. destruct (itoa_nonneg_repr n H) as [Hne [Hall _]].
  rewrite <- all_digits_forallb. tauto.
Qed.
