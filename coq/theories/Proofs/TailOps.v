(* Operations and operation lists on a caller buffer that is longer than the canvas needs:
   [with_tail i tl] is the image whose buffer is [idata i ++ tl].  Every operation acts on it exactly
   as on [i] and hands the tail back untouched; so do operation lists.  Together with c16_op_frame this
   extends C16 to the canvases CreateFromBytes builds over slices of any sufficient length. *)
From RP Require Import Lib.Base Lib.Utf8 Model.Mono Model.MonoConv Spec.Clip Proofs.ListZ Proofs.PixelProofs Proofs.DrawProofs
  Proofs.OpsProofs Proofs.TailProofs.
From Coq Require Import ZifyBool.

Definition with_tail (i : img) (tl : list Z) : img := with_data i (idata i ++ tl).

Lemma write_char_tail g t d c tl :
  wfg g d ->
  wfg g (snd (write_char g (t, d) c)) /\
  write_char g (t, d ++ tl) c = (fst (write_char g (t, d) c), snd (write_char g (t, d) c) ++ tl).
Proof.
  intros Hwf. unfold write_char.
  destruct (c =? 10); [simpl; split; auto|].
  destruct (c =? 13); [simpl; split; auto|].
  destruct (TailW_draw_char g t (tcx t) (tcy t) c (tcol t) (tbg t) (tsh t) (tsv t) d Hwf) as [W E].
  rewrite E.
  match goal with |- context [if ?b then _ else _] => destruct b end; simpl; split; auto.
Qed.

Lemma render_chars_tail g cs : forall t d tl,
  wfg g d ->
  wfg g (snd (render_chars g cs (t, d))) /\
  render_chars g cs (t, d ++ tl) = (fst (render_chars g cs (t, d)), snd (render_chars g cs (t, d)) ++ tl).
Proof.
  unfold render_chars.
  induction cs as [|c cs IH]; intros t d tl Hwf; cbn [fold_left].
  - simpl; split; auto.
  - destruct (write_char_tail g t d c tl Hwf) as [W1 E1]. rewrite E1.
    destruct (write_char g (t, d) c) as [t1 d1]. cbn [fst snd] in *.
    apply IH; auto.
Qed.

Theorem op_tail (i : img) (o : op) (tl : list Z) :
  wf_img i ->
  run_op (with_tail i tl) o = with_tail (run_op i o) tl.
Proof.
  intros Hwf. unfold wf_img in Hwf. unfold with_tail.
  assert (Hdraw : forall f, TailW (ig i) f -> with_data (with_data i (idata i ++ tl)) (f (idata i ++ tl)) = with_data (with_data i (f (idata i))) (f (idata i) ++ tl)).
  { intros f T. destruct (T (idata i) Hwf) as [_ E]. rewrite E. reflexivity. }
  destruct o; cbn [run_op with_data ig it idata with_t with_geom]; try reflexivity.
  - apply (Hdraw (draw_pixel (ig i) x y c)), TailW_pixel.
  - apply (Hdraw (hline (ig i) x y w c)), TailW_hline.
  - apply (Hdraw (vline (ig i) x y h c)), TailW_vline.
  - apply (Hdraw (fill_rect (ig i) x y w h c)), TailW_fill_rect.
  - apply (Hdraw (round_rect (ig i) x y w h r c)), TailW_round_rect.
  - apply (Hdraw (fill_round_rect (ig i) x y w h r c)), TailW_fill_round_rect.
  - apply (Hdraw (circle_helper (ig i) x0 y0 r corner c)), TailW_circle_helper.
  - apply (Hdraw (fill_circle_helper (ig i) x0 y0 r corner delta c)), TailW_fill_circle_helper.
  - apply (Hdraw (draw_bitmap (ig i) x y bm w h c inverted all)), TailW_draw_bitmap.
  - apply (Hdraw (draw_char (ig i) (it i) x y ch c bg sh sv)), TailW_draw_char.
  - unfold render_text.
    destruct (render_chars_tail (ig i) (range_bytes s) (it i) (idata i) tl Hwf) as [_ E]. rewrite E.
    destruct (render_chars (ig i) (range_bytes s) (it i, idata i)) as [t1 d1]. reflexivity.
Qed.

Theorem ops_tail (ops : list op) : forall (i : img) (tl : list Z),
  wf_img i ->
  run_ops (with_tail i tl) ops = with_tail (run_ops i ops) tl.
Proof.
  unfold run_ops.
  induction ops as [|o ops IH]; intros i tl Hwf; cbn [fold_left]; [reflexivity|].
  rewrite op_tail by assumption.
  apply IH. apply (proj1 (op_frame i o Hwf)).
Qed.

(* what the caller sees: the pixel part behaves as on an exact-size canvas, the tail is the same bytes *)
Corollary ops_tail_bytes (ops : list op) (i : img) (tl : list Z) :
  wf_img i ->
  idata (run_ops (with_tail i tl) ops) = idata (run_ops i ops) ++ tl /\
  skipn (length (idata (run_ops i ops))) (idata (run_ops (with_tail i tl) ops)) = tl.
Proof.
  intros Hwf. rewrite ops_tail by assumption. unfold with_tail. cbn [idata with_data]. split; [reflexivity|].
  rewrite skipn_app, skipn_all, Nat.sub_diag. reflexivity.
Qed.

(* CreateFromBytes(w, h, data ++ tl) with |data| = ceil(w/8)*h is [with_tail] of the exact-size canvas *)
Lemma create_from_bytes_tail w h data tl :
  0 <= w -> 0 <= h -> zlen data = ceil_div8 w * h ->
  fst (create_from_bytes w h (data ++ tl)) = with_tail (fst (create_from_bytes w h data)) tl
  /\ snd (create_from_bytes w h (data ++ tl)) = true /\ snd (create_from_bytes w h data) = true.
Proof.
  intros Hw Hh Hlen. unfold create_from_bytes, with_tail.
  cbn [new_image ig gwib]. rewrite zlen_app, Hlen.
  pose proof (zlen_nonneg tl).
  destruct (Z.gtb_spec (ceil_div8 w * h) (ceil_div8 w * h + zlen tl)); [lia|].
  destruct (Z.gtb_spec (ceil_div8 w * h) (ceil_div8 w * h)); [lia|].
  cbn [fst snd with_data idata ig it ibckg ipixc]. auto.
Qed.
