(* Caller buffers LONGER than the canvas needs (CreateFromBytes keeps the whole slice it is given):
   every drawing operation treats the buffer [d ++ tl] exactly as it treats [d], and leaves [tl]
   alone - the bytes behind the last canvas row are not pixels, "a pixel addressed outside the canvas
   is dropped" includes them.  (Seed C16-8 showed the gap: a DrawPixel clipped by the bounding box
   and the buffer LENGTH only writes there.)

   TailW g f : f keeps well-formed canvases well-formed and commutes with appending a tail.
   Built compositionally from draw_pixel, like Paint / Touch in DrawProofs.v. *)
From RP Require Import Lib.Base Model.Mono Spec.Clip Proofs.ListZ Proofs.PixelProofs.
From Coq Require Import ZifyBool.
Ltac Zify.zify_post_hook ::= Z.div_mod_to_equations.

Definition TailW (g : geom) (f : list Z -> list Z) : Prop :=
  forall d, wfg g d -> wfg g (f d) /\ forall tl, f (d ++ tl) = f d ++ tl.

Lemma TailW_id g : TailW g (fun d => d).
Proof. intros d H; split; auto. Qed.

Lemma TailW_comp g f1 f2 : TailW g f1 -> TailW g f2 -> TailW g (fun d => f2 (f1 d)).
Proof.
  intros T1 T2 d Hwf. destruct (T1 d Hwf) as [W1 E1]. destruct (T2 (f1 d) W1) as [W2 E2].
  split; auto. intros tl. rewrite E1, E2. reflexivity.
Qed.

Lemma TailW_if g (b : bool) f1 f2 : TailW g f1 -> TailW g f2 -> TailW g (fun d => if b then f1 d else f2 d).
Proof. destruct b; auto. Qed.

Lemma TailW_ext g f f' : (forall d, f d = f' d) -> TailW g f -> TailW g f'.
Proof.
  intros He T d Hwf. destruct (T d Hwf) as [W E]. split; [rewrite <- He; auto|].
  intros tl. rewrite <- !He. apply E.
Qed.

Lemma TailW_iter g f n : forall s, (forall k, TailW g (f k)) -> TailW g (iter_up n s f).
Proof.
  induction n as [|n IH]; intros s H; simpl.
  - apply TailW_id.
  - apply (TailW_comp g (f s) (iter_up n (s + 1) f)); auto.
Qed.

Lemma TailW_for_range g f s n : (forall k, TailW g (f k)) -> TailW g (for_range s n f).
Proof. intros H. unfold for_range. apply TailW_iter; auto. Qed.

(* ---- list facts ---- *)
Lemma nth_app_lt {A} (a b : list A) n d : (n < length a)%nat -> nth n (a ++ b) d = nth n a d.
Proof. intros. apply app_nth1; auto. Qed.

Lemma znth_app_lt {A} (a b : list A) i d : 0 <= i < zlen a -> znth d (a ++ b) i = znth d a i.
Proof.
  intros H. unfold znth. destruct (Z.ltb_spec i 0); [lia|].
  apply app_nth1. unfold zlen in H. lia.
Qed.

Lemma upd_nat_app_lt {A} (a b : list A) n v : (n < length a)%nat -> upd_nat (a ++ b) n v = upd_nat a n v ++ b.
Proof.
  revert n; induction a as [|x a IH]; intros n H; simpl in *; [lia|].
  destruct n; simpl; [reflexivity|]. rewrite IH by lia. reflexivity.
Qed.

Lemma zupd_app_lt {A} (a b : list A) i v : 0 <= i < zlen a -> zupd (a ++ b) i v = zupd a i v ++ b.
Proof.
  intros H. unfold zupd. destruct (Z.ltb_spec i 0); [lia|].
  apply upd_nat_app_lt. unfold zlen in H. lia.
Qed.

(* ---- the one primitive ---- *)
Lemma TailW_pixel g x y col : TailW g (draw_pixel g x y col).
Proof.
  intros d Hwf. split; [apply (draw_pixel_px g x y col d Hwf)|].
  destruct Hwf as (HW & HH & Hwib & Hlen & Hbytes).
  intros tl. unfold draw_pixel.
  set (X := x + gbx g). set (Y := y + gby g).
  rewrite guard_is_clip.
  destruct (in_clip g X Y) eqn:Hclip; [|reflexivity].
  apply in_clip_bounds in Hclip as HXY. destruct HXY as [HX HY].
  unfold gdiv. rewrite Z.quot_div_nonneg by lia.
  assert (HX8 : 0 <= X / 8 < gwib g) by (rewrite Hwib; lia).
  set (index := Y * gwib g + X / 8).
  assert (Hidx : 0 <= index < zlen d) by (unfold index; rewrite Hlen; nia).
  rewrite zlen_app.
  pose proof (zlen_nonneg tl).
  destruct (Z.leb_spec 0 index); try lia.
  destruct (Z.ltb_spec index (zlen d)); try lia.
  destruct (Z.ltb_spec index (zlen d + zlen tl)); try lia.
  simpl andb. cbv iota.
  rewrite znth_app_lt by lia.
  destruct (xorb col (ginv g)); apply zupd_app_lt; lia.
Qed.

(* ---- every drawing function of Model/Mono.v ---- *)
Ltac tailw :=
  repeat first
    [ apply TailW_id
    | apply TailW_pixel
    | apply TailW_for_range; intros ?
    | apply TailW_if
    | match goal with
      | |- TailW _ (fun d => if ?b then _ else _) => destruct b
      | |- TailW _ (fun d => ?f2 (?f1 d)) => fail
      end ].

Lemma TailW_vline g x y h col : TailW g (vline g x y h col).
Proof. unfold vline. tailw. Qed.
Lemma TailW_hline g x y w col : TailW g (hline g x y w col).
Proof. unfold hline. tailw. Qed.
Lemma TailW_fill_rect g x y w h col : TailW g (fill_rect g x y w h col).
Proof. unfold fill_rect. apply TailW_for_range. intros k. apply TailW_vline. Qed.

Lemma TailW_pp g (b : bool) x1 y1 x2 y2 col :
  TailW g (fun d => if b then draw_pixel g x2 y2 col (draw_pixel g x1 y1 col d) else d).
Proof.
  destruct b; [|apply TailW_id].
  apply (TailW_comp g (draw_pixel g x1 y1 col) (draw_pixel g x2 y2 col)); apply TailW_pixel.
Qed.

Lemma TailW_corner_pixels g x0 y0 x y corner col : TailW g (corner_pixels g x0 y0 x y corner col).
Proof.
  unfold corner_pixels.
  exact (TailW_comp g _ _ (TailW_comp g _ _ (TailW_comp g _ _ (TailW_pp g _ _ _ _ _ col) (TailW_pp g _ _ _ _ _ col)) (TailW_pp g _ _ _ _ _ col)) (TailW_pp g _ _ _ _ _ col)).
Qed.

Lemma TailW_circle_loop g body :
  (forall x y, TailW g (body x y)) ->
  forall fuel f ddx ddy x y, TailW g (circle_loop fuel body f ddx ddy x y).
Proof.
  intros Hbody fuel; induction fuel as [|fuel IH]; intros f ddx ddy x y; simpl.
  - apply TailW_id.
  - destruct (x <? y); [|apply TailW_id].
    destruct (f >=? 0).
    + apply (TailW_comp g (body (x + 1) (y - 1))); [apply Hbody | apply IH].
    + apply (TailW_comp g (body (x + 1) y)); [apply Hbody | apply IH].
Qed.

Lemma TailW_circle_helper g x0 y0 r corner col : TailW g (circle_helper g x0 y0 r corner col).
Proof. unfold circle_helper. apply TailW_circle_loop. intros. apply TailW_corner_pixels. Qed.

Lemma TailW_vv g (b : bool) x1 y1 h1 x2 y2 h2 col :
  TailW g (fun d => if b then vline g x2 y2 h2 col (vline g x1 y1 h1 col d) else d).
Proof.
  destruct b; [|apply TailW_id].
  apply (TailW_comp g (vline g x1 y1 h1 col) (vline g x2 y2 h2 col)); apply TailW_vline.
Qed.

Lemma TailW_fill_corner_lines g x0 y0 x y corner delta col : TailW g (fill_corner_lines g x0 y0 x y corner delta col).
Proof.
  unfold fill_corner_lines.
  exact (TailW_comp g _ _ (TailW_vv g _ _ _ _ _ _ _ col) (TailW_vv g _ _ _ _ _ _ _ col)).
Qed.

Lemma TailW_fill_circle_helper g x0 y0 r corner delta col : TailW g (fill_circle_helper g x0 y0 r corner delta col).
Proof. unfold fill_circle_helper. apply TailW_circle_loop. intros. apply TailW_fill_corner_lines. Qed.

Lemma TailW_round_rect g x y w h r col : TailW g (round_rect g x y w h r col).
Proof.
  unfold round_rect.
  pose proof (TailW_hline g (x + r) y (w - 2 * r) col) as T1.
  pose proof (TailW_hline g (x + r) (y + h - 1) (w - 2 * r) col) as T2.
  pose proof (TailW_vline g x (y + r) (h - 2 * r) col) as T3.
  pose proof (TailW_vline g (x + w - 1) (y + r) (h - 2 * r) col) as T4.
  pose proof (TailW_circle_helper g (x + r) (y + r) r 1 col) as T5.
  pose proof (TailW_circle_helper g (x + w - r - 1) (y + r) r 2 col) as T6.
  pose proof (TailW_circle_helper g (x + w - r - 1) (y + h - r - 1) r 4 col) as T7.
  pose proof (TailW_circle_helper g (x + r) (y + h - r - 1) r 8 col) as T8.
  exact (TailW_comp g _ _ (TailW_comp g _ _ (TailW_comp g _ _ (TailW_comp g _ _ (TailW_comp g _ _ (TailW_comp g _ _ (TailW_comp g _ _ T1 T2) T3) T4) T5) T6) T7) T8).
Qed.

Lemma TailW_fill_round_rect g x y w h r col : TailW g (fill_round_rect g x y w h r col).
Proof.
  unfold fill_round_rect.
  pose proof (TailW_fill_rect g (x + r) y (w - 2 * r) h col) as T1.
  pose proof (TailW_fill_circle_helper g (x + w - r - 1) (y + r) r 1 (h - 2 * r - 1) col) as T2.
  pose proof (TailW_fill_circle_helper g (x + r) (y + r) r 2 (h - 2 * r - 1) col) as T3.
  exact (TailW_comp g _ _ (TailW_comp g _ _ T1 T2) T3).
Qed.

Lemma TailW_draw_bitmap g x y bm w h col inverted all : TailW g (draw_bitmap g x y bm w h col inverted all).
Proof.
  unfold draw_bitmap.
  apply TailW_for_range. intros j.
  apply TailW_for_range. intros i.
  destruct (zlen bm >? j * gdiv (w + 7) 8 + gdiv i 8); [|apply TailW_id].
  match goal with |- TailW g (fun d => if ?b then _ else d) => destruct b end; [|apply TailW_id].
  apply TailW_pixel.
Qed.

Lemma TailW_block g x y sh sv col : TailW g (block g x y sh sv col).
Proof.
  unfold block. destruct (sh =? 1); destruct (sv =? 1); simpl; first [apply TailW_pixel | apply TailW_fill_rect].
Qed.

Lemma TailW_draw_char g t x y ch col bg sh sv : TailW g (draw_char g t x y ch col bg sh sv).
Proof.
  unfold draw_char.
  match goal with |- TailW g (fun d => if ?b then d else _) => destruct b end; [apply TailW_id|].
  apply TailW_for_range. intros i.
  apply TailW_for_range. intros j.
  destruct (Z.testbit _ j); [apply TailW_block|].
  destruct (negb (Bool.eqb bg col)); [apply TailW_block | apply TailW_id].
Qed.
