(* C03 composition: every line the encoder model emits for a representable message is a line
   of the reference grammar, and read in order the lines report exactly den_out of the
   messages, the map entries of one message in the iteration order of its map. *)
From RP Require Import Lib.Base Lib.Sexp Lib.Strings Lib.TrimSpace Lib.FloatFmt Model.MsgOut Model.Flatten Model.EncOut
  Model.DecOut Spec.DenoteOut Spec.GrammarOut Proofs.GfxNum Proofs.OutStrings Proofs.OutEncLines Proofs.OutEncSys
  Proofs.OutReader.
From Coq Require Import String Permutation.
Open Scope Z_scope.

(* ---------------------------------------------------------------- lines of the grammar have no LF *)
Lemma regid_no_lf id : forallb is_regid_ch id = true -> has_lf id = false.
Proof.
  induction id as [|c id IH]; intros H; [reflexivity|]. cbn in H. apply andb_true_iff in H. destruct H as [Hc Hid].
  rewrite has_lf_cons, (IH Hid). destruct (10 =? c) eqn:E; [|reflexivity]. apply Z.eqb_eq in E. subst c. discriminate.
Qed.

Lemma key_no_lf key vk : lookup key key_table = Some vk -> has_lf key = false.
Proof.
  intros H. apply lookup_some in H. unfold key_table, tbl in H. cbn [map fst snd] in H.
  repeat (destruct H as [H|H]; [injection H as <- _; reflexivity|]). destruct H.
Qed.

Lemma register_wf_no_lf l st rs : read_register l = WF st rs -> has_lf l = false.
Proof.
  unfold read_register. intros H.
  assert (K : forall (kw : string) k c, try_register l kw k = Some c -> c = WF st rs -> has_lf (str kw) = false -> has_lf l = false).
  { intros kw k c Ht Hc Hkw. subst c. destruct (try_register_shape _ _ _ _ Ht) as [id [v [Hl [Hid Hrs]]]].
    destruct (read_u32 v) as [x|] eqn:Ev; [|discriminate]. destruct (read_u32_spec _ _ Ev) as [Hd _].
    apply digits_nonempty_spec in Hd. destruct Hd as [_ Hd].
    rewrite Hl, !has_lf_app, Hkw, (regid_no_lf id Hid), has_lf_cons, (digits_no_lf v Hd). reflexivity. }
  destruct (try_register l "Flag#" 1) as [c|] eqn:E1; [apply (K _ _ _ E1 H); reflexivity|].
  destruct (try_register l "Mem" 0) as [c|] eqn:E0; [apply (K _ _ _ E0 H); reflexivity|].
  destruct (try_register l "Shift" 2) as [c|] eqn:E2; [apply (K _ _ _ E2 H); reflexivity|].
  destruct (try_register l "State" 3) as [c|] eqn:E3; [apply (K _ _ _ E3 H); reflexivity|discriminate].
Qed.

Lemma wf_no_lf l st rs : read_out_line l = WF st rs -> has_lf l = false.
Proof.
  destruct l as [|c0 l0]; [reflexivity|]. assert (Hne : c0 :: l0 <> []) by discriminate.
  rewrite (read_out_line_nonempty _ Hne). generalize (c0 :: l0). clear. intros l H. unfold read_rest in H.
  destruct (lookup l flow_words) as [w|] eqn:Ef.
  { apply lookup_some in Ef. unfold flow_words, tbl in Ef. cbn [map fst snd In] in Ef.
    repeat (destruct Ef as [Ef|Ef]; [injection Ef as <- _; reflexivity|]). destruct Ef. }
  destruct (drop_prefix (str "HWC#") l) as [r|] eqn:Eh.
  { destruct (has_lf l); [discriminate|reflexivity]. }
  destruct (drop_prefix (str "map=") l) as [r|] eqn:Em.
  { apply drop_prefix_some in Em. destruct (cut_on 58 r) as [[a b] f] eqn:Ec. destruct f; [|discriminate].
    destruct (read_u32 a) as [k|] eqn:Ea; [|discriminate]. destruct (read_u32 b) as [v|] eqn:Eb; [|discriminate].
    destruct (cut_on_found _ _ _ _ Ec) as [Hr _].
    destruct (read_u32_spec _ _ Ea) as [Hda _]. destruct (read_u32_spec _ _ Eb) as [Hdb _].
    apply digits_nonempty_spec in Hda. apply digits_nonempty_spec in Hdb.
    rewrite Em, Hr, !has_lf_app, has_lf_cons, (digits_no_lf a (proj2 Hda)), (digits_no_lf b (proj2 Hdb)). reflexivity. }
  destruct (cut_on 61 l) as [[key v] f] eqn:Ec. destruct f; [|discriminate].
  destruct (cut_on_found _ _ _ _ Ec) as [Hl _].
  destruct (lookup key key_table) as [vk|] eqn:Ek.
  - rewrite Hl, has_lf_app, has_lf_cons, (key_no_lf key vk Ek), (rv_nolf _ _ _ _ H). reflexivity.
  - apply (register_wf_no_lf l st rs H).
Qed.

(* ---------------------------------------------------------------- good line lists *)
Definition good (ls : list bytes) (rs : list report) : Prop :=
  Forall wf_line ls /\ flat_map sem_out_line ls = rs.

Lemma good_nil : good [] [].
Proof. split; [constructor|reflexivity]. Qed.

Lemma good_one l st rs : read_out_line l = WF st rs -> good [l] rs.
Proof.
  intros H. split; [constructor; [exists st, rs; exact H|constructor]|].
  cbn [flat_map]. unfold sem_out_line. rewrite H, app_nil_r. reflexivity.
Qed.

Lemma good_app a b ra rb : good a ra -> good b rb -> good (a ++ b) (ra ++ rb).
Proof.
  intros [Ha1 Ha2] [Hb1 Hb2]. split; [apply Forall_app; auto|]. rewrite flat_map_app, Ha2, Hb2. reflexivity.
Qed.

Lemma good_if (c : bool) a ra : (c = true -> good a ra) -> good (if c then a else []) (if c then ra else []).
Proof. destruct c; intros H; [apply H; reflexivity|apply good_nil]. Qed.

(* ---------------------------------------------------------------- sections of one message *)
Lemma good_flow w :
  ((w =? 0) || (w =? 1) || (w =? 2) || (w =? 3) || (w =? 4) || (w =? 5) || (w =? 100)) = true ->
  good (enc_flow w) (den_flow w).
Proof.
  intros H. repeat (apply orb_true_iff in H; destruct H as [H|H]); apply Z.eqb_eq in H; subst w;
    first [apply good_nil | apply (good_one _ true); reflexivity].
Qed.

Lemma good_text_dflt (key : string) k v :
  (forall v, read_out_line (kv key v) = read_value (VText k true) v) -> text_ok v = true ->
  good (opt_line key v) (nonempty_str k v).
Proof.
  intros Hrd Hv. destruct v as [|c v']; [apply good_nil|]. cbn [opt_line nonempty_str].
  apply (good_one _ true). rewrite Hrd, (rv_text_enc _ _ _ Hv). reflexivity.
Qed.

Lemma good_text_dflt_line (key : string) k v :
  (forall v, read_out_line (kv key v) = read_value (VText k true) v) -> text_ok v = true ->
  good [kv key v] (nonempty_str k v).
Proof.
  intros Hrd Hv. destruct v as [|c v'].
  - apply (good_one _ false). rewrite Hrd. reflexivity.
  - apply (good_one _ true). rewrite Hrd, (rv_text_enc _ _ _ Hv). reflexivity.
Qed.

Lemma good_text_nodflt (key : string) k v :
  (forall v, read_out_line (kv key v) = read_value (VText k false) v) -> text_ok v = true ->
  good [kv key v] [RStr k v].
Proof.
  intros Hrd Hv. destruct v as [|c v'].
  - apply (good_one _ false). rewrite Hrd. reflexivity.
  - apply (good_one _ true). rewrite Hrd, (rv_text_enc _ _ _ Hv). reflexivity.
Qed.

Lemma good_u32_nodflt (key : string) k x :
  (forall v, read_out_line (kv key v) = read_value (VU32 k false) v) -> u32b x = true ->
  good [kv key (itoa x)] [RNum k x].
Proof.
  intros Hrd Hx. unfold u32b in Hx. apply andb_true_iff in Hx. destruct Hx as [H1 H2]. apply Z.leb_le in H1. apply Z.ltb_lt in H2.
  apply (good_one _ true). rewrite Hrd, rv_u32_enc by lia. reflexivity.
Qed.

Lemma good_u32_dflt (key : string) k x :
  (forall v, read_out_line (kv key v) = read_value (VU32 k true) v) -> u32b x = true ->
  good (if x >? 0 then [kv key (itoa x)] else []) (nonzero_num k x).
Proof.
  intros Hrd Hx. unfold u32b in Hx. apply andb_true_iff in Hx. destruct Hx as [H1 H2]. apply Z.leb_le in H1. apply Z.ltb_lt in H2.
  unfold nonzero_num. destruct (x >? 0) eqn:E.
  - rewrite Z.gtb_ltb in E. apply Z.ltb_lt in E. destruct (x =? 0) eqn:E0; [apply Z.eqb_eq in E0; lia|].
    apply (good_one _ true). rewrite Hrd, rv_u32_enc by lia. rewrite E0. reflexivity.
  - rewrite Z.gtb_ltb in E. apply Z.ltb_ge in E. assert (x = 0) by lia. subst x. apply good_nil.
Qed.

Lemma good_pinfo p : rep_pinfo p = true -> good (enc_pinfo p) (den_pinfo p).
Proof.
  intros H. unfold rep_pinfo in H. repeat (apply andb_true_iff in H; destruct H as [H ?]).
  unfold enc_pinfo, den_pinfo.
  repeat apply good_app.
  - apply good_text_dflt; [exact rd_model|assumption].
  - apply good_text_dflt; [exact rd_serial|assumption].
  - apply good_text_dflt; [exact rd_version|assumption].
  - apply good_text_dflt; [exact rd_name|assumption].
  - apply good_text_dflt; [exact rd_platform|assumption].
  - destruct (pi_bpr p); [apply (good_one _ true); reflexivity|apply good_nil].
  - apply good_u32_dflt; [exact rd_maxclients|assumption].
  - destruct (pi_locked p) as [|e l'] eqn:El; [apply good_nil|].
    apply (good_one _ true). rewrite rd_locked. apply rv_elems_enc; [discriminate|assumption].
  - assert (Ht : pi_type p = 0 \/ pi_type p = 1 \/ pi_type p = 2 \/ pi_type p = 3 \/ pi_type p = 4 \/ pi_type p = 5).
    { match goal with H1 : (0 <=? pi_type p) = true, H2 : (pi_type p <=? 5) = true |- _ => apply Z.leb_le in H1; apply Z.leb_le in H2; lia end. }
    unfold enc_panel_type, nonzero_num.
    destruct Ht as [->|[->|[->|[->|[->| ->]]]]]; first [apply good_nil | apply (good_one _ true); reflexivity].
  - destruct (pi_support p) as [c|] eqn:Es; [|apply good_nil].
    assert (Hl : List.length c = 13%nat).
    { unfold pinfo_shape_ok in H. rewrite Es in H. apply Nat.eqb_eq in H. exact H. }
    destruct (sem_support c Hl) as [st Hs]. apply (good_one _ st). exact Hs.
Qed.

Section Flat.
Variables flat flat_svg : bytes -> bytes.

Lemma payload_ok_spec s : payload_ok flat s = true -> flat s = s /\ text_ok s = true.
Proof. unfold payload_ok. intros H. apply andb_true_iff in H. destruct H as [H1 H2]. apply beqb_eq in H1. auto. Qed.

Lemma good_of_opt {A} (o : option A) (f : A -> list bytes) (g : A -> list report) :
  (forall a, o = Some a -> good (f a) (g a)) -> good (of_opt o f) (den_opt o g).
Proof. destruct o as [a|]; intros H; [apply H; reflexivity|apply good_nil]. Qed.

Lemma good_pre m : representable_outb flat flat_svg m = true -> good (enc_pre flat flat_svg m) (den_pre m).
Proof.
  intros H. unfold representable_outb in H. repeat (apply andb_true_iff in H; destruct H as [H ?]).
  unfold enc_pre, den_pre. repeat apply good_app.
  - apply good_flow. assumption.
  - apply good_of_opt. intros p Ep. apply good_pinfo.
    match goal with Hp : opt_ok (om_pinfo m) rep_pinfo = true |- _ => rewrite Ep in Hp; exact Hp end.
  - apply good_of_opt. intros [svg json] Et.
    match goal with Hp : opt_ok (om_topo m) _ = true |- _ => rewrite Et in Hp; cbn [opt_ok fst snd] in Hp;
      apply andb_true_iff in Hp; destruct Hp as [Hp Hj]; apply andb_true_iff in Hp; destruct Hp as [Hs Hst] end.
    apply beqb_eq in Hs. destruct (payload_ok_spec _ Hj) as [Hfj Htj]. cbn [fst snd]. rewrite Hs, Hfj.
    apply (good_app [_] [_]); [apply (good_text_dflt_line "_panelTopology_svgbase=" KTopoSvg svg rd_toposvg Hst)
                              |apply (good_text_dflt_line "_panelTopology_HWC=" KTopoJson json rd_topojson Htj)].
  - apply good_of_opt. intros j Ej.
    match goal with Hp : opt_ok (om_burnin m) _ = true |- _ => rewrite Ej in Hp; destruct (payload_ok_spec _ Hp) as [Hf Ht] end.
    rewrite Hf. apply good_text_nodflt; [exact rd_burnin|exact Ht].
  - apply good_of_opt. intros j Ej.
    match goal with Hp : opt_ok (om_netcfg m) _ = true |- _ => rewrite Ej in Hp; cbn [opt_ok] in Hp;
      apply andb_true_iff in Hp; destruct Hp as [Ht Hne] end.
    destruct j as [|c j']; [discriminate|]. apply (good_one _ false). rewrite rd_netcfg. unfold read_value.
    unfold text_ok in Ht. apply negb_true_iff in Ht. rewrite Ht. reflexivity.
  - apply good_of_opt. intros j Ej.
    match goal with Hp : opt_ok (om_calib m) _ = true |- _ => rewrite Ej in Hp; destruct (payload_ok_spec _ Hp) as [Hf Ht] end.
    rewrite Hf. apply good_text_nodflt; [exact rd_calib|exact Ht].
  - apply good_of_opt. intros j Ej.
    match goal with Hp : opt_ok (om_defcalib m) _ = true |- _ => rewrite Ej in Hp; destruct (payload_ok_spec _ Hp) as [Hf Ht] end.
    rewrite Hf. apply good_text_nodflt; [exact rd_defcalib|exact Ht].
  - apply good_of_opt. intros v Ev. apply good_u32_nodflt; [exact rd_sleept|].
    match goal with Hp : opt_ok (om_sleept m) _ = true |- _ => rewrite Ev in Hp; exact Hp end.
  - apply good_of_opt. intros v Ev. apply (good_one _ true). destruct v; reflexivity.
  - apply good_of_opt. intros v Ev. apply good_u32_nodflt; [exact rd_hb|].
    match goal with Hp : opt_ok (om_hb m) _ = true |- _ => rewrite Ev in Hp; exact Hp end.
  - apply good_of_opt. intros v Ev. apply good_u32_nodflt; [exact rd_dim|].
    match goal with Hp : opt_ok (om_dim m) _ = true |- _ => rewrite Ev in Hp; exact Hp end.
  - apply good_of_opt. intros l El.
    match goal with Hp : opt_ok (om_conn m) _ = true |- _ => rewrite El in Hp; cbn [opt_ok] in Hp end.
    destruct l as [|e l'].
    + apply (good_one _ false). reflexivity.
    + apply (good_one _ true). rewrite rd_conn. apply rv_elems_enc; [discriminate|assumption].
  - apply good_of_opt. intros [[[a b] c] d] Er.
    match goal with Hp : opt_ok (om_rts m) _ = true |- _ => rewrite Er in Hp; cbn [opt_ok] in Hp;
      do 3 (apply andb_true_iff in Hp; destruct Hp as [Hp ?]) end.
    repeat apply good_app.
    + apply good_u32_dflt; [exact rd_boots|assumption].
    + apply good_u32_dflt; [exact rd_total|assumption].
    + apply good_u32_dflt; [exact rd_session|assumption].
    + apply good_u32_dflt; [exact rd_screensaver|assumption].
  - apply good_of_opt. intros s Es.
    match goal with Hp : opt_ok (om_err m) _ = true |- _ => rewrite Es in Hp; destruct (payload_ok_spec _ Hp) as [Hf Ht] end.
    rewrite Hf. apply good_text_nodflt; [exact rd_err|exact Ht].
  - apply good_of_opt. intros s Es.
    match goal with Hp : opt_ok (om_msg m) _ = true |- _ => rewrite Es in Hp; destruct (payload_ok_spec _ Hp) as [Hf Ht] end.
    rewrite Hf. apply good_text_nodflt; [exact rd_msg|exact Ht].
Qed.

Lemma good_mid m : representable_outb flat flat_svg m = true ->
  good (enc_mid m) (den_opt (om_health m) (fun r => [RNum KHealth r]) ++ den_opt (om_sys m) (fun s => [den_sys s])).
Proof.
  intros H. unfold representable_outb in H. repeat (apply andb_true_iff in H; destruct H as [H ?]).
  unfold enc_mid. apply good_app.
  - apply good_of_opt. intros r Er.
    match goal with Hp : opt_ok (om_health m) _ = true |- _ => rewrite Er in Hp; cbn [opt_ok] in Hp;
      apply andb_true_iff in Hp; destruct Hp as [Hh1 Hh2]; apply Z.leb_le in Hh1; apply Z.leb_le in Hh2 end.
    assert (Hr : r = 0 \/ r = 1 \/ r = 2) by lia. unfold enc_health.
    destruct Hr as [->|[->| ->]]; apply (good_one _ true); reflexivity.
  - apply good_of_opt. intros s Es.
    match goal with Hp : opt_ok (om_sys m) _ = true |- _ => rewrite Es in Hp; cbn [opt_ok] in Hp;
      destruct (sem_sys_line s Hp) as [st Hs] end.
    apply (good_one _ st). exact Hs.
Qed.
End Flat.

(* ---------------------------------------------------------------- events *)
Lemma hwc_assoc id rest : ev_head id ++ rest = kv "HWC#" (itoa id ++ rest).
Proof. unfold ev_head, kv. rewrite app_assoc. reflexivity. Qed.

Lemma good_event e : rep_event (Some e) = true -> good (enc_event e) (den_event e).
Proof.
  intros H. cbn [rep_event] in H. do 5 (apply andb_true_iff in H; destruct H as [H ?]).
  unfold u32b in H. apply andb_true_iff in H. destruct H as [Hi1 Hi2]. apply Z.leb_le in Hi1. apply Z.ltb_lt in Hi2.
  unfold enc_event, den_event. repeat apply good_app.
  - destruct (ev_bin e) as [b|]; [|apply good_nil].
    match goal with Hb : u31b (be_edge b) = true |- _ => unfold u31b in Hb; apply andb_true_iff in Hb; destruct Hb as [Hb1 Hb2];
      apply Z.leb_le in Hb1; apply Z.ltb_lt in Hb2 end.
    apply (good_one _ true). rewrite hwc_assoc, read_hwc_line.
    + apply read_event_binary; lia.
    + rewrite !has_lf_app, itoa_no_lf. destruct (be_edge b >? 0); [rewrite has_lf_cons, itoa_no_lf|]; destruct (be_pressed b); reflexivity.
  - destruct (ev_pulsed e) as [v|]; [|apply good_nil].
    match goal with Hb : i32b v = true |- _ => unfold i32b in Hb; apply andb_true_iff in Hb; destruct Hb as [Hb1 Hb2];
      apply Z.leb_le in Hb1; apply Z.ltb_lt in Hb2 end.
    apply (good_one _ true). rewrite hwc_assoc, read_hwc_line.
    + apply read_event_enc; lia.
    + unfold kv. rewrite !has_lf_app, !itoa_no_lf. reflexivity.
  - destruct (ev_abs e) as [[v pv]|]; [|apply good_nil].
    match goal with Hb : u32b v = true |- _ => unfold u32b in Hb; apply andb_true_iff in Hb; destruct Hb as [Hb1 Hb2];
      apply Z.leb_le in Hb1; apply Z.ltb_lt in Hb2 end.
    apply (good_one _ true). rewrite hwc_assoc, read_hwc_line.
    + apply read_event_abs; lia.
    + unfold kv. rewrite !has_lf_app, !itoa_no_lf. reflexivity.
  - destruct (ev_speed e) as [[v pv]|]; [|apply good_nil].
    match goal with Hb : i32b v = true |- _ => unfold i32b in Hb; apply andb_true_iff in Hb; destruct Hb as [Hb1 Hb2];
      apply Z.leb_le in Hb1; apply Z.ltb_lt in Hb2 end.
    apply (good_one _ true). rewrite hwc_assoc, read_hwc_line.
    + apply read_event_speed; lia.
    + unfold kv. rewrite !has_lf_app, !itoa_no_lf. reflexivity.
  - destruct (ev_raw e) as [v|]; [|apply good_nil].
    match goal with Hb : u32b v = true |- _ => unfold u32b in Hb; apply andb_true_iff in Hb; destruct Hb as [Hb1 Hb2];
      apply Z.leb_le in Hb1; apply Z.ltb_lt in Hb2 end.
    apply (good_one _ true). rewrite hwc_assoc, read_hwc_line.
    + apply read_event_raw; lia.
    + unfold kv. rewrite !has_lf_app, !itoa_no_lf. reflexivity.
Qed.

Lemma good_events : forall l, forallb rep_event l = true ->
  exists ls, enc_events l = Ok ls /\ good ls (flat_map (fun e => den_opt e den_event) l).
Proof.
  induction l as [|[e|] r IH]; intros H.
  - exists []. split; [reflexivity|apply good_nil].
  - cbn [forallb] in H. apply andb_true_iff in H. destruct H as [He Hr]. destruct (IH Hr) as [ls [E1 E2]].
    exists (enc_event e ++ ls). split; [cbn [enc_events]; rewrite E1; reflexivity|].
    cbn [flat_map den_opt]. apply good_app; [apply good_event; exact He|exact E2].
  - cbn in H. discriminate.
Qed.

(* ---------------------------------------------------------------- registers *)
Lemma regid_no61 id : forallb is_regid_ch id = true -> forallb (fun x => negb (x =? 61)) id = true.
Proof. intros H. apply regid_no_eq. exact H. Qed.

Lemma read_reg_generic (kwb id : bytes) (v : Z) :
  kwb <> [] ->
  forallb (fun x => negb (x =? 61)) kwb = true ->
  (forall r, lookup (kwb ++ r) flow_words = None) ->
  (forall r, drop_prefix (str "HWC#") (kwb ++ r) = None) ->
  (forall r, drop_prefix (str "map=") (kwb ++ r) = None) ->
  (forall r, lookup (kwb ++ r) key_table = None) ->
  forallb is_regid_ch id = true ->
  read_out_line (kwb ++ id ++ 61 :: itoa v) = read_register (kwb ++ id ++ 61 :: itoa v).
Proof.
  intros Hne Hk Hf Hh Hm Hl Hid.
  rewrite read_out_line_nonempty by (destruct kwb; [congruence|discriminate]).
  unfold read_rest. rewrite Hf, Hh, Hm.
  assert (Hcut : cut_on 61 (kwb ++ id ++ 61 :: itoa v) = (kwb ++ id, itoa v, true)).
  { rewrite app_assoc. apply cut_on_app. rewrite forallb_app, Hk, (regid_no61 id Hid). reflexivity. }
  rewrite Hcut, Hl. reflexivity.
Qed.

Lemma reg_try (kw : string) k id v : forallb is_regid_ch id = true -> 0 <= v < 4294967296 ->
  try_register (str kw ++ id ++ 61 :: itoa v) kw k =
  Some (if k =? 1 then match read_u32 id with Some n => WF true [RReg 1 (itoa n) (if v >? 0 then 1 else 0)] | None => Malformed end
        else WF true [RReg k id v]).
Proof.
  intros Hid Hv. unfold try_register. rewrite drop_prefix_app, (cut_on_app 61 id (itoa v) (regid_no61 id Hid)), Hid.
  rewrite (itoa_read_u32 v Hv). reflexivity.
Qed.

Lemma good_reg r : rep_reg (Some r) = true -> good (enc_reg r) [RReg (rg_kind r) (rg_id r) (rg_val r)].
Proof.
  intros H. cbn [rep_reg] in H. repeat (apply andb_true_iff in H; destruct H as [H ?]).
  destruct r as [k id v]. cbn [rg_kind rg_id rg_val] in *.
  match goal with Hv : u32b v = true |- _ => unfold u32b in Hv; apply andb_true_iff in Hv; destruct Hv as [Hv1 Hv2];
    apply Z.leb_le in Hv1; apply Z.ltb_lt in Hv2 end.
  match goal with Hid : forallb is_regid_ch id = true |- _ => rename Hid into Hidok end.
  apply Z.leb_le in H. match goal with Hk : (k <=? 3) = true |- _ => apply Z.leb_le in Hk end.
  assert (Hk : k = 0 \/ k = 1 \/ k = 2 \/ k = 3) by lia.
  unfold enc_reg, reg_line, kv. cbn [rg_kind rg_id rg_val].
  destruct Hk as [->|[->|[->| ->]]]; cbn [Z.eqb]; apply (good_one _ true); rewrite <- app_assoc.
  - rewrite (read_reg_generic (str "Mem") id v) by (first [discriminate | reflexivity | assumption | intros; reflexivity]).
    unfold read_register. change (try_register (str "Mem" ++ id ++ 61 :: itoa v) "Flag#" 1) with (@None line_class).
    rewrite (reg_try "Mem" 0 id v Hidok ltac:(lia)). reflexivity.
  - match goal with Hc : (if 1 =? 1 then _ else _) = true |- _ => cbn [Z.eqb] in Hc; apply andb_true_iff in Hc; destruct Hc as [Hcan Hle] end.
    unfold canonical_nat in Hcan. destruct (read_u32 id) as [n|] eqn:En; [|discriminate]. apply beqb_eq in Hcan.
    apply Z.leb_le in Hle.
    rewrite (read_reg_generic (str "Flag#") id v) by (first [discriminate | reflexivity | assumption | intros; reflexivity]).
    unfold read_register. rewrite (reg_try "Flag#" 1 id v Hidok ltac:(lia)). cbn [Z.eqb]. rewrite En, Hcan.
    assert (Hv01 : v = 0 \/ v = 1) by lia. destruct Hv01 as [-> | ->]; reflexivity.
  - rewrite (read_reg_generic (str "Shift") id v) by (first [discriminate | reflexivity | assumption | intros; reflexivity]).
    unfold read_register. change (try_register (str "Shift" ++ id ++ 61 :: itoa v) "Flag#" 1) with (@None line_class).
    change (try_register (str "Shift" ++ id ++ 61 :: itoa v) "Mem" 0) with (@None line_class).
    rewrite (reg_try "Shift" 2 id v Hidok ltac:(lia)). reflexivity.
  - rewrite (read_reg_generic (str "State") id v) by (first [discriminate | reflexivity | assumption | intros; reflexivity]).
    unfold read_register. change (try_register (str "State" ++ id ++ 61 :: itoa v) "Flag#" 1) with (@None line_class).
    change (try_register (str "State" ++ id ++ 61 :: itoa v) "Mem" 0) with (@None line_class).
    change (try_register (str "State" ++ id ++ 61 :: itoa v) "Shift" 2) with (@None line_class).
    rewrite (reg_try "State" 3 id v Hidok ltac:(lia)). reflexivity.
Qed.

Lemma good_regs : forall l, forallb rep_reg l = true ->
  exists ls, enc_regs l = Ok ls /\ good ls (flat_map (fun r => den_opt r (fun x => [RReg (rg_kind x) (rg_id x) (rg_val x)])) l).
Proof.
  induction l as [|[r|] l IH]; intros H.
  - exists []. split; [reflexivity|apply good_nil].
  - cbn [forallb] in H. apply andb_true_iff in H. destruct H as [He Hr]. destruct (IH Hr) as [ls [E1 E2]].
    exists (enc_reg r ++ ls). split; [cbn [enc_regs]; rewrite E1; reflexivity|].
    cbn [flat_map den_opt]. apply (good_app _ _ [_] _); [apply good_reg; exact He|exact E2].
  - cbn in H. discriminate.
Qed.

(* ---------------------------------------------------------------- map block *)
Lemma good_map_entries : forall ord, forallb (fun kv => u32b (fst kv) && u32b (snd kv)) ord = true ->
  good (map enc_map_entry ord) (map (fun kv => RMap (fst kv) (snd kv)) ord).
Proof.
  induction ord as [|[k v] ord IH]; intros H; [apply good_nil|].
  cbn [forallb fst snd] in H. apply andb_true_iff in H. destruct H as [Hkv Hr].
  apply andb_true_iff in Hkv. destruct Hkv as [Hk Hv]. unfold u32b in Hk, Hv.
  apply andb_true_iff in Hk. destruct Hk as [Hk1 Hk2]. apply andb_true_iff in Hv. destruct Hv as [Hv1 Hv2].
  apply Z.leb_le in Hk1. apply Z.ltb_lt in Hk2. apply Z.leb_le in Hv1. apply Z.ltb_lt in Hv2.
  cbn [map fst snd]. apply (good_app [_] _ [_] _); [|apply IH; exact Hr].
  apply (good_one _ true). apply sem_map_entry; lia.
Qed.

Lemma forallb_perm {A} (f : A -> bool) a b : Permutation a b -> forallb f b = true -> forallb f a = true.
Proof.
  intros Hp H. rewrite forallb_forall in *. intros x Hx. apply H. apply (Permutation_in x Hp). exact Hx.
Qed.

(* ---------------------------------------------------------------- one message *)
Section Msg.
Variables flat flat_svg : bytes -> bytes.

Theorem enc_msg_sound ord m :
  representable_outb flat flat_svg m = true -> Permutation ord (om_map m) ->
  exists ls, enc_msg flat flat_svg ord m = Ok ls /\
    Forall wf_line ls /\ block_equiv (flat_map sem_out_line ls) (den_out m).
Proof.
  intros Hrep Hperm.
  pose proof (good_pre flat flat_svg m Hrep) as Gpre. pose proof (good_mid flat flat_svg m Hrep) as Gmid.
  assert (Hparts := Hrep). unfold representable_outb in Hparts. repeat (apply andb_true_iff in Hparts; destruct Hparts as [Hparts ?]).
  match goal with He : forallb rep_event (om_events m) = true |- _ => destruct (good_events _ He) as [evs [Eev Gev]] end.
  match goal with Hr : forallb rep_reg (om_regs m) = true |- _ => destruct (good_regs _ Hr) as [regs [Ereg Greg]] end.
  assert (Gmap : good (map enc_map_entry ord) (map (fun kv => RMap (fst kv) (snd kv)) ord)).
  { apply good_map_entries. apply (forallb_perm _ ord (om_map m) Hperm). assumption. }
  exists (enc_pre flat flat_svg m ++ map enc_map_entry ord ++ enc_mid m ++ evs ++ regs).
  split; [unfold enc_msg; rewrite Eev, Ereg; reflexivity|].
  pose proof (good_app _ _ _ _ Gpre (good_app _ _ _ _ Gmap (good_app _ _ _ _ Gmid (good_app _ _ _ _ Gev Greg)))) as [Hwf Hsem].
  split; [exact Hwf|]. rewrite Hsem.
  exists (den_pre m), (map (fun kv => RMap (fst kv) (snd kv)) ord), (den_map m), (den_post m).
  split; [|split; [reflexivity|split]].
  - unfold den_post. rewrite <- !app_assoc. reflexivity.
  - unfold den_map. apply Permutation_map. exact Hperm.
  - rewrite Forall_forall. intros r Hr. apply in_map_iff in Hr. destruct Hr as [kv [<- _]]. reflexivity.
Qed.

(* ---------------------------------------------------------------- message lists *)
Lemma enc_out_raw_sound : forall ms msgs ords,
  all_some_msgs ms = Some msgs ->
  Forall (fun m => representable_outb flat flat_svg m = true) msgs ->
  orders_ok ords msgs ->
  exists ls, enc_out_raw flat flat_svg ords ms = Ok ls /\
    Forall wf_line ls /\ reports_equiv (flat_map sem_out_line ls) (map den_out msgs).
Proof.
  induction ms as [|[m|] r IH]; intros msgs ords Hs Hrep Hord.
  - injection Hs as <-. inversion Hord; subst. exists []. split; [reflexivity|]. split; [constructor|].
    exists []. split; [reflexivity|constructor].
  - cbn [all_some_msgs] in Hs. destruct (all_some_msgs r) as [l|] eqn:El; [|discriminate]. injection Hs as <-.
    inversion Hrep as [|? ? Hm Hl]; subst. inversion Hord as [|o os ? ? Hp Hos]; subst.
    destruct (enc_msg_sound o m Hm Hp) as [ls1 [E1 [W1 B1]]].
    destruct (IH l os eq_refl Hl Hos) as [ls2 [E2 [W2 [rss [Hc Hf]]]]].
    exists (ls1 ++ ls2). split; [cbn [enc_out_raw tl]; rewrite E1, E2; reflexivity|].
    split; [apply Forall_app; auto|].
    exists (flat_map sem_out_line ls1 :: rss). split; [rewrite flat_map_app, Hc; reflexivity|].
    cbn [map]. constructor; assumption.
  - discriminate.
Qed.

Lemma one_lines_wf ls : Forall wf_line ls -> one_lines ls = ls.
Proof.
  unfold one_lines. induction ls as [|l ls IH]; intros H; [reflexivity|]. inversion H as [|? ? [st [rs Hl]] Hls]; subst.
  cbn [map]. rewrite (one_line_id l (wf_no_lf l st rs Hl)), (IH Hls). reflexivity.
Qed.

Theorem enc_out_sound : forall ms msgs ords,
  all_some_msgs ms = Some msgs ->
  Forall (fun m => representable_outb flat flat_svg m = true) msgs ->
  orders_ok ords msgs ->
  exists ls, enc_out flat flat_svg ords ms = Ok ls /\
    Forall wf_line ls /\ reports_equiv (flat_map sem_out_line ls) (map den_out msgs).
Proof.
  intros ms msgs ords Hs Hrep Hord.
  destruct (enc_out_raw_sound ms msgs ords Hs Hrep Hord) as [ls [E [W Rq]]].
  exists ls. split; [|split; assumption]. unfold enc_out. rewrite E. cbn [bind]. rewrite (one_lines_wf ls W). reflexivity.
Qed.
End Msg.

(* a payload that is one trimmed line is left alone by stripLineBreaks *)
Lemma nolf_forallb s : has_lf s = false -> forallb (fun x => negb (x =? 10)) s = true.
Proof.
  unfold has_lf, contains_byte. induction s as [|c s IH]; intros H; [reflexivity|]. cbn [existsb] in H.
  apply orb_false_iff in H. destruct H as [Hc Hs]. cbn [forallb]. rewrite Z.eqb_sym, Hc, (IH Hs). reflexivity.
Qed.

Theorem payload_fixed_point s : text_ok s = true -> trim_space s = s -> payload_ok strip_lb s = true.
Proof.
  intros Ht Htrim. unfold payload_ok. rewrite Ht, andb_true_r. apply beqb_eq.
  unfold text_ok in Ht. apply negb_true_iff in Ht.
  unfold strip_lb. rewrite (split_on_nosep 10 s (nolf_forallb s Ht)). cbn [map List.concat]. rewrite app_nil_r. exact Htrim.
Qed.


(* ---------------------------------------------------------------- witness *)
Definition demo_msg : out_msg :=
  mkMsg 2 [(7, 1); (300, 0); (4294967295, 65535)]
    (Some (mkPI (str "SK_RCPV2") (str "123456") (str "Panel A") (str "v1.2.3") [] true 4 [str "10.0.0.1"; str "fe80::1"] 1
                (Some [true; true; false; false; false; true; false; true; false; true; false; false; true])))
    (Some (str "<svg><g/></svg>", str "{""HWc"":[]}")) (Some (str "{}")) None None None (Some 300) (Some true) (Some 3000) (Some 50)
    (Some [str "192.168.10.99:54321"]) (Some (12, 0, 99, 4294967295)) None (Some (str "Hello = world"))
    (Some 1) (Some (mkSS 17 1112014848 3212836864 1067030938 [1500; 600; -2147483648; 2147483647; 0; 1; -1; 42]
                         [true; false; true; false; false; false; true; true]))
    [Some (mkEv 5 0 (Some (mkBin true 4)) None None None None);
     Some (mkEv 4294967295 0 None (Some (-2147483648)) None None None);
     Some (mkEv 6 0 None None (Some (4294967295, 0)) None None);
     Some (mkEv 7 0 None None None (Some (-1, 0)) None);
     Some (mkEv 8 0 None None None None (Some 123))]
    [Some (mkReg 0 (str "A1") 5); Some (mkReg 1 (str "12") 1); Some (mkReg 3 [] 4294967295)].

Lemma demo_msg_representable : representable_outb strip_lb strip_lb_svg demo_msg = true.
Proof. vm_compute. reflexivity. Qed.

