(* Bit-field lemmas for the packed integers of the inbound protocol.
   Encoder side (C01): finite sweeps over the representable field values, lifted with
   forallb_forall - bound stated in every lemma.  Decoder side (C02): general identities
   between Z.land / Z.shiftr (the code) and div / mod (the grammar's [bits]) for all Z. *)
From RP Require Import Lib.Base Lib.Sexp Model.MsgIn Model.EncIn Model.DecIn Spec.DenoteIn Spec.GrammarIn.
From Coq Require Import ZifyBool.
Open Scope Z_scope.

(* ---------------------------------------------------------------- sweeps *)
Definition zrange (n : nat) : list Z := map Z.of_nat (seq 0 n).
Lemma zrange_in n z : 0 <= z < Z.of_nat n -> In z (zrange n).
Proof.
  intros H. unfold zrange. apply in_map_iff. exists (Z.to_nat z). split; [lia|].
  apply in_seq. lia.
Qed.
Lemma sweep1 (P : Z -> bool) n : forallb P (zrange n) = true -> forall z, 0 <= z < Z.of_nat n -> P z = true.
Proof. intros H z Hz. rewrite forallb_forall in H. apply H, zrange_in, Hz. Qed.
Lemma sweep2 (P : Z -> Z -> bool) n m :
  forallb (fun a => forallb (P a) (zrange m)) (zrange n) = true ->
  forall a b, 0 <= a < Z.of_nat n -> 0 <= b < Z.of_nat m -> P a b = true.
Proof. intros H a b Ha Hb. apply (sweep1 (P a) m); [|exact Hb]. apply (sweep1 _ n H a Ha). Qed.
Lemma sweep3 (P : Z -> Z -> Z -> bool) n m k :
  forallb (fun a => forallb (fun b => forallb (P a b) (zrange k)) (zrange m)) (zrange n) = true ->
  forall a b c, 0 <= a < Z.of_nat n -> 0 <= b < Z.of_nat m -> 0 <= c < Z.of_nat k -> P a b c = true.
Proof. intros H a b c Ha Hb Hc. apply (sweep1 (P a b) k); [|exact Hc]. apply (sweep2 _ n m H a b Ha Hb). Qed.

Lemma in_range_iff lo hi v : in_range lo hi v = true <-> lo <= v <= hi.
Proof. unfold in_range. lia. Qed.

(* ---- HWC# : state 0-7, output, blink 0-15 (512 values) ---- *)
Definition mode_ok (st bl : Z) : bool :=
  forallb (fun out =>
    let v := pack_mode (mkMode st out bl) in
    (0 <=? v) && (v <? 4096) && (bits v 0 4 =? st) && (if out then bits v 5 1 =? 1 else negb (bits v 5 1 =? 1)) && (bits v 8 4 =? bl))
    [true; false].
Lemma mode_sweep : forallb (fun a => forallb (mode_ok a) (zrange 16)) (zrange 8) = true.
Proof. vm_compute. reflexivity. Qed.
Lemma pack_mode_bits : forall m, rep_mode m = true ->
  let v := pack_mode m in
  0 <= v < 4096 /\ bits v 0 4 = m_state m /\ (bits v 5 1 =? 1) = m_output m /\ bits v 8 4 = m_blink m.
Proof.
  intros [st out bl] H. unfold rep_mode in H. cbn [m_state m_blink] in H.
  apply andb_true_iff in H. destruct H as [H1 H2]. apply in_range_iff in H1. apply in_range_iff in H2.
  pose proof (sweep2 mode_ok 8 16 mode_sweep st bl ltac:(lia) ltac:(lia)) as S.
  unfold mode_ok in S. cbn [forallb] in S. cbn [m_state m_output m_blink].
  destruct out; cbv zeta in *.
  - apply andb_true_iff in S. destruct S as [S _].
    destruct (bits (pack_mode (mkMode st true bl)) 5 1 =? 1) eqn:E; [|lia]. repeat split; lia.
  - apply andb_true_iff in S. destruct S as [_ S]. apply andb_true_iff in S. destruct S as [S _].
    destruct (bits (pack_mode (mkMode st false bl)) 5 1 =? 1) eqn:E; [lia|]. repeat split; lia.
Qed.

(* ---- HWCx# : interpretation 0-15, value 0-4095 (65536 values) ---- *)
Definition ext_ok (i v : Z) : bool :=
  let p := pack_ext (mkExt i v) in (0 <=? p) && (p <? 65536) && (bits p 12 4 =? i) && (bits p 0 12 =? v).
Lemma ext_sweep : forallb (fun a => forallb (ext_ok a) (zrange 4096)) (zrange 16) = true.
Proof. vm_compute. reflexivity. Qed.
Lemma pack_ext_bits : forall x, rep_ext x = true ->
  let p := pack_ext x in 0 <= p < 65536 /\ bits p 12 4 = x_interp x /\ bits p 0 12 = x_value x.
Proof.
  intros [i v] H. unfold rep_ext in H. cbn [x_interp x_value] in *.
  apply andb_true_iff in H. destruct H as [H1 H2]. apply in_range_iff in H1. apply in_range_iff in H2.
  pose proof (sweep2 ext_ok 16 4096 ext_sweep i v ltac:(lia) ltac:(lia)) as S.
  unfold ext_ok in S. cbv zeta in *. lia.
Qed.

(* ---- colours: quantisation is arithmetic (all uint32), packing a 64-value sweep ---- *)
Lemma quant2_q2 c : 0 <= c -> quant2 c = q2 c /\ 0 <= q2 c <= 3.
Proof.
  intros H. unfold quant2, q2, map_value, constrain, gdiv.
  replace ((c - 0) * (3 - 0)) with (c * 3) by lia. replace (255 - 0) with 255 by lia.
  rewrite Z.quot_div_nonneg by lia. rewrite Z.add_0_r.
  assert (D : 0 <= c * 3 / 255) by (apply Z.div_pos; lia).
  assert (Q : Z.min c 255 / 85 = Z.min (c * 3 / 255) 3).
  { destruct (Z_lt_le_dec c 255).
    - rewrite Z.min_l by lia. assert (c * 3 / 255 = c / 85).
      { replace 255 with (3 * 85) by lia. rewrite Z.mul_comm. rewrite Z.div_mul_cancel_l by lia. reflexivity. }
      assert (c / 85 < 3) by (apply Z.div_lt_upper_bound; lia). lia.
    - rewrite (Z.min_r c) by lia. change (255 / 85) with 3.
      assert (3 <= c * 3 / 255) by (apply Z.div_le_lower_bound; lia). lia. }
  rewrite Q. set (t := c * 3 / 255) in *.
  assert (R : 0 <= Z.min t 3 <= 3) by lia.
  split; [|exact R].
  destruct (t <? 0) eqn:E1; [lia|]. destruct (t >? 3) eqn:E2.
  - rewrite Z.min_r by lia. reflexivity.
  - rewrite Z.min_l by lia. change 3 with (Z.ones 2). rewrite Z.land_ones by lia.
    apply Z.mod_small. change (2 ^ 2) with 4. lia.
Qed.

Definition rgbbits_ok (r g b : Z) : bool :=
  let v := Z.lor (Z.lor (Z.shiftl r 4) (Z.shiftl g 2)) b in
  (bits (Z.lor 192 v) 6 1 =? 1) && (bits (Z.lor 192 v) 4 2 =? r) && (bits (Z.lor 192 v) 2 2 =? g) && (bits (Z.lor 192 v) 0 2 =? b) &&
  (bits (Z.lor 64 v) 6 1 =? 1) && (bits (Z.lor 64 v) 4 2 =? r) && (bits (Z.lor 64 v) 2 2 =? g) && (bits (Z.lor 64 v) 0 2 =? b) &&
  (0 <? Z.lor 64 v) && (Z.lor 192 v <? 256).
Lemma rgbbits_sweep :
  forallb (fun a => forallb (fun b => forallb (rgbbits_ok a b) (zrange 4)) (zrange 4)) (zrange 4) = true.
Proof. vm_compute. reflexivity. Qed.

Lemma rgb_bits_spec : forall c, rep_rgb c = true ->
  let v := rgb_bits c in
  let r := q2 (cr_red c) in let g := q2 (cr_green c) in let b := q2 (cr_blue c) in
  bits (Z.lor 192 v) 6 1 = 1 /\ bits (Z.lor 192 v) 4 2 = r /\ bits (Z.lor 192 v) 2 2 = g /\ bits (Z.lor 192 v) 0 2 = b /\
  bits (Z.lor 64 v) 6 1 = 1 /\ bits (Z.lor 64 v) 4 2 = r /\ bits (Z.lor 64 v) 2 2 = g /\ bits (Z.lor 64 v) 0 2 = b /\
  0 < Z.lor 64 v /\ Z.lor 192 v < 256 /\ 0 <= Z.lor 192 v /\ Z.lor 64 v < 256.
Proof.
  intros [r g b] H. unfold rep_rgb, is_u32 in H. cbn [cr_red cr_green cr_blue] in *.
  apply andb_true_iff in H. destruct H as [H Hb]. apply andb_true_iff in H. destruct H as [Hr Hg].
  apply in_range_iff in Hr. apply in_range_iff in Hg. apply in_range_iff in Hb.
  unfold rgb_bits. cbn [cr_red cr_green cr_blue].
  destruct (quant2_q2 r ltac:(lia)) as [-> R]. destruct (quant2_q2 g ltac:(lia)) as [-> G].
  destruct (quant2_q2 b ltac:(lia)) as [-> B].
  pose proof (sweep3 rgbbits_ok 4 4 4 rgbbits_sweep (q2 r) (q2 g) (q2 b) ltac:(lia) ltac:(lia) ltac:(lia)) as S.
  unfold rgbbits_ok in S. cbv zeta in *.
  assert (0 <= Z.lor 192 (Z.lor (Z.lor (Z.shiftl (q2 r) 4) (Z.shiftl (q2 g) 2)) (q2 b))).
  { apply Z.lor_nonneg. split; [lia|]. apply Z.lor_nonneg. split; [|lia]. apply Z.lor_nonneg.
    split; apply Z.shiftl_nonneg; lia. }
  assert (Z.lor 64 (Z.lor (Z.lor (Z.shiftl (q2 r) 4) (Z.shiftl (q2 g) 2)) (q2 b)) < 256).
  { clear S H. revert R G B. generalize (q2 r) (q2 g) (q2 b). intros x y z X Y Zz.
    assert (x = 0 \/ x = 1 \/ x = 2 \/ x = 3) as [ -> | [ -> | [ -> | -> ] ] ] by lia;
    assert (y = 0 \/ y = 1 \/ y = 2 \/ y = 3) as [ -> | [ -> | [ -> | -> ] ] ] by lia;
    assert (z = 0 \/ z = 1 \/ z = 2 \/ z = 3) as [ -> | [ -> | [ -> | -> ] ] ] by lia; vm_compute; reflexivity. }
  lia.
Qed.

(* index colours 0-31 *)
Definition index_ok (i : Z) : bool :=
  (bits (Z.lor 128 (Z.land i 31)) 6 1 =? 0) && (bits (Z.lor 128 (Z.land i 31)) 0 5 =? i) &&
  (Z.land i 31 =? i) && (bits i 6 1 =? 0) && (bits i 0 5 =? i) && (Z.lor 128 (Z.land i 31) <? 256) && (128 <=? Z.lor 128 (Z.land i 31)).
Lemma index_sweep : forallb index_ok (zrange 32) = true.
Proof. vm_compute. reflexivity. Qed.
Lemma index_bits_spec i : 0 <= i <= 31 ->
  bits (Z.lor 128 (Z.land i 31)) 6 1 = 0 /\ bits (Z.lor 128 (Z.land i 31)) 0 5 = i /\
  Z.land i 31 = i /\ bits i 6 1 = 0 /\ bits i 0 5 = i /\ 128 <= Z.lor 128 (Z.land i 31) < 256.
Proof.
  intros H. pose proof (sweep1 index_ok 32 index_sweep i ltac:(lia)) as S. unfold index_ok in S.
  lia.
Qed.

(* ---- text style / icon integers (C01 side) ---- *)
Definition icons_ok (s m : Z) : bool :=
  let v := Z.lor (Z.land s 3) (Z.shiftl (Z.land m 7) 3) in
  (bits v 0 2 =? s) && (bits v 3 3 =? m) && (0 <=? v) && (v <? 64) && (if (s >? 0) || (m >? 0) then v >? 0 else v =? 0).
Lemma icons_sweep : forallb (fun a => forallb (icons_ok a) (zrange 8)) (zrange 4) = true.
Proof. vm_compute. reflexivity. Qed.

Definition face_ok (t h : Z) : bool :=
  forallb (fun fx : bool =>
    let v := Z.lor (Z.lor (Z.land t 7) (Z.shiftl (Z.land h 7) 3)) (Z.shiftl (if fx then 1 else 0) 6) in
    (bits v 0 3 =? t) && (bits v 3 3 =? h) && (if fx then bits v 6 1 =? 1 else negb (bits v 6 1 =? 1)) && (0 <=? v) && (v <? 128)) [true; false].
Lemma face_sweep : forallb (fun a => forallb (face_ok a) (zrange 8)) (zrange 8) = true.
Proof. vm_compute. reflexivity. Qed.

Definition sizes_ok (tw th : Z) : bool :=
  forallb (fun hw => forallb (fun hh =>
    let v := Z.lor (Z.lor (Z.land tw 3) (Z.shiftl (Z.land th 3) 2)) (Z.lor (Z.shiftl (Z.land hw 3) 4) (Z.shiftl (Z.land hh 3) 6)) in
    (bits v 0 2 =? tw) && (bits v 2 2 =? th) && (bits v 4 2 =? hw) && (bits v 6 2 =? hh) && (0 <=? v) && (v <? 256))
    (zrange 4)) (zrange 4).
Lemma sizes_sweep : forallb (fun a => forallb (sizes_ok a) (zrange 4)) (zrange 4) = true.
Proof. vm_compute. reflexivity. Qed.

Definition settings_ok (p s : Z) : bool :=
  let v := Z.lor (Z.land p 3) (Z.shiftl (Z.land s 7) 2) in
  (bits v 0 2 =? p) && (bits v 2 3 =? s) && (0 <=? v) && (v <? 32).
Lemma settings_sweep : forallb (fun a => forallb (settings_ok a) (zrange 8)) (zrange 4) = true.
Proof. vm_compute. reflexivity. Qed.

(* ---------------------------------------------------------------- decoder side: all Z *)
Lemma land_ones_bits v lo k : 0 <= lo -> 0 <= k ->
  Z.land (Z.shiftr v lo) (Z.ones k) = bits v lo k.
Proof. intros. unfold bits. rewrite Z.land_ones by lia. rewrite Z.shiftr_div_pow2 by lia. reflexivity. Qed.

Lemma land_bits0 v k : 0 <= k -> Z.land v (Z.ones k) = bits v 0 k.
Proof. intros. unfold bits. rewrite Z.land_ones by lia. rewrite Z.pow_0_r, Z.div_1_r. reflexivity. Qed.

Lemma bits1_testbit v k : 0 <= k -> bits v k 1 = Z.b2z (Z.testbit v k).
Proof. intros. unfold bits. rewrite Z.testbit_spec' by lia. rewrite Z.pow_1_r. reflexivity. Qed.

Lemma land_pow2 v k : 0 <= k -> Z.land v (2 ^ k) = 2 ^ k * bits v k 1.
Proof.
  intros H. rewrite bits1_testbit by lia. apply Z.bits_inj'. intros i Hi.
  rewrite Z.land_spec, Z.pow2_bits_eqb by lia.
  destruct (Z.testbit v k) eqn:T; cbn [Z.b2z].
  - rewrite Z.mul_1_r, Z.pow2_bits_eqb by lia.
    destruct (Z.eqb_spec k i) as [->|N]; [rewrite T; reflexivity|apply andb_false_r].
  - rewrite Z.mul_0_r, Z.bits_0. destruct (Z.eqb_spec k i) as [->|N]; [rewrite T; reflexivity|apply andb_false_r].
Qed.

Lemma bits1_range v k : 0 <= k -> bits v k 1 = 0 \/ bits v k 1 = 1.
Proof. intros. rewrite bits1_testbit by lia. destruct (Z.testbit v k); cbn; lia. Qed.

Lemma land32 v : (Z.land v 32 =? 32) = (bits v 5 1 =? 1).
Proof. change 32 with (2 ^ 5). rewrite land_pow2 by lia. destruct (bits1_range v 5 ltac:(lia)) as [ -> | -> ]; reflexivity. Qed.
Lemma land64 v : (Z.land v 64 >? 0) = (bits v 6 1 =? 1).
Proof. change 64 with (2 ^ 6). rewrite land_pow2 by lia. destruct (bits1_range v 6 ltac:(lia)) as [ -> | -> ]; reflexivity. Qed.
Lemma land_shr6_1 v : (Z.land (Z.shiftr v 6) 1 >? 0) = (bits v 6 1 =? 1).
Proof.
  change 1 with (Z.ones 1) at 1. rewrite land_ones_bits by lia.
  destruct (bits1_range v 6 ltac:(lia)) as [ -> | -> ]; reflexivity.
Qed.

Lemma bits_range v lo k : 0 <= k -> 0 <= bits v lo k < 2 ^ k.
Proof. intros. unfold bits. apply Z.mod_pos_bound. apply Z.pow_pos_nonneg; lia. Qed.

(* uint32(MapAndConstrainValue(x, 0, 3, 0, 255)) on a 2-bit value, and back through q2 *)
Lemma unquant2_q2 x : 0 <= x <= 3 -> q2 (unquant2 x) = x /\ 0 <= unquant2 x <= 255.
Proof.
  intros H. assert (x = 0 \/ x = 1 \/ x = 2 \/ x = 3) as [ -> | [ -> | [ -> | -> ] ] ] by lia; vm_compute; split; try split; congruence.
Qed.
