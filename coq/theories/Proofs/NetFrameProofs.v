(* C08 / C10 / C11 (delivery part): consequences of the refinement theorem
   NetProofs.bin_refines, facts about the reference reading on streams of timely frames and
   on faulty tails, and the ASCII loop. *)
From RP Require Import Lib.Base Lib.Varint Lib.Strings Model.Net Model.Client Spec.NetSpec
     Proofs.NetProbeProofs Proofs.NetProofs.
From Coq Require Import ZifyBool.

Lemma zlen_app' {A} (a b : list A) : zlen (a ++ b) = zlen a + zlen b.
Proof. unfold zlen. rewrite app_length. lia. Qed.
Lemma zlen_map {A B} (f : A -> B) l : zlen (map f l) = zlen l.
Proof. unfold zlen. rewrite map_length. reflexivity. Qed.

Lemma app_eq_len {A} : forall (a a' b b' : list A), length a = length a' -> a ++ b = a' ++ b' -> a = a' /\ b = b'.
Proof.
  induction a as [|x a IH]; intros [|y a'] b b' Hl H; cbn in *; try discriminate; [tauto|].
  inversion H; subst. destruct (IH a' b b') as [-> ->]; [lia|assumption|]. tauto.
Qed.

Lemma u32le_le32 : forall n rest, 0 <= n < 4294967296 -> u32le (le32 n ++ rest) = n.
Proof.
  intros n rest H. unfold le32, wrap32. cbv zeta. cbn [app u32le].
  rewrite (Z.mod_small n 4294967296) by lia. Z.div_mod_to_equations. lia.
Qed.

Lemma zlen_frame : forall p, zlen (frame p) = 4 + zlen p.
Proof. intro p. unfold frame, le32. cbv zeta. rewrite zlen_app'. reflexivity. Qed.

Lemma tmax_app : forall (a b : list (Z * Z)) m, tmax (a ++ b) m = tmax b (tmax a m).
Proof. induction a as [|[t x] a IH]; intros; cbn; [reflexivity|]. apply IH. Qed.

(* one timely frame at the head of a stream is read as exactly that frame *)
Lemma next_frame_good : forall tf rest p,
  map snd tf = frame p -> zlen p < limit -> frame_timely tf = true ->
  exists te, next_frame (tf ++ rest) = FGood p te rest.
Proof.
  intros tf rest p Hb Hp Ht. unfold limit in Hp. pose proof (zlen_nonneg' p) as Hp0.
  destruct tf as [|[t1 b1] tf']; [discriminate|].
  unfold frame_timely in Ht.
  destruct (split_tr 4 ((t1, b1) :: tf') []) as [[h pl]|] eqn:E4; [|discriminate].
  apply andb_true_iff in Ht. destruct Ht as [Ht4 Hte].
  destruct (split_tr_sound _ _ _ _ E4) as [Htf Hlh]. change (Z.max 0 4) with 4 in Hlh.
  assert (Hsp : split_tr 4 (((t1, b1) :: tf') ++ rest) [] = Some (h, pl ++ rest)).
  { rewrite Htf, <- app_assoc, <- Hlh. apply split_tr_app. }
  cbn [app] in Hsp. cbn [app next_frame]. rewrite Hsp.
  assert (E1 : t1 + inframe <=? tmax h t1 = false) by lia. rewrite E1.
  rewrite Htf, map_app in Hb. unfold frame in Hb.
  destruct (app_eq_len (map snd h) (le32 (zlen p)) (map snd pl) p) as [Hh Hpl]; [|exact Hb|].
  { rewrite map_length. unfold zlen in Hlh. cbn. lia. }
  rewrite snds_map, Hh. rewrite <- (app_nil_r (le32 (zlen p))), u32le_le32 by lia.
  assert (E2 : limit <=? zlen p = false) by (unfold limit; lia). rewrite E2.
  assert (Hlp : zlen pl = zlen p). { rewrite <- Hpl. rewrite zlen_map. reflexivity. }
  rewrite <- Hlp, split_tr_app.
  assert (E3 : tmax h t1 + inframe <=? tmax pl (tmax h t1) = false) by lia. rewrite E3.
  rewrite snds_map, Hpl. eexists. reflexivity.
Qed.

(* a stream of timely frames followed by anything: the reference reading yields those frames
   and continues on what follows *)
Lemma walk_bin_prefix : forall ps good bad fuel,
  Forall (fun p => zlen p < limit) ps ->
  map snd good = concat (map frame ps) -> frames_timely good ps = true ->
  map fst (fst (walk_bin (length ps + fuel) (good ++ bad))) = ps ++ map fst (fst (walk_bin fuel bad)) /\
  snd (walk_bin (length ps + fuel) (good ++ bad)) = snd (walk_bin fuel bad).
Proof.
  induction ps as [|p r IH]; intros good bad fuel Hl Hb Ht.
  - cbn in Ht. destruct good; [|discriminate]. cbn. split; reflexivity.
  - cbn [frames_timely] in Ht.
    destruct (split_tr (4 + zlen p) good []) as [[tf rest]|] eqn:Es; [|discriminate].
    apply andb_true_iff in Ht. destruct Ht as [Ht1 Ht2].
    destruct (split_tr_sound _ _ _ _ Es) as [Hg Hlt]. pose proof (zlen_nonneg' p).
    replace (Z.max 0 (4 + zlen p)) with (4 + zlen p) in Hlt by lia.
    inversion Hl; subst.
    cbn [map concat] in Hb. rewrite map_app in Hb.
    destruct (app_eq_len (map snd tf) (frame p) (map snd rest) (concat (map frame r))) as [Hf Hr]; [|exact Hb|].
    { rewrite map_length. pose proof (zlen_frame p). unfold zlen in *. lia. }
    destruct (next_frame_good tf (rest ++ bad) p Hf H2 Ht1) as [te Hn].
    rewrite <- app_assoc. cbn [length plus walk_bin]. rewrite Hn.
    destruct (IH rest bad fuel H3 Hr Ht2) as [I1 I2].
    destruct (walk_bin (length r + fuel) (rest ++ bad)) as [g e]. cbn [fst snd map] in *.
    rewrite I1. split; [reflexivity|exact I2].
Qed.

(* ---------- the three shapes of a fault, as the reference reading classifies them ---------- *)
Lemma split4_app : forall (h rest : list (Z * Z)), zlen h = 4 -> split_tr 4 (h ++ rest) [] = Some (h, rest).
Proof. intros h rest H. rewrite <- H. apply split_tr_app. Qed.

(* a length at or above the limit: fault at the instant the header is complete *)
Lemma over_limit_shape : forall t1 b1 h' rest,
  let h := (t1, b1) :: h' in
  zlen h = 4 -> limit <= u32le (map snd h) -> tmax h t1 < t1 + inframe ->
  next_frame (h ++ rest) = FFault (tmax h t1) 2.
Proof.
  intros t1 b1 h' rest h Hl Hv Ht. subst h. cbn [app next_frame].
  change ((t1, b1) :: h' ++ rest) with (((t1, b1) :: h') ++ rest). rewrite split4_app by exact Hl.
  assert (E1 : t1 + inframe <=? tmax ((t1, b1) :: h') t1 = false) by lia. rewrite E1.
  rewrite snds_map. assert (E2 : limit <=? u32le (map snd ((t1, b1) :: h')) = true) by lia. rewrite E2. reflexivity.
Qed.

(* the header never completes (fewer than four bytes ever arrive), or completes too late:
   fault 2 s after its first byte *)
Lemma header_stall_short : forall t1 b1 r, zlen ((t1, b1) :: r) < 4 ->
  next_frame ((t1, b1) :: r) = FFault (t1 + inframe) 1.
Proof.
  intros t1 b1 r H. cbn [next_frame]. destruct (split_tr 4 ((t1, b1) :: r) []) as [[h x]|] eqn:E; [|reflexivity].
  apply split_tr_sound in E. destruct E as [E1 E2]. rewrite E1, zlen_app' in H. pose proof (zlen_nonneg' x). lia.
Qed.
Lemma header_stall_late : forall t1 b1 h' rest,
  let h := (t1, b1) :: h' in
  zlen h = 4 -> t1 + inframe <= tmax h t1 -> next_frame (h ++ rest) = FFault (t1 + inframe) 1.
Proof.
  intros t1 b1 h' rest h Hl Ht. subst h. cbn [app next_frame].
  change ((t1, b1) :: h' ++ rest) with (((t1, b1) :: h') ++ rest). rewrite split4_app by exact Hl.
  assert (E1 : t1 + inframe <=? tmax ((t1, b1) :: h') t1 = true) by lia. rewrite E1. reflexivity.
Qed.

(* header fine and below the limit, payload never complete or complete too late: fault 2 s
   after the header *)
Lemma payload_stall_shape : forall t1 b1 h' rest,
  let h := (t1, b1) :: h' in
  let v := u32le (map snd h) in
  zlen h = 4 -> v < limit -> tmax h t1 < t1 + inframe ->
  (zlen rest < v \/ exists pl r', rest = pl ++ r' /\ zlen pl = v /\ 0 < v /\ tmax h t1 + inframe <= tmax pl (tmax h t1)) ->
  next_frame (h ++ rest) = FFault (tmax h t1 + inframe) 3.
Proof.
  intros t1 b1 h' rest h v Hl Hv Ht Hp. subst h. cbn [app next_frame].
  change ((t1, b1) :: h' ++ rest) with (((t1, b1) :: h') ++ rest). rewrite split4_app by exact Hl.
  assert (E1 : t1 + inframe <=? tmax ((t1, b1) :: h') t1 = false) by lia. rewrite E1.
  rewrite snds_map. fold v. assert (E2 : limit <=? v = false) by lia. rewrite E2.
  destruct Hp as [Hs|(pl & r' & -> & Hpl & Hv0 & Hlate)].
  - destruct (split_tr v rest []) as [[pl r']|] eqn:E; [|reflexivity].
    apply split_tr_sound in E. destruct E as [E3 E4]. rewrite E3, zlen_app' in Hs. pose proof (zlen_nonneg' r'). lia.
  - rewrite <- Hpl, split_tr_app.
    assert (E3 : tmax ((t1, b1) :: h') t1 + inframe <=? tmax pl (tmax ((t1, b1) :: h') t1) = true) by lia. rewrite E3. reflexivity.
Qed.

Section Reader.
Variable M : Type.
Variable unmarshal : bytes -> M.
Variable decode : bytes -> M.
Notation bin := (bin_loop M unmarshal).
Notation dlv := (deliveries M).

(* C08 binary: all frame sequences, all timings of the bytes that keep each frame timely
   (any segmentation: the hypothesis mentions only the byte values and their times) *)
Theorem bin_framing : forall ps tb nw fuel,
  Forall (fun p => zlen p < limit) ps ->
  map snd tb = concat (map frame ps) ->
  tb_sorted nw tb = true ->
  frames_timely tb ps = true ->
  (length tb < fuel)%nat -> (length ps < fuel)%nat ->
  map snd (dlv (fst (bin fuel (C nw tb None)))) = map unmarshal ps /\
  snd (bin fuel (C nw tb None)) = Waiting.
Proof.
  intros ps tb nw fuel Hl Hb Hs Ht Hf1 Hf2.
  destruct (bin_refines M unmarshal fuel tb nw None Hs I Hf1) as (H1 & _ & H3).
  destruct (fuel - length ps)%nat as [|f'] eqn:Ef; [lia|].
  assert (Hfe : (length ps + S f')%nat = fuel) by lia.
  destruct (walk_bin_prefix ps tb [] (S f') Hl Hb Ht) as [W1 W2].
  rewrite app_nil_r, Hfe in W1, W2.
  cbn [walk_bin next_frame fst snd map] in W1, W2. rewrite app_nil_r in W1.
  rewrite H1, H3, W2. split; [|reflexivity].
  rewrite map_map. cbn [snd]. rewrite <- W1, map_map. reflexivity.
Qed.

(* C10: a fault after any number of good frames - every good frame is delivered, nothing of
   the broken frame or after it, and the loop ends as the reference reading demands *)
Theorem fault_contained : forall ps good bad nw fuel t k,
  Forall (fun p => zlen p < limit) ps ->
  map snd good = concat (map frame ps) -> frames_timely good ps = true ->
  next_frame bad = FFault t k ->
  tb_sorted nw (good ++ bad) = true ->
  (length (good ++ bad) < fuel)%nat -> (length ps < fuel)%nat ->
  map snd (dlv (fst (bin fuel (C nw (good ++ bad) None)))) = map unmarshal ps /\
  snd (bin fuel (C nw (good ++ bad) None)) = (if k =? 2 then Dropped t RLimit else Dropped t RTimeout).
Proof.
  intros ps good bad nw fuel t k Hl Hb Ht Hn Hs Hf1 Hf2.
  destruct (bin_refines M unmarshal fuel (good ++ bad) nw None Hs I Hf1) as (H1 & _ & H3).
  destruct (fuel - length ps)%nat as [|f'] eqn:Ef; [lia|].
  assert (Hfe : (length ps + S f')%nat = fuel) by lia.
  destruct (walk_bin_prefix ps good bad (S f') Hl Hb Ht) as [W1 W2].
  rewrite Hfe in W1, W2.
  cbn [walk_bin] in W1, W2. rewrite Hn in W1, W2. cbn [fst snd map] in W1, W2. rewrite app_nil_r in W1.
  rewrite H1, H3, W2. split; [|reflexivity].
  rewrite map_map. cbn [snd]. rewrite <- W1, map_map. reflexivity.
Qed.

(* allocation: for EVERY connection state, fuel and stream, only sizes below the limit *)
Theorem alloc_bounded_any : forall fuel c, Forall (fun n => n < 500000) (allocs M (fst (bin fuel c))).
Proof.
  induction fuel as [|f IH]; intro c; cbn [bin_loop]; [constructor|].
  destruct (read_full 1 None c) as [[h1| |] c1]; try constructor.
  destruct (read_full 3 (Some (now c1 + 2000)) c1) as [[h2| |] c2]; try constructor.
  unfold payload_limit. destruct (le32_dec (h1 ++ h2) <? 500000) eqn:E; [|constructor].
  destruct (read_full (le32_dec (h1 ++ h2)) (Some (now c2 + 2000)) c2) as [[p| |] c3].
  - specialize (IH c3). destruct (bin_loop M unmarshal f c3). cbn [fst allocs]. constructor; [lia|exact IH].
  - cbn. constructor; [lia|constructor].
  - cbn. constructor; [lia|constructor].
Qed.

(* C11 (loss of the panel at any point): a close after the last byte changes nothing about
   what is delivered - exactly the complete frames of the reference reading, once, in order -
   and the loop ends *)
Theorem close_delivers_complete_frames : forall fuel tb nw ct rst,
  tb_sorted nw tb = true -> nw <= ct -> Forall (fun x => fst x <= ct) tb -> (length tb < fuel)%nat ->
  dlv (fst (bin fuel (C nw tb (Some (ct, rst))))) = dlv (fst (bin fuel (C nw tb None))) /\
  dlv (fst (bin fuel (C nw tb (Some (ct, rst))))) = map (fun g => (snd g, unmarshal (fst g))) (fst (walk_bin fuel tb)) /\
  exists t r, snd (bin fuel (C nw tb (Some (ct, rst)))) = Dropped t r.
Proof.
  intros fuel tb nw ct rst Hs Hn Hc Hf.
  destruct (bin_refines M unmarshal fuel tb nw (Some (ct, rst)) Hs (conj Hn Hc) Hf) as (H1 & _ & H3).
  destruct (bin_refines M unmarshal fuel tb nw None Hs I Hf) as (G1 & _ & _).
  rewrite H1, G1. split; [reflexivity|]. split; [reflexivity|].
  rewrite H3. unfold spec_outcome. destruct (snd (walk_bin fuel tb)) as [[t k]|].
  - destruct (k =? 2); [eauto|]. destruct (t <=? ct); eauto.
  - eauto.
Qed.

(* ---------- ASCII loop ---------- *)
Lemma line_tr_walk : forall (l : list (Z * Z)) acc tm,
  match line_tr l acc tm with
  | Some (bs, tn, rest) => walk_lines_aux l acc tm = (bs, tn) :: walk_lines_aux rest [] tn /\
                           (length rest < length l)%nat /\ exists a, l = a ++ rest /\ tn = tmax a tm
  | None => walk_lines_aux l acc tm = []
  end.
Proof.
  induction l as [|[t b] r IH]; intros acc tm; cbn [line_tr walk_lines_aux]; [reflexivity|].
  destruct (b =? 10).
  - split; [reflexivity|]. split; [cbn [length]; apply Nat.lt_succ_diag_r|]. exists [(t, b)]. split; reflexivity.
  - specialize (IH (b :: acc) (Z.max tm t)). destruct (line_tr r (b :: acc) (Z.max tm t)) as [[[bs tn] rest]|]; [|exact IH].
    destruct IH as (I1 & I2 & a & Ia & It). split; [exact I1|]. split; [cbn [length]; apply Nat.lt_lt_succ_r; exact I2|].
    exists ((t, b) :: a). split; [rewrite Ia; reflexivity|exact It].
Qed.

Theorem asc_refines : forall fuel (tb : list (Z * Z)) nw c,
  close_after c nw tb -> (length tb < fuel)%nat ->
  asc_loop M decode fuel (C nw tb c) =
  (map (fun x => ODeliver (snd x) (decode (trim_space (fst x)))) (walk_lines nw tb),
   match c with Some (ct, rst) => Dropped ct (end_reason rst) | None => Waiting end).
Proof.
  induction fuel as [|f IH]; intros tb nw c Hc Hf; [lia|].
  cbn [asc_loop]. unfold read_line, walk_lines. cbn [pend now C].
  pose proof (line_tr_walk tb [] nw) as Hw.
  destruct (line_tr tb [] nw) as [[[bs tn] rest]|].
  - destruct Hw as (W1 & W2 & a & Wa & Wt).
    unfold finish_data, interrupt. cbn [lcl C now cl]. rewrite W1. cbn [map fst snd].
    assert (Hc' : close_after c tn rest). { subst tb tn. apply close_after_suffix. exact Hc. }
    change (mkConn tn rest c None) with (C tn rest c).
    rewrite (IH rest tn c Hc') by (unfold tbyte in *; lia). unfold walk_lines. reflexivity.
  - rewrite Hw. rewrite finish_nodata_pure. cbn [map].
    destruct c as [[ct rst]|]; [|reflexivity].
    cbn in Hc. destruct Hc as [Hc _]. replace (Z.max nw ct) with ct by lia. destruct rst; reflexivity.
Qed.

(* strings.TrimSpace drops the line terminator (LF or CRLF) and nothing of a line that has no
   surrounding white space of its own *)
Lemma trim_left_app_ws : forall l w, forallb is_space w = true ->
  trim_left (l ++ w) = match trim_left l with [] => [] | x => x ++ w end.
Proof.
  induction l as [|c l IH]; intros w Hw; cbn.
  - induction w as [|x w IHw]; cbn; [reflexivity|]. cbn in Hw. apply andb_true_iff in Hw. destruct Hw as [Hx Hw].
    rewrite Hx. apply IHw. exact Hw.
  - destruct (is_space c); [apply IH; exact Hw|reflexivity].
Qed.

Lemma trim_space_app_ws : forall l w, forallb is_space w = true -> trim_space (l ++ w) = trim_space l.
Proof.
  intros l w Hw. unfold trim_space. rewrite !rev_append_nil.
  rewrite trim_left_app_ws by exact Hw.
  destruct (trim_left l) as [|x r] eqn:E; [reflexivity|].
  rewrite rev_app_distr.
  assert (Hr : forallb is_space (rev w) = true).
  { rewrite forallb_forall in *. intros y Hy. apply Hw. apply in_rev. exact Hy. }
  assert (Hd : forall a b, forallb is_space a = true -> trim_left (a ++ b) = trim_left b).
  { induction a as [|y a IHa]; intros b Ha; cbn; [reflexivity|]. cbn in Ha. apply andb_true_iff in Ha. destruct Ha as [Hy Ha].
    rewrite Hy. apply IHa. exact Ha. }
  rewrite Hd by exact Hr. reflexivity.
Qed.

Lemma trim_space_eol : forall l e, trim_space (l ++ eol e) = trim_space l.
Proof. intros l e. apply trim_space_app_ws. destruct e; reflexivity. Qed.

(* the lines of a stream that is a concatenation of LF-free lines with LF / CRLF terminators *)
Lemma walk_lines_aux_line : forall (tl : list (Z * Z)) t rest acc tm,
  no_lf (map snd tl) = true ->
  walk_lines_aux (tl ++ (t, 10) :: rest) acc tm =
  (rev acc ++ map snd tl ++ [10], Z.max (tmax tl tm) t) :: walk_lines_aux rest [] (Z.max (tmax tl tm) t).
Proof.
  induction tl as [|[t' b] tl IH]; intros t rest acc tm Hn; cbn [app walk_lines_aux map snd tmax].
  - change (10 =? 10) with true. cbv iota. rewrite rev_append_rev. cbn [rev app]. rewrite app_nil_r. reflexivity.
  - cbn in Hn. apply andb_true_iff in Hn. destruct Hn as [Hb Hn]. destruct (b =? 10); [discriminate|].
    rewrite IH by exact Hn. cbn [rev]. rewrite <- app_assoc. reflexivity.
Qed.

Lemma walk_lines_lines : forall (ls : list (bytes * bool)) (tb : list (Z * Z)) tm,
  Forall (fun le => no_lf (fst le) = true) ls ->
  map snd tb = concat (map (fun le => fst le ++ eol (snd le)) ls) ->
  map fst (walk_lines_aux tb [] tm) = map (fun le => fst le ++ eol (snd le)) ls.
Proof.
  induction ls as [|[l e] ls IH]; intros tb tm Hl Hb.
  - cbn in Hb. destruct tb; [reflexivity|discriminate].
  - inversion Hl; subst. cbn [fst snd] in *. cbn [map concat fst snd] in Hb.
    (* the line without its final LF *)
    set (body := l ++ (if e then [13] else [])).
    assert (Hbody : l ++ eol e = body ++ [10]). { unfold body, eol. destruct e; rewrite <- ?app_assoc; cbn; rewrite ?app_nil_r; reflexivity. }
    assert (Hnb : no_lf body = true). { unfold body, no_lf in *. rewrite forallb_app, H1. destruct e; reflexivity. }
    rewrite Hbody, <- app_assoc in Hb. cbn [app] in Hb.
    (* split tb accordingly *)
    assert (Hsp : exists tl t rest, tb = tl ++ (t, 10) :: rest /\ map snd tl = body /\
                  map snd rest = concat (map (fun le => fst le ++ eol (snd le)) ls)).
    { clear -Hb. revert tb Hb. induction body as [|c body IHb]; intros tb Hb; cbn in Hb.
      - destruct tb as [|[t b] rest]; [discriminate|]. cbn in Hb. inversion Hb; subst. exists [], t, rest. tauto.
      - destruct tb as [|[t b] tb']; [discriminate|]. cbn in Hb. inversion Hb; subst.
        destruct (IHb tb' H1) as (tl & t' & rest & -> & H2 & H3). exists ((t, c) :: tl), t', rest. cbn. rewrite H2. tauto. }
    destruct Hsp as (tl & t & rest & -> & Htl & Hrest).
    rewrite walk_lines_aux_line by (rewrite Htl; exact Hnb).
    cbn [map fst rev app]. rewrite Htl, <- Hbody. f_equal. apply IH; assumption.
Qed.

Theorem ascii_framing : forall (ls : list (bytes * bool)) (tb : list (Z * Z)) nw fuel,
  Forall (fun le => no_lf (fst le) = true) ls ->
  map snd tb = concat (map (fun le => fst le ++ eol (snd le)) ls) ->
  (length tb < fuel)%nat ->
  map snd (dlv (fst (asc_loop M decode fuel (C nw tb None)))) = map (fun le => decode (trim_space (fst le))) ls /\
  snd (asc_loop M decode fuel (C nw tb None)) = Waiting.
Proof.
  intros ls tb nw fuel Hl Hb Hf. rewrite (asc_refines fuel tb nw None I Hf). cbn [fst snd]. split; [|reflexivity].
  assert (Hd : forall (w : list (bytes * Z)), map snd (dlv (map (fun x => ODeliver (snd x) (decode (trim_space (fst x)))) w))
               = map (fun x => decode (trim_space x)) (map fst w)).
  { induction w as [|x w IHw]; cbn; [reflexivity|]. rewrite IHw. reflexivity. }
  rewrite Hd. unfold walk_lines. rewrite (walk_lines_lines ls tb nw Hl Hb). rewrite map_map.
  apply map_ext. intros [l e]. cbn [fst snd]. rewrite trim_space_eol. reflexivity.
Qed.

End Reader.
