(* C09: the writer goroutine's output as a function of the sequence in which it receives
   submissions from the channel. *)
From RP Require Import Lib.Base Lib.Varint Lib.Strings Model.Net Model.Client Spec.NetSpec
     Proofs.NetProbeProofs Proofs.NetProofs Proofs.NetFrameProofs.
From Coq Require Import ZifyBool.

Lemma zlen_le32 : forall n, zlen (le32 n) = 4.
Proof. reflexivity. Qed.

(* a concatenation of frames is read back, by the reference frame walk, as exactly those payloads *)
Lemma parse_frames_concat : forall ps fuel, Forall (fun p => zlen p < 4294967296) ps -> (length ps < fuel)%nat ->
  parse_frames fuel (concat (map frame ps)) = (ps, []).
Proof.
  induction ps as [|p r IH]; intros fuel Hl Hf; (destruct fuel as [|f]; [lia|]).
  - reflexivity.
  - inversion Hl; subst. cbn [map concat parse_frames]. unfold frame at 1. rewrite <- app_assoc.
    rewrite <- (zlen_le32 (zlen p)) at 1. rewrite split_tr_app.
    pose proof (zlen_nonneg' p). rewrite <- (app_nil_r (le32 (zlen p))), u32le_le32 by lia.
    rewrite split_tr_app. rewrite IH by (assumption || (cbn [length] in Hf; lia)). reflexivity.
Qed.

Section Writer.
Variable Msg : Type.
Variable marshal : Msg -> bytes.
Variable enc_in : list Msg -> list bytes.
Notation wr := (written Msg marshal enc_in).
Notation w1 := (write_one Msg marshal enc_in).

(* binary: the wire holds, as length-prefixed frames, exactly marshal(m) for every message of
   every received submission, in order - nothing dropped, duplicated, or in between *)
Theorem wire_bin : forall (subs : list (list Msg)) fuel,
  Forall (fun m => zlen (marshal m) < 4294967296) (concat subs) ->
  (length (concat subs) < fuel)%nat ->
  parse_frames fuel (wr true subs) = (map marshal (concat subs), []).
Proof.
  intros subs fuel Hl Hf.
  assert (E : wr true subs = concat (map frame (map marshal (concat subs)))).
  { clear Hl Hf. unfold written, write_one. induction subs as [|s r IH]; [reflexivity|].
    cbn [map concat]. rewrite IH. rewrite !map_app, concat_app, !map_map. reflexivity. }
  rewrite E. apply parse_frames_concat.
  - rewrite Forall_map. exact Hl.
  - rewrite map_length. exact Hf.
Qed.

(* ASCII: every converter line followed by exactly one LF, in order *)
Theorem wire_ascii : forall (subs : list (list Msg)),
  wr false subs = concat (map (fun l => l ++ [10]) (concat (map enc_in subs))).
Proof.
  intro subs. unfold written, write_one. induction subs as [|s r IH]; [reflexivity|].
  cbn [map concat]. rewrite IH, map_app, concat_app. reflexivity.
Qed.

Lemma split_lf_aux_lines : forall (ls : list bytes) cur,
  Forall (fun l => no_lf l = true) ls ->
  split_lf_aux (concat (map (fun l => l ++ [10]) ls)) cur =
  match ls with
  | [] => [rev cur]
  | l :: r => (rev cur ++ l) :: r ++ [[]]
  end.
Proof.
  induction ls as [|l r IH]; intros cur Hl.
  - cbn. rewrite rev_append_nil. reflexivity.
  - inversion Hl; subst. cbn [map concat]. rewrite <- app_assoc. clear Hl.
    revert cur. induction l as [|c l IHl]; intro cur.
    + cbn [app split_lf_aux]. change (10 =? 10) with true. cbv iota. rewrite rev_append_nil, app_nil_r.
      f_equal. rewrite (IH [] H2). destruct r; reflexivity.
    + cbn in H1. apply andb_true_iff in H1. destruct H1 as [Hc H1]. cbn [app split_lf_aux].
      destruct (c =? 10); [discriminate|]. rewrite (IHl H1). cbn [rev]. rewrite <- app_assoc. reflexivity.
Qed.

(* ... so that, when no converter line contains a line feed (C07), splitting the received
   stream at LF gives back exactly the lines, and the stream ends with a terminator *)
Theorem wire_ascii_lines : forall (subs : list (list Msg)),
  Forall (fun l => no_lf l = true) (concat (map enc_in subs)) ->
  split_lf (wr false subs) = concat (map enc_in subs) ++ [[]].
Proof.
  intros subs Hl. rewrite wire_ascii. unfold split_lf. rewrite split_lf_aux_lines by exact Hl.
  destruct (concat (map enc_in subs)); reflexivity.
Qed.

(* the bytes of one submission form one contiguous block, after everything received earlier
   and before everything received later: submissions are never interleaved *)
Theorem written_blocks : forall b (before after : list (list Msg)) sub,
  wr b (before ++ sub :: after) = wr b before ++ w1 b sub ++ wr b after.
Proof. intros. unfold written. rewrite map_app, concat_app. reflexivity. Qed.

(* an empty list writes nothing in binary mode, and in ASCII mode whatever the converter emits for it *)
Theorem empty_submission_bin : w1 true [] = [].
Proof. reflexivity. Qed.

End Writer.

(* the spec predicate accepts the single-submitter wire order *)
Lemma strip_prefix_app : forall u r, strip_prefix u (u ++ r) = Some r.
Proof. induction u as [|x u IH]; intro r; cbn; [reflexivity|]. rewrite bytes_eqb_refl. apply IH. Qed.

Lemma concat_drop_empty : forall (s : list (list bytes)), concat (drop_empty s) = concat s.
Proof. unfold drop_empty. induction s as [|u s IH]; cbn; [reflexivity|]. destruct u; cbn; rewrite IH; reflexivity. Qed.

Lemma drop_empty_idem : forall s, drop_empty (drop_empty s) = drop_empty s.
Proof.
  unfold drop_empty. induction s as [|u s IH]; cbn; [reflexivity|]. destruct u; cbn; [exact IH|]. rewrite IH. reflexivity.
Qed.

Lemma drop_empty_tail : forall u s s', drop_empty s = u :: s' -> drop_empty s' = s'.
Proof.
  intros u s s' H. pose proof (drop_empty_idem s) as E. rewrite H in E. unfold drop_empty in *.
  destruct u as [|z u'].
  - exfalso. clear E. induction s as [|x s IHs]; cbn in H; [discriminate|]. destruct x; [auto|discriminate].
  - cbn in E. injection E as E'. exact E'.
Qed.

Lemma merge_ok_single : forall fuel (s : list (list bytes)), (length (drop_empty s) < fuel)%nat ->
  merge_ok fuel (concat s) [s] = true.
Proof.
  induction fuel as [|f IH]; intros s Hf; [lia|].
  cbn [merge_ok map filter]. destruct (drop_empty s) as [|u s'] eqn:E.
  - cbn. rewrite <- concat_drop_empty, E. reflexivity.
  - cbn [try_each]. rewrite <- concat_drop_empty, E. cbn [concat]. rewrite strip_prefix_app.
    cbn [rev_append]. pose proof (drop_empty_tail u s s' E) as Ht.
    rewrite IH; [reflexivity|]. rewrite Ht. cbn [length] in Hf. lia.
Qed.
