(* C04, event lines: the decoder model agrees with the reference reader on every strictly
   well-formed HWC# line (all seven event words, with and without edge suffix, signed and
   unsigned 32-bit values) and produces nothing for an HWC# line with an unknown event word. *)
From RP Require Import Lib.Base Lib.Sexp Lib.Strings Lib.Utf8 Model.MsgOut Model.DecOut
  Spec.DenoteOut Spec.GrammarOut Proofs.GfxNum Proofs.OutStrings Proofs.OutDecSkel.
From Coq Require Import String.
Open Scope Z_scope.

Lemma wrap32_id v : 0 <= v < 4294967296 -> wrap32 v = v.
Proof. intros H. unfold wrap32. apply Z.mod_small. lia. Qed.

Lemma sint32_id v : -2147483648 <= v < 2147483648 -> sint32 v = v.
Proof.
  intros H. unfold sint32. destruct (Z_lt_dec v 0).
  - replace (v mod 4294967296) with (v + 4294967296).
    + destruct (v + 4294967296 <? 2147483648) eqn:E; [apply Z.ltb_lt in E; lia|lia].
    + apply Z.mod_unique with (q := -1); lia.
  - rewrite Z.mod_small by lia. destruct (v <? 2147483648) eqn:E; [reflexivity|apply Z.ltb_ge in E; lia].
Qed.

Lemma digits_not_alpha c : is_digit c = true -> is_alpha c = false.
Proof.
  unfold is_digit, is_alpha, is_upper, is_lower. intros H. apply andb_true_iff in H. destruct H as [H1 H2].
  apply Z.leb_le in H1. apply Z.leb_le in H2.
  apply orb_false_iff. split; apply andb_false_iff; [left|left]; apply Z.leb_gt; lia.
Qed.

(* the value group: what the reader's signed / unsigned readers accept is a [-0-9]+ run *)
Lemma valch_of_digits v : digits_nonempty v = true -> negb (null v) && forallb is_valch v = true.
Proof.
  intros H. apply digits_nonempty_spec in H. destruct H as [Hne Hd]. rewrite (null_false v Hne). cbn [negb andb].
  rewrite forallb_forall in *. intros x Hx. unfold is_valch. rewrite (Hd x Hx). apply orb_true_r.
Qed.

Lemma valch_of_signed v : v <> [] -> forallb (fun c => (c =? 45) || is_digit c) v = true ->
  negb (null v) && forallb is_valch v = true.
Proof. intros Hne H. rewrite (null_false v Hne). cbn [negb andb]. exact H. Qed.

(* event word and tail, for the seven concrete words *)
Lemma after_eq_word w T g6 : In w ev_kinds -> ev_tail T = Some g6 ->
  ev_after_eq (w ++ T) = Some (w, (if null g6 then [] else 58 :: g6), g6).
Proof.
  intros Hin Ht. unfold ev_after_eq.
  assert (E : match_kw ev_kinds (w ++ T) = Some (w, T)).
  { unfold ev_kinds in *. cbn [map] in Hin.
    destruct Hin as [<-|[<-|[<-|[<-|[<-|[<-|[<-|[]]]]]]]]; reflexivity. }
  rewrite E, Ht. reflexivity.
Qed.

Lemma ev_tail_value v : negb (null v) && forallb is_valch v = true -> ev_tail (58 :: v) = Some v.
Proof. intros H. cbn [ev_tail]. rewrite H. reflexivity. Qed.

(* the regex on the two well-formed shapes *)
Lemma re_event_noedge ids w T g6 :
  digits_nonempty ids = true -> In w ev_kinds -> ev_tail T = Some g6 ->
  re_event (str "HWC#" ++ ids ++ 61 :: w ++ T) =
  [str "HWC#" ++ ids ++ 61 :: w ++ T; ids; []; []; w; (if null g6 then [] else 58 :: g6); g6].
Proof.
  intros Hd Hw Ht. apply digits_nonempty_spec in Hd. destruct Hd as [Hne Hd].
  unfold re_event. rewrite drop_prefix_app.
  rewrite (span_app_stop is_digit ids 61 (w ++ T) Hd eq_refl). rewrite (null_false ids Hne).
  rewrite (after_eq_word w T g6 Hw Ht). reflexivity.
Qed.

Lemma re_event_edge ids es w T g6 :
  digits_nonempty ids = true -> digits_nonempty es = true -> In w ev_kinds -> ev_tail T = Some g6 ->
  re_event (str "HWC#" ++ ids ++ 46 :: es ++ 61 :: w ++ T) =
  [str "HWC#" ++ ids ++ 46 :: es ++ 61 :: w ++ T; ids; 46 :: es; es; w; (if null g6 then [] else 58 :: g6); g6].
Proof.
  intros Hd He Hw Ht. apply digits_nonempty_spec in Hd. destruct Hd as [Hne Hd].
  apply digits_nonempty_spec in He. destruct He as [Hnee Hde].
  unfold re_event. rewrite drop_prefix_app.
  rewrite (span_app_stop is_digit ids 46 (es ++ 61 :: w ++ T) Hd eq_refl). rewrite (null_false ids Hne).
  change (46 =? 10) with false. cbn match.
  change (snd (decode_rune (46 :: es ++ 61 :: w ++ T))) with 1%nat.
  cbn [skipn firstn].
  rewrite (span_app_stop is_digit es 61 (w ++ T) Hde eq_refl). rewrite (null_false es Hnee).
  rewrite (after_eq_word w T g6 Hw Ht). reflexivity.
Qed.

Section Ev.
Variable np : bytes -> option bytes.

Ltac in_kinds := unfold ev_kinds; cbn [map In]; tauto.

(* after_edge of the reader, made explicit: (edge option, rest after digits) *)
Lemma event_line_sound r rs :
  has_lf (str "HWC#" ++ r) = false ->
  read_event r = WF true rs ->
  exists om, dec_rest np (str "HWC#" ++ r) = Ok om /\ den_om om = rs.
Proof.
  intros _ H. unfold read_event in H.
  destruct (span is_digit r) as [ids r1] eqn:Es.
  destruct (span_spec _ _ _ _ Es) as [Hr [Hids Hstop]].
  destruct (read_u32 ids) as [id|] eqn:Eid; [|discriminate].
  destruct (read_u32_spec _ _ Eid) as [Hdid [Haid Hrid]].
  (* common continuation: edge e (numeric value), edge strings, rest r2 *)
  assert (K : forall (edge : option Z) (es : bytes) (r2 : bytes),
     match edge with Some e => digits_nonempty es = true /\ atoi es = e /\ 0 <= e < 2147483648 | None => es = [] end ->
     r = ids ++ (match edge with Some _ => 46 :: es | None => [] end) ++ r2 ->
     match r2 with
     | 61 :: r3 =>
       match span is_alpha r3 with
       | (w, r4) =>
         match lookup w event_words with
         | None => match w, r4 with _ :: _, [] => NonGrammar | _ :: _, 58 :: _ => NonGrammar | _, _ => Malformed end
         | Some word =>
           let binary (rs : list report) := match r4 with [] => WF true rs | _ => Malformed end in
           let e := match edge with Some x => x | None => 0 end in
           let analog (k : evkind) (rd : bytes -> option Z) :=
             match edge, r4 with
             | None, 58 :: v => match rd v with Some x => WF true [REvent id k x] | None => Malformed end
             | _, _ => Malformed
             end in
           match word with
           | WDown => binary [REvent id EDown e]
           | WUp => binary [REvent id EUp e]
           | WPress => binary [REvent id EDown e; REvent id EUp e]
           | WEnc => analog EEnc read_i32
           | WSpeed => analog ESpeed read_i32
           | WAbs => analog EAbs read_u32
           | WRaw => analog ERaw read_u32
           end
         end
       end
     | _ => Malformed
     end = WF true rs ->
     exists om, dec_rest np (str "HWC#" ++ r) = Ok om /\ den_om om = rs).
  { intros edge es r2 Hedge Hshape HK.
    destruct r2 as [|c r3]; [discriminate|].
    destruct (Z.eq_dec c 61) as [->|Hc].
    2: { exfalso. destruct c as [|q|q]; try discriminate. do 6 (destruct q as [q|q|]; try discriminate). apply Hc. reflexivity. }
    destruct (span is_alpha r3) as [w r4] eqn:Ew.
    destruct (span_spec _ _ _ _ Ew) as [Hr3 _]. subst r3.
    destruct (lookup w event_words) as [word|] eqn:Elw.
    2: { destruct w; [discriminate|]. destruct r4 as [|x ?]; [discriminate|].
         destruct x as [|q|q]; try discriminate. do 6 (destruct q as [q|q|]; try discriminate). }
    apply lookup_some in Elw. unfold event_words, tbl in Elw. cbn [map fst snd] in Elw.
    (* the regex result on this shape *)
    assert (RE : forall g6, ev_tail r4 = Some g6 ->
       re_event (str "HWC#" ++ r) =
       [str "HWC#" ++ r; ids; (match edge with Some _ => 46 :: es | None => [] end);
        (match edge with Some _ => es | None => [] end); w; (if null g6 then [] else 58 :: g6); g6]).
    { intros g6 Hg. rewrite Hshape.
      assert (Hw : In w ev_kinds).
      { destruct Elw as [E|[E|[E|[E|[E|[E|[E|[]]]]]]]]; injection E as <- _; in_kinds. }
      destruct edge as [e|].
      - destruct Hedge as [Hdes _]. cbn [app].
        apply (re_event_edge ids es w r4 g6 Hdid Hdes Hw Hg).
      - subst es. cbn [app]. apply (re_event_noedge ids w r4 g6 Hdid Hw Hg). }
    unfold dec_rest.
    (* binary words: r4 = [] *)
    assert (BIN : forall (pressed : bool) (wd : string), w = str wd -> r4 = [] ->
       (wd = "Down" /\ pressed = true \/ wd = "Up" /\ pressed = false)%string ->
       exists om, dec_rest np (str "HWC#" ++ r) = Ok om /\
                  den_om om = [REvent id (if pressed then EDown else EUp) (match edge with Some x => x | None => 0 end)]).
    { intros pressed wd -> -> Hwd. unfold dec_rest. rewrite (RE [] eq_refl). cbn [null negb].
      unfold dec_event, sub, intval. cbn [nth_error bind]. rewrite Haid, (wrap32_id id Hrid).
      destruct Hwd as [[-> ->]|[-> ->]]; cbn; (destruct edge as [e|];
        [destruct Hedge as [_ [-> He]]; rewrite (sint32_id e) by lia|]; eexists; split; reflexivity). }
    destruct Elw as [E|[E|[E|[E|[E|[E|[E|[]]]]]]]]; injection E as <- <-; cbn iota beta zeta in HK.
    - (* Down *) destruct r4; [|discriminate]. injection HK as <-. apply (BIN true "Down"%string); auto.
    - (* Up *) destruct r4; [|discriminate]. injection HK as <-. apply (BIN false "Up"%string); auto.
    - (* Press *) destruct r4; [|discriminate]. injection HK as <-.
      rewrite (RE [] eq_refl). cbn [null negb]. unfold dec_event, sub, intval. cbn [nth_error bind].
      rewrite Haid, (wrap32_id id Hrid). cbn.
      destruct edge as [e|]; [destruct Hedge as [_ [-> He]]; rewrite (sint32_id e) by lia|]; eexists; split; reflexivity.
    - (* Enc *) destruct edge; [discriminate|]. destruct r4 as [|x v]; [discriminate|].
      destruct (Z.eq_dec x 58) as [->|Hx].
      2: { exfalso. destruct x as [|q|q]; try discriminate. do 6 (destruct q as [q|q|]; try discriminate). apply Hx. reflexivity. }
      destruct (read_i32 v) as [val|] eqn:Ev; [|discriminate]. injection HK as <-.
      destruct (read_i32_spec _ _ Ev) as [Hvne [Hvch [Hva Hvr]]].
      rewrite (RE v (ev_tail_value v (valch_of_signed v Hvne Hvch))). cbn [null negb].
      unfold dec_event, sub, intval. cbn [nth_error bind]. rewrite Haid, (wrap32_id id Hrid), Hva, (sint32_id val Hvr).
      eexists; split; reflexivity.
    - (* Abs *) destruct edge; [discriminate|]. destruct r4 as [|x v]; [discriminate|].
      destruct (Z.eq_dec x 58) as [->|Hx].
      2: { exfalso. destruct x as [|q|q]; try discriminate. do 6 (destruct q as [q|q|]; try discriminate). apply Hx. reflexivity. }
      destruct (read_u32 v) as [val|] eqn:Ev; [|discriminate]. injection HK as <-.
      destruct (read_u32_spec _ _ Ev) as [Hvd [Hva Hvr]].
      rewrite (RE v (ev_tail_value v (valch_of_digits v Hvd))). cbn [null negb].
      unfold dec_event, sub, intval. cbn [nth_error bind]. rewrite Haid, (wrap32_id id Hrid), Hva, (wrap32_id val Hvr).
      eexists; split; reflexivity.
    - (* Speed *) destruct edge; [discriminate|]. destruct r4 as [|x v]; [discriminate|].
      destruct (Z.eq_dec x 58) as [->|Hx].
      2: { exfalso. destruct x as [|q|q]; try discriminate. do 6 (destruct q as [q|q|]; try discriminate). apply Hx. reflexivity. }
      destruct (read_i32 v) as [val|] eqn:Ev; [|discriminate]. injection HK as <-.
      destruct (read_i32_spec _ _ Ev) as [Hvne [Hvch [Hva Hvr]]].
      rewrite (RE v (ev_tail_value v (valch_of_signed v Hvne Hvch))). cbn [null negb].
      unfold dec_event, sub, intval. cbn [nth_error bind]. rewrite Haid, (wrap32_id id Hrid), Hva, (sint32_id val Hvr).
      eexists; split; reflexivity.
    - (* Raw *) destruct edge; [discriminate|]. destruct r4 as [|x v]; [discriminate|].
      destruct (Z.eq_dec x 58) as [->|Hx].
      2: { exfalso. destruct x as [|q|q]; try discriminate. do 6 (destruct q as [q|q|]; try discriminate). apply Hx. reflexivity. }
      destruct (read_u32 v) as [val|] eqn:Ev; [|discriminate]. injection HK as <-.
      destruct (read_u32_spec _ _ Ev) as [Hvd [Hva Hvr]].
      rewrite (RE v (ev_tail_value v (valch_of_digits v Hvd))). cbn [null negb].
      unfold dec_event, sub, intval. cbn [nth_error bind]. rewrite Haid, (wrap32_id id Hrid), Hva, (wrap32_id val Hvr).
      eexists; split; reflexivity. }
  (* dispatch on the optional edge *)
  destruct r1 as [|c r2].
  { apply (K None [] []); [reflexivity|rewrite Hr; cbn [app]; reflexivity|exact H]. }
  destruct (Z.eq_dec c 46) as [->|Hc].
  - destruct (span is_digit r2) as [es r3] eqn:Ees.
    destruct (span_spec _ _ _ _ Ees) as [Hr2 _].
    destruct (read_u31 es) as [e|] eqn:Ee; [|discriminate].
    destruct (read_u31_spec _ _ Ee) as [Hdes [Hae Hre]].
    apply (K (Some e) es r3); [auto|rewrite Hr, Hr2; reflexivity|exact H].
  - apply (K None [] (c :: r2)); [reflexivity|rewrite Hr; reflexivity|].
    destruct c as [|q|q]; try exact H.
    do 6 (destruct q as [q|q|]; try exact H). contradiction Hc. reflexivity.
Qed.
End Ev.

(* ---------------------------------------------------------------- unknown event word *)
Lemma match_kw_some : forall kws s k rest, match_kw kws s = Some (k, rest) -> In k kws /\ s = k ++ rest.
Proof.
  induction kws as [|k0 kws IH]; intros s k rest H; cbn [match_kw] in H; [discriminate|].
  destruct (drop_prefix k0 s) as [r|] eqn:E.
  - injection H as <- <-. split; [left; reflexivity|apply drop_prefix_some; exact E].
  - destruct (IH _ _ _ H) as [H1 H2]. split; [right; exact H1|exact H2].
Qed.

Lemma span_unique (p : Z -> bool) a b :
  forallb p a = true -> match b with [] => True | c :: _ => p c = false end -> span p (a ++ b) = (a, b).
Proof.
  intros Ha Hb. destruct b as [|c b].
  - rewrite app_nil_r. apply span_all. exact Ha.
  - apply span_app_stop; assumption.
Qed.

Lemma ev_kinds_alpha k : In k ev_kinds -> forallb is_alpha k = true /\ lookup k event_words <> None.
Proof.
  unfold ev_kinds. cbn [map In]. intros [<-|[<-|[<-|[<-|[<-|[<-|[<-|[]]]]]]]]; split; try reflexivity; discriminate.
Qed.

Lemma unknown_word_no_match w r4 :
  span is_alpha (w ++ r4) = (w, r4) -> lookup w event_words = None ->
  ev_after_eq (w ++ r4) = None.
Proof.
  intros Hs Hl. unfold ev_after_eq.
  destruct (match_kw ev_kinds (w ++ r4)) as [[k rest]|] eqn:E; [|reflexivity].
  destruct (match_kw_some _ _ _ _ E) as [Hin Heq].
  destruct (ev_kinds_alpha k Hin) as [Hka Hkl].
  destruct (ev_tail rest) as [v|] eqn:Et; [|reflexivity]. exfalso.
  assert (Hrest : match rest with [] => True | c :: _ => is_alpha c = false end).
  { destruct rest as [|c rest']; [trivial|]. cbn [ev_tail] in Et.
    destruct c as [|q|q]; try discriminate. do 6 (destruct q as [q|q|]; try discriminate). reflexivity. }
  pose proof (span_unique is_alpha k rest Hka Hrest) as Hu. rewrite <- Heq, Hs in Hu.
  injection Hu as -> _. contradiction.
Qed.

Section EvNG.
Variable np : bytes -> option bytes.

Lemma event_line_nongrammar r :
  read_event r = NonGrammar -> dec_rest np (str "HWC#" ++ r) = Ok (Some empty_msg).
Proof.
  intros H. unfold read_event in H.
  destruct (span is_digit r) as [ids r1] eqn:Es.
  destruct (span_spec _ _ _ _ Es) as [Hr [Hids Hstop]].
  destruct (read_u32 ids) as [id|] eqn:Eid; [|discriminate].
  destruct (read_u32_spec _ _ Eid) as [Hdid _].
  apply digits_nonempty_spec in Hdid. destruct Hdid as [Hne Hd].
  assert (FIN : re_event (str "HWC#" ++ r) = [] -> dec_rest np (str "HWC#" ++ r) = Ok (Some empty_msg)).
  { intros E. unfold dec_rest. rewrite E, hwc_not_map, hwc_not_generic, hwc_not_regs. reflexivity. }
  apply FIN. clear FIN.
  (* the tail after the optional edge *)
  assert (K : forall r2, 
     match r2 with
     | 61 :: r3 =>
       match span is_alpha r3 with
       | (w, r4) => lookup w event_words = None /\ w <> []
       end
     | _ => False
     end ->
     match r2 with 61 :: r3 => ev_after_eq r3 = None /\ fst (span is_digit r3) = [] | _ => False end).
  { intros r2 HK. destruct r2 as [|c r3]; [exact HK|].
    destruct c as [|q|q]; try exact HK. do 6 (destruct q as [q|q|]; try exact HK).
    destruct (span is_alpha r3) as [w r4] eqn:Ew. destruct HK as [Hl Hw].
    destruct (span_spec _ _ _ _ Ew) as [Hr3 [Hwa _]]. subst r3. split.
    - apply unknown_word_no_match; assumption.
    - destruct w as [|x w']; [congruence|]. cbn [app span].
      cbn in Hwa. apply andb_true_iff in Hwa. destruct Hwa as [Hx _].
      destruct (is_digit x) eqn:Ed; [|reflexivity]. rewrite (digits_not_alpha x Ed) in Hx. discriminate. }
  (* reader's after_edge yields NonGrammar only in the shape required by K *)
  assert (AE : forall edge r2,
     match r2 with
     | 61 :: r3 =>
       match span is_alpha r3 with
       | (w, r4) =>
         match lookup w event_words with
         | None => match w, r4 with _ :: _, [] => NonGrammar | _ :: _, 58 :: _ => NonGrammar | _, _ => Malformed end
         | Some word =>
           let binary (rs : list report) := match r4 with [] => WF true rs | _ => Malformed end in
           let e := match edge with Some x => x | None => 0 end in
           let analog (k : evkind) (rd : bytes -> option Z) :=
             match edge, r4 with
             | None, 58 :: v => match rd v with Some x => WF true [REvent id k x] | None => Malformed end
             | _, _ => Malformed
             end in
           match word with
           | WDown => binary [REvent id EDown e]
           | WUp => binary [REvent id EUp e]
           | WPress => binary [REvent id EDown e; REvent id EUp e]
           | WEnc => analog EEnc read_i32
           | WSpeed => analog ESpeed read_i32
           | WAbs => analog EAbs read_u32
           | WRaw => analog ERaw read_u32
           end
         end
       end
     | _ => Malformed
     end = NonGrammar ->
     match r2 with
     | 61 :: r3 => match span is_alpha r3 with (w, r4) => lookup w event_words = None /\ w <> [] end
     | _ => False
     end).
  { intros edge r2 HA. destruct r2 as [|c r3]; [discriminate|].
    destruct c as [|q|q]; try discriminate. do 6 (destruct q as [q|q|]; try discriminate).
    destruct (span is_alpha r3) as [w r4]. destruct (lookup w event_words) as [word|].
    - exfalso. destruct word, edge, r4 as [|x v]; cbn in HA; try discriminate;
        try (destruct x as [|q|q]; try discriminate; do 6 (destruct q as [q|q|]; try discriminate));
        try (destruct (read_i32 v); discriminate); try (destruct (read_u32 v); discriminate).
    - split; [reflexivity|]. destruct w; [destruct r4; discriminate|discriminate]. }
  unfold re_event. rewrite drop_prefix_app, Es, (null_false ids Hne).
  destruct r1 as [|c r2]; [discriminate|].
  destruct (Z.eq_dec c 46) as [->|Hc].
  - destruct (span is_digit r2) as [es r3] eqn:Ees.
    destruct (read_u31 es) as [e|] eqn:Ee; [|discriminate].
    destruct (read_u31_spec _ _ Ee) as [Hdes _]. apply digits_nonempty_spec in Hdes. destruct Hdes as [Hnee _].
    pose proof (K r3 (AE (Some e) r3 H)) as HK.
    change (46 =? 10) with false. cbn match.
    change (snd (decode_rune (46 :: r2))) with 1%nat. cbn [skipn firstn].
    rewrite Ees, (null_false es Hnee).
    destruct r3 as [|x r4]; [contradiction|].
    destruct x as [|q|q]; try contradiction. do 6 (destruct q as [q|q|]; try contradiction).
    destruct HK as [HK _]. rewrite HK. reflexivity.
  - assert (H' : match c :: r2 with
                 | 61 :: r3 => match span is_alpha r3 with (w, r4) => lookup w event_words = None /\ w <> [] end
                 | _ => False end).
    { apply (AE None (c :: r2)). destruct c as [|q|q]; try exact H. do 6 (destruct q as [q|q|]; try exact H).
      contradiction Hc. reflexivity. }
    pose proof (K (c :: r2) H') as HK. clear H'.
    destruct c as [|q|q]; try contradiction. do 6 (destruct q as [q|q|]; try contradiction).
    destruct HK as [HK1 HK2]. rewrite HK1.
    change (61 =? 10) with false. cbn match.
    change (snd (decode_rune (61 :: r2))) with 1%nat. cbn [skipn].
    destruct (span is_digit r2) as [e r3]. cbn [fst] in HK2. subst e. reflexivity.
Qed.
End EvNG.
