(* C19 — the running system (reader, dispatcher, writer goroutines; queues of capacity 10; ticker;
   ctx; Bind* and Set* from other goroutines), for ALL schedules:
   every event is looked up exactly once, in panel order; every look-up yields exactly the handler
   invocations of the maps it saw; what the panel receives from the dispatcher is what the spec
   demands, in order; no reachable state is stuck while work is pending; every goroutine step makes
   progress (bounded); after the reader stopped and the queues drained, nothing is dispatched. *)
From RP Require Import Lib.Base Model.Gorwp Spec.Gorwp Proofs.GorwpDispatch Proofs.GorwpReader.
From Coq Require Import Lia.

Section Sys.
  Variable unm : bytes -> omsg.
  Variable dec : bytes -> list omsg.

  Notation step := (step unm dec).
  Notation run := (run unm dec).
  Notation reader_run := (reader_run unm dec).

  (* ---------------------------------------------------------------- bookkeeping functions *)
  Definition future_ds (s : sys) : list delivery :=
    s_from s ++ s_rpend s ++ snd (reader_run (s_rd s) (s_in s)).
  Definition evs_of_ds (ds : list delivery) : list event := flat_map (fun d => flat_map m_events d) ds.
  Definition pend_events (ops : list dop) : list event :=
    flat_map (fun op => match op with DEvent e => [e] | _ => [] end) ops.
  Definition pend_calls (ops : list dop) : list callrec :=
    flat_map (fun op => match op with DCall c => [c] | _ => [] end) ops.

  Definition no_call (ops : list dop) : bool := forallb (fun op => match op with DCall _ => false | _ => true end) ops.
  Fixpoint shape (ops : list dop) : bool :=
    match ops with
    | [] => true
    | DCall _ :: r | DSend _ :: r => shape r
    | DEvent _ :: r | DState _ :: r => no_call r
    end.

  Lemma no_call_shape : forall ops, no_call ops = true -> shape ops = true.
  Proof.
    induction ops as [|op r IH]; intros H; [reflexivity|].
    cbn [no_call forallb] in H. apply andb_prop in H as [H1 H2].
    destruct op; cbn [shape]; try discriminate; auto.
  Qed.
  Lemma no_call_app : forall a b, no_call (a ++ b) = no_call a && no_call b.
  Proof. intros. unfold no_call. apply forallb_app. Qed.
  Lemma no_call_pend : forall ops, no_call ops = true -> pend_calls ops = [].
  Proof.
    induction ops as [|op r IH]; intros H; [reflexivity|].
    cbn [no_call forallb] in H. apply andb_prop in H as [H1 H2]. destruct op; try discriminate; cbn; auto.
  Qed.
  Lemma no_call_ops_of_msg : forall m, no_call (ops_of_msg m) = true.
  Proof.
    intros. unfold ops_of_msg. rewrite no_call_app. destruct (m_flow m =? 1); cbn [no_call forallb andb];
    induction (m_events m); cbn; auto.
  Qed.
  Lemma no_call_ops_of_d : forall d, no_call (flat_map ops_of_msg d) = true.
  Proof. induction d; [reflexivity|]. cbn [flat_map]. rewrite no_call_app, no_call_ops_of_msg. exact IHd. Qed.

  Lemma shape_calls_app : forall l r, no_call r = true -> shape (ops_of_calls l ++ r) = true.
  Proof.
    induction l as [|[c h] l IH]; intros r H; [apply no_call_shape; assumption|].
    unfold ops_of_calls in *. cbn [flat_map fst snd app shape].
    rewrite <- app_assoc. induction (h_sends h) as [|t ts IHt]; cbn [map app shape]; auto.
  Qed.

  Lemma pend_events_app : forall a b, pend_events (a ++ b) = pend_events a ++ pend_events b.
  Proof. intros. apply flat_map_app. Qed.
  Lemma pend_calls_app : forall a b, pend_calls (a ++ b) = pend_calls a ++ pend_calls b.
  Proof. intros. apply flat_map_app. Qed.

  Lemma pend_events_calls : forall l, pend_events (ops_of_calls l) = [].
  Proof.
    induction l as [|[c h] l IH]; [reflexivity|].
    unfold ops_of_calls in *. cbn [flat_map fst snd]. rewrite pend_events_app, IH, app_nil_r.
    cbn. induction (h_sends h); cbn; auto.
  Qed.
  Lemma pend_calls_calls : forall l, pend_calls (ops_of_calls l) = map fst l.
  Proof.
    induction l as [|[c h] l IH]; [reflexivity|].
    unfold ops_of_calls in *. cbn [flat_map fst snd map]. rewrite pend_calls_app, IH.
    cbn. f_equal. assert (E : pend_calls (map DSend (h_sends h)) = []) by (induction (h_sends h); cbn; auto).
    unfold pend_calls in E. rewrite E. reflexivity.
  Qed.
  Lemma pend_events_msg : forall m, pend_events (ops_of_msg m) = m_events m.
  Proof.
    intros. unfold ops_of_msg. rewrite pend_events_app.
    replace (pend_events (if m_flow m =? 1 then [DSend TAck] else [])) with (@nil event) by (destruct (m_flow m =? 1); reflexivity).
    cbn. induction (m_events m); cbn; congruence.
  Qed.
  Lemma pend_events_d : forall d, pend_events (flat_map ops_of_msg d) = flat_map m_events d.
  Proof. induction d; [reflexivity|]. cbn [flat_map]. rewrite pend_events_app, pend_events_msg, IHd. reflexivity. Qed.

  Lemma evs_of_ds_app : forall a b, evs_of_ds (a ++ b) = evs_of_ds a ++ evs_of_ds b.
  Proof. intros. apply flat_map_app. Qed.
  Lemma evs_of_ds_cons : forall d l, evs_of_ds (d :: l) = flat_map m_events d ++ evs_of_ds l.
  Proof. reflexivity. Qed.
  Lemma evs_of_ds_nil : evs_of_ds [] = [].
  Proof. reflexivity. Qed.

  (* ---------------------------------------------------------------- invariants *)
  Definition looked_up (s : sys) : list event := map fst (s_evlog s).
  Definition calls_logged (s : sys) : list callrec :=
    flat_map (fun eb => map fst (calls_of_event (snd eb) (fst eb))) (s_evlog s).

  Definition Inv_ev (all : list event) (s : sys) : Prop :=
    looked_up s ++ pend_events (s_ops s) ++ evs_of_ds (future_ds s) = all.
  Definition Inv_tr (s : sys) : Prop :=
    shape (s_ops s) = true /\ s_trace s ++ pend_calls (s_ops s) = calls_logged s.

  Ltac step_cases H :=
    unfold Gorwp.step in H;
    repeat match type of H with
           | context [match ?x with _ => _ end] => destruct x eqn:?; try discriminate
           end;
    match type of H with Some _ = Some ?x => inversion H; subst x; clear H end.

  Lemma reader_run_cons : forall st i r,
    snd (reader_run st (i :: r)) = snd (rstep unm dec st i) ++ snd (reader_run (fst (rstep unm dec st i)) r).
  Proof.
    intros. cbn [Gorwp.reader_run]. destruct (rstep unm dec st i) as [st1 d1]. cbn [fst snd].
    destruct (reader_run st1 r); reflexivity.
  Qed.

  Lemma step_inv_ev : forall all s c s', Inv_ev all s -> step s c = Some s' -> Inv_ev all s'.
  Proof.
    intros all s c s' I H. unfold Inv_ev, looked_up, future_ds in *.
    destruct c; step_cases H; cbn [s_evlog s_ops s_from s_rpend s_rd s_in] in *;
      try exact I;
      try (rewrite <- I; clear I).
    all: rewrite ?reader_run_cons;
      repeat match goal with H : rstep _ _ _ _ = _ |- _ => rewrite H end;
      cbn [fst snd app pend_events flat_map map];
      rewrite ?pend_events_d, ?map_app, ?pend_events_app, ?pend_events_calls, ?evs_of_ds_app, ?evs_of_ds_cons, ?evs_of_ds_app, ?evs_of_ds_nil;
      cbn [fst snd app pend_events flat_map map];
      rewrite <- ?app_assoc; reflexivity.
  Qed.

  Lemma calls_logged_snoc : forall s e b,
    flat_map (fun eb => map fst (calls_of_event (snd eb) (fst eb))) (s_evlog s ++ [(e, b)]) =
    calls_logged s ++ map fst (calls_of_event b e).
  Proof. intros. rewrite flat_map_app. cbn. rewrite app_nil_r. reflexivity. Qed.

  Lemma step_inv_tr : forall s c s', Inv_tr s -> step s c = Some s' -> Inv_tr s'.
  Proof.
    intros s c s' [S I] H. unfold Inv_tr, calls_logged in *.
    destruct c; step_cases H; cbn [s_evlog s_ops s_trace] in *; try (split; assumption).
    - (* CTake *) cbn [pend_calls flat_map] in I.
      split; [apply no_call_shape, no_call_ops_of_d|].
      rewrite no_call_pend by apply no_call_ops_of_d. exact I.
    - (* DState *) cbn [shape] in S. split; [apply no_call_shape; assumption|]. exact I.
    - (* DEvent *) cbn [shape] in S.
      split; [apply shape_calls_app; assumption|].
      rewrite flat_map_app. cbn [flat_map fst snd]. rewrite app_nil_r.
      rewrite pend_calls_app, pend_calls_calls. rewrite (no_call_pend l) by assumption. rewrite app_nil_r.
      cbn [pend_calls flat_map app] in I. fold (pend_calls l) in I. rewrite (no_call_pend l) in I by assumption.
      rewrite app_nil_r in I. rewrite <- I. reflexivity.
    - (* DCall *) cbn [shape] in S. split; [assumption|].
      rewrite <- app_assoc. exact I.
  Qed.

  (* ---------------------------------------------------------------- runs *)
  Lemma run_inv : forall (P : sys -> Prop), (forall s c s', P s -> step s c = Some s' -> P s') ->
    forall sched s, P s -> P (run s sched).
  Proof.
    intros P HP. induction sched as [|c r IH]; intros s H; [assumption|].
    cbn [Gorwp.run]. destruct (step s c) as [s'|] eqn:E; [apply IH, (HP _ _ _ H E)|apply IH, H].
  Qed.

  Lemma run_app : forall a b s, run s (a ++ b) = run (run s a) b.
  Proof.
    induction a as [|c a IH]; intros; [reflexivity|].
    cbn [app Gorwp.run]. destruct (step s c); apply IH.
  Qed.

  Definition all_events (binary : bool) (ins : list rin) : list event :=
    evs_of_ds (snd (reader_run (rinit binary) ins)).

  Lemma sys0_inv_ev : forall binary b ins, Inv_ev (all_events binary ins) (sys0 binary b ins).
  Proof. intros. unfold Inv_ev, looked_up, future_ds, all_events. reflexivity. Qed.
  Lemma sys0_inv_tr : forall binary b ins, Inv_tr (sys0 binary b ins).
  Proof. intros. split; reflexivity. Qed.

  (* For every schedule: the events looked up so far are a prefix, in panel order, of the events of the
     deliveries the reader produces from the script (each exactly once: the rest is still pending), and the
     handler invocations made so far, followed by the ones already decided, are exactly those of the
     look-ups, each against the maps it saw. *)
  Theorem exactly_once_all_schedules : forall binary b ins sched,
    let s := run (sys0 binary b ins) sched in
    looked_up s ++ pend_events (s_ops s) ++ evs_of_ds (future_ds s) = all_events binary ins /\
    s_trace s ++ pend_calls (s_ops s) = calls_logged s.
  Proof.
    intros. subst s. split.
    - apply (run_inv (Inv_ev (all_events binary ins))); [intros; eapply step_inv_ev; eauto|apply sys0_inv_ev].
    - apply (run_inv Inv_tr); [intros; eapply step_inv_tr; eauto|apply sys0_inv_tr].
  Qed.

  (* ---------------------------------------------------------------- which maps a look-up saw *)
  Definition binds_of (sched : list choice) : list reg :=
    flat_map (fun c => match c with CBind k id h => [(k, id, h)] | _ => [] end) sched.

  Definition Inv_snap (b0 : bindings) (regs : list reg) (s : sys) : Prop :=
    s_b s = rev regs ++ b0 /\
    Forall (fun eb => exists n, (n <= length regs)%nat /\ snd eb = rev (firstn n regs) ++ b0) (s_evlog s).

  Lemma step_inv_snap : forall b0 regs s c s', Inv_snap b0 regs s -> step s c = Some s' ->
    Inv_snap b0 (regs ++ binds_of [c]) s'.
  Proof.
    intros b0 regs s c s' [B F] H.
    assert (W : forall regs', Forall (fun eb => exists n, (n <= length regs)%nat /\ snd eb = rev (firstn n regs) ++ b0) (s_evlog s) ->
                Forall (fun eb => exists n, (n <= length (regs ++ regs'))%nat /\ snd eb = rev (firstn n (regs ++ regs')) ++ b0) (s_evlog s)).
    { intros regs' F'. eapply Forall_impl; [|exact F']. intros eb (n & L & E). exists n. split; [rewrite app_length; lia|].
      rewrite firstn_app. replace (n - length regs)%nat with 0%nat by lia. cbn. rewrite app_nil_r. exact E. }
    unfold Inv_snap.
    destruct c; step_cases H; cbn [s_b s_evlog binds_of flat_map app]; rewrite ?app_nil_r; try (split; assumption).
    - (* DEvent *) split; [assumption|]. apply Forall_app. split; [assumption|]. constructor; [|constructor].
      exists (length regs). split; [lia|]. cbn [snd]. rewrite firstn_all. assumption.
    - (* CBind *) split; [|apply W; assumption].
      unfold bind. rewrite rev_app_distr. cbn [rev app]. rewrite B. reflexivity.
  Qed.

  Lemma run_inv_snap : forall b0 sched regs s, Inv_snap b0 regs s -> Inv_snap b0 (regs ++ binds_of sched) (run s sched).
  Proof.
    induction sched as [|c r IH]; intros regs s I.
    - cbn. rewrite app_nil_r. assumption.
    - cbn [Gorwp.run]. change (c :: r) with ([c] ++ r). unfold binds_of at 1. rewrite flat_map_app. fold (binds_of [c]) (binds_of r).
      rewrite app_assoc. destruct (step s c) as [s'|] eqn:E.
      + apply IH. eapply step_inv_snap; eauto.
      + (* a skipped choice is never a Bind (Bind is always enabled) *)
        destruct c; cbn [binds_of flat_map app] in *; rewrite ?app_nil_r; try (apply IH; assumption).
        unfold Gorwp.step in E. discriminate.
  Qed.

  (* every look-up saw the initial maps extended by a prefix of the Bind* calls of the schedule *)
  Theorem lookups_see_bind_prefixes : forall binary b ins sched,
    let s := run (sys0 binary b ins) sched in
    Forall (fun eb => exists n, snd eb = rev (firstn n (binds_of sched)) ++ b) (s_evlog s).
  Proof.
    intros. subst s.
    pose proof (run_inv_snap b sched [] (sys0 binary b ins)) as [_ F]; [split; [reflexivity|constructor]|].
    cbn [app] in F. eapply Forall_impl; [|exact F]. intros eb (n & _ & E). eauto.
  Qed.

  Lemma flat_map_map : forall {A B C} (g : A -> B) (f : B -> list C) l, flat_map f (map g l) = flat_map (fun x => f (g x)) l.
  Proof. induction l; [reflexivity|]. cbn. rewrite IHl. reflexivity. Qed.
  Lemma flat_map_ext_Forall : forall {A B} (f g : A -> list B) l, Forall (fun x => f x = g x) l -> flat_map f l = flat_map g l.
  Proof. induction 1; [reflexivity|]. cbn. rewrite H, IHForall. reflexivity. Qed.

  Lemma no_binds_firstn : forall sched n, binds_of sched = [] -> rev (firstn n (binds_of sched)) = [].
  Proof. intros. rewrite H. destruct n; reflexivity. Qed.

  (* without Bind* calls in the schedule: the invocations are those demanded by the spec, a prefix in panel order *)
  Theorem calls_prefix_of_spec : forall binary b ins sched,
    binds_of sched = [] ->
    let s := run (sys0 binary b ins) sched in
    s_trace s ++ pend_calls (s_ops s) = flat_map (fun e => map fst (event_calls (in_force (rev b)) e)) (looked_up s) /\
    exists rest, looked_up s ++ rest = all_events binary ins.
  Proof.
    intros binary b ins sched NB s.
    pose proof (exactly_once_all_schedules binary b ins sched) as [E T]. fold s in E, T.
    pose proof (lookups_see_bind_prefixes binary b ins sched) as F. fold s in F.
    split; [|eauto].
    rewrite T. unfold calls_logged, looked_up. rewrite flat_map_map.
    apply flat_map_ext_Forall. eapply Forall_impl; [|exact F].
    intros [e b'] [n Hn]. cbn [fst snd] in *.
    rewrite no_binds_firstn in Hn by assumption. cbn [app] in Hn. subst b'.
    rewrite calls_of_event_spec. f_equal. apply event_calls_ext. intros. symmetry. apply in_force_rev.
  Qed.

  (* ---------------------------------------------------------------- what the panel receives *)
  Definition pend_sends (b : bindings) (ops : list dop) : list titem :=
    flat_map (fun op => match op with
                        | DSend t => [t]
                        | DEvent e => flat_map (fun ch => h_sends (snd ch)) (calls_of_event b e)
                        | _ => [] end) ops.
  Definition sends_of_ds (b : bindings) (ds : list delivery) : list titem :=
    flat_map (fun d => pend_sends b (flat_map ops_of_msg d)) ds.
  Definition fd := filter is_disp_item.

  Definition Inv_wire (b : bindings) (all : list titem) (s : sys) : Prop :=
    s_b s = b /\
    fd (s_wire s) ++ fd (s_to s) ++ fd (pend_sends b (s_ops s)) ++ fd (sends_of_ds b (future_ds s)) = all.

  Definition quiet_choice (c : choice) : bool :=
    match c with
    | CBind _ _ _ => false
    | CUser t => negb (is_disp_item t)
    | _ => true
    end.

  Lemma fd_app : forall a b, fd (a ++ b) = fd a ++ fd b.
  Proof. intros. apply filter_app. Qed.
  Lemma pend_sends_app : forall b x y, pend_sends b (x ++ y) = pend_sends b x ++ pend_sends b y.
  Proof. intros. apply flat_map_app. Qed.
  Lemma sends_of_ds_app : forall b x y, sends_of_ds b (x ++ y) = sends_of_ds b x ++ sends_of_ds b y.
  Proof. intros. apply flat_map_app. Qed.
  Lemma sends_of_ds_cons : forall b d l, sends_of_ds b (d :: l) = pend_sends b (flat_map ops_of_msg d) ++ sends_of_ds b l.
  Proof. reflexivity. Qed.
  Lemma sends_of_ds_nil : forall b, sends_of_ds b [] = [].
  Proof. reflexivity. Qed.
  Lemma fd_nil : fd [] = [].
  Proof. reflexivity. Qed.
  Lemma fd_cons : forall t l, fd (t :: l) = if is_disp_item t then t :: fd l else fd l.
  Proof. reflexivity. Qed.
  Lemma pend_sends_calls : forall b l, pend_sends b (ops_of_calls l) = flat_map (fun ch => h_sends (snd ch)) l.
  Proof.
    induction l as [|[c h] l IH]; [reflexivity|].
    unfold ops_of_calls in *. cbn [flat_map fst snd]. rewrite pend_sends_app, IH. f_equal.
    cbn. induction (h_sends h); cbn; congruence.
  Qed.

  Lemma ps_nil : forall b, pend_sends b [] = [].
  Proof. reflexivity. Qed.
  Lemma ps_send : forall b t l, pend_sends b (DSend t :: l) = t :: pend_sends b l.
  Proof. reflexivity. Qed.
  Lemma ps_state : forall b m l, pend_sends b (DState m :: l) = pend_sends b l.
  Proof. reflexivity. Qed.
  Lemma ps_call : forall b c l, pend_sends b (DCall c :: l) = pend_sends b l.
  Proof. reflexivity. Qed.
  Lemma ps_event : forall b e l, pend_sends b (DEvent e :: l) = flat_map (fun ch => h_sends (snd ch)) (calls_of_event b e) ++ pend_sends b l.
  Proof. reflexivity. Qed.

  Lemma step_inv_wire : forall b all s c s', quiet_choice c = true -> Inv_wire b all s -> step s c = Some s' -> Inv_wire b all s'.
  Proof.
    intros b all s c s' Q [B I] H. unfold Inv_wire, future_ds in *.
    destruct c; try discriminate; step_cases H; cbn [s_b s_wire s_to s_ops s_from s_rpend s_rd s_in] in *;
      (split; [first [assumption|reflexivity]|]); try exact I; rewrite <- I; clear I.
    all: rewrite ?reader_run_cons;
      repeat match goal with H : rstep _ _ _ _ = _ |- _ => rewrite H end;
      cbn [fst snd];
      rewrite ?ps_nil, ?ps_send, ?ps_state, ?ps_call, ?ps_event, ?pend_sends_app, ?pend_sends_calls,
              ?sends_of_ds_app, ?sends_of_ds_cons, ?sends_of_ds_app, ?sends_of_ds_nil, ?fd_app;
      rewrite ?B, ?fd_app, ?fd_nil, ?app_nil_r; rewrite <- ?app_assoc; try reflexivity.
    - (* DSend *) rewrite !fd_cons, fd_nil. destruct (is_disp_item t); reflexivity.
    - (* CWrite *) rewrite !fd_cons, fd_nil. destruct (is_disp_item t); reflexivity.
    - (* CUser *) cbn [quiet_choice] in Q. apply negb_true_iff in Q. rewrite fd_cons, Q, fd_nil. reflexivity.
  Qed.

  Lemma pend_sends_msg : forall b m, pend_sends b (ops_of_msg m) = snd (msg_demands (in_force (rev b)) m).
  Proof.
    intros. unfold ops_of_msg, msg_demands. cbn [snd]. rewrite pend_sends_app. f_equal; [destruct (m_flow m =? 1); reflexivity|].
    cbn [pend_sends flat_map app].
    rewrite flat_map_flat_map.
    induction (m_events m) as [|e es IH]; [reflexivity|].
    cbn [map flat_map]. rewrite IH. f_equal.
    rewrite calls_of_event_spec. f_equal. apply event_calls_ext. intros. symmetry. apply in_force_rev.
  Qed.

  (* what the spec demands the panel to receive for a list of deliveries, registrations fixed *)
  Definition demanded_sends (b : bindings) (ds : list delivery) : list titem :=
    flat_map (fun d => snd (delivery_demands (in_force (rev b)) d)) ds.

  Lemma sends_of_ds_spec : forall b ds, sends_of_ds b ds = demanded_sends b ds.
  Proof.
    intros. unfold sends_of_ds, demanded_sends. apply flat_map_ext. intros d.
    induction d as [|m r IH]; [reflexivity|].
    cbn [flat_map]. rewrite pend_sends_app, IH, pend_sends_msg, delivery_demands_cons. reflexivity.
  Qed.

  (* For every schedule without Bind* calls and without other goroutines sending acks/feedback: the acks and
     feedback written so far, then those queued, then those still to come, are exactly what the spec demands
     for the deliveries of the script, in order. *)
  Theorem wire_all_schedules : forall binary b ins sched,
    forallb quiet_choice sched = true ->
    let s := run (sys0 binary b ins) sched in
    fd (s_wire s) ++ fd (s_to s) ++ fd (pend_sends b (s_ops s)) ++ fd (demanded_sends b (future_ds s)) =
    fd (demanded_sends b (snd (reader_run (rinit binary) ins))).
  Proof.
    intros binary b ins sched Q s. subst s.
    assert (G : forall sched s, forallb quiet_choice sched = true ->
                Inv_wire b (fd (demanded_sends b (snd (reader_run (rinit binary) ins)))) s ->
                Inv_wire b (fd (demanded_sends b (snd (reader_run (rinit binary) ins)))) (run s sched)).
    { induction sched0 as [|c r IH]; intros s Q0 I; [assumption|].
      cbn [forallb] in Q0. apply andb_prop in Q0 as [Q1 Q2].
      cbn [Gorwp.run]. destruct (step s c) as [s'|] eqn:E; [|apply IH; assumption].
      apply IH; [assumption|]. eapply step_inv_wire; eauto. }
    destruct (G sched (sys0 binary b ins) Q) as [_ I].
    - split; [reflexivity|]. unfold future_ds. cbn [sys0 s_wire s_to s_ops s_from s_rpend s_rd s_in fd filter pend_sends flat_map app].
      rewrite sends_of_ds_spec. reflexivity.
    - rewrite sends_of_ds_spec in I. exact I.
  Qed.

  (* ---------------------------------------------------------------- no deadlock *)
  Definition Inv_alive (s : sys) : Prop :=
    (s_dalive s = false -> s_cancel s = true) /\ (s_walive s = false -> s_cancel s = true).

  Lemma step_inv_alive : forall s c s', Inv_alive s -> step s c = Some s' -> Inv_alive s'.
  Proof.
    intros s c s' [D W] H. unfold Inv_alive in *.
    destruct c; step_cases H; cbn [s_dalive s_walive s_cancel] in *; split; intros; auto; try discriminate.
  Qed.

  Definition work_pending (s : sys) : Prop :=
    s_to s <> [] \/ s_ops s <> [] \/ s_from s <> [] \/ s_rpend s <> [].

  Lemma step_enabled_some : forall s, s_cancel s = false -> Inv_alive s -> work_pending s ->
    exists c s', In c internal /\ step s c = Some s'.
  Proof.
    intros s NC [D W] P.
    assert (DA : s_dalive s = true) by (destruct (s_dalive s); [reflexivity|rewrite D in NC by reflexivity; discriminate]).
    assert (WA : s_walive s = true) by (destruct (s_walive s); [reflexivity|rewrite W in NC by reflexivity; discriminate]).
    destruct (s_to s) as [|t r] eqn:T.
    - destruct (s_ops s) as [|op ops] eqn:O.
      + destruct (s_from s) as [|d ds] eqn:F.
        * destruct (s_rpend s) as [|d ds] eqn:R.
          -- exfalso. destruct P as [P|[P|[P|P]]]; congruence.
          -- exists CPush. unfold Gorwp.step. rewrite R, F. cbn. eexists. split; [cbn; auto|reflexivity].
        * exists CTake. unfold Gorwp.step. rewrite O, F, DA. eexists. split; [cbn; auto|reflexivity].
      + exists CDisp. unfold Gorwp.step. rewrite DA, O. unfold room. rewrite T. cbn [length cap Nat.ltb Nat.leb].
        destruct op; eexists; (split; [cbn; auto|reflexivity]).
    - exists CWrite. unfold Gorwp.step. rewrite T, WA. eexists. split; [cbn; auto|reflexivity].
  Qed.

  (* No reachable state in which something is pending and no goroutine can move (as long as the context is not
     cancelled): in particular a dispatcher blocked on a full toPanel can always be unblocked by the writer. *)
  Theorem no_deadlock : forall binary b ins sched,
    let s := run (sys0 binary b ins) sched in
    s_cancel s = false -> work_pending s -> exists c s', In c internal /\ step s c = Some s'.
  Proof.
    intros. subst s. apply step_enabled_some; try assumption.
    apply (run_inv Inv_alive); [intros; eapply step_inv_alive; eauto|]. split; intros; discriminate.
  Qed.

  (* ---------------------------------------------------------------- progress measure *)
  Definition w_calls (l : list (callrec * handler)) : nat :=
    fold_right (fun ch acc => (1 + 2 * length (h_sends (snd ch)) + acc)%nat) 0%nat l.
  Definition w_op (b : bindings) (op : dop) : nat :=
    match op with
    | DSend _ => 2
    | DState _ => 1
    | DCall _ => 1
    | DEvent e => 1 + w_calls (calls_of_event b e)
    end.
  Definition w_ops (b : bindings) (ops : list dop) : nat := fold_right (fun op acc => (w_op b op + acc)%nat) 0%nat ops.
  Definition w_d (b : bindings) (d : delivery) : nat := w_ops b (flat_map ops_of_msg d).
  Definition w_q (extra : nat) (b : bindings) (q : list delivery) : nat :=
    fold_right (fun d acc => (extra + w_d b d + acc)%nat) 0%nat q.
  Definition measure (s : sys) : nat :=
    (length (s_to s) + w_ops (s_b s) (s_ops s) + w_q 1 (s_b s) (s_from s) + w_q 2 (s_b s) (s_rpend s))%nat.

  Lemma w_ops_cons : forall b op l, w_ops b (op :: l) = (w_op b op + w_ops b l)%nat.
  Proof. reflexivity. Qed.
  Lemma w_ops_nil : forall b, w_ops b [] = 0%nat.
  Proof. reflexivity. Qed.
  Lemma w_q_cons : forall x b d l, w_q x b (d :: l) = (x + w_d b d + w_q x b l)%nat.
  Proof. reflexivity. Qed.
  Lemma w_q_nil : forall x b, w_q x b [] = 0%nat.
  Proof. reflexivity. Qed.
  Lemma w_ops_app : forall b x y, w_ops b (x ++ y) = (w_ops b x + w_ops b y)%nat.
  Proof. unfold w_ops. induction x; intros; cbn [app fold_right]; [reflexivity|]. rewrite IHx. lia. Qed.
  Lemma w_ops_calls : forall b l, w_ops b (ops_of_calls l) = w_calls l.
  Proof.
    induction l as [|[c h] l IH]; [reflexivity|].
    unfold ops_of_calls in *. cbn [flat_map fst snd]. rewrite w_ops_app, IH. cbn [w_calls fold_right snd].
    assert (E : w_ops b (DCall c :: map DSend (h_sends h)) = (1 + 2 * length (h_sends h))%nat).
    { cbn. induction (h_sends h); cbn in *; lia. }
    rewrite E. unfold w_calls. lia.
  Qed.
  Lemma w_q_app : forall x b a c, w_q x b (a ++ c) = (w_q x b a + w_q x b c)%nat.
  Proof. unfold w_q. induction a; intros; cbn [app fold_right]; [reflexivity|]. rewrite IHa. lia. Qed.

  (* every step of the three goroutines themselves strictly decreases the measure *)
  Theorem internal_step_decreases : forall s c s', In c internal -> step s c = Some s' -> (measure s' < measure s)%nat.
  Proof.
    intros s c s' IN H. unfold measure.
    destruct IN as [<-|[<-|[<-|[<-|[]]]]]; step_cases H; cbn [s_to s_ops s_from s_rpend s_b].
    all: rewrite ?app_length, ?w_ops_app, ?w_ops_calls, ?w_q_app, ?w_ops_cons, ?w_q_cons, ?w_q_nil, ?w_ops_nil;
      unfold w_d; cbn [length w_op]; lia.
  Qed.

  (* hence: the goroutines, left to themselves under ANY order, stop after at most [measure s] steps ... *)
  Fixpoint steps_taken (s : sys) (sched : list choice) : nat :=
    match sched with
    | [] => 0
    | c :: r => match step s c with Some s' => S (steps_taken s' r) | None => steps_taken s r end
    end.

  Theorem internal_steps_bounded : forall sched s, Forall (fun c => In c internal) sched ->
    (steps_taken s sched + measure (run s sched) <= measure s)%nat.
  Proof.
    induction sched as [|c r IH]; intros s F; [cbn; lia|].
    inversion F; subst. cbn [steps_taken Gorwp.run]. destruct (step s c) as [s'|] eqn:E.
    - pose proof (internal_step_decreases _ _ _ H1 E). specialize (IH s' H2). lia.
    - apply IH; assumption.
  Qed.

  (* ... and when no step is enabled any more, everything received has been dispatched and written *)
  Definition quiescent (s : sys) : Prop := s_to s = [] /\ s_ops s = [] /\ s_from s = [] /\ s_rpend s = [].

  Lemma first_enabled_none : forall cs s, first_enabled unm dec s cs = None -> forall c, In c cs -> step s c = None.
  Proof.
    induction cs as [|c0 cs IH]; intros s H c IN; [destruct IN|].
    cbn [Gorwp.first_enabled] in H. destruct (step s c0) eqn:E; [discriminate|].
    destruct IN as [<-|IN]; [assumption|]. apply IH; assumption.
  Qed.

  Lemma first_enabled_some : forall cs s s', first_enabled unm dec s cs = Some s' -> exists c, In c cs /\ step s c = Some s'.
  Proof.
    induction cs as [|c0 cs IH]; intros s s' H; [discriminate|].
    cbn [Gorwp.first_enabled] in H. destruct (step s c0) eqn:E.
    - inversion H; subst. exists c0. split; [left; reflexivity|assumption].
    - destruct (IH _ _ H) as (c & IN & S). exists c. split; [right; assumption|assumption].
  Qed.

  Lemma step_cancel_internal : forall s c s', In c internal -> step s c = Some s' -> s_cancel s' = s_cancel s.
  Proof.
    intros s c s' IN H. destruct IN as [<-|[<-|[<-|[<-|[]]]]]; step_cases H; reflexivity.
  Qed.

  Theorem drain_reaches_quiescence : forall prio, (forall c, In c internal -> In c prio) -> (forall c, In c prio -> In c internal) ->
    forall fuel s, s_cancel s = false -> Inv_alive s -> (measure s <= fuel)%nat ->
    quiescent (drain unm dec prio fuel s).
  Proof.
    intros prio P1 P2. induction fuel as [|f IH]; intros s NC A M.
    - (* measure 0: nothing can be pending *)
      cbn [Gorwp.drain].
      destruct (s_to s) eqn:T, (s_ops s) eqn:O, (s_from s) eqn:F, (s_rpend s) eqn:R; try (repeat split; assumption);
        exfalso; destruct (step_enabled_some s NC A) as (c & s' & IN & S);
        try (unfold work_pending; rewrite ?T, ?O, ?F, ?R; auto 6; fail);
        try (pose proof (internal_step_decreases _ _ _ IN S); lia).
      all: unfold work_pending; rewrite ?T, ?O, ?F, ?R; try (left; discriminate); try (right; left; discriminate);
        try (right; right; left; discriminate); try (right; right; right; discriminate).
    - cbn [Gorwp.drain]. destruct (first_enabled unm dec s prio) as [s'|] eqn:E.
      + destruct (first_enabled_some _ _ _ E) as (c & IN & S).
        pose proof (internal_step_decreases _ _ _ (P2 _ IN) S).
        apply IH; [rewrite (step_cancel_internal _ _ _ (P2 _ IN) S); assumption|eapply step_inv_alive; eauto|lia].
      + destruct (s_to s) eqn:T, (s_ops s) eqn:O, (s_from s) eqn:F, (s_rpend s) eqn:R; try (repeat split; assumption);
          exfalso; destruct (step_enabled_some s NC A) as (c & s' & IN & S);
          try (rewrite (first_enabled_none _ _ E c (P1 _ IN)) in S; discriminate).
        all: unfold work_pending; rewrite ?T, ?O, ?F, ?R; try (left; discriminate); try (right; left; discriminate);
          try (right; right; left; discriminate); try (right; right; right; discriminate).
  Qed.

  (* ---------------------------------------------------------------- after the reader stopped *)
  Definition drained_dead (s : sys) : Prop :=
    s_rd s = RDead /\ s_rpend s = [] /\ s_from s = [] /\ s_ops s = [].

  Lemma step_drained_dead : forall s c s', drained_dead s -> step s c = Some s' ->
    drained_dead s' /\ s_trace s' = s_trace s /\ s_evlog s' = s_evlog s.
  Proof.
    intros s c s' (R & P & F & O) H. unfold drained_dead.
    destruct c; step_cases H; cbn [s_rd s_rpend s_from s_ops s_trace s_evlog]; try (repeat split; assumption); try congruence.
  Qed.

  (* once readFromPanel has returned and what it had delivered is dispatched, no handler is ever invoked again,
     whatever else happens: further input on the wire, ticks, Bind and Set calls *)
  Theorem after_break_nothing : forall sched s, drained_dead s -> s_trace (run s sched) = s_trace s /\ s_evlog (run s sched) = s_evlog s.
  Proof.
    induction sched as [|c r IH]; intros s D; [split; reflexivity|].
    cbn [Gorwp.run]. destruct (step s c) as [s'|] eqn:E; [|apply IH; assumption].
    destruct (step_drained_dead _ _ _ D E) as (D' & T & L). destruct (IH _ D') as [T' L']. split; congruence.
  Qed.

  (* ---------------------------------------------------------------- complete runs, end to end *)
  Lemma delivery_demands_calls : forall who d,
    fst (delivery_demands who d) = flat_map (fun e => map fst (event_calls who e)) (flat_map m_events d).
  Proof.
    induction d as [|m r IH]; [reflexivity|].
    rewrite delivery_demands_cons. cbn [fst flat_map]. rewrite flat_map_app, IH. f_equal.
    unfold msg_demands. cbn [fst]. apply map_fst_flat_map.
  Qed.

  Lemma demands_deliveries : forall regs ds,
    fst (demands regs (map HDeliver ds)) = flat_map (fun e => map fst (event_calls (in_force regs) e)) (evs_of_ds ds).
  Proof.
    induction ds as [|d r IH]; [reflexivity|].
    cbn [map demands]. destruct (delivery_demands (in_force regs) d) as [c1 s1] eqn:D.
    destruct (demands regs (map HDeliver r)) as [c2 s2] eqn:E. cbn [fst] in *.
    rewrite evs_of_ds_cons, flat_map_app, <- IH. f_equal.
    rewrite <- delivery_demands_calls, D. reflexivity.
  Qed.

  (* a run without Bind* calls that has consumed its input and come to rest has invoked exactly the handlers the
     spec demands for the deliveries of the script, in order *)
  Theorem complete_run_calls : forall binary b ins sched,
    binds_of sched = [] ->
    let s := run (sys0 binary b ins) sched in
    quiescent s -> s_in s = [] ->
    s_trace s = fst (demands (rev b) (map HDeliver (snd (reader_run (rinit binary) ins)))).
  Proof.
    intros binary b ins sched NB s (T & O & F & R) IN.
    pose proof (calls_prefix_of_spec binary b ins sched NB) as [C _]. fold s in C.
    pose proof (exactly_once_all_schedules binary b ins sched) as [E _]. fold s in E.
    unfold future_ds in E. rewrite O, F, R, IN in *. cbn [pend_events pend_calls flat_map app Gorwp.reader_run snd evs_of_ds] in *.
    rewrite !app_nil_r in *. rewrite C, E. unfold all_events. symmetry. apply demands_deliveries.
  Qed.
End Sys.
