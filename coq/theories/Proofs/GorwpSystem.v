(* C19 — the running system (reader, dispatcher, writer goroutines; queues of capacity 10; ticker;
   ctx; Bind* and Set* from other goroutines), for ALL schedules:
   every event is looked up exactly once, in panel order; every look-up yields exactly the handler
   invocations of the maps it saw; what the panel receives from the dispatcher is what the spec
   demands, in order; no reachable state is stuck while work is pending; every goroutine step makes
   progress (bounded); after the reader stopped and the queues drained, nothing is dispatched. *)
From RP Require Import Lib.Base Model.Gorwp Spec.Gorwp Proofs.GorwpDispatch Proofs.GorwpReader.
From Coq Require Import Lia.

Section Sys.
  Variable unm : bytes -> omsg.
  Variable dec : bytes -> list omsg.

  Notation step := (step unm dec).
  Notation run := (run unm dec).
  Notation reader_run := (reader_run unm dec).

  (* ---------------------------------------------------------------- bookkeeping functions *)
  Definition future_ds (s : sys) : list delivery :=
    s_from s ++ s_rpend s ++ snd (reader_run (s_rd s) (s_in s)).
  Definition evs_of_ds (ds : list delivery) : list event := flat_map (fun d => flat_map m_events d) ds.
  Definition pend_events (ops : list dop) : list event :=
    flat_map (fun op => match op with DEvent e => [e] | _ => [] end) ops.
  Definition pend_calls (ops : list dop) : list callrec :=
    flat_map (fun op => match op with DCall c => [c] | _ => [] end) ops.

  Definition no_call (ops : list dop) : bool := forallb (fun op => match op with DCall _ => false | _ => true end) ops.
  Fixpoint shape (ops : list dop) : bool :=
    match ops with
    | [] => true
    | DCall _ :: r | DSend _ :: r | DBind _ :: r => shape r
    | DEvent _ :: r | DState _ :: r => no_call r
    end.

  Lemma no_call_shape : forall ops, no_call ops = true -> shape ops = true.
  Proof.
    induction ops as [|op r IH]; intros H; [reflexivity|].
    cbn [no_call forallb] in H. apply andb_prop in H as [H1 H2].
    destruct op; cbn [shape]; try discriminate; auto.
  Qed.
  Lemma no_call_app : forall a b, no_call (a ++ b) = no_call a && no_call b.
  Proof. intros. unfold no_call. apply forallb_app. Qed.
  Lemma no_call_pend : forall ops, no_call ops = true -> pend_calls ops = [].
  Proof.
    induction ops as [|op r IH]; intros H; [reflexivity|].
    cbn [no_call forallb] in H. apply andb_prop in H as [H1 H2]. destruct op; try discriminate; cbn; auto.
  Qed.
  Lemma no_call_ops_of_msg : forall m, no_call (ops_of_msg m) = true.
  Proof.
    intros. unfold ops_of_msg. rewrite no_call_app. destruct (m_flow m =? 1); cbn [no_call forallb andb];
    induction (m_events m); cbn; auto.
  Qed.
  Lemma no_call_ops_of_d : forall d, no_call (flat_map ops_of_msg d) = true.
  Proof. induction d; [reflexivity|]. cbn [flat_map]. rewrite no_call_app, no_call_ops_of_msg. exact IHd. Qed.

  Lemma shape_sends_binds : forall (ts : list titem) (rs : list reg) r, shape (map DSend ts ++ map DBind rs ++ r) = shape r.
  Proof.
    induction ts as [|t ts IH]; intros; cbn [map app shape]; [|apply IH].
    induction rs as [|x rs IH]; cbn [map app shape]; auto.
  Qed.
  Lemma shape_calls_app : forall l r, no_call r = true -> shape (ops_of_calls l ++ r) = true.
  Proof.
    induction l as [|[c h] l IH]; intros r H; [apply no_call_shape; assumption|].
    unfold ops_of_calls in *. cbn [flat_map fst snd app shape].
    rewrite <- !app_assoc. rewrite shape_sends_binds. apply IH. assumption.
  Qed.

  Lemma pend_events_app : forall a b, pend_events (a ++ b) = pend_events a ++ pend_events b.
  Proof. intros. apply flat_map_app. Qed.
  Lemma pend_calls_app : forall a b, pend_calls (a ++ b) = pend_calls a ++ pend_calls b.
  Proof. intros. apply flat_map_app. Qed.

  Lemma pend_events_sb : forall (ts : list titem) (rs : list reg), pend_events (map DSend ts ++ map DBind rs) = [].
  Proof. intros. rewrite pend_events_app. induction ts; cbn; [induction rs; cbn; auto|auto]. Qed.
  Lemma pend_calls_sb : forall (ts : list titem) (rs : list reg), pend_calls (map DSend ts ++ map DBind rs) = [].
  Proof. intros. rewrite pend_calls_app. induction ts; cbn; [induction rs; cbn; auto|auto]. Qed.
  Lemma pend_events_calls : forall l, pend_events (ops_of_calls l) = [].
  Proof.
    induction l as [|[c h] l IH]; [reflexivity|].
    unfold ops_of_calls in *. cbn [flat_map fst snd]. rewrite pend_events_app, IH, app_nil_r.
    change (DCall c :: map DSend (fb_items h) ++ map DBind (h_binds h)) with ([DCall c] ++ map DSend (fb_items h) ++ map DBind (h_binds h)).
    rewrite pend_events_app, pend_events_sb. reflexivity.
  Qed.
  Lemma pend_calls_calls : forall l, pend_calls (ops_of_calls l) = map fst l.
  Proof.
    induction l as [|[c h] l IH]; [reflexivity|].
    unfold ops_of_calls in *. cbn [flat_map fst snd map]. rewrite pend_calls_app, IH.
    change (DCall c :: map DSend (fb_items h) ++ map DBind (h_binds h)) with ([DCall c] ++ map DSend (fb_items h) ++ map DBind (h_binds h)).
    rewrite pend_calls_app, pend_calls_sb. reflexivity.
  Qed.
  Lemma pend_events_msg : forall m, pend_events (ops_of_msg m) = m_events m.
  Proof.
    intros. unfold ops_of_msg. rewrite pend_events_app.
    replace (pend_events (if m_flow m =? 1 then [DSend TAck] else [])) with (@nil event) by (destruct (m_flow m =? 1); reflexivity).
    cbn. induction (m_events m); cbn; congruence.
  Qed.
  Lemma pend_events_d : forall d, pend_events (flat_map ops_of_msg d) = flat_map m_events d.
  Proof. induction d; [reflexivity|]. cbn [flat_map]. rewrite pend_events_app, pend_events_msg, IHd. reflexivity. Qed.

  Lemma evs_of_ds_app : forall a b, evs_of_ds (a ++ b) = evs_of_ds a ++ evs_of_ds b.
  Proof. intros. apply flat_map_app. Qed.
  Lemma evs_of_ds_cons : forall d l, evs_of_ds (d :: l) = flat_map m_events d ++ evs_of_ds l.
  Proof. reflexivity. Qed.
  Lemma evs_of_ds_nil : evs_of_ds [] = [].
  Proof. reflexivity. Qed.

  (* ---------------------------------------------------------------- invariants *)
  Definition looked_up (s : sys) : list event := map fst (s_evlog s).
  Definition calls_logged (s : sys) : list callrec :=
    flat_map (fun eb => map fst (calls_of_event (snd eb) (fst eb))) (s_evlog s).

  Definition Inv_ev (all : list event) (s : sys) : Prop :=
    looked_up s ++ pend_events (s_ops s) ++ evs_of_ds (future_ds s) = all.
  Definition Inv_tr (s : sys) : Prop :=
    shape (s_ops s) = true /\ s_trace s ++ pend_calls (s_ops s) = calls_logged s.

  Ltac step_cases H :=
    unfold Gorwp.step in H;
    repeat match type of H with
           | context [match ?x with _ => _ end] => destruct x eqn:?; try discriminate
           end;
    match type of H with Some _ = Some ?x => inversion H; subst x; clear H end.

  Lemma reader_run_cons : forall st i r,
    snd (reader_run st (i :: r)) = snd (rstep unm dec st i) ++ snd (reader_run (fst (rstep unm dec st i)) r).
  Proof.
    intros. cbn [Gorwp.reader_run]. destruct (rstep unm dec st i) as [st1 d1]. cbn [fst snd].
    destruct (reader_run st1 r); reflexivity.
  Qed.

  Lemma step_inv_ev : forall all s c s', Inv_ev all s -> step s c = Some s' -> Inv_ev all s'.
  Proof.
    intros all s c s' I H. unfold Inv_ev, looked_up, future_ds in *.
    destruct c; step_cases H; cbn [s_evlog s_ops s_from s_rpend s_rd s_in] in *;
      try exact I;
      try (rewrite <- I; clear I).
    all: rewrite ?reader_run_cons;
      repeat match goal with H : rstep _ _ _ _ = _ |- _ => rewrite H end;
      cbn [fst snd app pend_events flat_map map];
      rewrite ?pend_events_d, ?map_app, ?pend_events_app, ?pend_events_calls, ?evs_of_ds_app, ?evs_of_ds_cons, ?evs_of_ds_app, ?evs_of_ds_nil;
      cbn [fst snd app pend_events flat_map map];
      rewrite <- ?app_assoc; reflexivity.
  Qed.

  Lemma calls_logged_snoc : forall s e b,
    flat_map (fun eb => map fst (calls_of_event (snd eb) (fst eb))) (s_evlog s ++ [(e, b)]) =
    calls_logged s ++ map fst (calls_of_event b e).
  Proof. intros. rewrite flat_map_app. cbn. rewrite app_nil_r. reflexivity. Qed.

  Lemma step_inv_tr : forall s c s', Inv_tr s -> step s c = Some s' -> Inv_tr s'.
  Proof.
    intros s c s' [S I] H. unfold Inv_tr, calls_logged in *.
    destruct c; step_cases H; cbn [s_evlog s_ops s_trace] in *; try (split; assumption).
    - (* CTake *) cbn [pend_calls flat_map] in I.
      split; [apply no_call_shape, no_call_ops_of_d|].
      rewrite no_call_pend by apply no_call_ops_of_d. exact I.
    - (* DState *) cbn [shape] in S. split; [apply no_call_shape; assumption|]. exact I.
    - (* DEvent *) cbn [shape] in S.
      split; [apply shape_calls_app; assumption|].
      rewrite flat_map_app. cbn [flat_map fst snd]. rewrite app_nil_r.
      rewrite pend_calls_app, pend_calls_calls. rewrite (no_call_pend l) by assumption. rewrite app_nil_r.
      cbn [pend_calls flat_map app] in I. fold (pend_calls l) in I. rewrite (no_call_pend l) in I by assumption.
      rewrite app_nil_r in I. rewrite <- I. reflexivity.
    - (* DCall *) cbn [shape] in S. split; [assumption|].
      rewrite <- app_assoc. exact I.
  Qed.

  (* ---------------------------------------------------------------- runs *)
  Lemma run_inv : forall (P : sys -> Prop), (forall s c s', P s -> step s c = Some s' -> P s') ->
    forall sched s, P s -> P (run s sched).
  Proof.
    intros P HP. induction sched as [|c r IH]; intros s H; [assumption|].
    cbn [Gorwp.run]. destruct (step s c) as [s'|] eqn:E; [apply IH, (HP _ _ _ H E)|apply IH, H].
  Qed.

  Lemma run_app : forall a b s, run s (a ++ b) = run (run s a) b.
  Proof.
    induction a as [|c a IH]; intros; [reflexivity|].
    cbn [app Gorwp.run]. destruct (step s c); apply IH.
  Qed.

  Definition all_events (binary : bool) (ins : list rin) : list event :=
    evs_of_ds (snd (reader_run (rinit binary) ins)).

  Lemma sys0_inv_ev : forall binary b ins, Inv_ev (all_events binary ins) (sys0 binary b ins).
  Proof. intros. unfold Inv_ev, looked_up, future_ds, all_events. reflexivity. Qed.
  Lemma sys0_inv_tr : forall binary b ins, Inv_tr (sys0 binary b ins).
  Proof. intros. split; reflexivity. Qed.

  (* For every schedule: the events looked up so far are a prefix, in panel order, of the events of the
     deliveries the reader produces from the script (each exactly once: the rest is still pending), and the
     handler invocations made so far, followed by the ones already decided, are exactly those of the
     look-ups, each against the maps it saw. *)
  Theorem exactly_once_all_schedules : forall binary b ins sched,
    let s := run (sys0 binary b ins) sched in
    looked_up s ++ pend_events (s_ops s) ++ evs_of_ds (future_ds s) = all_events binary ins /\
    s_trace s ++ pend_calls (s_ops s) = calls_logged s.
  Proof.
    intros. subst s. split.
    - apply (run_inv (Inv_ev (all_events binary ins))); [intros; eapply step_inv_ev; eauto|apply sys0_inv_ev].
    - apply (run_inv Inv_tr); [intros; eapply step_inv_tr; eauto|apply sys0_inv_tr].
  Qed.

  (* ---------------------------------------------------------------- which maps a look-up saw *)
  (* s_blog logs every registration in the order made, by handlers (DBind) and by other goroutines (CBind) *)
  Definition Inv_snap (b0 : bindings) (s : sys) : Prop :=
    s_b s = rev (s_blog s) ++ b0 /\
    Forall (fun eb => exists n, snd eb = rev (firstn n (s_blog s)) ++ b0) (s_evlog s).

  Lemma firstn_app_keep : forall {A} (l l' : list A) n, (n <= length l)%nat -> firstn n (l ++ l') = firstn n l.
  Proof. intros. rewrite firstn_app. replace (n - length l)%nat with 0%nat by lia. cbn. apply app_nil_r. Qed.

  Lemma snap_weaken : forall b0 (log ext : list reg) (evlog : list (event * bindings)),
    Forall (fun eb => exists n, snd eb = rev (firstn n log) ++ b0) evlog ->
    Forall (fun eb => exists n, snd eb = rev (firstn n (log ++ ext)) ++ b0) evlog.
  Proof.
    intros. eapply Forall_impl; [|eassumption]. intros eb [n E].
    destruct (Nat.le_gt_cases n (length log)).
    - exists n. rewrite firstn_app_keep by assumption. exact E.
    - exists (length log). rewrite firstn_app_keep by lia. rewrite firstn_all. rewrite firstn_all2 in E by lia. exact E.
  Qed.

  Lemma step_inv_snap : forall b0 s c s', Inv_snap b0 s -> step s c = Some s' -> Inv_snap b0 s'.
  Proof.
    intros b0 s c s' [B F] H. unfold Inv_snap.
    destruct c; step_cases H; cbn [s_b s_evlog s_blog]; try (split; assumption).
    - (* DEvent *) split; [assumption|]. apply Forall_app. split; [assumption|]. constructor; [|constructor].
      exists (length (s_blog s)). cbn [snd]. rewrite firstn_all. assumption.
    - (* DBind *) split; [|apply snap_weaken; assumption].
      rewrite rev_app_distr. cbn [rev app]. rewrite B. reflexivity.
    - (* CBind *) split; [|apply snap_weaken; assumption].
      unfold bind. rewrite rev_app_distr. cbn [rev app]. rewrite B. reflexivity.
  Qed.

  (* every look-up saw the initial maps extended by a prefix of the registrations made so far - by handlers from
     inside their callback and by other goroutines -: never a registration half-done, lost, or not yet made *)
  Theorem lookups_see_bind_prefixes : forall binary b ins sched,
    let s := run (sys0 binary b ins) sched in
    s_b s = rev (s_blog s) ++ b /\
    Forall (fun eb => exists n, snd eb = rev (firstn n (s_blog s)) ++ b) (s_evlog s).
  Proof.
    intros. subst s. apply (run_inv (Inv_snap b)); [intros; eapply step_inv_snap; eauto|].
    split; [reflexivity|constructor].
  Qed.

  Lemma flat_map_map : forall {A B C} (g : A -> B) (f : B -> list C) l, flat_map f (map g l) = flat_map (fun x => f (g x)) l.
  Proof. induction l; [reflexivity|]. cbn. rewrite IHl. reflexivity. Qed.
  Lemma flat_map_ext_Forall : forall {A B} (f g : A -> list B) l, Forall (fun x => f x = g x) l -> flat_map f l = flat_map g l.
  Proof. induction 1; [reflexivity|]. cbn. rewrite H, IHForall. reflexivity. Qed.

  (* ---------------------------------------------------------------- what the rest of the run will do *)
  (* the dispatcher's remaining program, simulated with the maps threaded through it: the invocations it will
     make, what it will send, the maps afterwards (no Bind* from other goroutines) *)
  Definition sends_of_calls (l : list (callrec * handler)) : list titem := flat_map (fun ch => fb_items (snd ch)) l.

  Fixpoint sim (b : bindings) (ops : list dop) : list callrec * list titem * bindings :=
    match ops with
    | [] => ([], [], b)
    | DSend t :: r => let x := sim b r in (fst (fst x), t :: snd (fst x), snd x)
    | DState _ :: r => sim b r
    | DCall c :: r => let x := sim b r in (c :: fst (fst x), snd (fst x), snd x)
    | DBind rg :: r => sim (rg :: b) r
    | DEvent e :: r =>
      let chs := calls_of_event b e in
      let x := sim (apply_binds b (binds_of_calls chs)) r in
      (map fst chs ++ fst (fst x), sends_of_calls chs ++ snd (fst x), snd x)
    end.

  Lemma sim_sends : forall ts b r, sim b (map DSend ts ++ r) = (fst (fst (sim b r)), ts ++ snd (fst (sim b r)), snd (sim b r)).
  Proof.
    induction ts as [|t ts IH]; intros; cbn [map app sim].
    - destruct (sim b r) as [[c s0] b']. reflexivity.
    - rewrite IH. reflexivity.
  Qed.
  Lemma sim_binds : forall rs b r, sim b (map DBind rs ++ r) = sim (rev rs ++ b) r.
  Proof.
    induction rs as [|x rs IH]; intros; cbn [map app sim rev]; [reflexivity|].
    rewrite IH. rewrite <- app_assoc. reflexivity.
  Qed.
  Lemma apply_binds_app : forall b x y, apply_binds b (x ++ y) = apply_binds (apply_binds b x) y.
  Proof. intros. unfold apply_binds. rewrite rev_app_distr, app_assoc. reflexivity. Qed.

  Lemma sim_calls : forall l b r,
    sim b (ops_of_calls l ++ r) =
    (map fst l ++ fst (fst (sim (apply_binds b (binds_of_calls l)) r)),
     sends_of_calls l ++ snd (fst (sim (apply_binds b (binds_of_calls l)) r)),
     snd (sim (apply_binds b (binds_of_calls l)) r)).
  Proof.
    induction l as [|[c h] l IH]; intros.
    - cbn. destruct (sim b r) as [[c s0] b']. reflexivity.
    - unfold ops_of_calls, binds_of_calls, sends_of_calls in *. cbn [flat_map fst snd map].
      rewrite <- !app_assoc. cbn [app sim]. rewrite <- !app_assoc. rewrite sim_sends, sim_binds. cbn [fst snd].
      change (rev (h_binds h) ++ b) with (apply_binds b (h_binds h)).
      rewrite IH. rewrite apply_binds_app. cbn [fst snd]. rewrite <- ?app_assoc. reflexivity.
  Qed.

  Lemma sim_event : forall e b r, sim b (DEvent e :: r) = sim b (ops_of_calls (calls_of_event b e) ++ r).
  Proof. intros. rewrite sim_calls. reflexivity. Qed.

  Definition prog (ds : list delivery) : list dop := flat_map (fun d => flat_map ops_of_msg d) ds.
  Lemma prog_app : forall a b, prog (a ++ b) = prog a ++ prog b.
  Proof. intros. apply flat_map_app. Qed.
  Lemma prog_cons : forall d l, prog (d :: l) = flat_map ops_of_msg d ++ prog l.
  Proof. reflexivity. Qed.

  Definition rest_of (s : sys) : list dop := s_ops s ++ prog (future_ds s).
  Definition fd := filter is_disp_item.
  Lemma fd_app : forall a b, fd (a ++ b) = fd a ++ fd b.
  Proof. intros. apply filter_app. Qed.
  Lemma fd_nil : fd [] = [].
  Proof. reflexivity. Qed.
  Lemma fd_cons : forall t l, fd (t :: l) = if is_disp_item t then t :: fd l else fd l.
  Proof. reflexivity. Qed.

  (* invocations made + invocations to come = constant; written + queued + to come = constant *)
  Definition Inv_calls (C : list callrec) (s : sys) : Prop :=
    s_trace s ++ fst (fst (sim (s_b s) (rest_of s))) = C.
  Definition Inv_wire (S : list titem) (s : sys) : Prop :=
    fd (s_wire s) ++ fd (s_to s) ++ fd (snd (fst (sim (s_b s) (rest_of s)))) = S.

  (* schedules in which no OTHER goroutine registers handlers / sends acks or feedback *)
  Definition nobind_choice (c : choice) : bool := match c with CBind _ _ _ => false | _ => true end.
  Definition quiet_choice (c : choice) : bool :=
    match c with
    | CBind _ _ _ => false
    | CUser t => negb (is_disp_item t)
    | _ => true
    end.

  (* how one step changes the simulated rest: a uniform description used by both invariants *)
  Lemma rest_step : forall s c s', nobind_choice c = true -> step s c = Some s' ->
    (s_trace s' = s_trace s /\ sim (s_b s') (rest_of s') = sim (s_b s) (rest_of s) /\
     ((s_wire s' = s_wire s /\ s_to s' = s_to s) \/
      (exists t, s_to s = t :: s_to s' /\ s_wire s' = s_wire s ++ [t]) \/
      (s_to s' = s_to s /\ s_wire s' = s_wire s ++ [TPing]) \/
      (exists t, c = CUser t /\ s_wire s' = s_wire s /\ s_to s' = s_to s ++ [t]))) \/
    (exists t, s_trace s' = s_trace s /\ s_wire s' = s_wire s /\ s_to s' = s_to s ++ [t] /\
               sim (s_b s) (rest_of s) = (fst (fst (sim (s_b s') (rest_of s'))), t :: snd (fst (sim (s_b s') (rest_of s'))), snd (sim (s_b s') (rest_of s')))) \/
    (exists c0, s_trace s' = s_trace s ++ [c0] /\ s_wire s' = s_wire s /\ s_to s' = s_to s /\
               sim (s_b s) (rest_of s) = (c0 :: fst (fst (sim (s_b s') (rest_of s'))), snd (fst (sim (s_b s') (rest_of s'))), snd (sim (s_b s') (rest_of s')))).
  Proof.
    intros s c s' Q H. unfold rest_of, future_ds.
    destruct c; try discriminate; step_cases H; cbn [s_b s_trace s_wire s_to s_ops s_from s_rpend s_rd s_in];
      rewrite ?reader_run_cons;
      repeat match goal with H : rstep _ _ _ _ = _ |- _ => rewrite H end;
      cbn [fst snd app].
    (* CRead x3 *)
    1-3: left; repeat split; auto.
    - (* CPush *) left. rewrite <- !app_assoc. cbn [app]. repeat split; auto.
    - (* CRExit *) left. repeat split; auto.
    - (* CTake *) left. cbn [app]. rewrite prog_cons. repeat split; auto.
    - (* DSend *) right. left. exists t. cbn [app sim]. repeat split; auto.
    - (* DState *) left. cbn [app sim]. repeat split; auto.
    - (* DEvent *) left. rewrite <- app_assoc. cbn [app]. rewrite sim_event. repeat split; auto.
    - (* DCall *) right. right. exists c. cbn [app sim]. repeat split; auto.
    - (* DBind *) left. cbn [app sim]. repeat split; auto.
    - (* CDExit *) left. repeat split; auto.
    - (* CWrite *) left. repeat split; auto. right. left. exists t. split; auto.
    - (* CTick *) left. repeat split; auto.
    - (* CWExit *) left. repeat split; auto.
    - (* CUser *) left. repeat split; auto. right. right. right. exists t. repeat split; auto.
    - (* CCancel *) left. repeat split; auto.
  Qed.

  Lemma step_inv_calls : forall C s c s', nobind_choice c = true -> Inv_calls C s -> step s c = Some s' -> Inv_calls C s'.
  Proof.
    intros C s c s' Q I H. unfold Inv_calls in *.
    destruct (rest_step s c s' Q H) as [(T & E & _)|[(t & T & _ & _ & E)|(c0 & T & _ & _ & E)]].
    - rewrite T, E. exact I.
    - rewrite E in I. cbn [fst] in I. rewrite T. exact I.
    - rewrite E in I. cbn [fst] in I. rewrite T, <- app_assoc. exact I.
  Qed.

  Lemma quiet_nobind : forall c, quiet_choice c = true -> nobind_choice c = true.
  Proof. destruct c; cbn; auto. Qed.

  Lemma step_inv_wire : forall S s c s', quiet_choice c = true -> Inv_wire S s -> step s c = Some s' -> Inv_wire S s'.
  Proof.
    intros S s c s' Q I H. unfold Inv_wire in *.
    destruct (rest_step s c s' (quiet_nobind c Q) H) as [(T & E & W)|[(t & T & W1 & W2 & E)|(c0 & T & W1 & W2 & E)]].
    - rewrite E. destruct W as [(W1 & W2)|[(t & W1 & W2)|[(W1 & W2)|(t & -> & W1 & W2)]]].
      + rewrite W1, W2. exact I.
      + rewrite W1 in I. rewrite W2, fd_app, <- app_assoc. rewrite fd_cons in I. rewrite fd_cons, fd_nil.
        destruct (is_disp_item t); exact I.
      + rewrite W1, W2, fd_app. cbn. rewrite app_nil_r. exact I.
      + cbn [quiet_choice] in Q. apply negb_true_iff in Q. rewrite W1, W2, fd_app, fd_cons, Q, fd_nil, app_nil_r. exact I.
    - rewrite E in I. cbn [fst snd] in I. rewrite W1, W2, fd_app, <- app_assoc. rewrite fd_cons in I. rewrite fd_cons, fd_nil.
      destruct (is_disp_item t); exact I.
    - rewrite E in I. cbn [fst snd] in I. rewrite W1, W2. exact I.
  Qed.

  (* the simulated program of a list of deliveries IS what the spec demands for them *)
  Lemma sim_app : forall x y b,
    sim b (x ++ y) = (fst (fst (sim b x)) ++ fst (fst (sim (snd (sim b x)) y)),
                      snd (fst (sim b x)) ++ snd (fst (sim (snd (sim b x)) y)),
                      snd (sim (snd (sim b x)) y)).
  Proof.
    induction x as [|op x IH]; intros.
    - cbn. destruct (sim b y) as [[c s0] b']. reflexivity.
    - destruct op; cbn [app sim]; rewrite IH; cbn [fst snd]; rewrite <- ?app_assoc; reflexivity.
  Qed.

  Lemma sim_events : forall evs b,
    fst (fst (sim b (map DEvent evs))) = fst (fst (events_demands (rev b) evs)) /\
    snd (fst (sim b (map DEvent evs))) = snd (fst (events_demands (rev b) evs)) /\
    rev (snd (sim b (map DEvent evs))) = snd (events_demands (rev b) evs).
  Proof.
    induction evs as [|e r IH]; intros; [cbn; auto|].
    cbn [map sim]. rewrite events_demands_cons. cbn zeta. cbn [fst snd].
    rewrite <- calls_of_event_force.
    specialize (IH (apply_binds b (binds_of_calls (calls_of_event b e)))). rewrite rev_apply_binds in IH.
    unfold binds_of_calls, sends_of_calls in *. destruct IH as (H1 & H2 & H3). rewrite H1, H2, H3. auto.
  Qed.

  Lemma sim_msg : forall m b,
    fst (fst (sim b (ops_of_msg m))) = fst (fst (msg_demands (rev b) m)) /\
    snd (fst (sim b (ops_of_msg m))) = snd (fst (msg_demands (rev b) m)) /\
    rev (snd (sim b (ops_of_msg m))) = snd (msg_demands (rev b) m).
  Proof.
    intros. unfold ops_of_msg, msg_demands.
    pose proof (sim_events (m_events m) b) as (H1 & H2 & H3).
    destruct (events_demands (rev b) (m_events m)) as [[c s0] regs']. cbn [fst snd] in *.
    destruct (m_flow m =? 1); cbn [app sim fst snd]; rewrite ?H1, ?H2, ?H3; auto.
  Qed.

  Lemma sim_delivery : forall d b,
    fst (fst (sim b (flat_map ops_of_msg d))) = fst (fst (delivery_demands (rev b) d)) /\
    snd (fst (sim b (flat_map ops_of_msg d))) = snd (fst (delivery_demands (rev b) d)) /\
    rev (snd (sim b (flat_map ops_of_msg d))) = snd (delivery_demands (rev b) d).
  Proof.
    induction d as [|m r IH]; intros; [cbn; auto|].
    cbn [flat_map]. rewrite sim_app, delivery_demands_cons. cbn [fst snd].
    pose proof (sim_msg m b) as (H1 & H2 & H3).
    specialize (IH (snd (sim b (ops_of_msg m)))). rewrite H3 in IH. destruct IH as (I1 & I2 & I3).
    rewrite H1, H2, I1, I2, I3. auto.
  Qed.

  Lemma demands_cons_deliver : forall regs d r,
    demands regs (HDeliver d :: r) =
    (fst (fst (delivery_demands regs d)) ++ fst (fst (demands (snd (delivery_demands regs d)) r)),
     snd (fst (delivery_demands regs d)) ++ snd (fst (demands (snd (delivery_demands regs d)) r)),
     snd (demands (snd (delivery_demands regs d)) r)).
  Proof.
    intros. cbn [demands]. destruct (delivery_demands regs d) as [[c1 s1] regs1]. cbn [fst snd].
    destruct (demands regs1 r) as [[c2 s2] regs2]. reflexivity.
  Qed.

  Lemma sim_prog : forall ds b,
    fst (fst (sim b (prog ds))) = fst (fst (demands (rev b) (map HDeliver ds))) /\
    snd (fst (sim b (prog ds))) = snd (fst (demands (rev b) (map HDeliver ds))).
  Proof.
    induction ds as [|d r IH]; intros; [cbn; auto|].
    rewrite prog_cons, sim_app. cbn [map]. rewrite demands_cons_deliver. cbn [fst snd].
    pose proof (sim_delivery d b) as (H1 & H2 & H3).
    specialize (IH (snd (sim b (flat_map ops_of_msg d)))). rewrite H3 in IH. destruct IH as (I1 & I2).
    rewrite H1, H2, I1, I2. auto.
  Qed.

  Lemma run_inv_sel : forall (sel : choice -> bool) (P : sys -> Prop),
    (forall s c s', sel c = true -> P s -> step s c = Some s' -> P s') ->
    forall sched s, forallb sel sched = true -> P s -> P (run s sched).
  Proof.
    intros sel P HP. induction sched as [|c r IH]; intros s Q H; [assumption|].
    cbn [forallb] in Q. apply andb_prop in Q as [Q1 Q2].
    cbn [Gorwp.run]. destruct (step s c) as [s'|] eqn:E; [apply IH; [assumption|eapply HP; eauto]|apply IH; assumption].
  Qed.

  Definition all_ds (binary : bool) (ins : list rin) : list delivery := snd (reader_run (rinit binary) ins).

  (* For every schedule in which no other goroutine calls Bind* (handlers may, from inside their callbacks):
     the invocations made so far, followed by the ones the rest of the run will make, are exactly the
     invocations the spec demands for the script's deliveries - in panel order, each event against the
     registrations in force when it is reached. *)
  Theorem calls_all_schedules : forall binary b ins sched,
    forallb nobind_choice sched = true ->
    let s := run (sys0 binary b ins) sched in
    s_trace s ++ fst (fst (sim (s_b s) (rest_of s))) = fst (fst (demands (rev b) (map HDeliver (all_ds binary ins)))).
  Proof.
    intros binary b ins sched Q s. subst s.
    apply (run_inv_sel nobind_choice (Inv_calls _)); [intros; eapply step_inv_calls; eauto|assumption|].
    unfold Inv_calls, rest_of, future_ds. cbn [sys0 s_trace s_b s_ops s_from s_rpend s_rd s_in app].
    apply (proj1 (sim_prog _ b)).
  Qed.

  (* the same for what the panel receives from the dispatcher (acks and handler feedback, in order), when
     moreover no other goroutine sends acks / feedback at the same time *)
  Theorem wire_all_schedules : forall binary b ins sched,
    forallb quiet_choice sched = true ->
    let s := run (sys0 binary b ins) sched in
    fd (s_wire s) ++ fd (s_to s) ++ fd (snd (fst (sim (s_b s) (rest_of s)))) =
    fd (snd (fst (demands (rev b) (map HDeliver (all_ds binary ins))))).
  Proof.
    intros binary b ins sched Q s. subst s.
    apply (run_inv_sel quiet_choice (Inv_wire _)); [intros; eapply step_inv_wire; eauto|assumption|].
    unfold Inv_wire, rest_of, future_ds. cbn [sys0 s_wire s_to s_b s_ops s_from s_rpend s_rd s_in app fd filter].
    rewrite (proj2 (sim_prog _ b)). reflexivity.
  Qed.

  (* ---------------------------------------------------------------- no deadlock *)
  Definition Inv_alive (s : sys) : Prop :=
    (s_dalive s = false -> s_cancel s = true) /\ (s_walive s = false -> s_cancel s = true).

  Lemma step_inv_alive : forall s c s', Inv_alive s -> step s c = Some s' -> Inv_alive s'.
  Proof.
    intros s c s' [D W] H. unfold Inv_alive in *.
    destruct c; step_cases H; cbn [s_dalive s_walive s_cancel] in *; split; intros; auto; try discriminate.
  Qed.

  Definition work_pending (s : sys) : Prop :=
    s_to s <> [] \/ s_ops s <> [] \/ s_from s <> [] \/ s_rpend s <> [].

  Lemma step_enabled_some : forall s, s_cancel s = false -> Inv_alive s -> work_pending s ->
    exists c s', In c internal /\ step s c = Some s'.
  Proof.
    intros s NC [D W] P.
    assert (DA : s_dalive s = true) by (destruct (s_dalive s); [reflexivity|rewrite D in NC by reflexivity; discriminate]).
    assert (WA : s_walive s = true) by (destruct (s_walive s); [reflexivity|rewrite W in NC by reflexivity; discriminate]).
    destruct (s_to s) as [|t r] eqn:T.
    - destruct (s_ops s) as [|op ops] eqn:O.
      + destruct (s_from s) as [|d ds] eqn:F.
        * destruct (s_rpend s) as [|d ds] eqn:R.
          -- exfalso. destruct P as [P|[P|[P|P]]]; congruence.
          -- exists CPush. unfold Gorwp.step. rewrite R, F. cbn. eexists. split; [cbn; auto|reflexivity].
        * exists CTake. unfold Gorwp.step. rewrite O, F, DA. eexists. split; [cbn; auto|reflexivity].
      + exists CDisp. unfold Gorwp.step. rewrite DA, O. unfold room. rewrite T. cbn [length cap Nat.ltb Nat.leb].
        destruct op; eexists; (split; [cbn; auto|reflexivity]).
    - exists CWrite. unfold Gorwp.step. rewrite T, WA. eexists. split; [cbn; auto|reflexivity].
  Qed.

  (* No reachable state in which something is pending and no goroutine can move (as long as the context is not
     cancelled): in particular a dispatcher blocked on a full toPanel can always be unblocked by the writer. *)
  Theorem no_deadlock : forall binary b ins sched,
    let s := run (sys0 binary b ins) sched in
    s_cancel s = false -> work_pending s -> exists c s', In c internal /\ step s c = Some s'.
  Proof.
    intros. subst s. apply step_enabled_some; try assumption.
    apply (run_inv Inv_alive); [intros; eapply step_inv_alive; eauto|]. split; intros; discriminate.
  Qed.

  (* ---------------------------------------------------------------- progress measure *)
  (* the work still to be done, with the maps threaded through the remaining program exactly as [sim] does:
     a send costs 2 (put + write), everything else 1, a queued delivery 1 (take) or 2 (push + take) extra *)
  Definition w_calls (l : list (callrec * handler)) : nat :=
    fold_right (fun ch acc => (1 + 2 * length (fb_items (snd ch)) + length (h_binds (snd ch)) + acc)%nat) 0%nat l.

  Fixpoint wsim (b : bindings) (ops : list dop) : nat * bindings :=
    match ops with
    | [] => (0%nat, b)
    | DSend _ :: r => let x := wsim b r in ((2 + fst x)%nat, snd x)
    | DState _ :: r => let x := wsim b r in ((1 + fst x)%nat, snd x)
    | DCall _ :: r => let x := wsim b r in ((1 + fst x)%nat, snd x)
    | DBind rg :: r => let x := wsim (rg :: b) r in ((1 + fst x)%nat, snd x)
    | DEvent e :: r =>
      let chs := calls_of_event b e in
      let x := wsim (apply_binds b (binds_of_calls chs)) r in ((1 + w_calls chs + fst x)%nat, snd x)
    end.

  Fixpoint wq (extra : nat) (b : bindings) (q : list delivery) : nat * bindings :=
    match q with
    | [] => (0%nat, b)
    | d :: r => let x := wsim b (flat_map ops_of_msg d) in let y := wq extra (snd x) r in ((extra + fst x + fst y)%nat, snd y)
    end.

  Definition measure (s : sys) : nat :=
    let x := wsim (s_b s) (s_ops s) in
    let y := wq 1 (snd x) (s_from s) in
    let z := wq 2 (snd y) (s_rpend s) in
    (length (s_to s) + fst x + fst y + fst z)%nat.

  Lemma wsim_sends : forall (ts : list titem) b r, wsim b (map DSend ts ++ r) = ((2 * length ts + fst (wsim b r))%nat, snd (wsim b r)).
  Proof.
    induction ts as [|t ts IH]; intros; cbn [map app wsim length].
    - destruct (wsim b r). reflexivity.
    - rewrite IH. cbn [fst snd]. f_equal. lia.
  Qed.
  Lemma wsim_binds : forall (rs : list reg) b r, wsim b (map DBind rs ++ r) = ((length rs + fst (wsim (rev rs ++ b) r))%nat, snd (wsim (rev rs ++ b) r)).
  Proof.
    induction rs as [|x rs IH]; intros; cbn [map app wsim length rev].
    - destruct (wsim b r). reflexivity.
    - rewrite IH. cbn [fst snd]. rewrite <- app_assoc. cbn [app]. f_equal.
  Qed.
  Lemma wsim_calls : forall l b r,
    wsim b (ops_of_calls l ++ r) =
    ((w_calls l + fst (wsim (apply_binds b (binds_of_calls l)) r))%nat, snd (wsim (apply_binds b (binds_of_calls l)) r)).
  Proof.
    induction l as [|[c h] l IH]; intros.
    - cbn. destruct (wsim b r). reflexivity.
    - unfold ops_of_calls, binds_of_calls in *. cbn [flat_map fst snd].
      rewrite <- !app_assoc. cbn [app wsim]. rewrite <- !app_assoc. rewrite wsim_sends, wsim_binds. cbn [fst snd].
      change (rev (h_binds h) ++ b) with (apply_binds b (h_binds h)).
      rewrite IH. rewrite apply_binds_app. cbn [fst snd].
      assert (E : w_calls ((c, h) :: l) = (1 + 2 * length (fb_items h) + length (h_binds h) + w_calls l)%nat) by reflexivity.
      rewrite E. f_equal. rewrite !Nat.add_assoc. reflexivity.
  Qed.
  Lemma wq_app : forall x a c b,
    wq x b (a ++ c) = ((fst (wq x b a) + fst (wq x (snd (wq x b a)) c))%nat, snd (wq x (snd (wq x b a)) c)).
  Proof.
    induction a as [|d a IH]; intros; cbn [app wq].
    - cbn [fst snd]. destruct (wq x b c). reflexivity.
    - rewrite IH. cbn [fst snd]. f_equal. lia.
  Qed.
  Lemma wq_snd : forall x y q b, snd (wq x b q) = snd (wq y b q).
  Proof. induction q as [|d q IH]; intros; cbn [wq snd]; [reflexivity|apply IH]. Qed.

  (* every step of the three goroutines themselves strictly decreases the measure *)
  Theorem internal_step_decreases : forall s c s', In c internal -> step s c = Some s' -> (measure s' < measure s)%nat.
  Proof.
    intros s c s' IN H. unfold measure.
    destruct IN as [<-|[<-|[<-|[<-|[]]]]]; step_cases H; cbn [s_to s_ops s_from s_rpend s_b].
    - (* CWrite *) cbn [length]. lia.
    - (* DSend *) rewrite app_length. cbn [length wsim fst snd]. lia.
    - (* DState *) cbn [wsim fst snd]. lia.
    - (* DEvent *) rewrite wsim_calls. cbn [wsim fst snd]. lia.
    - (* DBind *) cbn [wsim fst snd]. lia.
    - (* DCall *) cbn [wsim fst snd]. lia.
    - (* CTake *) cbn [wsim wq fst snd]. lia.
    - (* CPush *) rewrite wq_app. cbn [wq fst snd].
      lia.
  Qed.

  (* hence: the goroutines, left to themselves under ANY order, stop after at most [measure s] steps ... *)
  Fixpoint steps_taken (s : sys) (sched : list choice) : nat :=
    match sched with
    | [] => 0
    | c :: r => match step s c with Some s' => S (steps_taken s' r) | None => steps_taken s r end
    end.

  Theorem internal_steps_bounded : forall sched s, Forall (fun c => In c internal) sched ->
    (steps_taken s sched + measure (run s sched) <= measure s)%nat.
  Proof.
    induction sched as [|c r IH]; intros s F; [cbn; lia|].
    inversion F; subst. cbn [steps_taken Gorwp.run]. destruct (step s c) as [s'|] eqn:E.
    - pose proof (internal_step_decreases _ _ _ H1 E). specialize (IH s' H2). lia.
    - apply IH; assumption.
  Qed.

  (* ... and when no step is enabled any more, everything received has been dispatched and written *)
  Definition quiescent (s : sys) : Prop := s_to s = [] /\ s_ops s = [] /\ s_from s = [] /\ s_rpend s = [].

  Lemma first_enabled_none : forall cs s, first_enabled unm dec s cs = None -> forall c, In c cs -> step s c = None.
  Proof.
    induction cs as [|c0 cs IH]; intros s H c IN; [destruct IN|].
    cbn [Gorwp.first_enabled] in H. destruct (step s c0) eqn:E; [discriminate|].
    destruct IN as [<-|IN]; [assumption|]. apply IH; assumption.
  Qed.

  Lemma first_enabled_some : forall cs s s', first_enabled unm dec s cs = Some s' -> exists c, In c cs /\ step s c = Some s'.
  Proof.
    induction cs as [|c0 cs IH]; intros s s' H; [discriminate|].
    cbn [Gorwp.first_enabled] in H. destruct (step s c0) eqn:E.
    - inversion H; subst. exists c0. split; [left; reflexivity|assumption].
    - destruct (IH _ _ H) as (c & IN & S). exists c. split; [right; assumption|assumption].
  Qed.

  Lemma step_cancel_internal : forall s c s', In c internal -> step s c = Some s' -> s_cancel s' = s_cancel s.
  Proof.
    intros s c s' IN H. destruct IN as [<-|[<-|[<-|[<-|[]]]]]; step_cases H; reflexivity.
  Qed.

  Theorem drain_reaches_quiescence : forall prio, (forall c, In c internal -> In c prio) -> (forall c, In c prio -> In c internal) ->
    forall fuel s, s_cancel s = false -> Inv_alive s -> (measure s <= fuel)%nat ->
    quiescent (drain unm dec prio fuel s).
  Proof.
    intros prio P1 P2. induction fuel as [|f IH]; intros s NC A M.
    - (* measure 0: nothing can be pending *)
      cbn [Gorwp.drain].
      destruct (s_to s) eqn:T, (s_ops s) eqn:O, (s_from s) eqn:F, (s_rpend s) eqn:R; try (repeat split; assumption);
        exfalso; destruct (step_enabled_some s NC A) as (c & s' & IN & S);
        try (unfold work_pending; rewrite ?T, ?O, ?F, ?R; auto 6; fail);
        try (pose proof (internal_step_decreases _ _ _ IN S); lia).
      all: unfold work_pending; rewrite ?T, ?O, ?F, ?R; try (left; discriminate); try (right; left; discriminate);
        try (right; right; left; discriminate); try (right; right; right; discriminate).
    - cbn [Gorwp.drain]. destruct (first_enabled unm dec s prio) as [s'|] eqn:E.
      + destruct (first_enabled_some _ _ _ E) as (c & IN & S).
        pose proof (internal_step_decreases _ _ _ (P2 _ IN) S).
        apply IH; [rewrite (step_cancel_internal _ _ _ (P2 _ IN) S); assumption|eapply step_inv_alive; eauto|lia].
      + destruct (s_to s) eqn:T, (s_ops s) eqn:O, (s_from s) eqn:F, (s_rpend s) eqn:R; try (repeat split; assumption);
          exfalso; destruct (step_enabled_some s NC A) as (c & s' & IN & S);
          try (rewrite (first_enabled_none _ _ E c (P1 _ IN)) in S; discriminate).
        all: unfold work_pending; rewrite ?T, ?O, ?F, ?R; try (left; discriminate); try (right; left; discriminate);
          try (right; right; left; discriminate); try (right; right; right; discriminate).
  Qed.

  (* ---------------------------------------------------------------- after the reader stopped *)
  Definition drained_dead (s : sys) : Prop :=
    s_rd s = RDead /\ s_rpend s = [] /\ s_from s = [] /\ s_ops s = [].

  Lemma step_drained_dead : forall s c s', drained_dead s -> step s c = Some s' ->
    drained_dead s' /\ s_trace s' = s_trace s /\ s_evlog s' = s_evlog s.
  Proof.
    intros s c s' (R & P & F & O) H. unfold drained_dead.
    destruct c; step_cases H; cbn [s_rd s_rpend s_from s_ops s_trace s_evlog]; try (repeat split; assumption); try congruence.
  Qed.

  (* once readFromPanel has returned and what it had delivered is dispatched, no handler is ever invoked again,
     whatever else happens: further input on the wire, ticks, Bind and Set calls *)
  Theorem after_break_nothing : forall sched s, drained_dead s -> s_trace (run s sched) = s_trace s /\ s_evlog (run s sched) = s_evlog s.
  Proof.
    induction sched as [|c r IH]; intros s D; [split; reflexivity|].
    cbn [Gorwp.run]. destruct (step s c) as [s'|] eqn:E; [|apply IH; assumption].
    destruct (step_drained_dead _ _ _ D E) as (D' & T & L). destruct (IH _ D') as [T' L']. split; congruence.
  Qed.

  (* ---------------------------------------------------------------- complete runs, end to end *)
  Lemma rest_of_done : forall s, quiescent s -> s_in s = [] -> rest_of s = [].
  Proof.
    intros s (T & O & F & R) IN. unfold rest_of, future_ds. rewrite O, F, R, IN. reflexivity.
  Qed.

  (* a run in which no other goroutine calls Bind* (handlers may), that has consumed its input and come to rest,
     has invoked exactly the handlers the spec demands for the deliveries of the script, in order *)
  Theorem complete_run_calls : forall binary b ins sched,
    forallb nobind_choice sched = true ->
    let s := run (sys0 binary b ins) sched in
    quiescent s -> s_in s = [] ->
    s_trace s = fst (fst (demands (rev b) (map HDeliver (all_ds binary ins)))).
  Proof.
    intros binary b ins sched Q. cbn zeta. intros QS IN.
    pose proof (calls_all_schedules binary b ins sched Q) as C. cbn zeta in C.
    rewrite (rest_of_done _ QS IN) in C. cbn [sim fst] in C. rewrite app_nil_r in C. exact C.
  Qed.

  (* ... and the panel has received exactly the acks and feedback the spec demands, in order *)
  Theorem complete_run_wire : forall binary b ins sched,
    forallb quiet_choice sched = true ->
    let s := run (sys0 binary b ins) sched in
    quiescent s -> s_in s = [] ->
    fd (s_wire s) = fd (snd (fst (demands (rev b) (map HDeliver (all_ds binary ins))))).
  Proof.
    intros binary b ins sched Q. cbn zeta. intros QS IN.
    pose proof (wire_all_schedules binary b ins sched Q) as W. cbn zeta in W.
    rewrite (rest_of_done _ QS IN) in W. destruct QS as (T & _). rewrite T in W.
    cbn [sim fst snd fd filter app] in W. rewrite app_nil_r in W. exact W.
  Qed.
End Sys.
