(* Corollaries for Props/C03.v and Props/C04.v: decode after encode, the fixed points of the
   payload flattening, and concrete non-vacuity witnesses. *)
From RP Require Import Lib.Base Lib.Sexp Lib.Strings Lib.TrimSpace Lib.FloatFmt Model.MsgOut Model.Flatten Model.EncOut
  Model.DecOut Spec.DenoteOut Spec.GrammarOut Proofs.GfxNum Proofs.OutStrings Proofs.OutEncLines
  Proofs.OutDecSkel Proofs.OutDecSound Proofs.OutEncSound.
From Coq Require Import String Permutation.
Open Scope Z_scope.

(* decoding what the encoder produced: when every emitted line is strictly readable (no empty
   value, no JSON network configuration, statistics numbers within the digits bound) the decoded
   messages report what the original messages report *)
Theorem dec_enc_out (flat flat_svg : bytes -> bytes) (np : bytes -> option bytes) ms msgs ords :
  all_some_msgs ms = Some msgs ->
  Forall (fun m => representable_outb flat flat_svg m = true) msgs ->
  orders_ok ords msgs ->
  exists ls, enc_out flat flat_svg ords ms = Ok ls /\
    (Forall (fun l => line_judgeable l = true) ls ->
     exists ms', dec_out np ls = Ok ms' /\ reports_equiv (flat_map den_out ms') (map den_out msgs)).
Proof.
  intros Hs Hrep Hord. destruct (enc_out_sound flat flat_svg ms msgs ords Hs Hrep Hord) as [ls [E [_ Hq]]].
  exists ls. split; [exact E|]. intros Hj. destruct (dec_out_sound np ls Hj) as [ms' [E1 E2]].
  exists ms'. split; [exact E1|]. rewrite E2. exact Hq.
Qed.

(* ---------------------------------------------------------------- witnesses *)
Definition demo_lines : list bytes :=
  map str ["HWC#5.2=Press"; "HWC#4294967295=Raw:123"; "map=12:3"; "_support=Registers,Foo,ASCII"; "_serverModeLockToIP=1.2.3.4;5.6.7.8";
           "SysStat=CPUTemp:-12.3:Throttled:1:CPUTemp:56.7:CPUVoltage:1.25:"; "HWCx#5=3"; "Flag#007=9"; "nack"; "not a line"; ""]%string.

Lemma demo_lines_judgeable : forallb line_judgeable demo_lines = true.
Proof. vm_compute. reflexivity. Qed.

Lemma demo_lines_reports :
  flat_map sem_out_line demo_lines =
  [REvent 5 EDown 2; REvent 5 EUp 2; REvent 4294967295 ERaw 123; RMap 12 3;
   RCaps [true; false; false; false; false; false; false; false; false; true; false; false; false];
   RList KLockIP [str "1.2.3.4"; str "5.6.7.8"];
   RSys 0 567 0 125 [0; 0; 0; 0; 0; 0; 0; 0] [false; false; false; false; false; true; false; false];
   RReg 1 (str "7") 1; RFlow 3].
Proof. vm_compute. reflexivity. Qed.
