(* Corollaries for Props/C03.v and Props/C04.v: decode after encode, the fixed points of the
   payload flattening, and concrete non-vacuity witnesses. *)
From RP Require Import Lib.Base Lib.Sexp Lib.Strings Lib.TrimSpace Lib.FloatFmt Model.MsgOut Model.Flatten Model.EncOut
  Model.DecOut Spec.DenoteOut Spec.GrammarOut Proofs.GfxNum Proofs.OutStrings Proofs.OutEncLines
  Proofs.OutDecSkel Proofs.OutDecSound Proofs.OutEncSound.
From Coq Require Import String Permutation.
Open Scope Z_scope.

(* decoding what the encoder produced: when every emitted line is strictly readable (no empty
   value, no JSON network configuration, statistics numbers within the digits bound) the decoded
   messages report what the original messages report *)
Theorem dec_enc_out (flat flat_svg : bytes -> bytes) (np : bytes -> option bytes) ms msgs ords :
  all_some_msgs ms = Some msgs ->
  Forall (fun m => representable_outb flat flat_svg m = true) msgs ->
  orders_ok ords msgs ->
  exists ls, enc_out flat flat_svg ords ms = Ok ls /\
    (Forall (fun l => line_judgeable l = true) ls ->
     exists ms', dec_out np ls = Ok ms' /\ reports_equiv (flat_map den_out ms') (map den_out msgs)).
Proof.
  intros Hs Hrep Hord. destruct (enc_out_sound flat flat_svg ms msgs ords Hs Hrep Hord) as [ls [E [_ Hq]]].
  exists ls. split; [exact E|]. intros Hj. destruct (dec_out_sound np ls Hj) as [ms' [E1 E2]].
  exists ms'. split; [exact E1|]. rewrite E2. exact Hq.
Qed.

(* a payload that is one trimmed line is left alone by stripLineBreaks *)
Lemma nolf_forallb s : has_lf s = false -> forallb (fun x => negb (x =? 10)) s = true.
Proof.
  unfold has_lf, contains_byte. induction s as [|c s IH]; intros H; [reflexivity|]. cbn [existsb] in H.
  apply orb_false_iff in H. destruct H as [Hc Hs]. cbn [forallb]. rewrite Z.eqb_sym, Hc, (IH Hs). reflexivity.
Qed.

Theorem payload_fixed_point s : text_ok s = true -> trim_space s = s -> payload_ok strip_lb s = true.
Proof.
  intros Ht Htrim. unfold payload_ok. rewrite Ht, andb_true_r. apply beqb_eq.
  unfold text_ok in Ht. apply negb_true_iff in Ht.
  unfold strip_lb. rewrite (split_on_nosep 10 s (nolf_forallb s Ht)). cbn [map List.concat]. rewrite app_nil_r. exact Htrim.
Qed.

(* ---------------------------------------------------------------- witnesses *)
Definition demo_msg : out_msg :=
  mkMsg 2 [(7, 1); (300, 0); (4294967295, 65535)]
    (Some (mkPI (str "SK_RCPV2") (str "123456") (str "Panel A") (str "v1.2.3") [] true 4 [str "10.0.0.1"; str "fe80::1"] 1
                (Some [true; true; false; false; false; true; false; true; false; true; false; false; true])))
    (Some (str "<svg><g/></svg>", str "{""HWc"":[]}")) (Some (str "{}")) None None None (Some 300) (Some true) (Some 3000) (Some 50)
    (Some [str "192.168.10.99:54321"]) (Some (12, 0, 99, 4294967295)) None (Some (str "Hello = world"))
    (Some 1) (Some (mkSS 17 1112014848 3212836864 1067030938 [1500; 600; -2147483648; 2147483647; 0; 1; -1; 42]
                         [true; false; true; false; false; false; true; true]))
    [Some (mkEv 5 0 (Some (mkBin true 4)) None None None None);
     Some (mkEv 4294967295 0 None (Some (-2147483648)) None None None);
     Some (mkEv 6 0 None None (Some (4294967295, 0)) None None);
     Some (mkEv 7 0 None None None (Some (-1, 0)) None);
     Some (mkEv 8 0 None None None None (Some 123))]
    [Some (mkReg 0 (str "A1") 5); Some (mkReg 1 (str "12") 1); Some (mkReg 3 [] 4294967295)].

Lemma demo_msg_representable : representable_outb strip_lb strip_lb_svg demo_msg = true.
Proof. vm_compute. reflexivity. Qed.

Definition demo_lines : list bytes :=
  map str ["HWC#5.2=Press"; "HWC#4294967295=Raw:123"; "map=12:3"; "_support=Registers,Foo,ASCII"; "_serverModeLockToIP=1.2.3.4;5.6.7.8";
           "SysStat=CPUTemp:-12.3:Throttled:1:CPUTemp:56.7:CPUVoltage:1.25:"; "HWCx#5=3"; "Flag#007=9"; "nack"; "not a line"; ""]%string.

Lemma demo_lines_judgeable : forallb line_judgeable demo_lines = true.
Proof. vm_compute. reflexivity. Qed.

Lemma demo_lines_reports :
  flat_map sem_out_line demo_lines =
  [REvent 5 EDown 2; REvent 5 EUp 2; REvent 4294967295 ERaw 123; RMap 12 3;
   RCaps [true; false; false; false; false; false; false; false; false; true; false; false; false];
   RList KLockIP [str "1.2.3.4"; str "5.6.7.8"];
   RSys 0 567 0 125 [0; 0; 0; 0; 0; 0; 0; 0] [false; false; false; false; false; true; false; false];
   RReg 1 (str "7") 1; RFlow 3].
Proof. vm_compute. reflexivity. Qed.
