(* C02, part 2: every well-formed line (reference reader) is decoded into messages that mean
   exactly the effects the reader assigns to the line; a line that is not of the grammar is
   decoded into a message without any meaning. *)
From RP Require Import Lib.Base Lib.Sexp Lib.Strings Model.Gfx Model.MsgIn Model.DecIn
  Spec.DenoteIn Spec.GrammarIn Proofs.GfxNum Proofs.StringsProofs Proofs.InBits Proofs.InEncLines Proofs.InEncText Proofs.InDecLines.
From Coq Require Import String ZifyBool.
Open Scope string_scope.
Open Scope list_scope.
Open Scope Z_scope.

Definition equiv (a b : list effect) : Prop := forall p, apply_effs p a = apply_effs p b.
Lemma equiv_refl a : equiv a a.
Proof. intros p. reflexivity. Qed.

Lemma den_state_msg s : den_msgs [state_msg s] = den_state s.
Proof. unfold den_msgs, den_in, state_msg. cbn. rewrite !app_nil_r. reflexivity. Qed.
Lemma den_cmd_msg c : den_msgs [cmd_msg c] = den_cmd c.
Proof. unfold den_msgs, den_in, cmd_msg. cbn. rewrite !app_nil_r. reflexivity. Qed.
Lemma den_reg_msg k id v : den_msgs [reg_msg k id v] = den_reg (mkReg k id v).
Proof. unfold den_msgs, den_in, reg_msg. cbn. rewrite !app_nil_r. reflexivity. Qed.

(* a state record carrying exactly one update *)
Lemma den_state_one ids s u : s_ids s = ids -> state_upds s = [u] -> equiv (den_state s) [EState ids u].
Proof.
  intros Hi Hu p. unfold den_state. rewrite Hi, Hu. cbn [map].
  rewrite apply_state_ids. reflexivity.
Qed.

Lemma nolf_no_lf s : nolf s = true -> no_lf s = true.
Proof.
  unfold no_lf, contains_byte. intros H. rewrite (nolf_existsb s H). reflexivity.
Qed.

Section DecSound.
  Variable js : list Z -> HWCState.
  Variable jm : list Z -> list (option InboundMessage).
  Variable ncp : list Z -> option (list Z).
  Notation dline := (dec_line js jm ncp).
  Notation in_rd := (in_read js jm ncp).

  Definition line_ok (st : gstate) (l : list Z) (es : list effect) : Prop :=
    exists ms, dline st l = Ok (st, ms) /\ equiv (den_msgs ms) es.

  (* ---------------------------------------------------------------- regex_cmd family *)
  Definition kind_ok (kw : string) (val : list Z -> option upd) : Prop :=
    forall whole idtext ids v u, rd_ids idtext = Some ids -> val v = Some u -> nolf v = true ->
      exists ms, dec_cmd_line [whole; str kw; idtext; v] = Ok ms /\ equiv (den_msgs ms) [EState ids u].

  Lemma state_line_dec kw val st rest e :
    (exists c pre', str kw = c :: pre' /\ (c =? 123) = false /\ (c =? 91) = false) ->
    words_clash (str kw) = true -> kw_lookup cmd_kws (str kw) = Some (str kw, []) ->
    kind_ok kw val -> nolf rest = true ->
    rd_state_line val rest = Some e ->
    exists es, e = LEffs es /\ line_ok st (str kw ++ rest) es.
  Proof.
    intros (c & pre' & Ekw & C1 & C2) W K KO N H. unfold rd_state_line in H.
    destruct (cut_at 61 rest) as [[idtext v]|] eqn:EC; [|discriminate].
    destruct (rd_ids idtext) as [ids|] eqn:EI; [|discriminate].
    destruct (val v) as [u|] eqn:EV; [|discriminate]. inversion H; subst e. eexists. split; [reflexivity|].
    apply cut_at_spec in EC. destruct EC as [-> _].
    rewrite nolf_app in N. apply andb_true_iff in N. destruct N as [_ Nv]. cbn [nolf forallb] in Nv.
    apply andb_true_iff in Nv. destruct Nv as [_ Nv]. fold (nolf v) in Nv.
    destruct (rd_ids_chars _ _ EI) as [Hch Hne].
    unfold line_ok. rewrite Ekw in *.
    rewrite (dec_line_prefixed js jm ncp st c pre' _ W C1 C2). cbv zeta.
    unfold m_cmd. change (match_kw _ ?x) with (match_kw cmd_kws x).
    rewrite (match_kw_lookup _ _ _ _ _ K). cbn [app obind].
    rewrite (span_listch _ _ Hch). destruct idtext as [|i0 it]; [congruence|].
    cbn [expect]. rewrite Z.eqb_refl. cbn [obind]. rewrite (nolf_no_lf v Nv).
    match goal with |- context [dec_cmd_line [?w; _; _; _]] =>
      destruct (KO w (i0 :: it) ids v u EI EV Nv) as (ms & HD & Q) end.
    rewrite <- Ekw. rewrite HD.
    cbn [bind]. exists ms. split; [reflexivity|exact Q].
  Qed.

  Lemma mode_kind : kind_ok "HWC#" val_mode.
  Proof.
    intros whole idtext ids v u HI HV N. unfold val_mode in HV.
    destruct (rd_nat_lt two63 v) as [n|] eqn:E; [|discriminate]. inversion HV; subst u.
    apply rd_nat_lt_atoi in E; [|lia]. destruct E as (EA & R & _).
    eexists. split; [reflexivity|]. rewrite den_state_msg, (int_explode_ids _ _ HI), EA.
    apply den_state_one; [reflexivity|]. unfold state_upds. cbn [s_mode s_color s_ext s_text s_gfx s_adc app]. f_equal.
    unfold dec_mode. cbn [m_state m_output m_blink]. f_equal.
    - change 15 with (Z.ones 4). apply land_bits0. lia.
    - apply land32.
    - change 15 with (Z.ones 4). apply land_ones_bits; lia.
  Qed.

  Lemma ext_kind : kind_ok "HWCx#" val_ext.
  Proof.
    intros whole idtext ids v u HI HV N. unfold val_ext in HV.
    destruct (rd_nat_lt two63 v) as [n|] eqn:E; [|discriminate]. inversion HV; subst u.
    apply rd_nat_lt_atoi in E; [|lia]. destruct E as (EA & R & _).
    eexists. split; [reflexivity|]. rewrite den_state_msg, (int_explode_ids _ _ HI), EA.
    apply den_state_one; [reflexivity|]. unfold state_upds. cbn [s_mode s_color s_ext s_text s_gfx s_adc app]. f_equal.
    unfold dec_ext. cbn [x_interp x_value]. f_equal.
    - change 15 with (Z.ones 4). apply land_ones_bits; lia.
    - change 4095 with (Z.ones 12). apply land_bits0. lia.
  Qed.

  Lemma adc_kind : kind_ok "HWCrawADCValues#" val_adc.
  Proof.
    intros whole idtext ids v u HI HV N. unfold val_adc in HV.
    destruct (rd_nat_lt two63 v) as [n|] eqn:E; [|discriminate]. inversion HV; subst u.
    apply rd_nat_lt_atoi in E; [|lia]. destruct E as (EA & R & _).
    eexists. split; [reflexivity|]. rewrite den_state_msg, (int_explode_ids _ _ HI), EA.
    apply den_state_one; reflexivity.
  Qed.

  (* 2-bit channel -> 0/85/170/255 -> back to 2 bits *)
  Lemma rgb_of_bits_den n : den_rgb (rgb_of_bits n) = CRgb (bits n 4 2) (bits n 2 2) (bits n 0 2).
  Proof.
    unfold rgb_of_bits, den_rgb. cbn [cr_red cr_green cr_blue].
    change 3 with (Z.ones 2). rewrite !land_ones_bits by lia. rewrite land_bits0 by lia.
    pose proof (bits_range n 4 2 ltac:(lia)). pose proof (bits_range n 2 2 ltac:(lia)). pose proof (bits_range n 0 2 ltac:(lia)).
    change (2 ^ 2) with 4 in *.
    rewrite (proj1 (unquant2_q2 (bits n 4 2) ltac:(lia))), (proj1 (unquant2_q2 (bits n 2 2) ltac:(lia))),
            (proj1 (unquant2_q2 (bits n 0 2) ltac:(lia))). reflexivity.
  Qed.

  Lemma colour_kind : kind_ok "HWCc#" val_colour.
  Proof.
    intros whole idtext ids v u HI HV N. unfold val_colour in HV.
    destruct (rd_nat_lt two63 v) as [n|] eqn:E; [|discriminate]. inversion HV; subst u.
    apply rd_nat_lt_atoi in E; [|lia]. destruct E as (EA & R & _).
    eexists. split; [reflexivity|]. rewrite den_state_msg, (int_explode_ids _ _ HI), EA.
    apply den_state_one; [reflexivity|]. unfold state_upds. cbn [s_mode s_color s_ext s_text s_gfx s_adc app].
    unfold color_struct. rewrite land64. destruct (bits n 6 1 =? 1).
    - unfold den_hwccolor. cbn [c_rgb c_index app]. rewrite rgb_of_bits_den. reflexivity.
    - unfold den_hwccolor. cbn [c_rgb c_index app]. change 31 with (Z.ones 5). rewrite land_bits0 by lia. reflexivity.
  Qed.
End DecSound.

(* ---------------------------------------------------------------- HWCt# *)
Lemma atoi_nil : atoi [] = 0.
Proof. reflexivity. Qed.

Lemma ivs_fld fs k : ivs fs k = fld fs k.
Proof.
  unfold ivs, fld. revert k. induction fs as [|f r IH]; intros [|k]; cbn [nth_error nth]; try reflexivity. apply IH.
Qed.
Lemma ivi_fld fs k : ivi fs k = atoi (fld fs k).
Proof.
  unfold ivi, fld. revert k. induction fs as [|f r IH]; intros [|k]; cbn [nth_error nth]; try reflexivity. apply IH.
Qed.

Lemma num_fld_atoi fs k v : num_fld fs k = Some v -> ivi fs k = v /\ 0 <= v < two31.
Proof.
  rewrite ivi_fld. unfold num_fld. destruct (fld fs k) as [|c r] eqn:E.
  - intros H. inversion H. unfold two31. split; [reflexivity|lia].
  - intros H. apply rd_nat_lt_atoi in H; [|unfold two31, two63; lia]. tauto.
Qed.
Lemma int_fld_atoi fs k v : int_fld fs k = Some v -> ivi fs k = v /\ - two31 <= v < two31.
Proof.
  rewrite ivi_fld. unfold int_fld. destruct (fld fs k) as [|c r] eqn:E.
  - intros H. inversion H. unfold two31. split; [reflexivity|lia].
  - unfold rd_int32. intros H. destruct (rd_int (c :: r)) as [w|] eqn:R; [|discriminate].
    destruct ((- two31 <=? w) && (w <? two31)) eqn:B; [|discriminate]. inversion H; subst w.
    split; [|lia]. apply rd_int_atoi; [exact R|unfold two31, two63 in *; lia].
Qed.

Lemma sint32_id v : - two31 <= v < two31 -> sint32 v = v.
Proof.
  unfold two31, sint32. intros H. destruct (Z_lt_le_dec v 0).
  - replace (v mod 4294967296) with (v + 4294967296).
    + destruct (v + 4294967296 <? 2147483648) eqn:E; lia.
    + apply (Z.mod_unique _ _ (-1)); lia.
  - rewrite Z.mod_small by lia. destruct (v <? 2147483648) eqn:E; lia.
Qed.
Lemma wrap32_small v : 0 <= v < two32 -> wrap32 v = v.
Proof. unfold wrap32, two32. intros. apply Z.mod_small. lia. Qed.

Lemma text_colour_struct v : 0 <= v ->
  den_textcolor (if v >? 0 then Some (color_struct v) else None) = text_colour v.
Proof.
  intros H. unfold text_colour. destruct (v >? 0) eqn:E.
  - destruct (v =? 0) eqn:E0; [lia|]. unfold color_struct. rewrite land64. destruct (bits v 6 1 =? 1).
    + unfold den_textcolor. cbn [c_rgb c_index]. rewrite rgb_of_bits_den. reflexivity.
    + unfold den_textcolor. cbn [c_rgb c_index]. change 31 with (Z.ones 5). rewrite land_bits0 by lia. reflexivity.
  - assert (v = 0) by lia. subst. reflexivity.
Qed.

Lemma text_is_empty_scale t : text_is_empty t = true -> t_scale t = None.
Proof.
  unfold text_is_empty. intros H. repeat (apply andb_true_iff in H; destruct H as [H ?]).
  destruct (t_scale t); [discriminate|reflexivity].
Qed.

Lemma dec_text_sound fs t : rd_text fs = Some t -> norm_text (dec_text fs) = t /\ text_is_empty (dec_text fs) = false.
Proof.
  intros H. split.
  2:{ destruct (text_is_empty (dec_text fs)) eqn:E; [|reflexivity]. apply text_is_empty_scale in E. discriminate. }
  unfold rd_text in H. destruct (21 <? Z.of_nat (List.length fs)); [discriminate|].
  destruct (num_fld fs 1) as [f1|] eqn:E1; [|discriminate].
  destruct (num_fld fs 2) as [icons|] eqn:E2; [|discriminate].
  destruct (num_fld fs 4) as [islabel|] eqn:E4; [|discriminate].
  destruct (int_fld fs 7) as [v2|] eqn:E7; [|discriminate].
  destruct (num_fld fs 8) as [p8|] eqn:E8; [|discriminate].
  destruct (num_fld fs 9) as [sct|] eqn:E9; [|discriminate].
  destruct (int_fld fs 10) as [rlo|] eqn:E10; [|discriminate].
  destruct (int_fld fs 11) as [rhi|] eqn:E11; [|discriminate].
  destruct (int_fld fs 12) as [llo|] eqn:E12; [|discriminate].
  destruct (int_fld fs 13) as [lhi|] eqn:E13; [|discriminate].
  destruct (num_fld fs 15) as [faces|] eqn:E15; [|discriminate].
  destruct (num_fld fs 16) as [sizes|] eqn:E16; [|discriminate].
  destruct (num_fld fs 17) as [adv|] eqn:E17; [|discriminate].
  destruct (num_fld fs 18) as [inv|] eqn:E18; [|discriminate].
  destruct (num_fld fs 19) as [pix|] eqn:E19; [|discriminate].
  destruct (num_fld fs 20) as [bg|] eqn:E20; [|discriminate].
  apply num_fld_atoi in E1, E2, E4, E8, E9, E15, E16, E17, E18, E19, E20.
  apply int_fld_atoi in E7, E10, E11, E12, E13.
  destruct E1 as [A1 R1], E2 as [A2 R2], E4 as [A4 R4], E8 as [A8 R8], E9 as [A9 R9], E15 as [A15 R15],
    E16 as [A16 R16], E17 as [A17 R17], E18 as [A18 R18], E19 as [A19 R19], E20 as [A20 R20].
  destruct E7 as [A7 R7], E10 as [A10 R10], E11 as [A11 R11], E12 as [A12 R12], E13 as [A13 R13].
  set (fmt := if nilb (fld fs 0) && (f1 =? 0) then 7 else f1) in *.
  assert (SZ : fmt_is_size fmt = true -> fmt = f1 /\ ((f1 =? 10) || (f1 =? 11)) = true).
  { unfold fmt, fmt_is_size. destruct (nilb (fld fs 0) && (f1 =? 0)); [discriminate|]. tauto. }
  assert (NSZ : fmt_is_size fmt = false -> ((f1 =? 10) || (f1 =? 11)) = false \/ fmt = 7).
  { unfold fmt, fmt_is_size. destruct (nilb (fld fs 0) && (f1 =? 0)); [right; reflexivity|]. left. assumption. }
  destruct (if fmt_is_size fmt then match fld fs 0 with [] => Some 0 | z :: l => rd_nat_lt two32 (z :: l) end else int_fld fs 0)
    as [v0|] eqn:E0; [|discriminate].
  assert (A0 : ivi fs 0 = v0 /\ (if fmt_is_size fmt then 0 <= v0 < two32 else - two31 <= v0 < two31)).
  { destruct (fmt_is_size fmt).
    - rewrite ivi_fld. destruct (fld fs 0) as [|c r] eqn:F0.
      + inversion E0. unfold two32. split; [reflexivity|lia].
      + apply rd_nat_lt_atoi in E0; [|unfold two32, two63; lia]. tauto.
    - apply int_fld_atoi. exact E0. }
  destruct A0 as [A0 R0]. clear E0.
  inversion H; subst t; clear H.
  assert (G : Some (norm_text (dec_text fs)) = Some
    (mkNT fmt (if (fmt =? 7) || fmt_is_size fmt then None else Some v0) (if fmt_is_size fmt then Some v0 else None)
          (bits icons 0 2) (bits icons 3 3) (fld fs 3) ((islabel =? 0) && negb (nilb (fld fs 3)) && negb (fmt_is_size fmt))
          (fld fs 5) (fld fs 6) v2
          (if fmt_is_size fmt then 0 else if (negb (nilb (fld fs 6)) || negb (nilb (fld fs 7))) && (p8 =? 0) then 1 else p8)
          (if sct >? 0 then Some (sct, rlo, rhi, llo, lhi) else None)
          (bits faces 0 3) (bits sizes 0 2) (bits sizes 2 2) (bits faces 3 3) (bits sizes 4 2) (bits sizes 6 2)
          (bits faces 6 1 =? 1) (bits adv 0 2) (bits adv 2 3) (inv >? 0) (text_colour pix) (text_colour bg)));
    [|inversion G; reflexivity].
  unfold norm_text, dec_text. cbv zeta.
  rewrite !ivs_fld, A0, A1, A2, A4, A7, A8, A9, A10, A11, A12, A13, A15, A16, A17, A18, A19, A20.
  cbn [t_int t_fmt t_sicon t_micon t_title t_solid t_l1 t_l2 t_int2 t_pair t_scale t_style t_inv t_pix t_bg
       ts_titlefont ts_textfont ts_fixed ts_padding ts_spacing ts_ufs f_face f_height f_width font_or_zero
       sc_type sc_rlo sc_rhi sc_llo sc_lhi].
  rewrite (sint32_id f1) by (unfold two31 in *; lia). fold fmt.
  change ((fmt =? 10) || (fmt =? 11)) with (fmt_is_size fmt).
  rewrite !(sint32_id v2), (sint32_id sct), (sint32_id rlo), (sint32_id rhi), (sint32_id llo), (sint32_id lhi), (sint32_id p8)
    by (unfold two31 in *; lia).
  assert (V7 : nilb (fld fs 7) = true -> v2 = 0).
  { intros N7. rewrite <- A7, ivi_fld. destruct (fld fs 7); [reflexivity|discriminate]. }
  apply mkNT_eq.
  - reflexivity.
  - destruct (fmt =? 7) eqn:E7; [reflexivity|]. destruct (fmt_is_size fmt) eqn:ES; [reflexivity|]. cbn [orb].
    destruct (NSZ eq_refl) as [NS|F7]; [|lia]. rewrite NS. change (wrap32 0 >? 0) with false. cbv iota.
    rewrite sint32_id by exact R0. reflexivity.
  - destruct (fmt_is_size fmt) eqn:ES; [|reflexivity]. destruct (SZ eq_refl) as [_ ->].
    rewrite wrap32_small by exact R0. reflexivity.
  - change 3 with (Z.ones 2). apply land_bits0. lia.
  - change 7 with (Z.ones 3). apply land_ones_bits; lia.
  - reflexivity.
  - destruct (nilb (fld fs 3)), (fmt_is_size fmt), (islabel =? 0); reflexivity.
  - reflexivity.
  - reflexivity.
  - reflexivity.
  - destruct (fmt_is_size fmt); [reflexivity|].
    destruct (nilb (fld fs 6)) eqn:N6, (nilb (fld fs 7)) eqn:N7; cbn [negb orb andb].
    + rewrite (V7 eq_refl). cbn [Z.eqb negb andb]. reflexivity.
    + rewrite sint32_id by (unfold two31 in *; destruct (p8 >? 0); lia).
      destruct (v2 =? 0); cbn [negb andb]; destruct (p8 >? 0) eqn:P, (p8 =? 0) eqn:P0; try lia;
      try reflexivity; destruct (p8 <=? 0) eqn:P1; try lia; reflexivity.
    + rewrite sint32_id by (unfold two31 in *; destruct (p8 >? 0); lia).
      destruct (p8 >? 0) eqn:P, (p8 =? 0) eqn:P0; try lia; try reflexivity; destruct (p8 <=? 0) eqn:P1; try lia; reflexivity.
    + rewrite sint32_id by (unfold two31 in *; destruct (p8 >? 0); lia).
      destruct (p8 >? 0) eqn:P, (p8 =? 0) eqn:P0; try lia; try reflexivity; destruct (p8 <=? 0) eqn:P1; try lia; reflexivity.
  - reflexivity.
  - change 7 with (Z.ones 3). apply land_bits0. lia.
  - change 3 with (Z.ones 2). apply land_bits0. lia.
  - change 3 with (Z.ones 2). apply land_ones_bits; lia.
  - change 7 with (Z.ones 3). apply land_ones_bits; lia.
  - change 3 with (Z.ones 2). apply land_ones_bits; lia.
  - change 3 with (Z.ones 2). apply land_ones_bits; lia.
  - apply land_shr6_1.
  - change 3 with (Z.ones 2). apply land_bits0. lia.
  - change 7 with (Z.ones 3). apply land_ones_bits; lia.
  - reflexivity.
  - apply text_colour_struct. lia.
  - apply text_colour_struct. lia.
Qed.

Lemma text_kind : kind_ok "HWCt#" val_text.
Proof.
  intros whole idtext ids v u HI HV N. unfold val_text in HV.
  destruct (rd_text (fields 124 v)) as [t|] eqn:E; [|discriminate]. inversion HV; subst u.
  destruct (dec_text_sound _ _ E) as [NT NE].
  eexists. split; [reflexivity|]. rewrite den_state_msg, (int_explode_ids _ _ HI), split_on_fields.
  apply den_state_one; [reflexivity|]. unfold state_upds. cbn [s_mode s_color s_ext s_text s_gfx s_adc app].
  rewrite NE, NT. reflexivity.
Qed.
