(* UTF-8 decoding facts needed by the flattening proofs: a decoding step consumes between 1 and
   length-many bytes, and never looks past a byte that is not a continuation byte. *)
From RP Require Import Lib.Base Lib.Utf8 Lib.TrimSpace.
From Coq Require Import ZifyBool.
Open Scope Z_scope.
Open Scope list_scope.

Definition starts_clean (b : list Z) : Prop := match b with [] => True | c :: _ => is_cont c = false end.

Ltac split_ifs :=
  repeat match goal with
         | |- context [if ?c then _ else _] => destruct c eqn:?
         end.

Lemma decode_rune_len s : s <> [] -> (1 <= snd (decode_rune s) <= length s)%nat.
Proof.
  destruct s as [|c0 r]; [congruence|]. intros _. unfold decode_rune.
  destruct r as [|c1 [|c2 [|c3 r']]]; split_ifs; cbn [snd length]; lia.
Qed.

Lemma decode_rune_app a b : a <> [] -> starts_clean b -> decode_rune (a ++ b) = decode_rune a.
Proof.
  destruct a as [|c0 a']; [congruence|]. intros _ Hb. unfold decode_rune.
  destruct a' as [|c1 [|c2 [|c3 a'']]]; destruct b as [|b0 [|b1 [|b2 b']]]; cbn [app]; cbn [starts_clean] in Hb;
    cbv beta iota zeta; try reflexivity;
  (destruct (c0 =? 224) eqn:E224; destruct (c0 =? 237) eqn:E237; destruct (c0 =? 240) eqn:E240;
    destruct (c0 =? 244) eqn:E244; try lia; cbv beta iota zeta;
   unfold is_cont in *; split_ifs; try reflexivity; exfalso; lia).
Qed.
