(* Monotonicity of the float64 model of Lib/FloatTile.v: rnd53 (round to nearest, ties to
   even, 53-bit significand) is monotone on rationals; hence the scale-bar position
   int(float64(a)/float64(b)*float64(w)) is monotone in a.  Fractions (n, d), d > 0, are
   compared by cross-multiplication. *)
From RP Require Import Lib.Base Lib.Sexp Lib.FloatTile.
From Coq Require Import ZifyBool.

Definition fle (x y : fr) : Prop := fst x * snd y <= fst y * snd x.
Definition fpos (x : fr) : Prop := 0 < snd x.

(* ---- round half even ---- *)
Definition RHE (m A D : Z) : Prop :=
  (2 * m - 1) * D <= 2 * A <= (2 * m + 1) * D /\
  (2 * A = (2 * m + 1) * D -> Z.even m = true) /\
  (2 * A = (2 * m - 1) * D -> Z.even m = true).

Lemma rhe_spec A D : 0 < D -> RHE (rhe A D) A D.
Proof.
  intros HD. unfold rhe, RHE.
  pose proof (Z.div_mod A D ltac:(lia)) as E. pose proof (Z.mod_pos_bound A D HD) as B.
  set (q := A / D) in *. set (r := A mod D) in *.
  destruct (Z.ltb_spec (2 * r) D) as [H1|H1].
  - split; [nia|]. split; intros; exfalso; nia.
  - destruct (Z.gtb_spec (2 * r) D) as [H2|H2].
    + split; [nia|]. split; intros; exfalso; nia.
    + assert (H3 : 2 * r = D) by lia.
      destruct (Z.even q) eqn:Ev.
      * split; [nia|]. split; intros; [exact Ev | exfalso; nia].
      * split; [nia|]. split; intros; [exfalso; nia|].
        rewrite Z.add_1_r, Z.even_succ, <- Z.negb_even, Ev. reflexivity.
Qed.

Lemma even_not_succ m1 m2 : Z.even m1 = true -> Z.even m2 = true -> m1 = m2 + 1 -> False.
Proof.
  intros E1 E2 ->. rewrite Z.add_1_r, Z.even_succ, <- Z.negb_even, E2 in E1. discriminate.
Qed.

Lemma RHE_mono m1 m2 A1 D1 A2 D2 :
  0 < D1 -> 0 < D2 -> RHE m1 A1 D1 -> RHE m2 A2 D2 -> A1 * D2 <= A2 * D1 -> m1 <= m2.
Proof.
  intros HD1 HD2 ((L1 & U1) & T1u & T1l) ((L2 & U2) & T2u & T2l) Hle.
  destruct (Z_le_gt_dec m1 m2) as [|Hgt]; auto. exfalso.
  assert (HDD : 0 < D1 * D2) by nia.
  (* (2m1-1) D1 D2 <= 2 A1 D2 <= 2 A2 D1 <= (2m2+1) D1 D2 *)
  assert (C1 : (2 * m1 - 1) * (D1 * D2) <= 2 * A1 * D2) by nia.
  assert (C2 : 2 * A2 * D1 <= (2 * m2 + 1) * (D1 * D2)) by nia.
  assert (C3 : (2 * m1 - 1) * (D1 * D2) <= (2 * m2 + 1) * (D1 * D2)) by lia.
  assert (C4 : 2 * m1 - 1 <= 2 * m2 + 1) by nia.
  assert (Em : m1 = m2 + 1) by lia.
  assert (E1 : 2 * A1 * D2 = (2 * m1 - 1) * (D1 * D2)) by nia.
  assert (E2 : 2 * A2 * D1 = (2 * m2 + 1) * (D1 * D2)) by nia.
  assert (E1' : 2 * A1 = (2 * m1 - 1) * D1) by nia.
  assert (E2' : 2 * A2 = (2 * m2 + 1) * D2) by nia.
  exact (even_not_succ m1 m2 (T1l E1') (T2u E2') Em).
Qed.

Lemma RHE_scale m A D c : 0 < c -> RHE m A D -> RHE m (A * c) (D * c).
Proof.
  intros Hc ((L & U) & Tu & Tl). split; [nia|]. split; intros E; [apply Tu | apply Tl]; nia.
Qed.

(* ---- exponents: everything scaled by 2^K with K + e >= 0 ---- *)
Lemma pow2_pos k : 0 < 2 ^ k \/ k < 0.
Proof. destruct (Z_lt_le_dec k 0); [right; lia | left; apply Z.pow_pos_nonneg; lia]. Qed.

Lemma pow2_gt0 k : 0 <= k -> 0 < 2 ^ k.
Proof. intros; apply Z.pow_pos_nonneg; lia. Qed.

(* the sign-split comparisons of FloatTile are comparisons scaled by 2^K *)
Lemma scaled_le c a d e K : 0 <= K -> 0 <= K + e ->
  ((if e <? 0 then c * d <= a * 2 ^ (- e) else c * d * 2 ^ e <= a) <-> c * d * 2 ^ (K + e) <= a * 2 ^ K).
Proof.
  intros HK HKe. destruct (Z.ltb_spec e 0).
  - replace K with ((K + e) + (- e)) at 2 by lia. rewrite (Z.pow_add_r 2 (K + e) (- e)) by lia.
    pose proof (pow2_gt0 (K + e) HKe) as HG.
    replace (a * (2 ^ (K + e) * 2 ^ (- e))) with (a * 2 ^ (- e) * 2 ^ (K + e)) by ring.
    apply Z.mul_le_mono_pos_r; exact HG.
  - rewrite Z.pow_add_r by lia. pose proof (pow2_gt0 K HK) as HG.
    replace (c * d * (2 ^ K * 2 ^ e)) with (c * d * 2 ^ e * 2 ^ K) by ring.
    apply Z.mul_le_mono_pos_r; exact HG.
Qed.

Lemma scaled_lt c a d e K : 0 <= K -> 0 <= K + e ->
  ((if e <? 0 then a * 2 ^ (- e) < c * d else a < c * d * 2 ^ e) <-> a * 2 ^ K < c * d * 2 ^ (K + e)).
Proof.
  intros HK HKe. destruct (Z.ltb_spec e 0).
  - replace K with ((K + e) + (- e)) at 1 by lia. rewrite (Z.pow_add_r 2 (K + e) (- e)) by lia.
    pose proof (pow2_gt0 (K + e) HKe) as HG.
    replace (a * (2 ^ (K + e) * 2 ^ (- e))) with (a * 2 ^ (- e) * 2 ^ (K + e)) by ring.
    apply Z.mul_lt_mono_pos_r; exact HG.
  - rewrite Z.pow_add_r by lia. pose proof (pow2_gt0 K HK) as HG.
    replace (c * d * (2 ^ K * 2 ^ e)) with (c * d * 2 ^ e * 2 ^ K) by ring.
    apply Z.mul_lt_mono_pos_r; exact HG.
Qed.

(* a/d lies in the binade of exponent e: 2^52 <= a/d/2^e < 2^53 *)
Definition in_binade (a d e K : Z) : Prop :=
  2 ^ 52 * d * 2 ^ (K + e) <= a * 2 ^ K < 2 ^ 53 * d * 2 ^ (K + e).

Lemma ge52_iff a d e K : 0 <= K -> 0 <= K + e ->
  (ge52 a d e = true <-> 2 ^ 52 * d * 2 ^ (K + e) <= a * 2 ^ K).
Proof.
  intros HK HKe. rewrite <- (scaled_le (2 ^ 52) a d e K HK HKe). unfold ge52.
  destruct (e <? 0); rewrite Z.leb_le; reflexivity.
Qed.

Lemma expo_spec a d K :
  0 < a -> 0 < d -> 0 <= K -> 0 <= K + (expo a d) - 1 ->
  in_binade a d (expo a d) K.
Proof.
  intros Ha Hd HK HKe.
  destruct (Z.log2_spec a Ha) as [La Ua]. destruct (Z.log2_spec d Hd) as [Ld Ud].
  pose proof (Z.log2_nonneg a) as Na. pose proof (Z.log2_nonneg d) as Nd.
  set (la := Z.log2 a) in *. set (ld := Z.log2 d) in *.
  rewrite Z.pow_succ_r in Ua, Ud by lia.
  set (p := 2 ^ la) in *. set (q := 2 ^ ld) in *.
  assert (Hp : 0 < p) by (apply pow2_gt0; lia). assert (Hq : 0 < q) by (apply pow2_gt0; lia).
  unfold expo in *. fold la ld in HKe |- *.
  set (e0 := la - ld - 52) in *.
  (* relate 2^(K+e0) and 2^K through p and q: 2^(K+e0) * q * 2^52 = 2^K * p *)
  assert (Rel : forall e, e = e0 \/ e = e0 - 1 -> 0 <= K + e ->
            2 ^ (K + e) * q * 2 ^ 52 * (if e =? e0 then 1 else 2) = 2 ^ K * p).
  { intros e He HKe'. unfold p, q.
    destruct He as [-> | ->].
    - rewrite Z.eqb_refl. rewrite <- !Z.pow_add_r by lia. rewrite Z.mul_1_r. f_equal. unfold e0. lia.
    - destruct (Z.eqb_spec (e0 - 1) e0); [lia|].
      change 2 with (2 ^ 1) at 4. rewrite <- !Z.pow_add_r by lia. f_equal. unfold e0. lia. }
  destruct (ge52 a d e0) eqn:G.
  - assert (HKe0 : 0 <= K + e0) by lia.
    apply (ge52_iff a d e0 K HK HKe0) in G.
    specialize (Rel e0 (or_introl eq_refl) HKe0). rewrite Z.eqb_refl in Rel.
    unfold in_binade. split; [exact G|].
    pose proof (pow2_gt0 (K + e0) HKe0) as HG. pose proof (pow2_gt0 K HK) as HGK.
    change (2 ^ 53) with (2 * 2 ^ 52). nia.
  - assert (HKe1 : 0 <= K + (e0 - 1)) by lia.
    assert (HKe0 : 0 <= K + e0) by lia.
    assert (G' : ~ 2 ^ 52 * d * 2 ^ (K + e0) <= a * 2 ^ K).
    { intros C. apply (ge52_iff a d e0 K HK HKe0) in C. congruence. }
    pose proof (Rel e0 (or_introl eq_refl) HKe0) as R0. rewrite Z.eqb_refl in R0.
    pose proof (Rel (e0 - 1) (or_intror eq_refl) HKe1) as R1.
    destruct (Z.eqb_spec (e0 - 1) e0); [lia|].
    assert (Hdbl : 2 ^ (K + e0) = 2 * 2 ^ (K + (e0 - 1))).
    { replace (K + e0) with (1 + (K + (e0 - 1))) by lia. rewrite Z.pow_add_r by lia. reflexivity. }
    pose proof (pow2_gt0 (K + (e0 - 1)) HKe1) as HG. pose proof (pow2_gt0 K HK) as HGK.
    unfold in_binade. change (2 ^ 53) with (2 * 2 ^ 52). split; nia.
Qed.

Lemma signif_spec a d e K : 0 < d -> 0 <= K -> 0 <= K + e ->
  RHE (signif a d e) (a * 2 ^ K) (d * 2 ^ (K + e)).
Proof.
  intros Hd HK HKe. unfold signif. destruct (Z.ltb_spec e 0).
  - pose proof (rhe_spec (a * 2 ^ (- e)) d Hd) as R.
    apply (RHE_scale _ _ _ (2 ^ (K + e)) (pow2_gt0 _ HKe)) in R.
    replace (a * 2 ^ (- e) * 2 ^ (K + e)) with (a * 2 ^ K) in R; [exact R|].
    rewrite <- Z.mul_assoc, <- Z.pow_add_r by lia. do 2 f_equal. lia.
  - assert (He : 0 < 2 ^ e) by (apply pow2_gt0; lia).
    pose proof (rhe_spec a (d * 2 ^ e) ltac:(nia)) as R.
    apply (RHE_scale _ _ _ (2 ^ K) (pow2_gt0 _ HK)) in R.
    replace (d * 2 ^ e * 2 ^ K) with (d * 2 ^ (K + e)) in R; [exact R|].
    rewrite Z.pow_add_r by lia. ring.
Qed.

(* value of the result, scaled by 2^K: fst/snd (dyadic m e) = m * 2^(K+e) / 2^K *)
Lemma dyadic_scaled m e K : 0 <= K -> 0 <= K + e ->
  fst (dyadic m e) * 2 ^ K = m * 2 ^ (K + e) * snd (dyadic m e) /\ 0 < snd (dyadic m e).
Proof.
  intros HK HKe. unfold dyadic. destruct (Z.ltb_spec e 0); cbn [fst snd].
  - split; [|apply pow2_gt0; lia].
    rewrite <- Z.mul_assoc, <- Z.pow_add_r by lia. do 2 f_equal. lia.
  - split; [|lia]. rewrite Z.pow_add_r by lia. ring.
Qed.

Lemma pow2_tri x y : 0 <= x -> 0 <= y ->
  (x = y /\ 2 ^ x = 2 ^ y) \/ (x < y /\ 2 * 2 ^ x <= 2 ^ y) \/ (y < x /\ 2 * 2 ^ y <= 2 ^ x).
Proof.
  intros Hx Hy. destruct (Z.lt_trichotomy x y) as [H | [H | H]].
  - right; left. split; auto.
    replace (2 * 2 ^ x) with (2 ^ (x + 1)) by (rewrite Z.pow_add_r by lia; ring).
    apply Z.pow_le_mono_r; lia.
  - left. subst. auto.
  - right; right. split; auto.
    replace (2 * 2 ^ y) with (2 ^ (y + 1)) by (rewrite Z.pow_add_r by lia; ring).
    apply Z.pow_le_mono_r; lia.
Qed.

(* the core: positive operands *)
Lemma rnd53_pos_mono a1 d1 a2 d2 :
  0 < a1 -> 0 < d1 -> 0 < a2 -> 0 < d2 -> a1 * d2 <= a2 * d1 ->
  fle (rnd53_pos a1 d1) (rnd53_pos a2 d2).
Proof.
  intros Ha1 Hd1 Ha2 Hd2 Hle.
  unfold rnd53_pos.
  set (e1 := expo a1 d1). set (e2 := expo a2 d2).
  set (K := Z.abs e1 + Z.abs e2 + 1).
  assert (HK : 0 <= K) by lia.
  assert (HK1 : 0 <= K + e1 - 1) by lia. assert (HK2 : 0 <= K + e2 - 1) by lia.
  pose proof (expo_spec a1 d1 K Ha1 Hd1 HK HK1) as [B1l B1u]. fold e1 in B1l, B1u.
  pose proof (expo_spec a2 d2 K Ha2 Hd2 HK HK2) as [B2l B2u]. fold e2 in B2l, B2u.
  pose proof (signif_spec a1 d1 e1 K Hd1 HK ltac:(lia)) as R1.
  pose proof (signif_spec a2 d2 e2 K Hd2 HK ltac:(lia)) as R2.
  set (m1 := signif a1 d1 e1) in *. set (m2 := signif a2 d2 e2) in *.
  destruct (dyadic_scaled m1 e1 K HK ltac:(lia)) as [V1 P1].
  destruct (dyadic_scaled m2 e2 K HK ltac:(lia)) as [V2 P2].
  pose proof (pow2_tri (K + e1) (K + e2) ltac:(lia) ltac:(lia)) as Tri.
  set (G1 := 2 ^ (K + e1)) in *. set (G2 := 2 ^ (K + e2)) in *. set (GK := 2 ^ K) in *.
  assert (HG1 : 0 < G1) by (apply pow2_gt0; lia). assert (HG2 : 0 < G2) by (apply pow2_gt0; lia).
  assert (HGK : 0 < GK) by (apply pow2_gt0; lia).
  assert (Main : m1 * G1 <= m2 * G2).
  { destruct Tri as [[_ Eq] | [[_ Lt] | [_ Gt]]].
    - (* same binade *)
      assert (m1 <= m2).
      { apply (RHE_mono m1 m2 (a1 * GK) (d1 * G1) (a2 * GK) (d2 * G2) ltac:(nia) ltac:(nia) R1 R2).
        rewrite Eq. nia. }
      rewrite Eq. nia.
    - (* e1 < e2: m1 <= 2^53, m2 >= 2^52 *)
      destruct R1 as ((L1 & _) & _). destruct R2 as ((_ & U2) & _).
      assert (M1 : m1 <= 2 ^ 53).
      { assert ((2 * m1 - 1) * (d1 * G1) < 2 * 2 ^ 53 * (d1 * G1)) by nia.
        assert (0 < d1 * G1) by nia. assert (2 * m1 - 1 < 2 * 2 ^ 53) by nia. lia. }
      assert (M2 : 2 ^ 52 <= m2).
      { assert (2 * 2 ^ 52 * (d2 * G2) <= (2 * m2 + 1) * (d2 * G2)) by nia.
        assert (0 < d2 * G2) by nia. assert (2 * 2 ^ 52 <= 2 * m2 + 1) by nia. lia. }
      change (2 ^ 53) with (2 * 2 ^ 52) in M1. nia.
    - (* e1 > e2 contradicts a1/d1 <= a2/d2 *)
      exfalso.
      assert (C1 : 2 ^ 52 * d1 * (2 * G2) * d2 <= a1 * GK * d2) by nia.
      assert (C2 : a2 * GK * d1 < 2 ^ 53 * d2 * G2 * d1) by nia.
      assert (C3 : a1 * GK * d2 <= a2 * GK * d1) by nia.
      change (2 ^ 53) with (2 * 2 ^ 52) in C2. nia. }
  unfold fle.
  (* fst r1 * snd r2 <= fst r2 * snd r1, from the GK-scaled values *)
  set (r1 := dyadic m1 e1) in *. set (r2 := dyadic m2 e2) in *.
  assert (fst r1 * snd r2 * GK <= fst r2 * snd r1 * GK).
  { replace (fst r1 * snd r2 * GK) with (fst r1 * GK * snd r2) by ring.
    replace (fst r2 * snd r1 * GK) with (fst r2 * GK * snd r1) by ring.
    rewrite V1, V2.
    replace (m1 * G1 * snd r1 * snd r2) with (m1 * G1 * (snd r1 * snd r2)) by ring.
    replace (m2 * G2 * snd r2 * snd r1) with (m2 * G2 * (snd r1 * snd r2)) by ring.
    apply Z.mul_le_mono_nonneg_r; [nia | exact Main]. }
  apply (Z.mul_le_mono_pos_r _ _ GK HGK). assumption.
Qed.

Lemma rnd53_pos_positive a d : 0 < a -> 0 < d -> 0 < fst (rnd53_pos a d) /\ 0 < snd (rnd53_pos a d).
Proof.
  intros Ha Hd. unfold rnd53_pos.
  set (e := expo a d). set (K := Z.abs e + 1).
  assert (HK : 0 <= K) by lia.
  pose proof (expo_spec a d K Ha Hd HK ltac:(lia)) as [Bl Bu]. fold e in Bl, Bu.
  pose proof (signif_spec a d e K Hd HK ltac:(lia)) as ((_ & U) & _).
  destruct (dyadic_scaled (signif a d e) e K HK ltac:(lia)) as [V P].
  set (m := signif a d e) in *. set (G := 2 ^ (K + e)) in *. set (GK := 2 ^ K) in *.
  assert (HG : 0 < G) by (apply pow2_gt0; lia). assert (HGK : 0 < GK) by (apply pow2_gt0; lia).
  assert (M : 2 ^ 52 <= m).
  { assert (2 * 2 ^ 52 * (d * G) <= (2 * m + 1) * (d * G)) by nia.
    assert (0 < d * G) by nia. assert (2 * 2 ^ 52 <= 2 * m + 1) by nia. lia. }
  split; [|exact P].
  assert (0 < fst (dyadic m e) * GK) by (rewrite V; nia). nia.
Qed.

Lemma rnd53_den n d : 0 < d -> 0 < snd (rnd53 n d).
Proof.
  intros Hd. unfold rnd53. destruct (Z.eqb_spec n 0); [simpl; lia|].
  destruct (Z.ltb_spec n 0).
  - destruct (rnd53_pos_positive (- n) d ltac:(lia) Hd) as [_ P].
    destruct (rnd53_pos (- n) d); simpl in *; exact P.
  - apply rnd53_pos_positive; lia.
Qed.

(* sign of the result follows the sign of the operand *)
Lemma rnd53_sign n d : 0 < d ->
  (n < 0 -> fst (rnd53 n d) < 0) /\ (n = 0 -> fst (rnd53 n d) = 0) /\ (0 < n -> 0 < fst (rnd53 n d)).
Proof.
  intros Hd. unfold rnd53. destruct (Z.eqb_spec n 0); [simpl; lia|].
  destruct (Z.ltb_spec n 0).
  - destruct (rnd53_pos_positive (- n) d ltac:(lia) Hd) as [P _].
    destruct (rnd53_pos (- n) d); simpl in *; lia.
  - destruct (rnd53_pos_positive n d ltac:(lia) Hd) as [P _]. lia.
Qed.

Theorem rnd53_mono n1 d1 n2 d2 :
  0 < d1 -> 0 < d2 -> n1 * d2 <= n2 * d1 -> fle (rnd53 n1 d1) (rnd53 n2 d2).
Proof.
  intros Hd1 Hd2 Hle.
  pose proof (rnd53_den n1 d1 Hd1) as P1. pose proof (rnd53_den n2 d2 Hd2) as P2.
  destruct (rnd53_sign n1 d1 Hd1) as (S1n & S1z & S1p). destruct (rnd53_sign n2 d2 Hd2) as (S2n & S2z & S2p).
  unfold fle.
  destruct (Z.lt_trichotomy n1 0) as [N1 | [N1 | N1]]; destruct (Z.lt_trichotomy n2 0) as [N2 | [N2 | N2]];
    try (exfalso; nia);
    try (specialize (S1n N1)); try (specialize (S1z N1)); try (specialize (S1p N1));
    try (specialize (S2n N2)); try (specialize (S2z N2)); try (specialize (S2p N2)); try nia.
  - (* both negative *)
    pose proof (rnd53_pos_mono (- n2) d2 (- n1) d1 ltac:(lia) Hd2 ltac:(lia) Hd1 ltac:(nia)) as M.
    unfold rnd53 in *.
    destruct (Z.eqb_spec n1 0); [lia|]. destruct (Z.eqb_spec n2 0); [lia|].
    destruct (Z.ltb_spec n1 0); [|lia]. destruct (Z.ltb_spec n2 0); [|lia].
    unfold fle in M.
    destruct (rnd53_pos (- n1) d1) as [m1 dd1]. destruct (rnd53_pos (- n2) d2) as [m2 dd2]. simpl in *. nia.
  - (* both positive *)
    pose proof (rnd53_pos_mono n1 d1 n2 d2 N1 Hd1 N2 Hd2 Hle) as M.
    unfold rnd53 in *.
    destruct (Z.eqb_spec n1 0); [lia|]. destruct (Z.eqb_spec n2 0); [lia|].
    destruct (Z.ltb_spec n1 0); [lia|]. destruct (Z.ltb_spec n2 0); [lia|].
    exact M.
Qed.

(* ---- the operations of the scale bar ---- *)
Lemma fdiv_den a b : b <> 0 -> 0 < snd (fdiv a b).
Proof. intros Hb. unfold fdiv. destruct (Z.ltb_spec b 0); apply rnd53_den; lia. Qed.

Lemma fdiv_mono a1 a2 b : 0 < b -> a1 <= a2 -> fle (fdiv a1 b) (fdiv a2 b).
Proof.
  intros Hb Ha. unfold fdiv. destruct (Z.ltb_spec b 0); [lia|]. apply rnd53_mono; auto. nia.
Qed.

Lemma fdiv_anti a1 a2 b : b < 0 -> a1 <= a2 -> fle (fdiv a2 b) (fdiv a1 b).
Proof.
  intros Hb Ha. unfold fdiv. destruct (Z.ltb_spec b 0); [|lia]. apply rnd53_mono; try lia. nia.
Qed.

Lemma fmul_den x w : 0 < snd x -> 0 < snd (fmul x w).
Proof. destruct x as [n d]; simpl. intros. apply rnd53_den; auto. Qed.

Lemma fmul_mono x y w : 0 < snd x -> 0 < snd y -> 0 <= w -> fle x y -> fle (fmul x w) (fmul y w).
Proof.
  destruct x as [n1 d1]; destruct y as [n2 d2]; unfold fle; simpl. intros H1 H2 Hw Hle.
  apply rnd53_mono; auto. nia.
Qed.

Lemma fmul_anti x y w : 0 < snd x -> 0 < snd y -> w <= 0 -> fle x y -> fle (fmul y w) (fmul x w).
Proof.
  destruct x as [n1 d1]; destruct y as [n2 d2]; unfold fle; simpl. intros H1 H2 Hw Hle.
  apply rnd53_mono; auto. nia.
Qed.

Lemma ftrunc_mono x y : 0 < snd x -> 0 < snd y -> fle x y -> ftrunc x <= ftrunc y.
Proof.
  destruct x as [n1 d1]; destruct y as [n2 d2]; unfold fle, ftrunc; simpl. intros H1 H2 Hle.
  rewrite <- (Z.quot_mul_cancel_r n1 d1 d2) by lia.
  rewrite <- (Z.quot_mul_cancel_r n2 d2 d1) by lia.
  replace (d2 * d1) with (d1 * d2) by ring.
  apply Z.quot_le_mono; nia.
Qed.

Theorem scale_pos_mono a1 a2 b w : 0 < b -> 0 <= w -> a1 <= a2 -> scale_pos a1 b w <= scale_pos a2 b w.
Proof.
  intros Hb Hw Ha. unfold scale_pos.
  apply ftrunc_mono; try (apply fmul_den; apply fdiv_den; lia).
  apply fmul_mono; auto; try (apply fdiv_den; lia). apply fdiv_mono; auto.
Qed.

Theorem scale_pos_anti a1 a2 b w : b < 0 -> 0 <= w -> a1 <= a2 -> scale_pos a2 b w <= scale_pos a1 b w.
Proof.
  intros Hb Hw Ha. unfold scale_pos.
  apply ftrunc_mono; try (apply fmul_den; apply fdiv_den; lia).
  apply fmul_mono; auto; try (apply fdiv_den; lia). apply fdiv_anti; auto.
Qed.

Theorem scale_pos_mono_negw a1 a2 b w : 0 < b -> w <= 0 -> a1 <= a2 -> scale_pos a2 b w <= scale_pos a1 b w.
Proof.
  intros Hb Hw Ha. unfold scale_pos.
  apply ftrunc_mono; try (apply fmul_den; apply fdiv_den; lia).
  apply fmul_anti; auto; try (apply fdiv_den; lia). apply fdiv_mono; auto.
Qed.
