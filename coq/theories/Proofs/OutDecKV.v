(* C04: map lines, the 29-key key=value family (incl. capability lists in any order, address
   lists, SysStat), registers, and lines outside the grammar; then the per-line theorem and
   dec_out_sound / dec_out_ignores_nongrammar / press_is_down_then_up. *)
From RP Require Import Lib.Base Lib.Sexp Lib.Strings Lib.Utf8 Lib.TrimSpace Lib.FloatFmt Model.MsgOut Model.DecOut
  Spec.DenoteOut Spec.GrammarOut Proofs.GfxNum Proofs.OutStrings Proofs.OutDecSkel Proofs.OutDecEvent
  Proofs.OutDecSys Proofs.OutReader.
From Coq Require Import String.
Open Scope Z_scope.

(* ---------------------------------------------------------------- capability list *)
Lemma caps_fold_eq : forall parts (acc : list bool), List.length acc = 13%nat ->
  fold_left (fun acc name => match index_in name cap_names 0 with Some i => set_nth acc i true | None => acc end) parts acc =
  fold_left (fun acc part => match index_of part cap_names 0 with Some i => upd_nat acc i true | None => acc end) parts acc.
Proof.
  induction parts as [|p parts IH]; intros acc Hl; cbn [fold_left]; [reflexivity|].
  rewrite index_in_of. destruct (index_of p cap_names 0) as [i|] eqn:E.
  - pose proof (index_of_lt _ _ _ _ E) as Hi. change (List.length cap_names) with 13%nat in Hi.
    rewrite set_nth_upd by lia. apply IH. rewrite upd_nat_len. exact Hl.
  - apply IH. exact Hl.
Qed.

Lemma read_caps_dec_support v : read_caps v = dec_support v.
Proof. unfold read_caps, dec_support, no_caps. apply caps_fold_eq. reflexivity. Qed.

(* ---------------------------------------------------------------- element lists *)
Lemma trim_explode_canonical : forall es, forallb canonical_elem es = true ->
  filter (fun v => negb (null v)) (map trim_space es) = es.
Proof.
  induction es as [|e es IH]; intros H; [reflexivity|].
  cbn in H. apply andb_true_iff in H. destruct H as [He Hes].
  unfold canonical_elem in He. destruct e as [|c e']; [discriminate|]. apply beqb_eq in He.
  cbn [map filter]. rewrite He. cbn [null negb]. f_equal. apply IH. exact Hes.
Qed.

(* ---------------------------------------------------------------- value kinds of the reader *)
Lemma rv_strict_nonempty key vk v rs :
  lookup key key_table = Some vk -> read_value vk v = WF true rs -> v <> [].
Proof.
  intros Hk H Hv. subst v. apply lookup_some in Hk. unfold key_table, tbl in Hk. cbn [map fst snd] in Hk.
  repeat (destruct Hk as [Hk|Hk]; [injection Hk as _ <-; cbn in H; discriminate|]). destruct Hk.
Qed.

Lemma rv_text k d v rs : v <> [] -> read_value (VText k d) v = WF true rs -> rs = [RStr k v].
Proof.
  intros Hne H. unfold read_value in H. destruct (has_lf v); [discriminate|].
  destruct v; [congruence|]. injection H as <-. reflexivity.
Qed.

Lemma rv_u32 k d v rs : read_value (VU32 k d) v = WF true rs ->
  exists x, atoi v = x /\ 0 <= x < 4294967296 /\ rs = if d && (x =? 0) then [] else [RNum k x].
Proof.
  intros H. unfold read_value in H. destruct (has_lf v); [discriminate|].
  destruct (read_u32 v) as [x|] eqn:E; [|discriminate]. injection H as <-.
  destruct (read_u32_spec _ _ E) as [_ [Ha Hr]]. exists x. auto.
Qed.

Lemma rv_bool k d v rs : read_value (VBool k d) v = WF true rs ->
  exists b : bool, atoi v = (if b then 1 else 0) /\ rs = if d && negb b then [] else [RNum k (if b then 1 else 0)].
Proof.
  intros H. unfold read_value in H. destruct (has_lf v); [discriminate|].
  destruct (read_bool v) as [b|] eqn:E; [|discriminate]. injection H as <-.
  destruct (read_bool_spec _ _ E) as [_ Ha]. exists b. auto.
Qed.

Lemma rv_name k names v rs : read_value (VName k names) v = WF true rs ->
  exists x, In (v, x) names /\ rs = [RNum k x].
Proof.
  intros H. unfold read_value in H. destruct (has_lf v); [discriminate|].
  destruct (lookup v names) as [x|] eqn:E; [|discriminate]. injection H as <-.
  exists x. split; [apply lookup_some; exact E|reflexivity].
Qed.

Lemma filter_nonempty_eq (l : list bytes) :
  filter (fun e => match e with [] => false | _ => true end) l = filter (fun v => negb (null v)) l.
Proof. apply filter_ext. intros [|x a]; reflexivity. Qed.

(* canonical or alternative spelling: the items are what TrimExplode yields; an all-blank list is
   "no list" for a key whose absence is the default *)
Lemma rv_elems k d v rs : v <> [] -> read_value (VElems k d) v = WF true rs ->
  rs = match trim_explode 59 v with [] => if d then [] else [RList k []] | l => [RList k l] end.
Proof.
  intros Hne H. unfold read_value in H. destruct (has_lf v); [discriminate|].
  destruct v; [congruence|]. unfold trim_explode.
  destruct (forallb canonical_elem (split_on 59 (z :: v))) eqn:E.
  - injection H as <-. rewrite (trim_explode_canonical _ E).
    pose proof (split_on_nonempty 59 (z :: v)). destruct (split_on 59 (z :: v)); [congruence|reflexivity].
  - injection H as <-. rewrite filter_nonempty_eq.
    destruct (filter (fun v0 : list Z => negb (null v0)) (map trim_space (split_on 59 (z :: v)))); reflexivity.
Qed.

Lemma rv_caps v rs : read_value VCaps v = WF true rs -> rs = [RCaps (read_caps v)].
Proof. intros H. unfold read_value in H. destruct (has_lf v); [discriminate|]. injection H as _ <-. reflexivity. Qed.

Lemma rv_sys v rs : read_value VSys v = WF true rs -> read_sys v = WF true rs.
Proof. intros H. unfold read_value in H. destruct (has_lf v); [discriminate|exact H]. Qed.

Lemma rv_json k v rs : read_value (VJson k) v = WF true rs -> False.
Proof. intros H. unfold read_value in H. destruct (has_lf v); [discriminate|]. destruct v; discriminate. Qed.

Lemma key_in_gen key vk : lookup key key_table = Some vk -> existsb (bytes_eqb key) gen_keys = true.
Proof.
  intros H. apply lookup_some in H. unfold key_table, tbl in H. cbn [map fst snd] in H.
  repeat (destruct H as [H|H]; [injection H as <- _; reflexivity|]). destruct H.
Qed.

Section KV.
Variable np : bytes -> option bytes.

Ltac dg t := match goal with |- context [dec_generic np ?k ?vv] => change (dec_generic np k vv) with t end.
Ltac u32_case H :=
  destruct (rv_u32 _ _ _ _ H) as [x [Ha [Hr ->]]].
Ltac fin_u32 Ha Hr := unfold intval; rewrite Ha, (wrap32_id _ Hr).

Lemma kv_value_sound key vk v rs :
  lookup key key_table = Some vk -> read_value vk v = WF true rs ->
  den_om (dec_generic np key v) = rs.
Proof.
  intros Hk Hv. pose proof (rv_strict_nonempty _ _ _ _ Hk Hv) as Hne.
  apply lookup_some in Hk. unfold key_table, tbl in Hk. cbn [map fst snd] in Hk.
  destruct Hk as [E|Hk]. (* _model *)
  { injection E as <- <-. rewrite (rv_text _ _ _ _ Hne Hv). destruct v; [congruence|reflexivity]. }
  destruct Hk as [E|Hk]. (* _serial *)
  { injection E as <- <-. rewrite (rv_text _ _ _ _ Hne Hv). destruct v; [congruence|reflexivity]. }
  destruct Hk as [E|Hk]. (* _version *)
  { injection E as <- <-. rewrite (rv_text _ _ _ _ Hne Hv). destruct v; [congruence|reflexivity]. }
  destruct Hk as [E|Hk]. (* _platform *)
  { injection E as <- <-. rewrite (rv_text _ _ _ _ Hne Hv). destruct v; [congruence|reflexivity]. }
  destruct Hk as [E|Hk]. (* _name *)
  { injection E as <- <-. rewrite (rv_text _ _ _ _ Hne Hv). destruct v; [congruence|reflexivity]. }
  destruct Hk as [E|Hk]. (* _bluePillReady *)
  { injection E as <- <-. destruct (rv_bool _ _ _ _ Hv) as [b [Ha ->]].
    dg (Some (m_pinfo (pi_with_bpr (negb (intval v =? 0))))).
    unfold intval. rewrite Ha. destruct b; reflexivity. }
  destruct Hk as [E|Hk]. (* _panelType *)
  { injection E as <- <-. destruct (rv_name _ _ _ _ Hv) as [x [Hin ->]].
    unfold panel_types, tbl in Hin. cbn [map fst snd In] in Hin.
    repeat (destruct Hin as [Hin|Hin]; [injection Hin as <- <-; reflexivity|]). destruct Hin. }
  destruct Hk as [E|Hk]. (* _support *)
  { injection E as <- <-. rewrite (rv_caps _ _ Hv), read_caps_dec_support. reflexivity. }
  destruct Hk as [E|Hk]. (* _isSleeping *)
  { injection E as <- <-. destruct (rv_bool _ _ _ _ Hv) as [b [Ha ->]].
    dg (Some (m_sleeps (negb (intval v =? 0)))).
    unfold intval. rewrite Ha. destruct b; reflexivity. }
  destruct Hk as [E|Hk]. (* _sleepTimer *)
  { injection E as <- <-. u32_case Hv.
    dg (Some (m_sleept (wrap32 (intval v)))).
    fin_u32 Ha Hr. reflexivity. }
  destruct Hk as [E|Hk]. (* _panelTopology_svgbase *)
  { injection E as <- <-. rewrite (rv_text _ _ _ _ Hne Hv). destruct v; [congruence|reflexivity]. }
  destruct Hk as [E|Hk]. (* _panelTopology_HWC *)
  { injection E as <- <-. rewrite (rv_text _ _ _ _ Hne Hv). destruct v; [congruence|reflexivity]. }
  destruct Hk as [E|Hk]. (* _burninProfile *)
  { injection E as <- <-. rewrite (rv_text _ _ _ _ Hne Hv). reflexivity. }
  destruct Hk as [E|Hk]. (* _networkConfig *)
  { injection E as <- <-. destruct (rv_json _ _ _ Hv). }
  destruct Hk as [E|Hk]. (* _calibrationProfile *)
  { injection E as <- <-. rewrite (rv_text _ _ _ _ Hne Hv). reflexivity. }
  destruct Hk as [E|Hk]. (* _defaultCalibrationProfile *)
  { injection E as <- <-. rewrite (rv_text _ _ _ _ Hne Hv). reflexivity. }
  destruct Hk as [E|Hk]. (* _serverModeLockToIP *)
  { injection E as <- <-. rewrite (rv_elems _ _ _ _ Hne Hv).
    dg (Some (m_pinfo (pi_with_locked (trim_explode 59 v)))).
    destruct (trim_explode 59 v); reflexivity. }
  destruct Hk as [E|Hk]. (* _serverModeMaxClients *)
  { injection E as <- <-. u32_case Hv.
    dg (Some (m_pinfo (pi_with_maxclients (wrap32 (intval v))))).
    fin_u32 Ha Hr. cbn [andb]. unfold den_om, den_out, den_pre, m_pinfo, pi_with_maxclients. cbn.
    unfold nonzero_num. destruct (x =? 0); reflexivity. }
  destruct Hk as [E|Hk]. (* _heartBeatTimer *)
  { injection E as <- <-. u32_case Hv.
    dg (Some (m_hb (wrap32 (intval v)))).
    fin_u32 Ha Hr. reflexivity. }
  destruct Hk as [E|Hk]. (* DimmedGain *)
  { injection E as <- <-. u32_case Hv.
    dg (Some (m_dim (wrap32 (intval v)))).
    fin_u32 Ha Hr. reflexivity. }
  destruct Hk as [E|Hk]. (* _connections *)
  { injection E as <- <-. rewrite (rv_elems _ _ _ _ Hne Hv).
    dg (Some (m_conn (trim_explode 59 v))).
    destruct (trim_explode 59 v); reflexivity. }
  destruct Hk as [E|Hk]. (* _bootsCount *)
  { injection E as <- <-. u32_case Hv.
    dg (Some (m_rts (wrap32 (intval v)) 0 0 0)).
    fin_u32 Ha Hr. cbn [andb]. unfold den_om, den_out, den_pre, m_rts. cbn. unfold nonzero_num. destruct (x =? 0); reflexivity. }
  destruct Hk as [E|Hk]. (* _totalUptimeMin *)
  { injection E as <- <-. u32_case Hv.
    dg (Some (m_rts 0 (wrap32 (intval v)) 0 0)).
    fin_u32 Ha Hr. cbn [andb]. unfold den_om, den_out, den_pre, m_rts. cbn. unfold nonzero_num. destruct (x =? 0); reflexivity. }
  destruct Hk as [E|Hk]. (* _sessionUptimeMin *)
  { injection E as <- <-. u32_case Hv.
    dg (Some (m_rts 0 0 (wrap32 (intval v)) 0)).
    fin_u32 Ha Hr. cbn [andb]. unfold den_om, den_out, den_pre, m_rts. cbn. unfold nonzero_num. destruct (x =? 0); reflexivity. }
  destruct Hk as [E|Hk]. (* _screenSaverOnMin *)
  { injection E as <- <-. u32_case Hv.
    dg (Some (m_rts 0 0 0 (wrap32 (intval v)))).
    fin_u32 Ha Hr. cbn [andb]. unfold den_om, den_out, den_pre, m_rts. cbn. unfold nonzero_num. destruct (x =? 0); reflexivity. }
  destruct Hk as [E|Hk]. (* ErrorMsg *)
  { injection E as <- <-. rewrite (rv_text _ _ _ _ Hne Hv). reflexivity. }
  destruct Hk as [E|Hk]. (* Msg *)
  { injection E as <- <-. rewrite (rv_text _ _ _ _ Hne Hv). reflexivity. }
  destruct Hk as [E|Hk]. (* EnvironmentalHealth *)
  { injection E as <- <-. destruct (rv_name _ _ _ _ Hv) as [x [Hin ->]].
    unfold health_modes, tbl in Hin. cbn [map fst snd In] in Hin.
    repeat (destruct Hin as [Hin|Hin]; [injection Hin as <- <-; reflexivity|]). destruct Hin. }
  destruct Hk as [E|Hk]. (* SysStat *)
  { injection E as <- <-. pose proof (sys_line_sound v rs Hne (rv_sys _ _ Hv)) as Hs.
    dg (Some (m_sys (ss_scan (split_on 58 v) empty_sys))).
    rewrite <- Hs. reflexivity. }
  destruct Hk.
Qed.

Lemma kv_line_sound l key v vk rs :
  drop_prefix (str "HWC#") l = None -> drop_prefix (str "map=") l = None ->
  cut_on 61 l = (key, v, true) -> lookup key key_table = Some vk -> read_value vk v = WF true rs ->
  exists om, dec_rest np l = Ok om /\ den_om om = rs.
Proof.
  intros Hh Hm Hc Hk Hv.
  pose proof (rv_strict_nonempty _ _ _ _ Hk Hv) as Hne. pose proof (rv_nolf _ _ _ _ Hv) as Hlf.
  exists (dec_generic np key v). split; [|apply (kv_value_sound key vk v rs Hk Hv)].
  unfold dec_rest. rewrite (re_event_noprefix l Hh), (re_map_noprefix l Hm). cbn [null negb].
  unfold re_generic. rewrite Hc, (key_in_gen key vk Hk), (null_false v Hne). unfold has_lf in Hlf. rewrite Hlf.
  reflexivity.
Qed.
End KV.
