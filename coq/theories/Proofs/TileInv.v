(* C18 inversion: running the same operations with pixel inversion on produces the
   complement (over the visible columns) of running them with inversion off.
   Proved once for every drawing function of Model/Mono.v from draw_pixel_px, then for every
   op list that does not itself switch inversion, then for the tile. *)
From RP Require Import Lib.Base Lib.Utf8 Gen.Tables Model.Mono Model.Tile Spec.Clip Spec.Tile
  Proofs.ListZ Proofs.PixelProofs Proofs.DrawProofs Proofs.OpsProofs Proofs.TileBasic.
From Coq Require Import ZifyBool.
Ltac Zify.zify_post_hook ::= Z.div_mod_to_equations.

Definition ginv_on (g : geom) : geom := set_inv g true.

(* d2 is the complement of d1 over the visible columns; padding bits equal *)
Definition compl (g : geom) (d1 d2 : list Z) : Prop :=
  wfg g d1 /\ wfg g d2 /\
  forall c r, 0 <= c < 8 * gwib g -> 0 <= r < gH g ->
    px (gwib g) d2 c r = if c <? gW g then negb (px (gwib g) d1 c r) else px (gwib g) d1 c r.

(* f1 (drawn with inversion off) and f2 (inversion on) keep the complement relation *)
Definition Inv2 (g : geom) (f1 f2 : list Z -> list Z) : Prop :=
  forall d1 d2, compl g d1 d2 -> compl g (f1 d1) (f2 d2).

Lemma wfg_inv g d : wfg (ginv_on g) d <-> wfg g d.
Proof. unfold wfg, ginv_on, set_inv; simpl. tauto. Qed.

Lemma in_clip_inv g c r : in_clip (ginv_on g) c r = in_clip g c r.
Proof. reflexivity. Qed.

Lemma Inv2_pixel g x y col :
  ginv g = false -> Inv2 g (draw_pixel g x y col) (draw_pixel (ginv_on g) x y col).
Proof.
  intros Hinv d1 d2 (W1 & W2 & E).
  destruct (draw_pixel_px g x y col d1 W1) as [W1' E1].
  destruct (draw_pixel_px (ginv_on g) x y col d2 (proj2 (wfg_inv g d2) W2)) as [W2' E2].
  split; [exact W1'|]. split; [apply wfg_inv; exact W2'|].
  intros c r Hc Hr.
  specialize (E1 c r Hc Hr). specialize (E2 c r Hc Hr). specialize (E c r Hc Hr).
  change (gwib (ginv_on g)) with (gwib g) in E2. change (gbx (ginv_on g)) with (gbx g) in E2.
  change (gby (ginv_on g)) with (gby g) in E2. rewrite in_clip_inv in E2.
  change (ginv (ginv_on g)) with true in E2.
  rewrite E1, E2, Hinv.
  destruct ((c =? x + gbx g) && (r =? y + gby g) && in_clip g c r) eqn:Hit.
  - assert (Hcl : in_clip g c r = true) by (apply andb_true_iff in Hit; tauto).
    apply in_clip_bounds in Hcl. destruct (Z.ltb_spec c (gW g)); [|lia].
    destruct col; reflexivity.
  - exact E.
Qed.

Lemma Inv2_id g : Inv2 g (fun d => d) (fun d => d).
Proof. intros d1 d2 H; exact H. Qed.

Lemma Inv2_comp g f1 f2 h1 h2 :
  Inv2 g f1 f2 -> Inv2 g h1 h2 -> Inv2 g (fun d => h1 (f1 d)) (fun d => h2 (f2 d)).
Proof. intros A B d1 d2 H. apply B, A, H. Qed.

Lemma Inv2_if g (b : bool) f1 f2 h1 h2 :
  Inv2 g f1 f2 -> Inv2 g h1 h2 ->
  Inv2 g (fun d => if b then f1 d else h1 d) (fun d => if b then f2 d else h2 d).
Proof. destruct b; auto. Qed.

Lemma Inv2_iter g f1 f2 n :
  (forall k, Inv2 g (f1 k) (f2 k)) -> forall s, Inv2 g (iter_up n s f1) (iter_up n s f2).
Proof.
  intros H. induction n as [|n IH]; intros s; simpl.
  - apply Inv2_id.
  - apply (Inv2_comp g (f1 s) (f2 s) (iter_up n (s + 1) f1) (iter_up n (s + 1) f2)); auto.
Qed.

Lemma Inv2_for_range g f1 f2 s n :
  (forall k, Inv2 g (f1 k) (f2 k)) -> Inv2 g (for_range s n f1) (for_range s n f2).
Proof. intros H. unfold for_range. apply Inv2_iter; auto. Qed.

Section Tower.
Variable g : geom.
Hypothesis Hinv : ginv g = false.
Let gi := ginv_on g.

Lemma Inv2_vline x y h col : Inv2 g (vline g x y h col) (vline gi x y h col).
Proof. unfold vline. apply Inv2_for_range. intros k. apply Inv2_pixel; auto. Qed.

Lemma Inv2_hline x y w col : Inv2 g (hline g x y w col) (hline gi x y w col).
Proof. unfold hline. apply Inv2_for_range. intros k. apply Inv2_pixel; auto. Qed.

Lemma Inv2_fill_rect x y w h col : Inv2 g (fill_rect g x y w h col) (fill_rect gi x y w h col).
Proof. unfold fill_rect. apply Inv2_for_range. intros k. apply Inv2_vline. Qed.

Lemma Inv2_circle_loop body1 body2 :
  (forall x y, Inv2 g (body1 x y) (body2 x y)) ->
  forall fuel f ddx ddy x y, Inv2 g (circle_loop fuel body1 f ddx ddy x y) (circle_loop fuel body2 f ddx ddy x y).
Proof.
  intros Hb fuel. induction fuel as [|fuel IH]; intros f ddx ddy x y; simpl.
  - apply Inv2_id.
  - destruct (x <? y); [|apply Inv2_id].
    destruct (f >=? 0).
    + apply (Inv2_comp g (body1 (x + 1) (y - 1)) (body2 (x + 1) (y - 1))); auto.
    + apply (Inv2_comp g (body1 (x + 1) y) (body2 (x + 1) y)); auto.
Qed.

Lemma Inv2_pix2 a b c d col :
  Inv2 g (fun dd => draw_pixel g a b col (draw_pixel g c d col dd))
         (fun dd => draw_pixel gi a b col (draw_pixel gi c d col dd)).
Proof. apply (Inv2_comp g (draw_pixel g c d col) (draw_pixel gi c d col)); apply Inv2_pixel; auto. Qed.

Lemma Inv2_corner_pixels x0 y0 x y corner col :
  Inv2 g (corner_pixels g x0 y0 x y corner col) (corner_pixels gi x0 y0 x y corner col).
Proof.
  unfold corner_pixels.
  intros d1 d2 H.
  assert (H4 := Inv2_if g (Z.land corner 4 >? 0) _ _ _ _ (Inv2_pix2 (x0 + y) (y0 + x) (x0 + x) (y0 + y) col) (Inv2_id g) d1 d2 H).
  cbv beta in H4.
  assert (H2 := Inv2_if g (Z.land corner 2 >? 0) _ _ _ _ (Inv2_pix2 (x0 + y) (y0 - x) (x0 + x) (y0 - y) col) (Inv2_id g) _ _ H4).
  cbv beta in H2.
  assert (H8 := Inv2_if g (Z.land corner 8 >? 0) _ _ _ _ (Inv2_pix2 (x0 - x) (y0 + y) (x0 - y) (y0 + x) col) (Inv2_id g) _ _ H2).
  cbv beta in H8.
  exact (Inv2_if g (Z.land corner 1 >? 0) _ _ _ _ (Inv2_pix2 (x0 - x) (y0 - y) (x0 - y) (y0 - x) col) (Inv2_id g) _ _ H8).
Qed.

Lemma Inv2_circle_helper x0 y0 r corner col :
  Inv2 g (circle_helper g x0 y0 r corner col) (circle_helper gi x0 y0 r corner col).
Proof. unfold circle_helper. apply Inv2_circle_loop. intros x y. apply Inv2_corner_pixels. Qed.

Lemma Inv2_vl2 a b h1 c d h2 col :
  Inv2 g (fun dd => vline g a b h1 col (vline g c d h2 col dd))
         (fun dd => vline gi a b h1 col (vline gi c d h2 col dd)).
Proof. apply (Inv2_comp g (vline g c d h2 col) (vline gi c d h2 col)); apply Inv2_vline. Qed.

Lemma Inv2_fill_corner_lines x0 y0 x y corner delta col :
  Inv2 g (fill_corner_lines g x0 y0 x y corner delta col) (fill_corner_lines gi x0 y0 x y corner delta col).
Proof.
  unfold fill_corner_lines. intros d1 d2 H.
  assert (H1 := Inv2_if g (Z.land corner 1 >? 0) _ _ _ _
                  (Inv2_vl2 (x0 + y) (y0 - x) (2 * x + 1 + delta) (x0 + x) (y0 - y) (2 * y + 1 + delta) col) (Inv2_id g) d1 d2 H).
  cbv beta in H1.
  exact (Inv2_if g (Z.land corner 2 >? 0) _ _ _ _
           (Inv2_vl2 (x0 - y) (y0 - x) (2 * x + 1 + delta) (x0 - x) (y0 - y) (2 * y + 1 + delta) col) (Inv2_id g) _ _ H1).
Qed.

Lemma Inv2_fill_circle_helper x0 y0 r corner delta col :
  Inv2 g (fill_circle_helper g x0 y0 r corner delta col) (fill_circle_helper gi x0 y0 r corner delta col).
Proof. unfold fill_circle_helper. apply Inv2_circle_loop. intros x y. apply Inv2_fill_corner_lines. Qed.

Lemma Inv2_round_rect x y w h r col :
  Inv2 g (round_rect g x y w h r col) (round_rect gi x y w h r col).
Proof.
  unfold round_rect. intros d1 d2 H.
  apply Inv2_circle_helper, Inv2_circle_helper, Inv2_circle_helper, Inv2_circle_helper,
        Inv2_vline, Inv2_vline, Inv2_hline, Inv2_hline, H.
Qed.

Lemma Inv2_fill_round_rect x y w h r col :
  Inv2 g (fill_round_rect g x y w h r col) (fill_round_rect gi x y w h r col).
Proof.
  unfold fill_round_rect. intros d1 d2 H.
  apply Inv2_fill_circle_helper, Inv2_fill_circle_helper, Inv2_fill_rect, H.
Qed.

Lemma Inv2_draw_bitmap x y bm w h col inverted all :
  Inv2 g (draw_bitmap g x y bm w h col inverted all) (draw_bitmap gi x y bm w h col inverted all).
Proof.
  unfold draw_bitmap. apply Inv2_for_range. intros j. apply Inv2_for_range. intros i.
  destruct (zlen bm >? j * gdiv (w + 7) 8 + gdiv i 8); [|apply Inv2_id].
  match goal with |- context [if ?b then _ else _] => destruct b end; [apply Inv2_pixel; auto | apply Inv2_id].
Qed.

Lemma Inv2_block x y sh sv col : Inv2 g (block g x y sh sv col) (block gi x y sh sv col).
Proof. unfold block. destruct ((sh =? 1) && (sv =? 1)); [apply Inv2_pixel; auto | apply Inv2_fill_rect]. Qed.

Lemma Inv2_draw_char t x y ch col bg sh sv :
  Inv2 g (draw_char g t x y ch col bg sh sv) (draw_char gi t x y ch col bg sh sv).
Proof.
  unfold draw_char.
  change (get_bwidth gi) with (get_bwidth g). change (gH gi) with (gH g).
  match goal with |- context [if ?b then _ else _] => destruct b end; [apply Inv2_id|].
  apply Inv2_for_range. intros i. apply Inv2_for_range. intros j.
  destruct (Z.testbit (char_column t ch (char_width t ch) (char_start t ch) i) j); [apply Inv2_block|].
  destruct (negb (Bool.eqb bg col)); [apply Inv2_block | apply Inv2_id].
Qed.

Lemma Inv2_write_char t d1 d2 ch :
  compl g d1 d2 ->
  fst (write_char g (t, d1) ch) = fst (write_char gi (t, d2) ch) /\
  compl g (snd (write_char g (t, d1) ch)) (snd (write_char gi (t, d2) ch)).
Proof.
  intros H. unfold write_char.
  change (get_bwidth gi) with (get_bwidth g).
  destruct (ch =? 10); [simpl; auto|].
  destruct (ch =? 13); [simpl; auto|].
  pose proof (Inv2_draw_char t (tcx t) (tcy t) ch (tcol t) (tbg t) (tsh t) (tsv t) d1 d2 H) as Hc.
  match goal with |- context [if ?b then _ else _] => destruct b end; simpl; auto.
Qed.

Lemma Inv2_render_chars cs : forall t d1 d2,
  compl g d1 d2 ->
  fst (render_chars g cs (t, d1)) = fst (render_chars gi cs (t, d2)) /\
  compl g (snd (render_chars g cs (t, d1))) (snd (render_chars gi cs (t, d2))).
Proof.
  unfold render_chars. induction cs as [|ch cs IH]; intros t d1 d2 H; cbn [fold_left].
  - simpl; auto.
  - destruct (Inv2_write_char t d1 d2 ch H) as [Et Hc].
    destruct (write_char g (t, d1) ch) as [t1 e1]. destruct (write_char gi (t, d2) ch) as [t2 e2].
    simpl in Et, Hc. subst t2. apply IH; auto.
Qed.
End Tower.

(* ---- images and op lists ---- *)
Definition inv_pair (i1 i2 : img) : Prop :=
  ginv (ig i1) = false /\ ig i2 = ginv_on (ig i1) /\ it i2 = it i1 /\
  ibckg i2 = ibckg i1 /\ ipixc i2 = ipixc i1 /\ compl (ig i1) (idata i1) (idata i2).

Definition no_invert (o : op) : bool := match o with OInvert _ => false | _ => true end.

Lemma compl_geom g g' d1 d2 :
  gW g' = gW g -> gH g' = gH g -> gwib g' = gwib g -> compl g d1 d2 -> compl g' d1 d2.
Proof. unfold compl, wfg. intros -> -> ->. auto. Qed.

Lemma inv_pair_op i1 i2 o :
  no_invert o = true -> inv_pair i1 i2 -> inv_pair (run_op i1 o) (run_op i2 o).
Proof.
  intros Hno (Hinv & Hg & Ht & Hb & Hp & Hc).
  destruct i1 as [g1 t1 d1 b1 p1]. destruct i2 as [g2 t2 d2 b2 p2]. simpl in *. subst g2 t2 b2 p2.
  assert (Hdraw : forall f1 f2, Inv2 g1 f1 f2 ->
            inv_pair (mkImg g1 t1 (f1 d1) b1 p1) (mkImg (ginv_on g1) t1 (f2 d2) b1 p1)).
  { intros f1 f2 H. unfold inv_pair; simpl.
    split; [auto|]. split; [auto|]. split; [auto|]. split; [auto|]. split; [auto|]. apply H; exact Hc. }
  destruct o; try discriminate Hno; unfold run_op, with_data, with_geom, with_t; cbn [ig it idata ibckg ipixc].
  - apply Hdraw. apply Inv2_pixel; auto.
  - apply Hdraw. apply Inv2_hline; auto.
  - apply Hdraw. apply Inv2_vline; auto.
  - apply Hdraw. apply Inv2_fill_rect; auto.
  - apply Hdraw. apply Inv2_round_rect; auto.
  - apply Hdraw. apply Inv2_fill_round_rect; auto.
  - apply Hdraw. apply Inv2_circle_helper; auto.
  - apply Hdraw. apply Inv2_fill_circle_helper; auto.
  - apply Hdraw. apply Inv2_draw_bitmap; auto.
  - apply Hdraw. apply Inv2_draw_char; auto.
  - (* text *)
    unfold render_text.
    destruct (Inv2_render_chars g1 Hinv (range_bytes s) t1 d1 d2 Hc) as [Et Hc'].
    destruct (render_chars g1 (range_bytes s) (t1, d1)) as [ta da].
    destruct (render_chars (ginv_on g1) (range_bytes s) (t1, d2)) as [tb db].
    simpl in Et, Hc'. subst tb. unfold inv_pair; simpl.
    split; [auto|]. split; [auto|]. split; [auto|]. split; [auto|]. split; [auto|]. exact Hc'.
  - (* bbox *)
    unfold inv_pair; simpl.
    split; [auto|]. split; [auto|]. split; [auto|]. split; [auto|]. split; [auto|].
    apply (compl_geom g1); auto.
  - unfold inv_pair; simpl. split; [auto|]. split; [auto|]. split; [auto|]. split; [auto|]. split; [auto|]. exact Hc.
  - unfold inv_pair; simpl. split; [auto|]. split; [auto|]. split; [auto|]. split; [auto|]. split; [auto|]. exact Hc.
  - unfold inv_pair; simpl. split; [auto|]. split; [auto|]. split; [auto|]. split; [auto|]. split; [auto|]. exact Hc.
  - unfold inv_pair; simpl. split; [auto|]. split; [auto|]. split; [auto|]. split; [auto|]. split; [auto|]. exact Hc.
  - unfold inv_pair; simpl. split; [auto|]. split; [auto|]. split; [auto|]. split; [auto|]. split; [auto|]. exact Hc.
  - unfold inv_pair; simpl. split; [auto|]. split; [auto|]. split; [auto|]. split; [auto|]. split; [auto|]. exact Hc.
Qed.

Theorem ops_inversion ops : forall i1 i2,
  forallb no_invert ops = true -> inv_pair i1 i2 -> inv_pair (run_ops i1 ops) (run_ops i2 ops).
Proof.
  induction ops as [|o ops IH]; intros i1 i2 Hno H; simpl in *; auto.
  apply andb_true_iff in Hno as [Ho Hr].
  change (run_ops i1 (o :: ops)) with (run_ops (run_op i1 o) ops).
  change (run_ops i2 (o :: ops)) with (run_ops (run_op i2 o) ops).
  apply IH; auto. apply inv_pair_op; auto.
Qed.

(* ---- the tile ---- *)
Lemma tile_body_inv t b W H s bd : tile_body (set_inverted t b) W H s bd = tile_body t W H s bd.
Proof.
  unfold tile_body.
  change (set_inverted (set_inverted t b) false) with (set_inverted t false). reflexivity.
Qed.

Lemma params_inv t b W H s bd : params (set_inverted t b) W H s bd = params t W H s bd.
Proof. reflexivity. Qed.

Lemma no_invert_map l : forallb no_invert (map op_of l) = true.
Proof. induction l as [|d l IH]; simpl; auto. rewrite IH. destruct d; reflexivity. Qed.

Lemma no_invert_epilogue p : forallb no_invert (epilogue p) = true.
Proof. unfold epilogue. destruct (pborder p >? 0); reflexivity. Qed.

(* after InvertPixels + the initial FillRect the two canvases are complements *)
Lemma start_pair W H bg pc :
  0 <= W -> 0 <= H ->
  inv_pair (run_ops (canvas W H bg pc) [OInvert false; OFillRect 0 0 W H false])
           (run_ops (canvas W H bg pc) [OInvert true; OFillRect 0 0 W H false]).
Proof.
  intros HW HH.
  pose proof (canvas_wf W H bg pc HW HH) as Wf. unfold wf_img in Wf.
  set (i0 := canvas W H bg pc) in *.
  set (g0 := set_inv (ig i0) false).
  assert (Wf0 : wfg g0 (idata i0)) by (unfold g0, wfg, set_inv in *; simpl in *; exact Wf).
  assert (Wf1 : wfg (ginv_on g0) (idata i0)) by (apply wfg_inv; exact Wf0).
  destruct (Paint_fill_rect g0 0 0 W H false (idata i0) Wf0) as [Wa Ea].
  destruct (Paint_fill_rect (ginv_on g0) 0 0 W H false (idata i0) Wf1) as [Wb Eb].
  change (run_ops i0 [OInvert false; OFillRect 0 0 W H false])
    with (with_data (with_geom i0 g0) (fill_rect g0 0 0 W H false (idata i0))).
  change (run_ops i0 [OInvert true; OFillRect 0 0 W H false])
    with (with_data (with_geom i0 (ginv_on g0)) (fill_rect (ginv_on g0) 0 0 W H false (idata i0))).
  unfold inv_pair. cbn [ig it idata ibckg ipixc with_data with_geom].
  split; [reflexivity|]. split; [reflexivity|]. split; [reflexivity|]. split; [reflexivity|]. split; [reflexivity|].
  split; [exact Wa|]. split; [apply wfg_inv; exact Wb|].
  intros c r Hc Hr.
  specialize (Ea c r Hc Hr). specialize (Eb c r Hc Hr).
  change (gwib (ginv_on g0)) with (gwib g0) in Eb.
  rewrite Ea, Eb.
  change (px (gwib g0) (idata i0) c r) with (px (gwib g0) (zrepeat 0 (ceil_div8 W * H)) c r).
  rewrite px_zeros.
  change (ginv g0) with false. change (ginv (ginv_on g0)) with true.
  change (gbx (ginv_on g0)) with 0. change (gby (ginv_on g0)) with 0. change (gbx g0) with 0. change (gby g0) with 0.
  rewrite in_clip_inv.
  change (gW g0) with W.
  assert (Hcl : in_rect 0 0 W H (c - 0) (r - 0) && in_clip g0 c r = (c <? W)).
  { unfold in_rect, in_clip. change (gW g0) with W. change (gH g0) with H.
    change (gbx g0) with 0. change (gby g0) with 0. change (gbw g0) with W. change (gbh g0) with H.
    change (gH g0) with H in Hr. lia. }
  rewrite Hcl. destruct (c <? W); reflexivity.
Qed.

Lemma Ok_inj {A} (a b : A) : Ok a = Ok b -> a = b.
Proof. congruence. Qed.

Definition tile_rest (t : mtext) (W H s b : Z) : list op :=
  let p := params t W H s b in
  [OSetSpacing (pspacing p); OSetWrap false; OSetBBox (pborder p) (pborder p) (paw p) (pah p)]
  ++ map op_of (tile_body t W H s b) ++ epilogue p.

Lemma tile_ops_split t W H s b :
  tile_ops t W H s b = [OInvert (x_inv t); OFillRect 0 0 W H false] ++ tile_rest t W H s b.
Proof. reflexivity. Qed.

Lemma tile_rest_inv t v W H s b : tile_rest (set_inverted t v) W H s b = tile_rest t W H s b.
Proof. unfold tile_rest. rewrite tile_body_inv, params_inv. reflexivity. Qed.

Lemma no_invert_rest t W H s b : forallb no_invert (tile_rest t W H s b) = true.
Proof. unfold tile_rest. cbv zeta. rewrite !forallb_app, no_invert_map, no_invert_epilogue. reflexivity. Qed.

Theorem tile_inversion t W H s b i0 i1 :
  0 <= W -> 0 <= H ->
  tile_filled (set_inverted t false) W H s b = Ok i0 ->
  tile_filled (set_inverted t true) W H s b = Ok i1 ->
  zlen (idata i1) = zlen (idata i0) /\
  forall c r, 0 <= c < 8 * ((W + 7) / 8) -> 0 <= r < H ->
    px ((W + 7) / 8) (idata i1) c r =
    if c <? W then negb (px ((W + 7) / 8) (idata i0) c r) else px ((W + 7) / 8) (idata i0) c r.
Proof.
  intros HW HH T0 T1.
  unfold tile_filled in T0, T1.
  change (x_bg (set_inverted t false)) with (x_bg t) in T0. change (x_pix (set_inverted t false)) with (x_pix t) in T0.
  change (x_bg (set_inverted t true)) with (x_bg t) in T1. change (x_pix (set_inverted t true)) with (x_pix t) in T1.
  destruct (opt_color_ok (x_bg t) 0) as [bg Ebg]. destruct (opt_color_ok (x_pix t) 65535) as [pc Epc].
  rewrite Ebg, Epc in T0, T1. cbn [bind] in T0, T1.
  rewrite tile_ops_split, tile_rest_inv in T0, T1.
  change (x_inv (set_inverted t false)) with false in T0. change (x_inv (set_inverted t true)) with true in T1.
  fold (canvas W H bg pc) in T0, T1.
  rewrite run_ops_app in T0, T1.
  apply Ok_inj in T0. apply Ok_inj in T1. subst i0 i1.
  set (rest := tile_rest t W H s b).
  pose proof (ops_inversion rest _ _ (no_invert_rest t W H s b) (start_pair W H bg pc HW HH)) as (_ & Hg & _ & _ & _ & (Wa & Wb & E)).
  destruct (ops_frame ([OInvert false; OFillRect 0 0 W H false] ++ rest) (canvas W H bg pc) (canvas_wf W H bg pc HW HH))
    as (_ & EW & EH & Ewib & _ & _).
  rewrite run_ops_app in EW, EH, Ewib.
  change (gW (ig (canvas W H bg pc))) with W in EW. change (gH (ig (canvas W H bg pc))) with H in EH.
  change (gwib (ig (canvas W H bg pc))) with (ceil_div8 W) in Ewib.
  rewrite (ceil_div8_nonneg W HW) in Ewib.
  split.
  - destruct Wa as (_ & _ & _ & La & _). destruct Wb as (_ & _ & _ & Lb & _). rewrite Lb. symmetry. exact La.
  - rewrite Ewib, EW, EH in E. exact E.
Qed.

Corollary tile_inversion_ok t W H s b i0 i1 :
  0 <= W -> 0 <= H ->
  tile_filled (set_inverted t false) W H s b = Ok i0 ->
  tile_filled (set_inverted t true) W H s b = Ok i1 ->
  inversion_ok W H (idata i0) (idata i1) = true.
Proof.
  intros HW HH T0 T1. destruct (tile_inversion t W H s b i0 i1 HW HH T0 T1) as [L E].
  unfold inversion_ok, wib_of. rewrite L, Z.eqb_refl. simpl.
  apply all_cells_spec. intros c r Hc Hr. rewrite (E c r Hc Hr). apply eqb_reflx.
Qed.
